//go:build verif

package main

import "seehuhn.de/go/pdf/zzverif/checks/c20"

func init() { checks["C20"] = check{c20.Run, c20.Replay} }
