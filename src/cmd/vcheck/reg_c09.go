//go:build verif

package main

import "seehuhn.de/go/pdf/zzverif/checks/c09"

func init() { checks["C09"] = check{c09.Run, c09.Replay} }
