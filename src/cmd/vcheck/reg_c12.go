//go:build verif

package main

import "seehuhn.de/go/pdf/zzverif/checks/c12"

func init() { checks["C12"] = check{c12.Run, c12.Replay} }
