//go:build verif

package main

import "seehuhn.de/go/pdf/zzverif/checks/c19"

func init() { checks["C19"] = check{c19.Run, c19.Replay} }
