//go:build verif

package main

import "seehuhn.de/go/pdf/zzverif/checks/c01"

func init() { checks["C01"] = check{c01.Run, c01.Replay} }
