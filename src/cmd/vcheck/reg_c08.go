//go:build verif

package main

import "seehuhn.de/go/pdf/zzverif/checks/c08"

func init() {
	checks["C08"] = check{c08.Run, c08.Replay}
	subcommands["C08:worker"] = c08.Worker
}
