//go:build verif

package main

import "seehuhn.de/go/pdf/zzverif/checks/c17"

func init() { checks["C17"] = check{c17.Run, c17.Replay} }
