//go:build verif

// Command vcheck runs one property check.
//
//	vcheck Cxx quick|thorough
//	vcheck Cxx --replay <file>
package main

import (
	"fmt"
	"os"

	"seehuhn.de/go/pdf/zzverif/engine/ev"
)

type check struct {
	run    func(tier string) int
	replay func(path string) int
}

var checks = map[string]check{}

func main() {
	if len(os.Args) < 3 {
		fmt.Fprintln(os.Stderr, "usage: vcheck Cxx quick|thorough | vcheck Cxx --replay file")
		os.Exit(2)
	}
	id := os.Args[1]
	c, ok := checks[id]
	if !ok {
		fmt.Fprintln(os.Stderr, "unknown check", id)
		os.Exit(2)
	}
	switch os.Args[2] {
	case "quick", "thorough":
		os.Exit(func() int {
			defer ev.RecoverMain()
			return c.run(os.Args[2])
		}())
	case "--replay":
		if len(os.Args) < 4 || c.replay == nil {
			fmt.Fprintln(os.Stderr, "replay: missing file or not supported")
			os.Exit(2)
		}
		os.Exit(c.replay(os.Args[3]))
	default:
		// sub-commands private to a check (workers)
		if sub, ok := subcommands[id+":"+os.Args[2]]; ok {
			os.Exit(sub(os.Args[3:]))
		}
		fmt.Fprintln(os.Stderr, "unknown tier", os.Args[2])
		os.Exit(2)
	}
}

var subcommands = map[string]func(args []string) int{}
