//go:build verif

package main

import "seehuhn.de/go/pdf/zzverif/checks/c11"

func init() {
	checks["C11"] = check{c11.Run, c11.Replay}
	subcommands["C11:case"] = c11.CaseMain
}
