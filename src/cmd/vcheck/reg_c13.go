//go:build verif

package main

import "seehuhn.de/go/pdf/zzverif/checks/c13"

func init() { checks["C13"] = check{c13.Run, c13.Replay} }
