//go:build verif

package main

import "seehuhn.de/go/pdf/zzverif/checks/c15"

func init() { checks["C15"] = check{c15.Run, c15.Replay} }
