//go:build verif

package main

import "seehuhn.de/go/pdf/zzverif/checks/c06"

func init() { checks["C06"] = check{c06.Run, c06.Replay} }
