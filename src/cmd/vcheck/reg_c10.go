//go:build verif

package main

import "seehuhn.de/go/pdf/zzverif/checks/c10"

func init() { checks["C10"] = check{c10.Run, c10.Replay} }
