//go:build verif

package main

import "seehuhn.de/go/pdf/zzverif/checks/c04"

func init() { checks["C04"] = check{c04.Run, c04.Replay} }
