//go:build verif

package main

import "seehuhn.de/go/pdf/zzverif/checks/c05"

func init() {
	checks["C05"] = check{c05.Run, c05.Replay}
	subcommands["C05:worker"] = c05.Worker
}
