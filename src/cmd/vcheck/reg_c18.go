//go:build verif

package main

import "seehuhn.de/go/pdf/zzverif/checks/c18"

func init() {
	checks["C18"] = check{c18.Run, c18.Replay}
	subcommands["C18:racepass"] = c18.RacePass
}
