//go:build verif

package main

import "seehuhn.de/go/pdf/zzverif/checks/c02"

func init() { checks["C02"] = check{c02.Run, c02.Replay} }
