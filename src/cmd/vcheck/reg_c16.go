//go:build verif

package main

import "seehuhn.de/go/pdf/zzverif/checks/c16"

func init() { checks["C16"] = check{c16.Run, c16.Replay} }
