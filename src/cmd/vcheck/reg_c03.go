//go:build verif

package main

import "seehuhn.de/go/pdf/zzverif/checks/c03"

func init() { checks["C03"] = check{c03.Run, c03.Replay} }
