//go:build verif

package main

import "seehuhn.de/go/pdf/zzverif/checks/c14"

func init() { checks["C14"] = check{c14.Run, c14.Replay} }
