//go:build verif

package main

import "seehuhn.de/go/pdf/zzverif/checks/c07"

func init() { checks["C07"] = check{c07.Run, c07.Replay} }
