//go:build verif

package pagetree

import (
	"fmt"
	"strings"
	"unsafe"

	"seehuhn.de/go/pdf"
)

// VerifMaxDegree is the fan-out limit of the writer.
const VerifMaxDegree = maxDegree

// A func value is a pointer to {code pointer, captured variables...}; for a
// method value x.M the only captured variable is the receiver.  The layout is
// checked by VerifClosureSelfTest before anything relies on it.
type verifFuncval struct {
	code uintptr
	recv unsafe.Pointer
}

// VerifDecodeFunc returns the code pointer and the first captured word of a
// method-value closure.
func VerifDecodeFunc(fn func(int)) (code uintptr, recv unsafe.Pointer) {
	fv := *(**verifFuncval)(unsafe.Pointer(&fn))
	return fv.code, fv.recv
}

var verifUpdateCode = func() uintptr {
	c, _ := VerifDecodeFunc((&futureInt{}).Update)
	return c
}()

// VerifClosureSelfTest checks the closure layout assumption on futureInt.Update.
func VerifClosureSelfTest() error {
	f, g := &futureInt{val: 7}, &futureInt{val: 8}
	for _, x := range []*futureInt{f, g} {
		c, r := VerifDecodeFunc(x.Update)
		if c != verifUpdateCode || (*futureInt)(r) != x {
			return fmt.Errorf("method value closure layout is not {code, receiver}")
		}
	}
	return nil
}

type verifDumper struct {
	b     strings.Builder
	seen  map[*futureInt]int
	label func(code uintptr, recv unsafe.Pointer) (string, bool)
	bad   bool
}

func (d *verifDumper) cbs(l []func(int)) {
	d.b.WriteByte('[')
	for _, cb := range l {
		code, recv := VerifDecodeFunc(cb)
		if code == verifUpdateCode {
			d.b.WriteString("U(")
			d.fi((*futureInt)(recv))
			d.b.WriteByte(')')
		} else if s, ok := d.label(code, recv); ok {
			d.b.WriteString("C(" + s + ")")
		} else {
			d.bad = true
			d.b.WriteString("?")
		}
	}
	d.b.WriteByte(']')
}

func (d *verifDumper) fi(f *futureInt) {
	if f == nil {
		d.b.WriteString("nil")
		return
	}
	if k, ok := d.seen[f]; ok {
		fmt.Fprintf(&d.b, "F%d", k)
		return
	}
	k := len(d.seen)
	d.seen[f] = k
	fmt.Fprintf(&d.b, "F%d{%d,%d,", k, f.val, f.numMissing)
	d.cbs(f.cb)
	d.b.WriteByte('}')
}

var verifKeys = []pdf.Name{"Type", "MediaBox", "CropBox", "Rotate", "Resources"}

func (d *verifDumper) node(n *nodeInfo, resName func(any) string) {
	fmt.Fprintf(&d.b, "(%d,%d", n.depth, n.pageCount)
	if p := n.pendingPage; p != nil {
		d.b.WriteString(",P")
		if p.MediaBox != nil {
			d.b.WriteString(",M" + p.MediaBox.String())
		}
		if p.CropBox != nil {
			d.b.WriteString(",C" + p.CropBox.String())
		}
		fmt.Fprintf(&d.b, ",R%d,S%s", int(p.Rotate), resName(p.Resources))
	} else {
		for _, k := range verifKeys {
			v, ok := n.dict[k]
			if !ok {
				continue
			}
			if _, isRef := v.(pdf.Reference); isRef || k == "Resources" {
				d.b.WriteString("," + string(k) + "=" + resName(v))
			} else {
				d.b.WriteString("," + string(k) + "=" + pdf.AsString(v))
			}
		}
		if kids, ok := n.dict["Kids"].(pdf.Array); ok {
			fmt.Fprintf(&d.b, ",k%d", len(kids))
		}
	}
	d.b.WriteByte(')')
}

func (d *verifDumper) writer(w *Writer, resName func(any) string) {
	fmt.Fprintf(&d.b, "W{c=%v,e=%v,root=%v,out=%d/%d,tail=", w.isClosed, w.err != nil, w.parent == nil, len(w.outObjects), len(w.outRefs))
	for _, n := range w.tail {
		d.node(n, resName)
	}
	d.b.WriteString(",npn=")
	d.fi(w.nextPageNumber)
	d.b.WriteString(",cb=")
	d.cbs(w.nextPageNumberCb)
	d.b.WriteString(",ncb=")
	d.cbs(w.numPagesCb)
	d.b.WriteString(",ch=<")
	for _, c := range w.children {
		if c.parent != w {
			d.b.WriteString("!parent")
		}
		d.writer(c, resName)
	}
	d.b.WriteString(">}")
}

// VerifDump renders everything reachable from the (root) writer w that can
// influence later behaviour of the page tree writer, with object references
// abstracted: the tree of writers with their tails (depth, page count,
// inheritable attributes of every tail node), the number of queued output
// objects, and the graph of futureInt objects and callbacks.  label names the
// callbacks that are not futureInt.Update method values (the caller's own);
// resName names a /Resources value (a pointer, dictionary or reference).
// ok is false if a callback could not be identified.
func VerifDump(w *Writer, label func(code uintptr, recv unsafe.Pointer) (string, bool), resName func(any) string) (dump string, ok bool) {
	d := &verifDumper{seen: map[*futureInt]int{}, label: label}
	d.writer(w, resName)
	return d.b.String(), !d.bad
}

// VerifTailDepths returns the depth sequence of the writer's tail.
func VerifTailDepths(w *Writer) []int {
	out := make([]int, len(w.tail))
	for i, n := range w.tail {
		out[i] = n.depth
	}
	return out
}
