//go:build verif

package content

import (
	"fmt"
	"sort"
	"strings"

	"seehuhn.de/go/pdf/graphics"
)

// VerifOperatorTable returns the names in the scanner's operator table.
func VerifOperatorTable() []string {
	out := make([]string, 0, len(operatorTable))
	for k := range operatorTable {
		out = append(out, k)
	}
	sort.Strings(out)
	return out
}

// VerifKey renders everything of the State that decides whether a later
// Builder call is accepted and whether it emits an operator (C15 BFS state
// key).  Coordinates, matrices and path data are left out on purpose.
func (s *State) VerifKey() string {
	var b strings.Builder
	fmt.Fprintf(&b, "o%d,n", s.CurrentObject)
	for _, f := range s.nesting {
		b.WriteByte("?qtmx"[f.Kind])
	}
	fmt.Fprintf(&b, " u%x f%v c%d a%v p%v", uint64(s.Usable), s.ColorOpsForbidden,
		s.compatibilityDepth, s.allSubpathsClosed(), s.pendingClip)
	verifGS(&b, s.GState)
	for _, sv := range s.stack {
		fmt.Fprintf(&b, "|u%x", uint64(sv.Usable))
		verifGS(&b, sv.GState)
	}
	return b.String()
}

func verifGS(b *strings.Builder, g *graphics.State) {
	fmt.Fprintf(b, " s%x w%g c%d j%d m%g d%v/%g ri%s fl%g S%v F%v tf%v/%g tc%g tw%g tz%g tl%g tr%d ts%g",
		uint64(g.Set), g.LineWidth, g.LineCap, g.LineJoin, g.MiterLimit, g.DashPattern, g.DashPhase,
		g.RenderingIntent, g.FlatnessTolerance, g.StrokeColor, g.FillColor, g.TextFont != nil, g.TextFontSize,
		g.TextCharacterSpacing, g.TextWordSpacing, g.TextHorizontalScaling, g.TextLeading,
		g.TextRenderingMode, g.TextRise)
}
