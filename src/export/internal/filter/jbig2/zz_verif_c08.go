//go:build verif

package jbig2

import "seehuhn.de/go/pdf/graphics/bitmap"

// VerifSDClass is one height class of an arithmetic-coded symbol dictionary
// (ISO/IEC 14492 6.5.5, SDHUFF = 0, SDREFAGG = 0): the height class delta and
// the width deltas of its symbols.  The class is closed with OOB.
type VerifSDClass struct {
	DH     int64
	Widths []int64
}

// VerifEncodeHeightClasses returns the MQ-coded data of a symbol dictionary
// whose height classes are exactly the given ones (IADH, then IADW + the
// symbol bitmap per symbol, then IADW = OOB), followed by the export run
// lengths (IAEX), followed by the encoder's flush.  Symbol bitmaps are a
// fixed pattern of the size the deltas add up to; a symbol whose size is not
// positive (or larger than 4096 in a direction) gets no bitmap data, and no
// bitmap data is written after it.  C08 uses the result as an opaque byte
// string; nothing in the check's oracle depends on it.
func VerifEncodeHeightClasses(template int, atx, aty [4]int8, classes []VerifSDClass, export []int64) []byte {
	enc := newMQEncoder()
	iadh, iadw, iaex := &intCtx{}, &intCtx{}, &intCtx{}
	gbCx := make([]byte, genericContextSize(template))
	var height int64
	bitmaps := true
	for _, c := range classes {
		iadh.encode(enc, c.DH)
		height += c.DH
		var width int64
		for _, dw := range c.Widths {
			iadw.encode(enc, dw)
			width += dw
			if width < 1 || height < 1 || width > 4096 || height > 4096 {
				bitmaps = false
			}
			if !bitmaps {
				continue
			}
			w, h := int(width), int(height)
			bm := bitmap.New(w, h)
			for y := 0; y < h; y++ {
				for x := 0; x < w; x++ {
					if (x*x+2*y*y+x*y)%5 < 2 || x == y {
						bm.SetPixel(x, y, true)
					}
				}
			}
			p := &genericRegionParams{Width: w, Height: h, Template: template}
			copy(p.ATX[:], atx[:])
			copy(p.ATY[:], aty[:])
			encodeGenericRegion(enc, bm, p, gbCx)
		}
		iadw.encodeOOB(enc)
	}
	for _, v := range export {
		iaex.encode(enc, v)
	}
	enc.flush()
	return append([]byte(nil), enc.bytes()...)
}
