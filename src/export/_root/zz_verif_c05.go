//go:build verif

package pdf

import "sort"

// VerifXRefReferences returns a reference (number and generation) for every
// entry of the reader's cross-reference table that is in use, in increasing
// order of object number (C05: "fetch every cross-referenced object").
func VerifXRefReferences(r *Reader) []Reference {
	out := make([]Reference, 0, len(r.xref))
	for num, e := range r.xref {
		if e.IsFree() {
			continue
		}
		out = append(out, Reference(uint64(num)|uint64(e.Generation)<<32)) // not NewReference: it panics above 2^24
	}
	sort.Slice(out, func(i, j int) bool { return out[i].Number() < out[j].Number() })
	return out
}
