//go:build verif

package pdf

import (
	"bytes"
	"errors"
	"fmt"
	"maps"
	"reflect"
	"sort"
)

// VerifCopierTrans returns the source references the copier has a translation
// for, with their target references, sorted by source reference (C11: state
// key of the program search).
func VerifCopierTrans(c *Copier) [][2]Reference {
	// read through reflection so that a change of the table's key or value
	// type (a refactoring of the Copier) does not break the harness build
	rv := reflect.ValueOf(c.trans)
	out := make([][2]Reference, 0, rv.Len())
	for _, k := range rv.MapKeys() {
		out = append(out, [2]Reference{verifAsRef(k), verifAsRef(rv.MapIndex(k))})
	}
	sort.Slice(out, func(i, j int) bool { return out[i][0] < out[j][0] })
	return out
}

func verifAsRef(v reflect.Value) Reference {
	if v.Type() == reflect.TypeOf(Reference(0)) {
		return Reference(v.Uint())
	}
	switch v.Kind() {
	case reflect.Uint, reflect.Uint8, reflect.Uint16, reflect.Uint32, reflect.Uint64:
		return NewReference(uint32(v.Uint()), 0)
	case reflect.Int, reflect.Int8, reflect.Int16, reflect.Int32, reflect.Int64:
		return NewReference(uint32(v.Int()), 0)
	}
	return 0
}

type verifNopCloser struct{ *bytes.Buffer }

func (verifNopCloser) Close() error { return nil }

// VerifPutRawStream writes a stream object whose dictionary is emitted exactly
// as given: /Filter and /DecodeParms are not inlined (Writer.OpenStream would
// do that), and if lengthRef is not zero /Length is written as that reference
// and the integer object is written after the stream.  data is the encoded
// body; it is encrypted like any stream of this writer.  Only used to build
// source fixtures (C11).
func VerifPutRawStream(w *Writer, ref Reference, dict Dict, data []byte, lengthRef Reference) error {
	if w.inStream {
		return errors.New("VerifPutRawStream while stream is open")
	}
	body := data
	if w.w.enc != nil {
		buf := &bytes.Buffer{}
		ew, err := w.w.enc.EncryptStream(ref, verifNopCloser{buf})
		if err != nil {
			return err
		}
		if _, err := ew.Write(data); err != nil {
			return err
		}
		if err := ew.Close(); err != nil {
			return err
		}
		body = buf.Bytes()
	}
	d := maps.Clone(dict)
	if d == nil {
		d = Dict{}
	}
	if lengthRef != 0 {
		d["Length"] = lengthRef
	} else {
		d["Length"] = Integer(len(body))
	}
	err := w.setXRef(ref, &xRefEntry{Pos: w.w.pos, Generation: ref.Generation()})
	if err != nil {
		return err
	}
	w.w.ref = ref
	if _, err := fmt.Fprintf(w.w, "%d %d obj\n", ref.Number(), ref.Generation()); err != nil {
		return err
	}
	if err := Format(w.w, w.outputOptions, d); err != nil {
		return err
	}
	if _, err := w.w.Write([]byte("\nstream\n")); err != nil {
		return err
	}
	if _, err := w.w.Write(body); err != nil {
		return err
	}
	if _, err := w.w.Write([]byte("\nendstream\nendobj\n")); err != nil {
		return err
	}
	if lengthRef != 0 {
		return w.Put(lengthRef, Integer(len(body)))
	}
	return nil
}
