//go:build verif

package pdf

import (
	"bytes"
	"io"
)

// VerifParseObjects runs the scanner over data and returns the sequence of
// top-level objects (references are not resolved at top level: the scanner
// leaves "a b R" to its callers there).
func VerifParseObjects(data []byte) ([]Object, error) {
	s := newScanner(bytes.NewReader(data), nil, nil)
	var out []Object
	for {
		err := s.SkipWhiteSpace()
		if err == io.EOF {
			return out, nil
		}
		if err != nil {
			return out, err
		}
		b, _ := s.PeekN(1)
		if len(b) == 0 {
			return out, nil
		}
		obj, err := s.ReadObject()
		if err != nil {
			return out, err
		}
		out = append(out, obj)
	}
}

// VerifReadIndirectObject parses "N G obj ... endobj".
func VerifReadIndirectObject(data []byte) (Native, Reference, error) {
	s := newScanner(bytes.NewReader(data), nil, nil)
	return s.ReadIndirectObject()
}
