//go:build verif

package pdf

import (
	"errors"
	"fmt"
	"maps"
)

// VerifPutRawStreamPlain writes a stream object whose dictionary is emitted
// exactly as given (plus /Length) and whose body is written as it is, also by
// an encrypting writer: the on-disk form of a stream whose filter chain
// begins with /Crypt (Identity).  Strings inside the dictionary are encrypted
// like those of any object.  Only used to build source fixtures (C11).
func VerifPutRawStreamPlain(w *Writer, ref Reference, dict Dict, data []byte) error {
	if w.inStream {
		return errors.New("VerifPutRawStreamPlain while stream is open")
	}
	d := maps.Clone(dict)
	if d == nil {
		d = Dict{}
	}
	d["Length"] = Integer(len(data))
	err := w.setXRef(ref, &xRefEntry{Pos: w.w.pos, Generation: ref.Generation()})
	if err != nil {
		return err
	}
	w.w.ref = ref
	if _, err := fmt.Fprintf(w.w, "%d %d obj\n", ref.Number(), ref.Generation()); err != nil {
		return err
	}
	if err := Format(w.w, w.outputOptions, d); err != nil {
		return err
	}
	if _, err := w.w.Write([]byte("\nstream\n")); err != nil {
		return err
	}
	if _, err := w.w.Write(data); err != nil {
		return err
	}
	_, err = w.w.Write([]byte("\nendstream\nendobj\n"))
	return err
}
