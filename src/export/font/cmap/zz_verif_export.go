//go:build verif

package cmap

// VerifResetPredefined empties the package-level cache of predefined CMaps,
// so that every execution of a scheduled scenario starts from the same state.
func VerifResetPredefined() {
	predefinedMu.Lock()
	predefinedCache = make(map[string]*File)
	predefinedMu.Unlock()
}
