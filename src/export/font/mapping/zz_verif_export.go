//go:build verif

package mapping

import "seehuhn.de/go/postscript/cid"

// VerifResetCaches empties the package-level mapping caches.
func VerifResetCaches() {
	resourceMutex.Lock()
	cache = make(map[string]map[cid.CID]string)
	reverseCache = make(map[string]map[string]cid.CID)
	resourceMutex.Unlock()
}
