//go:build verif

package charcode

// VerifNumNodes returns the number of nodes of the linearised lookup tree.
// Check C12 uses it only to report which tree sizes its spaces reach (an
// outcome class), never to judge.
func (c *Codec) VerifNumNodes() int { return len(c.nodes) }
