// Package pdfsyn is an independent implementation of PDF object syntax
// (ISO 32000-2 §7.2, §7.3) used as an oracle: a value type, a strict parser
// and a printer with rendering knobs.  It shares no code with seehuhn.de/go/pdf.
package pdfsyn

import (
	"bytes"
	"errors"
	"fmt"
	"math"
	"sort"
	"strconv"
)

type Kind uint8

const (
	Null Kind = iota
	Bool
	Int
	Real
	Name
	String
	Array
	Dict
	Ref
	Keyword // only produced by the tokenizer in content-stream mode
)

type Entry struct {
	Key []byte
	Val Value
}

// Value is a PDF object.
type Value struct {
	K Kind
	B bool
	I int64
	F float64
	S []byte  // name, string or keyword bytes
	A []Value // array elements
	D []Entry // dictionary entries in file order
	N int64   // reference number
	G int64   // reference generation
}

func NullV() Value            { return Value{K: Null} }
func BoolV(b bool) Value      { return Value{K: Bool, B: b} }
func IntV(i int64) Value      { return Value{K: Int, I: i} }
func RealV(f float64) Value   { return Value{K: Real, F: f} }
func NameV(s string) Value    { return Value{K: Name, S: []byte(s)} }
func StrV(s string) Value     { return Value{K: String, S: []byte(s)} }
func ArrV(a ...Value) Value   { return Value{K: Array, A: append([]Value{}, a...)} }
func RefV(n, g int64) Value   { return Value{K: Ref, N: n, G: g} }
func DictV(kv ...any) Value {
	v := Value{K: Dict}
	for i := 0; i+1 < len(kv); i += 2 {
		v.D = append(v.D, Entry{Key: []byte(kv[i].(string)), Val: kv[i+1].(Value)})
	}
	return v
}

// Get returns the value of a dictionary key (Null if absent).
func (v Value) Get(key string) Value {
	for i := len(v.D) - 1; i >= 0; i-- {
		if string(v.D[i].Key) == key {
			return v.D[i].Val
		}
	}
	return Value{}
}

func (v Value) Has(key string) bool {
	for i := range v.D {
		if string(v.D[i].Key) == key {
			return true
		}
	}
	return false
}

// Equal is structural equality: a dictionary entry whose value is null counts
// as absent; integers and reals are different kinds.
func Equal(a, b Value) bool {
	if a.K != b.K {
		return false
	}
	switch a.K {
	case Null:
		return true
	case Bool:
		return a.B == b.B
	case Int:
		return a.I == b.I
	case Real:
		return a.F == b.F || (math.IsNaN(a.F) && math.IsNaN(b.F))
	case Name, String, Keyword:
		return bytes.Equal(a.S, b.S)
	case Ref:
		return a.N == b.N && a.G == b.G
	case Array:
		if len(a.A) != len(b.A) {
			return false
		}
		for i := range a.A {
			if !Equal(a.A[i], b.A[i]) {
				return false
			}
		}
		return true
	case Dict:
		am, bm := a.dictMap(), b.dictMap()
		if len(am) != len(bm) {
			return false
		}
		for k, av := range am {
			bv, ok := bm[k]
			if !ok || !Equal(av, bv) {
				return false
			}
		}
		return true
	}
	return false
}

func (v Value) dictMap() map[string]Value {
	m := map[string]Value{}
	for _, e := range v.D {
		if e.Val.K == Null {
			delete(m, string(e.Key))
			continue
		}
		m[string(e.Key)] = e.Val
	}
	return m
}

// SortedKeys returns the keys with non-null values in byte order.
func (v Value) SortedKeys() []string {
	m := v.dictMap()
	keys := make([]string, 0, len(m))
	for k := range m {
		keys = append(keys, k)
	}
	sort.Strings(keys)
	return keys
}

func (v Value) String() string {
	var b bytes.Buffer
	Print(&b, v, Style{})
	return b.String()
}

// ---------------------------------------------------------------------------
// character classes (§7.2.3)

func IsWhite(c byte) bool {
	return c == 0 || c == 9 || c == 10 || c == 12 || c == 13 || c == 32
}

func IsDelim(c byte) bool {
	switch c {
	case '(', ')', '<', '>', '[', ']', '{', '}', '/', '%':
		return true
	}
	return false
}

func IsRegular(c byte) bool { return !IsWhite(c) && !IsDelim(c) }

// ---------------------------------------------------------------------------
// parser

var ErrEOF = errors.New("pdfsyn: unexpected end of input")

type Parser struct {
	Buf []byte
	Pos int
	// ContentMode makes bare keywords legal values (Kind Keyword) and disables
	// reference detection.
	ContentMode bool
	depth       int
}

func NewParser(buf []byte) *Parser { return &Parser{Buf: buf} }

func (p *Parser) errf(format string, a ...any) error {
	return fmt.Errorf("pdfsyn: offset %d: %s", p.Pos, fmt.Sprintf(format, a...))
}

// SkipWS skips white space and comments.
func (p *Parser) SkipWS() {
	for p.Pos < len(p.Buf) {
		c := p.Buf[p.Pos]
		if IsWhite(c) {
			p.Pos++
		} else if c == '%' {
			for p.Pos < len(p.Buf) && p.Buf[p.Pos] != '\n' && p.Buf[p.Pos] != '\r' {
				p.Pos++
			}
		} else {
			return
		}
	}
}

func (p *Parser) AtEnd() bool {
	p.SkipWS()
	return p.Pos >= len(p.Buf)
}

// regularRun returns the run of regular characters at the current position.
func (p *Parser) regularRun() []byte {
	i := p.Pos
	for i < len(p.Buf) && IsRegular(p.Buf[i]) {
		i++
	}
	return p.Buf[p.Pos:i]
}

// Keyword consumes the given keyword (which must end at a token boundary).
func (p *Parser) Keyword(kw string) bool {
	p.SkipWS()
	run := p.regularRun()
	if string(run) == kw {
		p.Pos += len(run)
		return true
	}
	return false
}

// PeekKeyword reports whether the next token is the keyword.
func (p *Parser) PeekKeyword(kw string) bool {
	save := p.Pos
	ok := p.Keyword(kw)
	p.Pos = save
	return ok
}

func parseNumber(tok []byte) (Value, bool) {
	if len(tok) == 0 {
		return Value{}, false
	}
	i := 0
	if tok[0] == '+' || tok[0] == '-' {
		i++
	}
	digits, dots := 0, 0
	for ; i < len(tok); i++ {
		switch {
		case tok[i] >= '0' && tok[i] <= '9':
			digits++
		case tok[i] == '.':
			dots++
		default:
			return Value{}, false
		}
	}
	if digits == 0 || dots > 1 {
		return Value{}, false
	}
	if dots == 0 {
		n, err := strconv.ParseInt(string(tok), 10, 64)
		if err == nil {
			return IntV(n), true
		}
		f, err := strconv.ParseFloat(string(tok), 64)
		if err != nil && !errors.Is(err, strconv.ErrRange) {
			return Value{}, false
		}
		return RealV(f), true
	}
	f, err := strconv.ParseFloat(string(tok), 64)
	if err != nil && !errors.Is(err, strconv.ErrRange) {
		return Value{}, false
	}
	return RealV(f), true
}

func unhex(c byte) int {
	switch {
	case c >= '0' && c <= '9':
		return int(c - '0')
	case c >= 'a' && c <= 'f':
		return int(c-'a') + 10
	case c >= 'A' && c <= 'F':
		return int(c-'A') + 10
	}
	return -1
}

// Object parses one object, resolving "n g R".
func (p *Parser) Object() (Value, error) {
	p.SkipWS()
	if p.Pos >= len(p.Buf) {
		return Value{}, ErrEOF
	}
	if p.depth > 600 {
		return Value{}, p.errf("nesting too deep")
	}
	c := p.Buf[p.Pos]
	switch {
	case c == '/':
		p.Pos++
		run := p.regularRun()
		p.Pos += len(run)
		name := make([]byte, 0, len(run))
		for i := 0; i < len(run); i++ {
			if run[i] == '#' {
				if i+2 > len(run)-1 {
					return Value{}, p.errf("bad # escape in name")
				}
				h, l := unhex(run[i+1]), unhex(run[i+2])
				if h < 0 || l < 0 {
					return Value{}, p.errf("bad # escape in name")
				}
				name = append(name, byte(h<<4|l))
				i += 2
			} else {
				name = append(name, run[i])
			}
		}
		return Value{K: Name, S: name}, nil
	case c == '(':
		return p.literalString()
	case c == '<':
		if p.Pos+1 < len(p.Buf) && p.Buf[p.Pos+1] == '<' {
			return p.dict()
		}
		return p.hexString()
	case c == '[':
		p.Pos++
		p.depth++
		defer func() { p.depth-- }()
		v := Value{K: Array, A: []Value{}}
		for {
			p.SkipWS()
			if p.Pos >= len(p.Buf) {
				return Value{}, ErrEOF
			}
			if p.Buf[p.Pos] == ']' {
				p.Pos++
				return v, nil
			}
			e, err := p.Object()
			if err != nil {
				return Value{}, err
			}
			v.A = append(v.A, e)
		}
	case c == ')' || c == '>' || c == ']' || c == '{' || c == '}':
		return Value{}, p.errf("unexpected delimiter %q", c)
	}
	run := p.regularRun()
	if num, ok := parseNumber(run); ok {
		p.Pos += len(run)
		if num.K == Int && !p.ContentMode && num.I >= 0 {
			// look ahead for "g R"
			save := p.Pos
			p.SkipWS()
			run2 := p.regularRun()
			if g, ok := parseNumber(run2); ok && g.K == Int && g.I >= 0 && len(run2) > 0 && run2[0] != '+' && run[0] != '+' {
				p.Pos += len(run2)
				p.SkipWS()
				run3 := p.regularRun()
				if string(run3) == "R" {
					p.Pos += 1
					return RefV(num.I, g.I), nil
				}
			}
			p.Pos = save
		}
		return num, nil
	}
	switch string(run) {
	case "null":
		p.Pos += 4
		return NullV(), nil
	case "true":
		p.Pos += 4
		return BoolV(true), nil
	case "false":
		p.Pos += 5
		return BoolV(false), nil
	}
	if p.ContentMode && len(run) > 0 {
		p.Pos += len(run)
		return Value{K: Keyword, S: append([]byte{}, run...)}, nil
	}
	return Value{}, p.errf("unexpected token %q", run)
}

func (p *Parser) literalString() (Value, error) {
	p.Pos++ // (
	var out []byte
	level := 1
	for {
		if p.Pos >= len(p.Buf) {
			return Value{}, ErrEOF
		}
		c := p.Buf[p.Pos]
		p.Pos++
		switch c {
		case '(':
			level++
			out = append(out, c)
		case ')':
			level--
			if level == 0 {
				if out == nil {
					out = []byte{}
				}
				return Value{K: String, S: out}, nil
			}
			out = append(out, c)
		case '\r':
			// EOL inside a string is read as LF
			if p.Pos < len(p.Buf) && p.Buf[p.Pos] == '\n' {
				p.Pos++
			}
			out = append(out, '\n')
		case '\\':
			if p.Pos >= len(p.Buf) {
				return Value{}, ErrEOF
			}
			e := p.Buf[p.Pos]
			p.Pos++
			switch e {
			case 'n':
				out = append(out, '\n')
			case 'r':
				out = append(out, '\r')
			case 't':
				out = append(out, '\t')
			case 'b':
				out = append(out, '\b')
			case 'f':
				out = append(out, '\f')
			case '(', ')', '\\':
				out = append(out, e)
			case '\r':
				if p.Pos < len(p.Buf) && p.Buf[p.Pos] == '\n' {
					p.Pos++
				}
			case '\n':
				// line continuation
			default:
				if e >= '0' && e <= '7' {
					v := int(e - '0')
					for k := 0; k < 2 && p.Pos < len(p.Buf) && p.Buf[p.Pos] >= '0' && p.Buf[p.Pos] <= '7'; k++ {
						v = v*8 + int(p.Buf[p.Pos]-'0')
						p.Pos++
					}
					out = append(out, byte(v))
				} else {
					// unknown escape: the backslash is ignored
					out = append(out, e)
				}
			}
		default:
			out = append(out, c)
		}
	}
}

func (p *Parser) hexString() (Value, error) {
	p.Pos++ // <
	out := []byte{}
	hi := -1
	for {
		if p.Pos >= len(p.Buf) {
			return Value{}, ErrEOF
		}
		c := p.Buf[p.Pos]
		p.Pos++
		if c == '>' {
			if hi >= 0 {
				out = append(out, byte(hi<<4))
			}
			return Value{K: String, S: out}, nil
		}
		if IsWhite(c) {
			continue
		}
		h := unhex(c)
		if h < 0 {
			return Value{}, p.errf("bad hex digit %q", c)
		}
		if hi < 0 {
			hi = h
		} else {
			out = append(out, byte(hi<<4|h))
			hi = -1
		}
	}
}

func (p *Parser) dict() (Value, error) {
	p.Pos += 2
	p.depth++
	defer func() { p.depth-- }()
	v := Value{K: Dict, D: []Entry{}}
	for {
		p.SkipWS()
		if p.Pos >= len(p.Buf) {
			return Value{}, ErrEOF
		}
		if p.Buf[p.Pos] == '>' {
			if p.Pos+1 < len(p.Buf) && p.Buf[p.Pos+1] == '>' {
				p.Pos += 2
				return v, nil
			}
			return Value{}, p.errf("single > in dictionary")
		}
		k, err := p.Object()
		if err != nil {
			return Value{}, err
		}
		if k.K != Name {
			return Value{}, p.errf("dictionary key is not a name")
		}
		val, err := p.Object()
		if err != nil {
			return Value{}, err
		}
		v.D = append(v.D, Entry{Key: k.S, Val: val})
	}
}

// ParseAll parses a sequence of objects.
func ParseAll(buf []byte) ([]Value, error) {
	p := NewParser(buf)
	var out []Value
	for !p.AtEnd() {
		v, err := p.Object()
		if err != nil {
			return out, err
		}
		out = append(out, v)
	}
	return out, nil
}

// ---------------------------------------------------------------------------
// printer

// Style selects among the renderings the specification allows.
type Style struct {
	WS         int  // 0: single space, 1: LF, 2: CR LF + comment lines, 3: tabs/FF/NUL-free mix
	HexStrings bool // strings as <...>
	HexNames   bool // every name byte as #xx
	OctalStr   bool // non-printable string bytes as \ooo
}

func (s Style) sep() string {
	switch s.WS {
	case 1:
		return "\n"
	case 2:
		return "\r\n% a comment with (unbalanced [delimiters <<\r\n"
	case 3:
		return " \t\f "
	}
	return " "
}

func Print(w *bytes.Buffer, v Value, st Style) {
	switch v.K {
	case Null:
		w.WriteString("null")
	case Bool:
		if v.B {
			w.WriteString("true")
		} else {
			w.WriteString("false")
		}
	case Int:
		w.WriteString(strconv.FormatInt(v.I, 10))
	case Real:
		s := strconv.FormatFloat(v.F, 'f', -1, 64)
		if !bytes.ContainsRune([]byte(s), '.') {
			s += ".0"
		}
		w.WriteString(s)
	case Name:
		w.WriteByte('/')
		for _, c := range v.S {
			if st.HexNames || !IsRegular(c) || c == '#' || c < 33 || c > 126 {
				fmt.Fprintf(w, "#%02X", c)
			} else {
				w.WriteByte(c)
			}
		}
	case Keyword:
		w.Write(v.S)
	case String:
		if st.HexStrings {
			w.WriteByte('<')
			for i, c := range v.S {
				fmt.Fprintf(w, "%02x", c)
				if st.WS != 0 && i%3 == 2 {
					w.WriteByte(' ')
				}
			}
			w.WriteByte('>')
			return
		}
		w.WriteByte('(')
		for _, c := range v.S {
			switch {
			case c == '(' || c == ')' || c == '\\':
				w.WriteByte('\\')
				w.WriteByte(c)
			case c == '\r':
				w.WriteString("\\r")
			case c == '\n':
				if st.OctalStr {
					w.WriteString("\\012")
				} else {
					w.WriteString("\\n")
				}
			case st.OctalStr && (c < 32 || c > 126):
				fmt.Fprintf(w, "\\%03o", c)
			default:
				w.WriteByte(c)
			}
		}
		w.WriteByte(')')
	case Ref:
		fmt.Fprintf(w, "%d%s%d%sR", v.N, st.sep(), v.G, st.sep())
	case Array:
		w.WriteByte('[')
		for i, e := range v.A {
			if i > 0 || st.WS != 0 {
				w.WriteString(st.sep())
			}
			Print(w, e, st)
		}
		if st.WS != 0 {
			w.WriteString(st.sep())
		}
		w.WriteByte(']')
	case Dict:
		w.WriteString("<<")
		for _, e := range v.D {
			if st.WS != 0 {
				w.WriteString(st.sep())
			}
			Print(w, Value{K: Name, S: e.Key}, st)
			w.WriteString(st.sep())
			Print(w, e.Val, st)
		}
		if st.WS != 0 {
			w.WriteString(st.sep())
		}
		w.WriteString(">>")
	}
}
