package pdffile

import (
	"bytes"
	"encoding/ascii85"
	"fmt"
	"io"
	"regexp"

	stdlzw "compress/lzw"

	"golang.org/x/image/tiff/lzw"

	"seehuhn.de/go/pdf/zzverif/ref/pdfsyn"
	"seehuhn.de/go/pdf/zzverif/ref/stdsec"
)

// DecodeFilters applies the filters named in the stream dictionary to raw
// (already decrypted) data, using implementations independent of go-pdf:
// compress/zlib, encoding/ascii85, x/image/tiff/lzw and the small decoders
// below.
func DecodeFilters(dict pdfsyn.Value, raw []byte) ([]byte, error) {
	f := dict.Get("Filter")
	p := dict.Get("DecodeParms")
	var names []string
	var parms []pdfsyn.Value
	switch f.K {
	case pdfsyn.Null:
	case pdfsyn.Name:
		names = []string{string(f.S)}
		parms = []pdfsyn.Value{p}
	case pdfsyn.Array:
		for i, e := range f.A {
			if e.K != pdfsyn.Name {
				return nil, fmt.Errorf("/Filter entry %d is not a name", i)
			}
			names = append(names, string(e.S))
			pv := pdfsyn.NullV()
			if p.K == pdfsyn.Array {
				if len(p.A) != len(f.A) {
					return nil, fmt.Errorf("/DecodeParms has %d entries, /Filter has %d", len(p.A), len(f.A))
				}
				pv = p.A[i]
			} else if p.K != pdfsyn.Null {
				return nil, fmt.Errorf("/Filter is an array but /DecodeParms is not")
			}
			parms = append(parms, pv)
		}
	default:
		return nil, fmt.Errorf("bad /Filter")
	}
	data := raw
	for i, n := range names {
		var err error
		switch n {
		case "FlateDecode":
			data, err = Inflate(data)
		case "LZWDecode":
			early := int64(1)
			if parms[i].K == pdfsyn.Dict {
				if e, ok := intOf(parms[i].Get("EarlyChange")); ok {
					early = e
				}
			}
			if early == 1 {
				rd := lzw.NewReader(bytes.NewReader(data), lzw.MSB, 8)
				data, err = io.ReadAll(rd)
			} else {
				rd := stdlzw.NewReader(bytes.NewReader(data), stdlzw.MSB, 8)
				data, err = io.ReadAll(rd)
			}
		case "ASCII85Decode":
			data, err = unA85(data)
		case "ASCIIHexDecode":
			data, err = unHex(data)
		case "RunLengthDecode":
			data, err = unRL(data)
		default:
			return nil, fmt.Errorf("filter %s not supported by the independent decoder", n)
		}
		if err != nil {
			return nil, fmt.Errorf("%s: %w", n, err)
		}
		if parms[i].K == pdfsyn.Dict && (n == "FlateDecode" || n == "LZWDecode") {
			pred, _ := intOf(parms[i].Get("Predictor"))
			if pred >= 10 {
				cols, ok := intOf(parms[i].Get("Columns"))
				if !ok {
					cols = 1
				}
				colors, ok := intOf(parms[i].Get("Colors"))
				if !ok {
					colors = 1
				}
				bpc, ok := intOf(parms[i].Get("BitsPerComponent"))
				if !ok {
					bpc = 8
				}
				rowLen := int((cols*colors*bpc + 7) / 8)
				bpp := int((colors*bpc + 7) / 8)
				data, err = UnPNG(data, rowLen, bpp)
				if err != nil {
					return nil, err
				}
			} else if pred > 1 {
				return nil, fmt.Errorf("TIFF predictor not supported by the independent decoder")
			}
		}
	}
	return data, nil
}

func unA85(data []byte) ([]byte, error) {
	i := bytes.Index(data, []byte("~>"))
	if i < 0 {
		return nil, fmt.Errorf("no ~> end marker")
	}
	src := data[:i]
	out := make([]byte, len(src)+8)
	n, _, err := ascii85.Decode(out, src, true)
	if err != nil {
		return nil, err
	}
	return out[:n], nil
}

func unHex(data []byte) ([]byte, error) {
	var out []byte
	hi := -1
	for _, c := range data {
		if c == '>' {
			if hi >= 0 {
				out = append(out, byte(hi<<4))
			}
			return out, nil
		}
		if pdfsyn.IsWhite(c) {
			continue
		}
		var h int
		switch {
		case c >= '0' && c <= '9':
			h = int(c - '0')
		case c >= 'a' && c <= 'f':
			h = int(c-'a') + 10
		case c >= 'A' && c <= 'F':
			h = int(c-'A') + 10
		default:
			return nil, fmt.Errorf("bad hex digit %q", c)
		}
		if hi < 0 {
			hi = h
		} else {
			out = append(out, byte(hi<<4|h))
			hi = -1
		}
	}
	return nil, fmt.Errorf("no > end marker")
}

func unRL(data []byte) ([]byte, error) {
	var out []byte
	i := 0
	for i < len(data) {
		l := int(data[i])
		i++
		switch {
		case l == 128:
			return out, nil
		case l < 128:
			if i+l+1 > len(data) {
				return nil, fmt.Errorf("literal run past end")
			}
			out = append(out, data[i:i+l+1]...)
			i += l + 1
		default:
			if i >= len(data) {
				return nil, fmt.Errorf("repeat run past end")
			}
			out = append(out, bytes.Repeat(data[i:i+1], 257-l)...)
			i++
		}
	}
	return nil, fmt.Errorf("no EOD marker")
}

// EncryptMap converts an Encrypt dictionary to the map form stdsec expects.
func EncryptMap(v pdfsyn.Value) map[string]any {
	m := map[string]any{}
	for _, e := range v.D {
		switch e.Val.K {
		case pdfsyn.Int:
			m[string(e.Key)] = e.Val.I
		case pdfsyn.Bool:
			m[string(e.Key)] = e.Val.B
		case pdfsyn.Name:
			m[string(e.Key)] = string(e.Val.S)
		case pdfsyn.String:
			m[string(e.Key)] = append([]byte{}, e.Val.S...)
		case pdfsyn.Dict:
			m[string(e.Key)] = EncryptMap(e.Val)
		}
	}
	return m
}

// Handler authenticates against the file's Encrypt dictionary (which must be
// a direct object or an uncompressed indirect one) and returns the
// independent security handler, or nil for an unencrypted file.
func (f *File) Handler(password string) (*stdsec.Handler, error) {
	ev := f.Trailer.Get("Encrypt")
	if ev.K == pdfsyn.Null {
		return nil, nil
	}
	if ev.K == pdfsyn.Ref {
		o := f.Objects[int(ev.N)]
		if o == nil {
			return nil, fmt.Errorf("Encrypt dictionary %d %d R missing", ev.N, ev.G)
		}
		ev = o.Val
	}
	if ev.K != pdfsyn.Dict {
		return nil, fmt.Errorf("Encrypt is not a dictionary")
	}
	id := f.Trailer.Get("ID")
	var id0 []byte
	if id.K == pdfsyn.Array && len(id.A) >= 1 && id.A[0].K == pdfsyn.String {
		id0 = id.A[0].S
	}
	h, ok, _, err := stdsec.Open(EncryptMap(ev), id0, password)
	if err != nil {
		return nil, err
	}
	if !ok {
		return nil, fmt.Errorf("independent security handler: password %q does not authenticate", password)
	}
	return h, nil
}

// DecryptValue decrypts every string in v with the key of object num gen.
func DecryptValue(h *stdsec.Handler, num, gen int, v pdfsyn.Value) (pdfsyn.Value, error) {
	switch v.K {
	case pdfsyn.String:
		d, err := h.DecryptString(num, gen, v.S)
		if err != nil {
			return v, err
		}
		if d == nil {
			d = []byte{}
		}
		return pdfsyn.Value{K: pdfsyn.String, S: d}, nil
	case pdfsyn.Array:
		out := pdfsyn.Value{K: pdfsyn.Array, A: make([]pdfsyn.Value, len(v.A))}
		for i, e := range v.A {
			d, err := DecryptValue(h, num, gen, e)
			if err != nil {
				return v, err
			}
			out.A[i] = d
		}
		return out, nil
	case pdfsyn.Dict:
		out := pdfsyn.Value{K: pdfsyn.Dict, D: make([]pdfsyn.Entry, len(v.D))}
		for i, e := range v.D {
			d, err := DecryptValue(h, num, gen, e.Val)
			if err != nil {
				return v, err
			}
			out.D[i] = pdfsyn.Entry{Key: e.Key, Val: d}
		}
		return out, nil
	}
	return v, nil
}

// Plain returns the object's value with strings decrypted (members of object
// streams and unencrypted files are returned as they are) and, for streams,
// the decrypted raw data. The xref stream and the Encrypt dictionary are
// never encrypted.
func (f *File) Plain(h *stdsec.Handler, o *Object) (pdfsyn.Value, []byte, error) {
	if h == nil || o.InObjStm != 0 {
		return o.Val, o.Raw, nil
	}
	if o.IsStream && string(o.Val.Get("Type").S) == "XRef" {
		return o.Val, o.Raw, nil
	}
	if ev := f.Trailer.Get("Encrypt"); ev.K == pdfsyn.Ref && int(ev.N) == o.Num {
		return o.Val, o.Raw, nil
	}
	v, err := DecryptValue(h, o.Num, o.Gen, o.Val)
	if err != nil {
		return v, nil, err
	}
	raw := o.Raw
	if o.IsStream {
		raw, err = h.DecryptStream(o.Num, o.Gen, o.Raw)
		if err != nil {
			return v, nil, err
		}
	}
	return v, raw, nil
}

var headerRe = regexp.MustCompile(`(?m)^([0-9]+) ([0-9]+) obj\b`)

// Orphans returns the offsets of object headers at the start of a line that
// lie outside every cross-referenced object (an object defined but not
// listed, or defined twice).
func (f *File) Orphans() []int64 {
	type span struct{ a, b int64 }
	var spans []span
	for _, o := range f.Objects {
		if o.Offset >= 0 {
			spans = append(spans, span{o.Offset, o.End})
		}
	}
	for _, s := range f.Sections {
		if s.IsStream {
			// the cross-reference stream itself (found through startxref, /Prev or /XRefStm)
			if o, err := ParseObjectAt(f.Data[f.HeaderOff:], s.Offset, false, nil); err == nil {
				spans = append(spans, span{o.Offset, o.End})
			}
		}
	}
	var out []int64
	body := f.Data[f.HeaderOff:]
	for _, m := range headerRe.FindAllIndex(body, -1) {
		off := int64(m[0])
		inside := false
		for _, s := range spans {
			if off >= s.a && off < s.b {
				inside = true
				break
			}
		}
		if !inside {
			out = append(out, off)
		}
	}
	return out
}
