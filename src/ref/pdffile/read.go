// Package pdffile is an independent implementation of the PDF file structure
// (ISO 32000-2 §7.5): a strict reader used as validator and a serialiser with
// rendering knobs.  It shares no code with seehuhn.de/go/pdf; the only
// outside code it uses is compress/zlib.
package pdffile

import (
	"bytes"
	"compress/zlib"
	"fmt"
	"io"
	"sort"
	"strconv"

	"seehuhn.de/go/pdf/zzverif/ref/pdfsyn"
	"seehuhn.de/go/pdf/zzverif/ref/stdsec"
)

// Error is a structural problem; Code is stable and used as fingerprint.
type Error struct {
	Code string
	Msg  string
}

func (e *Error) Error() string { return e.Code + ": " + e.Msg }

func errf(code, format string, a ...any) *Error {
	return &Error{Code: code, Msg: fmt.Sprintf(format, a...)}
}

// Object is an indirect object found in a file.
type Object struct {
	Num, Gen  int
	Offset    int64 // offset of "N G obj"; -1 for members of object streams
	End       int64 // offset just past "endobj"
	Val       pdfsyn.Value
	IsStream  bool
	Raw       []byte // raw (encoded) stream data
	InObjStm  int    // containing object stream number, 0 if none
	ObjStmIdx int
}

// XEntry is a cross-reference entry.
type XEntry struct {
	Type   int // 0 free, 1 in use (uncompressed), 2 in object stream
	Offset int64
	Gen    int
	Stm    int
	Idx    int
}

// Section is one cross-reference section.
type Section struct {
	Offset   int64
	IsStream bool
	Entries  map[int]XEntry
	Trailer  pdfsyn.Value
	// number of entries per object number in this section (to detect duplicates)
	Dup map[int]int
	// for xref streams
	StmNum, StmGen int
}

// File is the result of reading a file.
type File struct {
	Data       []byte
	Version    string
	HeaderOff  int
	Sections   []*Section // newest first
	XRef       map[int]XEntry
	Trailer    pdfsyn.Value
	Size       int
	Objects    map[int]*Object // in-use objects by number
	StartXRef  int64
	H          *stdsec.Handler // independent security handler, nil if not encrypted or no password given
}

// Options control strictness.
type Options struct {
	// Strict demands what C03 states of Writer output: header at offset 0,
	// %%EOF at the end, exactly one entry per object below /Size, etc.
	Strict bool
	// Password, if not nil, is used to authenticate against /Encrypt with the
	// independent security handler so that encrypted object streams can be read.
	Password *string
}

func isDigit(c byte) bool { return c >= '0' && c <= '9' }

func isEOLByte(c byte) bool { return c == '\r' || c == '\n' }

// readUint reads decimal digits at pos.
func readUint(data []byte, pos int) (val int64, next int, ok bool) {
	i := pos
	for i < len(data) && isDigit(data[i]) {
		val = val*10 + int64(data[i]-'0')
		if val < 0 {
			return 0, pos, false
		}
		i++
	}
	return val, i, i > pos && i-pos <= 18
}

// ParseObjectAt parses "N G obj ... endobj" at off. resolveLen resolves an
// indirect /Length. With strict set the header must be exactly
// "N G obj" with single spaces.
func ParseObjectAt(data []byte, off int64, strict bool, resolveLen func(num, gen int) (int64, bool)) (*Object, *Error) {
	if off < 0 || off >= int64(len(data)) {
		return nil, errf("offset-out-of-file", "offset %d outside file of %d bytes", off, len(data))
	}
	pos := int(off)
	if !isDigit(data[pos]) {
		return nil, errf("offset-not-at-object-header", "byte at offset %d is %q, not the first digit of an object header", off, data[pos])
	}
	if strict && pos > 0 && !pdfsyn.IsWhite(data[pos-1]) {
		return nil, errf("offset-inside-token", "offset %d is in the middle of a token", off)
	}
	num, p, ok := readUint(data, pos)
	if !ok {
		return nil, errf("bad-object-header", "no object number at %d", off)
	}
	skip := func(p int) int {
		if strict {
			if p < len(data) && data[p] == ' ' {
				return p + 1
			}
			return -1
		}
		q := p
		for q < len(data) && pdfsyn.IsWhite(data[q]) {
			q++
		}
		if q == p {
			return -1
		}
		return q
	}
	if p = skip(p); p < 0 {
		return nil, errf("bad-object-header", "malformed object header at %d", off)
	}
	gen, p2, ok := readUint(data, p)
	if !ok {
		return nil, errf("bad-object-header", "no generation at %d", off)
	}
	if p = skip(p2); p < 0 {
		return nil, errf("bad-object-header", "malformed object header at %d", off)
	}
	if !bytes.HasPrefix(data[p:], []byte("obj")) {
		return nil, errf("bad-object-header", "no obj keyword at %d", off)
	}
	p += 3
	if p < len(data) && pdfsyn.IsRegular(data[p]) {
		return nil, errf("bad-object-header", "obj keyword runs into next token at %d", off)
	}
	ps := &pdfsyn.Parser{Buf: data, Pos: p}
	val, err := ps.Object()
	if err != nil {
		return nil, errf("object-syntax", "object %d %d at %d: %v", num, gen, off, err)
	}
	o := &Object{Num: int(num), Gen: int(gen), Offset: off, Val: val}
	if ps.Keyword("endobj") {
		o.End = int64(ps.Pos)
		return o, nil
	}
	if !ps.Keyword("stream") {
		return nil, errf("missing-endobj", "object %d %d at %d: neither endobj nor stream after the value", num, gen, off)
	}
	if val.K != pdfsyn.Dict {
		return nil, errf("stream-without-dict", "object %d %d: stream keyword after a non-dictionary", num, gen)
	}
	p = ps.Pos
	// "stream" is followed by CR LF or LF, not by CR alone (§7.3.8.1)
	switch {
	case p+1 < len(data) && data[p] == '\r' && data[p+1] == '\n':
		p += 2
	case p < len(data) && data[p] == '\n':
		p++
	default:
		return nil, errf("stream-keyword-eol", "object %d %d: stream keyword not followed by CRLF or LF", num, gen)
	}
	start := p
	lv := val.Get("Length")
	var length int64
	switch lv.K {
	case pdfsyn.Int:
		length = lv.I
	case pdfsyn.Ref:
		l, ok := int64(0), false
		if resolveLen != nil {
			l, ok = resolveLen(int(lv.N), int(lv.G))
		}
		if !ok {
			return nil, errf("stream-length-unresolvable", "object %d %d: indirect /Length %d %d R does not resolve to an integer", num, gen, lv.N, lv.G)
		}
		length = l
	default:
		return nil, errf("stream-length-missing", "object %d %d: /Length is missing or not an integer", num, gen)
	}
	if length < 0 || int64(start)+length > int64(len(data)) {
		return nil, errf("stream-length-out-of-file", "object %d %d: /Length %d runs past the end of the file", num, gen, length)
	}
	end := start + int(length)
	// after the data: an EOL, then endstream
	q := end
	switch {
	case q+1 < len(data) && data[q] == '\r' && data[q+1] == '\n':
		q += 2
	case q < len(data) && isEOLByte(data[q]):
		q++
	default:
		if bytes.HasPrefix(data[q:], []byte("endstream")) {
			return nil, errf("stream-no-eol-before-endstream", "object %d %d: no end-of-line between the %d data bytes and endstream", num, gen, length)
		}
		return nil, errf("stream-length-wrong", "object %d %d: /Length %d does not end at the EOL before endstream (next bytes %q)", num, gen, length, clip(data[q:], 16))
	}
	if !bytes.HasPrefix(data[q:], []byte("endstream")) {
		return nil, errf("stream-length-wrong", "object %d %d: /Length %d: no endstream after data+EOL (next bytes %q)", num, gen, length, clip(data[q:], 16))
	}
	ps.Pos = q + len("endstream")
	if !ps.Keyword("endobj") {
		return nil, errf("missing-endobj", "object %d %d: no endobj after endstream", num, gen)
	}
	o.IsStream = true
	o.Raw = data[start:end]
	o.End = int64(ps.Pos)
	return o, nil
}

func clip(b []byte, n int) []byte {
	if len(b) > n {
		return b[:n]
	}
	return b
}

// parseXRefTable parses a classic table at off ("xref" keyword).
func parseXRefTable(data []byte, off int64, strict bool) (*Section, *Error) {
	p := int(off)
	if !bytes.HasPrefix(data[p:], []byte("xref")) {
		return nil, errf("startxref-not-at-xref", "offset %d is not at an xref keyword or xref stream", off)
	}
	p += 4
	eol := func() bool {
		// optional spaces then an EOL
		for p < len(data) && data[p] == ' ' {
			p++
		}
		switch {
		case p+1 < len(data) && data[p] == '\r' && data[p+1] == '\n':
			p += 2
		case p < len(data) && isEOLByte(data[p]):
			p++
		default:
			return false
		}
		return true
	}
	if !eol() {
		return nil, errf("xref-table-syntax", "no EOL after xref keyword at %d", off)
	}
	sec := &Section{Offset: off, Entries: map[int]XEntry{}, Dup: map[int]int{}}
	for {
		if bytes.HasPrefix(data[p:], []byte("trailer")) {
			break
		}
		first, q, ok := readUint(data, p)
		if !ok {
			return nil, errf("xref-table-syntax", "bad subsection header at %d", p)
		}
		if q >= len(data) || data[q] != ' ' {
			return nil, errf("xref-table-syntax", "bad subsection header at %d", p)
		}
		count, q2, ok := readUint(data, q+1)
		if !ok {
			return nil, errf("xref-table-syntax", "bad subsection header at %d", p)
		}
		p = q2
		if !eol() {
			return nil, errf("xref-table-syntax", "no EOL after subsection header at %d", p)
		}
		for i := int64(0); i < count; i++ {
			if p+20 > len(data) {
				return nil, errf("xref-entry-format", "table truncated")
			}
			e := data[p : p+20]
			good := true
			for k := 0; k < 10; k++ {
				good = good && isDigit(e[k])
			}
			good = good && e[10] == ' '
			for k := 11; k < 16; k++ {
				good = good && isDigit(e[k])
			}
			good = good && e[16] == ' ' && (e[17] == 'n' || e[17] == 'f')
			tail := string(e[18:20])
			good = good && (tail == " \r" || tail == " \n" || tail == "\r\n")
			if !good {
				return nil, errf("xref-entry-format", "entry for object %d is not a 20-byte entry: %q", first+i, e)
			}
			o, _ := strconv.ParseInt(string(e[0:10]), 10, 64)
			g, _ := strconv.Atoi(string(e[11:16]))
			n := int(first + i)
			sec.Dup[n]++
			if e[17] == 'n' {
				sec.Entries[n] = XEntry{Type: 1, Offset: o, Gen: g}
			} else {
				sec.Entries[n] = XEntry{Type: 0, Offset: o, Gen: g}
			}
			p += 20
		}
	}
	ps := &pdfsyn.Parser{Buf: data, Pos: p + len("trailer")}
	tr, err := ps.Object()
	if err != nil || tr.K != pdfsyn.Dict {
		return nil, errf("trailer-syntax", "trailer dictionary: %v", err)
	}
	sec.Trailer = tr
	return sec, nil
}

// Inflate decodes zlib data.
func Inflate(raw []byte) ([]byte, error) {
	zr, err := zlib.NewReader(bytes.NewReader(raw))
	if err != nil {
		return nil, err
	}
	return io.ReadAll(zr)
}

// UnPNG reverses PNG row filters for 8-bit samples with bpp bytes per pixel.
func UnPNG(data []byte, rowLen, bpp int) ([]byte, error) {
	if rowLen <= 0 {
		return nil, fmt.Errorf("bad row length")
	}
	if len(data)%(rowLen+1) != 0 {
		return nil, fmt.Errorf("predictor data length %d is not a multiple of %d", len(data), rowLen+1)
	}
	rows := len(data) / (rowLen + 1)
	out := make([]byte, 0, rows*rowLen)
	prev := make([]byte, rowLen)
	for r := 0; r < rows; r++ {
		ft := data[r*(rowLen+1)]
		row := append([]byte{}, data[r*(rowLen+1)+1:(r+1)*(rowLen+1)]...)
		for i := range row {
			var a, b, c int
			if i >= bpp {
				a = int(row[i-bpp])
				c = int(prev[i-bpp])
			}
			b = int(prev[i])
			switch ft {
			case 0:
			case 1:
				row[i] += byte(a)
			case 2:
				row[i] += byte(b)
			case 3:
				row[i] += byte((a + b) / 2)
			case 4:
				pa, pb, pc := abs(b-c), abs(a-c), abs(a+b-2*c)
				pr := c
				if pa <= pb && pa <= pc {
					pr = a
				} else if pb <= pc {
					pr = b
				}
				row[i] += byte(pr)
			default:
				return nil, fmt.Errorf("bad PNG filter type %d", ft)
			}
		}
		out = append(out, row...)
		prev = row
	}
	return out, nil
}

func abs(x int) int {
	if x < 0 {
		return -x
	}
	return x
}

func intOf(v pdfsyn.Value) (int64, bool) {
	if v.K == pdfsyn.Int {
		return v.I, true
	}
	return 0, false
}

// decodeSimple decodes the data of a stream whose filters are absent or
// FlateDecode with optional PNG predictor (what xref and object streams use).
func decodeSimple(o *Object) ([]byte, *Error) {
	f := o.Val.Get("Filter")
	parms := o.Val.Get("DecodeParms")
	if f.K == pdfsyn.Array {
		if len(f.A) == 0 {
			f = pdfsyn.NullV()
		} else if len(f.A) == 1 {
			f = f.A[0]
			if parms.K == pdfsyn.Array && len(parms.A) == 1 {
				parms = parms.A[0]
			}
		} else {
			return nil, errf("structural-stream-filter", "object %d: unsupported filter chain on a structural stream", o.Num)
		}
	}
	switch {
	case f.K == pdfsyn.Null:
		return o.Raw, nil
	case f.K == pdfsyn.Name && string(f.S) == "FlateDecode":
		d, err := Inflate(o.Raw)
		if err != nil {
			return nil, errf("structural-stream-inflate", "object %d: %v", o.Num, err)
		}
		if parms.K == pdfsyn.Dict {
			pred, _ := intOf(parms.Get("Predictor"))
			if pred >= 10 {
				cols, ok := intOf(parms.Get("Columns"))
				if !ok {
					cols = 1
				}
				colors, ok := intOf(parms.Get("Colors"))
				if !ok {
					colors = 1
				}
				bpc, ok := intOf(parms.Get("BitsPerComponent"))
				if !ok {
					bpc = 8
				}
				if bpc != 8 {
					return nil, errf("structural-stream-predictor", "object %d: BitsPerComponent %d", o.Num, bpc)
				}
				d2, err := UnPNG(d, int(cols*colors), int(colors))
				if err != nil {
					return nil, errf("structural-stream-predictor", "object %d: %v", o.Num, err)
				}
				return d2, nil
			} else if pred > 1 {
				return nil, errf("structural-stream-predictor", "object %d: predictor %d", o.Num, pred)
			}
		}
		return d, nil
	}
	return nil, errf("structural-stream-filter", "object %d: unsupported filter %s", o.Num, f.String())
}

func parseXRefStream(data []byte, off int64, strict bool) (*Section, *Error) {
	o, e := ParseObjectAt(data, off, strict, nil)
	if e != nil {
		return nil, e
	}
	if !o.IsStream || string(o.Val.Get("Type").S) != "XRef" {
		return nil, errf("startxref-not-at-xref", "object at %d is not an xref stream", off)
	}
	d, e := decodeSimple(o)
	if e != nil {
		return nil, e
	}
	size, ok := intOf(o.Val.Get("Size"))
	if !ok {
		return nil, errf("xref-stream-dict", "/Size missing")
	}
	wv := o.Val.Get("W")
	if wv.K != pdfsyn.Array || len(wv.A) != 3 {
		return nil, errf("xref-stream-dict", "/W is not an array of three integers")
	}
	var w [3]int
	for i := range w {
		x, ok := intOf(wv.A[i])
		if !ok || x < 0 || x > 8 {
			return nil, errf("xref-stream-dict", "bad /W")
		}
		w[i] = int(x)
	}
	var index []int64
	iv := o.Val.Get("Index")
	if iv.K == pdfsyn.Null {
		index = []int64{0, size}
	} else {
		if iv.K != pdfsyn.Array || len(iv.A)%2 != 0 {
			return nil, errf("xref-stream-dict", "bad /Index")
		}
		for _, x := range iv.A {
			n, ok := intOf(x)
			if !ok || n < 0 {
				return nil, errf("xref-stream-dict", "bad /Index")
			}
			index = append(index, n)
		}
	}
	rec := w[0] + w[1] + w[2]
	total := int64(0)
	for i := 0; i < len(index); i += 2 {
		total += index[i+1]
	}
	if rec == 0 || int64(len(d)) != total*int64(rec) {
		return nil, errf("xref-stream-data-length", "xref stream holds %d bytes, /Index and /W demand %d x %d", len(d), total, rec)
	}
	sec := &Section{Offset: off, IsStream: true, Entries: map[int]XEntry{}, Dup: map[int]int{}, Trailer: o.Val, StmNum: o.Num, StmGen: o.Gen}
	p := 0
	field := func(n int, def int64) int64 {
		if n == 0 {
			return def
		}
		var v int64
		for i := 0; i < n; i++ {
			v = v<<8 | int64(d[p])
			p++
		}
		return v
	}
	for i := 0; i < len(index); i += 2 {
		for k := int64(0); k < index[i+1]; k++ {
			n := int(index[i] + k)
			t := field(w[0], 1)
			f2 := field(w[1], 0)
			f3 := field(w[2], 0)
			sec.Dup[n]++
			switch t {
			case 0:
				sec.Entries[n] = XEntry{Type: 0, Offset: f2, Gen: int(f3)}
			case 1:
				sec.Entries[n] = XEntry{Type: 1, Offset: f2, Gen: int(f3)}
			case 2:
				sec.Entries[n] = XEntry{Type: 2, Stm: int(f2), Idx: int(f3)}
			default:
				return nil, errf("xref-stream-entry-type", "entry for object %d has type %d", n, t)
			}
		}
	}
	return sec, nil
}

func parseSection(data []byte, off int64, strict bool) (*Section, *Error) {
	if off < 0 || off >= int64(len(data)) {
		return nil, errf("startxref-out-of-file", "xref offset %d outside file", off)
	}
	if bytes.HasPrefix(data[off:], []byte("xref")) {
		return parseXRefTable(data, off, strict)
	}
	return parseXRefStream(data, off, strict)
}

// Read reads a file.
func Read(data []byte, opt Options) (*File, *Error) {
	f := &File{Data: data, XRef: map[int]XEntry{}, Objects: map[int]*Object{}}

	// header
	h := bytes.Index(clip(data, 1100), []byte("%PDF-"))
	if h < 0 {
		return nil, errf("header-missing", "no %%PDF- header")
	}
	if opt.Strict && h != 0 {
		return nil, errf("header-not-at-start", "header at offset %d", h)
	}
	f.HeaderOff = h
	p := h + 5
	if p+3 > len(data) || !isDigit(data[p]) || data[p+1] != '.' || !isDigit(data[p+2]) {
		return nil, errf("header-version", "bad version in header")
	}
	f.Version = string(data[p : p+3])
	if opt.Strict && (p+3 >= len(data) || !isEOLByte(data[p+3])) {
		return nil, errf("header-version", "header line does not end after the version")
	}
	body := data[h:]

	// %%EOF and startxref
	t := bytes.TrimRight(body, "\r\n")
	if opt.Strict {
		if !bytes.HasSuffix(t, []byte("%%EOF")) {
			return nil, errf("eof-marker-missing", "file does not end in %%%%EOF")
		}
		if len(body)-len(t) > 2 {
			return nil, errf("eof-marker-missing", "more than one EOL after %%%%EOF")
		}
	}
	e := bytes.LastIndex(body, []byte("%%EOF"))
	if e < 0 {
		return nil, errf("eof-marker-missing", "no %%%%EOF")
	}
	s := bytes.LastIndex(body[:e], []byte("startxref"))
	if s < 0 {
		return nil, errf("startxref-missing", "no startxref")
	}
	q := s + len("startxref")
	for q < len(body) && pdfsyn.IsWhite(body[q]) {
		q++
	}
	sx, q2, ok := readUint(body, q)
	if !ok {
		return nil, errf("startxref-missing", "no number after startxref")
	}
	for q2 < e && pdfsyn.IsWhite(body[q2]) {
		q2++
	}
	if q2 != e {
		return nil, errf("startxref-missing", "garbage between startxref number and %%%%EOF")
	}
	f.StartXRef = sx

	// sections, newest first
	seen := map[int64]bool{}
	off := sx
	for {
		if seen[off] {
			return nil, errf("xref-prev-loop", "/Prev chain loops")
		}
		seen[off] = true
		sec, er := parseSection(body, off, opt.Strict)
		if er != nil {
			return nil, er
		}
		f.Sections = append(f.Sections, sec)
		for n, en := range sec.Entries {
			if _, ok := f.XRef[n]; !ok {
				f.XRef[n] = en
			}
		}
		// hybrid: entries of /XRefStm rank after the table's own entries
		if !sec.IsStream {
			if xs, ok := intOf(sec.Trailer.Get("XRefStm")); ok {
				hs, er := parseXRefStream(body, xs, opt.Strict)
				if er != nil {
					return nil, er
				}
				f.Sections = append(f.Sections, hs)
				for n, en := range hs.Entries {
					if _, ok := f.XRef[n]; !ok {
						f.XRef[n] = en
					}
				}
			}
		}
		prev, ok := intOf(sec.Trailer.Get("Prev"))
		if !ok {
			break
		}
		off = prev
	}
	newest := f.Sections[0]
	f.Trailer = newest.Trailer
	size, ok := intOf(f.Trailer.Get("Size"))
	if !ok {
		return nil, errf("trailer-size", "/Size missing in trailer")
	}
	f.Size = int(size)

	if opt.Strict {
		if len(f.Sections) != 1 {
			return nil, errf("unexpected-sections", "%d cross-reference sections in a freshly written file", len(f.Sections))
		}
		for n := 0; n < f.Size; n++ {
			if newest.Dup[n] != 1 {
				return nil, errf("xref-entry-count", "object %d has %d cross-reference entries, want exactly 1", n, newest.Dup[n])
			}
		}
		for n := range newest.Dup {
			if n >= f.Size {
				return nil, errf("xref-entry-beyond-size", "entry for object %d but /Size is %d", n, f.Size)
			}
		}
		if e0, ok := f.XRef[0]; !ok || e0.Type != 0 {
			return nil, errf("xref-object-zero", "object 0 is not a free entry")
		}
	}

	// uncompressed objects
	nums := make([]int, 0, len(f.XRef))
	for n := range f.XRef {
		nums = append(nums, n)
	}
	sort.Ints(nums)
	var resolveLen func(num, gen int) (int64, bool)
	depth := 0
	resolveLen = func(num, gen int) (int64, bool) {
		en, ok := f.XRef[num]
		if !ok || en.Type != 1 || en.Gen != gen || depth > 2 {
			return 0, false
		}
		depth++
		defer func() { depth-- }()
		o, er := ParseObjectAt(body, en.Offset, opt.Strict, nil)
		if er != nil || o.IsStream || o.Val.K != pdfsyn.Int {
			return 0, false
		}
		return o.Val.I, true
	}
	type span struct{ a, b int64 }
	var spans []span
	for _, n := range nums {
		en := f.XRef[n]
		if en.Type != 1 {
			continue
		}
		if n >= f.Size {
			continue // entries at or beyond /Size are ignored (§7.5.5)
		}
		o, er := ParseObjectAt(body, en.Offset, opt.Strict, resolveLen)
		if er != nil {
			er.Msg = fmt.Sprintf("xref entry of object %d: %s", n, er.Msg)
			return nil, er
		}
		if o.Num != n || o.Gen != en.Gen {
			return nil, errf("xref-entry-wrong-object", "entry for %d %d points at the header of object %d %d", n, en.Gen, o.Num, o.Gen)
		}
		f.Objects[n] = o
		spans = append(spans, span{o.Offset, o.End})
	}
	if opt.Strict {
		sort.Slice(spans, func(i, j int) bool { return spans[i].a < spans[j].a })
		for i := 1; i < len(spans); i++ {
			if spans[i].a < spans[i-1].b {
				return nil, errf("objects-overlap", "objects at %d and %d overlap", spans[i-1].a, spans[i].a)
			}
		}
	}

	if opt.Password != nil {
		h, err := f.Handler(*opt.Password)
		if err != nil {
			return nil, errf("independent-handler-cannot-open", "%v", err)
		}
		f.H = h
	}
	plainStm := func(stm *Object) (*Object, *Error) {
		if f.H == nil {
			return stm, nil
		}
		raw, err := f.H.DecryptStream(stm.Num, stm.Gen, stm.Raw)
		if err != nil {
			return nil, errf("independent-decrypt-error", "object stream %d: %v", stm.Num, err)
		}
		c := *stm
		c.Raw = raw
		return &c, nil
	}

	// object streams
	for _, n := range nums {
		en := f.XRef[n]
		if en.Type != 2 || n >= f.Size {
			continue
		}
		stm, ok := f.Objects[en.Stm]
		if !ok || !stm.IsStream {
			return nil, errf("objstm-missing", "object %d lives in object stream %d which is not an in-use stream object", n, en.Stm)
		}
		stm, er := plainStm(stm)
		if er != nil {
			return nil, er
		}
		members, er := ParseObjStm(stm, opt.Strict)
		if er != nil {
			return nil, er
		}
		if en.Idx < 0 || en.Idx >= len(members) {
			return nil, errf("objstm-index", "object %d: index %d outside object stream %d with %d members", n, en.Idx, en.Stm, len(members))
		}
		m := members[en.Idx]
		if m.Num != n {
			return nil, errf("objstm-index", "object %d: index %d of object stream %d holds object %d", n, en.Idx, en.Stm, m.Num)
		}
		mm := m
		f.Objects[n] = &mm
	}
	if opt.Strict {
		// every member of every object stream must be referenced by the xref
		for _, n := range nums {
			o := f.Objects[n]
			if o == nil || !o.IsStream || string(o.Val.Get("Type").S) != "ObjStm" {
				continue
			}
			o, er := plainStm(o)
			if er != nil {
				return nil, er
			}
			members, er := ParseObjStm(o, true)
			if er != nil {
				return nil, er
			}
			for i, m := range members {
				en, ok := f.XRef[m.Num]
				if !ok || en.Type != 2 || en.Stm != o.Num || en.Idx != i {
					return nil, errf("objstm-member-unlisted", "member %d (object %d) of object stream %d has no matching type-2 entry", i, m.Num, o.Num)
				}
			}
		}
	}
	return f, nil
}

// ParseObjStm parses the members of an object stream.
func ParseObjStm(stm *Object, strict bool) ([]Object, *Error) {
	if string(stm.Val.Get("Type").S) != "ObjStm" {
		return nil, errf("objstm-dict", "object %d: /Type is not /ObjStm", stm.Num)
	}
	if stm.Gen != 0 {
		return nil, errf("objstm-dict", "object stream %d has generation %d", stm.Num, stm.Gen)
	}
	n, ok := intOf(stm.Val.Get("N"))
	first, ok2 := intOf(stm.Val.Get("First"))
	if !ok || !ok2 || n < 0 || first < 0 {
		return nil, errf("objstm-dict", "object stream %d: bad /N or /First", stm.Num)
	}
	d, er := decodeSimple(stm)
	if er != nil {
		return nil, er
	}
	if first > int64(len(d)) {
		return nil, errf("objstm-first", "object stream %d: /First %d beyond %d data bytes", stm.Num, first, len(d))
	}
	hp := &pdfsyn.Parser{Buf: d[:first]}
	type pair struct{ num, off int64 }
	var pairs []pair
	for i := int64(0); i < n; i++ {
		a, err := hp.Object()
		b, err2 := hp.Object()
		if err != nil || err2 != nil || a.K != pdfsyn.Int || b.K != pdfsyn.Int {
			return nil, errf("objstm-offset-table", "object stream %d: offset table has fewer than /N=%d integer pairs inside the first /First=%d bytes", stm.Num, n, first)
		}
		pairs = append(pairs, pair{a.I, b.I})
	}
	if !hp.AtEnd() {
		return nil, errf("objstm-first", "object stream %d: /First=%d does not point just past the %d-pair offset table", stm.Num, first, n)
	}
	var out []Object
	for i, pr := range pairs {
		if i > 0 && pr.off <= pairs[i-1].off {
			return nil, errf("objstm-offset-table", "object stream %d: offsets not ascending", stm.Num)
		}
		if first+pr.off > int64(len(d)) {
			return nil, errf("objstm-offset-table", "object stream %d: offset %d outside data", stm.Num, pr.off)
		}
		endOff := int64(len(d))
		if i+1 < len(pairs) {
			endOff = first + pairs[i+1].off
			if endOff > int64(len(d)) {
				endOff = int64(len(d))
			}
		}
		seg := d[first+pr.off : endOff]
		if strict && i == 0 && pr.off != 0 {
			// allowed by the specification, but then /First would not point at the first object
			return nil, errf("objstm-first", "object stream %d: first object at offset %d, /First must point at it", stm.Num, pr.off)
		}
		sp := &pdfsyn.Parser{Buf: seg}
		v, err := sp.Object()
		if err != nil {
			return nil, errf("objstm-member-syntax", "object stream %d member %d (object %d): %v", stm.Num, i, pr.num, err)
		}
		if !sp.AtEnd() {
			if sp.PeekKeyword("stream") {
				return nil, errf("objstm-member-is-stream", "object stream %d member %d is a stream", stm.Num, i)
			}
			return nil, errf("objstm-offset-table", "object stream %d member %d (object %d): offsets do not delimit exactly one object (%q)", stm.Num, i, pr.num, clip(seg, 40))
		}
		out = append(out, Object{Num: int(pr.num), Gen: 0, Offset: -1, Val: v, InObjStm: stm.Num, ObjStmIdx: i})
	}
	return out, nil
}
