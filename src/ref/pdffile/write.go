package pdffile

import (
	"bytes"
	"compress/zlib"
	"fmt"
	"sort"

	"seehuhn.de/go/pdf/zzverif/ref/pdfsyn"
)

// ObjDef is what one revision says about one object number.
type ObjDef struct {
	Num    int
	Gen    int // generation of the in-use object, or the generation stored in the free entry
	Free   bool
	Val    pdfsyn.Value
	Stream []byte // non-nil: a stream object with this (unfiltered) data; Val is its dictionary without /Length
	// LengthOverride, if not nil, replaces the /Length entry (for the /Length clause)
	LengthOverride *pdfsyn.Value
	NoLength       bool
}

// Revision is one body + cross-reference section.
type Revision struct {
	Kind    string // "table", "stream", "hybrid"
	Objs    []ObjDef
	Trailer []pdfsyn.Entry // extra trailer entries (Root, Info, custom keys)
}

// Knobs select among the conforming serialisations.
type Knobs struct {
	Prefix     int  // bytes of junk before the header
	WS         int  // pdfsyn.Style.WS
	EOL        int  // 0 LF, 1 CR LF, 2 CR
	HexStrings bool // strings as hex strings
	HexNames   bool // names with every byte #-escaped
	Split      bool // classic table: one subsection per object; xref stream: one /Index pair per object
	ThreadFree bool // link the free entries into a list
	W          int  // index into WChoices
	ObjStm     bool // put eligible objects of "stream" and "hybrid" revisions into an object stream
	Version    string
}

// WChoices are the /W arrays offered.
var WChoices = [][3]int{{1, 2, 1}, {1, 3, 2}, {1, 4, 2}, {0, 2, 1}, {2, 8, 2}, {1, 2, 0}}

func (k Knobs) eol() string {
	switch k.EOL {
	case 1:
		return "\r\n"
	case 2:
		return "\r"
	}
	return "\n"
}

func (k Knobs) style() pdfsyn.Style {
	return pdfsyn.Style{WS: k.WS, HexStrings: k.HexStrings, HexNames: k.HexNames}
}

type wEntry struct {
	typ    int
	f2, f3 int64
}

type writer struct {
	k      Knobs
	buf    bytes.Buffer
	base   int // offset of the header
	nextFn int // next object number for structural objects (xref streams, object streams)
}

func (w *writer) pos() int64 { return int64(w.buf.Len() - w.base) }

func (w *writer) object(num, gen int, v pdfsyn.Value, stream []byte, lengthOverride *pdfsyn.Value, noLength bool) int64 {
	off := w.pos()
	e := w.k.eol()
	fmt.Fprintf(&w.buf, "%d %d obj%s", num, gen, e)
	if stream == nil {
		pdfsyn.Print(&w.buf, v, w.k.style())
		fmt.Fprintf(&w.buf, "%sendobj%s", e, e)
		return off
	}
	d := pdfsyn.Value{K: pdfsyn.Dict, D: append([]pdfsyn.Entry{}, v.D...)}
	switch {
	case lengthOverride != nil:
		d.D = append(d.D, pdfsyn.Entry{Key: []byte("Length"), Val: *lengthOverride})
	case noLength:
	default:
		d.D = append(d.D, pdfsyn.Entry{Key: []byte("Length"), Val: pdfsyn.IntV(int64(len(stream)))})
	}
	pdfsyn.Print(&w.buf, d, w.k.style())
	se := e
	if se == "\r" {
		se = "\n" // "stream" must be followed by CR LF or LF
	}
	fmt.Fprintf(&w.buf, "%sstream%s", e, se)
	w.buf.Write(stream)
	fmt.Fprintf(&w.buf, "%sendstream%sendobj%s", e, e, e)
	return off
}

func deflate(data []byte) []byte {
	var b bytes.Buffer
	zw := zlib.NewWriter(&b)
	zw.Write(data)
	zw.Close()
	return b.Bytes()
}

// Write serialises the revisions. It returns the file and, for every
// revision, the offset of its cross-reference section (relative to the
// header).
func Write(revs []Revision, k Knobs) []byte {
	w := &writer{k: k, nextFn: 40}
	for i := 0; i < k.Prefix; i++ {
		w.buf.WriteByte("junk before the header \n"[i%24])
	}
	w.base = w.buf.Len()
	e := k.eol()
	ver := k.Version
	if ver == "" {
		ver = "1.7"
	}
	fmt.Fprintf(&w.buf, "%%PDF-%s%s%%\xe2\xe3\xcf\xd3%s", ver, e, e)

	size := 1
	var prev int64 = -1
	freeNums := map[int]bool{} // currently free object numbers (for threading)
	for ri, rev := range revs {
		entries := map[int]wEntry{}
		var compress []ObjDef
		for _, o := range rev.Objs {
			if o.Num+1 > size {
				size = o.Num + 1
			}
			if o.Free {
				entries[o.Num] = wEntry{0, 0, int64(o.Gen)}
				freeNums[o.Num] = true
				continue
			}
			delete(freeNums, o.Num)
			if k.ObjStm && rev.Kind != "table" && o.Stream == nil && o.Gen == 0 && o.Val.K != pdfsyn.Ref {
				compress = append(compress, o)
				continue
			}
			off := w.object(o.Num, o.Gen, o.Val, o.Stream, o.LengthOverride, o.NoLength)
			entries[o.Num] = wEntry{1, off, int64(o.Gen)}
		}
		hidden := map[int]wEntry{}
		if len(compress) > 0 {
			stmNum := w.nextFn
			w.nextFn++
			if stmNum+1 > size {
				size = stmNum + 1
			}
			var head, body bytes.Buffer
			for i, o := range compress {
				fmt.Fprintf(&head, "%d %d ", o.Num, body.Len())
				pdfsyn.Print(&body, o.Val, k.style())
				body.WriteString(" ")
				if rev.Kind == "hybrid" {
					hidden[o.Num] = wEntry{2, int64(stmNum), int64(i)}
				} else {
					entries[o.Num] = wEntry{2, int64(stmNum), int64(i)}
				}
			}
			d := pdfsyn.DictV("Type", pdfsyn.NameV("ObjStm"), "N", pdfsyn.IntV(int64(len(compress))), "First", pdfsyn.IntV(int64(head.Len())), "Filter", pdfsyn.NameV("FlateDecode"))
			off := w.object(stmNum, 0, d, deflate(append(head.Bytes(), body.Bytes()...)), nil, false)
			entries[stmNum] = wEntry{1, off, 0}
		}
		if ri == 0 {
			entries[0] = wEntry{0, 0, 65535}
		}
		if k.ThreadFree {
			// object 0 heads the list of free objects in ascending order
			var fl []int
			for n := range freeNums {
				fl = append(fl, n)
			}
			sort.Ints(fl)
			if len(fl) > 0 || ri == 0 {
				next := int64(0)
				if len(fl) > 0 {
					next = int64(fl[0])
				}
				entries[0] = wEntry{0, next, 65535}
			}
			for i, n := range fl {
				if en, ok := entries[n]; ok && en.typ == 0 {
					next := int64(0)
					if i+1 < len(fl) {
						next = int64(fl[i+1])
					}
					en.f2 = next
					entries[n] = en
				}
			}
		}

		trailer := pdfsyn.Value{K: pdfsyn.Dict}
		trailer.D = append(trailer.D, rev.Trailer...)
		if prev >= 0 {
			trailer.D = append(trailer.D, pdfsyn.Entry{Key: []byte("Prev"), Val: pdfsyn.IntV(prev)})
		}

		var xrefPos int64
		switch rev.Kind {
		case "table", "hybrid":
			if rev.Kind == "hybrid" && len(hidden) > 0 {
				xsNum := w.nextFn
				w.nextFn++
				if xsNum+1 > size {
					size = xsNum + 1
				}
				xoff := w.pos()
				entries[xsNum] = wEntry{1, xoff, 0}
				w.xrefStream(xsNum, hidden, size, pdfsyn.Value{K: pdfsyn.Dict}, true)
				trailer.D = append(trailer.D, pdfsyn.Entry{Key: []byte("XRefStm"), Val: pdfsyn.IntV(xoff)})
			}
			trailer.D = append(trailer.D, pdfsyn.Entry{Key: []byte("Size"), Val: pdfsyn.IntV(int64(size))})
			xrefPos = w.pos()
			w.xrefTable(entries)
			fmt.Fprintf(&w.buf, "trailer%s", e)
			pdfsyn.Print(&w.buf, trailer, k.style())
			w.buf.WriteString(e)
		default: // "stream"
			xsNum := w.nextFn
			w.nextFn++
			if xsNum+1 > size {
				size = xsNum + 1
			}
			xrefPos = w.pos()
			entries[xsNum] = wEntry{1, xrefPos, 0}
			w.xrefStream(xsNum, entries, size, trailer, false)
		}
		fmt.Fprintf(&w.buf, "startxref%s%d%s%%%%EOF%s", e, xrefPos, e, e)
		prev = xrefPos
	}
	return w.buf.Bytes()
}

func sortedNums(m map[int]wEntry) []int {
	nums := make([]int, 0, len(m))
	for n := range m {
		nums = append(nums, n)
	}
	sort.Ints(nums)
	return nums
}

// runs groups numbers into contiguous runs (or singletons if split).
func runs(nums []int, split bool) [][]int {
	var out [][]int
	for _, n := range nums {
		if !split && len(out) > 0 {
			last := out[len(out)-1]
			if last[len(last)-1]+1 == n {
				out[len(out)-1] = append(last, n)
				continue
			}
		}
		out = append(out, []int{n})
	}
	return out
}

func (w *writer) xrefTable(entries map[int]wEntry) {
	e := w.k.eol()
	fmt.Fprintf(&w.buf, "xref%s", e)
	tail := " \n"
	switch w.k.EOL {
	case 1:
		tail = "\r\n"
	case 2:
		tail = " \r"
	}
	for _, run := range runs(sortedNums(entries), w.k.Split) {
		fmt.Fprintf(&w.buf, "%d %d%s", run[0], len(run), e)
		for _, n := range run {
			en := entries[n]
			if en.typ == 1 {
				fmt.Fprintf(&w.buf, "%010d %05d n%s", en.f2, en.f3, tail)
			} else {
				fmt.Fprintf(&w.buf, "%010d %05d f%s", en.f2, en.f3, tail)
			}
		}
	}
}

func (w *writer) xrefStream(num int, entries map[int]wEntry, size int, extra pdfsyn.Value, forHybrid bool) {
	wd := WChoices[w.k.W%len(WChoices)]
	nums := sortedNums(entries)
	// a width that cannot represent the section falls back to the default
	fits := func(v int64, width int) bool {
		if width >= 8 {
			return true
		}
		return v < int64(1)<<(8*uint(width))
	}
	for _, n := range nums {
		en := entries[n]
		if wd[0] == 0 && en.typ != 1 || !fits(en.f2, wd[1]) || !fits(en.f3, wd[2]) || wd[2] == 0 && en.f3 != 0 {
			wd = [3]int{1, 4, 2}
			break
		}
	}
	var data bytes.Buffer
	put := func(v int64, width int) {
		for i := width - 1; i >= 0; i-- {
			data.WriteByte(byte(v >> (8 * uint(i))))
		}
	}
	var index []pdfsyn.Value
	for _, run := range runs(nums, w.k.Split) {
		index = append(index, pdfsyn.IntV(int64(run[0])), pdfsyn.IntV(int64(len(run))))
		for _, n := range run {
			en := entries[n]
			put(int64(en.typ), wd[0])
			put(en.f2, wd[1])
			put(en.f3, wd[2])
		}
	}
	d := pdfsyn.Value{K: pdfsyn.Dict}
	d.D = append(d.D, pdfsyn.Entry{Key: []byte("Type"), Val: pdfsyn.NameV("XRef")})
	d.D = append(d.D, extra.D...)
	d.D = append(d.D,
		pdfsyn.Entry{Key: []byte("Size"), Val: pdfsyn.IntV(int64(size))},
		pdfsyn.Entry{Key: []byte("W"), Val: pdfsyn.ArrV(pdfsyn.IntV(int64(wd[0])), pdfsyn.IntV(int64(wd[1])), pdfsyn.IntV(int64(wd[2])))},
		pdfsyn.Entry{Key: []byte("Index"), Val: pdfsyn.Value{K: pdfsyn.Array, A: index}},
		pdfsyn.Entry{Key: []byte("Filter"), Val: pdfsyn.NameV("FlateDecode")},
	)
	// the dictionary of an xref stream is never written with exotic string forms
	w.object(num, 0, d, deflate(data.Bytes()), nil, false)
}
