package codecs

import (
	"errors"
	"fmt"
)

// PredParams are the predictor parameters with their PDF defaults filled in.
type PredParams struct {
	Colors, BPC, Columns int
}

// RowBytes is the length of one row of samples in bytes.
func (p PredParams) RowBytes() int { return (p.Colors*p.BPC*p.Columns + 7) / 8 }

// bpp is the PNG "bytes per complete pixel, rounding up to one".
func (p PredParams) bpp() int { return (p.Colors*p.BPC + 7) / 8 }

// PNG filter types (PNG specification, 9.2 Filter types)
const (
	PNGNone = iota
	PNGSub
	PNGUp
	PNGAverage
	PNGPaeth
)

func paeth(a, b, c int) int {
	p := a + b - c
	pa, pb, pc := p-a, p-b, p-c
	if pa < 0 {
		pa = -pa
	}
	if pb < 0 {
		pb = -pb
	}
	if pc < 0 {
		pc = -pc
	}
	// "The order in which the comparisons are performed is critical"
	if pa <= pb && pa <= pc {
		return a
	} else if pb <= pc {
		return b
	}
	return c
}

func pngPredict(ft int, a, b, c int) int {
	switch ft {
	case PNGSub:
		return a
	case PNGUp:
		return b
	case PNGAverage:
		return (a + b) >> 1 // floor((Raw(x-bpp)+Prior(x))/2), no overflow mod 256
	case PNGPaeth:
		return paeth(a, b, c)
	}
	return 0
}

// PNGEncode filters data (whole rows) with the filter type chosen per row by
// pick(rowIndex).
func PNGEncode(data []byte, p PredParams, pick func(row int) int) ([]byte, error) {
	rb := p.RowBytes()
	if rb == 0 || len(data)%rb != 0 {
		return nil, errors.New("png: data is not a whole number of rows")
	}
	bpp := p.bpp()
	var out []byte
	prior := make([]byte, rb)
	for r := 0; r*rb < len(data); r++ {
		row := data[r*rb : (r+1)*rb]
		ft := pick(r)
		out = append(out, byte(ft))
		for x := 0; x < rb; x++ {
			a, b, c := 0, int(prior[x]), 0
			if x >= bpp {
				a = int(row[x-bpp])
				c = int(prior[x-bpp])
			}
			out = append(out, byte(int(row[x])-pngPredict(ft, a, b, c)))
		}
		prior = row
	}
	return out, nil
}

// PNGDecode undoes PNG filtering; every row carries its own filter type.
func PNGDecode(enc []byte, p PredParams) ([]byte, error) {
	rb := p.RowBytes()
	if rb == 0 || len(enc)%(rb+1) != 0 {
		return nil, fmt.Errorf("png: %d bytes is not a whole number of %d-byte rows", len(enc), rb+1)
	}
	bpp := p.bpp()
	var out []byte
	prior := make([]byte, rb)
	for r := 0; r*(rb+1) < len(enc); r++ {
		ft := int(enc[r*(rb+1)])
		if ft > PNGPaeth {
			return nil, fmt.Errorf("png: row %d has invalid filter type %d", r, ft)
		}
		src := enc[r*(rb+1)+1 : (r+1)*(rb+1)]
		row := make([]byte, rb)
		for x := 0; x < rb; x++ {
			a, b, c := 0, int(prior[x]), 0
			if x >= bpp {
				a = int(row[x-bpp])
				c = int(prior[x-bpp])
			}
			row[x] = byte(int(src[x]) + pngPredict(ft, a, b, c))
		}
		out = append(out, row...)
		prior = row
	}
	return out, nil
}

// ---------------------------------------------------------------------------
// TIFF predictor 2 (TIFF 6.0 section 14): every sample is replaced by its
// difference to the sample of the same colour component in the pixel to its
// left, modulo 2^BPC; the first pixel of a row is unchanged.  Samples are
// packed big-endian, most significant bit first; rows are padded to bytes.

func getSample(row []byte, bpc, idx int) uint {
	bit := idx * bpc
	var v uint
	for i := 0; i < bpc; i++ {
		v = v<<1 | uint(row[(bit+i)>>3]>>(7-uint((bit+i)&7)))&1
	}
	return v
}

func putSample(row []byte, bpc, idx int, v uint) {
	bit := idx * bpc
	for i := 0; i < bpc; i++ {
		m := byte(1) << (7 - uint((bit+i)&7))
		if v>>(uint(bpc-1-i))&1 != 0 {
			row[(bit+i)>>3] |= m
		} else {
			row[(bit+i)>>3] &^= m
		}
	}
}

func tiffPredict(data []byte, p PredParams, encode bool) ([]byte, error) {
	rb := p.RowBytes()
	if rb == 0 || len(data)%rb != 0 {
		return nil, errors.New("tiff: data is not a whole number of rows")
	}
	mask := uint(1)<<uint(p.BPC) - 1
	out := make([]byte, len(data))
	for r := 0; r*rb < len(data); r++ {
		src := data[r*rb : (r+1)*rb]
		dst := out[r*rb : (r+1)*rb]
		copy(dst, src) // keeps padding bits
		n := p.Colors * p.Columns
		for i := p.Colors; i < n; i++ {
			if encode {
				putSample(dst, p.BPC, i, (getSample(src, p.BPC, i)-getSample(src, p.BPC, i-p.Colors))&mask)
			} else {
				putSample(dst, p.BPC, i, (getSample(src, p.BPC, i)+getSample(dst, p.BPC, i-p.Colors))&mask)
			}
		}
	}
	return out, nil
}

// TIFFEncode applies horizontal differencing.
func TIFFEncode(data []byte, p PredParams) ([]byte, error) { return tiffPredict(data, p, true) }

// TIFFDecode undoes horizontal differencing.
func TIFFDecode(data []byte, p PredParams) ([]byte, error) { return tiffPredict(data, p, false) }
