// Package codecs holds small reference implementations of the PDF stream
// codecs, written from ISO 32000-1 §7.4 (and, for the predictors, from the PNG
// and TIFF 6.0 specifications the standard refers to).  They are deliberately
// naive (maps, slices, bit strings) and share no code with seehuhn.de/go/pdf.
// SelfTest cross-checks them against the Go standard library and x/image.
package codecs

import (
	"errors"
	"fmt"
)

// ---------------------------------------------------------------------------
// bit strings, most significant bit first (§7.4.4.2: "codes shall be packed
// into a continuous bit stream, high-order bit first")

type bitSink struct {
	out  []byte
	cur  uint
	nCur uint
}

func (b *bitSink) put(code, width uint) {
	for i := int(width) - 1; i >= 0; i-- {
		b.cur = b.cur<<1 | (code>>uint(i))&1
		b.nCur++
		if b.nCur == 8 {
			b.out = append(b.out, byte(b.cur))
			b.cur, b.nCur = 0, 0
		}
	}
}

func (b *bitSink) finish() []byte {
	for b.nCur != 0 {
		b.put(0, 1)
	}
	return b.out
}

type bitSource struct {
	in  []byte
	pos int // bit position
}

func (b *bitSource) get(width uint) (uint, bool) {
	if b.pos+int(width) > len(b.in)*8 {
		return 0, false
	}
	var v uint
	for i := uint(0); i < width; i++ {
		byt := b.in[b.pos>>3]
		v = v<<1 | uint(byt>>(7-uint(b.pos&7)))&1
		b.pos++
	}
	return v, true
}

// ---------------------------------------------------------------------------
// LZW (§7.4.4)

const (
	lzwClear = 256
	lzwEOD   = 257
	lzwFirst = 258
)

// LZWOptions vary what the standard leaves to the encoder.
type LZWOptions struct {
	// EarlyChange is the /EarlyChange parameter: true = 1 (the PDF default,
	// code length grows one code early), false = 0.
	EarlyChange bool
	// ClearEvery, if > 0, makes the encoder issue a clear-table code after
	// every ClearEvery data codes ("the encoder may issue a clear-table code
	// at any time").
	ClearEvery int
	// NoLeadingClear omits the initial clear-table code.
	NoLeadingClear bool
	// FullAt is the highest table index the encoder defines before it clears
	// the table; 0 means the largest possible value, see LZWMaxEntry.
	FullAt int
}

// LZWMaxEntry is the highest table index an encoder can define before it has
// to clear the table.  With early change the width would have to grow to 13
// bits once entry 4095 is defined, so the table is full one entry earlier
// (this is also where libtiff clears).
func LZWMaxEntry(early bool) int {
	if early {
		return 4094
	}
	return 4095
}

func widthFor(nextFree int, early bool) uint {
	// nextFree is the index the next new table entry will get.  Without early
	// change a code of width w can express indices < 2^w, and the width grows
	// as soon as index 2^w has been assigned; with early change one code
	// earlier.
	n := nextFree - 1 // highest index assigned so far
	if early {
		n++
	}
	switch {
	case n < 512:
		return 9
	case n < 1024:
		return 10
	case n < 2048:
		return 11
	default:
		return 12
	}
}

// LZWEncode compresses data.
func LZWEncode(data []byte, opt LZWOptions) []byte {
	var out bitSink
	// table maps (code of a known string, next byte) to the code of the
	// extended string
	table := map[[2]int]int{}
	next := lzwFirst
	full := opt.FullAt
	if full < lzwFirst || full > LZWMaxEntry(opt.EarlyChange) {
		full = LZWMaxEntry(opt.EarlyChange)
	}
	width := func() uint { return widthFor(next, opt.EarlyChange) }
	if !opt.NoLeadingClear {
		out.put(lzwClear, 9)
	}
	cur := -1 // code of the longest known string matched so far
	emitted := 0
	for _, c := range data {
		if cur < 0 {
			cur = int(c)
			continue
		}
		if code, ok := table[[2]int{cur, int(c)}]; ok {
			cur = code
			continue
		}
		out.put(uint(cur), width())
		emitted++
		table[[2]int{cur, int(c)}] = next
		next++
		cur = int(c)
		if next-1 >= full || (opt.ClearEvery > 0 && emitted%opt.ClearEvery == 0) {
			out.put(lzwClear, width())
			table = map[[2]int]int{}
			next = lzwFirst
		}
	}
	if cur >= 0 {
		out.put(uint(cur), width())
		// the decoder defines one more entry when it sees the next code
		// (EOD); it counts for the width of EOD
		if next < 4096 {
			next++
		}
	}
	out.put(lzwEOD, width())
	return out.finish()
}

// LZWDecode decompresses data.  It stops at the EOD code; data that ends
// without EOD gives an error together with what was decoded so far.
func LZWDecode(enc []byte, early bool) ([]byte, error) {
	src := bitSource{in: enc}
	var out []byte
	table := make([][]byte, 4096)
	next := lzwFirst // index of the next entry to be defined
	var prev []byte
	for {
		// The decoder is one entry behind the encoder: when it is about to
		// read a code, the encoder has already defined entry "next" (whose
		// last byte the decoder does not know yet), unless prev is nil.
		encNext := next
		if prev != nil {
			encNext++
		}
		if encNext > 4096 {
			encNext = 4096
		}
		w := widthFor(encNext, early)
		code, ok := src.get(w)
		if !ok {
			return out, errors.New("lzw: data ends without EOD")
		}
		switch {
		case code == lzwClear:
			next = lzwFirst
			prev = nil
			continue
		case code == lzwEOD:
			return out, nil
		}
		var s []byte
		switch {
		case code < 256:
			s = []byte{byte(code)}
		case int(code) < next:
			s = table[code]
		case int(code) == next && prev != nil:
			s = append(append([]byte{}, prev...), prev[0])
		default:
			return out, fmt.Errorf("lzw: code %d not in table (next=%d)", code, next)
		}
		out = append(out, s...)
		if prev != nil && next < 4096 {
			table[next] = append(append([]byte{}, prev...), s[0])
			next++
		}
		prev = s
	}
}
