package codecs

import (
	"bytes"
	stdlzw "compress/lzw"
	"compress/zlib"
	"encoding/binary"
	"encoding/hex"
	"fmt"
	"hash/crc32"
	"image"
	"image/color"
	"image/png"
	"io"

	"golang.org/x/image/tiff"
	tifflzw "golang.org/x/image/tiff/lzw"
)

// TestData returns deterministic byte strings used by the self-test and by
// the checks: name -> generator of the first n bytes.
var TestData = map[string]func(n int) []byte{
	// no pair of adjacent bytes repeats for 65536 bytes: every LZW code is a
	// literal and every code adds a table entry
	"nopair": func(n int) []byte {
		out := make([]byte, 0, n)
		// walk the pairs (a, a+d): a d-th diagonal at a time
		for d := 1; len(out) < n; d++ {
			a := 0
			for i := 0; i < 256 && len(out) < n; i++ {
				out = append(out, byte(a))
				a += d
			}
		}
		return out
	},
	"lcg": func(n int) []byte {
		out := make([]byte, n)
		x := uint32(12345)
		for i := range out {
			x = x*1664525 + 1013904223
			out[i] = byte(x >> 24)
		}
		return out
	},
	"lcg4": func(n int) []byte { // 4 symbols: long matches, many KwKwK cases
		out := make([]byte, n)
		x := uint32(99)
		for i := range out {
			x = x*1664525 + 1013904223
			out[i] = "ab\x00\xff"[x>>30]
		}
		return out
	},
	"zeros": func(n int) []byte { return make([]byte, n) },
	"period3": func(n int) []byte {
		out := make([]byte, n)
		for i := range out {
			out[i] = "abc"[i%3]
		}
		return out
	},
}

// SelfTest cross-checks the reference codecs against independent
// implementations.  A non-nil error means the oracle cannot be trusted.
func SelfTest() error {
	if err := selfTestLZW(); err != nil {
		return err
	}
	if err := selfTestSimple(); err != nil {
		return err
	}
	if err := selfTestPNG(); err != nil {
		return err
	}
	return selfTestTIFF()
}

func selfTestLZW() error {
	var lengths []int
	for _, c := range []int{1, 254, 510, 766, 1022, 2046, 3837, 4094} {
		for d := -2; d <= 2; d++ {
			if c+d >= 0 {
				lengths = append(lengths, c+d)
			}
		}
	}
	lengths = append(lengths, 7676, 9000)
	errs := make(chan error, len(TestData))
	for name, gen := range TestData {
		go func() {
			errs <- func() error {
				for _, n := range lengths {
					data := gen(n)
					// EarlyChange 0 is plain LZW as in compress/lzw (MSB, 8 bit)
					for _, opt := range []LZWOptions{{}, {ClearEvery: 7}, {NoLeadingClear: true}, {FullAt: 4094}, {ClearEvery: 300, FullAt: 1000}} {
						enc := LZWEncode(data, opt)
						rd := stdlzw.NewReader(bytes.NewReader(enc), stdlzw.MSB, 8)
						got, err := io.ReadAll(rd)
						if err != nil || !bytes.Equal(got, data) {
							return fmt.Errorf("selftest: compress/lzw cannot read reference LZW (EarlyChange 0, %s, n=%d, %+v): %v", name, n, opt, err)
						}
						if got, err := LZWDecode(enc, false); err != nil || !bytes.Equal(got, data) {
							return fmt.Errorf("selftest: reference LZW round trip (EarlyChange 0, %s, n=%d, %+v): %v", name, n, opt, err)
						}
					}
					var buf bytes.Buffer
					w := stdlzw.NewWriter(&buf, stdlzw.MSB, 8)
					w.Write(data)
					w.Close()
					if got, err := LZWDecode(buf.Bytes(), false); err != nil || !bytes.Equal(got, data) {
						return fmt.Errorf("selftest: reference LZW decoder cannot read compress/lzw output (%s, n=%d): %v", name, n, err)
					}
					// EarlyChange 1 is the TIFF flavour read by x/image/tiff/lzw
					for _, opt := range []LZWOptions{{EarlyChange: true}, {EarlyChange: true, ClearEvery: 7}, {EarlyChange: true, FullAt: 4093}, {EarlyChange: true, ClearEvery: 300, FullAt: 1000}} {
						enc := LZWEncode(data, opt)
						rd := tifflzw.NewReader(bytes.NewReader(enc), tifflzw.MSB, 8)
						got, err := io.ReadAll(rd)
						if err != nil || !bytes.Equal(got, data) {
							return fmt.Errorf("selftest: x/image/tiff/lzw cannot read reference LZW (EarlyChange 1, %s, n=%d, %+v): %v", name, n, opt, err)
						}
						if got, err := LZWDecode(enc, true); err != nil || !bytes.Equal(got, data) {
							return fmt.Errorf("selftest: reference LZW round trip (EarlyChange 1, %s, n=%d, %+v): %v", name, n, opt, err)
						}
					}
				}
				return nil
			}()
		}()
	}
	for range TestData {
		if err := <-errs; err != nil {
			return err
		}
	}
	return nil
}

func selfTestSimple() error {
	// RunLength: the example structure of §7.4.5
	got, err := RLDecode([]byte{2, 'a', 'b', 'c', 254, 'x', 0, 'y', 129, 'z', 128, 'q'})
	want := append([]byte("abcxxxy"), bytes.Repeat([]byte("z"), 128)...)
	if err != nil || !bytes.Equal(got, want) {
		return fmt.Errorf("selftest: RLDecode vector: %q %v", got, err)
	}
	for name, gen := range TestData {
		for _, n := range []int{0, 1, 2, 3, 127, 128, 129, 130, 255, 256, 257, 1000} {
			data := gen(n)
			for _, o := range [][2]int{{2, 128}, {3, 128}, {2, 1}, {4, 127}} {
				if got, err := RLDecode(RLEncode(data, o[0], o[1])); err != nil || !bytes.Equal(got, data) {
					return fmt.Errorf("selftest: RunLength reference round trip (%s, n=%d, %v): %v", name, n, o, err)
				}
			}
			for _, up := range []bool{false, true} {
				enc := HexEncode(data, up, 0, false)
				h, err := hex.DecodeString(string(bytes.TrimSuffix(enc, []byte(" >"))))
				if err != nil || !bytes.Equal(h, data) {
					return fmt.Errorf("selftest: encoding/hex cannot read HexEncode output (%s, n=%d)", name, n)
				}
				for _, ll := range []int{0, 1, 7, 64} {
					for _, drop := range []bool{false, true} {
						if got, err := HexDecode(HexEncode(data, up, ll, drop)); err != nil || !bytes.Equal(got, data) {
							return fmt.Errorf("selftest: ASCIIHex reference round trip (%s, n=%d): %v", name, n, err)
						}
					}
				}
			}
			got, err := HexDecode([]byte(hex.EncodeToString(data) + ">"))
			if err != nil || !bytes.Equal(got, data) {
				return fmt.Errorf("selftest: HexDecode cannot read encoding/hex output (%s, n=%d)", name, n)
			}
			for _, ll := range []int{0, 1, 5, 80} {
				if got, err := A85Decode(A85Encode(data, ll)); err != nil || !bytes.Equal(got, data) {
					return fmt.Errorf("selftest: ASCII85 framing round trip (%s, n=%d): %v", name, n, err)
				}
			}
		}
	}
	if got, err := HexDecode([]byte("48 65\n6C6c6F 7>")); err != nil || string(got) != "Hellop" {
		return fmt.Errorf("selftest: HexDecode vector: %q %v", got, err)
	}
	if got, err := A85Decode([]byte("87cURD]i,\"Ebo80~>")); err != nil || string(got) != "Hello World!" {
		return fmt.Errorf("selftest: A85Decode vector: %q %v", got, err)
	}
	if got, err := A85Decode([]byte("z!!~>")); err != nil || !bytes.Equal(got, []byte{0, 0, 0, 0, 0}) {
		return fmt.Errorf("selftest: A85Decode z vector: %q %v", got, err)
	}
	return nil
}

// ---------------------------------------------------------------------------
// PNG filters against image/png

func pngChunk(out *bytes.Buffer, typ string, data []byte) {
	binary.Write(out, binary.BigEndian, uint32(len(data)))
	body := append([]byte(typ), data...)
	out.Write(body)
	binary.Write(out, binary.BigEndian, crc32.ChecksumIEEE(body))
}

func pngIDAT(file []byte) ([]byte, error) {
	var idat []byte
	pos := 8
	for pos+12 <= len(file) {
		n := int(binary.BigEndian.Uint32(file[pos:]))
		typ := string(file[pos+4 : pos+8])
		if typ == "IDAT" {
			idat = append(idat, file[pos+8:pos+8+n]...)
		}
		pos += 12 + n
	}
	zr, err := zlib.NewReader(bytes.NewReader(idat))
	if err != nil {
		return nil, err
	}
	return io.ReadAll(zr)
}

func selfTestPNG() error {
	const w, h = 7, 9
	px := TestData["lcg"](w * h * 8)
	// smooth the data a little so that the encoder picks all filter types
	for i := 8; i < len(px); i++ {
		if i%5 != 0 {
			px[i] = px[i-8] + byte(i%3)
		}
	}
	type kind struct {
		name      string
		ctype     byte
		depth     int
		colors    int
		img       func(raw []byte) image.Image
		fromImage func(m image.Image, x, y int) []byte
	}
	kinds := []kind{
		{"gray8", 0, 8, 1, func(raw []byte) image.Image {
			m := image.NewGray(image.Rect(0, 0, w, h))
			copy(m.Pix, raw)
			return m
		}, func(m image.Image, x, y int) []byte { return []byte{m.(*image.Gray).GrayAt(x, y).Y} }},
		{"gray16", 0, 16, 1, func(raw []byte) image.Image {
			m := image.NewGray16(image.Rect(0, 0, w, h))
			copy(m.Pix, raw)
			return m
		}, func(m image.Image, x, y int) []byte {
			v := m.(*image.Gray16).Gray16At(x, y).Y
			return []byte{byte(v >> 8), byte(v)}
		}},
		{"rgb8", 2, 8, 3, func(raw []byte) image.Image {
			m := image.NewNRGBA(image.Rect(0, 0, w, h))
			for i := 0; i < w*h; i++ {
				copy(m.Pix[4*i:], raw[3*i:3*i+3])
				m.Pix[4*i+3] = 255
			}
			return m
		}, func(m image.Image, x, y int) []byte {
			c := color.NRGBAModel.Convert(m.At(x, y)).(color.NRGBA)
			return []byte{c.R, c.G, c.B}
		}},
		{"rgba8", 6, 8, 4, func(raw []byte) image.Image {
			m := image.NewNRGBA(image.Rect(0, 0, w, h))
			copy(m.Pix, raw)
			// make sure the encoder does not treat the image as opaque
			m.Pix[3] = 7
			return m
		}, func(m image.Image, x, y int) []byte {
			c := m.(*image.NRGBA).NRGBAAt(x, y)
			return []byte{c.R, c.G, c.B, c.A}
		}},
	}
	seen := map[byte]bool{}
	for _, k := range kinds {
		p := PredParams{Colors: k.colors, BPC: k.depth, Columns: w}
		raw := append([]byte{}, px[:p.RowBytes()*h]...)
		if k.name == "rgba8" {
			raw[3] = 7
		}
		// (A) image/png encoder -> reference decoder
		var file bytes.Buffer
		if err := png.Encode(&file, k.img(raw)); err != nil {
			return fmt.Errorf("selftest: png.Encode %s: %v", k.name, err)
		}
		filt, err := pngIDAT(file.Bytes())
		if err != nil {
			return fmt.Errorf("selftest: IDAT of %s: %v", k.name, err)
		}
		for r := 0; r < h; r++ {
			seen[filt[r*(p.RowBytes()+1)]] = true
		}
		got, err := PNGDecode(filt, p)
		if err != nil || !bytes.Equal(got, raw) {
			return fmt.Errorf("selftest: reference PNG decoder disagrees with image/png encoder (%s): %v", k.name, err)
		}
		// (B) reference encoder -> image/png decoder, every filter type and a mix
		for ft := 0; ft <= 5; ft++ {
			pick := func(r int) int { return ft }
			if ft == 5 {
				pick = func(r int) int { return (r*3 + 1) % 5 }
			}
			enc, err := PNGEncode(raw, p, pick)
			if err != nil {
				return err
			}
			var z bytes.Buffer
			zw := zlib.NewWriter(&z)
			zw.Write(enc)
			zw.Close()
			var f bytes.Buffer
			f.WriteString("\x89PNG\r\n\x1a\n")
			ihdr := make([]byte, 13)
			binary.BigEndian.PutUint32(ihdr[0:], w)
			binary.BigEndian.PutUint32(ihdr[4:], h)
			ihdr[8], ihdr[9] = byte(k.depth), k.ctype
			pngChunk(&f, "IHDR", ihdr)
			pngChunk(&f, "IDAT", z.Bytes())
			pngChunk(&f, "IEND", nil)
			m, err := png.Decode(&f)
			if err != nil {
				return fmt.Errorf("selftest: image/png rejects reference PNG encoding (%s, filter %d): %v", k.name, ft, err)
			}
			var back []byte
			for y := 0; y < h; y++ {
				for x := 0; x < w; x++ {
					back = append(back, k.fromImage(m, x, y)...)
				}
			}
			if !bytes.Equal(back, raw) {
				return fmt.Errorf("selftest: image/png decodes reference PNG encoding differently (%s, filter %d)", k.name, ft)
			}
		}
	}
	for ft := byte(0); ft < 5; ft++ {
		if !seen[ft] {
			return fmt.Errorf("selftest: image/png never used filter type %d; test image needs adjusting", ft)
		}
	}
	// sub-byte depths: image/png decoder on hand-built gray images
	for _, depth := range []int{1, 2, 4} {
		p := PredParams{Colors: 1, BPC: depth, Columns: 13}
		raw := append([]byte{}, px[:p.RowBytes()*h]...)
		// clear padding bits (image/png ignores them)
		for r := 0; r < h; r++ {
			pad := p.RowBytes()*8 - 13*depth
			raw[(r+1)*p.RowBytes()-1] &^= byte(1)<<uint(pad) - 1
		}
		for ft := 0; ft < 5; ft++ {
			enc, _ := PNGEncode(raw, p, func(int) int { return ft })
			var z bytes.Buffer
			zw := zlib.NewWriter(&z)
			zw.Write(enc)
			zw.Close()
			var f bytes.Buffer
			f.WriteString("\x89PNG\r\n\x1a\n")
			ihdr := make([]byte, 13)
			binary.BigEndian.PutUint32(ihdr[0:], 13)
			binary.BigEndian.PutUint32(ihdr[4:], h)
			ihdr[8], ihdr[9] = byte(depth), 0
			pngChunk(&f, "IHDR", ihdr)
			pngChunk(&f, "IDAT", z.Bytes())
			pngChunk(&f, "IEND", nil)
			m, err := png.Decode(&f)
			if err != nil {
				return fmt.Errorf("selftest: image/png rejects reference PNG encoding (gray%d, filter %d): %v", depth, ft, err)
			}
			g := m.(*image.Gray)
			for y := 0; y < h; y++ {
				row := raw[y*p.RowBytes() : (y+1)*p.RowBytes()]
				for x := 0; x < 13; x++ {
					v := getSample(row, depth, x)
					want := byte(v * 255 / (1<<uint(depth) - 1))
					if g.GrayAt(x, y).Y != want {
						return fmt.Errorf("selftest: image/png decodes gray%d filter %d differently at (%d,%d)", depth, ft, x, y)
					}
				}
			}
			if got, err := PNGDecode(enc, p); err != nil || !bytes.Equal(got, raw) {
				return fmt.Errorf("selftest: reference PNG round trip gray%d filter %d", depth, ft)
			}
		}
	}
	return nil
}

// ---------------------------------------------------------------------------
// TIFF predictor against x/image/tiff (decoder applies it for 8 and 16 bit)

func selfTestTIFF() error {
	const w, h = 5, 4
	for _, k := range []struct {
		bpc, colors int
	}{{8, 1}, {8, 3}, {16, 1}, {16, 3}} {
		p := PredParams{Colors: k.colors, BPC: k.bpc, Columns: w}
		raw := TestData["lcg"](p.RowBytes() * h)
		enc, err := TIFFEncode(raw, p)
		if err != nil {
			return err
		}
		if back, err := TIFFDecode(enc, p); err != nil || !bytes.Equal(back, raw) {
			return fmt.Errorf("selftest: reference TIFF predictor round trip (%d bit, %d colours)", k.bpc, k.colors)
		}
		// big-endian TIFF, one uncompressed strip
		var f bytes.Buffer
		f.WriteString("MM\x00\x2a")
		binary.Write(&f, binary.BigEndian, uint32(8+len(enc)+8)) // IFD offset (after strip and BitsPerSample array)
		f.Write(enc)
		bpsOff := f.Len()
		for i := 0; i < 4; i++ {
			binary.Write(&f, binary.BigEndian, uint16(k.bpc))
		}
		type ent struct {
			tag, typ uint16
			count    uint32
			val      uint32
		}
		photometric := uint32(1)
		if k.colors == 3 {
			photometric = 2
		}
		short := func(v uint32) uint32 { return v << 16 }
		ents := []ent{
			{256, 3, 1, short(w)},
			{257, 3, 1, short(h)},
			{258, 3, uint32(k.colors), short(uint32(k.bpc))},
			{259, 3, 1, short(1)},
			{262, 3, 1, short(photometric)},
			{273, 4, 1, 8},
			{277, 3, 1, short(uint32(k.colors))},
			{278, 3, 1, short(h)},
			{279, 4, 1, uint32(len(enc))},
			{317, 3, 1, short(2)},
		}
		if k.colors == 3 {
			ents[2].val = uint32(bpsOff)
		}
		binary.Write(&f, binary.BigEndian, uint16(len(ents)))
		for _, e := range ents {
			binary.Write(&f, binary.BigEndian, e)
		}
		binary.Write(&f, binary.BigEndian, uint32(0))
		m, err := tiff.Decode(bytes.NewReader(f.Bytes()))
		if err != nil {
			return fmt.Errorf("selftest: x/image/tiff rejects the test file (%d bit, %d colours): %v", k.bpc, k.colors, err)
		}
		var back []byte
		for y := 0; y < h; y++ {
			for x := 0; x < w; x++ {
				switch mm := m.(type) {
				case *image.Gray:
					back = append(back, mm.GrayAt(x, y).Y)
				case *image.Gray16:
					v := mm.Gray16At(x, y).Y
					back = append(back, byte(v>>8), byte(v))
				case *image.RGBA:
					c := mm.RGBAAt(x, y)
					back = append(back, c.R, c.G, c.B)
				case *image.RGBA64:
					c := mm.RGBA64At(x, y)
					back = append(back, byte(c.R>>8), byte(c.R), byte(c.G>>8), byte(c.G), byte(c.B>>8), byte(c.B))
				default:
					return fmt.Errorf("selftest: unexpected TIFF image type %T", m)
				}
			}
		}
		if !bytes.Equal(back, raw) {
			return fmt.Errorf("selftest: x/image/tiff undoes the reference TIFF predictor differently (%d bit, %d colours)", k.bpc, k.colors)
		}
	}
	return nil
}
