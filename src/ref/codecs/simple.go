package codecs

import (
	"bytes"
	"encoding/ascii85"
	"errors"
	"fmt"
)

// ---------------------------------------------------------------------------
// RunLengthDecode (§7.4.5): length byte L; 0..127: copy the next L+1 bytes;
// 129..255: repeat the next byte 257-L times; 128: EOD.

// RLDecode decodes RunLength data up to the EOD marker.
func RLDecode(enc []byte) ([]byte, error) {
	var out []byte
	i := 0
	for {
		if i >= len(enc) {
			return out, errors.New("runlength: data ends without EOD")
		}
		l := int(enc[i])
		i++
		switch {
		case l == 128:
			return out, nil
		case l < 128:
			if i+l+1 > len(enc) {
				return out, errors.New("runlength: literal run cut short")
			}
			out = append(out, enc[i:i+l+1]...)
			i += l + 1
		default:
			if i >= len(enc) {
				return out, errors.New("runlength: repeat run cut short")
			}
			out = append(out, bytes.Repeat(enc[i:i+1], 257-l)...)
			i++
		}
	}
}

// RLEncode encodes data.  minRun is the shortest run of equal bytes that is
// written as a repeat run (2 is the minimum the format can express); shorter
// runs go into literal runs.  maxLit (1..128) is the longest literal run.
func RLEncode(data []byte, minRun, maxLit int) []byte {
	if minRun < 2 {
		minRun = 2
	}
	if maxLit < 1 || maxLit > 128 {
		maxLit = 128
	}
	var out []byte
	var lit []byte
	flush := func() {
		for len(lit) > 0 {
			n := len(lit)
			if n > maxLit {
				n = maxLit
			}
			out = append(out, byte(n-1))
			out = append(out, lit[:n]...)
			lit = lit[n:]
		}
	}
	for i := 0; i < len(data); {
		j := i
		for j < len(data) && data[j] == data[i] && j-i < 128 {
			j++
		}
		if j-i >= minRun {
			flush()
			out = append(out, byte(257-(j-i)), data[i])
		} else {
			lit = append(lit, data[i:j]...)
		}
		i = j
	}
	flush()
	return append(out, 128)
}

// ---------------------------------------------------------------------------
// ASCIIHexDecode (§7.4.2)

func isPDFSpace(c byte) bool {
	switch c {
	case 0, 9, 10, 12, 13, 32:
		return true
	}
	return false
}

// HexDecode decodes ASCIIHex data up to '>'; an odd number of digits behaves
// as if a 0 followed the last digit.
func HexDecode(enc []byte) ([]byte, error) {
	var out []byte
	var digits []byte
	for _, c := range enc {
		switch {
		case isPDFSpace(c):
		case c == '>':
			if len(digits)%2 == 1 {
				digits = append(digits, 0)
			}
			for i := 0; i < len(digits); i += 2 {
				out = append(out, digits[i]<<4|digits[i+1])
			}
			return out, nil
		case c >= '0' && c <= '9':
			digits = append(digits, c-'0')
		case c >= 'a' && c <= 'f':
			digits = append(digits, c-'a'+10)
		case c >= 'A' && c <= 'F':
			digits = append(digits, c-'A'+10)
		default:
			return nil, fmt.Errorf("asciihex: invalid character %q", c)
		}
	}
	return nil, errors.New("asciihex: data ends without '>'")
}

// HexEncode encodes data; upper selects upper-case digits, lineLen > 0 breaks
// lines after that many digits, dropLastNibble leaves out a final 0 digit when
// the last byte has a zero low nibble (allowed by the odd-digit rule).
func HexEncode(data []byte, upper bool, lineLen int, dropLastNibble bool) []byte {
	digits := "0123456789abcdef"
	if upper {
		digits = "0123456789ABCDEF"
	}
	var out []byte
	col := 0
	put := func(c byte) {
		if lineLen > 0 && col == lineLen {
			out = append(out, '\r', '\n')
			col = 0
		}
		out = append(out, c)
		col++
	}
	for i, b := range data {
		put(digits[b>>4])
		if dropLastNibble && i == len(data)-1 && b&15 == 0 {
			break
		}
		put(digits[b&15])
	}
	return append(out, ' ', '>')
}

// ---------------------------------------------------------------------------
// ASCII85Decode (§7.4.3) on top of encoding/ascii85, which implements the
// btoa alphabet and the 'z' shortcut but not the PDF "~>" end marker.

// A85Decode decodes PDF ASCII85 data with the standard library.
func A85Decode(enc []byte) ([]byte, error) {
	end := bytes.Index(enc, []byte("~>"))
	if end < 0 {
		return nil, errors.New("ascii85: no ~> marker")
	}
	body := enc[:end]
	// the standard library skips only bytes <= ' '; PDF white space is a subset
	out := make([]byte, 4*len(body)+4)
	n, _, err := ascii85.Decode(out, body, true)
	if err != nil {
		return nil, err
	}
	return out[:n], nil
}

// A85Encode encodes data with the standard library and adds the PDF end
// marker; lineLen > 0 inserts a newline after that many characters.
func A85Encode(data []byte, lineLen int) []byte {
	buf := make([]byte, ascii85.MaxEncodedLen(len(data)))
	n := ascii85.Encode(buf, data)
	buf = buf[:n]
	var out []byte
	for i, c := range buf {
		if lineLen > 0 && i > 0 && i%lineLen == 0 {
			out = append(out, '\n')
		}
		out = append(out, c)
	}
	return append(out, '~', '>')
}
