package stdsec

import (
	"fmt"
	"unicode/utf8"

	"golang.org/x/text/unicode/bidi"
	"golang.org/x/text/unicode/norm"
)

// Prepare turns a password (a Go string, i.e. Unicode text in UTF-8) into the
// byte string the algorithms of the given revision start from.
//
// Revisions 2-4 (ISO 32000-1 Algorithm 2 (a), ISO 32000-2 7.6.4.3.2 (a)): the
// password is converted to PDFDocEncoding (annex D; a character without a
// code is an error), truncated to 32 bytes and, if shorter, filled up to 32
// bytes from the start of the padding string.  The result always has 32 bytes.
//
// Revisions 5-6 (ISO 32000-2 Algorithm 2.A (a)): SASLprep (RFC 4013) is
// applied, the result is encoded as UTF-8 and truncated to 127 bytes (a byte
// truncation: it may split a character).  SASLprep here is: map the
// non-ASCII spaces of RFC 3454 C.1.2 to U+0020 and remove the "mapped to
// nothing" characters of B.1; normalise with NFKC (the Unicode version of
// golang.org/x/text, not Unicode 3.2); reject the prohibited output of C.1.2,
// C.2.1, C.2.2, C.3, C.4, C.5, C.6, C.7, C.8, C.9; apply the bidirectional
// rule of RFC 3454 section 6 with the character classes of
// golang.org/x/text/unicode/bidi (R, AL = RandALCat; L = LCat).  NOT checked:
// unassigned code points of Unicode 3.2 (RFC 3454 table A.1; RFC 4013 allows
// them in queries and forbids them in stored strings).
//
// Errors wrap ErrPassword.
func Prepare(password string, revision int) ([]byte, error) {
	if !utf8.ValidString(password) {
		return nil, fmt.Errorf("%w: not valid UTF-8", ErrPassword)
	}
	switch revision {
	case 2, 3, 4:
		out := make([]byte, 0, 32)
		for _, r := range password {
			b, ok := PDFDocEncodeRune(r)
			if !ok {
				return nil, fmt.Errorf("%w: U+%04X has no code in PDFDocEncoding", ErrPassword, r)
			}
			// the whole password must be encodable, also beyond 32 bytes
			if len(out) < 32 {
				out = append(out, b)
			}
		}
		out = append(out, pad[:32-len(out)]...)
		return out, nil
	case 5, 6:
		s, err := SASLprep(password)
		if err != nil {
			return nil, err
		}
		b := []byte(s)
		if len(b) > 127 {
			b = b[:127]
		}
		return b, nil
	}
	return nil, fmt.Errorf("stdsec: unsupported revision %d", revision)
}

// pdfDocHigh lists the code points of PDFDocEncoding for the codes
// 0x18-0x1F and 0x80-0xA0 (ISO 32000-2 table D.2); 0 = undefined.
var pdfDocSpecial = map[rune]byte{
	0x02D8: 0x18, // breve
	0x02C7: 0x19, // caron
	0x02C6: 0x1A, // circumflex
	0x02D9: 0x1B, // dotaccent
	0x02DD: 0x1C, // hungarumlaut
	0x02DB: 0x1D, // ogonek
	0x02DA: 0x1E, // ring
	0x02DC: 0x1F, // tilde
	0x2022: 0x80, // bullet
	0x2020: 0x81, // dagger
	0x2021: 0x82, // daggerdbl
	0x2026: 0x83, // ellipsis
	0x2014: 0x84, // emdash
	0x2013: 0x85, // endash
	0x0192: 0x86, // florin
	0x2044: 0x87, // fraction
	0x2039: 0x88, // guilsinglleft
	0x203A: 0x89, // guilsinglright
	0x2212: 0x8A, // minus
	0x2030: 0x8B, // perthousand
	0x201E: 0x8C, // quotedblbase
	0x201C: 0x8D, // quotedblleft
	0x201D: 0x8E, // quotedblright
	0x2018: 0x8F, // quoteleft
	0x2019: 0x90, // quoteright
	0x201A: 0x91, // quotesinglbase
	0x2122: 0x92, // trademark
	0xFB01: 0x93, // fi
	0xFB02: 0x94, // fl
	0x0141: 0x95, // Lslash
	0x0152: 0x96, // OE
	0x0160: 0x97, // Scaron
	0x0178: 0x98, // Ydieresis
	0x017D: 0x99, // Zcaron
	0x0131: 0x9A, // dotlessi
	0x0142: 0x9B, // lslash
	0x0153: 0x9C, // oe
	0x0161: 0x9D, // scaron
	0x017E: 0x9E, // zcaron
	0x20AC: 0xA0, // Euro
}

// PDFDocEncodeRune gives the PDFDocEncoding code of r.  Defined are: the
// white-space controls HT, LF, CR; 0x20-0x7E as in ASCII; the accents at
// 0x18-0x1F; the specials at 0x80-0x9E and 0xA0; 0xA1-0xFF as in Latin-1
// except 0xAD.  Codes the table marks undefined (0x00-0x08, 0x0B, 0x0C,
// 0x0E-0x17, 0x7F, 0x9F, 0xAD) are reported as not encodable; see
// PDFDocUndefined for callers that want to treat them as a grey zone.
func PDFDocEncodeRune(r rune) (byte, bool) {
	switch {
	case r == 0x09 || r == 0x0A || r == 0x0D:
		return byte(r), true
	case r >= 0x20 && r <= 0x7E:
		return byte(r), true
	case r >= 0xA1 && r <= 0xFF && r != 0xAD:
		return byte(r), true
	}
	b, ok := pdfDocSpecial[r]
	return b, ok
}

// PDFDocUndefined reports whether r is a code point below U+0100 whose
// position in PDFDocEncoding is marked "undefined" and which is not encoded
// anywhere else in the table.  Some implementations map such code points to
// the byte of the same value.
func PDFDocUndefined(r rune) bool {
	if r < 0 || r > 0xFF {
		return false
	}
	if _, ok := PDFDocEncodeRune(r); ok {
		return false
	}
	switch {
	case r <= 0x17, r == 0x7F, r == 0x9F, r == 0xAD:
		return true
	}
	return false
}

type runeRange struct{ lo, hi rune }

func inRanges(r rune, t []runeRange) bool {
	for _, x := range t {
		if r >= x.lo && r <= x.hi {
			return true
		}
	}
	return false
}

// RFC 3454 B.1: commonly mapped to nothing.
var tableB1 = []runeRange{
	{0x00AD, 0x00AD}, {0x034F, 0x034F}, {0x1806, 0x1806}, {0x180B, 0x180D},
	{0x200B, 0x200D}, {0x2060, 0x2060}, {0xFE00, 0xFE0F}, {0xFEFF, 0xFEFF},
}

// RFC 3454 C.1.2: non-ASCII space characters.
var tableC12 = []runeRange{
	{0x00A0, 0x00A0}, {0x1680, 0x1680}, {0x2000, 0x200B}, {0x202F, 0x202F},
	{0x205F, 0x205F}, {0x3000, 0x3000},
}

// RFC 3454 C.2.1, C.2.2, C.3, C.4, C.5, C.6, C.7, C.8, C.9.
var tableProhibited = []runeRange{
	// C.2.1 ASCII control characters
	{0x0000, 0x001F}, {0x007F, 0x007F},
	// C.2.2 non-ASCII control characters
	{0x0080, 0x009F}, {0x06DD, 0x06DD}, {0x070F, 0x070F}, {0x180E, 0x180E},
	{0x200C, 0x200D}, {0x2028, 0x2029}, {0x2060, 0x2063}, {0x206A, 0x206F},
	{0xFEFF, 0xFEFF}, {0xFFF9, 0xFFFC}, {0x1D173, 0x1D17A},
	// C.3 private use
	{0xE000, 0xF8FF}, {0xF0000, 0xFFFFD}, {0x100000, 0x10FFFD},
	// C.4 non-character code points
	{0xFDD0, 0xFDEF}, {0xFFFE, 0xFFFF}, {0x1FFFE, 0x1FFFF}, {0x2FFFE, 0x2FFFF},
	{0x3FFFE, 0x3FFFF}, {0x4FFFE, 0x4FFFF}, {0x5FFFE, 0x5FFFF}, {0x6FFFE, 0x6FFFF},
	{0x7FFFE, 0x7FFFF}, {0x8FFFE, 0x8FFFF}, {0x9FFFE, 0x9FFFF}, {0xAFFFE, 0xAFFFF},
	{0xBFFFE, 0xBFFFF}, {0xCFFFE, 0xCFFFF}, {0xDFFFE, 0xDFFFF}, {0xEFFFE, 0xEFFFF},
	{0xFFFFE, 0xFFFFF}, {0x10FFFE, 0x10FFFF},
	// C.5 surrogate codes
	{0xD800, 0xDFFF},
	// C.6 inappropriate for plain text
	{0xFFF9, 0xFFFD},
	// C.7 inappropriate for canonical representation
	{0x2FF0, 0x2FFB},
	// C.8 change display properties or deprecated
	{0x0340, 0x0341}, {0x200E, 0x200F}, {0x202A, 0x202E}, {0x206A, 0x206F},
	// C.9 tagging characters
	{0xE0001, 0xE0001}, {0xE0020, 0xE007F},
}

// SASLprep is RFC 4013 as described at Prepare.
func SASLprep(s string) (string, error) {
	if !utf8.ValidString(s) {
		return "", fmt.Errorf("%w: not valid UTF-8", ErrPassword)
	}
	// 2.1 mapping
	mapped := make([]rune, 0, len(s))
	for _, r := range s {
		switch {
		case inRanges(r, tableB1):
			// mapped to nothing
		case inRanges(r, tableC12):
			mapped = append(mapped, ' ')
		default:
			mapped = append(mapped, r)
		}
	}
	// 2.2 normalisation
	out := norm.NFKC.String(string(mapped))
	// 2.3 prohibited output
	var randAL, lcat bool
	var first, last rune = -1, -1
	for _, r := range out {
		if inRanges(r, tableC12) || inRanges(r, tableProhibited) {
			return "", fmt.Errorf("%w: U+%04X is prohibited by SASLprep", ErrPassword, r)
		}
		if first < 0 {
			first = r
		}
		last = r
		p, _ := bidi.LookupRune(r)
		switch p.Class() {
		case bidi.R, bidi.AL:
			randAL = true
		case bidi.L:
			lcat = true
		}
	}
	// 2.4 bidirectional characters (RFC 3454 section 6)
	if randAL {
		if lcat {
			return "", fmt.Errorf("%w: mixes right-to-left and left-to-right characters", ErrPassword)
		}
		isRandAL := func(r rune) bool {
			p, _ := bidi.LookupRune(r)
			c := p.Class()
			return c == bidi.R || c == bidi.AL
		}
		if !isRandAL(first) || !isRandAL(last) {
			return "", fmt.Errorf("%w: right-to-left text must start and end with a right-to-left character", ErrPassword)
		}
	}
	return out, nil
}
