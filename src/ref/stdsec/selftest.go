package stdsec

import (
	"bytes"
	"crypto/aes"
	"crypto/cipher"
	"crypto/md5"
	"crypto/sha256"
	"crypto/sha512"
	"encoding/hex"
	"errors"
	"fmt"
	"strings"
)

func unhex(s string) []byte {
	b, err := hex.DecodeString(strings.ReplaceAll(s, " ", ""))
	if err != nil {
		panic(err)
	}
	return b
}

type constReader byte

func (c constReader) Read(p []byte) (int, error) {
	for i := range p {
		p[i] = byte(c) + byte(i)
	}
	return len(p), nil
}

// SelfTest checks the package against known answers: the primitive wrappers
// against the vectors of RFC 1321, FIPS 197, SP 800-38A, FIPS 180 and the
// classic RC4 vectors; Algorithms 2, 3 and 5 against the revision-4 vector
// carried (as data) by the repository's crypto_test.go; Algorithm 1 against
// literally written MD5 inputs; PDFDocEncoding and SASLprep against the
// examples of ISO 32000-2 annex D and RFC 4013 section 3; and every
// revision through create -> authenticate -> encrypt -> decrypt.  (No
// published known-answer vector for Algorithm 2.B was available offline;
// revision 6 is cross-validated by the checks themselves: files of the
// library must open here and vice versa.)
func SelfTest() error {
	// --- primitives through the wrappers used by the algorithms
	if got := md5.Sum([]byte("abc")); hex.EncodeToString(got[:]) != "900150983cd24fb0d6963f7d28e17f72" {
		return errors.New("md5 KAT")
	}
	if got := rc4Apply([]byte("Key"), []byte("Plaintext")); !bytes.Equal(got, unhex("BBF316E8D940AF0AD3")) {
		return errors.New("rc4 KAT 1")
	}
	if got := rc4Apply([]byte("Wiki"), []byte("pedia")); !bytes.Equal(got, unhex("1021BF0420")) {
		return errors.New("rc4 KAT 2")
	}
	if got := rc4Apply([]byte("Secret"), []byte("Attack at dawn")); !bytes.Equal(got, unhex("45A01F645FC35B383552544B9BF5")) {
		return errors.New("rc4 KAT 3")
	}
	{
		// FIPS 197 C.1 and C.3
		blk, _ := aes.NewCipher(unhex("000102030405060708090a0b0c0d0e0f"))
		out := make([]byte, 16)
		blk.Encrypt(out, unhex("00112233445566778899aabbccddeeff"))
		if !bytes.Equal(out, unhex("69c4e0d86a7b0430d8cdb78070b4c55a")) {
			return errors.New("aes-128 KAT")
		}
		blk, _ = aes.NewCipher(unhex("000102030405060708090a0b0c0d0e0f101112131415161718191a1b1c1d1e1f"))
		blk.Encrypt(out, unhex("00112233445566778899aabbccddeeff"))
		if !bytes.Equal(out, unhex("8ea2b7ca516745bfeafc49904b496089")) {
			return errors.New("aes-256 KAT")
		}
		// SP 800-38A F.2.1 (CBC-AES128) and F.2.5 (CBC-AES256), first two blocks
		blk, _ = aes.NewCipher(unhex("2b7e151628aed2a6abf7158809cf4f3c"))
		pt := unhex("6bc1bee22e409f96e93d7e117393172a ae2d8a571e03ac9c9eb76fac45af8e51")
		ct := make([]byte, 32)
		cipher.NewCBCEncrypter(blk, unhex("000102030405060708090a0b0c0d0e0f")).CryptBlocks(ct, pt)
		if !bytes.Equal(ct, unhex("7649abac8119b246cee98e9b12e9197d 5086cb9b507219ee95db113a917678b2")) {
			return errors.New("aes-128-cbc KAT")
		}
		blk, _ = aes.NewCipher(unhex("603deb1015ca71be2b73aef0857d77811f352c073b6108d72d9810a30914dff4"))
		cipher.NewCBCEncrypter(blk, unhex("000102030405060708090a0b0c0d0e0f")).CryptBlocks(ct, pt)
		if !bytes.Equal(ct, unhex("f58c4c04d6e5f1ba779eabfb5f7bfbd6 9cfc4e967edb808d679f777bc6702c7d")) {
			return errors.New("aes-256-cbc KAT")
		}
	}
	if got := sha256.Sum256([]byte("abc")); hex.EncodeToString(got[:]) != "ba7816bf8f01cfea414140de5dae2223b00361a396177a9cb410ff61f20015ad" {
		return errors.New("sha256 KAT")
	}
	if got := sha512.Sum384([]byte("abc")); hex.EncodeToString(got[:]) != "cb00753f45a35e8bb5a03d699ac65007272c32ab0eded1631a8b605a43ff5bed8086072ba1e7cc2358baeca134c825a7" {
		return errors.New("sha384 KAT")
	}
	if got := sha512.Sum512([]byte("abc")); hex.EncodeToString(got[:]) != "ddaf35a193617abacc417349ae20413112e6fa4e89a97ea20a9eeee64b55d39a2192992a274fc1a836ba3c23a3feebbd454d4423643ce80e2a9ac94fa54ca49f" {
		return errors.New("sha512 KAT")
	}

	// --- password preparation
	if p, err := Prepare("", 3); err != nil || !bytes.Equal(p, pad[:]) {
		return errors.New("Prepare empty R3")
	}
	if p, err := Prepare("test", 4); err != nil || !bytes.Equal(p, append([]byte("test"), pad[:28]...)) {
		return errors.New("Prepare test R4")
	}
	if p, err := Prepare(strings.Repeat("x", 33), 2); err != nil || !bytes.Equal(p, bytes.Repeat([]byte("x"), 32)) {
		return errors.New("Prepare 33 bytes R2")
	}
	if p, err := Prepare("\u0141\u00e4\u20ac\u2022~\t", 4); err != nil || !bytes.Equal(p[:6], []byte{0x95, 0xE4, 0xA0, 0x80, 0x7E, 0x09}) {
		return errors.New("Prepare PDFDocEncoding specials")
	}
	for _, bad := range []string{"\u65e5\u672c", "a\u00ad", "\x7f", "\x00", "\u0100", strings.Repeat("a", 40) + "\u65e5", "\xff"} {
		if _, err := Prepare(bad, 4); !errors.Is(err, ErrPassword) {
			return fmt.Errorf("Prepare(%q, 4) accepted", bad)
		}
	}
	// RFC 4013 section 3
	for _, c := range []struct{ in, out string }{
		{"I\u00adX", "IX"}, {"user", "user"}, {"USER", "USER"}, {"\u00aa", "a"}, {"\u2168", "IX"},
		{"a\u00a0b\u3000c", "a b c"}, {"\u65e5\u672c", "\u65e5\u672c"}, {"", ""}, {"\ufb01", "fi"},
		{"\u0627\u0628", "\u0627\u0628"}, {"A\u030a", "\u00c5"}, {"\u0141\u00e4", "\u0141\u00e4"},
	} {
		got, err := SASLprep(c.in)
		if err != nil || got != c.out {
			return fmt.Errorf("SASLprep(%q) = %q, %v; want %q", c.in, got, err, c.out)
		}
	}
	for _, bad := range []string{"\u0007", "\u0627\u0031", "a\tb", "\x7f", "\u0080", "\ue000", "\ufffd", "\u200e",
		"\U000e0001", "\u2028", "a\u0627", "\xff", "\U0010fffd", "\ufdd0", "\u2ff0"} {
		if _, err := SASLprep(bad); !errors.Is(err, ErrPassword) {
			return fmt.Errorf("SASLprep(%q) accepted", bad)
		}
	}
	if p, err := Prepare(strings.Repeat("a", 128), 6); err != nil || len(p) != 127 {
		return errors.New("Prepare 128 bytes R6")
	}
	if p, err := Prepare(strings.Repeat("a", 126)+"\u00e4", 6); err != nil || len(p) != 127 || p[126] != 0xC3 {
		return errors.New("Prepare R6 truncation is not bytewise")
	}

	// --- Algorithms 2, 3, 5: vector carried by /repo/crypto_test.go (TestComputeOU)
	{
		id := unhex("acac29b4192fd923c24fe6042479b2a9")
		pw, _ := Prepare("test", 4)
		o := computeO(pw, pw, 4, 16, false)
		if hex.EncodeToString(o) != "badad1e86442699427116d3e5d5271bc80a27814fc5e80f815efeef839354c5f" {
			return fmt.Errorf("Algorithm 3 KAT: got %x", o)
		}
		key := fileKeyLegacy(pw, o, 0xFFFFFFFC, id, 4, 16, true)
		u := computeU(key, id, 4)
		if hex.EncodeToString(u) != "a5b5fc1fcc399c6845fedcdfac82027c" {
			return fmt.Errorf("Algorithm 5 KAT: got %x", u)
		}
	}

	// --- Algorithm 1 against literally written inputs
	{
		h := &Handler{Key: []byte{1, 2, 3, 4, 5}}
		want := md5.Sum([]byte{1, 2, 3, 4, 5, 0x56, 0x34, 0x12, 0xCD, 0xAB})
		if got := h.ObjectKey(0x123456, 0xABCD, CipherRC4); !bytes.Equal(got, want[:10]) {
			return errors.New("Algorithm 1 (40-bit RC4)")
		}
		h.Key = bytes.Repeat([]byte{9}, 16)
		in := append(bytes.Repeat([]byte{9}, 16), 0x07, 0x00, 0x00, 0x01, 0x00, 's', 'A', 'l', 'T')
		want = md5.Sum(in)
		if got := h.ObjectKey(7, 1, CipherAESV2); !bytes.Equal(got, want[:]) {
			return errors.New("Algorithm 1 (AESV2)")
		}
		want = md5.Sum(in[:21])
		if got := h.ObjectKey(7, 1, CipherRC4); !bytes.Equal(got, want[:]) {
			return errors.New("Algorithm 1 (128-bit RC4)")
		}
		h.Key = bytes.Repeat([]byte{9}, 32)
		if got := h.ObjectKey(7, 1, CipherAESV3); !bytes.Equal(got, h.Key) {
			return errors.New("Algorithm 1.A")
		}
	}

	// --- every revision: create, authenticate, encrypt, decrypt
	type cfg struct {
		R, bits int
		aes     bool
		plain   bool
	}
	cfgs := []cfg{{2, 40, false, false}, {3, 40, false, false}, {3, 56, false, false}, {3, 128, false, false},
		{4, 128, false, false}, {4, 128, true, false}, {4, 128, true, true}, {5, 256, true, false}, {6, 256, true, false}, {6, 256, true, true}}
	id := []byte("0123456789abcdef")
	for _, c := range cfgs {
		for _, pws := range [][2]string{{"user", "owner"}, {"", "owner"}, {"user", ""}, {"same", "same"}, {"", ""}, {"\u00e4", "\u0141"}} {
			tag := fmt.Sprintf("R%d/%d/aes=%v/plain=%v/%q", c.R, c.bits, c.aes, c.plain, pws)
			enc, h0, err := New(Params{R: c.R, KeyBits: c.bits, AES: c.aes, User: pws[0], Owner: pws[1],
				P: -3904, PlaintextMetadata: c.plain, ID0: id, Rand: constReader(0x40)})
			if err != nil {
				return fmt.Errorf("%s: New: %v", tag, err)
			}
			effOwner := pws[1]
			if effOwner == "" && c.R <= 4 {
				effOwner = pws[0]
			}
			hu, ok, isOwner, err := Open(enc, id, pws[0])
			if err != nil || !ok || !hu.IsUser || isOwner != (pws[0] == effOwner) {
				return fmt.Errorf("%s: user password: ok=%v owner=%v err=%v", tag, ok, isOwner, err)
			}
			ho, ok, isOwner, err := Open(enc, id, effOwner)
			if err != nil || !ok || !isOwner {
				return fmt.Errorf("%s: owner password: ok=%v owner=%v err=%v", tag, ok, isOwner, err)
			}
			if !bytes.Equal(hu.Key, h0.Key) || !bytes.Equal(ho.Key, h0.Key) {
				return fmt.Errorf("%s: keys differ", tag)
			}
			if hu.PermsErr != nil || ho.PermsErr != nil {
				return fmt.Errorf("%s: Perms: %v %v", tag, hu.PermsErr, ho.PermsErr)
			}
			if _, ok, _, err := Open(enc, id, "wrong"); ok || err != nil {
				return fmt.Errorf("%s: wrong password: ok=%v err=%v", tag, ok, err)
			}
			if _, ok, _, _ := Open(enc, []byte("another id 12345"), pws[0]); ok != (c.R >= 5) {
				return fmt.Errorf("%s: changed ID: ok=%v", tag, ok)
			}
			for _, n := range []int{0, 1, 15, 16, 17, 100} {
				msg := bytes.Repeat([]byte{byte(n), 0xA5}, n)[:n]
				ct, err := h0.EncryptString(12, 3, msg)
				if err != nil {
					return fmt.Errorf("%s: encrypt: %v", tag, err)
				}
				wantLen := n
				if h0.StrCipher != CipherRC4 {
					wantLen = 16 + (n/16+1)*16
					if !bytes.Equal(ct[:16], []byte("@ABCDEFGHIJKLMNO")) {
						return fmt.Errorf("%s: IV not in front", tag)
					}
				}
				if len(ct) != wantLen || (n >= 16 && bytes.Contains(ct, msg)) {
					return fmt.Errorf("%s: ciphertext length %d for %d bytes", tag, len(ct), n)
				}
				pt, err := hu.DecryptString(12, 3, ct)
				if err != nil || !bytes.Equal(pt, msg) {
					return fmt.Errorf("%s: decrypt: %v", tag, err)
				}
				if c.R <= 4 && n >= 16 {
					if pt, err := hu.DecryptStream(13, 3, ct); err == nil && bytes.Equal(pt, msg) {
						return fmt.Errorf("%s: object number does not enter the key", tag)
					}
					if pt, err := hu.DecryptStream(12, 4, ct); err == nil && bytes.Equal(pt, msg) {
						return fmt.Errorf("%s: generation does not enter the key", tag)
					}
				}
			}
		}
	}
	// AES ciphertext validation
	{
		_, h, _ := New(Params{R: 6, User: "u", Owner: "o", P: -4})
		ct, _ := h.EncryptStream(1, 0, []byte("hello"))
		ct[len(ct)-17] ^= 0x55 // last byte of the previous block flips the last padding byte
		if _, err := h.DecryptStream(1, 0, ct); !errors.Is(err, ErrCiphertext) {
			return errors.New("bad padding accepted")
		}
		if _, err := h.DecryptStream(1, 0, ct[:31]); !errors.Is(err, ErrCiphertext) {
			return errors.New("short ciphertext accepted")
		}
	}
	// Algorithm 2.B structural facts: deterministic, 32 bytes, depends on all inputs
	{
		a := Hash2B([]byte("pw"), []byte("saltsalt"), nil)
		b := Hash2B([]byte("pw"), []byte("saltsalt"), nil)
		c := Hash2B([]byte("pw"), []byte("saltsalu"), nil)
		d := Hash2B([]byte("pw"), []byte("saltsalt"), make([]byte, 48))
		e := Hash2B([]byte("px"), []byte("saltsalt"), nil)
		if len(a) != 32 || !bytes.Equal(a, b) || bytes.Equal(a, c) || bytes.Equal(a, d) || bytes.Equal(a, e) {
			return errors.New("Algorithm 2.B structure")
		}
	}
	return nil
}
