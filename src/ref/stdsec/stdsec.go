// Package stdsec is an independent implementation of the PDF standard
// security handler, written from ISO 32000-2:2020 §7.6 (revision 6, AESV3),
// ISO 32000-1:2008 §7.6 (revisions 2-4, RC4 and AESV2) and Adobe Supplement
// to ISO 32000, ExtensionLevel 3 (the deprecated revision 5).  It is used as
// an oracle by the checks C09 and C10 and shares no code with
// seehuhn.de/go/pdf: only the Go standard library (md5, rc4, aes, cipher,
// sha256, sha512) and golang.org/x/text/unicode/{norm,bidi} are used.
//
// Both directions are implemented:
//
//   - Open / OpenPrepared authenticate a password against a given Encrypt
//     dictionary and give a *Handler that decrypts (and encrypts) strings and
//     streams of that file.
//   - New creates the Encrypt dictionary entries (and the *Handler) from
//     passwords, permissions and the first element of the file ID.
//
// The API uses plain Go types only.  An Encrypt dictionary is a
// map[string]any whose values are int / int64 (integers), bool, string
// (names, without the slash), []byte (strings) and map[string]any
// (dictionaries); see ParseDict.
//
// Algorithms (numbering of ISO 32000-2): 1 and 1.A (per-object key, AES-CBC
// with the IV prefix and PKCS#7 padding), 2 (file key R2-R4), 2.A (file key
// R6), 2.B (R6 hash), 3 (O), 4 and 5 (U), 6 and 7 (authentication R2-R4),
// 8 (U, UE), 9 (O, OE), 10 (Perms), 11 and 12 (authentication R6), 13
// (validation of Perms).  Password preparation: Prepare.
package stdsec

import (
	"bytes"
	"crypto/aes"
	"crypto/cipher"
	"crypto/md5"
	"crypto/rand"
	"crypto/rc4"
	"crypto/sha256"
	"crypto/sha512"
	"encoding/binary"
	"errors"
	"fmt"
	"io"
)

// Cipher is the method used for strings or streams.
type Cipher int

const (
	CipherIdentity Cipher = iota // crypt filter "Identity" or CFM None: data is not encrypted
	CipherRC4                    // V 1, V 2, or CFM V2
	CipherAESV2                  // CFM AESV2: AES-128-CBC, per-object key with "sAlT"
	CipherAESV3                  // CFM AESV3: AES-256-CBC, file key used directly
)

func (c Cipher) String() string {
	switch c {
	case CipherIdentity:
		return "Identity"
	case CipherRC4:
		return "RC4"
	case CipherAESV2:
		return "AESV2"
	case CipherAESV3:
		return "AESV3"
	}
	return fmt.Sprintf("Cipher(%d)", int(c))
}

// Permission bits of /P (ISO 32000-2 table 22; bit 1 is the least
// significant bit).
const (
	PBitPrint         uint32 = 1 << 2  // bit 3
	PBitModify        uint32 = 1 << 3  // bit 4
	PBitCopy          uint32 = 1 << 4  // bit 5
	PBitAnnotate      uint32 = 1 << 5  // bit 6
	PBitFillForms     uint32 = 1 << 8  // bit 9
	PBitAccessibility uint32 = 1 << 9  // bit 10 (deprecated in 2.0: always 1)
	PBitAssemble      uint32 = 1 << 10 // bit 11
	PBitPrintHigh     uint32 = 1 << 11 // bit 12
	// PReserved1 are the bits that table 22 requires to be 1 (7, 8, 13-32).
	PReserved1 uint32 = 0xFFFFF0C0
)

// pad is the 32-byte padding string of Algorithm 2.
var pad = [32]byte{
	0x28, 0xBF, 0x4E, 0x5E, 0x4E, 0x75, 0x8A, 0x41,
	0x64, 0x00, 0x4E, 0x56, 0xFF, 0xFA, 0x01, 0x08,
	0x2E, 0x2E, 0x00, 0xB6, 0xD0, 0x68, 0x3E, 0x80,
	0x2F, 0x0C, 0xA9, 0xFE, 0x64, 0x53, 0x69, 0x7A,
}

// CryptFilter is one entry of /CF.
type CryptFilter struct {
	CFM       string // "None", "V2", "AESV2", "AESV3"; "" = absent = None
	AuthEvent string
	Length    int // as found (some writers give bytes, some bits); informational
}

// Dict is a parsed Encrypt dictionary of the standard security handler.
type Dict struct {
	Filter          string
	V, R            int
	Length          int // bits; 0 = absent
	O, U            []byte
	OE, UE, Perms   []byte
	P               int64 // as found; only the low 32 bits take part in the algorithms
	EncryptMetadata bool  // true if absent
	CF              map[string]CryptFilter
	StmF, StrF, EFF string // "" = absent = Identity (EFF: = StmF)

	// OwnerKeyFirstN selects the de-facto reading of Algorithm 3 (c) /
	// Algorithm 7 (a) for revisions 3-4 (see ownerKey).  It is not an entry
	// of the dictionary: ParseDict leaves it false (the letter of the
	// standard) and callers set it before OpenPrepared.  The readings only
	// differ for keys shorter than 128 bits.
	OwnerKeyFirstN bool
}

// ErrDict is wrapped by all errors about malformed Encrypt dictionaries.
var ErrDict = errors.New("stdsec: malformed Encrypt dictionary")

func dictErr(format string, a ...any) error {
	return fmt.Errorf("%w: %s", ErrDict, fmt.Sprintf(format, a...))
}

func asInt(v any) (int64, bool) {
	switch x := v.(type) {
	case int:
		return int64(x), true
	case int64:
		return x, true
	case int32:
		return int64(x), true
	case uint32:
		return int64(x), true
	}
	return 0, false
}

// ParseDict converts the plain-value form of an Encrypt dictionary
// (integers int/int64, names string, strings []byte, booleans bool,
// dictionaries map[string]any) into a Dict and checks that the entries
// required for its V and R are present and have the lengths the standard
// requires (O, U: 32 bytes for R 2-4, 48 for R 5-6; OE, UE: 32; Perms: 16;
// longer strings are accepted and truncated, as ISO 32000-2 demands for
// robustness).
func ParseDict(m map[string]any) (*Dict, error) {
	d := &Dict{EncryptMetadata: true}
	name := func(key string) (string, error) {
		v, ok := m[key]
		if !ok || v == nil {
			return "", nil
		}
		s, ok := v.(string)
		if !ok {
			return "", dictErr("/%s is not a name", key)
		}
		return s, nil
	}
	integer := func(key string, required bool) (int64, bool, error) {
		v, ok := m[key]
		if !ok || v == nil {
			if required {
				return 0, false, dictErr("/%s missing", key)
			}
			return 0, false, nil
		}
		i, ok := asInt(v)
		if !ok {
			return 0, false, dictErr("/%s is not an integer", key)
		}
		return i, true, nil
	}
	str := func(key string, n int) ([]byte, error) {
		v, ok := m[key]
		if !ok || v == nil {
			return nil, dictErr("/%s missing", key)
		}
		b, ok := v.([]byte)
		if !ok {
			return nil, dictErr("/%s is not a string", key)
		}
		if len(b) < n {
			return nil, dictErr("/%s has %d bytes, need %d", key, len(b), n)
		}
		return append([]byte(nil), b[:n]...), nil
	}
	var err error
	if d.Filter, err = name("Filter"); err != nil {
		return nil, err
	}
	if d.Filter != "Standard" {
		return nil, dictErr("/Filter is %q, not Standard", d.Filter)
	}
	v, _, err := integer("V", false) // default 0: undocumented algorithm
	if err != nil {
		return nil, err
	}
	r, _, err := integer("R", true)
	if err != nil {
		return nil, err
	}
	d.V, d.R = int(v), int(r)
	l, _, err := integer("Length", false)
	if err != nil {
		return nil, err
	}
	d.Length = int(l)
	p, _, err := integer("P", true)
	if err != nil {
		return nil, err
	}
	d.P = p
	if v, ok := m["EncryptMetadata"]; ok && v != nil {
		b, ok := v.(bool)
		if !ok {
			return nil, dictErr("/EncryptMetadata is not a boolean")
		}
		d.EncryptMetadata = b
	}

	switch {
	case d.V == 1 && (d.R == 2 || d.R == 3):
	case d.V == 2 && d.R == 3:
	case d.V == 4 && d.R == 4:
	case d.V == 5 && (d.R == 5 || d.R == 6):
	default:
		return nil, dictErr("unsupported combination V=%d R=%d", d.V, d.R)
	}
	ou := 32
	if d.R >= 5 {
		ou = 48
	}
	if d.O, err = str("O", ou); err != nil {
		return nil, err
	}
	if d.U, err = str("U", ou); err != nil {
		return nil, err
	}
	if d.R >= 5 {
		if d.OE, err = str("OE", 32); err != nil {
			return nil, err
		}
		if d.UE, err = str("UE", 32); err != nil {
			return nil, err
		}
		if d.Perms, err = str("Perms", 16); err != nil {
			return nil, err
		}
	}
	if d.V >= 4 {
		if d.StmF, err = name("StmF"); err != nil {
			return nil, err
		}
		if d.StrF, err = name("StrF"); err != nil {
			return nil, err
		}
		if d.EFF, err = name("EFF"); err != nil {
			return nil, err
		}
		if cf, ok := m["CF"]; ok && cf != nil {
			cfm, ok := cf.(map[string]any)
			if !ok {
				return nil, dictErr("/CF is not a dictionary")
			}
			d.CF = map[string]CryptFilter{}
			for k, v := range cfm {
				fm, ok := v.(map[string]any)
				if !ok {
					return nil, dictErr("/CF/%s is not a dictionary", k)
				}
				var f CryptFilter
				if s, ok := fm["CFM"].(string); ok {
					f.CFM = s
				}
				if s, ok := fm["AuthEvent"].(string); ok {
					f.AuthEvent = s
				}
				if i, ok := asInt(fm["Length"]); ok {
					f.Length = int(i)
				}
				d.CF[k] = f
			}
		}
	}
	if _, err := d.keyBytes(); err != nil {
		return nil, err
	}
	for _, n := range []string{d.StmF, d.StrF, d.EFF} {
		if _, err := d.CipherFor(n); err != nil {
			return nil, err
		}
	}
	return d, nil
}

// keyBytes is n of Algorithm 2: the length of the file encryption key.
//
// R 2: 5.  R 3: /Length / 8 (default 40 bits).  R 4: /Length / 8 when
// present, else 16 (the key length of both V2-with-128-bits and AESV2 crypt
// filters; ISO 32000-1 table 20 defines /Length only for V 2 and 3, all
// known writers emit 128 for V 4).  R 5, 6: 32.
func (d *Dict) keyBytes() (int, error) {
	switch d.R {
	case 2:
		// ISO 32000-1 Algorithm 2 step (i): "n is always 5 for revision 2".
		return 5, nil
	case 3, 4:
		l := d.Length
		if l == 0 {
			if d.R == 4 {
				l = 128
			} else {
				l = 40
			}
		}
		if l < 40 || l > 128 || l%8 != 0 {
			return 0, dictErr("/Length %d", l)
		}
		if d.V == 1 && l != 40 {
			return 0, dictErr("/Length %d with V=1", l)
		}
		return l / 8, nil
	case 5, 6:
		return 32, nil
	}
	return 0, dictErr("R=%d", d.R)
}

// CipherFor gives the cipher selected by a crypt filter name of this
// dictionary ("" = the entry is absent).  For V < 4 the name is ignored and
// the answer is RC4.
func (d *Dict) CipherFor(filterName string) (Cipher, error) {
	if d.V < 4 {
		return CipherRC4, nil
	}
	if filterName == "" || filterName == "Identity" {
		return CipherIdentity, nil
	}
	f, ok := d.CF[filterName]
	if !ok {
		return 0, dictErr("crypt filter %q not in /CF", filterName)
	}
	switch f.CFM {
	case "", "None":
		return CipherIdentity, nil
	case "V2":
		if d.V != 4 {
			return 0, dictErr("CFM V2 with V=%d", d.V)
		}
		return CipherRC4, nil
	case "AESV2":
		if d.V != 4 {
			return 0, dictErr("CFM AESV2 with V=%d", d.V)
		}
		return CipherAESV2, nil
	case "AESV3":
		if d.V != 5 {
			return 0, dictErr("CFM AESV3 with V=%d", d.V)
		}
		return CipherAESV3, nil
	}
	return 0, dictErr("unknown CFM %q", f.CFM)
}

// Map converts d back to the plain-value form (the inverse of ParseDict).
func (d *Dict) Map() map[string]any {
	m := map[string]any{
		"Filter": "Standard",
		"V":      d.V,
		"R":      d.R,
		"O":      append([]byte(nil), d.O...),
		"U":      append([]byte(nil), d.U...),
		"P":      int(int32(uint32(d.P))), // a signed 32-bit quantity (table 21)
	}
	if d.Length != 0 {
		m["Length"] = d.Length
	}
	if d.R >= 5 {
		m["OE"] = append([]byte(nil), d.OE...)
		m["UE"] = append([]byte(nil), d.UE...)
		m["Perms"] = append([]byte(nil), d.Perms...)
	}
	if d.R >= 4 && !d.EncryptMetadata {
		m["EncryptMetadata"] = false
	}
	if d.V >= 4 {
		cf := map[string]any{}
		for k, f := range d.CF {
			e := map[string]any{"Type": "CryptFilter"}
			if f.CFM != "" {
				e["CFM"] = f.CFM
			}
			if f.AuthEvent != "" {
				e["AuthEvent"] = f.AuthEvent
			}
			if f.Length != 0 {
				e["Length"] = f.Length
			}
			cf[k] = e
		}
		m["CF"] = cf
		if d.StmF != "" {
			m["StmF"] = d.StmF
		}
		if d.StrF != "" {
			m["StrF"] = d.StrF
		}
		if d.EFF != "" {
			m["EFF"] = d.EFF
		}
	}
	return m
}

// ---------------------------------------------------------------------------
// revisions 2-4

// fileKeyLegacy is Algorithm 2.
func fileKeyLegacy(padded, o []byte, p uint32, id0 []byte, rev, n int, encryptMetadata bool) []byte {
	h := md5.New()
	h.Write(padded)  // (a),(b)
	h.Write(o[:32])  // (c)
	var pb [4]byte   // (d) low-order byte first
	binary.LittleEndian.PutUint32(pb[:], p)
	h.Write(pb[:])
	h.Write(id0) // (e)
	if rev >= 4 && !encryptMetadata {
		h.Write([]byte{0xFF, 0xFF, 0xFF, 0xFF}) // (f)
	}
	sum := h.Sum(nil) // (g)
	if rev >= 3 {     // (h)
		for i := 0; i < 50; i++ {
			s := md5.Sum(sum[:n])
			sum = s[:]
		}
	}
	return sum[:n] // (i)
}

// ownerKey is steps (a)-(d) of Algorithm 3: the RC4 key derived from the
// owner password.
//
// Step (c) reads "take the output from the previous MD5 hash and pass it as
// input into a new MD5 hash", i.e. the whole 16-byte output, unlike
// Algorithm 2 (h) ("the first n bytes").  That is what firstN == false does.
// Acrobat and the deployed implementations (qpdf, PDFBox, MuPDF, ...) feed
// only the first n bytes here as well (PDFBox documents that Acrobat cannot
// open files made by the letter with the owner password when the key has 40
// bits); firstN == true is that reading.  For n = 16 both coincide.
func ownerKey(paddedOwner []byte, rev, n int, firstN bool) []byte {
	s := md5.Sum(paddedOwner)
	sum := s[:]
	if rev >= 3 {
		for i := 0; i < 50; i++ {
			in := sum
			if firstN {
				in = sum[:n]
			}
			s := md5.Sum(in)
			sum = s[:]
		}
	}
	return sum[:n]
}

func rc4Apply(key, data []byte) []byte {
	c, err := rc4.NewCipher(key)
	if err != nil {
		panic(err)
	}
	out := make([]byte, len(data))
	c.XORKeyStream(out, data)
	return out
}

func xorKey(key []byte, x byte) []byte {
	k := make([]byte, len(key))
	for i := range key {
		k[i] = key[i] ^ x
	}
	return k
}

// computeO is Algorithm 3 (e)-(h).
func computeO(paddedOwner, paddedUser []byte, rev, n int, firstN bool) []byte {
	key := ownerKey(paddedOwner, rev, n, firstN)
	out := rc4Apply(key, paddedUser)
	if rev >= 3 {
		for i := 1; i <= 19; i++ {
			out = rc4Apply(xorKey(key, byte(i)), out)
		}
	}
	return out
}

// computeU is Algorithm 4 (R 2, 32 bytes) and Algorithm 5 (R 3-4: 16
// significant bytes).
func computeU(fileKey, id0 []byte, rev int) []byte {
	if rev == 2 {
		return rc4Apply(fileKey, pad[:])
	}
	h := md5.New()
	h.Write(pad[:])
	h.Write(id0)
	out := rc4Apply(fileKey, h.Sum(nil))
	for i := 1; i <= 19; i++ {
		out = rc4Apply(xorKey(fileKey, byte(i)), out)
	}
	return out
}

// authUserLegacy is Algorithm 6.  It returns the file key.
func (d *Dict) authUserLegacy(padded, id0 []byte) ([]byte, bool) {
	n, _ := d.keyBytes()
	key := fileKeyLegacy(padded, d.O, uint32(d.P), id0, d.R, n, d.EncryptMetadata)
	u := computeU(key, id0, d.R)
	if d.R == 2 {
		return key, bytes.Equal(u, d.U[:32])
	}
	return key, bytes.Equal(u[:16], d.U[:16])
}

// userFromOwnerLegacy is Algorithm 7 (a)-(b): the padded user password
// recovered from /O with the owner password.
func (d *Dict) userFromOwnerLegacy(paddedOwner []byte) []byte {
	n, _ := d.keyBytes()
	key := ownerKey(paddedOwner, d.R, n, d.OwnerKeyFirstN)
	if d.R == 2 {
		return rc4Apply(key, d.O[:32])
	}
	out := append([]byte(nil), d.O[:32]...)
	for i := 19; i >= 0; i-- {
		out = rc4Apply(xorKey(key, byte(i)), out)
	}
	return out
}

// ---------------------------------------------------------------------------
// revisions 5-6

// Hash2B is Algorithm 2.B, the hash of revision 6.  udata is the 48-byte /U
// string when the owner password is processed and empty otherwise.
//
// Termination: the standard's wording ("round number") is read the way all
// deployed implementations read it: after n rounds have been completed,
// n >= 64, stop as soon as the last byte of E is <= n - 32.
func Hash2B(password, salt, udata []byte) []byte {
	h := sha256.New()
	h.Write(password)
	h.Write(salt)
	h.Write(udata)
	k := h.Sum(nil)
	for done := 1; ; done++ {
		unit := make([]byte, 0, len(password)+len(k)+len(udata))
		unit = append(unit, password...)
		unit = append(unit, k...)
		unit = append(unit, udata...)
		k1 := bytes.Repeat(unit, 64) // (a)
		blk, err := aes.NewCipher(k[:16])
		if err != nil {
			panic(err)
		}
		e := make([]byte, len(k1))
		cipher.NewCBCEncrypter(blk, k[16:32]).CryptBlocks(e, k1) // (b)
		// (c) first 16 bytes as a big-endian number mod 3; 256 = 1 (mod 3)
		m := 0
		for _, b := range e[:16] {
			m += int(b)
		}
		switch m % 3 { // (d)
		case 0:
			s := sha256.Sum256(e)
			k = s[:]
		case 1:
			s := sha512.Sum384(e)
			k = s[:]
		default:
			s := sha512.Sum512(e)
			k = s[:]
		}
		if done >= 64 && int(e[len(e)-1]) <= done-32 { // (e),(f)
			break
		}
	}
	return k[:32]
}

// hashR is the password hash of revision 5 (SHA-256) or 6 (Algorithm 2.B).
func hashR(rev int, password, salt, udata []byte) []byte {
	if rev == 5 {
		h := sha256.New()
		h.Write(password)
		h.Write(salt)
		h.Write(udata)
		return h.Sum(nil)
	}
	return Hash2B(password, salt, udata)
}

func aes256CBCNoPad(key, data []byte, decrypt bool) []byte {
	blk, err := aes.NewCipher(key)
	if err != nil {
		panic(err)
	}
	out := make([]byte, len(data))
	iv := make([]byte, 16)
	if decrypt {
		cipher.NewCBCDecrypter(blk, iv).CryptBlocks(out, data)
	} else {
		cipher.NewCBCEncrypter(blk, iv).CryptBlocks(out, data)
	}
	return out
}

// authOwner6 is Algorithm 12 plus Algorithm 2.A (d): test the owner
// password; on success return the file key decrypted from /OE.
func (d *Dict) authOwner6(pw []byte) ([]byte, bool) {
	if !bytes.Equal(hashR(d.R, pw, d.O[32:40], d.U[:48]), d.O[:32]) {
		return nil, false
	}
	ik := hashR(d.R, pw, d.O[40:48], d.U[:48])
	return aes256CBCNoPad(ik, d.OE[:32], true), true
}

// authUser6 is Algorithm 11 plus Algorithm 2.A (e).
func (d *Dict) authUser6(pw []byte) ([]byte, bool) {
	if !bytes.Equal(hashR(d.R, pw, d.U[32:40], nil), d.U[:32]) {
		return nil, false
	}
	ik := hashR(d.R, pw, d.U[40:48], nil)
	return aes256CBCNoPad(ik, d.UE[:32], true), true
}

// CheckPerms is Algorithm 13 (= 2.A (f)): decrypt /Perms with the file key
// in ECB mode and compare with /P and /EncryptMetadata.  It also returns the
// 16 decrypted bytes.
func (d *Dict) CheckPerms(fileKey []byte) ([]byte, error) {
	if d.R < 5 {
		return nil, nil
	}
	blk, err := aes.NewCipher(fileKey)
	if err != nil {
		return nil, err
	}
	plain := make([]byte, 16)
	blk.Decrypt(plain, d.Perms[:16])
	if plain[9] != 'a' || plain[10] != 'd' || plain[11] != 'b' {
		return plain, fmt.Errorf("stdsec: /Perms bytes 9-11 are %q, not \"adb\"", plain[9:12])
	}
	if binary.LittleEndian.Uint32(plain[:4]) != uint32(d.P) {
		return plain, fmt.Errorf("stdsec: /Perms carries P=%#x, /P is %#x", binary.LittleEndian.Uint32(plain[:4]), uint32(d.P))
	}
	switch {
	case plain[8] == 'T' && d.EncryptMetadata, plain[8] == 'F' && !d.EncryptMetadata:
	default:
		return plain, fmt.Errorf("stdsec: /Perms byte 8 is %q, /EncryptMetadata is %v", plain[8], d.EncryptMetadata)
	}
	return plain, nil
}

// ---------------------------------------------------------------------------
// Handler

// Handler encrypts and decrypts the strings and streams of one file.
type Handler struct {
	Dict *Dict
	ID0  []byte
	Key  []byte // file encryption key

	// IsOwner: the password authenticated as the owner password.
	// IsUser: the password authenticated as the user password.
	// (Both are true when the two passwords have the same preparation.)
	IsOwner, IsUser bool

	StmCipher, StrCipher Cipher

	// PermsPlain / PermsErr: result of Algorithm 13 (R 5-6 only).  A
	// mismatch does not make Open fail; callers decide.
	PermsPlain []byte
	PermsErr   error

	// Rand supplies AES initialisation vectors; nil = crypto/rand.
	Rand io.Reader
}

// ErrPassword is wrapped by errors about passwords that cannot be prepared
// for the revision at hand (see Prepare).
var ErrPassword = errors.New("stdsec: password cannot be prepared")

// Open authenticates password against the Encrypt dictionary enc (plain
// values, see ParseDict) of a file whose first /ID element is id0.
//
//   - err != nil: the dictionary is malformed (errors.Is(err, ErrDict)) or the
//     password cannot be prepared for the revision (errors.Is(err, ErrPassword)).
//   - ok == false: the password is neither the user nor the owner password.
//   - ok == true: h is ready; isOwner tells whether the password is the owner
//     password (h.IsUser tells whether it is also the user password).
//
// Both roles are always tested, so the result does not depend on an order.
func Open(enc map[string]any, id0 []byte, password string) (h *Handler, ok bool, isOwner bool, err error) {
	d, err := ParseDict(enc)
	if err != nil {
		return nil, false, false, err
	}
	pw, err := Prepare(password, d.R)
	if err != nil {
		return nil, false, false, err
	}
	h, ok = OpenPrepared(d, id0, pw)
	if !ok {
		return nil, false, false, nil
	}
	return h, true, h.IsOwner, nil
}

// OpenPrepared is Open for an already parsed dictionary and an already
// prepared password (the result of Prepare: 32 padded bytes for R 2-4, at
// most 127 bytes of UTF-8 for R 5-6).
func OpenPrepared(d *Dict, id0 []byte, prepared []byte) (*Handler, bool) {
	h := &Handler{Dict: d, ID0: append([]byte(nil), id0...)}
	if d.R <= 4 {
		if len(prepared) != 32 {
			return nil, false
		}
		if key, ok := d.authUserLegacy(prepared, id0); ok {
			h.IsUser, h.Key = true, key
		}
		user := d.userFromOwnerLegacy(prepared)
		if key, ok := d.authUserLegacy(user, id0); ok {
			h.IsOwner, h.Key = true, key
		}
	} else {
		if len(prepared) > 127 {
			return nil, false
		}
		if key, ok := d.authUser6(prepared); ok {
			h.IsUser, h.Key = true, key
		}
		if key, ok := d.authOwner6(prepared); ok {
			if h.IsUser && !bytes.Equal(key, h.Key) {
				// /UE and /OE disagree: report through PermsErr below
				h.PermsErr = errors.New("stdsec: /UE and /OE decrypt to different file keys")
			}
			h.IsOwner, h.Key = true, key
		}
	}
	if !h.IsUser && !h.IsOwner {
		return nil, false
	}
	if err := h.finish(); err != nil {
		return nil, false
	}
	return h, true
}

func (h *Handler) finish() error {
	d := h.Dict
	var err error
	if h.StmCipher, err = d.CipherFor(d.StmF); err != nil {
		return err
	}
	if h.StrCipher, err = d.CipherFor(d.StrF); err != nil {
		return err
	}
	if d.R >= 5 {
		plain, perr := d.CheckPerms(h.Key)
		h.PermsPlain = plain
		if h.PermsErr == nil {
			h.PermsErr = perr
		}
	}
	return nil
}

// ObjectKey is Algorithm 1 (a)-(d): the key for object (num, gen) under
// cipher c.  For AESV3 (Algorithm 1.A) it is the file key itself.
func (h *Handler) ObjectKey(num, gen int, c Cipher) []byte {
	if c == CipherAESV3 {
		return h.Key
	}
	m := md5.New()
	m.Write(h.Key)
	m.Write([]byte{byte(num), byte(num >> 8), byte(num >> 16), byte(gen), byte(gen >> 8)})
	if c == CipherAESV2 {
		m.Write([]byte("sAlT"))
	}
	sum := m.Sum(nil)
	n := len(h.Key) + 5
	if n > 16 {
		n = 16
	}
	return sum[:n]
}

// ErrCiphertext is returned for AES data that is not IV + whole blocks with
// valid PKCS#7 padding.
var ErrCiphertext = errors.New("stdsec: malformed AES ciphertext")

// Decrypt decrypts data belonging to object (num, gen) with cipher c.
func (h *Handler) Decrypt(c Cipher, num, gen int, data []byte) ([]byte, error) {
	switch c {
	case CipherIdentity:
		return append([]byte(nil), data...), nil
	case CipherRC4:
		return rc4Apply(h.ObjectKey(num, gen, c), data), nil
	case CipherAESV2, CipherAESV3:
		if len(data) < 32 || len(data)%16 != 0 {
			return nil, fmt.Errorf("%w: %d bytes", ErrCiphertext, len(data))
		}
		blk, err := aes.NewCipher(h.ObjectKey(num, gen, c))
		if err != nil {
			return nil, err
		}
		out := make([]byte, len(data)-16)
		cipher.NewCBCDecrypter(blk, data[:16]).CryptBlocks(out, data[16:])
		p := int(out[len(out)-1])
		if p < 1 || p > 16 {
			return nil, fmt.Errorf("%w: padding byte %d", ErrCiphertext, p)
		}
		for _, b := range out[len(out)-p:] {
			if int(b) != p {
				return nil, fmt.Errorf("%w: inconsistent padding", ErrCiphertext)
			}
		}
		return out[:len(out)-p], nil
	}
	return nil, fmt.Errorf("stdsec: unknown cipher %d", int(c))
}

// Encrypt encrypts data belonging to object (num, gen) with cipher c.  For
// the AES ciphers a fresh 16-byte IV is read from h.Rand (crypto/rand when
// nil) and stored in front of the ciphertext; the plaintext is padded per
// PKCS#7 (always 1-16 bytes).
func (h *Handler) Encrypt(c Cipher, num, gen int, data []byte) ([]byte, error) {
	switch c {
	case CipherIdentity:
		return append([]byte(nil), data...), nil
	case CipherRC4:
		return rc4Apply(h.ObjectKey(num, gen, c), data), nil
	case CipherAESV2, CipherAESV3:
		rd := h.Rand
		if rd == nil {
			rd = rand.Reader
		}
		p := 16 - len(data)%16
		out := make([]byte, 16+len(data)+p)
		if _, err := io.ReadFull(rd, out[:16]); err != nil {
			return nil, err
		}
		copy(out[16:], data)
		for i := 16 + len(data); i < len(out); i++ {
			out[i] = byte(p)
		}
		blk, err := aes.NewCipher(h.ObjectKey(num, gen, c))
		if err != nil {
			return nil, err
		}
		cipher.NewCBCEncrypter(blk, out[:16]).CryptBlocks(out[16:], out[16:])
		return out, nil
	}
	return nil, fmt.Errorf("stdsec: unknown cipher %d", int(c))
}

// DecryptString decrypts a string of object (num, gen) with the /StrF cipher.
func (h *Handler) DecryptString(num, gen int, data []byte) ([]byte, error) {
	return h.Decrypt(h.StrCipher, num, gen, data)
}

// DecryptStream decrypts the body of stream (num, gen) with the /StmF cipher.
// Streams that name their own /Crypt filter, the cross-reference stream and
// (with EncryptMetadata false) the metadata stream are the caller's business:
// use Dict.CipherFor and Decrypt.
func (h *Handler) DecryptStream(num, gen int, data []byte) ([]byte, error) {
	return h.Decrypt(h.StmCipher, num, gen, data)
}

// EncryptString encrypts a string of object (num, gen) with the /StrF cipher.
func (h *Handler) EncryptString(num, gen int, data []byte) ([]byte, error) {
	return h.Encrypt(h.StrCipher, num, gen, data)
}

// EncryptStream encrypts the body of stream (num, gen) with the /StmF cipher.
func (h *Handler) EncryptStream(num, gen int, data []byte) ([]byte, error) {
	return h.Encrypt(h.StmCipher, num, gen, data)
}

// ---------------------------------------------------------------------------
// creation

// Params describes the security handler to create.
type Params struct {
	// R is the revision: 2, 3, 4, 6 (or the deprecated 5).
	R int
	// V is the algorithm code; 0 = the natural one (R2: 1; R3: 1 for 40-bit
	// keys, else 2; R4: 4; R5, R6: 5).
	V int
	// KeyBits: R2: 40; R3: 40-128 in steps of 8 (0 = 128); R4: 128;
	// R5/R6: 256.  0 = the default just given.
	KeyBits int
	// AES selects AESV2 for R4 (false: RC4 through a V2 crypt filter).
	// Ignored otherwise (R <= 3 is always RC4, R >= 5 always AESV3).
	AES bool
	// User and Owner are the passwords before preparation.  For R <= 4 an
	// empty owner password is replaced by the user password (Algorithm 3
	// (a)); for R >= 5 it is used as it is.
	User, Owner string
	// P is the permission word (/P); it is used as given.
	P int32
	// PlaintextMetadata = /EncryptMetadata false (R >= 4 only).
	PlaintextMetadata bool
	// ID0 is the first element of the file identifier (R <= 4).
	ID0 []byte
	// OwnerKeyFirstN: compute /O with the de-facto reading of Algorithm 3
	// (c) (see Dict.OwnerKeyFirstN); the returned Handler's Dict carries
	// the same setting.
	OwnerKeyFirstN bool
	// Rand supplies salts, the R >= 5 file key, the 16 arbitrary bytes of
	// /U (R 3-4), the 4 arbitrary bytes of /Perms, and later the AES IVs;
	// nil = crypto/rand.
	Rand io.Reader
}

// New creates the Encrypt dictionary (plain values, see ParseDict) and the
// Handler for a new file.
func New(p Params) (map[string]any, *Handler, error) {
	rd := p.Rand
	if rd == nil {
		rd = rand.Reader
	}
	d := &Dict{Filter: "Standard", R: p.R, V: p.V, P: int64(p.P), EncryptMetadata: true, OwnerKeyFirstN: p.OwnerKeyFirstN}
	bits := p.KeyBits
	switch p.R {
	case 2:
		if bits == 0 {
			bits = 40
		}
		if bits != 40 {
			return nil, nil, fmt.Errorf("stdsec: R2 needs a 40-bit key")
		}
		if d.V == 0 {
			d.V = 1
		}
	case 3:
		if bits == 0 {
			bits = 128
		}
		if d.V == 0 {
			d.V = 2
			if bits == 40 {
				d.V = 1
			}
		}
		if d.V == 2 {
			d.Length = bits
		}
	case 4:
		if bits == 0 {
			bits = 128
		}
		if bits != 128 {
			return nil, nil, fmt.Errorf("stdsec: R4 needs a 128-bit key")
		}
		if d.V == 0 {
			d.V = 4
		}
		d.Length = 128
		cfm := "V2"
		if p.AES {
			cfm = "AESV2"
		}
		d.CF = map[string]CryptFilter{"StdCF": {CFM: cfm, AuthEvent: "DocOpen", Length: 16}}
		d.StmF, d.StrF = "StdCF", "StdCF"
	case 5, 6:
		if bits == 0 {
			bits = 256
		}
		if bits != 256 {
			return nil, nil, fmt.Errorf("stdsec: R%d needs a 256-bit key", p.R)
		}
		if d.V == 0 {
			d.V = 5
		}
		d.Length = 256
		d.CF = map[string]CryptFilter{"StdCF": {CFM: "AESV3", AuthEvent: "DocOpen", Length: 32}}
		d.StmF, d.StrF = "StdCF", "StdCF"
	default:
		return nil, nil, fmt.Errorf("stdsec: unsupported revision %d", p.R)
	}
	if p.PlaintextMetadata {
		if p.R < 4 {
			return nil, nil, fmt.Errorf("stdsec: EncryptMetadata false needs R >= 4")
		}
		d.EncryptMetadata = false
	}

	h := &Handler{Dict: d, ID0: append([]byte(nil), p.ID0...), IsOwner: true, Rand: p.Rand}
	user, err := Prepare(p.User, p.R)
	if err != nil {
		return nil, nil, err
	}
	if p.R <= 4 {
		ownerPw := p.Owner
		if ownerPw == "" {
			ownerPw = p.User
		}
		owner, err := Prepare(ownerPw, p.R)
		if err != nil {
			return nil, nil, err
		}
		n := bits / 8
		d.O = computeO(owner, user, p.R, n, p.OwnerKeyFirstN)
		h.Key = fileKeyLegacy(user, d.O, uint32(d.P), p.ID0, p.R, n, d.EncryptMetadata)
		d.U = computeU(h.Key, p.ID0, p.R)
		if p.R >= 3 {
			d.U = append(d.U, make([]byte, 16)...)
			if _, err := io.ReadFull(rd, d.U[16:]); err != nil {
				return nil, nil, err
			}
		}
	} else {
		owner, err := Prepare(p.Owner, p.R)
		if err != nil {
			return nil, nil, err
		}
		rnd := make([]byte, 32+16+16+4)
		if _, err := io.ReadFull(rd, rnd); err != nil {
			return nil, nil, err
		}
		h.Key = rnd[:32]
		uv, uk, ov, ok := rnd[32:40], rnd[40:48], rnd[48:56], rnd[56:64]
		// Algorithm 8
		d.U = append(append(hashR(p.R, user, uv, nil), uv...), uk...)
		d.UE = aes256CBCNoPad(hashR(p.R, user, uk, nil), h.Key, false)
		// Algorithm 9
		d.O = append(append(hashR(p.R, owner, ov, d.U), ov...), ok...)
		d.OE = aes256CBCNoPad(hashR(p.R, owner, ok, d.U), h.Key, false)
		// Algorithm 10
		var perms [16]byte
		binary.LittleEndian.PutUint32(perms[:4], uint32(p.P))
		copy(perms[4:8], []byte{0xFF, 0xFF, 0xFF, 0xFF})
		perms[8] = 'T'
		if !d.EncryptMetadata {
			perms[8] = 'F'
		}
		copy(perms[9:12], "adb")
		copy(perms[12:], rnd[64:68])
		blk, err := aes.NewCipher(h.Key)
		if err != nil {
			return nil, nil, err
		}
		d.Perms = make([]byte, 16)
		blk.Encrypt(d.Perms, perms[:])
	}
	h.IsUser = bytes.Equal(user, mustPrepareOwner(p))
	if err := h.finish(); err != nil {
		return nil, nil, err
	}
	return d.Map(), h, nil
}

func mustPrepareOwner(p Params) []byte {
	o := p.Owner
	if o == "" && p.R <= 4 {
		o = p.User
	}
	b, _ := Prepare(o, p.R)
	return b
}
