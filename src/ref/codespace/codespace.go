// Package codespace is the reference model of a CMap code space (a set of
// code space ranges) used by check C12.  It is written from the text of
// ISO 32000-2:2020, 9.7.6.2 ("CMap mapping") and 9.7.6.3 ("Handling undefined
// characters") and shares no code with seehuhn.de/go/pdf/font/charcode.
//
// 9.7.6.2: a code space range of n bytes is given by two n-byte strings; an
// n-byte sequence is in the range iff every byte lies between the
// corresponding bytes of the two strings.
//
// 9.7.6.3: "If the code is invalid — that is, the bytes extracted from the
// string to be shown do not match any codespace range in the CMap — [...] a
// modified mapping algorithm chooses the best partially matching codespace
// range: (a) If the first byte extracted from the string to be shown does not
// match the first byte of any codespace range, the range having the shortest
// codes shall be chosen.  (b) Otherwise (that is, if there is a partial
// match), for each additional byte extracted, the code accumulated so far
// shall be matched against the beginnings of all longer codespace ranges until
// the longest such partial match has been found.  If multiple codespace ranges
// have partial matches of this length, the one having the shortest codes shall
// be chosen.  The length of the codes in the chosen codespace range determines
// the total number of bytes to consume from the string for the current mapping
// operation."
package codespace

import (
	"encoding/hex"
	"fmt"
	"sort"
	"strings"
)

// Range is one code space range of N bytes (1 <= N <= 4).
type Range struct {
	N      int
	Lo, Hi [4]byte
}

// Set is a code space: a set of ranges.
type Set []Range

// R builds a range from two hex strings, e.g. R("8140", "9FFC").
func R(lo, hi string) Range {
	l, err1 := hex.DecodeString(lo)
	h, err2 := hex.DecodeString(hi)
	if err1 != nil || err2 != nil || len(l) != len(h) || len(l) < 1 || len(l) > 4 {
		panic("codespace.R: bad range " + lo + " " + hi)
	}
	var r Range
	r.N = len(l)
	copy(r.Lo[:], l)
	copy(r.Hi[:], h)
	return r
}

func (r Range) String() string {
	return fmt.Sprintf("<%X>-<%X>", r.Lo[:r.N], r.Hi[:r.N])
}

func (s Set) String() string {
	parts := make([]string, len(s))
	for i, r := range s {
		parts[i] = r.String()
	}
	return "{" + strings.Join(parts, " ") + "}"
}

// WellFormed reports whether the range has 1..4 bytes and Lo <= Hi byte-wise.
func (r Range) WellFormed() bool {
	if r.N < 1 || r.N > 4 {
		return false
	}
	for i := 0; i < r.N; i++ {
		if r.Lo[i] > r.Hi[i] {
			return false
		}
	}
	return true
}

// matches reports how many leading bytes of in lie byte-wise in the range
// (stopping at the first byte that does not, at the end of the range or at
// the end of in).
func (r *Range) matches(in []byte) int {
	k := 0
	for k < r.N && k < len(in) && r.Lo[k] <= in[k] && in[k] <= r.Hi[k] {
		k++
	}
	return k
}

// Contains reports whether code (of exactly the length of some range) is a
// code of the code space.
func (s Set) Contains(code []byte) bool {
	for i := range s {
		if s[i].N == len(code) && s[i].matches(code) == len(code) {
			return true
		}
	}
	return false
}

// PrefixFree reports whether no code of the code space is a proper prefix of
// another one.  A code of range a (shorter) is a prefix of a code of range b
// (longer) iff the byte intervals of a and b intersect at every position of a.
func (s Set) PrefixFree() bool {
	for i := range s {
		for j := range s {
			a, b := &s[i], &s[j]
			if a.N >= b.N {
				continue
			}
			conflict := true
			for p := 0; p < a.N; p++ {
				if a.Hi[p] < b.Lo[p] || b.Hi[p] < a.Lo[p] {
					conflict = false
					break
				}
			}
			if conflict {
				return false
			}
		}
	}
	return true
}

// MaxLen is the length of the longest range (0 for the empty set).
func (s Set) MaxLen() int {
	m := 0
	for i := range s {
		if s[i].N > m {
			m = s[i].N
		}
	}
	return m
}

// Verdict is what the specification says about the start of an input string.
type Verdict struct {
	// Valid: the input starts with a code of the code space, Len bytes long.
	Valid bool
	// Len is the length of the valid code, or for invalid input the number of
	// bytes 9.7.6.3 says to consume (the length of the shortest range among
	// those with the longest partial match).  Len may exceed len(input): then
	// the specification cannot be followed literally (it does not say what
	// happens at the end of the string).  Len is 0 for the empty code space,
	// about which the specification says nothing.
	Len int
}

// Classify decides the start of in for a prefix-free code space.
func (s Set) Classify(in []byte) Verdict {
	bestK, l := -1, 0
	for i := range s {
		r := &s[i]
		k := r.matches(in)
		if k == r.N {
			return Verdict{true, r.N}
		}
		if k > bestK || (k == bestK && r.N < l) {
			bestK, l = k, r.N
		}
	}
	return Verdict{false, l}
}

// Breaks returns the sorted cut points 0 = b0 < b1 < ... < bn = 256 induced by
// all bounds of all ranges at positions for which pos(p) is true: every low
// bound and every high bound + 1.
func Breaks(sets []Set, pos func(p int) bool) []int {
	var seen [257]bool
	seen[0], seen[256] = true, true
	for _, s := range sets {
		for i := range s {
			for p := 0; p < s[i].N; p++ {
				if pos(p) {
					seen[int(s[i].Lo[p])] = true
					seen[int(s[i].Hi[p])+1] = true
				}
			}
		}
	}
	var out []int
	for v, ok := range seen {
		if ok {
			out = append(out, v)
		}
	}
	return out
}

// Representatives returns, for every cell [b_i, b_{i+1}-1] of the partition,
// its two edges and (when the cell has at least three values) one interior
// value, in increasing order.
func Representatives(breaks []int) []byte {
	var out []byte
	for i := 0; i+1 < len(breaks); i++ {
		lo, hi := breaks[i], breaks[i+1]-1
		out = append(out, byte(lo))
		if hi-lo >= 2 {
			out = append(out, byte(lo+(hi-lo)/2))
		}
		if hi > lo {
			out = append(out, byte(hi))
		}
	}
	return out
}

// CellLows returns the lowest value of every cell.
func CellLows(breaks []int) []byte {
	out := make([]byte, 0, len(breaks)-1)
	for _, b := range breaks[:len(breaks)-1] {
		out = append(out, byte(b))
	}
	return out
}

// Diff decides whether a and b describe the same set of codes.  Both are
// unions of boxes, hence constant on the product of the cells of the joint
// partition, so one representative per cell decides the question exactly.
// If they differ it returns a code that lies in exactly one of them.
func Diff(a, b Set) (code []byte, inA bool, differ bool) {
	lows := CellLows(Breaks([]Set{a, b}, func(int) bool { return true }))
	maxN := a.MaxLen()
	if m := b.MaxLen(); m > maxN {
		maxN = m
	}
	var buf [4]byte
	var rec func(p, n int) bool
	rec = func(p, n int) bool {
		if p == n {
			ia, ib := a.Contains(buf[:n]), b.Contains(buf[:n])
			if ia != ib {
				code = append([]byte{}, buf[:n]...)
				inA = ia
				return true
			}
			return false
		}
		for _, v := range lows {
			buf[p] = v
			if rec(p+1, n) {
				return true
			}
		}
		return false
	}
	for n := 1; n <= maxN; n++ {
		if rec(0, n) {
			return code, inA, true
		}
	}
	return nil, false, false
}

// ---------------------------------------------------------------------------
// self-test

// explicit is the second, literal formulation used to cross-check Classify:
// the code space as an explicit list of codes.
type explicit struct {
	codes  map[string]bool
	prefix map[string]int // prefix (incl. empty and full codes) -> length of the shortest code having it
}

func explicitOf(s Set) *explicit {
	e := &explicit{codes: map[string]bool{}, prefix: map[string]int{}}
	for _, r := range s {
		var buf [4]byte
		var rec func(p int)
		rec = func(p int) {
			if p == r.N {
				c := string(buf[:r.N])
				e.codes[c] = true
				for k := 0; k <= r.N; k++ {
					if old, ok := e.prefix[c[:k]]; !ok || r.N < old {
						e.prefix[c[:k]] = r.N
					}
				}
				return
			}
			for v := int(r.Lo[p]); v <= int(r.Hi[p]); v++ {
				buf[p] = byte(v)
				rec(p + 1)
			}
		}
		rec(0)
	}
	return e
}

func (e *explicit) prefixFree() bool {
	for c := range e.codes {
		for k := 1; k < len(c); k++ {
			if e.codes[c[:k]] {
				return false
			}
		}
	}
	return true
}

// classify: "the bytes extracted do not match any code" -> the shortest code
// which contains the longest possible prefix of the input.
func (e *explicit) classify(in []byte) Verdict {
	for n := 1; n <= len(in); n++ {
		if e.codes[string(in[:n])] {
			return Verdict{true, n}
		}
	}
	for k := len(in); k >= 0; k-- {
		if l, ok := e.prefix[string(in[:k])]; ok {
			return Verdict{false, l}
		}
	}
	return Verdict{false, 0}
}

type vector struct {
	set  Set
	in   string
	want Verdict
}

// Named code spaces (Adobe Technical Note 5014 / 5099 and the CMap resources).
var (
	UTF8 = Set{R("00", "7F"), R("C280", "DFBF"), R("E08080", "EFBFBF"), R("F0808080", "F4BFBFBF")}
	// 90ms-RKSJ-H (Shift-JIS)
	SJIS = Set{R("00", "80"), R("8140", "9FFC"), R("A0", "DF"), R("E040", "FCFC")}
	// EUC-H (EUC-JP)
	EUCJP = Set{R("00", "80"), R("8EA0", "8EDF"), R("A1A1", "FEFE")}
	// EUC-JP with the three-byte code set 3
	EUCJP3 = Set{R("00", "80"), R("8EA0", "8EDF"), R("8FA1A1", "8FFEFE"), R("A1A1", "FEFE")}
	// GBK-EUC-H
	GBK = Set{R("00", "80"), R("8140", "FEFE")}
	// CNS-EUC-H (EUC-TW): one-, two- and four-byte codes
	EUCTW = Set{R("00", "80"), R("8EA1A1A1", "8EA2FEFE"), R("A1A1", "FEFE")}
	// GB 18030 (GBK2K-H): one-, two- and four-byte codes
	GB18030 = Set{R("00", "80"), R("8140", "FE7E"), R("8180", "FEFE"), R("81308130", "FE39FE39")}
	UCS2    = Set{R("0000", "FFFF")}
	// the example of Technical Note 5014, 7.2: lengths 1 to 4
	Mixed1234 = Set{R("00", "80"), R("8140", "9FFC"), R("A0A0A0", "DFDFDF"), R("E0404040", "FCFCFCFC")}
)

// Named lists them for enumeration.
var Named = []struct {
	Name string
	Set  Set
}{
	{"UTF8", UTF8}, {"SJIS", SJIS}, {"EUCJP", EUCJP}, {"EUCJP3", EUCJP3}, {"GBK", GBK},
	{"EUCTW", EUCTW}, {"GB18030", GB18030}, {"UCS2", UCS2}, {"Mixed1234", Mixed1234},
}

func hx(s string) []byte {
	b, err := hex.DecodeString(s)
	if err != nil {
		panic(err)
	}
	return b
}

// SelfTest cross-checks the model: hand-derived vectors from the text of
// 9.7.6.3, agreement of Classify / PrefixFree / Diff with the explicit
// formulation on all small code spaces of a tiny alphabet, and constancy of
// Classify on the cells of the partition (the fact the enumeration of C12
// rests on).  par is a parallel-for.
func SelfTest(par func(n int, f func(i int))) error {
	two := Set{R("00", "7F"), R("8000", "FFFF")}
	deep := Set{R("20", "20"), R("8040", "80FF"), R("800000", "801FFF"), R("81000000", "FFFFFFFF")}
	vectors := []vector{
		// valid codes
		{SJIS, "41", Verdict{true, 1}},
		{SJIS, "80", Verdict{true, 1}},
		{SJIS, "8140", Verdict{true, 2}},
		{SJIS, "A0FF", Verdict{true, 1}},
		{SJIS, "FCFC00", Verdict{true, 2}},
		// (a) first byte matches no range: shortest range (1 byte)
		{SJIS, "FD41", Verdict{false, 1}},
		{SJIS, "FF", Verdict{false, 1}},
		// (b) first byte matches only two-byte ranges: two bytes
		{SJIS, "8120", Verdict{false, 2}},
		{SJIS, "E0FDFF", Verdict{false, 2}},
		{SJIS, "81", Verdict{false, 2}}, // truncated: prescribed 2 > available 1
		{two, "8000", Verdict{true, 2}},
		{two, "7F80", Verdict{true, 1}},
		{UCS2, "00", Verdict{false, 2}},
		{UTF8, "C0", Verdict{false, 1}},       // matches nothing: shortest range
		{UTF8, "C27F", Verdict{false, 2}},     // partial match with the 2-byte range only
		{UTF8, "E0807F", Verdict{false, 3}},   // two bytes match the 3-byte range
		{UTF8, "E07F80", Verdict{false, 3}},   // one byte matches the 3-byte range only
		{UTF8, "F4808000", Verdict{false, 4}}, // three bytes match the 4-byte range
		{UTF8, "F5808080", Verdict{false, 1}}, // F5 matches nothing
		{UTF8, "F0908080", Verdict{true, 4}},  // valid
		{EUCJP3, "8FA1A0", Verdict{false, 3}}, // 8F: only the 3-byte range
		{EUCJP3, "8F20A1", Verdict{false, 3}},
		{EUCJP3, "8E20", Verdict{false, 2}},
		{EUCJP3, "A120", Verdict{false, 2}},
		{EUCJP3, "8120", Verdict{false, 1}},
		{deep, "8030", Verdict{false, 2}}, // one byte matches the 2- and the 3-byte range, the second neither: shortest = 2
		{deep, "803000", Verdict{false, 2}},
		{deep, "8010", Verdict{false, 3}}, // two bytes match the 3-byte range (truncated)
		{deep, "800000", Verdict{true, 3}},
		{deep, "801F00", Verdict{true, 3}},
		{deep, "8040", Verdict{true, 2}},
		{deep, "8000FF", Verdict{true, 3}},
		{deep, "8140", Verdict{false, 4}},     // only the 4-byte range matches byte one (all further bytes match too: truncated)
		{deep, "21000000", Verdict{false, 1}}, // nothing matches: shortest of all = 1
		{Set{R("0000", "00FF"), R("010000", "01FFFF")}, "02", Verdict{false, 2}},
		{Set{R("0000", "00FF"), R("010000", "01FFFF")}, "0100", Verdict{false, 3}},
		{Set{R("8000", "807F"), R("80800000", "80FFFFFF")}, "80", Verdict{false, 2}},
		{Set{R("8000", "807F"), R("80800000", "80FFFFFF")}, "8080", Verdict{false, 4}},
		{Set{R("8000", "807F"), R("80900000", "80FFFFFF")}, "8080FFFF", Verdict{false, 2}},
		{nil, "00", Verdict{false, 0}},
	}
	for _, v := range vectors {
		if got := v.set.Classify(hx(v.in)); got != v.want {
			return fmt.Errorf("hand vector: %v on <%s>: Classify = %+v, want %+v", v.set, v.in, got, v.want)
		}
		if v.set.PrefixFree() {
			if got := explicitSmall(v.set, hx(v.in)); got != nil && *got != v.want {
				return fmt.Errorf("hand vector: %v on <%s>: explicit formulation = %+v, want %+v", v.set, v.in, *got, v.want)
			}
		}
	}
	for _, n := range Named {
		if !n.Set.PrefixFree() {
			return fmt.Errorf("named set %s judged not prefix-free", n.Name)
		}
	}
	if (Set{R("00", "80"), R("8040", "80FF")}).PrefixFree() || (Set{R("8040", "80FF"), R("804000", "8040FF")}).PrefixFree() ||
		!(Set{R("8040", "80FF"), R("803F00", "803FFF")}).PrefixFree() || !(Set{R("00", "80"), R("10", "FF")}).PrefixFree() {
		return fmt.Errorf("PrefixFree hand vectors fail")
	}

	// all sets of <= 3 ranges of 1..3 bytes over a tiny alphabet, against the
	// explicit formulation, on all strings of length <= 4 over {0,1,2,3}
	iv := [][2]byte{{0, 0}, {0, 2}, {1, 2}, {2, 2}}
	var small []Range
	for n := 1; n <= 3; n++ {
		idx := make([]int, n)
		for {
			var r Range
			r.N = n
			for p := 0; p < n; p++ {
				r.Lo[p], r.Hi[p] = iv[idx[p]][0], iv[idx[p]][1]
			}
			small = append(small, r)
			p := n - 1
			for ; p >= 0; p-- {
				idx[p]++
				if idx[p] < len(iv) {
					break
				}
				idx[p] = 0
			}
			if p < 0 {
				break
			}
		}
	}
	var inputs [][]byte
	{
		var buf [4]byte
		var rec func(p int)
		rec = func(p int) {
			inputs = append(inputs, append([]byte{}, buf[:p]...))
			if p == 4 {
				return
			}
			for v := byte(0); v < 4; v++ {
				buf[p] = v
				rec(p + 1)
			}
		}
		rec(0)
	}
	var errMu = make(chan error, 1)
	fail := func(e error) {
		select {
		case errMu <- e:
		default:
		}
	}
	n := len(small)
	par(n, func(i int) {
		for j := i; j < n; j++ {
			for k := j; k < n; k++ {
				s := Set{small[i]}
				if j > i {
					s = append(s, small[j])
				}
				if k > j {
					if j == i {
						continue
					}
					s = append(s, small[k])
				}
				e := explicitOf(s)
				pf := e.prefixFree()
				if pf != s.PrefixFree() {
					fail(fmt.Errorf("PrefixFree(%v) = %v, explicit formulation says %v", s, !pf, pf))
					return
				}
				if !pf {
					continue
				}
				for _, in := range inputs {
					if g, w := s.Classify(in), e.classify(in); g != w {
						fail(fmt.Errorf("Classify(%v, <%X>) = %+v, explicit formulation says %+v", s, in, g, w))
						return
					}
				}
				// Diff against a neighbour
				t := Set{small[(i+1)%n], small[k]}
				_, _, d := Diff(s, t)
				et := explicitOf(t)
				same := len(e.codes) == len(et.codes)
				if same {
					for c := range e.codes {
						if !et.codes[c] {
							same = false
							break
						}
					}
				}
				if d == same {
					fail(fmt.Errorf("Diff(%v, %v) = %v, explicit formulation says same=%v", s, t, d, same))
					return
				}
			}
		}
	})
	select {
	case e := <-errMu:
		return e
	default:
	}

	// Classify is constant on the cells of the partition: all two-byte strings
	// (with every representative tail) for the named sets
	par(len(Named), func(i int) {
		s := Named[i].Set
		br := Breaks([]Set{s}, func(int) bool { return true })
		var rep [256]byte
		for c := 0; c+1 < len(br); c++ {
			for v := br[c]; v < br[c+1]; v++ {
				rep[v] = byte(br[c])
			}
		}
		tails := Representatives(br)
		for a := 0; a < 256; a++ {
			for b := 0; b < 256; b++ {
				for _, c := range tails {
					for _, d := range []byte{0x00, c} {
						in := []byte{byte(a), byte(b), c, d}
						r := []byte{rep[a], rep[b], rep[c], rep[d]}
						for l := 1; l <= 4; l++ {
							if g, w := s.Classify(in[:l]), s.Classify(r[:l]); g != w {
								fail(fmt.Errorf("partition: %s: Classify(<%X>) = %+v but its cell representative <%X> gives %+v", Named[i].Name, in[:l], g, r[:l], w))
								return
							}
						}
					}
				}
			}
		}
	})
	select {
	case e := <-errMu:
		return e
	default:
	}
	return nil
}

// explicitSmall evaluates the explicit formulation if the code space is small
// enough to be listed (<= 2^16 codes), else returns nil.
func explicitSmall(s Set, in []byte) *Verdict {
	total := 0
	for _, r := range s {
		n := 1
		for p := 0; p < r.N; p++ {
			n *= int(r.Hi[p]) - int(r.Lo[p]) + 1
			if n > 1<<16 {
				return nil
			}
		}
		total += n
	}
	if total > 1<<16 {
		return nil
	}
	v := explicitOf(s).classify(in)
	return &v
}

// Key is a canonical identity of the set (order-independent).
func (s Set) Key() string {
	parts := make([]string, len(s))
	for i, r := range s {
		parts[i] = string(r.Lo[:r.N]) + string(r.Hi[:r.N])
	}
	sort.Strings(parts)
	var b strings.Builder
	for _, p := range parts {
		b.WriteByte(byte(len(p)))
		b.WriteString(p)
	}
	return b.String()
}
