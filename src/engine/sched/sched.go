// Package sched is a cooperative scheduler for systematic concurrency
// testing: the threads of a scenario are real goroutines, at most one of which
// runs at any time; every synchronisation operation of the code under test
// (routed here through engine/vsync) first parks its goroutine at a
// scheduling point, and the explorer decides which enabled thread moves
// next.  A path of the explorer's choice tree therefore is a schedule.
package sched

import (
	"fmt"
	"runtime"
	"strings"
	"sync"

	"seehuhn.de/go/pdf/zzverif/engine/explore"
)

// T is a scheduled thread.
type T struct {
	ID      int
	s       *S
	wake    chan struct{}
	enabled func() bool // nil: always enabled
	Label   string
	done    bool
	started bool
	panic   any
	stack   string
}

// S is one scheduler instance (one execution of one scenario).
type S struct {
	ctx     *explore.Ctx
	threads []*T
	parked  chan *T
	abort   bool
	running *T

	// results
	Steps       int
	Preemptions int
	Deadlock    bool
	Livelock    bool
	Blocked     []string // labels of the blocked threads at a deadlock
	Trace       []int    // thread id chosen at every step
	Horizon     int
}

var registry sync.Map // goroutine id -> *T

// gid returns the current goroutine's id.
func gid() int64 {
	var buf [64]byte
	n := runtime.Stack(buf[:], false)
	// "goroutine 123 [running]:"
	var id int64
	for _, c := range buf[len("goroutine "):n] {
		if c < '0' || c > '9' {
			break
		}
		id = id*10 + int64(c-'0')
	}
	return id
}

// Current returns the scheduled thread of the calling goroutine, or nil.
func Current() *T {
	if v, ok := registry.Load(gid()); ok {
		return v.(*T)
	}
	return nil
}

// New creates a scheduler whose choices are taken from ctx.
func New(ctx *explore.Ctx) *S {
	return &S{ctx: ctx, parked: make(chan *T), Horizon: 2000}
}

// Point parks the calling thread until the scheduler lets it perform an
// operation that is enabled when enabled() is true.  It returns false if the
// caller is not a scheduled thread (the caller then performs the real
// operation).
func Point(enabled func() bool, label string) bool {
	t := Current()
	if t == nil {
		return false
	}
	t.point(enabled, label)
	return true
}

func (t *T) point(enabled func() bool, label string) {
	t.enabled = enabled
	t.Label = label
	t.s.parked <- t
	<-t.wake
	if t.s.abort {
		runtime.Goexit()
	}
}

// Yield is a scheduling point with no condition (used inside harness callbacks).
func Yield(label string) { Point(nil, label) }

// Run executes the thread bodies under the scheduler and returns when all
// have finished (or the execution was aborted because of a deadlock or the
// step horizon).
func (s *S) Run(bodies ...func()) {
	for i, body := range bodies {
		t := &T{ID: i, s: s, wake: make(chan struct{})}
		s.threads = append(s.threads, t)
		body := body
		go func() {
			registry.Store(gid(), t)
			defer func() {
				registry.Delete(gid())
				if p := recover(); p != nil {
					t.panic = p
					buf := make([]byte, 4096)
					t.stack = string(buf[:runtime.Stack(buf, false)])
				}
				t.done = true
				s.parked <- t
			}()
			t.point(nil, "start")
			body()
		}()
	}
	// all threads park at their start point
	for range s.threads {
		<-s.parked
	}
	for {
		var order []*T
		alive := 0
		for _, t := range s.threads {
			if !t.done {
				alive++
			}
		}
		if alive == 0 {
			return
		}
		runningEnabled := false
		if s.running != nil && !s.running.done && (s.running.enabled == nil || s.running.enabled()) {
			order = append(order, s.running)
			runningEnabled = true
		}
		for _, t := range s.threads {
			if t.done || t == s.running && runningEnabled {
				continue
			}
			if t.enabled == nil || t.enabled() {
				order = append(order, t)
			}
		}
		if len(order) == 0 {
			s.Deadlock = true
			for _, t := range s.threads {
				if !t.done {
					s.Blocked = append(s.Blocked, fmt.Sprintf("thread %d at %s", t.ID, t.Label))
				}
			}
			s.kill()
			return
		}
		if s.Steps >= s.Horizon {
			s.Livelock = true
			s.kill()
			return
		}
		var k int
		if len(order) == 1 {
			k = 0
		} else if runningEnabled {
			k = s.ctx.Deviate(len(order), "preempt")
			if k != 0 {
				s.Preemptions++
			}
		} else {
			k = s.ctx.Choose(len(order), "switch")
		}
		t := order[k]
		s.running = t
		s.Steps++
		s.Trace = append(s.Trace, t.ID)
		t.wake <- struct{}{}
		<-s.parked // t reaches its next point or finishes
	}
}

// kill releases every parked thread so that its goroutine exits.
func (s *S) kill() {
	s.abort = true
	for _, t := range s.threads {
		if !t.done {
			t.wake <- struct{}{}
			<-s.parked
		}
	}
}

// Panics returns the panics of the threads.
func (s *S) Panics() []string {
	var out []string
	for _, t := range s.threads {
		if t.panic != nil {
			out = append(out, fmt.Sprintf("thread %d: %v\n%s", t.ID, t.panic, t.stack))
		}
	}
	return out
}

// TraceString renders the schedule.
func (s *S) TraceString() string {
	var b strings.Builder
	for i, id := range s.Trace {
		if i > 0 {
			b.WriteByte(' ')
		}
		fmt.Fprintf(&b, "%d", id)
	}
	return b.String()
}
