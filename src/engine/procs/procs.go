// Package procs runs an indexed case space in single-threaded worker
// *processes* and merges what they observed.
//
// It exists for checks whose oracles read process-global state
// (runtime.NumGoroutine, runtime.MemStats) or whose code under test may take
// the whole process down (a panic on a helper goroutine, `fatal error: out of
// memory` under `ulimit -v`, a hang).  Such executions cannot share a process
// with each other or with the evidence collector.
//
// # Model
//
// The check defines a deterministic case space of `Total` cases, numbered
// 0..Total-1, which every process can reconstruct on its own (same binary,
// same arguments).  The space is cut into blocks of `Block` consecutive
// indices; worker w of n runs the blocks b with b%n == w, in order.
//
// Parent side (inside the check's Run):
//
//	res, err := procs.Run(procs.Config{ID: "C08", Total: n, Args: []string{tier}})
//	res.MergeInto(r)                    // counts, outcomes, distinct set, samples, violations -> ev.Run
//	for _, in := range res.Incidents {  // crashes / hangs, already re-run Confirm times in isolation
//	    if in.Reproduced == in.Attempts { r.Violation(fingerprintOf(in), in.Describe(), caseOf(in.Index)) } else { r.Flaky(...) }
//	}
//
// Worker side (registered as sub-command "<ID>:worker" of vcheck, see AGENT_GUIDE):
//
//	func Worker(args []string) int {
//	    return procs.Main(args, func(w *procs.W) { /* w.Args = Config.Args; build the case table */ },
//	        func(w *procs.W, idx int) { ...run case idx; w.Eval(1); w.Outcome("ok"); w.Violation(fp, what, c) ... })
//	}
//
// # What the machinery guarantees
//
//   - every worker runs with GOMAXPROCS=1 under `sh -c "ulimit -v <VMemKiB>; exec …"`;
//   - before a case starts, its index is written into a small per-worker file
//     (`cur`), so a worker that dies or stalls is attributed to exactly one case;
//   - results are checkpointed (atomic rename) every CheckpointEvery cases; when
//     a worker dies the parent merges its last checkpoint, re-runs the suspect
//     case Confirm times in isolated processes (`--procs-only`), records an
//     Incident, and starts a new worker segment that resumes after the last
//     checkpoint and skips the suspect case.  No case is counted twice;
//   - a watchdog inside the worker exits with code ExitHang when one case runs
//     longer than CaseTimeout; the parent additionally kills a worker whose
//     `cur` file does not change for CaseTimeout+15s;
//   - when Deadline passes workers stop at the next case boundary and the
//     result is marked incomplete (Result.Complete == false).
//
// Distinct sets are transported as 64-bit hashes (use [Hash], which is stable
// across processes) in a binary side file.
package procs

import (
	"bytes"
	"encoding/binary"
	"encoding/json"
	"errors"
	"fmt"
	"hash/fnv"
	"os"
	"os/exec"
	"path/filepath"
	"runtime"
	"sort"
	"strconv"
	"strings"
	"sync"
	"sync/atomic"
	"syscall"
	"time"
)

// Exit codes of a worker process.
const (
	ExitOK   = 0
	ExitHang = 97 // the in-process watchdog fired
	ExitInit = 96 // the worker could not start (bad flags, init failure): infrastructure
)

// Hash is the process-independent 64-bit hash used for distinct sets.
func Hash(b []byte) uint64 {
	h := fnv.New64a()
	h.Write(b)
	return h.Sum64()
}

// HashS is Hash for strings.
func HashS(s string) uint64 {
	h := fnv.New64a()
	h.Write([]byte(s))
	return h.Sum64()
}

// ---------------------------------------------------------------------------
// shared data formats

// Violation is an oracle failure observed inside a worker.
type Violation struct {
	Fingerprint string          `json:"fingerprint"`
	What        string          `json:"what"`
	Case        json.RawMessage `json:"case"`
	Index       int             `json:"index"`
	Count       int             `json:"count"`
}

type partial struct {
	Next      int               `json:"next"`    // position (in this worker's own sequence) of the first case not covered
	Done      bool              `json:"done"`    // the worker's share is finished
	Expired   bool              `json:"expired"` // stopped at the deadline
	Evals     int64             `json:"evals"`
	Cases     int64             `json:"cases"`
	Counters  map[string]int64  `json:"counters"`
	Outcomes  map[string]int64  `json:"outcomes"`
	DistinctN int               `json:"distinct_n"` // number of valid hashes in the side file
	Viol      []*Violation      `json:"violations"`
	Samples   []json.RawMessage `json:"samples"`
	Notes     []string          `json:"notes"` // flaky observations etc.
}

// ---------------------------------------------------------------------------
// worker side

// W is the handle a worker body uses to report.
type W struct {
	Args  []string // Config.Args of the parent
	Total int      // set by the init callback through SetTotal

	p        partial
	viol     map[string]*Violation
	distinct []uint64
	dseen    map[uint64]struct{}
	dflushed int

	out, cur, dist string
	curF, distF    *os.File
	deadline       time.Time
	timeout        time.Duration

	curIdx     atomic.Int64
	curStart   atomic.Int64
	maxSamples int
}

// SetTotal declares the size of the case space (must equal Config.Total).
func (w *W) SetTotal(n int) { w.Total = n }

func (w *W) Eval(n int64) { w.p.Evals += n }

func (w *W) Count(name string, n int64) { w.p.Counters[name] += n }

func (w *W) Outcome(s string) { w.p.Outcomes[s]++ }

// Distinct records the identity (a [Hash]) of a non-trivial case.
func (w *W) Distinct(h uint64) {
	if _, ok := w.dseen[h]; ok {
		return
	}
	w.dseen[h] = struct{}{}
	w.distinct = append(w.distinct, h)
}

// Violation records an oracle failure; c must be JSON-able. Only the first
// case of each fingerprint is kept, later ones are counted.
func (w *W) Violation(fingerprint, what string, c any) {
	v := w.viol[fingerprint]
	if v == nil {
		data, err := json.Marshal(c)
		if err != nil {
			data, _ = json.Marshal(fmt.Sprintf("unmarshalable case: %v", err))
		}
		v = &Violation{Fingerprint: fingerprint, What: what, Case: data, Index: int(w.curIdx.Load())}
		w.viol[fingerprint] = v
		w.p.Viol = append(w.p.Viol, v)
	}
	v.Count++
}

// Note records a free-text observation (reported as FLAKY by MergeInto).
func (w *W) Note(s string) {
	if len(w.p.Notes) < 50 {
		w.p.Notes = append(w.p.Notes, s)
	}
}

// WantSample reports whether another sample would be kept.
func (w *W) WantSample() bool { return len(w.p.Samples) < w.maxSamples }

// Sample keeps the first few cases verbatim.
func (w *W) Sample(c any) {
	if len(w.p.Samples) >= w.maxSamples {
		return
	}
	if data, err := json.Marshal(c); err == nil {
		w.p.Samples = append(w.p.Samples, data)
	}
}

// Index returns the index of the case in progress.
func (w *W) Index() int { return int(w.curIdx.Load()) }

func (w *W) checkpoint(next int, done, expired bool) error {
	if w.out == "" {
		return nil
	}
	if w.distF != nil && len(w.distinct) > w.dflushed {
		buf := make([]byte, 8*(len(w.distinct)-w.dflushed))
		for i, h := range w.distinct[w.dflushed:] {
			binary.LittleEndian.PutUint64(buf[8*i:], h)
		}
		if _, err := w.distF.Write(buf); err != nil {
			return err
		}
		w.dflushed = len(w.distinct)
	}
	w.p.Next, w.p.Done, w.p.Expired = next, done, expired
	w.p.DistinctN = w.dflushed
	data, err := json.Marshal(&w.p)
	if err != nil {
		return err
	}
	tmp := w.out + ".tmp"
	if err := os.WriteFile(tmp, data, 0o644); err != nil {
		return err
	}
	return os.Rename(tmp, w.out)
}

func (w *W) begin(idx int) {
	now := time.Now().UnixNano()
	w.curIdx.Store(int64(idx))
	w.curStart.Store(now)
	if w.curF != nil {
		var b [16]byte
		binary.LittleEndian.PutUint64(b[0:], uint64(idx))
		binary.LittleEndian.PutUint64(b[8:], uint64(now))
		w.curF.WriteAt(b[:], 0)
	}
}

func (w *W) watchdog() {
	for {
		time.Sleep(250 * time.Millisecond)
		st := w.curStart.Load()
		if st == 0 {
			continue
		}
		if time.Duration(time.Now().UnixNano()-st) > w.timeout {
			fmt.Fprintf(os.Stderr, "PROCS-WATCHDOG: case %d still running after %v\n", w.curIdx.Load(), w.timeout)
			buf := make([]byte, 1<<16)
			n := runtime.Stack(buf, true)
			os.Stderr.Write(buf[:n])
			os.Exit(ExitHang)
		}
	}
}

// inject is the test hook of the machinery itself: PROCS_INJECT="crash:12,hang:40,oom:7,flaky:9"
// makes the worker die in the named way when it reaches that case index
// (a panic on a helper goroutine, an endless loop, unbounded allocation; "flaky"
// crashes only in a sharded worker, not in the isolated re-run).
func inject(idx int) {
	spec := os.Getenv("PROCS_INJECT")
	if spec == "" {
		return
	}
	for _, f := range strings.Split(spec, ",") {
		kv := strings.SplitN(f, ":", 2)
		if len(kv) != 2 || kv[1] != strconv.Itoa(idx) {
			continue
		}
		switch kv[0] {
		case "crash":
			go func() { panic("procs: injected crash") }()
			time.Sleep(time.Second)
		case "flaky":
			if os.Getenv("PROCS_ISOLATED") == "" {
				go func() { panic("procs: injected flaky crash") }()
				time.Sleep(time.Second)
			}
		case "hang":
			for {
			}
		case "oom":
			var hold [][]byte
			for {
				b := make([]byte, 64<<20)
				for i := range b {
					b[i] = 1
				}
				hold = append(hold, b)
			}
		}
	}
}

// sequence position -> case index for worker `shard` of `n` with block size b.
func posToIndex(pos, shard, n, b int) int {
	blk := pos / b
	return (blk*n+shard)*b + pos%b
}

// Main is the entry point of a worker sub-command. init builds the case
// table (it must call w.SetTotal); body runs one case.
func Main(args []string, init func(w *W), body func(w *W, idx int)) int {
	runtime.GOMAXPROCS(1)
	w := &W{viol: map[string]*Violation{}, dseen: map[uint64]struct{}{}, maxSamples: 4}
	w.p.Counters = map[string]int64{}
	w.p.Outcomes = map[string]int64{}
	shard, n, block, from, only, every := 0, 1, 32, 0, -1, 2000
	skip := map[int]bool{}
	w.timeout = 20 * time.Second
	for len(args) > 0 && strings.HasPrefix(args[0], "--procs-") {
		kv := strings.SplitN(strings.TrimPrefix(args[0], "--procs-"), "=", 2)
		args = args[1:]
		if len(kv) != 2 {
			fmt.Fprintln(os.Stderr, "procs: bad flag")
			return ExitInit
		}
		v := kv[1]
		switch kv[0] {
		case "shard":
			fmt.Sscanf(v, "%d/%d", &shard, &n)
		case "block":
			block, _ = strconv.Atoi(v)
		case "from":
			from, _ = strconv.Atoi(v)
		case "only":
			only, _ = strconv.Atoi(v)
		case "every":
			every, _ = strconv.Atoi(v)
		case "skip":
			for _, s := range strings.Split(v, ",") {
				if s != "" {
					k, _ := strconv.Atoi(s)
					skip[k] = true
				}
			}
		case "out":
			w.out = v
		case "cur":
			w.cur = v
		case "dist":
			w.dist = v
		case "timeout-ms":
			ms, _ := strconv.Atoi(v)
			w.timeout = time.Duration(ms) * time.Millisecond
		case "deadline":
			ns, _ := strconv.ParseInt(v, 10, 64)
			w.deadline = time.Unix(0, ns)
		default:
			fmt.Fprintln(os.Stderr, "procs: unknown flag", kv[0])
			return ExitInit
		}
	}
	w.Args = args
	if n < 1 || block < 1 || shard < 0 || shard >= n {
		fmt.Fprintln(os.Stderr, "procs: bad shard/block")
		return ExitInit
	}
	var err error
	if w.cur != "" {
		if w.curF, err = os.OpenFile(w.cur, os.O_CREATE|os.O_RDWR, 0o644); err != nil {
			fmt.Fprintln(os.Stderr, "procs:", err)
			return ExitInit
		}
	}
	if w.dist != "" {
		if w.distF, err = os.OpenFile(w.dist, os.O_CREATE|os.O_WRONLY|os.O_TRUNC, 0o644); err != nil {
			fmt.Fprintln(os.Stderr, "procs:", err)
			return ExitInit
		}
	}
	go w.watchdog() // before init, so that it belongs to every goroutine baseline the body takes
	w.Total = -1
	init(w)
	if w.Total < 0 {
		fmt.Fprintln(os.Stderr, "procs: init did not call SetTotal")
		return ExitInit
	}

	if only >= 0 {
		if only >= w.Total {
			fmt.Fprintln(os.Stderr, "procs: --procs-only out of range")
			return ExitInit
		}
		w.begin(only)
		inject(only)
		body(w, only)
		w.p.Cases++
		w.curStart.Store(0)
		if err := w.checkpoint(0, true, false); err != nil {
			fmt.Fprintln(os.Stderr, "procs:", err)
			return ExitInit
		}
		return ExitOK
	}

	pos := from
	sinceCk := 0
	lastCk := time.Now()
	for {
		idx := posToIndex(pos, shard, n, block)
		if idx >= w.Total {
			break // posToIndex is strictly increasing in pos
		}
		if !w.deadline.IsZero() && pos%16 == 0 && time.Now().After(w.deadline) {
			w.curStart.Store(0)
			if err := w.checkpoint(pos, false, true); err != nil {
				fmt.Fprintln(os.Stderr, "procs:", err)
				return ExitInit
			}
			return ExitOK
		}
		if !skip[idx] {
			w.begin(idx)
			inject(idx)
			body(w, idx)
			w.p.Cases++
		}
		pos++
		sinceCk++
		if sinceCk >= every || (sinceCk%64 == 0 && time.Since(lastCk) > 2*time.Second) {
			w.curStart.Store(0)
			if err := w.checkpoint(pos, false, false); err != nil {
				fmt.Fprintln(os.Stderr, "procs:", err)
				return ExitInit
			}
			sinceCk, lastCk = 0, time.Now()
		}
	}
	w.curStart.Store(0)
	if err := w.checkpoint(pos, true, false); err != nil {
		fmt.Fprintln(os.Stderr, "procs:", err)
		return ExitInit
	}
	return ExitOK
}

// ---------------------------------------------------------------------------
// parent side

// Config describes a sharded run.
type Config struct {
	ID   string   // check id, e.g. "C08"; the worker is started as `<Bin> <ID> <Sub> --procs-… <Args…>`
	Sub  string   // sub-command name (default "worker")
	Bin  string   // default $VERIF_BIN, else os.Args[0]
	Args []string // passed to every worker after the --procs flags (tier etc.)
	Env  []string // extra environment ("K=V")

	Total   int // size of the case space
	Workers int // default min(16, NumCPU)
	Block   int // default 32

	VMemKiB         int64         // `ulimit -v`; default 6 GiB
	CaseTimeout     time.Duration // default 20 s
	Confirm         int           // isolated re-runs of a suspect case; default 5
	CheckpointEvery int           // default 2000 cases
	Deadline        time.Time     // zero = none
	Dir             string        // default $VERIF_DIR/.build/procs-<ID>
	MaxIncidents    int           // stop restarting workers after this many incidents (default 40)
	Log             func(format string, a ...any)
}

// Incident is a worker death or stall attributed to one case.
type Incident struct {
	Index      int    // case index
	Kind       string // "hang" | "crash" | "oom" | "killed"
	ExitCode   int
	Stderr     string // tail of the worker's stderr at the first occurrence
	Attempts   int    // isolated re-runs made
	Reproduced int    // how many of them failed again (same way: non-zero exit)
	ReproKinds []string
}

func (in *Incident) Describe() string {
	return fmt.Sprintf("worker %s on case %d (exit %d); isolated re-runs failed %d/%d; stderr: %s",
		in.Kind, in.Index, in.ExitCode, in.Reproduced, in.Attempts, firstLines(in.Stderr, 12))
}

// Result is the merged outcome of a run.
type Result struct {
	Evals      int64
	Cases      int64 // cases executed (without isolated re-runs)
	Counters   map[string]int64
	Outcomes   map[string]int64
	Distinct   map[uint64]struct{}
	Violations []*Violation // merged by fingerprint, first case kept, counts added
	Samples    []json.RawMessage
	Notes      []string
	Incidents  []*Incident
	Complete   bool // every case was executed (or attributed to an incident)
	Expired    bool // stopped at the deadline
	Segments   int  // worker processes started (without isolated re-runs)
}

func (c *Config) defaults() {
	if c.Sub == "" {
		c.Sub = "worker"
	}
	if c.Bin == "" {
		c.Bin = os.Getenv("VERIF_BIN")
	}
	if c.Bin == "" {
		c.Bin = os.Args[0]
	}
	if c.Workers <= 0 {
		c.Workers = min(16, runtime.NumCPU())
	}
	if c.Block <= 0 {
		c.Block = 32
	}
	if c.VMemKiB <= 0 {
		c.VMemKiB = 6 << 20
	}
	if c.CaseTimeout <= 0 {
		c.CaseTimeout = 20 * time.Second
		if ms, err := strconv.Atoi(os.Getenv("PROCS_TIMEOUT_MS")); err == nil && ms > 0 {
			c.CaseTimeout = time.Duration(ms) * time.Millisecond // for testing the machinery only
		}
	}
	if c.Confirm <= 0 {
		c.Confirm = 5
	}
	if c.CheckpointEvery <= 0 {
		c.CheckpointEvery = 2000
	}
	if c.MaxIncidents <= 0 {
		c.MaxIncidents = 40
	}
	if c.Dir == "" {
		d := os.Getenv("VERIF_DIR")
		if d == "" {
			d = "/verif"
		}
		c.Dir = filepath.Join(d, ".build", "procs-"+c.ID)
	}
	if c.Log == nil {
		c.Log = func(string, ...any) {}
	}
}

func shellQuote(s string) string {
	return "'" + strings.ReplaceAll(s, "'", `'\''`) + "'"
}

type procOutcome struct {
	exit     int
	killed   bool // killed by the parent (stall)
	signaled bool
	stderr   string
}

// start launches one worker process; stall, if non-nil, is polled and may ask for a kill.
func (c *Config) spawn(flags []string, stderrPath string, curPath string) procOutcome {
	isolated := curPath == ""
	argv := append([]string{c.Bin, c.ID, c.Sub}, flags...)
	argv = append(argv, c.Args...)
	q := make([]string, len(argv))
	for i, a := range argv {
		q[i] = shellQuote(a)
	}
	script := fmt.Sprintf("ulimit -v %d 2>/dev/null; exec %s", c.VMemKiB, strings.Join(q, " "))
	cmd := exec.Command("sh", "-c", script)
	cmd.Env = append(os.Environ(), "GOMAXPROCS=1", "GOTRACEBACK=all")
	cmd.Env = append(cmd.Env, c.Env...)
	if isolated {
		cmd.Env = append(cmd.Env, "PROCS_ISOLATED=1")
	}
	errF, err := os.Create(stderrPath)
	if err != nil {
		return procOutcome{exit: ExitInit, stderr: err.Error()}
	}
	defer errF.Close()
	cmd.Stderr = errF
	cmd.Stdout = errF
	cmd.SysProcAttr = &syscall.SysProcAttr{Setpgid: true}
	if err := cmd.Start(); err != nil {
		return procOutcome{exit: ExitInit, stderr: err.Error()}
	}
	done := make(chan error, 1)
	go func() { done <- cmd.Wait() }()
	var out procOutcome
	var lastCur [16]byte
	lastChange := time.Now()
	tick := time.NewTicker(time.Second)
	defer tick.Stop()
loop:
	for {
		select {
		case err = <-done:
			break loop
		case <-tick.C:
			if curPath == "" {
				if time.Since(lastChange) > c.CaseTimeout+60*time.Second {
					syscall.Kill(-cmd.Process.Pid, syscall.SIGKILL)
					out.killed = true
				}
				continue
			}
			var b [16]byte
			if f, e := os.Open(curPath); e == nil {
				f.ReadAt(b[:], 0)
				f.Close()
			}
			if b != lastCur {
				lastCur, lastChange = b, time.Now()
			} else if time.Since(lastChange) > c.CaseTimeout+15*time.Second {
				syscall.Kill(-cmd.Process.Pid, syscall.SIGKILL)
				out.killed = true
			}
		}
	}
	if err != nil {
		var ee *exec.ExitError
		if errors.As(err, &ee) {
			out.exit = ee.ExitCode()
			if ws, ok := ee.Sys().(syscall.WaitStatus); ok && ws.Signaled() {
				out.signaled = true
				out.exit = 128 + int(ws.Signal())
			}
		} else {
			out.exit = ExitInit
		}
	}
	if data, e := os.ReadFile(stderrPath); e == nil {
		if len(data) > 6000 {
			data = append(append(data[:3000:3000], []byte("\n…\n")...), data[len(data)-3000:]...)
		}
		out.stderr = string(data)
	}
	return out
}

func classify(o procOutcome) string {
	switch {
	case o.exit == ExitHang || o.killed:
		return "hang"
	case strings.Contains(o.stderr, "out of memory") || strings.Contains(o.stderr, "cannot allocate memory"):
		return "oom"
	default:
		return "crash"
	}
}

func firstLines(s string, n int) string {
	lines := strings.Split(s, "\n")
	if len(lines) > n {
		lines = lines[:n]
	}
	return strings.Join(lines, " | ")
}

func readPartial(path string) (*partial, error) {
	data, err := os.ReadFile(path)
	if err != nil {
		return nil, err
	}
	var p partial
	if err := json.Unmarshal(data, &p); err != nil {
		return nil, err
	}
	return &p, nil
}

func (res *Result) merge(p *partial, distPath string) {
	res.Evals += p.Evals
	res.Cases += p.Cases
	for k, v := range p.Counters {
		res.Counters[k] += v
	}
	for k, v := range p.Outcomes {
		res.Outcomes[k] += v
	}
	for _, v := range p.Viol {
		var have *Violation
		for _, x := range res.Violations {
			if x.Fingerprint == v.Fingerprint {
				have = x
				break
			}
		}
		if have == nil {
			res.Violations = append(res.Violations, v)
		} else {
			have.Count += v.Count
			if v.Index < have.Index { // deterministic choice of the representative
				have.Index, have.Case, have.What = v.Index, v.Case, v.What
			}
		}
	}
	if len(res.Samples) < 6 {
		res.Samples = append(res.Samples, p.Samples...)
	}
	res.Notes = append(res.Notes, p.Notes...)
	if p.DistinctN > 0 && distPath != "" {
		if data, err := os.ReadFile(distPath); err == nil {
			nb := min(len(data)/8, p.DistinctN)
			for i := 0; i < nb; i++ {
				res.Distinct[binary.LittleEndian.Uint64(data[8*i:])] = struct{}{}
			}
		}
	}
}

// Run executes the whole case space.
func Run(cfg Config) (*Result, error) {
	c := &cfg
	c.defaults()
	if err := os.RemoveAll(c.Dir); err != nil {
		return nil, err
	}
	if err := os.MkdirAll(c.Dir, 0o755); err != nil {
		return nil, err
	}
	res := &Result{Counters: map[string]int64{}, Outcomes: map[string]int64{}, Distinct: map[uint64]struct{}{}, Complete: true}
	var mu sync.Mutex
	var wg sync.WaitGroup
	var incidents atomic.Int64
	var infra []string

	for wk := 0; wk < c.Workers; wk++ {
		wg.Add(1)
		go func(wk int) {
			defer wg.Done()
			from := 0
			var skip []int
			for seg := 0; ; seg++ {
				base := filepath.Join(c.Dir, fmt.Sprintf("w%02d-s%03d", wk, seg))
				flags := []string{
					fmt.Sprintf("--procs-shard=%d/%d", wk, c.Workers),
					fmt.Sprintf("--procs-block=%d", c.Block),
					fmt.Sprintf("--procs-from=%d", from),
					fmt.Sprintf("--procs-every=%d", c.CheckpointEvery),
					fmt.Sprintf("--procs-timeout-ms=%d", c.CaseTimeout.Milliseconds()),
					"--procs-out=" + base + ".json",
					"--procs-cur=" + base + ".cur",
					"--procs-dist=" + base + ".dist",
				}
				if len(skip) > 0 {
					s := make([]string, len(skip))
					for i, k := range skip {
						s[i] = strconv.Itoa(k)
					}
					flags = append(flags, "--procs-skip="+strings.Join(s, ","))
				}
				if !c.Deadline.IsZero() {
					flags = append(flags, fmt.Sprintf("--procs-deadline=%d", c.Deadline.UnixNano()))
				}
				o := c.spawn(flags, base+".err", base+".cur")
				p, perr := readPartial(base + ".json")
				mu.Lock()
				res.Segments++
				if p != nil {
					res.merge(p, base+".dist")
				}
				mu.Unlock()
				if o.exit == ExitOK && !o.killed {
					if perr != nil || p == nil {
						mu.Lock()
						infra = append(infra, fmt.Sprintf("worker %d exited 0 without a result file: %v", wk, perr))
						mu.Unlock()
						return
					}
					if p.Expired {
						mu.Lock()
						res.Expired, res.Complete = true, false
						mu.Unlock()
					}
					return
				}
				if o.exit == ExitInit {
					mu.Lock()
					infra = append(infra, fmt.Sprintf("worker %d could not start: %s", wk, firstLines(o.stderr, 5)))
					mu.Unlock()
					return
				}
				// the worker died: attribute to the case in progress
				var b [16]byte
				idx := -1
				if f, e := os.Open(base + ".cur"); e == nil {
					if n, _ := f.ReadAt(b[:], 0); n == 16 {
						idx = int(binary.LittleEndian.Uint64(b[0:]))
					}
					f.Close()
				}
				if idx < 0 || idx >= c.Total {
					mu.Lock()
					infra = append(infra, fmt.Sprintf("worker %d died (exit %d) before its first case: %s", wk, o.exit, firstLines(o.stderr, 8)))
					mu.Unlock()
					return
				}
				in := &Incident{Index: idx, Kind: classify(o), ExitCode: o.exit, Stderr: o.stderr}
				c.Log("worker %d: %s on case %d (exit %d); re-running %dx in isolation", wk, in.Kind, idx, o.exit, c.Confirm)
				for a := 0; a < c.Confirm; a++ {
					ibase := filepath.Join(c.Dir, fmt.Sprintf("iso-%d-%d", idx, a))
					io := c.spawn([]string{
						fmt.Sprintf("--procs-only=%d", idx),
						fmt.Sprintf("--procs-timeout-ms=%d", c.CaseTimeout.Milliseconds()),
						"--procs-out=" + ibase + ".json",
					}, ibase+".err", "")
					in.Attempts++
					if io.exit != ExitOK || io.killed {
						in.Reproduced++
						in.ReproKinds = append(in.ReproKinds, classify(io))
						if a == 0 {
							in.Stderr = io.stderr // the isolated trace is the clean one
						}
					} else if ip, e := readPartial(ibase + ".json"); e == nil {
						// the isolated run finished: what it observed counts once
						if a == 0 {
							mu.Lock()
							res.merge(ip, "")
							mu.Unlock()
						}
					}
				}
				if in.Reproduced == in.Attempts && len(in.ReproKinds) > 0 {
					in.Kind = in.ReproKinds[0] // how it dies on its own is the clean classification
				}
				mu.Lock()
				res.Incidents = append(res.Incidents, in)
				mu.Unlock()
				if incidents.Add(1) > int64(c.MaxIncidents) {
					mu.Lock()
					res.Complete = false
					res.Notes = append(res.Notes, fmt.Sprintf("more than %d incidents; worker %d not restarted", c.MaxIncidents, wk))
					mu.Unlock()
					return
				}
				if p != nil {
					from = p.Next
				}
				skip = append(skip, idx)
			}
		}(wk)
	}
	wg.Wait()
	sort.Slice(res.Incidents, func(i, j int) bool { return res.Incidents[i].Index < res.Incidents[j].Index })
	sort.Slice(res.Violations, func(i, j int) bool { return res.Violations[i].Fingerprint < res.Violations[j].Fingerprint })
	if len(infra) > 0 {
		return res, errors.New(strings.Join(infra, "; "))
	}
	return res, nil
}

// RunOne runs a single case index in an isolated worker process and returns
// what it observed (used by replays of cases that may take the process down).
func RunOne(cfg Config, idx int) (*Result, *Incident, error) {
	c := &cfg
	c.defaults()
	os.MkdirAll(c.Dir, 0o755)
	base := filepath.Join(c.Dir, fmt.Sprintf("one-%d", idx))
	o := c.spawn([]string{
		fmt.Sprintf("--procs-only=%d", idx),
		fmt.Sprintf("--procs-timeout-ms=%d", c.CaseTimeout.Milliseconds()),
		"--procs-out=" + base + ".json",
	}, base+".err", "")
	res := &Result{Counters: map[string]int64{}, Outcomes: map[string]int64{}, Distinct: map[uint64]struct{}{}, Complete: true}
	if o.exit == ExitInit {
		return nil, nil, fmt.Errorf("worker could not start: %s", firstLines(o.stderr, 5))
	}
	if o.exit != ExitOK || o.killed {
		return res, &Incident{Index: idx, Kind: classify(o), ExitCode: o.exit, Stderr: o.stderr, Attempts: 1, Reproduced: 1}, nil
	}
	p, err := readPartial(base + ".json")
	if err != nil {
		return nil, nil, err
	}
	res.merge(p, "")
	return res, nil, nil
}

// Sink is the part of ev.Run that MergeInto needs (kept as an interface so
// that this package does not import engine/ev).
type Sink interface {
	Eval(n int64)
	Count(name string, n int64)
	OutcomeN(s string, n int64)
	DistinctU(h uint64)
	Sample(v any)
	Violation(fingerprint, what string, c any)
	Flaky(msg string)
}

// MergeInto feeds counts, outcomes, the distinct set, samples, violations and
// notes into an ev.Run.  Incidents are left to the caller (fingerprinting
// them is the check's business).
func (res *Result) MergeInto(r Sink) {
	r.Eval(res.Evals)
	keys := make([]string, 0, len(res.Counters))
	for k := range res.Counters {
		keys = append(keys, k)
	}
	sort.Strings(keys)
	for _, k := range keys {
		r.Count(k, res.Counters[k])
	}
	for k, v := range res.Outcomes {
		r.OutcomeN(k, v)
	}
	for h := range res.Distinct {
		r.DistinctU(h)
	}
	for _, s := range res.Samples {
		var v any
		if json.Unmarshal(s, &v) == nil {
			r.Sample(v)
		}
	}
	for _, v := range res.Violations {
		var cs any
		dec := json.NewDecoder(bytes.NewReader(v.Case))
		dec.UseNumber()
		dec.Decode(&cs)
		for i := 0; i < v.Count; i++ {
			r.Violation(v.Fingerprint, v.What, cs)
		}
	}
	for _, n := range res.Notes {
		r.Flaky(n)
	}
}
