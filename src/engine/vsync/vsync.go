// Package vsync is a drop-in for the parts of package sync (and the channel
// operations) that the files under scheduler control use.  Called from a
// scheduled thread every operation is a scheduling point of engine/sched;
// called from any other goroutine it behaves like the real thing.
package vsync

import (
	"sync"

	"seehuhn.de/go/pdf/zzverif/engine/sched"
)

// Locker is sync.Locker.
type Locker = sync.Locker

// Mutex replaces sync.Mutex.
type Mutex struct {
	real sync.Mutex
	held bool
}

func (m *Mutex) Lock() {
	if sched.Point(func() bool { return !m.held }, "Mutex.Lock") {
		m.held = true
		return
	}
	m.real.Lock()
}

func (m *Mutex) Unlock() {
	if sched.Current() != nil {
		if !m.held {
			panic("vsync: unlock of unlocked mutex")
		}
		m.held = false
		return
	}
	m.real.Unlock()
}

func (m *Mutex) TryLock() bool {
	if sched.Point(nil, "Mutex.TryLock") {
		if m.held {
			return false
		}
		m.held = true
		return true
	}
	return m.real.TryLock()
}

// RWMutex replaces sync.RWMutex.
type RWMutex struct {
	real    sync.RWMutex
	writer  bool
	readers int
}

func (m *RWMutex) Lock() {
	if sched.Point(func() bool { return !m.writer && m.readers == 0 }, "RWMutex.Lock") {
		m.writer = true
		return
	}
	m.real.Lock()
}

func (m *RWMutex) Unlock() {
	if sched.Current() != nil {
		m.writer = false
		return
	}
	m.real.Unlock()
}

func (m *RWMutex) RLock() {
	if sched.Point(func() bool { return !m.writer }, "RWMutex.RLock") {
		m.readers++
		return
	}
	m.real.RLock()
}

func (m *RWMutex) RUnlock() {
	if sched.Current() != nil {
		m.readers--
		return
	}
	m.real.RUnlock()
}

// Pool replaces sync.Pool by a deterministic LIFO, so that recycling is
// maximally adversarial: the item just put is the next one handed out.
type Pool struct {
	New   func() any
	mu    sync.Mutex
	items []any
}

func (p *Pool) Get() any {
	sched.Point(nil, "Pool.Get")
	p.mu.Lock()
	defer p.mu.Unlock()
	if n := len(p.items); n > 0 {
		x := p.items[n-1]
		p.items = p.items[:n-1]
		return x
	}
	if p.New != nil {
		return p.New()
	}
	return nil
}

func (p *Pool) Put(x any) {
	sched.Point(nil, "Pool.Put")
	p.mu.Lock()
	p.items = append(p.items, x)
	p.mu.Unlock()
}

// Reset empties the pool (between executions).
func (p *Pool) Reset() {
	p.mu.Lock()
	p.items = nil
	p.mu.Unlock()
}

// Once replaces sync.Once.
type Once struct {
	real  sync.Once
	state int // 0 fresh, 1 running, 2 done
}

func (o *Once) Do(f func()) {
	if sched.Point(func() bool { return o.state != 1 }, "Once.Do") {
		if o.state == 0 {
			o.state = 1
			defer func() { o.state = 2 }()
			f()
		}
		return
	}
	o.real.Do(func() {
		o.state = 1
		f()
		o.state = 2
	})
}

// WaitGroup replaces sync.WaitGroup.
type WaitGroup struct {
	real sync.WaitGroup
	n    int
}

func (w *WaitGroup) Add(d int) {
	if sched.Current() != nil {
		w.n += d
		return
	}
	w.real.Add(d)
}

func (w *WaitGroup) Done() { w.Add(-1) }

func (w *WaitGroup) Wait() {
	if sched.Point(func() bool { return w.n <= 0 }, "WaitGroup.Wait") {
		return
	}
	w.real.Wait()
}

// channels -------------------------------------------------------------------

var chans sync.Map // chan struct{} -> *chanState

type chanState struct{ closed bool }

// MakeChan replaces make(chan struct{}).
func MakeChan() chan struct{} {
	ch := make(chan struct{})
	chans.Store(ch, &chanState{})
	return ch
}

func state(ch chan struct{}) *chanState {
	if v, ok := chans.Load(ch); ok {
		return v.(*chanState)
	}
	return nil
}

// Recv replaces <-ch for channels that are only ever closed.
func Recv(ch chan struct{}) {
	st := state(ch)
	if st != nil && sched.Point(func() bool { return st.closed }, "chan receive") {
		return
	}
	<-ch
}

// Close replaces close(ch).
func Close(ch chan struct{}) {
	if st := state(ch); st != nil {
		st.closed = true
		chans.Delete(ch)
	}
	close(ch)
}
