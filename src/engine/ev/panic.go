//go:build verif

package ev

import (
	"fmt"
	"os"
	"path/filepath"
	"runtime/debug"
	"strings"
	"sync"
)

// A panic inside the library must never end a check with a bare Go crash
// (exit status 2, no VIOLATION line): for every property a panic on an input
// of the explored space is a violation.  A panic in the harness itself is an
// infrastructure failure.  The two are told apart by the first frame of the
// module below the panic: harness code lives under .../zzverif/.

var (
	current   *Run
	panicOnce sync.Once
)

// PanicCase is the replay record of a violation found by the generic guard
// (checks that guard their own executions record their own case instead).
type PanicCase struct {
	Panic    string `json:"panic"`
	Site     string `json:"site"`
	ParIndex int    `json:"par_index"` // index in the enclosing Par loop, -1 outside
	Stack    string `json:"stack"`
	Note     string `json:"note"`
}

// PanicSite returns the first frame of the repository module below the
// innermost panic of a debug.Stack() dump, as "pkg.Func@file.go:line", and
// whether that frame is harness code.
func PanicSite(stack []byte) (site string, harness bool) {
	lines := strings.Split(string(stack), "\n")
	start := 0
	for i, l := range lines {
		if strings.HasPrefix(l, "panic(") {
			start = i + 1
		}
	}
	for i := start; i+1 < len(lines); i++ {
		l := lines[i]
		if strings.HasPrefix(l, "\t") || !strings.HasPrefix(l, "seehuhn.de/go/pdf") {
			continue
		}
		fn := l
		if j := strings.LastIndex(fn, "("); j > 0 {
			fn = fn[:j]
		}
		fn = strings.TrimPrefix(fn, "seehuhn.de/go/pdf/")
		fn = strings.TrimPrefix(fn, "seehuhn.de/go/")
		loc := strings.TrimSpace(lines[i+1])
		if j := strings.Index(loc, " +0x"); j > 0 {
			loc = loc[:j]
		}
		return fn + "@" + filepath.Base(loc), strings.Contains(l, "/zzverif/")
	}
	return "unknown", true
}

// panicked records a recovered panic and ends the run: after a panic the
// library may hold locks or be half-updated, so nothing later is believed.
func (r *Run) panicked(p any, stack []byte, idx int) {
	panicOnce.Do(func() {
		site, harness := PanicSite(stack)
		msg := fmt.Sprint(p)
		if len(msg) > 300 {
			msg = msg[:300]
		}
		if harness {
			r.Infra(fmt.Sprintf("panic in the harness at %s: %s\n%s", site, msg, stack))
		} else {
			r.Capped("the run stops at the first panic inside the library")
			r.Violation("panic:"+site, fmt.Sprintf("the library panics at %s: %s", site, msg),
				PanicCase{Panic: msg, Site: site, ParIndex: idx, Stack: string(stack), Note: "found by the generic guard; the enumeration is deterministic: re-run the tier to reproduce"})
		}
		os.Exit(r.Finish())
	})
	select {} // another goroutine is finishing the run
}

// guard runs f(i) and routes a panic to panicked.
func (r *Run) guard(i int, f func(i int)) {
	defer func() {
		if p := recover(); p != nil {
			r.panicked(p, debug.Stack(), i)
		}
	}()
	f(i)
}

// RecoverMain is deferred by the command around a check's Run function.
func RecoverMain() {
	if p := recover(); p != nil {
		stack := debug.Stack()
		if current == nil {
			fmt.Fprintf(os.Stderr, "panic before the run started: %v\n%s", p, stack)
			os.Exit(2)
		}
		current.panicked(p, stack, -1)
	}
}
