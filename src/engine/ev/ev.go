// Package ev collects what a check run covered, writes the evidence file,
// handles violations (replay files, known findings) and the exit status.
package ev

import (
	"crypto/sha256"
	"encoding/binary"
	"encoding/hex"
	"encoding/json"
	"fmt"
	"hash/maphash"
	"os"
	"path/filepath"
	"runtime"
	"sort"
	"strconv"
	"sync"
	"sync/atomic"
	"time"
)

// Finding is one entry of known_findings.json.
type Finding struct {
	Property    string          `json:"property"`
	Fingerprint string          `json:"fingerprint"`
	What        string          `json:"what"`
	Witness     json.RawMessage `json:"witness,omitempty"`
}

type findingsFile struct {
	Known []Finding `json:"known"`
	Fixed []string  `json:"fixed"`
}

// Violation is a recorded property violation.
type Violation struct {
	Fingerprint string `json:"fingerprint"`
	What        string `json:"what"`
	Case        any    `json:"case"`
	Count       int    `json:"count"`
}

const nShards = 64

type distinctShard struct {
	mu sync.Mutex
	m  map[uint64]struct{}
}

// Run accumulates the coverage of one check run.
type Run struct {
	ID    string
	Tier  string
	Seed  int64
	Level string

	Dir string // /verif

	start    time.Time
	deadline time.Time
	expired  atomic.Bool
	capped   atomic.Bool

	evals    atomic.Int64
	states   atomic.Int64
	trans    atomic.Int64
	traces   atomic.Int64
	distinct [nShards]distinctShard
	seed     maphash.Seed

	mu          sync.Mutex
	outcomes    sync.Map // string -> *atomic.Int64
	samples     []any
	maxSamples  int
	dims        map[string]any
	counters    map[string]*atomic.Int64
	rule        string
	assumptions []string
	viol        map[string]*Violation
	violOrder   []string
	known       map[string]*Finding
	knownSeen   map[string]int
	flaky       []string
	infra       []string
	replayMode  bool
}

// New creates a Run. budget is the internal deadline of the tier.
func New(id, tier string, level string, budget time.Duration) *Run {
	dir := os.Getenv("VERIF_DIR")
	if dir == "" {
		dir = "/verif"
	}
	seed, _ := strconv.ParseInt(os.Getenv("VERIF_SEED"), 10, 64)
	r := &Run{
		ID: id, Tier: tier, Seed: seed, Level: level, Dir: dir,
		start:      time.Now(),
		dims:       map[string]any{},
		counters:   map[string]*atomic.Int64{},
		viol:       map[string]*Violation{},
		known:      map[string]*Finding{},
		knownSeen:  map[string]int{},
		maxSamples: 6,
		seed:       maphash.MakeSeed(),
	}
	if s := os.Getenv("VERIF_BUDGET_S"); s != "" {
		if v, err := strconv.Atoi(s); err == nil {
			budget = time.Duration(v) * time.Second
		}
	}
	r.deadline = r.start.Add(budget)
	for i := range r.distinct {
		r.distinct[i].m = map[uint64]struct{}{}
	}
	r.loadKnown()
	current = r
	return r
}

func (r *Run) loadKnown() {
	data, err := os.ReadFile(filepath.Join(r.Dir, "known_findings.json"))
	if err != nil {
		return
	}
	var ff findingsFile
	if err := json.Unmarshal(data, &ff); err != nil {
		r.Infra("known_findings.json unreadable: " + err.Error())
		return
	}
	for i := range ff.Known {
		f := ff.Known[i]
		if f.Property == r.ID {
			r.known[f.Fingerprint] = &f
		}
	}
}

// KnownWitnesses returns the witnesses of the listed known findings of this
// property, so that a check can run them explicitly.
func (r *Run) KnownWitnesses() []Finding {
	var out []Finding
	for _, f := range r.known {
		out = append(out, *f)
	}
	sort.Slice(out, func(i, j int) bool { return out[i].Fingerprint < out[j].Fingerprint })
	return out
}

func (r *Run) Thorough() bool { return r.Tier == "thorough" }

// Pick returns q in the quick tier and t in the thorough tier.
func Pick[T any](r *Run, q, t T) T {
	if r.Thorough() {
		return t
	}
	return q
}

// Expired reports whether the internal deadline has passed; the first time it
// does the run is marked non-exhaustive.
func (r *Run) Expired() bool {
	if r.expired.Load() {
		return true
	}
	if time.Now().After(r.deadline) {
		r.expired.Store(true)
		r.capped.Store(true)
		return true
	}
	return false
}

// Capped marks the run as not exhaustive for a stated reason.
func (r *Run) Capped(why string) {
	r.capped.Store(true)
	r.mu.Lock()
	r.dims["cap_reason"] = why
	r.mu.Unlock()
}

func (r *Run) Eval(n int64)  { r.evals.Add(n) }
func (r *Run) State(n int64) { r.states.Add(n) }
func (r *Run) Trans(n int64) { r.trans.Add(n) }
func (r *Run) Trace(n int64) { r.traces.Add(n) }

// Count adds to a named counter reported under coverage.
func (r *Run) Count(name string, n int64) {
	r.mu.Lock()
	c := r.counters[name]
	if c == nil {
		c = new(atomic.Int64)
		r.counters[name] = c
	}
	r.mu.Unlock()
	c.Add(n)
}

// Counter returns a named counter for hot loops.
func (r *Run) Counter(name string) *atomic.Int64 {
	r.mu.Lock()
	defer r.mu.Unlock()
	c := r.counters[name]
	if c == nil {
		c = new(atomic.Int64)
		r.counters[name] = c
	}
	return c
}

// Distinct records a non-trivial case by its identity.
func (r *Run) Distinct(key []byte) {
	h := maphash.Bytes(r.seed, key)
	s := &r.distinct[h%nShards]
	s.mu.Lock()
	s.m[h] = struct{}{}
	s.mu.Unlock()
}

func (r *Run) DistinctS(key string) {
	h := maphash.String(r.seed, key)
	s := &r.distinct[h%nShards]
	s.mu.Lock()
	s.m[h] = struct{}{}
	s.mu.Unlock()
}

// DistinctU records an already hashed identity.
func (r *Run) DistinctU(h uint64) {
	var b [8]byte
	binary.LittleEndian.PutUint64(b[:], h)
	r.Distinct(b[:])
}

func (r *Run) distinctCount() int64 {
	var n int64
	for i := range r.distinct {
		r.distinct[i].mu.Lock()
		n += int64(len(r.distinct[i].m))
		r.distinct[i].mu.Unlock()
	}
	return n
}

// Outcome records an observed outcome class.
func (r *Run) Outcome(s string) { r.OutcomeN(s, 1) }

// OutcomeN records n observations of an outcome class.
func (r *Run) OutcomeN(s string, n int64) {
	if c, ok := r.outcomes.Load(s); ok {
		c.(*atomic.Int64).Add(n)
		return
	}
	c, _ := r.outcomes.LoadOrStore(s, new(atomic.Int64))
	c.(*atomic.Int64).Add(n)
}

func (r *Run) outcomeMap() map[string]int64 {
	m := map[string]int64{}
	r.outcomes.Range(func(k, v any) bool {
		m[k.(string)] = v.(*atomic.Int64).Load()
		return true
	})
	return m
}

// Sample keeps the first few cases verbatim.
func (r *Run) Sample(v any) {
	r.mu.Lock()
	if len(r.samples) < r.maxSamples {
		r.samples = append(r.samples, v)
	}
	r.mu.Unlock()
}

func (r *Run) WantSample() bool {
	r.mu.Lock()
	defer r.mu.Unlock()
	return len(r.samples) < r.maxSamples
}

func (r *Run) Dim(name string, v any) {
	r.mu.Lock()
	r.dims[name] = v
	r.mu.Unlock()
}

func (r *Run) Rule(s string) { r.rule = s }

func (r *Run) Assume(s ...string) {
	r.mu.Lock()
	r.assumptions = append(r.assumptions, s...)
	r.mu.Unlock()
}

// Infra records a failure of the machinery itself (exit 2, never a violation).
func (r *Run) Infra(msg string) {
	r.mu.Lock()
	r.infra = append(r.infra, msg)
	r.mu.Unlock()
}

// Flaky records a failing case that did not reproduce; it is not a violation.
func (r *Run) Flaky(msg string) {
	r.mu.Lock()
	r.flaky = append(r.flaky, msg)
	r.mu.Unlock()
}

// Violation records a violation. fingerprint identifies the defect class
// (matched against known_findings.json); c is the replayable case.
func (r *Run) Violation(fingerprint, what string, c any) {
	r.mu.Lock()
	defer r.mu.Unlock()
	if _, ok := r.known[fingerprint]; ok {
		r.knownSeen[fingerprint]++
		return
	}
	v := r.viol[fingerprint]
	if v == nil {
		v = &Violation{Fingerprint: fingerprint, What: what, Case: c}
		r.viol[fingerprint] = v
		r.violOrder = append(r.violOrder, fingerprint)
	}
	v.Count++
}

// NumViolations returns the number of distinct unlisted violation fingerprints.
func (r *Run) NumViolations() int {
	r.mu.Lock()
	defer r.mu.Unlock()
	return len(r.viol)
}

// TooManyViolations lets enumerations stop early once enough distinct
// counterexamples have been collected.
func (r *Run) TooManyViolations() bool { return r.NumViolations() >= 25 }

// Par runs f(i) for i in [0,n) on all cores.
func (r *Run) Par(n int, f func(i int)) {
	workers := runtime.GOMAXPROCS(0)
	if workers > n {
		workers = n
	}
	if workers <= 1 {
		for i := 0; i < n; i++ {
			r.guard(i, f)
		}
		return
	}
	var next atomic.Int64
	var wg sync.WaitGroup
	for w := 0; w < workers; w++ {
		wg.Add(1)
		go func() {
			defer wg.Done()
			for {
				i := int(next.Add(1) - 1)
				if i >= n {
					return
				}
				r.guard(i, f)
			}
		}()
	}
	wg.Wait()
}

type evidence struct {
	PropertyID  string         `json:"property_id"`
	Tier        string         `json:"tier"`
	Seed        int64          `json:"seed"`
	Level       string         `json:"level"`
	Coverage    map[string]any `json:"coverage"`
	Assumptions []string       `json:"assumptions,omitempty"`
	WallS       float64        `json:"wall_s"`
	Violations  int            `json:"violations"`
}

// Finish writes the evidence file, prints VIOLATION / KNOWN-FINDING lines and
// returns the process exit code.
func (r *Run) Finish() int {
	r.mu.Lock()
	defer r.mu.Unlock()

	cov := map[string]any{}
	for k, v := range r.dims {
		cov[k] = v
	}
	for k, c := range r.counters {
		cov[k] = c.Load()
	}
	cov["evaluations"] = r.evals.Load()
	cov["distinct_nontrivial"] = r.distinctCount()
	cov["rule"] = r.rule
	if len(r.samples) == 0 {
		r.samples = []any{"(no case sampled)"}
	}
	cov["samples"] = r.samples
	cov["exhaustive"] = !r.capped.Load()
	outcomes := r.outcomeMap()
	cov["distinct_outcomes"] = len(outcomes)
	oc := map[string]int64{}
	keys := make([]string, 0, len(outcomes))
	for k := range outcomes {
		keys = append(keys, k)
	}
	sort.Strings(keys)
	for i, k := range keys {
		if i >= 40 {
			break
		}
		oc[k] = outcomes[k]
	}
	cov["outcomes"] = oc
	if r.Level == "model_checking" {
		cov["states"] = r.states.Load()
		cov["transitions"] = r.trans.Load()
		cov["traces_validated_against_impl"] = r.traces.Load()
	}
	if len(r.flaky) > 0 {
		cov["flaky"] = r.flaky
	}
	var knownLines []string
	kf := []string{}
	for fp, n := range r.knownSeen {
		kf = append(kf, fmt.Sprintf("%s (x%d)", fp, n))
		knownLines = append(knownLines, fmt.Sprintf("KNOWN-FINDING: property=%s %s [%s]", r.ID, r.known[fp].What, fp))
	}
	sort.Strings(kf)
	sort.Strings(knownLines)
	if len(kf) > 0 {
		cov["known_findings_observed"] = kf
	}

	nviol := len(r.viol)
	if !r.replayMode {
		e := evidence{
			PropertyID: r.ID, Tier: r.Tier, Seed: r.Seed, Level: r.Level,
			Coverage: cov, Assumptions: r.assumptions,
			WallS:      time.Since(r.start).Seconds(),
			Violations: nviol,
		}
		data, err := json.MarshalIndent(e, "", " ")
		if err != nil {
			fmt.Fprintln(os.Stderr, "evidence marshal:", err)
			return 2
		}
		p := filepath.Join(r.Dir, "evidence", r.ID+".json")
		if d := os.Getenv("VERIF_EVIDENCE_DIR"); d != "" {
			// mutant runs must not overwrite the evidence of the real tree
			p = filepath.Join(d, r.ID+".json")
		}
		os.MkdirAll(filepath.Dir(p), 0o755)
		if err := os.WriteFile(p, append(data, '\n'), 0o644); err != nil {
			fmt.Fprintln(os.Stderr, "evidence write:", err)
			return 2
		}
	}

	fmt.Printf("[%s %s] evaluations=%d distinct=%d outcomes=%d states=%d transitions=%d exhaustive=%v wall=%.1fs\n",
		r.ID, r.Tier, r.evals.Load(), r.distinctCount(), len(outcomes), r.states.Load(), r.trans.Load(), !r.capped.Load(), time.Since(r.start).Seconds())
	for _, l := range knownLines {
		fmt.Println(l)
	}
	for _, m := range r.flaky {
		fmt.Println("FLAKY (not a violation):", m)
	}
	if len(r.infra) > 0 {
		for _, m := range r.infra {
			fmt.Fprintln(os.Stderr, "INFRASTRUCTURE:", m)
		}
		return 2
	}
	if nviol == 0 {
		return 0
	}
	os.MkdirAll(filepath.Join(r.Dir, "replays"), 0o755)
	for i, fp := range r.violOrder {
		if i >= 20 {
			fmt.Printf("... %d more distinct violation fingerprints\n", nviol-i)
			break
		}
		v := r.viol[fp]
		data, _ := json.MarshalIndent(map[string]any{
			"property": r.ID, "fingerprint": v.Fingerprint, "what": v.What, "case": v.Case, "count": v.Count,
		}, "", " ")
		sum := sha256.Sum256([]byte(fp))
		p := filepath.Join(r.Dir, "replays", r.ID+"-"+hex.EncodeToString(sum[:5])+".json")
		os.WriteFile(p, data, 0o644)
		fmt.Printf("  %s: %s (x%d)\n", fp, v.What, v.Count)
		fmt.Printf("VIOLATION property=%s replay=%s\n", r.ID, p)
	}
	return 1
}

// SetReplayMode makes Finish skip writing the evidence file.
func (r *Run) SetReplayMode() { r.replayMode = true }

// ReplayCase loads the "case" member of a replay file.
func ReplayCase(path string, into any) error {
	data, err := os.ReadFile(path)
	if err != nil {
		return err
	}
	var f struct {
		Case json.RawMessage `json:"case"`
	}
	if err := json.Unmarshal(data, &f); err != nil {
		return err
	}
	return json.Unmarshal(f.Case, into)
}
