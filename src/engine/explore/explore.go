// Package explore enumerates every path of a choice tree: a body calls
// Choose/Deviate whenever something is not determined; the explorer runs the
// body once per leaf, completely or completely up to a deviation bound.
package explore

import (
	"fmt"
)

// Ctx is handed to the body of an execution.
type Ctx struct {
	prefix []int
	pos    int
	// recorded for this execution
	Choices []int
	arity   []int
	cost    []bool // true if alternatives at this point cost a deviation
	Labels  []string
	devs    int
	keepLbl bool
}

// Choose returns a value in [0,n); 0 is the default answer.
func (c *Ctx) Choose(n int, label string) int { return c.choose(n, label, false) }

// Deviate is like Choose but every alternative other than 0 costs one
// deviation (preemption, injected fault, mutation).
func (c *Ctx) Deviate(n int, label string) int { return c.choose(n, label, true) }

func (c *Ctx) choose(n int, label string, costly bool) int {
	if n <= 0 {
		panic("explore: Choose with n <= 0 at " + label)
	}
	v := 0
	if c.pos < len(c.prefix) {
		v = c.prefix[c.pos]
		if v >= n {
			panic(fmt.Sprintf("explore: nondeterminism leaked: replayed choice %d out of range %d at point %d (%s)", v, n, c.pos, label))
		}
	}
	c.pos++
	c.Choices = append(c.Choices, v)
	c.arity = append(c.arity, n)
	c.cost = append(c.cost, costly)
	if c.keepLbl {
		c.Labels = append(c.Labels, label)
	}
	if costly && v != 0 {
		c.devs++
	}
	return v
}

// Deviations returns the number of deviations taken so far.
func (c *Ctx) Deviations() int { return c.devs }

// Stats reports what an exploration covered.
type Stats struct {
	Executions int64
	MaxPoints  int
	Bound      int // deviation bound completed (-1 = unbounded)
	Complete   bool
}

// Explorer runs bodies.
type Explorer struct {
	// Bound is the maximal number of deviations (-1: unlimited).
	Bound int
	// Stop is polled between executions; returning true aborts (Complete=false).
	Stop func() bool
	// After is called after every execution with the context.
	After func(c *Ctx)
}

// Run executes body with the given forced prefix (default choices afterwards).
func Run(prefix []int, labels bool, body func(c *Ctx)) *Ctx {
	c := &Ctx{prefix: prefix, keepLbl: labels}
	body(c)
	if c.pos < len(prefix) {
		panic(fmt.Sprintf("explore: nondeterminism leaked: execution ended after %d points, prefix has %d", c.pos, len(prefix)))
	}
	return c
}

// Explore enumerates all executions of body from the given starting prefix.
func (e *Explorer) Explore(start []int, body func(c *Ctx)) Stats {
	st := Stats{Bound: e.Bound, Complete: true}
	var rec func(prefix []int)
	rec = func(prefix []int) {
		if !st.Complete {
			return
		}
		if e.Stop != nil && e.Stop() {
			st.Complete = false
			return
		}
		c := Run(prefix, false, body)
		st.Executions++
		if len(c.Choices) > st.MaxPoints {
			st.MaxPoints = len(c.Choices)
		}
		if e.After != nil {
			e.After(c)
		}
		// deviations used before point i
		devs := 0
		for i := 0; i < len(c.Choices); i++ {
			if i >= len(prefix) {
				can := true
				if c.cost[i] && e.Bound >= 0 && devs+1 > e.Bound {
					can = false
				}
				if can {
					for alt := 1; alt < c.arity[i]; alt++ {
						np := make([]int, i+1)
						copy(np, c.Choices[:i])
						np[i] = alt
						rec(np)
						if !st.Complete {
							return
						}
					}
				}
			}
			if c.cost[i] && c.Choices[i] != 0 {
				devs++
			}
		}
	}
	rec(append([]int{}, start...))
	return st
}

// Prefixes enumerates all choice prefixes of the given depth (number of
// points), for sharding. Executions shorter than depth are returned whole.
func (e *Explorer) Prefixes(depth int, body func(c *Ctx)) [][]int {
	var out [][]int
	var rec func(prefix []int)
	rec = func(prefix []int) {
		c := Run(prefix, false, body)
		if len(prefix) >= depth || len(c.Choices) <= len(prefix) {
			out = append(out, prefix)
			return
		}
		i := len(prefix)
		devs := 0
		for k := 0; k < i; k++ {
			if c.cost[k] && c.Choices[k] != 0 {
				devs++
			}
		}
		n := c.arity[i]
		if c.cost[i] && e.Bound >= 0 && devs+1 > e.Bound {
			n = 1
		}
		for alt := 0; alt < n; alt++ {
			np := append(append([]int{}, prefix...), alt)
			rec(np)
		}
	}
	rec(nil)
	return out
}

// RunPartial is like Run but tolerates an execution that ends before the
// prefix is used up (e.g. because an injected fault stops the program early).
func RunPartial(prefix []int, body func(c *Ctx)) *Ctx {
	c := &Ctx{prefix: prefix}
	body(c)
	return c
}
