//go:build verif

// Package c01 decides C01: Format followed by parsing is the identity.
package c01

import (
	"bytes"
	"encoding/json"
	"fmt"
	"math"
	"strconv"
	"strings"
	"time"

	"seehuhn.de/go/pdf"
	"seehuhn.de/go/pdf/zzverif/checks/hx"
	"seehuhn.de/go/pdf/zzverif/engine/ev"
	"seehuhn.de/go/pdf/zzverif/ref/pdfsyn"
)

// Case is one replayable case: objects formatted together under opt.
type Case struct {
	Space string `json:"space"`
	Opt   uint32 `json:"opt"`
	Objs  []any  `json:"objs"`
}

type failure struct {
	fp, what string
}

var allOpts []pdf.OutputOptions

func init() {
	bits := []pdf.OutputOptions{pdf.OptPretty, pdf.OptContentStream, pdf.OptDictTypes, pdf.OptTextStringUtf8, pdf.OptTrimStandardFonts}
	for m := 0; m < 32; m++ {
		var o pdf.OutputOptions
		for i, b := range bits {
			if m&(1<<i) != 0 {
				o |= b
			}
		}
		allOpts = append(allOpts, o)
	}
}

func format(opt pdf.OutputOptions, objs ...pdf.Object) ([]byte, error) {
	var b bytes.Buffer
	err := pdf.Format(&b, opt, objs...)
	return b.Bytes(), err
}

func hasTopRef(objs []pdf.Object) bool {
	for _, o := range objs {
		if _, ok := o.(pdf.Reference); ok {
			return true
		}
	}
	return false
}

// containsNilDict reports whether a nil pdf.Dict occurs anywhere.
func replaceNilDict(o pdf.Object) (pdf.Object, bool) {
	switch x := o.(type) {
	case pdf.Dict:
		if x == nil {
			return pdf.Dict{}, true
		}
		d := pdf.Dict{}
		any := false
		for k, v := range x {
			nv, ch := replaceNilDict(v)
			d[k] = nv
			any = any || ch
		}
		return d, any
	case pdf.Array:
		if x == nil {
			return x, false
		}
		a := make(pdf.Array, len(x))
		any := false
		for i, v := range x {
			nv, ch := replaceNilDict(v)
			a[i] = nv
			any = any || ch
		}
		return a, any
	}
	return o, false
}

// compare returns "" if got equals want under harness equality, else a
// fingerprint suffix describing the kind of difference.
func compare(got, want pdf.Object) string {
	if hx.Equal(got, want) {
		return ""
	}
	if w2, changed := replaceNilDict(want); changed && hx.Equal(got, w2) {
		return "nil-dict-read-back-as-empty-dict"
	}
	return "value-differs:" + kindOf(want)
}

func kindOf(o pdf.Object) string {
	switch x := o.(type) {
	case nil:
		return "null"
	case pdf.Array:
		if len(x) == 1 {
			return "array-of-" + kindOf(x[0])
		}
		return "array"
	case pdf.Dict:
		return "dict"
	default:
		return fmt.Sprintf("%T", o)
	}
}

// checkSeq is the oracle for one case.
func checkSeq(opt pdf.OutputOptions, objs []pdf.Object) *failure {
	b1, err := format(opt, objs...)
	if err != nil {
		return &failure{"format-error", "Format returned " + err.Error()}
	}
	b2, err := format(opt, objs...)
	if err != nil || !bytes.Equal(b1, b2) {
		return &failure{"nondeterministic", fmt.Sprintf("formatting twice gave %q and %q", b1, b2)}
	}

	// (1) the objects as elements of an array: the context in which the
	// scanner resolves references.
	arr := make([]byte, 0, len(b1)+2)
	arr = append(arr, '[')
	arr = append(arr, b1...)
	arr = append(arr, ']')
	want := pdf.Array(objs)
	if want == nil {
		want = pdf.Array{}
	}
	got, err := pdf.VerifParseObjects(arr)
	if err != nil {
		return &failure{"array-context-parse-error", fmt.Sprintf("%q does not parse: %v", arr, err)}
	}
	if len(got) != 1 {
		return &failure{"array-context-count", fmt.Sprintf("%q parses to %d objects", arr, len(got))}
	}
	ga, ok := got[0].(pdf.Array)
	if !ok {
		return &failure{"array-context-type", fmt.Sprintf("%q parses to %T", arr, got[0])}
	}
	if len(ga) != len(objs) {
		return &failure{"separation", fmt.Sprintf("%d objects formatted as %q parse to %d objects: %s", len(objs), b1, len(ga), hx.Show(ga))}
	}
	if d := compare(ga, want); d != "" {
		return &failure{d, fmt.Sprintf("formatted %q, read back %s, want %s", b1, hx.Show(ga), hx.Show(want))}
	}

	// (2) the independent parser must read the same bytes to the same value
	iv, err := pdfsyn.ParseAll(arr)
	if err != nil || len(iv) != 1 {
		return &failure{"independent-parse-error", fmt.Sprintf("independent parser rejects %q: %v", arr, err)}
	}
	wantV := hx.FromPdf(want)
	if !pdfsyn.Equal(iv[0], wantV) {
		w2, changed := replaceNilDict(want)
		if changed && pdfsyn.Equal(iv[0], hx.FromPdf(w2)) {
			return &failure{"nil-dict-read-back-as-empty-dict", fmt.Sprintf("formatted %q", b1)}
		}
		return &failure{"independent-value-differs:" + kindOf(want), fmt.Sprintf("independent parser reads %q as %s, want %s", arr, iv[0].String(), wantV.String())}
	}

	// (3) the sequence at top level (no reference detection there)
	if !hasTopRef(objs) {
		got, err := pdf.VerifParseObjects(b1)
		if err != nil {
			return &failure{"toplevel-parse-error", fmt.Sprintf("%q does not parse: %v", b1, err)}
		}
		if len(got) != len(objs) {
			return &failure{"separation-toplevel", fmt.Sprintf("%d objects formatted as %q parse to %d objects", len(objs), b1, len(got))}
		}
		for i := range got {
			if d := compare(got[i], objs[i]); d != "" {
				return &failure{d, fmt.Sprintf("formatted %q, object %d read back %s, want %s", b1, i, hx.Show(got[i]), hx.Show(objs[i]))}
			}
		}
	}

	// (4) as dictionary values
	if len(objs) >= 1 && len(objs) <= 3 {
		d := pdf.Dict{}
		names := []pdf.Name{"A", "B", "C"}
		for i, o := range objs {
			d[names[i]] = o
		}
		bd, err := format(opt, d)
		if err != nil {
			return &failure{"format-error", "Format(dict) returned " + err.Error()}
		}
		got, err := pdf.VerifParseObjects(bd)
		if err != nil || len(got) != 1 {
			return &failure{"dict-context-parse-error", fmt.Sprintf("%q does not parse to one object: %v", bd, err)}
		}
		if d2 := compare(got[0], d); d2 != "" {
			return &failure{d2, fmt.Sprintf("formatted %q, read back %s, want %s", bd, hx.Show(got[0]), hx.Show(d))}
		}
	}

	// (5) as the body of an indirect object, written as Writer.Put does
	if len(objs) == 1 {
		var b bytes.Buffer
		b.WriteString("7 0 obj\n")
		b.Write(b1)
		b.WriteString("\nendobj\n")
		got, ref, err := pdf.VerifReadIndirectObject(b.Bytes())
		if err != nil {
			return &failure{"indirect-context-parse-error", fmt.Sprintf("%q does not parse: %v", b.Bytes(), err)}
		}
		if ref != pdf.NewReference(7, 0) {
			return &failure{"indirect-context-ref", fmt.Sprintf("%q read as object %v", b.Bytes(), ref)}
		}
		if d := compare(got, objs[0]); d != "" {
			return &failure{d, fmt.Sprintf("indirect body %q read back %s, want %s", b1, hx.Show(got), hx.Show(objs[0]))}
		}
	}
	return nil
}

func checkAtomParsers(o pdf.Object) *failure {
	switch x := o.(type) {
	case pdf.Name:
		b, _ := format(0, x)
		got, err := pdf.ParseName(b)
		if err != nil || got != x {
			return &failure{"ParseName", fmt.Sprintf("ParseName(%q) = %q, %v; want %q", b, got, err, x)}
		}
	case pdf.String:
		for _, opt := range []pdf.OutputOptions{0, pdf.OptPretty} {
			b, _ := format(opt, x)
			got, err := pdf.ParseString(b)
			if err != nil || !bytes.Equal(got, x) {
				return &failure{"ParseString", fmt.Sprintf("ParseString(%q) = %q, %v; want %q", b, got, err, x)}
			}
		}
	}
	return nil
}

type runner struct {
	r *ev.Run
}

func (rn *runner) one(space string, opt pdf.OutputOptions, objs ...pdf.Object) {
	r := rn.r
	r.Eval(1)
	f := checkSeq(opt, objs)
	if f == nil && len(objs) == 1 {
		f = checkAtomParsers(objs[0])
	}
	if f != nil {
		r.Outcome("fail:" + f.fp)
		r.Violation(f.fp, f.what, Case{Space: space, Opt: uint32(opt), Objs: hx.EncList(objs)})
		return
	}
	r.Outcome("ok:" + space)
}

// ---------------------------------------------------------------------------
// alphabets

func allStrings(alpha []byte, maxLen int, f func(s []byte)) {
	buf := make([]byte, 0, maxLen)
	var rec func()
	rec = func() {
		f(buf)
		if len(buf) == maxLen {
			return
		}
		for _, c := range alpha {
			buf = append(buf, c)
			rec()
			buf = buf[:len(buf)-1]
		}
	}
	rec()
}

var nameAlpha = []byte{'a', '1', '#', '/', '(', '%', ' ', 0, '\n', 0x7f, 0x80, 0xff}
var strAlpha = []byte{'(', ')', '\\', '\r', '\n', 'a', '7', 0, 0x80}

func integers() []pdf.Object {
	return []pdf.Object{pdf.Integer(0), pdf.Integer(1), pdf.Integer(-1), pdf.Integer(9), pdf.Integer(10),
		pdf.Integer(math.MaxInt32), pdf.Integer(math.MaxInt32 + 1), pdf.Integer(math.MinInt64), pdf.Integer(math.MaxInt64),
		pdf.Integer(-math.MaxInt32 - 1), pdf.Integer(1 << 53), pdf.Integer(65535)}
}

func reals() []pdf.Object {
	return []pdf.Object{pdf.Real(0), pdf.Real(math.Copysign(0, -1)), pdf.Real(.5), pdf.Real(-1.5), pdf.Real(1e-7),
		pdf.Real(123456789.125), pdf.Real(1e20), pdf.Real(1<<53 + 2), pdf.Real(math.MaxFloat64),
		pdf.Real(math.SmallestNonzeroFloat64), pdf.Real(0.1 + 0.2), pdf.Real(-math.MaxFloat64), pdf.Real(1), pdf.Real(-2),
		pdf.Real(9.223372036854775807e18), pdf.Real(1e19), pdf.Real(3.0000000000000004), pdf.Real(1e-320)}
}

// leafAtoms is the alphabet of leaves for container trees: one representative
// per token class and per "needs a separator" class, plus the degenerate
// containers.
func leafAtoms(n int) []pdf.Object {
	all := []pdf.Object{
		pdf.Integer(12), pdf.Name("A"), pdf.String("x"), pdf.NewReference(5, 0),
		nil, pdf.Real(.5), pdf.Boolean(true), pdf.Array(nil),
		pdf.Dict(nil), pdf.Integer(-3), pdf.Real(-2), pdf.Name(""),
		pdf.String("(\r\n"), pdf.String("\x80\x81\x00"), pdf.Array{}, pdf.Dict{},
		pdf.Name("a b#"), pdf.Dict{"K": nil}, pdf.Boolean(false), pdf.NewReference(0, 65535),
	}
	if n > len(all) {
		n = len(all)
	}
	return all[:n]
}

func pairAtoms() []pdf.Object {
	var out []pdf.Object
	out = append(out, leafAtoms(100)...)
	out = append(out, pdf.Integer(0), pdf.Integer(math.MinInt64), pdf.Real(1e20), pdf.Real(1e-7), pdf.Real(0),
		pdf.Name("R"), pdf.Name("0"), pdf.Name("#"), pdf.String(""), pdf.String(nil), pdf.String(")"), pdf.String("\\"),
		pdf.String("<>"), pdf.Name("true"), pdf.Name("null"), pdf.NewReference(1<<24-1, 0), pdf.Array{pdf.Integer(1)},
		pdf.Dict{"R": pdf.Integer(1)}, pdf.Array{pdf.Name("N")}, pdf.Dict{"": pdf.Name("")})
	return out
}

// tree shapes ---------------------------------------------------------------

type shape struct {
	kind     byte // 'l' leaf, 'a' array, 'd' dict
	children []*shape
}

func compositions(n int, f func(parts []int)) {
	var rec func(rem int, cur []int)
	rec = func(rem int, cur []int) {
		if rem == 0 {
			f(cur)
			return
		}
		for k := 1; k <= rem; k++ {
			rec(rem-k, append(cur, k))
		}
	}
	rec(n, nil)
}

var shapeMemo = map[[2]int][]*shape{}

func shapes(leaves, depth int) []*shape {
	key := [2]int{leaves, depth}
	if s, ok := shapeMemo[key]; ok {
		return s
	}
	var out []*shape
	if leaves == 1 {
		out = append(out, &shape{kind: 'l'})
	}
	if depth > 0 {
		compositions(leaves, func(parts []int) {
			// cartesian product of child shapes
			lists := make([][]*shape, len(parts))
			for i, p := range parts {
				lists[i] = shapes(p, depth-1)
			}
			for _, l := range lists {
				if len(l) == 0 {
					return
				}
			}
			idx := make([]int, len(parts))
			for {
				ch := make([]*shape, len(parts))
				for i := range parts {
					ch[i] = lists[i][idx[i]]
				}
				out = append(out, &shape{kind: 'a', children: ch}, &shape{kind: 'd', children: ch})
				i := len(idx) - 1
				for ; i >= 0; i-- {
					idx[i]++
					if idx[i] < len(lists[i]) {
						break
					}
					idx[i] = 0
				}
				if i < 0 {
					break
				}
			}
		})
	}
	shapeMemo[key] = out
	return out
}

var dictKeys = []pdf.Name{"A", "", "b c", "Z"}

func (s *shape) build(leaves []pdf.Object, pos *int) pdf.Object {
	switch s.kind {
	case 'l':
		o := leaves[*pos]
		*pos++
		return hx.Clone(o)
	case 'a':
		a := make(pdf.Array, len(s.children))
		for i, c := range s.children {
			a[i] = c.build(leaves, pos)
		}
		return a
	default:
		d := pdf.Dict{}
		for i, c := range s.children {
			d[dictKeys[i]] = c.build(leaves, pos)
		}
		return d
	}
}

func nested(depth int, inner pdf.Object, dict bool) pdf.Object {
	o := inner
	for i := 0; i < depth; i++ {
		if dict && i%2 == 1 {
			o = pdf.Dict{"K": o}
		} else {
			o = pdf.Array{o}
		}
	}
	return o
}

// Run is the check.
func Run(tier string) int {
	budget := 4 * time.Minute
	if tier == "thorough" {
		budget = 25 * time.Minute
	}
	r := ev.New("C01", tier, "exploration", budget)
	rn := &runner{r}
	r.Rule("every case is a list of objects formatted together under one option set and parsed back in array, top-level, dictionary-value and indirect-object context by the library scanner and by an independent parser; distinct = distinct (option set, serialised bytes) pairs whose bytes contain a delimiter, escape, sign, dot or more than one token")
	r.Assume("independent parser ref/pdfsyn written from ISO 32000-2 7.2/7.3", "bounded alphabets: see coverage dimensions")

	plainPretty := []pdf.OutputOptions{0, pdf.OptPretty, pdf.OptContentStream}

	// known findings are run explicitly
	for _, k := range r.KnownWitnesses() {
		var c Case
		if json.Unmarshal(k.Witness, &c) == nil {
			rn.one("known-witness", pdf.OutputOptions(c.Opt), hx.DecList(c.Objs)...)
		}
	}

	// (a) atoms --------------------------------------------------------------
	var names []pdf.Object
	allStrings(nameAlpha, 3, func(s []byte) { names = append(names, pdf.Name(s)) })
	for _, n := range []int{127, 128, 1000, 4095} {
		names = append(names, pdf.Name(bytes.Repeat([]byte{'a'}, n)))
	}
	for _, n := range []int{127, 128, 1000} {
		names = append(names, pdf.Name(bytes.Repeat([]byte{'#'}, n)), pdf.Name(bytes.Repeat([]byte{0}, n)))
	}
	r.Dim("names", len(names))
	r.Par(len(names), func(i int) {
		for _, opt := range plainPretty {
			rn.one("name", opt, names[i])
		}
		r.DistinctS("n" + string(names[i].(pdf.Name)))
	})

	strMax := ev.Pick(r, 5, 6)
	var strs []pdf.Object
	allStrings(strAlpha, strMax, func(s []byte) { strs = append(strs, pdf.String(append([]byte{}, s...))) })
	// parenthesis patterns
	allStrings([]byte{'(', ')'}, 9, func(s []byte) {
		if len(s) > strMax {
			strs = append(strs, pdf.String(append([]byte{}, s...)))
		}
	})
	// positions around the 8-byte output buffer of the string formatter
	for L := 0; L <= 18; L++ {
		for pos := 0; pos <= L; pos++ {
			// (the last five: a control byte followed by octal digits, in a string that stays literal under OptPretty)
			for _, c := range []string{"(", ")", "\\", "\r", "\n", "\r\n", "\n\r", "()", ")(", "\x001", "\x0012", "\x1f7", "\x0807", "\x7f1"} {
				s := bytes.Repeat([]byte{'a'}, L)
				s = append(s[:pos:pos], append([]byte(c), s[pos:]...)...)
				strs = append(strs, pdf.String(s))
			}
		}
	}
	strs = append(strs, pdf.String(nil), pdf.String(bytes.Repeat([]byte{'('}, 5000)), pdf.String(bytes.Repeat([]byte{0xff}, 70000)))
	r.Dim("strings", len(strs))
	r.Par(len(strs), func(i int) {
		for _, opt := range plainPretty {
			rn.one("string", opt, strs[i])
		}
		r.DistinctS("s" + string(strs[i].(pdf.String)))
	})

	nums := append(integers(), reals()...)
	for _, o := range nums {
		for _, opt := range allOpts {
			rn.one("number", opt, o)
		}
		r.DistinctS("num" + hx.Show(o))
	}
	for _, ref := range []pdf.Object{pdf.NewReference(0, 0), pdf.NewReference(1, 0), pdf.NewReference(1<<24-1, 65535)} {
		for _, opt := range allOpts {
			rn.one("reference", opt, ref)
		}
	}
	r.Sample(Case{Space: "string", Opt: uint32(pdf.OptPretty), Objs: hx.EncList([]pdf.Object{strs[777]})})

	// (b) pairs and triples over the wide adjacency alphabet, all 32 option sets
	pa := pairAtoms()
	r.Dim("adjacency_atoms", len(pa))
	r.Dim("option_sets", len(allOpts))
	r.Par(len(pa)*len(pa), func(ij int) {
		i, j := ij/len(pa), ij%len(pa)
		for _, opt := range allOpts {
			rn.one("pair", opt, hx.Clone(pa[i]), hx.Clone(pa[j]))
		}
		r.DistinctS(fmt.Sprintf("p%d,%d", i, j))
		if r.Thorough() || (i < 24 && j < 24) {
			for k := range pa {
				if !r.Thorough() && k >= 24 {
					break
				}
				for _, opt := range []pdf.OutputOptions{0, pdf.OptPretty} {
					rn.one("triple", opt, hx.Clone(pa[i]), hx.Clone(pa[j]), hx.Clone(pa[k]))
				}
			}
		}
	})
	r.Sample(Case{Space: "pair", Opt: 0, Objs: hx.EncList([]pdf.Object{pa[0], pa[3]})})

	// (c) container trees
	type treeSpace struct {
		leaves, depth, atoms int
		opts                 []pdf.OutputOptions
	}
	spaces := []treeSpace{
		{1, 3, 20, allOpts},
		{2, 3, 20, ev.Pick(r, plainPretty, allOpts)},
		{3, 2, ev.Pick(r, 12, 20), ev.Pick(r, plainPretty, allOpts)},
		{3, 3, ev.Pick(r, 6, 12), plainPretty},
		{4, 2, ev.Pick(r, 6, 10), ev.Pick(r, []pdf.OutputOptions{0, pdf.OptPretty}, plainPretty)},
		{4, 3, ev.Pick(r, 3, 5), []pdf.OutputOptions{0, pdf.OptPretty}},
	}
	var treeDims []string
	for _, sp := range spaces {
		shs := shapes(sp.leaves, sp.depth)
		atoms := leafAtoms(sp.atoms)
		total := 1
		for i := 0; i < sp.leaves; i++ {
			total *= len(atoms)
		}
		treeDims = append(treeDims, fmt.Sprintf("leaves=%d depth<=%d shapes=%d atoms=%d options=%d", sp.leaves, sp.depth, len(shs), len(atoms), len(sp.opts)))
		r.Par(len(shs), func(si int) {
			if r.Expired() {
				return
			}
			sh := shs[si]
			leaves := make([]pdf.Object, sp.leaves)
			for t := 0; t < total; t++ {
				x := t
				for i := range leaves {
					leaves[i] = atoms[x%len(atoms)]
					x /= len(atoms)
				}
				for _, opt := range sp.opts {
					pos := 0
					rn.one("tree", opt, sh.build(leaves, &pos))
				}
				r.DistinctS(fmt.Sprintf("t%d/%d/%d", sp.leaves, si, t))
			}
		})
	}
	r.Dim("tree_spaces", treeDims)
	{
		sh := shapes(3, 3)[17]
		pos := 0
		r.Sample(Case{Space: "tree", Opt: 0, Objs: hx.EncList([]pdf.Object{sh.build(leafAtoms(3), &pos)})})
	}

	// (d) nesting chains up to the scanner's depth limit
	for _, depth := range []int{1, 2, 17, 100, 200, 250, 254, 255} {
		for _, dict := range []bool{false, true} {
			for _, opt := range plainPretty {
				rn.one("nesting", opt, nested(depth, pdf.Integer(1), dict))
			}
		}
	}
	r.Dim("nesting_depths", []int{1, 2, 17, 100, 200, 250, 254, 255})

	// (g) several long strings in one container (scratch buffers of the string
	// readers are longer-lived than one string)
	{
		mk := func(n int, b byte) pdf.String {
			x := make([]byte, n)
			for i := range x {
				// (the phase depends on the length: two strings never share a prefix, so
				// one decoded over the other is visible)
				x[i] = b + byte((i+n)%7)
			}
			return pdf.String(x)
		}
		lens := []int{1, 63, 64, 65, 127, 200, 1100}
		var longs []pdf.Object
		for _, n := range lens {
			longs = append(longs, mk(n, 0x80), mk(n, 'a'), mk(n, '('))
		}
		r.Dim("long_strings", len(longs))
		r.Par(len(longs)*len(longs), func(ij int) {
			i, j := ij/len(longs), ij%len(longs)
			for _, opt := range plainPretty {
				rn.one("long-strings", opt, hx.Clone(longs[i]), hx.Clone(longs[j]))
				rn.one("long-strings", opt, pdf.Dict{"A": hx.Clone(longs[i]), "B": hx.Clone(longs[j]), "C": hx.Clone(longs[i])})
			}
			r.DistinctS(fmt.Sprintf("ls%d,%d", i, j))
		})
	}

	// (f) reals and integers by digit structure: every number of significant
	// digits 1..19 at every position of the decimal point, for digit strings
	// that sit on the rounding boundaries of float64 parsing
	{
		digitStrings := []string{"9999999999999999999", "1000000000000000001", "1234567890123456789", "9007199254740993000", "9223372036854775807", "4503599627370497000", "1797693134862315708"}
		seen := map[uint64]bool{}
		var vals []pdf.Object
		for _, ds := range digitStrings {
			for n := 1; n <= 19; n++ {
				for point := 0; point <= n; point++ {
					for zeros := 0; zeros <= 3; zeros++ {
						txt := ds[:point] + "." + strings.Repeat("0", zeros) + ds[point:n]
						f, err := strconv.ParseFloat(txt, 64)
						if err != nil || math.IsInf(f, 0) {
							continue
						}
						for _, v := range []float64{f, -f, math.Nextafter(f, 0), math.Nextafter(f, math.Inf(1))} {
							if b := math.Float64bits(v); !seen[b] {
								seen[b] = true
								vals = append(vals, pdf.Real(v))
							}
						}
						if point == n && zeros == 0 {
							if i, err := strconv.ParseInt(ds[:n], 10, 64); err == nil {
								vals = append(vals, pdf.Integer(i), pdf.Integer(-i))
							}
						}
					}
				}
			}
		}
		for e := -4; e <= 20; e++ {
			f := float64(1<<53) * math.Pow(10, float64(-e))
			for _, v := range []float64{f, math.Nextafter(f, 0), math.Nextafter(f, math.Inf(1))} {
				if b := math.Float64bits(v); !seen[b] {
					seen[b] = true
					vals = append(vals, pdf.Real(v))
				}
			}
		}
		r.Dim("digit_structure_numbers", len(vals))
		r.Par(len(vals), func(i int) {
			for _, opt := range []pdf.OutputOptions{0, pdf.OptPretty, pdf.OptContentStream, pdf.OptContentStream | pdf.OptPretty} {
				rn.one("digits", opt, vals[i])
				rn.one("digits", opt, vals[i], pdf.Integer(7))
			}
			r.DistinctS("dg" + hx.Show(vals[i]))
		})
	}

	// (e) wide containers: many siblings of one kind in one array / dictionary
	widths := []int{2, 16, 17, 255, 256, 257, 1000}
	for _, n := range widths {
		for ai, atom := range leafAtoms(100) {
			a := make(pdf.Array, n)
			d := pdf.Dict{}
			for i := range a {
				a[i] = hx.Clone(atom)
				d[pdf.Name(fmt.Sprintf("K%d", i))] = hx.Clone(atom)
			}
			for _, opt := range plainPretty {
				rn.one("wide", opt, a)
				rn.one("wide", opt, d)
				rn.one("wide", opt, pdf.Array{a, a})
			}
			r.DistinctS(fmt.Sprintf("w%d/%d", n, ai))
		}
	}
	r.Dim("wide_containers", widths)

	// (h) long arrays of numbers: the formatted text crosses every power of two
	// up to 32 KiB (output buffers of the formatter), alone and mixed
	{
		numAtoms := []pdf.Object{pdf.Integer(7), pdf.Integer(1234), pdf.Integer(-123456789), pdf.Real(0.5), pdf.Real(-1234.5678)}
		lens := []int{500, 1000, 2000, 5000}
		r.Dim("long_number_arrays", fmt.Sprintf("%d numeric atoms (and every ordered pair alternating) x lengths %v", len(numAtoms), lens))
		r.Par(len(numAtoms)*len(numAtoms), func(ij int) {
			i, j := ij/len(numAtoms), ij%len(numAtoms)
			for _, n := range lens {
				a := make(pdf.Array, n)
				for k := range a {
					if k%2 == 0 {
						a[k] = numAtoms[i]
					} else {
						a[k] = numAtoms[j]
					}
				}
				// the position is part of the value, so that a dropped or merged element is visible
				a[n/2] = pdf.Integer(int64(n))
				for _, opt := range []pdf.OutputOptions{0, pdf.OptPretty, pdf.OptContentStream} {
					rn.one("long-numbers", opt, a)
					rn.one("long-numbers", opt, pdf.Dict{"A": a, "B": pdf.Name("after")})
				}
				r.DistinctS(fmt.Sprintf("ln%d,%d,%d", i, j, n))
			}
		})
	}

	return r.Finish()
}

// Replay re-executes the case of a replay file.
func Replay(path string) int {
	var c Case
	if err := ev.ReplayCase(path, &c); err != nil {
		fmt.Println("replay:", err)
		return 2
	}
	r := ev.New("C01", "quick", "exploration", time.Minute)
	r.SetReplayMode()
	(&runner{r}).one(c.Space, pdf.OutputOptions(c.Opt), hx.DecList(c.Objs)...)
	return r.Finish()
}
