//go:build verif

package wprog

import (
	"fmt"
	"time"

	"golang.org/x/text/language"

	"seehuhn.de/go/pdf"
	"seehuhn.de/go/pdf/optional"
	"seehuhn.de/go/pdf/zzverif/checks/hx"
)

// Meta profiles: what the program puts into the Catalog and the Info
// dictionary before Close ("version, ID, Info and Catalog round-trip").
//
//	0  the minimum: Catalog.Pages and Info.Title
//	1  rich: every Catalog field the version admits and every Info field, each
//	   with its own non-default value
//	2  explicit defaults: the fields whose zero value and documented default
//	   differ are set to the documented default (PageLayout SinglePage,
//	   PageMode UseNone), Info fields that are empty strings stay unset
const NumMeta = 3

type catField struct {
	name  string
	since pdf.Version
	set   func(c *pdf.Catalog, w *pdf.Writer)
}

func tagDict(name string) pdf.Dict {
	return pdf.Dict{"ACME_Field": pdf.Name(name), "N": pdf.Integer(len(name)), "S": pdf.String("(" + name + ")")}
}

var catFields = []catField{
	{"Extensions", pdf.V1_7, func(c *pdf.Catalog, w *pdf.Writer) {
		c.Extensions = pdf.Dict{"ACME": pdf.Dict{"BaseVersion": pdf.Name("1.7"), "ExtensionLevel": pdf.Integer(3)}}
	}},
	{"PageLabels", pdf.V1_3, func(c *pdf.Catalog, w *pdf.Writer) {
		c.PageLabels = pdf.Dict{"Nums": pdf.Array{pdf.Integer(0), pdf.Dict{"S": pdf.Name("r")}}}
	}},
	{"Names", pdf.V1_2, func(c *pdf.Catalog, w *pdf.Writer) { c.Names = tagDict("Names") }},
	{"Dests", pdf.V1_1, func(c *pdf.Catalog, w *pdf.Writer) { c.Dests = tagDict("Dests") }},
	{"ViewerPreferences", pdf.V1_2, func(c *pdf.Catalog, w *pdf.Writer) {
		c.ViewerPreferences = pdf.Dict{"HideToolbar": pdf.Boolean(true)}
	}},
	{"PageLayout", pdf.V1_0, func(c *pdf.Catalog, w *pdf.Writer) { c.PageLayout = "OneColumn" }},
	{"PageMode", pdf.V1_0, func(c *pdf.Catalog, w *pdf.Writer) { c.PageMode = "UseOutlines" }},
	{"Outlines", pdf.V1_0, func(c *pdf.Catalog, w *pdf.Writer) { c.Outlines = pdf.NewReference(271, 0) }},
	{"Threads", pdf.V1_1, func(c *pdf.Catalog, w *pdf.Writer) { c.Threads = pdf.NewReference(272, 0) }},
	{"OpenAction", pdf.V1_1, func(c *pdf.Catalog, w *pdf.Writer) {
		c.OpenAction = pdf.Array{pdf.NewReference(2, 0), pdf.Name("Fit")}
	}},
	{"AA", pdf.V1_2, func(c *pdf.Catalog, w *pdf.Writer) { c.AA = tagDict("AA") }},
	{"URI", pdf.V1_1, func(c *pdf.Catalog, w *pdf.Writer) { c.URI = pdf.Dict{"Base": pdf.String("http://example.com/")} }},
	{"AcroForm", pdf.V1_2, func(c *pdf.Catalog, w *pdf.Writer) { c.AcroForm = pdf.Dict{"Fields": pdf.Array{}} }},
	{"StructTreeRoot", pdf.V1_3, func(c *pdf.Catalog, w *pdf.Writer) { c.StructTreeRoot = pdf.NewReference(273, 0) }},
	{"MarkInfo", pdf.V1_4, func(c *pdf.Catalog, w *pdf.Writer) { c.MarkInfo = pdf.Dict{"Marked": pdf.Boolean(true)} }},
	{"Lang", pdf.V1_4, func(c *pdf.Catalog, w *pdf.Writer) { c.Lang = language.MustParse("de-CH") }},
	{"SpiderInfo", pdf.V1_3, func(c *pdf.Catalog, w *pdf.Writer) { c.SpiderInfo = tagDict("SpiderInfo") }},
	{"OutputIntents", pdf.V1_4, func(c *pdf.Catalog, w *pdf.Writer) { c.OutputIntents = pdf.Array{tagDict("OutputIntents")} }},
	{"PieceInfo", pdf.V1_4, func(c *pdf.Catalog, w *pdf.Writer) { c.PieceInfo = tagDict("PieceInfo") }},
	{"OCProperties", pdf.V1_5, func(c *pdf.Catalog, w *pdf.Writer) { c.OCProperties = tagDict("OCProperties") }},
	{"Perms", pdf.V1_5, func(c *pdf.Catalog, w *pdf.Writer) { c.Perms = tagDict("Perms") }},
	{"Legal", pdf.V1_5, func(c *pdf.Catalog, w *pdf.Writer) { c.Legal = tagDict("Legal") }},
	{"Requirements", pdf.V1_7, func(c *pdf.Catalog, w *pdf.Writer) { c.Requirements = pdf.Array{tagDict("Requirements")} }},
	{"Collection", pdf.V1_7, func(c *pdf.Catalog, w *pdf.Writer) { c.Collection = tagDict("Collection") }},
	{"DSS", pdf.V2_0, func(c *pdf.Catalog, w *pdf.Writer) { c.DSS = tagDict("DSS") }},
	{"AF", pdf.V2_0, func(c *pdf.Catalog, w *pdf.Writer) { c.AF = pdf.Array{tagDict("AF")} }},
	{"DPartRoot", pdf.V2_0, func(c *pdf.Catalog, w *pdf.Writer) { c.DPartRoot = tagDict("DPartRoot") }},
}

// applyMeta fills the Writer's catalog and Info according to the profile and
// returns copies of what was set (taken before Close).
func applyMeta(w *pdf.Writer, profile int, v pdf.Version) (pdf.Catalog, pdf.Info) {
	m := w.GetMeta()
	c := m.Catalog
	info := m.Info
	switch profile {
	case 1:
		for _, f := range catFields {
			if v >= f.since {
				f.set(c, w)
			}
		}
		if v >= pdf.V1_5 && v < pdf.V2_0 {
			c.NeedsRendering = true
		}
		info.Author = "Autor (ä) \\ x"
		info.Subject = "subject"
		info.Keywords = "k1, k2"
		info.Creator = "creator"
		info.Producer = "producer"
		info.CreationDate = pdf.Date(time.Date(2001, 2, 3, 4, 5, 6, 0, time.FixedZone("", 3600)))
		info.ModDate = pdf.Date(time.Date(2020, 12, 31, 23, 59, 59, 0, time.UTC))
		if v >= pdf.V1_3 {
			info.Trapped = optional.NewBool(false)
		}
		info.Custom = map[string]string{"ACME_Custom": "custom (value)"}
	case 2:
		c.PageLayout = "SinglePage"
		c.PageMode = "UseNone"
		if v >= pdf.V1_3 {
			info.Trapped = optional.NewBool(true)
		}
	}
	cc := *c
	ii := *info
	if info.Custom != nil {
		ii.Custom = map[string]string{}
		for k, v := range info.Custom {
			ii.Custom[k] = v
		}
	}
	return cc, ii
}

// CompareMeta returns "" if the catalog and Info read back equal what was
// written, else a description of the first difference.
func CompareMeta(wc *pdf.Catalog, wi *pdf.Info, rc *pdf.Catalog, ri *pdf.Info) string {
	if rc == nil {
		return "no catalog read"
	}
	objs := []struct {
		name string
		a, b pdf.Object
	}{
		{"Extensions", wc.Extensions, rc.Extensions}, {"PageLabels", wc.PageLabels, rc.PageLabels}, {"Names", wc.Names, rc.Names},
		{"Dests", wc.Dests, rc.Dests}, {"ViewerPreferences", wc.ViewerPreferences, rc.ViewerPreferences}, {"OpenAction", wc.OpenAction, rc.OpenAction},
		{"AA", wc.AA, rc.AA}, {"URI", wc.URI, rc.URI}, {"AcroForm", wc.AcroForm, rc.AcroForm}, {"StructTreeRoot", wc.StructTreeRoot, rc.StructTreeRoot},
		{"MarkInfo", wc.MarkInfo, rc.MarkInfo}, {"SpiderInfo", wc.SpiderInfo, rc.SpiderInfo}, {"OutputIntents", wc.OutputIntents, rc.OutputIntents},
		{"PieceInfo", wc.PieceInfo, rc.PieceInfo}, {"OCProperties", wc.OCProperties, rc.OCProperties}, {"Perms", wc.Perms, rc.Perms},
		{"Legal", wc.Legal, rc.Legal}, {"Requirements", wc.Requirements, rc.Requirements}, {"Collection", wc.Collection, rc.Collection},
		{"DSS", wc.DSS, rc.DSS}, {"AF", wc.AF, rc.AF}, {"DPartRoot", wc.DPartRoot, rc.DPartRoot},
	}
	for _, o := range objs {
		if !hx.Equal(o.a, o.b) {
			return fmt.Sprintf("Catalog.%s read %s, written %s", o.name, hx.Show(o.b), hx.Show(o.a))
		}
	}
	switch {
	case wc.Pages != rc.Pages:
		return fmt.Sprintf("Catalog.Pages read %v, written %v", rc.Pages, wc.Pages)
	case wc.Version != rc.Version:
		return fmt.Sprintf("Catalog.Version read %v, written %v", rc.Version, wc.Version)
	case wc.PageLayout != rc.PageLayout:
		return fmt.Sprintf("Catalog.PageLayout read %q, written %q", rc.PageLayout, wc.PageLayout)
	case wc.PageMode != rc.PageMode:
		return fmt.Sprintf("Catalog.PageMode read %q, written %q", rc.PageMode, wc.PageMode)
	case wc.Outlines != rc.Outlines:
		return fmt.Sprintf("Catalog.Outlines read %v, written %v", rc.Outlines, wc.Outlines)
	case wc.Threads != rc.Threads:
		return fmt.Sprintf("Catalog.Threads read %v, written %v", rc.Threads, wc.Threads)
	case wc.Lang != rc.Lang:
		return fmt.Sprintf("Catalog.Lang read %v, written %v", rc.Lang, wc.Lang)
	case wc.NeedsRendering != rc.NeedsRendering:
		return fmt.Sprintf("Catalog.NeedsRendering read %v, written %v", rc.NeedsRendering, wc.NeedsRendering)
	}
	if ri == nil {
		return "no Info read"
	}
	switch {
	case wi.Title != ri.Title, wi.Author != ri.Author, wi.Subject != ri.Subject, wi.Keywords != ri.Keywords, wi.Creator != ri.Creator, wi.Producer != ri.Producer:
		return fmt.Sprintf("Info text fields read %+v, written %+v", *ri, *wi)
	case !time.Time(wi.CreationDate).Equal(time.Time(ri.CreationDate)), !time.Time(wi.ModDate).Equal(time.Time(ri.ModDate)):
		return fmt.Sprintf("Info dates read %v / %v, written %v / %v", time.Time(ri.CreationDate), time.Time(ri.ModDate), time.Time(wi.CreationDate), time.Time(wi.ModDate))
	case wi.Trapped != ri.Trapped:
		return fmt.Sprintf("Info.Trapped read %v, written %v", ri.Trapped, wi.Trapped)
	case len(wi.Custom) != len(ri.Custom):
		return fmt.Sprintf("Info.Custom read %v, written %v", ri.Custom, wi.Custom)
	}
	for k, v := range wi.Custom {
		if ri.Custom[k] != v {
			return fmt.Sprintf("Info.Custom[%q] read %q, written %q", k, ri.Custom[k], v)
		}
	}
	return ""
}
