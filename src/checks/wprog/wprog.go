//go:build verif

// Package wprog is the shared driver for the properties that quantify over
// "all write programs" (C02, C03, C19 write side, C20): it interprets a
// program over the Writer's API, chosen step by step through an
// explore.Ctx, against the real pdf.Writer and against a reference model
// (a map from reference to value / stream).
package wprog

import (
	"bytes"
	"errors"
	"fmt"
	"io"

	"seehuhn.de/go/pdf"
	"seehuhn.de/go/pdf/zzverif/checks/hx"
	"seehuhn.de/go/pdf/zzverif/engine/explore"
)

// Config is a writer configuration.
type Config struct {
	V        pdf.Version `json:"version"`
	Human    bool        `json:"human"`
	Seekable bool        `json:"seekable"`
	User     string      `json:"user"`
	Owner    string      `json:"owner"`
	Meta     int         `json:"meta_profile,omitempty"` // see meta.go
}

func (c Config) String() string {
	s, _ := c.V.ToString()
	if c.Meta != 0 {
		return fmt.Sprintf("v%s human=%v seekable=%v user=%q owner=%q meta-profile=%d", s, c.Human, c.Seekable, c.User, c.Owner, c.Meta)
	}
	return fmt.Sprintf("v%s human=%v seekable=%v user=%q owner=%q", s, c.Human, c.Seekable, c.User, c.Owner)
}

// Encrypted reports whether the configuration uses encryption.
func (c Config) Encrypted() bool { return c.User != "" || c.Owner != "" }

// Cipher names the cipher the Writer selects for this version.
func (c Config) Cipher() string {
	if !c.Encrypted() {
		return "none"
	}
	switch {
	case c.V >= pdf.V2_0:
		return "AES-256"
	case c.V >= pdf.V1_6:
		return "AES-128"
	case c.V >= pdf.V1_4:
		return "RC4-128"
	}
	return "RC4-40"
}

// StreamModel is what the model knows of a written stream.
type StreamModel struct {
	Dict    pdf.Dict // the caller's dictionary (without Length/Filter/DecodeParms)
	Data    []byte   // decoded data
	Filters []string
}

// Arg is a snapshot of an argument handed to the Writer.
type Arg struct {
	What   string
	Live   pdf.Object
	Before pdf.Object
}

// Result is the outcome of one program.
type Result struct {
	Cfg       Config
	Ops       []string
	Accepted  bool
	Reject    string // why the Writer did not accept the program
	Bytes     []byte
	Objs      map[pdf.Reference]pdf.Object
	Streams   map[pdf.Reference]*StreamModel
	InObjStm  map[pdf.Reference]bool
	Unwritten []pdf.Reference
	Args      []Arg
	Pages     pdf.Reference
	Page      pdf.Reference
	Title     string
	Catalog   pdf.Catalog // as set before Close (meta.go)
	Info      pdf.Info
	ID        [][]byte
	NumOps    int
	WriteErr  error // error returned by a Writer call (with fault injection)
	// DeferredReject is set when the Writer accepted a Put issued while a stream
	// was open (the call returned nil) and the Close of that stream then failed
	// although the program gave no wrong /Length.
	DeferredReject string
	Panic     any
}

// memSeeker is an in-memory io.WriteSeeker.
type memSeeker struct {
	buf []byte
	pos int64
}

func (m *memSeeker) Write(p []byte) (int, error) {
	end := m.pos + int64(len(p))
	if end > int64(len(m.buf)) {
		m.buf = append(m.buf, make([]byte, end-int64(len(m.buf)))...)
	}
	copy(m.buf[m.pos:], p)
	m.pos = end
	return len(p), nil
}

func (m *memSeeker) Seek(off int64, whence int) (int64, error) {
	switch whence {
	case io.SeekStart:
		m.pos = off
	case io.SeekCurrent:
		m.pos += off
	case io.SeekEnd:
		m.pos = int64(len(m.buf)) + off
	}
	if m.pos < 0 {
		return 0, errors.New("negative position")
	}
	return m.pos, nil
}

type onlyWriter struct{ w io.Writer }

func (o onlyWriter) Write(p []byte) (int, error) { return o.w.Write(p) }

// Sink is where a program writes.
type Sink interface {
	io.Writer
	Bytes() []byte
}

type seekSink struct{ memSeeker }

func (s *seekSink) Bytes() []byte { return s.buf }

type plainSink struct{ bytes.Buffer }

// Values is the value alphabet; index 0 is the default.
const NumValues = 11

func (in *interp) value(i int, self pdf.Reference) pdf.Object {
	if i == 8 {
		// the same Go value under several references of one program
		if in.shared == nil {
			in.shared = pdf.Dict{"Sh": pdf.String("shared(value"), "A": pdf.Array{pdf.Integer(1)}}
		}
		return in.shared
	}
	return value(i, self)
}

func value(i int, self pdf.Reference) pdf.Object {
	switch i {
	case 0:
		return pdf.Integer(42)
	case 1:
		return pdf.Real(-0.5)
	case 2:
		// (every delimiter and two white-space bytes: all of them need a #xx escape)
		return pdf.Name("A B/#(){}<>[]%\x00\t")
	case 3:
		return pdf.String(")(\\\r()(")
	case 4:
		return pdf.Dict{"S": pdf.Array{pdf.String("in(side"), pdf.Integer(7)}, "N": nil, "R": pdf.Real(-3.5e25)}
	case 5:
		return pdf.NewReference(250, 0) // never written
	case 6:
		return pdf.Array{self} // reference to itself
	case 7:
		return pdf.Array{}
	case 9:
		return pdf.String("\x00\x01\xfe\xff binary \r\n\r text that is longer than one AES block (16 bytes)")
	case 10:
		// an object of several KiB whose names all need escaping; the name
		// lengths cycle so that a '#' falls on every offset modulo the scanner's
		// buffer size
		a := make(pdf.Array, 0, 700)
		for i := 0; i < 700; i++ {
			switch {
			case i%97 == 64:
				// strings deep inside a long array (they are encrypted one by one)
				a = append(a, pdf.String(fmt.Sprintf("string %d (in a long array)", i)))
			case i == 300:
				a = append(a, pdf.Dict{"K": pdf.String("string in a dictionary in a long array"), "L": pdf.Array{pdf.String("and one level deeper")}})
			default:
				a = append(a, pdf.Name("AAA"[:1+i%3]+" B"))
			}
		}
		return a
	}
	panic("bad value index")
}

// Chunks is the alphabet of stream body pieces; index 0 is the default.
var Chunks = [][]byte{
	[]byte("hello"),
	{},
	[]byte("endstream"),
	[]byte("\nendstream\nendobj\n"),
	[]byte("abc\r"),
	[]byte("abc\n"),
	bytes.Repeat([]byte("x"), 1023),
	bytes.Repeat([]byte("y1"), 513)[:1025],
}

// FilterNames names the filter alphabet.
var FilterNames = []string{"none", "Flate", "ASCII85", "ASCIIHex+Flate", "LZW", "Flate+PNGUp", "RunLength"}

func filters(i int) []pdf.Filter {
	switch i {
	case 0:
		return nil
	case 1:
		return []pdf.Filter{pdf.FilterFlate{}}
	case 2:
		return []pdf.Filter{pdf.FilterASCII85{}}
	case 3:
		return []pdf.Filter{pdf.FilterASCIIHex{}, pdf.FilterFlate{}}
	case 4:
		return []pdf.Filter{pdf.FilterLZW{}}
	case 5:
		return []pdf.Filter{pdf.FilterFlate{Predictor: pdf.FlatePredictorPNGUp, Columns: 1}}
	case 6:
		return []pdf.Filter{pdf.FilterRunLength{}}
	}
	panic("bad filter index")
}

// Env lets a caller substitute the sink (fault injection).
type Env struct {
	// WrapSink wraps the io.Writer handed to pdf.NewWriter.
	WrapSink func(w io.Writer, seekable bool) io.Writer
	// BigBodies replaces the chunk alphabet by large incompressible bodies
	// (so that the Writer's buffer is flushed several times).
	BigBodies bool
	// NoCompressed removes WriteCompressed from the alphabet.
	NoCompressed bool
	// SmallValues leaves the multi-KiB value out of the value alphabet (for the
	// checks that run once per byte of the file).
	SmallValues bool
	// NoHigh removes the high object numbers (which make the xref table long).
	NoHigh bool
	// MaxChunk, if > 0, restricts the chunk alphabet to its first MaxChunk
	// entries (the last two are the 1023/1025-byte bodies).
	MaxChunk int
	// ValueDev: if false value/filter/chunk choices are free choices; if true
	// they cost a deviation (default value otherwise).
	FreeValues bool
	// HandRefs adds, once per program, a reference made by hand (pdf.NewReference,
	// not Alloc) whose number is the Writer's next free number.
	HandRefs bool
	// FailedCallsFirst runs failedCalls (poison.go) before every program.
	FailedCallsFirst bool
	// ManyObjects adds, as first operation only, 1600 Puts of objects of irregular
	// sizes (the cross-reference data no longer fits the Writer's small-stream buffer).
	ManyObjects bool
}

type interp struct {
	c       *explore.Ctx
	cfg     Config
	env     *Env
	w       *pdf.Writer
	res     *Result
	pending []pdf.Reference
	high    int
	shared  pdf.Dict
	bigDone bool
	last    uint32 // number of the most recently allocated reference
	hand    bool   // the hand-made "next free number" reference has been used
}

// alloc is Writer.Alloc, remembering the number handed out.
func (in *interp) alloc() pdf.Reference {
	r := in.w.Alloc()
	in.last = r.Number()
	return r
}

func (in *interp) numValues() int {
	if in.env != nil && in.env.SmallValues {
		return NumValues - 1
	}
	return NumValues
}

func (in *interp) pick(n int, label string) int {
	if in.env != nil && in.env.FreeValues {
		return in.c.Choose(n, label)
	}
	return in.c.Deviate(n, label)
}

func (in *interp) arg(what string, o pdf.Object) pdf.Object {
	in.res.Args = append(in.res.Args, Arg{What: what, Live: o, Before: hx.Clone(o)})
	return o
}

// chooseRef picks the reference an operation writes to: a fresh one, one of
// the pending (allocated, unwritten) ones, or (allowHigh) a fresh high number
// with generation 0 or 3.
func (in *interp) chooseRef(allowHigh bool) (pdf.Reference, string) {
	n := 1 + len(in.pending)
	high := allowHigh && in.high < 2 && !(in.env != nil && in.env.NoHigh)
	if high {
		n += 3
	}
	// a reference made by hand (not through Alloc) whose number is the Writer's next free number
	hand := allowHigh && !in.hand && in.last > 0 && in.env != nil && in.env.HandRefs
	if hand {
		n++
	}
	k := in.c.Choose(n, "ref")
	if hand && k == n-1 {
		in.hand = true
		r := pdf.NewReference(in.last+1, 0)
		in.last++
		return r, "hand-made-next-free"
	}
	switch {
	case k == 0:
		return in.alloc(), "fresh"
	case k <= len(in.pending):
		r := in.pending[k-1]
		in.pending = append(in.pending[:k-1:k-1], in.pending[k:]...)
		return r, fmt.Sprintf("pending%d", k-1)
	default:
		g := []uint16{0, 3, 65535}[k-len(in.pending)-1]
		in.high++
		return pdf.NewReference(uint32(300+50*in.high), g), fmt.Sprintf("high-gen%d", g)
	}
}

func (in *interp) fail(err error, where string) {
	in.res.Accepted = false
	in.res.Reject = where + ": " + err.Error()
	in.res.WriteErr = err
}

func (in *interp) chunk() []byte {
	nc := len(Chunks)
	if in.env != nil && in.env.MaxChunk > 0 && in.env.MaxChunk < nc {
		nc = in.env.MaxChunk
	}
	k := in.pick(nc, "chunk")
	if in.env != nil && in.env.BigBodies {
		// incompressible, 3000*(k+1) bytes, no line-initial object headers
		n := 3000 * (k + 1)
		b := make([]byte, n)
		x := uint32(12345 + k)
		for i := range b {
			x = x*1664525 + 1013904223
			b[i] = byte(x>>24) | 0x80
		}
		return b
	}
	return Chunks[k]
}

// Exec interprets one program of at most maxOps operations.
func Exec(cfg Config, c *explore.Ctx, maxOps int, env *Env) (res *Result) {
	res = &Result{Cfg: cfg, Accepted: true,
		Objs: map[pdf.Reference]pdf.Object{}, Streams: map[pdf.Reference]*StreamModel{}, InObjStm: map[pdf.Reference]bool{}}
	var sink Sink
	var out io.Writer
	if cfg.Seekable {
		s := &seekSink{}
		sink, out = s, s
	} else {
		s := &plainSink{}
		sink, out = s, onlyWriter{s}
	}
	if env != nil && env.WrapSink != nil {
		out = env.WrapSink(out, cfg.Seekable)
	}
	id := [][]byte{[]byte("0123456789abcdef"), []byte("fedcba9876543210")}
	opt := &pdf.WriterOptions{HumanReadable: cfg.Human, UserPassword: cfg.User, OwnerPassword: cfg.Owner, UserPermissions: pdf.PermAll}
	if cfg.V >= pdf.V1_1 {
		opt.ID = id
		res.ID = id
	}
	defer func() {
		if p := recover(); p != nil {
			if s, ok := p.(string); ok && len(s) > 8 && s[:8] == "explore:" {
				panic(p)
			}
			res.Panic = p
			res.Accepted = false
			res.Reject = fmt.Sprint("panic: ", p)
		}
	}()
	if env != nil && env.FailedCallsFirst {
		failedCalls(cfg.V)
	}
	w, err := pdf.NewWriter(out, cfg.V, opt)
	if err != nil {
		res.Accepted = false
		res.Reject = "NewWriter: " + err.Error()
		res.WriteErr = err
		return res
	}
	in := &interp{c: c, cfg: cfg, env: env, w: w, res: res}

	// prelude: a one-page page tree so that NewReader accepts the file
	res.Pages = w.Alloc()
	res.Page = w.Alloc()
	in.last = res.Page.Number()
	pagesDict := pdf.Dict{"Type": pdf.Name("Pages"), "Kids": pdf.Array{res.Page}, "Count": pdf.Integer(1)}
	pageDict := pdf.Dict{"Type": pdf.Name("Page"), "Parent": res.Pages, "MediaBox": pdf.Array{pdf.Integer(0), pdf.Integer(0), pdf.Integer(100), pdf.Integer(100)}}
	if err := w.Put(res.Pages, pagesDict); err != nil {
		in.fail(err, "prelude")
		return res
	}
	res.Objs[res.Pages] = hx.Clone(pagesDict)
	w.GetMeta().Catalog.Pages = res.Pages
	res.Title = "Title (with) parens"
	w.GetMeta().Info.Title = pdf.TextString(res.Title)
	res.Catalog, res.Info = applyMeta(w, cfg.Meta, cfg.V)

	put := func(ref pdf.Reference, v pdf.Object, what string) bool {
		in.arg(what, v)
		if err := w.Put(ref, v); err != nil {
			in.fail(err, what)
			return false
		}
		res.Objs[ref] = hx.Clone(v)
		return true
	}

	nOps := 0
	for nOps < maxOps && res.Accepted {
		kinds := []string{"end", "alloc", "put", "stream", "putstream"}
		if env == nil || !env.NoCompressed {
			kinds = append(kinds, "wc1", "wc2")
			if nOps == 0 {
				// the big object stream is offered as first operation only
				kinds = append(kinds, "wcbig")
			}
		}
		if env != nil && env.ManyObjects && nOps == 0 {
			kinds = append(kinds, "putmany")
		}
		k := in.c.Choose(len(kinds), "op")
		kind := kinds[k]
		if kind == "end" {
			break
		}
		nOps++
		switch kind {
		case "alloc":
			if len(in.pending) >= 2 {
				res.Accepted = false
				res.Reject = "alphabet: more than two pending references"
				return res
			}
			r := in.alloc()
			in.pending = append(in.pending, r)
			res.Ops = append(res.Ops, fmt.Sprintf("Alloc->%v", r))
		case "put":
			ref, how := in.chooseRef(true)
			vi := in.pick(in.numValues(), "value")
			res.Ops = append(res.Ops, fmt.Sprintf("Put(%v[%s], v%d)", ref, how, vi))
			if !put(ref, in.value(vi, ref), "Put value") {
				return res
			}
		case "wc1", "wc2":
			n := 1
			if kind == "wc2" {
				n = 2
			}
			refs := make([]pdf.Reference, n)
			vals := make([]pdf.Object, n)
			desc := ""
			for i := range refs {
				var how string
				refs[i], how = in.chooseRef(false)
				vi := in.pick(in.numValues(), "value")
				vals[i] = in.value(vi, refs[i])
				in.arg("WriteCompressed value", vals[i])
				desc += fmt.Sprintf(" %v[%s]=v%d", refs[i], how, vi)
			}
			res.Ops = append(res.Ops, "WriteCompressed("+desc+" )")
			if err := w.WriteCompressed(refs, vals...); err != nil {
				in.fail(err, "WriteCompressed")
				return res
			}
			for i := range refs {
				res.Objs[refs[i]] = hx.Clone(vals[i])
				res.InObjStm[refs[i]] = true
			}
		case "putmany":
			const n = 1600
			res.Ops = append(res.Ops, fmt.Sprintf("Put x %d (objects of irregular sizes)", n))
			for i := 0; i < n; i++ {
				r := in.alloc()
				var v pdf.Object
				switch i % 3 {
				case 0:
					v = pdf.Integer(int64(i) * int64(i) * 7919)
				case 1:
					v = pdf.String(bytes.Repeat([]byte{'x'}, (i*i)%41))
				default:
					v = pdf.Array{pdf.Integer(i), pdf.Name(fmt.Sprintf("N%d", i*i%1013))}
				}
				if err := w.Put(r, v); err != nil {
					in.fail(err, "Put (many)")
					return res
				}
				res.Objs[r] = v
			}
		case "wcbig":
			// one object stream with more members than one byte can index
			in.bigDone = true
			const n = 300
			refs := make([]pdf.Reference, n)
			vals := make([]pdf.Object, n)
			for i := range refs {
				refs[i] = in.alloc()
				vals[i] = pdf.Integer(1000 + i)
			}
			res.Ops = append(res.Ops, fmt.Sprintf("WriteCompressed(%d objects %v..%v)", n, refs[0], refs[n-1]))
			if err := w.WriteCompressed(refs, vals...); err != nil {
				in.fail(err, "WriteCompressed")
				return res
			}
			for i := range refs {
				res.Objs[refs[i]] = vals[i]
				res.InObjStm[refs[i]] = true
			}
		case "putstream":
			ref, how := in.chooseRef(true)
			data := append([]byte{}, in.chunk()...)
			d := pdf.Dict{"K": pdf.String("sd(key")}
			stm := pdf.NewStream(d, data)
			res.Ops = append(res.Ops, fmt.Sprintf("Put(%v[%s], Stream %d bytes)", ref, how, len(data)))
			if err := w.Put(ref, stm); err != nil {
				in.fail(err, "Put stream")
				return res
			}
			res.Streams[ref] = &StreamModel{Dict: pdf.Dict{"K": pdf.String("sd(key")}, Data: data}
		case "stream":
			ref, how := in.chooseRef(true)
			fi := in.pick(len(FilterNames), "filter")
			d := pdf.Dict{"K": pdf.String("sd(key"), "Sub": pdf.Dict{"T": pdf.String("nested")}}
			// optional caller-supplied /Length: 0 none, 1 correct (only where the
			// raw length is predictable), 2 wrong
			lenMode := 0
			predictable := fi == 0 && (!cfg.Encrypted() || cfg.Cipher() == "RC4-40" || cfg.Cipher() == "RC4-128")
			if predictable {
				lenMode = in.pick(3, "length")
			}
			nChunks := in.c.Choose(3, "nchunks") // 1, 2 or 0 writes
			var parts [][]byte
			switch nChunks {
			case 0:
				parts = [][]byte{in.chunk()}
			case 1:
				parts = [][]byte{in.chunk(), in.chunk()}
			case 2:
				parts = nil
			}
			total := 0
			for _, p := range parts {
				total += len(p)
			}
			switch lenMode {
			case 1:
				d["Length"] = pdf.Integer(total)
			case 2:
				d["Length"] = pdf.Integer(total + 1)
			}
			// a Put issued while the stream is open is deferred by the Writer
			// 0: nothing, 1: Put of a plain value, 2: Put of a small stream object,
			// 3: Put of a stream object larger than the Writer's 1024-byte threshold
			putInsideKind := in.c.Choose(4, "put-inside")
			putInside := putInsideKind != 0
			deferred := 0
			putDeferred := func() bool {
				r2 := in.alloc()
				deferred++
				if putInsideKind >= 2 {
					data := []byte("deferred stream body")
					if putInsideKind == 3 {
						data = bytes.Repeat([]byte("deferred stream body of more than 1024 bytes. "), 40)
					}
					if err := w.Put(r2, pdf.NewStream(pdf.Dict{"K": pdf.String("deferred(")}, data)); err != nil {
						in.fail(err, "Put stream while stream open")
						return false
					}
					res.Streams[r2] = &StreamModel{Dict: pdf.Dict{"K": pdf.String("deferred(")}, Data: data}
					return true
				}
				vi := in.pick(in.numValues(), "value")
				return put(r2, in.value(vi, r2), "Put while stream open")
			}
			res.Ops = append(res.Ops, fmt.Sprintf("OpenStream(%v[%s], filter=%s, length-mode=%d, %d writes of %d bytes, put-inside=%d)", ref, how, FilterNames[fi], lenMode, len(parts), total, putInsideKind))
			in.arg("OpenStream dict", d)
			ws, err := w.OpenStream(ref, d, filters(fi)...)
			if err != nil {
				in.fail(err, "OpenStream")
				return res
			}
			var all []byte
			for i, p := range parts {
				// the Writer gets its own copy; the copy must come back unchanged
				buf := append([]byte{}, p...)
				if _, err := ws.Write(buf); err != nil {
					in.fail(err, "stream Write")
					return res
				}
				if !bytes.Equal(buf, p) {
					res.Args = append(res.Args, Arg{What: "stream Write data", Live: pdf.String(buf), Before: pdf.String(append([]byte{}, p...))})
				}
				all = append(all, p...)
				if putInside && i == 0 {
					if !putDeferred() {
						return res
					}
				}
			}
			if putInside && len(parts) == 0 {
				if !putDeferred() {
					return res
				}
			}
			if err := ws.Close(); err != nil {
				if deferred > 0 && lenMode != 2 {
					res.DeferredReject = err.Error()
				}
				in.fail(err, "stream Close")
				return res
			}
			md := pdf.Dict{"K": pdf.String("sd(key"), "Sub": pdf.Dict{"T": pdf.String("nested")}}
			res.Streams[ref] = &StreamModel{Dict: md, Data: all, Filters: []string{FilterNames[fi]}}
		}
	}
	res.NumOps = nOps

	// postlude
	if !put(res.Page, pageDict, "postlude page") {
		return res
	}
	res.Unwritten = append([]pdf.Reference{}, in.pending...)
	if err := w.Close(); err != nil {
		in.fail(err, "Close")
		return res
	}
	res.Bytes = sink.Bytes()
	return res
}

// Configs returns the configuration matrix.
func Configs(versions []pdf.Version, humans, seekables []bool, pws [][2]string) []Config {
	var out []Config
	for _, v := range versions {
		for _, h := range humans {
			for _, s := range seekables {
				for _, pw := range pws {
					if (pw[0] != "" || pw[1] != "") && v == pdf.V1_0 {
						continue
					}
					out = append(out, Config{V: v, Human: h, Seekable: s, User: pw[0], Owner: pw[1]})
				}
			}
		}
	}
	return out
}

// AllVersions lists the nine versions.
var AllVersions = []pdf.Version{pdf.V1_0, pdf.V1_1, pdf.V1_2, pdf.V1_3, pdf.V1_4, pdf.V1_5, pdf.V1_6, pdf.V1_7, pdf.V2_0}

// Plan is one exploration: all programs of at most MaxOps operations under
// Cfg with at most DevBound departures from the default value/filter/chunk.
type Plan struct {
	Cfg      Config
	MaxOps   int
	DevBound int
}

// Item is a unit of parallel work: a plan and a choice prefix.
type Item struct {
	Plan   Plan
	Prefix []int
}

// Items splits the plans into prefixes for parallel exploration.
func Items(plans []Plan, env *Env, depth int) []Item {
	var out []Item
	for _, pl := range plans {
		e := &explore.Explorer{Bound: pl.DevBound}
		pl := pl
		for _, pre := range e.Prefixes(depth, func(c *explore.Ctx) { Exec(pl.Cfg, c, pl.MaxOps, env) }) {
			out = append(out, Item{Plan: pl, Prefix: pre})
		}
	}
	return out
}

// ExploreItem runs every program below the item's prefix.
func ExploreItem(it Item, env *Env, stop func() bool, judge func(res *Result, choices []int)) explore.Stats {
	e := &explore.Explorer{Bound: it.Plan.DevBound, Stop: stop}
	var last *Result
	e.After = func(c *explore.Ctx) { judge(last, c.Choices) }
	return e.Explore(it.Prefix, func(c *explore.Ctx) { last = Exec(it.Plan.Cfg, c, it.Plan.MaxOps, env) })
}

// Case identifies one program for replay.
type Case struct {
	Cfg     Config   `json:"config"`
	MaxOps  int      `json:"max_ops"`
	Choices []int    `json:"choices"`
	Ops     []string `json:"ops"`
	Extra   any      `json:"extra,omitempty"`
}

// Replay re-executes a recorded program.
func Replay(cs Case, env *Env) *Result {
	var res *Result
	explore.Run(cs.Choices, false, func(c *explore.Ctx) { res = Exec(cs.Cfg, c, cs.MaxOps, env) })
	return res
}
