//go:build verif

package wprog

import (
	"bytes"
	"io"

	"seehuhn.de/go/pdf"
)

// failedCalls runs, on throw-away Writers, a fixed set of calls that the
// Writer refuses half-way (all errors are ignored).  A Writer is an
// independent object: whatever another Writer did before, and however it
// failed, must not show in the file written next.  Running this before every
// program puts package-level state that survives a failed call (pooled
// buffers, caches) inside the explored space, deterministically.
func failedCalls(v pdf.Version) {
	defer func() { recover() }()
	mk := func() *pdf.Writer {
		w, err := pdf.NewWriter(onlyWriter{io.Discard}, v, nil)
		if err != nil {
			return nil
		}
		return w
	}
	nested := func() pdf.Object {
		return pdf.Array{pdf.Integer(7), pdf.NewStream(pdf.Dict{"Nested": pdf.Boolean(true)}, []byte("nested stream"))}
	}
	// an object stream whose second member cannot be formatted
	if w := mk(); w != nil {
		r1, r2, r3 := w.Alloc(), w.Alloc(), w.Alloc()
		w.WriteCompressed([]pdf.Reference{r1, r2, r3}, pdf.Dict{"Poison": pdf.Name("first member")}, nested(), pdf.String("third member"))
	}
	// a direct object that cannot be formatted
	if w := mk(); w != nil {
		w.Put(w.Alloc(), pdf.Dict{"A": pdf.String("before the failure"), "Z": nested()})
	}
	// a stream whose declared /Length is wrong, and one that is never closed
	if w := mk(); w != nil {
		if s, err := w.OpenStream(w.Alloc(), pdf.Dict{"Length": pdf.Integer(5)}); err == nil {
			s.Write([]byte("not five bytes"))
			s.Close()
		}
	}
	if w := mk(); w != nil {
		if s, err := w.OpenStream(w.Alloc(), pdf.Dict{}, pdf.FilterFlate{}); err == nil {
			s.Write(bytes.Repeat([]byte("abandoned "), 200))
		}
		w.Close()
	}
}
