//go:build verif

// Package c02 decides C02: what the Writer wrote is what the Reader returns,
// and writing never modifies the caller's objects.
package c02

import (
	"bytes"
	"fmt"
	"io"
	"sort"
	"strings"
	"time"

	"seehuhn.de/go/pdf"
	"seehuhn.de/go/pdf/zzverif/checks/hx"
	"seehuhn.de/go/pdf/zzverif/checks/wprog"
	"seehuhn.de/go/pdf/zzverif/engine/ev"
)

type failure struct{ fp, what string }

func kind(o pdf.Object) string {
	if o == nil {
		return "null"
	}
	return strings.TrimPrefix(fmt.Sprintf("%T", o), "pdf.")
}

// Judge compares the Reader's view of the written bytes with the model.
func Judge(res *wprog.Result, mode pdf.ReaderErrorHandling) *failure {
	cfg := res.Cfg
	// argument immutability first: it does not need the file
	for _, a := range res.Args {
		if !hx.Identical(a.Live, a.Before) {
			return &failure{"argument-modified:" + a.What + ":" + cfg.Cipher() + ":" + kind(a.Before),
				fmt.Sprintf("%s was modified by the Writer: before %s, after %s", a.What, hx.Show(a.Before), hx.Show(a.Live))}
		}
	}
	pws := []string{cfg.User}
	if cfg.Owner != "" && cfg.Owner != cfg.User {
		pws = append(pws, cfg.Owner)
	}
	for _, pw := range pws {
		if f := judgeWith(res, mode, pw); f != nil {
			return f
		}
	}
	return nil
}

func judgeWith(res *wprog.Result, mode pdf.ReaderErrorHandling, pw string) *failure {
	cfg := res.Cfg
	r, err := pdf.NewReader(bytes.NewReader(res.Bytes), int64(len(res.Bytes)), &pdf.ReaderOptions{Password: pw, ErrorHandling: mode})
	if err != nil {
		return &failure{"open-error", fmt.Sprintf("NewReader (mode %d, password %q) fails on the written file: %v", mode, pw, err)}
	}
	if mode == pdf.ErrorHandlingReport && len(r.Errors) > 0 {
		return &failure{"open-reports-errors", fmt.Sprintf("NewReader reports %v on the written file", r.Errors)}
	}
	refs := make([]pdf.Reference, 0, len(res.Objs))
	for ref := range res.Objs {
		refs = append(refs, ref)
	}
	sort.Slice(refs, func(i, j int) bool { return refs[i] < refs[j] })
	for _, ref := range refs {
		want := res.Objs[ref]
		got, err := r.Get(ref, true)
		if err != nil {
			return &failure{"get-error:" + kind(want), fmt.Sprintf("Get(%v) = error %v, want %s", ref, err, hx.Show(want))}
		}
		if !hx.Equal(got, want) {
			where := "direct"
			if res.InObjStm[ref] && cfg.V >= pdf.V1_5 && !cfg.Human {
				where = "objstm"
			}
			return &failure{"get-differs:" + kind(want) + ":" + where + ":" + cfg.Cipher(), fmt.Sprintf("Get(%v) = %s, want %s", ref, hx.Show(got), hx.Show(want))}
		}
		if ref.Generation() != 0 {
			other := pdf.NewReference(ref.Number(), 0)
			got, err := r.Get(other, true)
			if err != nil || got != nil {
				return &failure{"never-written-generation-not-null", fmt.Sprintf("Get(%v) = %s, %v; only %v was written", other, hx.Show(got), err, ref)}
			}
		}
	}
	srefs := make([]pdf.Reference, 0, len(res.Streams))
	for ref := range res.Streams {
		srefs = append(srefs, ref)
	}
	sort.Slice(srefs, func(i, j int) bool { return srefs[i] < srefs[j] })
	for _, ref := range srefs {
		want := res.Streams[ref]
		fl := strings.Join(want.Filters, "+")
		got, err := r.Get(ref, true)
		if err != nil {
			return &failure{"get-error:stream", fmt.Sprintf("Get(%v) = error %v, want a stream", ref, err)}
		}
		stm, ok := got.(*pdf.Stream)
		if !ok {
			return &failure{"get-differs:stream", fmt.Sprintf("Get(%v) = %s, want a stream", ref, hx.Show(got))}
		}
		d := pdf.Dict{}
		for k, v := range stm.Dict {
			if k == "Length" || k == "Filter" || k == "DecodeParms" {
				continue
			}
			d[k] = v
		}
		if !hx.Equal(d, want.Dict) {
			return &failure{"stream-dict-differs:" + cfg.Cipher(), fmt.Sprintf("stream %v dictionary = %s, want %s", ref, hx.Show(d), hx.Show(want.Dict))}
		}
		rd, err := pdf.DecodeStream(r, nil, stm)
		if err != nil {
			return &failure{"decode-error:" + fl, fmt.Sprintf("DecodeStream(%v): %v", ref, err)}
		}
		data, err := io.ReadAll(rd)
		rd.Close()
		if err != nil {
			return &failure{"decode-error:" + fl, fmt.Sprintf("reading stream %v: %v", ref, err)}
		}
		if !bytes.Equal(data, want.Data) {
			return &failure{"stream-data-differs:" + fl + ":" + cfg.Cipher(), fmt.Sprintf("stream %v decodes to %d bytes %q, want %d bytes %q", ref, len(data), clip(data), len(want.Data), clip(want.Data))}
		}
	}
	for _, ref := range res.Unwritten {
		got, err := r.Get(ref, true)
		if err != nil || got != nil {
			return &failure{"unwritten-not-null", fmt.Sprintf("Get(%v) of an allocated, never written reference = %s, %v", ref, hx.Show(got), err)}
		}
	}
	m := r.GetMeta()
	if m.Version != cfg.V {
		return &failure{"meta-version", fmt.Sprintf("version read %v, written %v", m.Version, cfg.V)}
	}
	if res.ID != nil {
		if len(m.ID) != 2 || !bytes.Equal(m.ID[0], res.ID[0]) || !bytes.Equal(m.ID[1], res.ID[1]) {
			return &failure{"meta-id", fmt.Sprintf("ID read %q, written %q", m.ID, res.ID)}
		}
	}
	if m.Info == nil || string(m.Info.Title) != res.Title {
		return &failure{"meta-info", fmt.Sprintf("Info read %+v, written title %q", m.Info, res.Title)}
	}
	if m.Catalog == nil || m.Catalog.Pages != res.Pages {
		return &failure{"meta-catalog", fmt.Sprintf("Catalog.Pages read %v, written %v", m.Catalog, res.Pages)}
	}
	if d := wprog.CompareMeta(&res.Catalog, &res.Info, m.Catalog, m.Info); d != "" {
		return &failure{"meta-roundtrip:" + strings.SplitN(d, " read ", 2)[0], d}
	}
	return nil
}

func clip(b []byte) []byte {
	if len(b) > 60 {
		return b[:60]
	}
	return b
}

func rejectClass(s string) string {
	if i := strings.Index(s, ":"); i > 0 {
		rest := s[i+1:]
		if len(rest) > 50 {
			rest = rest[:50]
		}
		return s[:i] + ":" + rest
	}
	return s
}

// Plans returns the explorations of a tier.
func Plans(thorough bool) []wprog.Plan {
	pwNone := [][2]string{{"", ""}}
	pwAll := [][2]string{{"", ""}, {"u", ""}, {"", "o"}, {"u", "o"}}
	tf := []bool{false, true}
	var plans []wprog.Plan
	add := func(cfgs []wprog.Config, maxOps, dev int) {
		for _, c := range cfgs {
			ops, d := maxOps, dev
			if c.Cipher() == "AES-256" { // 8 ms per file (R6 hash)
				ops, d = min(ops, 2), min(d, 1)
			}
			plans = append(plans, wprog.Plan{Cfg: c, MaxOps: ops, DevBound: d})
		}
	}
	rep := []pdf.Version{pdf.V1_1, pdf.V1_4, pdf.V1_7, pdf.V2_0}
	encRep := []wprog.Config{}
	for _, v := range []pdf.Version{pdf.V1_1, pdf.V1_4, pdf.V1_6, pdf.V2_0} {
		for _, s := range tf {
			encRep = append(encRep, wprog.Config{V: v, Seekable: s, User: "u", Owner: "o"})
		}
	}
	long := wprog.Configs([]pdf.Version{pdf.V1_4, pdf.V1_7}, []bool{false}, tf, pwNone)
	rep4 := wprog.Configs(rep, []bool{false}, []bool{true}, pwNone)
	// Catalog and Info profiles (wprog/meta.go): every version, plain and encrypted, programs of <= 1 operation
	for _, mp := range []int{1, 2} {
		for _, v := range wprog.AllVersions {
			for _, pw := range [][2]string{{"", ""}, {"u", "o"}} {
				plans = append(plans, wprog.Plan{Cfg: wprog.Config{V: v, Seekable: mp == 1, User: pw[0], Owner: pw[1], Meta: mp}, MaxOps: 1, DevBound: 0})
			}
		}
	}
	if !thorough {
		// the whole configuration matrix, one operation, one non-default choice
		add(wprog.Configs(wprog.AllVersions, tf, tf, pwAll), 1, 1)
		// representative configurations, longer programs
		add([]wprog.Config{{V: pdf.V1_7, Seekable: false}, {V: pdf.V1_4, Seekable: true, User: "u", Owner: "o"}}, 2, 1)
		add(rep4, 2, 0)
		add([]wprog.Config{{V: pdf.V1_5, Human: true, Seekable: false}, {V: pdf.V1_3, Human: true, Seekable: true}}, 2, 0)
		add(encRep, 2, 0)
	} else {
		add(wprog.Configs(wprog.AllVersions, tf, tf, pwAll), 2, 1)
		add(rep4, 3, 1)
		add(wprog.Configs(rep, tf, tf, pwNone), 2, 2)
		add(encRep, 2, 2)
		add(encRep, 3, 0)
		add(long, 4, 0)
	}
	return plans
}

// RunPlans is shared with C03: it explores the plans and calls judge on every
// accepted program.
func RunPlans(r *ev.Run, plans []wprog.Plan, env *wprog.Env, judge func(res *wprog.Result, choices []int)) {
	items := wprog.Items(plans, env, 3)
	r.Dim("plans", len(plans))
	r.Dim("work_items", len(items))
	r.Par(len(items), func(i int) {
		it := items[i]
		st := wprog.ExploreItem(it, env, r.Expired, func(res *wprog.Result, choices []int) {
			r.Eval(1)
			r.Trace(1)
			r.Count(fmt.Sprintf("programs_ops<=%d_dev<=%d", it.Plan.MaxOps, it.Plan.DevBound), 1)
			if res.DeferredReject != "" {
				r.Violation("deferred-put-fails-at-stream-close", fmt.Sprintf("a Put issued while a stream was open was accepted (returned nil), but the Close of that stream then fails with %q (%s)", res.DeferredReject, strings.Join(res.Ops, "; ")), wprog.Case{Cfg: res.Cfg, MaxOps: it.Plan.MaxOps, Choices: append([]int{}, choices...), Ops: res.Ops})
				return
			}
			if !res.Accepted {
				if res.Panic != nil {
					r.Violation("writer-panic", fmt.Sprintf("the Writer panics: %v (%s)", res.Panic, strings.Join(res.Ops, "; ")), wprog.Case{Cfg: res.Cfg, MaxOps: it.Plan.MaxOps, Choices: append([]int{}, choices...), Ops: res.Ops})
					return
				}
				r.Outcome("not-accepted:" + rejectClass(res.Reject))
				return
			}
			judge(res, choices)
		})
		r.Trans(st.Executions)
	})
}

// Run is the check.
func Run(tier string) int {
	budget := 4 * time.Minute
	if tier == "thorough" {
		budget = 25 * time.Minute
	}
	r := ev.New("C02", tier, "model_checking", budget)
	r.Rule("a case is a write program (sequence of Alloc/Put/WriteCompressed/OpenStream+Write+Close/Put-in-stream/Put-stream operations with references, values, filters and chunk bodies from small alphabets) under one writer configuration; all programs up to max_ops operations with at most dev_bound non-default value/filter/chunk choices are executed on the real Writer, reopened with the real Reader and compared with a map model; distinct = distinct (configuration, operation list) pairs with at least one operation")
	r.Assume("alphabets of wprog (10 values, 8 chunk bodies, 7 filter chains, <=2 pending references, high object numbers 301/302)", "the model is a Go map; equality is the normalising harness equality")
	plans := Plans(r.Thorough())
	var planDesc []string
	seen := map[string]bool{}
	for _, p := range plans {
		d := fmt.Sprintf("ops<=%d dev<=%d cipher=%s", p.MaxOps, p.DevBound, p.Cfg.Cipher())
		if !seen[d] {
			seen[d] = true
			planDesc = append(planDesc, d)
		}
	}
	sort.Strings(planDesc)
	r.Dim("plan_kinds", planDesc)
	modes := []pdf.ReaderErrorHandling{pdf.ErrorHandlingStop}
	if r.Thorough() {
		modes = append(modes, pdf.ErrorHandlingRecover, pdf.ErrorHandlingReport)
	}
	RunPlans(r, plans, &wprog.Env{HandRefs: true, FailedCallsFirst: true, ManyObjects: true}, func(res *wprog.Result, choices []int) {
		cs := wprog.Case{Cfg: res.Cfg, MaxOps: 99, Choices: append([]int{}, choices...), Ops: res.Ops}
		if res.NumOps > 0 {
			r.DistinctS(res.Cfg.String() + strings.Join(res.Ops, ";"))
		}
		r.State(1)
		for _, mode := range modes {
			if f := Judge(res, mode); f != nil {
				r.Outcome("fail:" + f.fp)
				r.Violation(f.fp, f.what+" ["+res.Cfg.String()+"; "+strings.Join(res.Ops, "; ")+"]", cs)
				return
			}
		}
		r.Outcome(fmt.Sprintf("ok:ops=%d:%s", res.NumOps, res.Cfg.Cipher()))
		if r.WantSample() && res.NumOps >= 2 {
			r.Sample(cs)
		}
	})
	return r.Finish()
}

// Replay re-executes a recorded program.
func Replay(path string) int {
	var cs wprog.Case
	if err := ev.ReplayCase(path, &cs); err != nil {
		fmt.Println("replay:", err)
		return 2
	}
	r := ev.New("C02", "quick", "model_checking", time.Minute)
	r.SetReplayMode()
	res := wprog.Replay(cs, &wprog.Env{HandRefs: true, FailedCallsFirst: true, ManyObjects: true})
	fmt.Println("program:", strings.Join(res.Ops, "; "), "accepted:", res.Accepted, res.Reject)
	if res.Accepted {
		for _, mode := range []pdf.ReaderErrorHandling{pdf.ErrorHandlingStop, pdf.ErrorHandlingRecover, pdf.ErrorHandlingReport} {
			if f := Judge(res, mode); f != nil {
				r.Violation(f.fp, f.what, cs)
				break
			}
		}
	}
	return r.Finish()
}
