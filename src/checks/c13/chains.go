//go:build verif

package c13

import (
	"fmt"
	"sort"
	"strings"

	"seehuhn.de/go/postscript/cid"

	"seehuhn.de/go/pdf/font"
	"seehuhn.de/go/pdf/font/charcode"
	"seehuhn.de/go/pdf/font/cmap"
	"seehuhn.de/go/pdf/zzverif/engine/ev"
)

// Parent (usecmap) chains whose files declare DIFFERENT code spaces.
//
// Everywhere else in this check every file of a chain has the code space of the
// child, and enumeration is done with that one codec.  Here every file of a
// chain is given its own code space from a small menu (including "declares
// none"), its entries lie inside its own code space, and code -> CID chains are
// enumerated with the chain's own codec, File.Codec(), as the callers of the
// library do (cidenc.NewFromCMap).  The code space of a chain is the union of
// the code spaces its files declare; the family is every assignment of a menu
// entry to every file of a chain of length 2 (thorough: and 3), times the
// complete product of maps on a window of codes per file.
//
// The oracle is the one of the rest of the check: the reference is "parent
// overlaid by child" on the Go maps the files were built from; lookups give
// the mapped value / notdef / absent for every window code of every file and
// for the probes around them; All(codec of the chain) collected (last wins)
// is that overlaid map (for CIDs "0" and "not enumerated" are the same
// answer); enumeration and lookup agree; the same after Embed -> Extract, with
// the code space of every file, the chain length, the writing mode and the
// behaviour of every file on its own unchanged, and the chain's codec
// accepting the same codes as before.
//
// A union that is not prefix-free (a code of one file is a proper prefix of a
// code of another file) is no code space: File.Codec() may refuse it, and only
// the lookups (which need no codec) are judged.  ToUnicodeFile has no method
// that returns the codec of a chain; code -> text chains are enumerated with
// charcode.NewCodec(union), and GetMapping (which decodes with the child's own
// code space only) is not judged here.

type chainSpace struct {
	key  string // the letter used in cases and replay files
	name string
	kind string
	rngs []rng    // nil: the file declares no code space
	win  []string // the codes a file with this code space may map

	codec *charcode.Codec
	sp    *space // for enumerating one file on its own
}

// chainMenu is the menu of code spaces.  New entries are only ever appended
// (replay files store the keys).
func buildChainMenu() ([]*chainSpace, error) {
	menu := []*chainSpace{
		{key: "-", name: "none", kind: "none"},
		{key: "a", name: "<00>-<7F>", kind: "1byte", rngs: []rng{{"\x00", "\x7f"}},
			win: []string{"\x30", "\x41", "\x42", "\x70"}},
		{key: "b", name: "<20>-<5F>", kind: "1byte", rngs: []rng{{"\x20", "\x5f"}},
			win: []string{"\x30", "\x41", "\x42"}},
		{key: "c", name: "<60>-<7F>", kind: "1byte", rngs: []rng{{"\x60", "\x7f"}},
			win: []string{"\x6f", "\x70", "\x71"}},
		{key: "d", name: "<8000>-<9FFF>", kind: "2byte", rngs: []rng{{"\x80\x00", "\x9f\xff"}},
			win: []string{"\x80\x41", "\x80\x42", "\x91\x41"}},
		{key: "e", name: "<9000>-<BFFF>", kind: "2byte", rngs: []rng{{"\x90\x00", "\xbf\xff"}},
			win: []string{"\x91\x41", "\x91\x42", "\xb0\x41"}},
		{key: "f", name: "<00>-<7F> <8000>-<FFFF>", kind: "mixed12", rngs: []rng{{"\x00", "\x7f"}, {"\x80\x00", "\xff\xff"}},
			win: []string{"\x41", "\x42", "\x80\x41", "\x91\x41"}},
		{key: "g", name: "<E00000>-<E0FFFF>", kind: "3byte", rngs: []rng{{"\xe0\x00\x00", "\xe0\xff\xff"}},
			win: []string{"\xe0\x00\x41", "\xe0\x00\x42"}},
	}
	for _, m := range menu {
		if m.rngs == nil {
			continue
		}
		c, err := charcode.NewCodec(toCSR(m.rngs))
		if err != nil {
			return nil, fmt.Errorf("NewCodec(%s): %v", m.name, err)
		}
		m.codec = c
		m.sp = &space{name: m.name, kind: m.kind, rngs: m.rngs, codec: c}
		for _, c := range m.win {
			if !inSpace(m.rngs, c) {
				return nil, fmt.Errorf("chain menu %s: <%s> not in the space", m.name, hx(c))
			}
		}
	}
	return menu, nil
}

// forReps calls fn for every byte string of length 1..maxLen built from the
// partition that the bounds of all given ranges induce on every byte position
// (as sameCodeSpaceSlow does): every cell of the partition has a
// representative, so a set relation between unions of ranges that holds on the
// representatives holds on all byte strings.
func forReps(all []rng, fn func(s string)) {
	maxLen := 0
	var reps [4][]byte
	for pos := 0; pos < 4; pos++ {
		set := map[int]bool{0: true, 255: true}
		for _, r := range all {
			if len(r.lo) > maxLen {
				maxLen = len(r.lo)
			}
			if pos < len(r.lo) {
				for _, v := range []int{int(r.lo[pos]), int(r.hi[pos])} {
					for d := -1; d <= 1; d++ {
						if v+d >= 0 && v+d <= 255 {
							set[v+d] = true
						}
					}
				}
			}
		}
		for v := range set {
			reps[pos] = append(reps[pos], byte(v))
		}
		sort.Slice(reps[pos], func(i, j int) bool { return reps[pos][i] < reps[pos][j] })
	}
	buf := make([]byte, 0, 4)
	var rec func(pos, L int)
	rec = func(pos, L int) {
		if pos == L {
			fn(string(buf))
			return
		}
		for _, v := range reps[pos] {
			buf = append(buf, v)
			rec(pos+1, L)
			buf = buf[:len(buf)-1]
		}
	}
	for L := 1; L <= maxLen && L <= 4; L++ {
		rec(0, L)
	}
}

// prefixFree decides whether no code of the union is a proper prefix of
// another code of the union.
func prefixFree(u []rng) bool {
	ok := true
	forReps(u, func(s string) {
		if !ok || !inSpace(u, s) {
			return
		}
		for l := 1; l < len(s); l++ {
			if inSpace(u, s[:l]) {
				ok = false
			}
		}
	})
	return ok
}

// spaceRelation classifies the code spaces of a file (a) and of its parent (b).
func spaceRelation(a, b []rng) string {
	switch {
	case a == nil && b == nil:
		return "none+none"
	case a == nil:
		return "none+declared"
	case b == nil:
		return "declared+none"
	}
	u := append(append([]rng{}, a...), b...)
	if !prefixFree(u) {
		return "conflict"
	}
	var onlyA, onlyB, both bool
	forReps(u, func(s string) {
		ia, ib := inSpace(a, s), inSpace(b, s)
		switch {
		case ia && ib:
			both = true
		case ia:
			onlyA = true
		case ib:
			onlyB = true
		}
	})
	lens := func(rs []rng) string {
		var l [5]bool
		for _, r := range rs {
			l[len(r.lo)] = true
		}
		return fmt.Sprint(l)
	}
	switch {
	case !onlyA && !onlyB:
		return "equal"
	case !onlyA:
		return "inside-parent"
	case !onlyB:
		return "contains-parent"
	case both:
		return "partial-overlap"
	case lens(a) == lens(b):
		return "disjoint-same-length"
	}
	return "disjoint-other-length"
}

// the relations between a file's and its parent's code space that the menu
// must realise
var chainRelationsRequired = []string{
	"none+declared", "declared+none", "equal", "inside-parent", "contains-parent",
	"partial-overlap", "disjoint-same-length", "disjoint-other-length", "conflict",
}

// chainAsg is one assignment of code spaces to the files of a chain, child
// first, with everything the oracle needs precomputed.
type chainAsg struct {
	keys   string // e.g. "a,d"
	cs     []*chainSpace
	enc    []*chainSpace // where the window (and the codec for building) of a level comes from: cs, or for "none" the nearest declaring file (parents first)
	rel    []string      // rel[i] = relation of level i to level i+1
	union  []rng
	pfree  bool
	ucodec *charcode.Codec // charcode.NewCodec(union), nil if the union is not prefix-free
	skip   string          // non-empty: NewCodec itself disagrees with the reference on this union (property C12): not run

	codes  []string // all window codes of all levels
	probes []string
}

func (ca *chainAsg) relTag() string { return strings.Join(ca.rel, "/") }

func newChainAsg(menu map[string]*chainSpace, keys []string) *chainAsg {
	ca := &chainAsg{keys: strings.Join(keys, ",")}
	declared := false
	for _, k := range keys {
		m := menu[k]
		if m == nil {
			return nil
		}
		ca.cs = append(ca.cs, m)
		if m.rngs != nil {
			declared = true
		}
	}
	if !declared || len(keys) < 2 {
		return nil
	}
	for i, m := range ca.cs {
		e := m
		if m.rngs == nil {
			e = nil
			for j := i + 1; j < len(ca.cs) && e == nil; j++ {
				if ca.cs[j].rngs != nil {
					e = ca.cs[j]
				}
			}
			for j := i - 1; j >= 0 && e == nil; j-- {
				if ca.cs[j].rngs != nil {
					e = ca.cs[j]
				}
			}
		}
		ca.enc = append(ca.enc, e)
		ca.union = append(ca.union, m.rngs...)
	}
	for i := 0; i+1 < len(ca.cs); i++ {
		ca.rel = append(ca.rel, spaceRelation(ca.cs[i].rngs, ca.cs[i+1].rngs))
	}
	set := map[string]bool{}
	for _, e := range ca.enc {
		for _, c := range e.win {
			set[c] = true
		}
	}
	ca.codes = sortedKeys(set)
	ca.probes = probesFor(ca.codes)
	ca.pfree = prefixFree(ca.union)
	if ca.pfree {
		// The union goes through charcode.NewCodec.  Whether NewCodec is right
		// is property C12; a union on which it disagrees with the reference is
		// not used here.
		uc, err := charcode.NewCodec(toCSR(ca.union))
		if err != nil {
			ca.skip = "NewCodec refuses the union: " + err.Error()
			return ca
		}
		for _, s := range append(append([]string{}, ca.codes...), ca.probes...) {
			code, k, valid := uc.Decode([]byte(s))
			want := inSpace(ca.union, s)
			if got := valid && k == len(s); got != want {
				ca.skip = fmt.Sprintf("NewCodec(union).Decode(<%s>) valid=%v, reference says %v", hx(s), got, want)
				return ca
			}
			if want {
				if b, ok := bytesOf(ca.union, code); !ok || b != s || code != codeOf(s) {
					ca.skip = fmt.Sprintf("code <%s> of the union is not identified by its packed value %#x", hx(s), uint32(code))
					return ca
				}
			}
		}
		ca.ucodec = uc
	}
	return ca
}

// the alphabets of the family (indices into cidAlpha / tuAlpha)
var (
	chainCIDAlphaQuick    = []int{0, 1, 2, 3}    // absent, 0, 1, 2
	chainCIDAlphaThorough = []int{0, 1, 2, 3, 6} // + 2^32-1
	chainCIDSub           = []int{0, 2, 3}       // absent, 1, 2: the forms that go through a file (child)
	chainCIDSubParent     = []int{0, 3}          // absent, 2: (parent)
	chainTUAlphaQuick     = []int{0, 1, 2, 3}    // absent, empty, A, B
	chainTUAlphaThorough  = []int{0, 1, 2, 3, 5} // + AB
	chainTUSub            = []int{0, 2, 3}       // absent, A, B
	chainTUSubParent      = []int{0, 3}          // absent, B

	// chains of length 3 (thorough): child and parent over three values, the
	// grandparent takes the two maps below; through a file: child over
	// {absent, 1} / {absent, A}, parent over {absent, 2} / {absent, B}
	chainCIDAlphaTriple = []int{0, 2, 3} // absent, 1, 2
	chainTUAlphaTriple  = []int{0, 2, 3} // absent, A, B
	chainCIDSubTriple   = []int{0, 2}
	chainTUSubTriple    = []int{0, 2}

	// the maps of the grandparent (chains of length 3), cut to the length of
	// its window
	chainCIDGrand = [][]int{{2, 3, 4, 5}, {3, 0, 3, 0}} // 1,2,3,100 (a range) | 2, absent, 2, absent
	chainTUGrand  = [][]int{{2, 3, 4, 5}, {3, 0, 3, 0}} // A,B,C,AB | B, absent, B, absent
)

func chainCIDMaps(ca *chainAsg, chain [][]int) ([]map[string]uint32, bool) {
	if len(chain) != len(ca.enc) {
		return nil, false
	}
	out := make([]map[string]uint32, len(chain))
	for i, idx := range chain {
		if len(idx) != len(ca.enc[i].win) {
			return nil, false
		}
		m := map[string]uint32{}
		for j, a := range idx {
			if a < 0 || a >= len(cidAlpha) {
				return nil, false
			}
			if a != 0 {
				m[ca.enc[i].win[j]] = cidAlpha[a]
			}
		}
		out[i] = m
	}
	return out, true
}

func chainTUMaps(ca *chainAsg, chain [][]int) ([]map[string]string, bool) {
	if len(chain) != len(ca.enc) {
		return nil, false
	}
	out := make([]map[string]string, len(chain))
	for i, idx := range chain {
		if len(idx) != len(ca.enc[i].win) {
			return nil, false
		}
		m := map[string]string{}
		for j, a := range idx {
			if a < 0 || a >= len(tuAlpha) {
				return nil, false
			}
			if a != 0 {
				m[ca.enc[i].win[j]] = tuAlpha[a]
			}
		}
		out[i] = m
	}
	return out, true
}

// buildChainCID constructs the chain with SetMapping, root first; a file that
// declares no code space is built with the codec of the file it borrows its
// window from and has its CodeSpaceRange cleared afterwards (a form Extract
// returns for a CMap stream without begincodespacerange).
func buildChainCID(ca *chainAsg, levels []map[string]uint32, wmode int) *cmap.File {
	var parent *cmap.File
	for i := len(levels) - 1; i >= 0; i-- {
		f := &cmap.File{
			Name:   fmt.Sprintf("VC13-L%d", i),
			ROS:    sharedROS,
			WMode:  font.WritingMode(wmode),
			Parent: parent,
		}
		data := make(map[charcode.Code]cid.CID, len(levels[i]))
		for k, v := range levels[i] {
			data[codeOf(k)] = cid.CID(v)
		}
		f.SetMapping(ca.enc[i].codec, data)
		if ca.cs[i].rngs == nil {
			f.CodeSpaceRange = nil
		}
		parent = f
	}
	return parent
}

func buildChainTU(ca *chainAsg, levels []map[string]string) (*cmap.ToUnicodeFile, error) {
	var parent *cmap.ToUnicodeFile
	for i := len(levels) - 1; i >= 0; i-- {
		data := make(map[charcode.Code]string, len(levels[i]))
		for k, v := range levels[i] {
			data[codeOf(k)] = v
		}
		f, err := cmap.NewToUnicodeFile(toCSR(ca.enc[i].rngs), data)
		if err != nil {
			return nil, err
		}
		if ca.cs[i].rngs == nil {
			f.CodeSpaceRange = nil
		}
		f.Parent = parent
		parent = f
	}
	return parent, nil
}

// accepts reports whether the codec takes s as exactly one valid code.
func accepts(codec *charcode.Codec, s string) bool {
	_, k, valid := codec.Decode([]byte(s))
	return valid && k == len(s)
}

// judgeChainCID compares a chain with the reference maps.  It returns the
// codec of the chain (nil when the union is no code space) for the comparison
// after the round trip.
func judgeChainCID(stage string, ca *chainAsg, f *cmap.File, levels []map[string]uint32) (*charcode.Codec, string, *failure) {
	tag := fmt.Sprintf("cidchain/%s/chain=%d/%s", stage, len(levels)-1, ca.relTag())
	eff := overlayCID(levels)

	// the code space every file declares, the length of the chain
	n := 0
	g := f
	for ; g != nil && n < len(levels); g = g.Parent {
		got, ok := fromCSR(g.CodeSpaceRange)
		if !ok || !sameCodeSpace(ca.cs[n].rngs, got) {
			return nil, "", failf(tag+"/codespace", "level %d: code space %v is not the space %s", n, g.CodeSpaceRange, ca.cs[n].name)
		}
		n++
	}
	if n != len(levels) || g != nil {
		return nil, "", failf(tag+"/chain-length", "parent chain does not have length %d", len(levels)-1)
	}

	// lookups need no codec
	for _, c := range ca.codes {
		want, mapped := eff[c]
		got := uint32(f.LookupCID([]byte(c)))
		if got != want {
			if mapped {
				return nil, "", failf(tag+"/lookup-mapped", "LookupCID(<%s>) = %d, chain of maps says %d", hx(c), got, want)
			}
			return nil, "", failf(tag+"/lookup-unmapped", "LookupCID(<%s>) = %d for an unmapped code, want notdef 0", hx(c), got)
		}
	}
	for _, c := range ca.probes {
		if got := f.LookupCID([]byte(c)); got != 0 {
			return nil, "", failf(tag+"/lookup-probe", "LookupCID(<%s>) = %d for a code outside the maps, want notdef 0", hx(c), got)
		}
	}

	codec, err := f.Codec()
	if !ca.pfree {
		// no code space: the statement is silent about the codec
		if err != nil {
			return nil, "rejected:cidchain:codec:union-not-prefix-free", nil
		}
		return nil, "unjudged:cidchain:codec:union-not-prefix-free", nil
	}
	if err != nil {
		return nil, "", failf(tag+"/chain-codec-error", "Codec() of the chain %s: %v; the union %s is a code space", ca.keys, err, csrKey(ca.union))
	}

	// enumeration with the chain's own codec
	coll := map[string]uint32{}
	for c, v := range f.All(codec) {
		b, ok := bytesOf(ca.union, c)
		if !ok {
			return nil, "", failf(tag+"/all-foreign-code", "All(Codec()) yields code %#x which is no code of the union %s", uint32(c), csrKey(ca.union))
		}
		coll[b] = uint32(v)
	}
	for _, c := range sortedKeys(eff) {
		want := eff[c]
		if got, ok := coll[c]; got != want {
			if !ok {
				return nil, "", failf(tag+"/all-missing", "All(Codec()) does not yield <%s>, LookupCID and the chain of maps say %d (code spaces child first: %s)", hx(c), want, ca.keys)
			}
			return nil, "", failf(tag+"/all-value", "collected enumeration has <%s> -> %d, chain of maps says %d", hx(c), got, want)
		}
	}
	for _, c := range sortedKeys(coll) {
		got := coll[c]
		if want := eff[c]; got != want {
			return nil, "", failf(tag+"/all-extra", "collected enumeration has <%s> -> %d, chain of maps says %d", hx(c), got, want)
		}
	}
	for _, c := range sortedKeys(coll) {
		v := coll[c]
		if got := uint32(f.LookupCID([]byte(c))); got != v {
			return nil, "", failf(tag+"/all-vs-lookup", "enumeration says <%s> -> %d, LookupCID says %d", hx(c), v, got)
		}
	}
	return codec, "", nil
}

// sameChainCID compares the chain before embedding and after extraction, file
// by file (parent cut off), each enumerated with the codec of the code space
// its window comes from.
func sameChainCID(tag string, ca *chainAsg, f, g *cmap.File) *failure {
	all := append(append([]string{}, ca.codes...), ca.probes...)
	for lvl := 0; lvl < len(ca.enc) && f != nil && g != nil; lvl++ {
		f0, g0 := *f, *g
		f0.Parent, g0.Parent = nil, nil
		for _, c := range all {
			a, b := f0.LookupCID([]byte(c)), g0.LookupCID([]byte(c))
			if a != b {
				return failf(tag+"/level-lookup", "level %d: LookupCID(<%s>) was %d before embedding, %d after extraction", lvl, hx(c), a, b)
			}
		}
		sp := ca.enc[lvl].sp
		if d := diffCIDPairs(enumCID(&f0, sp), enumCID(&g0, sp)); d != "" {
			return failf(tag+"/level-enumeration", "level %d: enumeration differs after extraction: %s", lvl, d)
		}
		if g.WMode != f.WMode {
			return failf(tag+"/wmode", "level %d: WMode %d became %d", lvl, f.WMode, g.WMode)
		}
		f, g = f.Parent, g.Parent
	}
	return nil
}

func judgeChainTU(stage string, ca *chainAsg, f *cmap.ToUnicodeFile, levels []map[string]string) (string, *failure) {
	tag := fmt.Sprintf("tuchain/%s/chain=%d/%s", stage, len(levels)-1, ca.relTag())
	eff := overlayTU(levels)

	n := 0
	g := f
	for ; g != nil && n < len(levels); g = g.Parent {
		got, ok := fromCSR(g.CodeSpaceRange)
		if !ok || !sameCodeSpace(ca.cs[n].rngs, got) {
			return "", failf(tag+"/codespace", "level %d: code space %v is not the space %s", n, g.CodeSpaceRange, ca.cs[n].name)
		}
		n++
	}
	if n != len(levels) || g != nil {
		return "", failf(tag+"/chain-length", "parent chain does not have length %d", len(levels)-1)
	}

	for _, c := range ca.codes {
		want, mapped := eff[c]
		got, ok := f.Lookup([]byte(c))
		if mapped && (!ok || got != want) {
			return "", failf(tag+"/lookup-mapped/"+textClass(want), "Lookup(<%s>) = %q, %v; chain of maps says %q", hx(c), got, ok, want)
		}
		if !mapped && ok {
			return "", failf(tag+"/lookup-unmapped", "Lookup(<%s>) = %q, true for an unmapped code", hx(c), got)
		}
	}
	for _, c := range ca.probes {
		if got, ok := f.Lookup([]byte(c)); ok {
			return "", failf(tag+"/lookup-probe", "Lookup(<%s>) = %q, true for a code outside the maps", hx(c), got)
		}
	}
	if ca.ucodec == nil {
		return "unjudged:tuchain:enumeration:union-not-prefix-free", nil
	}

	coll := map[string]string{}
	for c, v := range f.All(ca.ucodec) {
		b, ok := bytesOf(ca.union, c)
		if !ok {
			return "", failf(tag+"/all-foreign-code", "All yields code %#x which is no code of the union %s", uint32(c), csrKey(ca.union))
		}
		coll[b] = v
	}
	for _, c := range sortedKeys(eff) {
		want := eff[c]
		got, ok := coll[c]
		if !ok {
			return "", failf(tag+"/all-missing", "All(codec of the union) does not yield <%s> (chain of maps: %q; code spaces child first: %s)", hx(c), want, ca.keys)
		}
		if got != want {
			return "", failf(tag+"/all-value/"+textClass(want), "collected enumeration has <%s> -> %q, chain of maps says %q", hx(c), got, want)
		}
	}
	for _, c := range sortedKeys(coll) {
		if _, ok := eff[c]; !ok {
			return "", failf(tag+"/all-extra", "All yields <%s> -> %q which is in no map of the chain", hx(c), coll[c])
		}
	}
	for _, c := range sortedKeys(coll) {
		v := coll[c]
		if got, ok := f.Lookup([]byte(c)); !ok || got != v {
			return "", failf(tag+"/all-vs-lookup", "enumeration says <%s> -> %q, Lookup says %q, %v", hx(c), v, got, ok)
		}
	}

	// GetMapping is the enumeration of the whole chain as a map: it must hold
	// exactly what Lookup answers
	gm, err := f.GetMapping()
	if err != nil {
		return "", failf(tag+"/getmapping-error", "GetMapping: %v (code spaces child first: %s)", err, ca.keys)
	}
	collg := map[string]string{}
	for c, v := range gm {
		b, ok := bytesOf(ca.union, c)
		if !ok {
			return "", failf(tag+"/getmapping-foreign-code", "GetMapping has code %#x which is no code of the union %s", uint32(c), csrKey(ca.union))
		}
		collg[b] = v
	}
	for _, c := range sortedKeys(eff) {
		if got, ok := collg[c]; !ok || got != eff[c] {
			return "", failf(tag+"/getmapping-vs-lookup", "GetMapping[<%s>] = %q, %v; Lookup and the chain of maps say %q (code spaces child first: %s)", hx(c), got, ok, eff[c], ca.keys)
		}
	}
	for _, c := range sortedKeys(collg) {
		if _, ok := eff[c]; !ok {
			return "", failf(tag+"/getmapping-extra", "GetMapping has <%s> -> %q which is in no map of the chain", hx(c), collg[c])
		}
	}
	return "", nil
}

func sameChainTU(tag string, ca *chainAsg, f, g *cmap.ToUnicodeFile) *failure {
	all := append(append([]string{}, ca.codes...), ca.probes...)
	for lvl := 0; lvl < len(ca.enc) && f != nil && g != nil; lvl++ {
		f0, g0 := *f, *g
		f0.Parent, g0.Parent = nil, nil
		for _, c := range all {
			a, aok := f0.Lookup([]byte(c))
			b, bok := g0.Lookup([]byte(c))
			if aok != bok || (aok && a != b) {
				return failf(tag+"/level-lookup", "level %d: Lookup(<%s>) was %q, %v before embedding, %q, %v after extraction", lvl, hx(c), a, aok, b, bok)
			}
		}
		sp := ca.enc[lvl].sp
		if d := diffTUPairs(enumTU(&f0, sp), enumTU(&g0, sp)); d != "" {
			return failf(tag+"/level-enumeration", "level %d: enumeration differs after extraction: %s", lvl, d)
		}
		f, g = f.Parent, g.Parent
	}
	return nil
}

func (rn *runner) chainCaseOf(kind string, ca *chainAsg, chain [][]int, embed bool, cfg config) Case {
	c := Case{Kind: kind, Spaces: strings.Split(ca.keys, ","), Chain: chain, Embed: embed, WMode: cfg.WMode, Human: cfg.Human}
	if embed {
		c.Version = verString(cfg.Version)
	}
	for i, e := range ca.enc {
		var codes []string
		for _, x := range e.win {
			codes = append(codes, hx(x))
		}
		c.LevelCodes = append(c.LevelCodes, codes)
		c.SpaceNames = append(c.SpaceNames, ca.cs[i].name)
	}
	if kind == "cidchain" {
		c.Values = cidAlphaNames
	} else {
		c.Values = tuAlphaNames
	}
	return c
}

// cidChainCase runs one code -> CID chain: the in-memory oracle, and for every
// configuration that pick returns the round trip through a file.
func (rn *runner) cidChainCase(ca *chainAsg, chain [][]int, pick func(f *cmap.File) []config) bool {
	r := rn.r
	levels, ok := chainCIDMaps(ca, chain)
	if !ok {
		return false
	}
	r.Eval(1)
	f := buildChainCID(ca, levels, 0)
	_, out, fl := judgeChainCID("mem", ca, f, levels)
	if fl != nil {
		rn.report(fl, rn.chainCaseOf("cidchain", ca, chain, false, config{}))
		return true
	}
	if out == "" {
		out = fmt.Sprintf("ok:cidchain:mem:chain=%d", len(chain)-1)
	}
	r.Outcome(out)
	for _, cfg := range pick(f) {
		r.Eval(1)
		c := rn.chainCaseOf("cidchain", ca, chain, true, cfg)
		f := buildChainCID(ca, levels, cfg.WMode)
		g, stage, err := roundTripCID(f, cfg)
		tag := fmt.Sprintf("cidchain/rt/chain=%d/%s", len(levels)-1, ca.relTag())
		if err != nil {
			rn.report(failf(tag+"/"+stage+"-error", "%s: %v (%s)", stage, err, cfg), c)
			continue
		}
		cf, _, _ := judgeChainCID("mem", ca, f, levels)
		cg, _, fl := judgeChainCID("rt", ca, g, levels)
		if fl != nil {
			rn.report(fl, c)
			continue
		}
		if fl := sameChainCID(tag, ca, f, g); fl != nil {
			rn.report(fl, c)
			continue
		}
		if cf != nil && cg != nil {
			// the same code space: the codec of the chain accepts the same codes
			bad := ""
			for _, s := range append(append([]string{}, ca.codes...), ca.probes...) {
				if accepts(cf, s) != accepts(cg, s) {
					bad = s
					break
				}
			}
			if bad != "" {
				rn.report(failf(tag+"/chain-codec-differs", "Codec() of the chain accepts <%s>: %v before embedding, %v after extraction", hx(bad), accepts(cf, bad), accepts(cg, bad)), c)
				continue
			}
		}
		r.Outcome("ok:cidchain:roundtrip:" + cfg.String())
	}
	return true
}

func (rn *runner) tuChainCase(ca *chainAsg, chain [][]int, pick func(f *cmap.ToUnicodeFile) []config) bool {
	r := rn.r
	levels, ok := chainTUMaps(ca, chain)
	if !ok {
		return false
	}
	r.Eval(1)
	f, err := buildChainTU(ca, levels)
	if err != nil {
		rn.report(failf("tuchain/mem/constructor-error", "NewToUnicodeFile: %v", err), rn.chainCaseOf("tuchain", ca, chain, false, config{}))
		return true
	}
	out, fl := judgeChainTU("mem", ca, f, levels)
	if fl != nil {
		rn.report(fl, rn.chainCaseOf("tuchain", ca, chain, false, config{}))
		return true
	}
	if out == "" {
		out = fmt.Sprintf("ok:tuchain:mem:chain=%d", len(chain)-1)
	}
	r.Outcome(out)
	for _, cfg := range pick(f) {
		r.Eval(1)
		c := rn.chainCaseOf("tuchain", ca, chain, true, cfg)
		f, err := buildChainTU(ca, levels)
		if err != nil {
			rn.report(failf("tuchain/mem/constructor-error", "NewToUnicodeFile: %v", err), c)
			continue
		}
		g, stage, err := roundTripTU(f, cfg)
		tag := fmt.Sprintf("tuchain/rt/chain=%d/%s", len(levels)-1, ca.relTag())
		if err != nil {
			rn.report(failf(tag+"/"+stage+"-error", "%s: %v (%s)", stage, err, cfg), c)
			continue
		}
		if _, fl := judgeChainTU("rt", ca, g, levels); fl != nil {
			rn.report(fl, c)
			continue
		}
		if fl := sameChainTU(tag, ca, f, g); fl != nil {
			rn.report(fl, c)
			continue
		}
		r.Outcome("ok:tuchain:roundtrip:" + cfg.String())
	}
	return true
}

// The shape of a chain of this family: per file the number of singles and of
// ranges (for text: and of ranges with a list of values).  Every distinct
// (assignment, shape) goes through a file under every configuration.
func cidChainShapeKey(f *cmap.File) string {
	var b strings.Builder
	for g := f; g != nil; g = g.Parent {
		fmt.Fprintf(&b, "s%d,r%d|", len(g.CIDSingles), len(g.CIDRanges))
	}
	return b.String()
}

func tuChainShapeKey(f *cmap.ToUnicodeFile) string {
	var b strings.Builder
	for g := f; g != nil; g = g.Parent {
		nl := 0
		for _, x := range g.Ranges {
			if len(x.Values) > 1 {
				nl++
			}
		}
		fmt.Fprintf(&b, "s%d,r%d,l%d|", len(g.Singles), len(g.Ranges), nl)
	}
	return b.String()
}

// initChains builds the menu and every assignment of length 2 and 3 (replay
// files of either tier can be replayed).
func (rn *runner) initChains() error {
	menu, err := buildChainMenu()
	if err != nil {
		return err
	}
	rn.chainMenu = menu
	byKey := map[string]*chainSpace{}
	for _, m := range menu {
		byKey[m.key] = m
	}
	rn.chainAsgs = map[string]*chainAsg{}
	for _, a := range menu {
		for _, b := range menu {
			if ca := newChainAsg(byKey, []string{a.key, b.key}); ca != nil {
				rn.chainAsgs[ca.keys] = ca
			}
			for _, c := range menu {
				if ca := newChainAsg(byKey, []string{a.key, b.key, c.key}); ca != nil {
					rn.chainAsgs[ca.keys] = ca
				}
			}
		}
	}
	return nil
}

// runChains enumerates the chains with per-file code spaces.
func (rn *runner) runChains() {
	r := rn.r
	menu := rn.chainMenu

	var names []string
	wins := map[string][]string{}
	for _, m := range menu {
		names = append(names, m.key+" = "+m.name)
		var w []string
		for _, c := range m.win {
			w = append(w, hx(c))
		}
		if m.rngs == nil {
			w = []string{"the window of the nearest file of the chain that declares a code space (parents first)"}
		}
		wins[m.key] = w
	}
	rels := map[string]int{}
	for _, a := range menu {
		for _, b := range menu {
			rels[spaceRelation(a.rngs, b.rngs)]++
		}
	}
	r.Dim("chain_code_space_menu", names)
	r.Dim("chain_code_space_windows", wins)
	r.Dim("chain_code_space_relations_file_vs_parent", rels)
	for _, need := range chainRelationsRequired {
		if rels[need] == 0 {
			r.Infra("the chain code space menu does not realise the relation: " + need)
			return
		}
	}

	lengths := ev.Pick(r, []int{2}, []int{2, 3})
	var asgs []*chainAsg
	nConflict, nSkipped := 0, 0
	var skipped []string
	for _, k := range sortedKeys(rn.chainAsgs) {
		ca := rn.chainAsgs[k]
		use := false
		for _, l := range lengths {
			if len(ca.cs) == l {
				use = true
			}
		}
		if !use {
			continue
		}
		if ca.skip != "" {
			nSkipped++
			skipped = append(skipped, ca.keys+": "+ca.skip)
			continue
		}
		if !ca.pfree {
			nConflict++
		}
		asgs = append(asgs, ca)
	}
	r.Dim("chain_code_space_chain_lengths", lengths)
	r.Dim("chain_code_space_assignments", fmt.Sprintf("%d (every tuple of menu entries with at least one declared code space); %d of them have a union that is not prefix-free (lookups only)", len(asgs), nConflict))
	r.Dim("chain_code_space_assignments_not_run_because_NewCodec_disagrees_with_the_reference_C12", nSkipped)
	if nSkipped > 0 {
		r.Dim("chain_code_space_assignments_not_run", skipped)
	}

	cidAlphaUse := ev.Pick(r, chainCIDAlphaQuick, chainCIDAlphaThorough)
	tuAlphaUse := ev.Pick(r, chainTUAlphaQuick, chainTUAlphaThorough)
	name := func(idx []int, names []string) []string {
		var out []string
		for _, a := range idx {
			out = append(out, names[a])
		}
		return out
	}
	r.Dim("chain_code_space_cid_alphabet_child_and_parent", name(cidAlphaUse, cidAlphaNames))
	r.Dim("chain_code_space_tounicode_alphabet_child_and_parent", name(tuAlphaUse, tuAlphaNames))
	r.Dim("chain_code_space_cid_alphabet_embedded_child", name(chainCIDSub, cidAlphaNames))
	r.Dim("chain_code_space_cid_alphabet_embedded_parent", name(chainCIDSubParent, cidAlphaNames))
	r.Dim("chain_code_space_tounicode_alphabet_embedded_child", name(chainTUSub, tuAlphaNames))
	r.Dim("chain_code_space_tounicode_alphabet_embedded_parent", name(chainTUSubParent, tuAlphaNames))
	if r.Thorough() {
		r.Dim("chain_code_space_length_3_cid_alphabet_child_and_parent", name(chainCIDAlphaTriple, cidAlphaNames))
		r.Dim("chain_code_space_length_3_tounicode_alphabet_child_and_parent", name(chainTUAlphaTriple, tuAlphaNames))
		r.Dim("chain_code_space_length_3_cid_alphabet_embedded_child", name(chainCIDSubTriple, cidAlphaNames))
		r.Dim("chain_code_space_length_3_tounicode_alphabet_embedded_child", name(chainTUSubTriple, tuAlphaNames))
	}
	r.Dim("chain_code_space_grandparent_maps", "1,2,3,100 | 2,absent,2,absent (text: A,B,C,AB | B,absent,B,absent), cut to the window")

	set := func(idx []int) map[int]bool {
		m := map[int]bool{}
		for _, a := range idx {
			m[a] = true
		}
		return m
	}
	cidSubSet, tuSubSet := set(chainCIDSub), set(chainTUSub)
	cidSubSetP, tuSubSetP := set(chainCIDSubParent), set(chainTUSubParent)
	cidSubSet3, tuSubSet3 := set(chainCIDSubTriple), set(chainTUSubTriple)
	allIn := func(idx []int, m map[int]bool) bool {
		for _, a := range idx {
			if !m[a] {
				return false
			}
		}
		return true
	}

	type unit struct {
		kind  string
		ca    *chainAsg
		alpha []int
		top   int // position in alpha of the value of the first code of the child
		grand []int
		sub   map[int]bool // the values of the child with which a form goes through a file
		subP  map[int]bool // the same for the parent
	}
	var units []unit
	var nCID, nTU int64
	for _, ca := range asgs {
		for _, kind := range []string{"cidchain", "tuchain"} {
			alpha, grands, sub, subP := cidAlphaUse, chainCIDGrand, cidSubSet, cidSubSetP
			if kind == "tuchain" {
				alpha, grands, sub, subP = tuAlphaUse, chainTUGrand, tuSubSet, tuSubSetP
			}
			if len(ca.cs) == 2 {
				grands = [][]int{nil}
			} else if kind == "cidchain" {
				alpha, sub = chainCIDAlphaTriple, cidSubSet3
			} else {
				alpha, sub = chainTUAlphaTriple, tuSubSet3
			}
			for _, gm := range grands {
				var grand []int
				if gm != nil {
					grand = gm[:len(ca.enc[2].win)]
				}
				for top := range alpha {
					units = append(units, unit{kind, ca, alpha, top, grand, sub, subP})
				}
				n := int64(pow(len(alpha), len(ca.enc[0].win)+len(ca.enc[1].win)))
				if kind == "cidchain" {
					nCID += n
				} else {
					nTU += n
				}
			}
		}
	}
	r.Dim("chain_code_space_cid_chains", nCID)
	r.Dim("chain_code_space_tounicode_chains", nTU)

	r.Par(len(units), func(ui int) {
		u := units[ui]
		if r.Expired() || r.TooManyViolations() {
			return
		}
		n0, n1 := len(u.ca.enc[0].win), len(u.ca.enc[1].win)
		n := pow(len(u.alpha), n0+n1-1)
		idx := make([]int, n0+n1)
		for t := 0; t < n; t++ {
			if t&1023 == 0 && r.Expired() {
				return
			}
			idx[0] = u.alpha[u.top]
			digits(t, u.alpha, idx[1:])
			chain := [][]int{append([]int{}, idx[:n0]...), append([]int{}, idx[n0:]...)}
			if u.grand != nil {
				chain = append(chain, u.grand)
			}
			inSub := allIn(idx[:n0], u.sub) && allIn(idx[n0:], u.subP)
			if u.kind == "cidchain" {
				rn.cidChainCase(u.ca, chain, func(f *cmap.File) []config {
					var cfgs []config
					if rn.shapes.first("cidchain/" + u.ca.keys + "/" + cidChainShapeKey(f)) {
						cfgs = append(cfgs, shapeConfigs[t&1]...)
					}
					if inSub && rn.forms.first("cidchain/"+u.ca.keys+"/"+cidFormKey(f)) {
						cfgs = append(cfgs, allConfigs[(t+u.top+ui)%len(allConfigs)])
					}
					return cfgs
				})
			} else {
				rn.tuChainCase(u.ca, chain, func(f *cmap.ToUnicodeFile) []config {
					var cfgs []config
					if rn.shapes.first("tuchain/" + u.ca.keys + "/" + tuChainShapeKey(f)) {
						cfgs = append(cfgs, tuConfigs...)
					}
					if inSub && rn.forms.first("tuchain/"+u.ca.keys+"/"+tuFormKey(f)) {
						cfgs = append(cfgs, tuConfigs[(t+u.top+ui)%len(tuConfigs)])
					}
					return cfgs
				})
			}
			if present(chain[0]) >= 1 && present(chain[1]) >= 1 {
				r.DistinctS(fmt.Sprintf("%s/%s/%v", u.kind, u.ca.keys, chain))
			}
			if t == 77 && u.top == 2 && (u.ca.keys == "a,d" || u.ca.keys == "b,a,g") && r.WantSample() {
				r.Sample(rn.chainCaseOf(u.kind, u.ca, chain, false, config{}))
			}
		}
	})
}
