//go:build verif

package c13

import (
	"fmt"
	"sort"

	"seehuhn.de/go/postscript/cid"

	"seehuhn.de/go/pdf/font"
	"seehuhn.de/go/pdf/font/cmap"
	"seehuhn.de/go/pdf/zzverif/engine/ev"
)

// Hand-built files: the structural forms SetMapping / NewToUnicodeFile never
// produce but Extract does (ranges that span several bytes, overlapping
// entries, notdef entries, value lists shorter than the range).  The statement
// demands of them that lookup and enumeration agree wherever entries do not
// overlap, and that the round trip through a file changes nothing.

type entrySpec struct {
	First string   `json:"first"`          // hex
	Last  string   `json:"last,omitempty"` // hex; empty: a single code
	CID   uint32   `json:"cid,omitempty"`
	Text  []string `json:"text,omitempty"`
}

func (e entrySpec) rng() rng {
	if e.Last == "" {
		return rng{unhx(e.First), unhx(e.First)}
	}
	return rng{unhx(e.First), unhx(e.Last)}
}

type fileSpec struct {
	Map    []entrySpec `json:"map"`
	Notdef []entrySpec `json:"notdef,omitempty"`
	Odd    bool        `json:"odd,omitempty"` // a file of the odd-range family (odd.go): judged for agreement only
	// extra lookup probes (hex), in addition to the probes around the corners
	// of all entries: the notdef-range-size family (sizes.go) probes the codes at
	// the positions around every power of two inside its notdef range
	Probe []string `json:"probe,omitempty"`

	mr []rng // Map[i].rng(), filled by prep
}

func (spec *fileSpec) prep() {
	if len(spec.mr) == len(spec.Map) {
		return
	}
	spec.mr = make([]rng, len(spec.Map))
	for i, e := range spec.Map {
		spec.mr[i] = e.rng()
	}
}

// expand lists the codes of a rectangular range, last byte fastest.
func (r rng) expand() []string {
	var out []string
	buf := []byte(r.lo)
	for {
		out = append(out, string(buf))
		pos := len(buf) - 1
		for pos >= 0 {
			if buf[pos] < r.hi[pos] {
				buf[pos]++
				break
			}
			buf[pos] = r.lo[pos]
			pos--
		}
		if pos < 0 {
			return out
		}
	}
}

func (r rng) oneRow() bool {
	n := len(r.lo)
	return r.lo[:n-1] == r.hi[:n-1]
}

func buildCIDFile(spec *fileSpec, wmode int) *cmap.File {
	f := &cmap.File{Name: "VC13-File", ROS: sharedROS, WMode: font.WritingMode(wmode)}
	for _, e := range spec.Map {
		if e.Last == "" {
			f.CIDSingles = append(f.CIDSingles, cmap.Single{Code: []byte(unhx(e.First)), Value: cid.CID(e.CID)})
		} else {
			f.CIDRanges = append(f.CIDRanges, cmap.Range{First: []byte(unhx(e.First)), Last: []byte(unhx(e.Last)), Value: cid.CID(e.CID)})
		}
	}
	for _, e := range spec.Notdef {
		if e.Last == "" {
			f.NotdefSingles = append(f.NotdefSingles, cmap.Single{Code: []byte(unhx(e.First)), Value: cid.CID(e.CID)})
		} else {
			f.NotdefRanges = append(f.NotdefRanges, cmap.Range{First: []byte(unhx(e.First)), Last: []byte(unhx(e.Last)), Value: cid.CID(e.CID)})
		}
	}
	return f
}

func buildTUFile(spec *fileSpec) *cmap.ToUnicodeFile {
	f := &cmap.ToUnicodeFile{}
	for _, e := range spec.Map {
		if e.Last == "" {
			f.Singles = append(f.Singles, cmap.ToUnicodeSingle{Code: []byte(unhx(e.First)), Value: e.Text[0]})
		} else {
			f.Ranges = append(f.Ranges, cmap.ToUnicodeRange{First: []byte(unhx(e.First)), Last: []byte(unhx(e.Last)), Values: append([]string{}, e.Text...)})
		}
	}
	return f
}

// interest returns every code covered by an entry, plus probes around the
// corners of the entries.
func (spec *fileSpec) interest() (covered []string, probes []string) {
	set := map[string]bool{}
	var corners []string
	for _, e := range append(append([]entrySpec{}, spec.Map...), spec.Notdef...) {
		r := e.rng()
		corners = append(corners, r.lo, r.hi)
	}
	for _, e := range spec.Map {
		for _, c := range e.rng().expand() {
			set[c] = true
		}
	}
	for c := range set {
		covered = append(covered, c)
	}
	sort.Strings(covered)
	for _, p := range probesFor(corners) {
		if !set[p] {
			probes = append(probes, p)
		}
	}
	for _, c := range corners {
		if !set[c] {
			probes = append(probes, c)
		}
	}
	for _, h := range spec.Probe {
		if c := unhx(h); !set[c] {
			probes = append(probes, c)
		}
	}
	// one probe once; and none where the notdef entries have no agreed meaning
	sort.Strings(probes)
	out := probes[:0]
	for i, c := range probes {
		if (i > 0 && c == probes[i-1]) || spec.notdefAmbiguous(c) {
			continue
		}
		out = append(out, c)
	}
	return covered, out
}

// notdefAmbiguous reports whether c lies between the end points of a notdef
// range as a number but not byte by byte: readers disagree on whether such a
// code belongs to the range (see odd.go), so nothing is demanded of it.
func (spec *fileSpec) notdefAmbiguous(c string) bool {
	for _, e := range spec.Notdef {
		if e.Last == "" {
			continue
		}
		r := e.rng()
		if len(c) == len(r.lo) && r.lo <= c && c <= r.hi && !r.has(c) {
			return true
		}
	}
	return false
}

// notdefClass describes, for the fingerprint, where in a notdef range c lies:
// the position of c in the range (last byte fastest) by magnitude.
func (spec *fileSpec) notdefClass(c string) string {
	for _, e := range spec.Notdef {
		if e.Last == "" && unhx(e.First) == c {
			return "/notdef-single"
		}
	}
	for _, e := range spec.Notdef {
		if e.Last == "" || !e.rng().has(c) {
			continue
		}
		r := e.rng()
		var pos uint64
		for i := 0; i < len(c); i++ {
			pos = pos*(uint64(r.hi[i])-uint64(r.lo[i])+1) + uint64(c[i]-r.lo[i])
		}
		switch {
		case pos >= 1<<31:
			return "/notdef-range/position>=2^31"
		case pos >= 1<<24:
			return "/notdef-range/position>=2^24"
		case pos >= 1<<16:
			return "/notdef-range/position>=2^16"
		case pos >= 1<<8:
			return "/notdef-range/position>=2^8"
		}
		return "/notdef-range/position<2^8"
	}
	return "/no-notdef-entry"
}

// entryKinds names every entry of the map for the fingerprints; in a code
// space with holes an entry whose rectangle contains a byte string that is no
// code of the space is marked.
func (spec *fileSpec) entryKinds(sp *space, list bool) []string {
	out := make([]string, len(spec.Map))
	for i, e := range spec.Map {
		kind := "single"
		if e.Last != "" {
			r := e.rng()
			kind = "one-row-range"
			if !r.oneRow() {
				kind = "multi-row-range"
			}
			if list && len(e.Text) > 1 {
				kind += "-list"
			}
			if sp.holes {
				for _, c := range r.expand() {
					if !inSpace(sp.rngs, c) {
						kind += "/crosses-hole"
						break
					}
				}
			}
		}
		out[i] = kind
	}
	return out
}

// cover returns the entries of the map that contain c.
func (spec *fileSpec) cover(c string) []int {
	var out []int
	for i := range spec.mr {
		if spec.mr[i].has(c) {
			out = append(out, i)
		}
	}
	return out
}

func (spec *fileSpec) notdef(c string) uint32 {
	for _, e := range spec.Notdef {
		if e.Last == "" && unhx(e.First) == c {
			return e.CID
		}
	}
	for _, e := range spec.Notdef {
		if e.Last != "" && e.rng().has(c) {
			return e.CID
		}
	}
	return 0
}

func judgeCIDFile(stage string, sp *space, spec *fileSpec, covered, probes []string, f *cmap.File) *failure {
	tag := "cidfile/" + stage + "/" + sp.kind
	type obs struct {
		n int
		v uint32
	}
	seen := map[string]obs{}
	for _, p := range enumCID(f, sp) {
		if !p.ok {
			return failf(tag+"/all-foreign-code", "All yields code %#x which is no code of the space", uint32(p.raw))
		}
		o := seen[p.code]
		o.n++
		o.v = p.val
		seen[p.code] = o
	}
	kinds := spec.entryKinds(sp, false)
	for _, c := range covered {
		if !inSpace(sp.rngs, c) {
			// the rectangle of an entry crosses a hole of the code space: the
			// byte string is no code, All cannot yield it and the statement
			// says nothing about looking it up
			continue
		}
		cov := spec.cover(c)
		if len(cov) != 1 {
			continue // overlapping entries: no demand
		}
		e := spec.Map[cov[0]]
		r := e.rng()
		kind := kinds[cov[0]]
		o := seen[c]
		if o.n != 1 {
			return failf(tag+"/all-count/"+kind, "<%s> lies in exactly one entry but All yields it %d times", hx(c), o.n)
		}
		got := uint32(f.LookupCID([]byte(c)))
		if got != o.v {
			return failf(tag+"/all-vs-lookup/"+kind, "<%s>: All yields %d, LookupCID gives %d", hx(c), o.v, got)
		}
		if e.Last == "" || r.oneRow() {
			off := uint64(c[len(c)-1] - r.lo[len(c)-1])
			if want := uint64(e.CID) + off; want <= 0xFFFFFFFF && uint64(got) != want {
				return failf(tag+"/value/"+kind, "<%s>: LookupCID gives %d, entry says %d", hx(c), got, want)
			}
		}
	}
	for _, c := range probes {
		if len(spec.cover(c)) != 0 {
			continue
		}
		if o := seen[c]; o.n != 0 {
			return failf(tag+"/all-extra", "<%s> lies in no entry but All yields it", hx(c))
		}
		if got, want := uint32(f.LookupCID([]byte(c))), spec.notdef(c); got != want {
			cl := ""
			if len(spec.Probe) > 0 {
				cl = spec.notdefClass(c)
			}
			return failf(tag+"/lookup-notdef"+cl, "LookupCID(<%s>) = %d for a code in no entry, notdef entries say %d", hx(c), got, want)
		}
		if got, want := uint32(f.LookupNotdefCID([]byte(c))), spec.notdef(c); got != want {
			return failf(tag+"/lookupnotdefcid"+spec.notdefClass(c), "LookupNotdefCID(<%s>) = %d, notdef entries say %d", hx(c), got, want)
		}
	}
	for _, c := range sortedKeys(seen) {
		if len(spec.cover(c)) == 0 {
			return failf(tag+"/all-extra", "<%s> lies in no entry but All yields it", hx(c))
		}
	}
	return nil
}

// refNext is the reference for a one-element bfrange value: the last rune
// incremented; ok is false where that is not a Unicode scalar value.
func refNext(s string, inc int) (string, bool) {
	rr := []rune(s)
	if len(rr) == 0 {
		return "", false
	}
	v := rr[len(rr)-1] + rune(inc)
	if v > 0x10FFFF || (v >= 0xD800 && v <= 0xDFFF) {
		return "", false
	}
	rr[len(rr)-1] = v
	return string(rr), true
}

func judgeTUFile(stage string, sp *space, spec *fileSpec, covered, probes []string, f *cmap.ToUnicodeFile) *failure {
	tag := "tufile/" + stage + "/" + sp.kind
	type obs struct {
		n int
		v string
	}
	seen := map[string]obs{}
	for _, p := range enumTU(f, sp) {
		if !p.ok {
			return failf(tag+"/all-foreign-code", "All yields code %#x which is no code of the space", uint32(p.raw))
		}
		o := seen[p.code]
		o.n++
		o.v = p.val
		seen[p.code] = o
	}
	kinds := spec.entryKinds(sp, true)
	for _, c := range covered {
		if !inSpace(sp.rngs, c) {
			continue // no code of the space (see judgeCIDFile)
		}
		cov := spec.cover(c)
		if len(cov) != 1 {
			continue
		}
		e := spec.Map[cov[0]]
		r := e.rng()
		kind := kinds[cov[0]]
		o := seen[c]
		if o.n != 1 {
			return failf(tag+"/all-count/"+kind, "<%s> lies in exactly one entry but All yields it %d times", hx(c), o.n)
		}
		got, ok := f.Lookup([]byte(c))
		if !ok || got != o.v {
			return failf(tag+"/all-vs-lookup/"+kind, "<%s>: All yields %q, Lookup gives %q, %v", hx(c), o.v, got, ok)
		}
		switch {
		case e.Last == "":
			if got != e.Text[0] {
				return failf(tag+"/value/single", "<%s>: Lookup gives %q, entry says %q", hx(c), got, e.Text[0])
			}
		case r.oneRow():
			off := int(c[len(c)-1] - r.lo[len(c)-1])
			if off < len(e.Text) && len(e.Text) > 1 {
				if got != e.Text[off] {
					return failf(tag+"/value/list", "<%s>: Lookup gives %q, list entry %d is %q", hx(c), got, off, e.Text[off])
				}
			} else if len(e.Text) == 1 {
				if want, ok := refNext(e.Text[0], off); ok && got != want {
					return failf(tag+"/value/increment/"+textClass(e.Text[0]), "<%s>: Lookup gives %q, %q with the last rune incremented by %d is %q", hx(c), got, e.Text[0], off, want)
				}
			}
		}
	}
	for _, c := range probes {
		if len(spec.cover(c)) != 0 {
			continue
		}
		if o := seen[c]; o.n != 0 {
			return failf(tag+"/all-extra", "<%s> lies in no entry but All yields it", hx(c))
		}
		if got, ok := f.Lookup([]byte(c)); ok {
			return failf(tag+"/lookup-absent", "Lookup(<%s>) = %q, true for a code in no entry", hx(c), got)
		}
	}
	for _, c := range sortedKeys(seen) {
		if len(spec.cover(c)) == 0 {
			return failf(tag+"/all-extra", "<%s> lies in no entry but All yields it", hx(c))
		}
	}
	return nil
}

func (rn *runner) fileCase(kind string, sp *space, spec *fileSpec, cfgs []config) {
	if spec.Odd {
		rn.oddFileCase(kind, sp, spec, cfgs)
		return
	}
	r := rn.r
	r.Eval(1)
	spec.prep()
	covered, probes := spec.interest()
	// the codes on which the round trip must change nothing: those that lie
	// in at most one entry (reading sorts the entries, so where entries
	// overlap another one may come first afterwards; the statement excludes
	// overlaps)
	var all []string
	for _, c := range append(append([]string{}, covered...), probes...) {
		if len(spec.cover(c)) <= 1 {
			all = append(all, c)
		}
	}
	mk := func(embed bool, cfg config) Case {
		c := Case{Kind: kind, Space: sp.name, File: spec, Embed: embed, WMode: cfg.WMode, Human: cfg.Human}
		if embed {
			c.Version = verString(cfg.Version)
		}
		return c
	}
	if kind == "cidfile" {
		f := buildCIDFile(spec, 0)
		if fl := judgeCIDFile("mem", sp, spec, covered, probes, f); fl != nil {
			rn.report(fl, mk(false, config{}))
			return
		}
		r.Outcome(fmt.Sprintf("ok:cidfile:mem:singles=%d,ranges=%d,notdef=%d", len(f.CIDSingles), len(f.CIDRanges), len(spec.Notdef)))
		for _, cfg := range cfgs {
			r.Eval(1)
			f := buildCIDFile(spec, cfg.WMode)
			f.CodeSpaceRange = toCSR(sp.rngs)
			g, stage, err := roundTripCID(f, cfg)
			tag := "cidfile/rt/" + sp.kind
			if err != nil {
				rn.report(failf(tag+"/"+stage+"-error", "%s: %v (%s)", stage, err, cfg), mk(true, cfg))
				continue
			}
			got, ok := fromCSR(g.CodeSpaceRange)
			if !ok || !sameCodeSpace(sp.rngs, got) {
				rn.report(failf(tag+"/codespace", "code space %v is not the space %s", g.CodeSpaceRange, csrKey(sp.rngs)), mk(true, cfg))
				continue
			}
			if fl := judgeCIDFile("rt", sp, spec, covered, probes, g); fl != nil {
				rn.report(fl, mk(true, cfg))
				continue
			}
			if fl := sameBehaviourCID(tag, sp, all, f, g); fl != nil {
				rn.report(fl, mk(true, cfg))
				continue
			}
			r.Outcome("ok:cidfile:roundtrip:" + cfg.String())
		}
		return
	}
	f := buildTUFile(spec)
	f.CodeSpaceRange = toCSR(sp.rngs)
	if fl := judgeTUFile("mem", sp, spec, covered, probes, f); fl != nil {
		rn.report(fl, mk(false, config{}))
		return
	}
	r.Outcome(fmt.Sprintf("ok:tufile:mem:singles=%d,ranges=%d", len(f.Singles), len(f.Ranges)))
	for _, cfg := range cfgs {
		r.Eval(1)
		f := buildTUFile(spec)
		f.CodeSpaceRange = toCSR(sp.rngs)
		g, stage, err := roundTripTU(f, cfg)
		tag := "tufile/rt/" + sp.kind
		if err != nil {
			rn.report(failf(tag+"/"+stage+"-error", "%s: %v (%s)", stage, err, cfg), mk(true, cfg))
			continue
		}
		got, ok := fromCSR(g.CodeSpaceRange)
		if !ok || !sameCodeSpace(sp.rngs, got) {
			rn.report(failf(tag+"/codespace", "code space %v is not the space %s", g.CodeSpaceRange, csrKey(sp.rngs)), mk(true, cfg))
			continue
		}
		if fl := judgeTUFile("rt", sp, spec, covered, probes, g); fl != nil {
			rn.report(fl, mk(true, cfg))
			continue
		}
		if fl := sameBehaviourTU(tag, sp, all, f, g); fl != nil {
			rn.report(fl, mk(true, cfg))
			continue
		}
		r.Outcome("ok:tufile:roundtrip:" + cfg.String())
	}
}

// ---------------------------------------------------------------------------
// enumeration of hand-built files

type iv struct{ lo, hi byte }

// rects returns the rectangular ranges with the given per-byte intervals.
func rects(ivs ...[]iv) []rng {
	out := []rng{{"", ""}}
	for _, list := range ivs {
		var next []rng
		for _, r := range out {
			for _, x := range list {
				next = append(next, rng{r.lo + string([]byte{x.lo}), r.hi + string([]byte{x.hi})})
			}
		}
		out = next
	}
	return out
}

type fileSpaceDef struct {
	space   string
	ranges  []rng
	cidSing []entrySpec // options for the extra single (first option: none)
	tuSing  []entrySpec
	notdef  []entrySpec
}

func textOptions(r rng) [][]string {
	n := len(r.expand())
	list := []string{}
	for i := 0; i < n && i < 5; i++ {
		list = append(list, fmt.Sprintf("L%d", i))
	}
	return [][]string{
		{"A"}, {"AB"}, {"\ufffe"}, {"\ud7fe"}, {"\U0010fffe"}, {""}, {"A", "Q"}, list,
	}
}

func (rn *runner) runFiles() {
	r := rn.r
	defs := []fileSpaceDef{
		{
			space:   "1-byte <00>-<FF>",
			ranges:  rects([]iv{{0x10, 0x13}, {0xfe, 0xff}, {0x00, 0x01}, {0x00, 0xff}}),
			cidSing: []entrySpec{{}, {First: "10", CID: 7}},
			tuSing:  []entrySpec{{}, {First: "10", Text: []string{"Z"}}},
			notdef:  []entrySpec{{}, {First: "00", Last: "ff", CID: 9}},
		},
		{
			space: "2-byte <0000>-<FFFF>",
			ranges: rects([]iv{{0x41, 0x41}, {0x41, 0x42}, {0x41, 0x43}, {0xfe, 0xff}},
				[]iv{{0x10, 0x10}, {0x10, 0x13}, {0xfe, 0xff}, {0x00, 0xff}, {0x00, 0x01}}),
			cidSing: []entrySpec{{}, {First: "4110", CID: 7}, {First: "42ff", CID: 0}},
			tuSing:  []entrySpec{{}, {First: "4110", Text: []string{"Z"}}, {First: "42ff", Text: []string{""}}},
			notdef:  []entrySpec{{}, {First: "4100", Last: "43ff", CID: 9}, {First: "4111", CID: 5}},
		},
		{
			space: "3-byte <810000>-<83FFFF>",
			ranges: rects([]iv{{0x82, 0x82}, {0x82, 0x83}},
				[]iv{{0x41, 0x41}, {0x41, 0x42}, {0xff, 0xff}, {0x00, 0x01}},
				[]iv{{0x10, 0x13}, {0xfe, 0xff}, {0x00, 0x01}}),
			cidSing: []entrySpec{{}, {First: "824110", CID: 7}},
			tuSing:  []entrySpec{{}, {First: "824110", Text: []string{"Z"}}},
			notdef:  []entrySpec{{}, {First: "820000", Last: "83ffff", CID: 9}},
		},
	}
	bases1 := []uint32{0, 1, 100, 0xFFFFFFFE}
	bases2 := ev.Pick(r, []uint32{1}, []uint32{1, 0xFFFFFFFE})
	text2 := ev.Pick(r, [][]string{{"A"}}, [][]string{{"A"}, {"X", "Y"}})

	var cidSpecs, tuSpecs []struct {
		sp   *space
		spec *fileSpec
		full bool // under every configuration
	}
	nr := 0
	for _, d := range defs {
		sp := rn.spaces[d.space]
		nr += len(d.ranges)
		for i1, r1 := range d.ranges {
			for i2 := -1; i2 < len(d.ranges); i2++ {
				// code -> CID
				for bi, b1 := range bases1 {
					for bj, b2 := range bases2 {
						if i2 < 0 && bj > 0 {
							continue
						}
						for si, s := range d.cidSing {
							for ni, nd := range d.notdef {
								spec := &fileSpec{Map: []entrySpec{{First: hx(r1.lo), Last: hx(r1.hi), CID: b1}}}
								if i2 >= 0 {
									spec.Map = append(spec.Map, entrySpec{First: hx(d.ranges[i2].lo), Last: hx(d.ranges[i2].hi), CID: b2})
								}
								if si > 0 {
									spec.Map = append(spec.Map, s)
								}
								if ni > 0 {
									spec.Notdef = []entrySpec{nd}
								}
								cidSpecs = append(cidSpecs, struct {
									sp   *space
									spec *fileSpec
									full bool
								}{sp, spec, bi == 1 && bj == 0 && si == len(d.cidSing)-1 && ni == len(d.notdef)-1})
							}
						}
					}
				}
				// code -> text
				for ti, t1 := range textOptions(r1) {
					for tj, t2 := range text2 {
						if i2 < 0 && tj > 0 {
							continue
						}
						for si, s := range d.tuSing {
							spec := &fileSpec{Map: []entrySpec{{First: hx(r1.lo), Last: hx(r1.hi), Text: t1}}}
							if i2 >= 0 {
								spec.Map = append(spec.Map, entrySpec{First: hx(d.ranges[i2].lo), Last: hx(d.ranges[i2].hi), Text: t2})
							}
							if si > 0 {
								spec.Map = append(spec.Map, s)
							}
							tuSpecs = append(tuSpecs, struct {
								sp   *space
								spec *fileSpec
								full bool
							}{sp, spec, (ti == 0 || ti == 7) && tj == 0 && si == len(d.tuSing)-1 && i1 == i2+1})
						}
					}
				}
			}
		}
	}
	r.Dim("handbuilt_rectangular_ranges", nr)
	r.Dim("handbuilt_cid_files", len(cidSpecs))
	r.Dim("handbuilt_tounicode_files", len(tuSpecs))

	r.Par(len(cidSpecs), func(i int) {
		if r.Expired() || r.TooManyViolations() {
			return
		}
		s := cidSpecs[i]
		cfgs := []config{allConfigs[i%len(allConfigs)]}
		if s.full {
			cfgs = allConfigs
		}
		rn.fileCase("cidfile", s.sp, s.spec, cfgs)
		r.DistinctS(fmt.Sprintf("cidfile/%d", i))
		if i == 4321 {
			r.Sample(Case{Kind: "cidfile", Space: s.sp.name, File: s.spec, Embed: true, Version: "1.7"})
		}
	})
	r.Par(len(tuSpecs), func(i int) {
		if r.Expired() || r.TooManyViolations() {
			return
		}
		s := tuSpecs[i]
		cfgs := []config{tuConfigs[i%len(tuConfigs)]}
		if s.full {
			cfgs = tuConfigs
		}
		rn.fileCase("tufile", s.sp, s.spec, cfgs)
		r.DistinctS(fmt.Sprintf("tufile/%d", i))
		if i == 4321 {
			r.Sample(Case{Kind: "tufile", Space: s.sp.name, File: s.spec, Embed: true, Version: "1.7"})
		}
	})
}
