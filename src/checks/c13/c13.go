//go:build verif

// Package c13 decides C13: CMaps (code -> CID) and ToUnicode CMaps (code ->
// text) built from any finite map answer lookups correctly, enumerate exactly
// the map, and survive Embed -> close -> reopen -> Extract.
//
// The reference model is the Go map the CMap was built from (ref.go holds the
// few helpers the model needs: code space membership, code packing, code
// space equivalence).  All maps on a small window of codes over a small
// alphabet of values are enumerated; see notes/C13.md.
package c13

import (
	"encoding/json"
	"fmt"
	"hash/maphash"
	"math"
	"os"
	"strings"
	"sync"
	"time"

	"seehuhn.de/go/pdf"
	"seehuhn.de/go/pdf/font/charcode"
	"seehuhn.de/go/pdf/font/cmap"
	"seehuhn.de/go/pdf/zzverif/engine/ev"
)

// Case is one replayable case.
type Case struct {
	Kind   string   `json:"kind"` // cid | tu | cidfile | tufile | cidchain | tuchain
	Space  string   `json:"space,omitempty"`
	Window string   `json:"window,omitempty"`
	Codes  []string `json:"codes,omitempty"` // hex, for the reader of the replay file
	Chain  [][]int  `json:"chain,omitempty"` // per level (child first) the alphabet index of every window code; 0 = absent
	Values []string `json:"values,omitempty"`
	// cidchain | tuchain (chains.go): per level (child first) the key of the
	// code space the file declares; Chain holds per level the alphabet index of
	// every code of that level's window
	Spaces     []string   `json:"spaces,omitempty"`
	SpaceNames []string   `json:"space_names,omitempty"` // for the reader of the replay file
	LevelCodes [][]string `json:"level_codes,omitempty"` // hex, for the reader of the replay file
	File       *fileSpec  `json:"file,omitempty"`
	Embed      bool       `json:"embed"`
	WMode      int        `json:"wmode"`
	Version    string     `json:"version,omitempty"`
	Human      bool       `json:"human"`
}

// ---------------------------------------------------------------------------
// spaces and windows

type window struct {
	name   string
	codes  []string
	probes []string
}

type space struct {
	name   string
	kind   string // fingerprint component
	rngs   []rng
	codec  *charcode.Codec
	cidWin []*window
	tuWin  []*window

	// coincide marks the spaces of the code-length coincidence family: codes
	// of different lengths that agree in their big-endian value, in their
	// leading bytes up to zero padding, or in their low bytes (codeRelations)
	coincide bool

	// holes marks the code spaces of the hole family (holes.go): byte strings
	// between two codes of the same length that are no codes themselves
	holes bool
}

func run(start string, n int) []string {
	out := []string{start}
	for len(out) < n {
		next, ok := addBE(out[len(out)-1], 1)
		if !ok {
			panic("window overflows")
		}
		out = append(out, next)
	}
	return out
}

func mkWindow(name string, codes ...string) *window {
	return &window{name: name, codes: codes, probes: probesFor(codes)}
}

func buildSpaces() ([]*space, error) {
	cat := func(a []string, b ...string) []string { return append(append([]string{}, a...), b...) }
	spaces := []*space{
		{
			name: "1-byte <00>-<FF>", kind: "1byte",
			rngs: []rng{{"\x00", "\xff"}},
			cidWin: []*window{
				mkWindow("run 40..45", run("\x40", 6)...),
				mkWindow("edges 00..02,FD..FF", cat(run("\x00", 3), run("\xfd", 3)...)...),
			},
			tuWin: []*window{
				mkWindow("run 40..44", run("\x40", 5)...),
				mkWindow("edges 00,01,FD..FF", cat(run("\x00", 2), run("\xfd", 3)...)...),
			},
		},
		{
			name: "2-byte <0000>-<FFFF>", kind: "2byte",
			rngs: []rng{{"\x00\x00", "\xff\xff"}},
			cidWin: []*window{
				mkWindow("run 4140..4145", run("\x41\x40", 6)...),
				mkWindow("boundary 41FD..4202", run("\x41\xfd", 6)...),
			},
			tuWin: []*window{
				mkWindow("run 4140..4144", run("\x41\x40", 5)...),
				mkWindow("boundary 41FD..4201", run("\x41\xfd", 5)...),
			},
		},
		{
			name: "mixed <00>-<7F> <8000>-<FFFF>", kind: "mixed",
			rngs: []rng{{"\x00", "\x7f"}, {"\x80\x00", "\xff\xff"}},
			cidWin: []*window{
				mkWindow("run 8140..8145", run("\x81\x40", 6)...),
				mkWindow("boundary 81FD..8202", run("\x81\xfd", 6)...),
				mkWindow("both lengths 7D..7F,8000..8002", cat(run("\x7d", 3), run("\x80\x00", 3)...)...),
			},
			tuWin: []*window{
				mkWindow("run 8140..8144", run("\x81\x40", 5)...),
				mkWindow("boundary 81FD..8201", run("\x81\xfd", 5)...),
				mkWindow("both lengths 7E,7F,8000..8002", cat(run("\x7e", 2), run("\x80\x00", 3)...)...),
			},
		},
		{
			name: "3-byte <810000>-<83FFFF>", kind: "3byte",
			rngs: []rng{{"\x81\x00\x00", "\x83\xff\xff"}},
			cidWin: []*window{
				mkWindow("run 824140..824145", run("\x82\x41\x40", 6)...),
				mkWindow("boundary 8241FD..824202", run("\x82\x41\xfd", 6)...),
				mkWindow("double boundary 82FFFD..830002", run("\x82\xff\xfd", 6)...),
			},
			tuWin: []*window{
				mkWindow("run 824140..824144", run("\x82\x41\x40", 5)...),
				mkWindow("boundary 8241FD..824201", run("\x82\x41\xfd", 5)...),
				mkWindow("double boundary 82FFFD..830001", run("\x82\xff\xfd", 5)...),
			},
		},
		// The code-length coincidence family.  In the mixed space above no
		// longer code starts with the leading bytes of a shorter code followed
		// by zero bytes, and no two codes of different lengths have the same
		// numeric value.  The three spaces below are chosen so that these
		// coincidences occur between codes of all lengths 1..4 inside a window
		// (codeRelations lists them; Run refuses to start if one is missing).
		{
			// leading zero bytes, lengths 1-3: <41> = <0041> = <000041>
			name: "mixed <20>-<7F> <0001>-<1FFF> <000000>-<0000FF>", kind: "mixed123z", coincide: true,
			rngs: []rng{{"\x20", "\x7f"}, {"\x00\x01", "\x1f\xff"}, {"\x00\x00\x00", "\x00\x00\xff"}},
			cidWin: []*window{
				mkWindow("equal values 41,42 0041,0042 000041,000042", "\x41", "\x42", "\x00\x41", "\x00\x42", "\x00\x00\x41", "\x00\x00\x42"),
				mkWindow("consecutive values 7E,7F 007E..0081", "\x7e", "\x7f", "\x00\x7e", "\x00\x7f", "\x00\x80", "\x00\x81"),
			},
			tuWin: []*window{
				mkWindow("equal values 41 0041,0042 000041,000042", "\x41", "\x00\x41", "\x00\x42", "\x00\x00\x41", "\x00\x00\x42"),
				mkWindow("consecutive values 7F 007E..0081", "\x7f", "\x00\x7e", "\x00\x7f", "\x00\x80", "\x00\x81"),
			},
		},
		{
			// zero bytes after the first byte, lengths 2-4: the leading bytes of
			// <41 00 42> and <41 00 00 42> are those of <41 42> followed by zeros
			name: "mixed <2001>-<7FFF> <200001>-<7F00FF> <20000000>-<7F0000FF>", kind: "mixed234m", coincide: true,
			rngs: []rng{{"\x20\x01", "\x7f\xff"}, {"\x20\x00\x01", "\x7f\x00\xff"}, {"\x20\x00\x00\x00", "\x7f\x00\x00\xff"}},
			cidWin: []*window{
				mkWindow("zeros after first byte 4141,4142 410041,410042 41000041,41000042", "\x41\x41", "\x41\x42", "\x41\x00\x41", "\x41\x00\x42", "\x41\x00\x00\x41", "\x41\x00\x00\x42"),
				mkWindow("row ends 41FF,4201 4100FF,420001 410000FF,42000000", "\x41\xff", "\x42\x01", "\x41\x00\xff", "\x42\x00\x01", "\x41\x00\x00\xff", "\x42\x00\x00\x00"),
			},
			tuWin: []*window{
				mkWindow("zeros after first byte 4141,4142 410041,410042 41000041", "\x41\x41", "\x41\x42", "\x41\x00\x41", "\x41\x00\x42", "\x41\x00\x00\x41"),
				mkWindow("row ends 41FF 4100FE,4100FF 410000FF,42000000", "\x41\xff", "\x41\x00\xfe", "\x41\x00\xff", "\x41\x00\x00\xff", "\x42\x00\x00\x00"),
			},
		},
		{
			// leading zero bytes, all four lengths:
			// <41> = <00000041>, <0141> = <000141> = <00000141>
			name: "mixed <20>-<7F> <0100>-<1FFF> <000100>-<00FFFF> <00000000>-<0000FFFF>", kind: "mixed1234z", coincide: true,
			rngs: []rng{{"\x20", "\x7f"}, {"\x01\x00", "\x1f\xff"}, {"\x00\x01\x00", "\x00\xff\xff"}, {"\x00\x00\x00\x00", "\x00\x00\xff\xff"}},
			cidWin: []*window{
				mkWindow("four lengths 41 0141 000141 00000141 00000041,00000042", "\x41", "\x01\x41", "\x00\x01\x41", "\x00\x00\x01\x41", "\x00\x00\x00\x41", "\x00\x00\x00\x42"),
				mkWindow("three runs 41,42 0141,0142 000141,000142", "\x41", "\x42", "\x01\x41", "\x01\x42", "\x00\x01\x41", "\x00\x01\x42"),
			},
			tuWin: []*window{
				mkWindow("four lengths 41 0141 000141 00000141 00000041", "\x41", "\x01\x41", "\x00\x01\x41", "\x00\x00\x01\x41", "\x00\x00\x00\x41"),
				mkWindow("runs 0141,0142 000141,000142 00000141", "\x01\x41", "\x01\x42", "\x00\x01\x41", "\x00\x01\x42", "\x00\x00\x01\x41"),
			},
		},
	}
	for _, sp := range spaces {
		c, err := charcode.NewCodec(toCSR(sp.rngs))
		if err != nil {
			return nil, fmt.Errorf("NewCodec(%s): %v", sp.name, err)
		}
		sp.codec = c
		for _, w := range append(append([]*window{}, sp.cidWin...), sp.tuWin...) {
			for _, c := range w.codes {
				if !inSpace(sp.rngs, c) {
					return nil, fmt.Errorf("window %s: <%s> not in space %s", w.name, hx(c), sp.name)
				}
			}
		}
	}
	return spaces, nil
}

// ---------------------------------------------------------------------------
// alphabets

// index 0 is "absent"
var cidAlpha = []uint32{0, 0, 1, 2, 3, 100, math.MaxUint32}
var cidAlphaNames = []string{"absent", "0", "1", "2", "3", "100", "4294967295"}

// the sub-alphabet used where the full one is too expensive
var cidSub = []int{0, 1, 2, 3, 6} // absent, 0, 1, 2, 2^32-1

// Indices 0..9 are the base alphabet (every window, every chain
// configuration).  Indices 10.. are the multi-rune family: together with "AB"
// they differ from one another in the prefix only, in the last rune only, in
// both, in the number of prefix runes and in the UTF-8 length of the prefix, so
// that every successor / non-successor relation between the texts of adjacent
// codes occurs (textRelations checks this at start-up).  The enlarged alphabet
// (all 17 values) is used on the windows and chain configurations named in
// runTU.  New values are only ever appended: replay files store indices.
var tuAlpha = []string{"", "", "A", "B", "C", "AB", "\ud7ff", "\uffff", "\U00010000", "\U0010ffff",
	"AC", "XB", "XC", "ABC", "\u00e9B", "eB", "\u00e9C"}
var tuAlphaNames = []string{"absent", "empty", "A", "B", "C", "AB", "U+D7FF", "U+FFFF", "U+10000", "U+10FFFF",
	"AC", "XB", "XC", "ABC", "U+00E9 B", "eB", "U+00E9 C"}

const tuBaseLen = 10 // the base alphabet is tuAlpha[:tuBaseLen]

var tuSub = []int{0, 1, 2, 3, 5, 7, 8} // absent, empty, A, B, AB, U+FFFF, U+10000

// the sub-alphabets of the enlarged alphabet whose complete products go
// through a file (in addition to the products over tuSub / the base alphabet)
var tuSubMultiQuick = []int{0, 2, 5, 10, 12, 13, 14}            // absent, A, AB, AC, XC, ABC, éB
var tuSubMultiThorough = []int{0, 2, 5, 10, 11, 12, 13, 14, 16} // + XB, éC

// the windows on which the quick tier uses the enlarged alphabet: one run of
// five consecutive codes, the last-byte boundary (runs of 3 + 2) and the
// window with both code lengths (runs of 2 + 3)
var tuEnlargedQuick = map[string]bool{
	"run 40..44":                    true,
	"boundary 41FD..4201":           true,
	"both lengths 7E,7F,8000..8002": true,
}

// textRelations classifies every ordered pair (s, t) of multi-rune values of
// the alphabet by how the prefixes (all runes but the last) and the last runes
// relate, and returns the classes that occur.  It is a statement about the
// alphabet (reported in the evidence), not an oracle.
func textRelations(alpha []string) map[string]int {
	out := map[string]int{}
	for _, s := range alpha {
		for _, t := range alpha {
			rs, rt := []rune(s), []rune(t)
			if len(rs) < 2 || len(rt) < 2 {
				continue
			}
			ps, pt := string(rs[:len(rs)-1]), string(rt[:len(rt)-1])
			var pre string
			switch {
			case ps == pt:
				pre = "prefix-equal"
			case len(ps) == len(pt) && len(rs) == len(rt):
				pre = "prefix-differs/same-bytes/same-runes"
			case len(ps) == len(pt):
				pre = "prefix-differs/same-bytes/other-runes"
			case len(rs) == len(rt):
				pre = "prefix-differs/other-bytes/same-runes"
			default:
				pre = "prefix-differs/other-bytes/other-runes"
			}
			ls, lt := rs[len(rs)-1], rt[len(rt)-1]
			last := "last-other"
			if lt == ls+1 {
				last = "last+1"
			} else if lt == ls {
				last = "last-equal"
			}
			out[pre+","+last]++
		}
	}
	return out
}

// codeRelations classifies every pair (s, t) of codes of different lengths
// that occur together in a window (s the shorter one) by the coincidences a
// range compression that groups codes "by all bytes but the last" can trip
// over when it forgets the length of a code: equal value (t is s with zero
// bytes in front), equal leading bytes up to zero padding (all bytes but the
// last of t are those of s followed by zero bytes: the packed charcode.Code of
// the leading bytes is the same number), and how the last bytes relate.  It is
// a statement about the windows (reported in the evidence), not an oracle.
func codeRelations(spaces []*space) map[string]int {
	out := map[string]int{}
	zeros := func(n int) string { return strings.Repeat("\x00", n) }
	for _, sp := range spaces {
		for _, w := range append(append([]*window{}, sp.cidWin...), sp.tuWin...) {
			for _, s := range w.codes {
				for _, t := range w.codes {
					if len(s) >= len(t) {
						continue
					}
					d := len(t) - len(s)
					var cl []string
					if t == zeros(d)+s {
						cl = append(cl, "value-equal")
					}
					if t[:len(t)-1] == s[:len(s)-1]+zeros(d) {
						cl = append(cl, "leading-bytes-equal-up-to-zero-padding")
					}
					switch ls, lt := s[len(s)-1], t[len(t)-1]; {
					case ls == lt:
						cl = append(cl, "last-byte-equal")
					case ls+1 == lt || lt+1 == ls:
						cl = append(cl, "last-byte-adjacent")
					}
					if len(cl) == 0 {
						cl = []string{"unrelated"}
					}
					out[fmt.Sprintf("%d/%d bytes: %s", len(s), len(t), strings.Join(cl, ", "))]++
				}
			}
		}
	}
	return out
}

// the coincidences the windows must realise
var codeRelationsRequired = []string{
	"1/2 bytes: value-equal, leading-bytes-equal-up-to-zero-padding, last-byte-equal",
	"1/3 bytes: value-equal, leading-bytes-equal-up-to-zero-padding, last-byte-equal",
	"1/4 bytes: value-equal, leading-bytes-equal-up-to-zero-padding, last-byte-equal",
	"1/2 bytes: leading-bytes-equal-up-to-zero-padding, last-byte-adjacent", // <7F>, <0080>: one run if the lengths are forgotten
	"1/2 bytes: last-byte-equal", // <41>, <0141>
	"2/3 bytes: value-equal, last-byte-equal",
	"2/4 bytes: value-equal, last-byte-equal",
	"3/4 bytes: value-equal, last-byte-equal",
	"2/3 bytes: leading-bytes-equal-up-to-zero-padding, last-byte-equal",
	"2/4 bytes: leading-bytes-equal-up-to-zero-padding, last-byte-equal",
	"3/4 bytes: leading-bytes-equal-up-to-zero-padding, last-byte-equal",
	"2/3 bytes: leading-bytes-equal-up-to-zero-padding, last-byte-adjacent",
	"1/2 bytes: unrelated", // the both-lengths window of the old mixed space
}

// parent maps (alphabet indices on the window), so that for every code the
// child meets a parent that is absent / maps to the same / to another value
var cidParents = [][]int{
	{2, 3, 4, 5, 0, 1}, // 1,2,3 (a range), 100, absent, 0
	{3, 3, 0, 6, 2, 2}, // 2,2, absent, 2^32-1, 1,1
}
var cidGrand = []int{6, 1, 4, 5, 4, 0} // 2^32-1, 0, 3, 100, 3, absent

var tuParents = [][]int{
	{2, 3, 4, 0, 1}, // A,B,C (a range), absent, empty
	{7, 8, 0, 5, 5}, // U+FFFF,U+10000 (a range across the BMP edge), absent, AB, AB
}
var tuGrand = []int{9, 0, 2, 2, 6} // U+10FFFF, absent, A, A, U+D7FF

func cidLevel(w *window, idx []int) map[string]uint32 {
	m := map[string]uint32{}
	for i, a := range idx {
		if a != 0 {
			m[w.codes[i]] = cidAlpha[a]
		}
	}
	return m
}

func tuLevel(w *window, idx []int) map[string]string {
	m := map[string]string{}
	for i, a := range idx {
		if a != 0 {
			m[w.codes[i]] = tuAlpha[a]
		}
	}
	return m
}

var allConfigs, tuConfigs []config
var shapeConfigs [2][]config // all versions x pretty/compressed with WMode 0 resp. 1

func init() {
	for _, v := range []pdf.Version{pdf.V1_2, pdf.V1_7, pdf.V2_0} {
		for _, h := range []bool{false, true} {
			tuConfigs = append(tuConfigs, config{0, v, h})
			for wm := 0; wm <= 1; wm++ {
				allConfigs = append(allConfigs, config{wm, v, h})
				shapeConfigs[wm] = append(shapeConfigs[wm], config{wm, v, h})
			}
		}
	}
}

// ---------------------------------------------------------------------------

type seenSet struct {
	seed   maphash.Seed
	shards [64]struct {
		mu sync.Mutex
		m  map[uint64]struct{}
	}
}

func newSeenSet() *seenSet {
	s := &seenSet{seed: maphash.MakeSeed()}
	for i := range s.shards {
		s.shards[i].m = map[uint64]struct{}{}
	}
	return s
}

// first reports whether key has not been seen before.
func (s *seenSet) first(key string) bool {
	h := maphash.String(s.seed, key)
	sh := &s.shards[h%64]
	sh.mu.Lock()
	_, dup := sh.m[h]
	if !dup {
		sh.m[h] = struct{}{}
	}
	sh.mu.Unlock()
	return !dup
}

func (s *seenSet) size() int {
	n := 0
	for i := range s.shards {
		n += len(s.shards[i].m)
	}
	return n
}

type runner struct {
	r      *ev.Run
	spaces map[string]*space
	forms  *seenSet
	shapes *seenSet

	pairShapes *seenSet

	// code spaces used by families of hand-built files only (holes.go,
	// sizes.go); no windows, not part of runCID / runTU
	fileSpaces map[string]*space

	chainMenu []*chainSpace
	chainAsgs map[string]*chainAsg // chains.go: assignments of code spaces to the files of a chain
}

func (rn *runner) report(f *failure, c Case) {
	rn.r.Outcome("fail:" + f.fp)
	rn.r.Violation(f.fp, f.what, c)
}

func versionOf(s string) pdf.Version {
	v, err := pdf.ParseVersion(s)
	if err != nil {
		return pdf.V1_7
	}
	return v
}

func verString(v pdf.Version) string {
	s, _ := v.ToString()
	return s
}

// cidCase runs one code -> CID case: the in-memory oracle, and for every
// configuration in cfgs the round trip through a file.
func (rn *runner) cidCase(sp *space, w *window, chain [][]int, pick func(f *cmap.File) []config) {
	r := rn.r
	r.Eval(1)
	levels := make([]map[string]uint32, len(chain))
	for i := range chain {
		levels[i] = cidLevel(w, chain[i])
	}
	mk := func(embed bool, cfg config) Case {
		c := Case{Kind: "cid", Space: sp.name, Window: w.name, Chain: chain, Embed: embed, WMode: cfg.WMode, Human: cfg.Human}
		if embed {
			c.Version = verString(cfg.Version)
		}
		for _, x := range w.codes {
			c.Codes = append(c.Codes, hx(x))
		}
		c.Values = cidAlphaNames
		return c
	}
	f := buildCID(sp, levels, 0)
	if fl := judgeCID("mem", sp, w.codes, w.probes, f, levels); fl != nil {
		rn.report(fl, mk(false, config{}))
		return
	}
	r.Outcome(fmt.Sprintf("ok:cid:mem:singles=%d,ranges=%d,chain=%d", len(f.CIDSingles), len(f.CIDRanges), len(chain)-1))
	for _, cfg := range pick(f) {
		rn.cidRoundTrip(sp, w, levels, cfg, mk(true, cfg))
	}
}

func (rn *runner) cidRoundTrip(sp *space, w *window, levels []map[string]uint32, cfg config, c Case) {
	r := rn.r
	r.Eval(1)
	f := buildCID(sp, levels, cfg.WMode)
	g, stage, err := roundTripCID(f, cfg)
	tag := fmt.Sprintf("cid/rt/%s/chain=%d", sp.kind, len(levels)-1)
	if err != nil {
		rn.report(failf(tag+"/"+stage+"-error", "%s: %v (%s)", stage, err, cfg), c)
		return
	}
	if fl := judgeCID("rt", sp, w.codes, w.probes, g, levels); fl != nil {
		rn.report(fl, c)
		return
	}
	all := append(append([]string{}, w.codes...), w.probes...)
	if fl := sameBehaviourCID(tag, sp, all, f, g); fl != nil {
		rn.report(fl, c)
		return
	}
	r.Outcome(fmt.Sprintf("ok:cid:roundtrip:%s", cfg))
}

func (rn *runner) tuCase(sp *space, w *window, chain [][]int, pick func(f *cmap.ToUnicodeFile) []config) {
	r := rn.r
	r.Eval(1)
	levels := make([]map[string]string, len(chain))
	for i := range chain {
		levels[i] = tuLevel(w, chain[i])
	}
	mk := func(embed bool, cfg config) Case {
		c := Case{Kind: "tu", Space: sp.name, Window: w.name, Chain: chain, Embed: embed, Human: cfg.Human}
		if embed {
			c.Version = verString(cfg.Version)
		}
		for _, x := range w.codes {
			c.Codes = append(c.Codes, hx(x))
		}
		c.Values = tuAlphaNames
		return c
	}
	f, err := buildTU(sp, levels)
	if err != nil {
		rn.report(failf("tu/mem/"+sp.kind+"/constructor-error", "NewToUnicodeFile: %v", err), mk(false, config{}))
		return
	}
	if fl := judgeTU("mem", sp, w.codes, w.probes, f, levels); fl != nil {
		rn.report(fl, mk(false, config{}))
		return
	}
	nl := 0
	for _, x := range f.Ranges {
		if len(x.Values) > 1 {
			nl++
		}
	}
	r.Outcome(fmt.Sprintf("ok:tu:mem:singles=%d,ranges=%d,lists=%d,chain=%d", len(f.Singles), len(f.Ranges), nl, len(chain)-1))
	for _, cfg := range pick(f) {
		rn.tuRoundTrip(sp, w, levels, cfg, mk(true, cfg))
	}
}

func (rn *runner) tuRoundTrip(sp *space, w *window, levels []map[string]string, cfg config, c Case) {
	r := rn.r
	r.Eval(1)
	f, err := buildTU(sp, levels) // a fresh value for every file
	if err != nil {
		rn.report(failf("tu/mem/"+sp.kind+"/constructor-error", "NewToUnicodeFile: %v", err), c)
		return
	}
	g, stage, err := roundTripTU(f, cfg)
	tag := fmt.Sprintf("tu/rt/%s/chain=%d", sp.kind, len(levels)-1)
	if err != nil {
		rn.report(failf(tag+"/"+stage+"-error", "%s: %v (%s)", stage, err, cfg), c)
		return
	}
	if fl := judgeTU("rt", sp, w.codes, w.probes, g, levels); fl != nil {
		rn.report(fl, c)
		return
	}
	all := append(append([]string{}, w.codes...), w.probes...)
	if fl := sameBehaviourTU(tag, sp, all, f, g); fl != nil {
		rn.report(fl, c)
		return
	}
	r.Outcome(fmt.Sprintf("ok:tu:roundtrip:%s", cfg))
}

// digits writes the base-len(alpha) digits of t into out (as alphabet indices).
func digits(t int, alpha []int, out []int) {
	for i := range out {
		out[i] = alpha[t%len(alpha)]
		t /= len(alpha)
	}
}

func pow(b, e int) int {
	n := 1
	for i := 0; i < e; i++ {
		n *= b
	}
	return n
}

func iota0(n int) []int {
	out := make([]int, n)
	for i := range out {
		out[i] = i
	}
	return out
}

func present(idx []int) int {
	n := 0
	for _, a := range idx {
		if a != 0 {
			n++
		}
	}
	return n
}

type chainCfg struct {
	name    string
	parents [][]int // parent, grandparent
}

// Run is the check.
func Run(tier string) int {
	budget := 4 * time.Minute
	if tier == "thorough" {
		budget = 22 * time.Minute
	}
	r := ev.New("C13", tier, "exploration", budget)
	r.Rule("a case is (code space, window of codes, chain of maps child..grandparent, [file configuration]); every map on the window over the value alphabet (for code->text: the base alphabet, and on the windows and chain configurations listed under tounicode_enlarged_* the enlarged alphabet with the multi-rune family) is built with SetMapping / NewToUnicodeFile and judged in memory against the Go map; the code spaces include the code-length coincidence family (code_length_coincidences_in_windows: windows holding codes of different lengths with equal value, with equal leading bytes up to zero padding, with equal or adjacent last bytes); one execution = one in-memory judgement or one Embed->close->reopen->Extract round trip; distinct non-trivial = distinct (space, window, chain, map) with at least two mapped codes (the range compression has a decision to take) plus distinct hand-built files (rectangular ranges, and the odd-range family: every ordered pair of end points from a grid per code length); the chain code space family (chain_code_space_*): every assignment of a code space from a menu (none, 1-byte, 2-byte, 3-byte, mixed 1+2-byte; equal to, inside, containing, overlapping, disjoint from, in prefix conflict with the parent's) to every file of a chain of length 2 (thorough: and 3) x every map of child and parent on a window of codes inside each file's own code space, code->CID chains enumerated with File.Codec() of the chain, distinct non-trivial = distinct (assignment, maps) with an entry in child and parent; the hole family of hand-built files (handbuilt_hole_*): in code spaces with holes (the Shift-JIS code space of 90ms-RKSJ-H, a 3-byte space with a hole in the middle byte) every rectangle whose end points lie on a grid of byte values around the edges of every hole, as cidrange and as bfrange (one value, multi-rune, astral, short list), alone / after / before an ordinary range; the notdef range size family (notdef_range_size_*): code lengths 1..4, every tuple of per-byte spans from {1,2,127,128,129,255,256} anchored at 00..00 or FF..FF, looked up at the corners and at the positions 0, size-1, 2^k-1, 2^k, 2^k+1 (k = 0..32) of the range")
	r.Assume("reference model: the Go map the CMap was built from; code space equivalence decided by ref.go on the partition induced by all range bounds",
		"a child cannot unmap a code of its parent: the map of a chain is parent overlaid by child; CID 0 and 'not enumerated' are the same answer when a parent is present",
		"hand-built files (rectangular ranges, overlaps, notdef entries, short value lists) are judged for lookup/enumeration agreement on codes covered by exactly one entry and for identical behaviour after the round trip; a reference value is demanded only for one-row ranges (consecutive CIDs; one-element bfrange value = last rune incremented)",
		"in a code space with holes a range entry speaks about the codes inside its rectangle only: byte strings of the rectangle that are no codes of the space are not enumerated and nothing is demanded of looking them up; the position of a code in a one-row range counts every byte value from the first end point, code or not",
		"a notdef range contains a code iff every byte lies between the bytes of the end points; codes between the end points as numbers but outside that rectangle are not probed; the CID of a notdef range does not depend on the position of the code in the range",
		"odd ranges (several rows with a partial last-byte span, end points in lexicographic but not byte-wise order, first > last): no specification gives them a meaning, so only agreement of enumeration and lookup is demanded, on every code that lies in the extent (rectangle united with numeric interval) of at most one entry, before and after the round trip, and identical behaviour after it; a file the reader refuses because first > last is 'not accepted'",
		"the code space of a parent chain is the union of the code spaces its files declare; a union that is not prefix-free is no code space: File.Codec() may refuse it and only lookups are judged; ToUnicodeFile has no chain codec: code->text chains with different code spaces are enumerated with charcode.NewCodec(union), and GetMapping must hold exactly what Lookup answers")
	if msg := selfTest(); msg != "" {
		r.Infra("reference self-test failed: " + msg)
		return r.Finish()
	}
	spaces, err := buildSpaces()
	if err != nil {
		r.Infra(err.Error())
		return r.Finish()
	}
	rn := &runner{r: r, spaces: map[string]*space{}, forms: newSeenSet(), shapes: newSeenSet(), pairShapes: newSeenSet()}
	for _, sp := range spaces {
		rn.spaces[sp.name] = sp
	}
	if err := rn.initChains(); err != nil {
		r.Infra(err.Error())
		return r.Finish()
	}
	if err := rn.initFileSpaces(); err != nil {
		r.Infra(err.Error())
		return r.Finish()
	}
	crel := codeRelations(spaces)
	r.Dim("code_length_coincidences_in_windows", crel)
	for _, need := range codeRelationsRequired {
		if crel[need] == 0 {
			r.Infra("no window realises the code-length coincidence: " + need)
			return r.Finish()
		}
	}

	for _, k := range r.KnownWitnesses() {
		var c Case
		if json.Unmarshal(k.Witness, &c) == nil {
			rn.replayCase(c)
		}
	}

	// one case of the enlarged code->text family verbatim (the other samples
	// are taken by whichever parts run first)
	if sp := rn.spaces["1-byte <00>-<FF>"]; sp != nil {
		if w := findWindow(sp.tuWin, "run 40..44"); w != nil {
			c := Case{Kind: "tu", Space: sp.name, Window: w.name, Chain: [][]int{{5, 12, 13, 14, 15}}, Values: tuAlphaNames}
			for _, x := range w.codes {
				c.Codes = append(c.Codes, hx(x))
			}
			r.Sample(c)
		}
	}

	parts := os.Getenv("VERIF_C13_PARTS") // debugging aid: "cid,tu,files,sizes,holes,chains,pairs" (files includes sizes and holes); a partial run is marked non-exhaustive
	if parts != "" {
		r.Capped("partial run: VERIF_C13_PARTS=" + parts)
	}
	if parts == "" || strings.Contains(parts, "files") || strings.Contains(parts, "sizes") {
		rn.runSizeFiles()
	}
	if parts == "" || strings.Contains(parts, "files") || strings.Contains(parts, "holes") {
		rn.runHoleFiles()
	}
	if parts == "" || strings.Contains(parts, "files") {
		rn.runFiles()
		rn.runOddFiles()
	}
	if parts == "" || strings.Contains(parts, "chains") {
		rn.runChains()
	}
	if parts == "" || strings.Contains(parts, "cid") {
		rn.runCID()
	}
	if parts == "" || strings.Contains(parts, "tu") {
		rn.runTU()
	}
	if parts == "" || strings.Contains(parts, "pairs") {
		rn.runPairs()
	}

	r.Dim("code_spaces", len(spaces))
	var spaceNames []string
	for _, sp := range sortedSpaces(rn.spaces) {
		spaceNames = append(spaceNames, sp.name)
	}
	r.Dim("code_space_list", spaceNames)
	r.Dim("code_spaces_of_hand_built_files_only", sortedKeys(rn.fileSpaces))
	r.Dim("cid_alphabet", cidAlphaNames)
	r.Dim("tounicode_alphabet", tuAlphaNames[:tuBaseLen])
	r.Dim("file_configurations_cid", len(allConfigs))
	r.Dim("file_configurations_tounicode", len(tuConfigs))
	r.Dim("versions", []string{"1.2", "1.7", "2.0"})
	r.Dim("distinct_forms_embedded", rn.forms.size())
	r.Dim("distinct_shapes_embedded_under_every_configuration", rn.shapes.size())
	r.Dim("distinct_child_parent_shape_pairs_embedded", rn.pairShapes.size())
	return r.Finish()
}

// runCID enumerates the code -> CID maps.
func (rn *runner) runCID() {
	r := rn.r
	chains := []chainCfg{
		{"none", nil},
		{"parent A", [][]int{cidParents[0]}},
		{"parent B", [][]int{cidParents[1]}},
		{"parent A, grandparent", [][]int{cidParents[0], cidGrand}},
	}
	if r.Thorough() {
		chains = append(chains, chainCfg{"parent B, grandparent", [][]int{cidParents[1], cidGrand}})
	}
	full := iota0(len(cidAlpha))
	type unit struct {
		sp    *space
		w     *window
		ch    chainCfg
		alpha []int // alphabet of the in-memory enumeration
		top   int   // value of the most significant digit
		forms bool  // every distinct form over the embedded sub-alphabet goes through a file
	}
	var units []unit
	nwin := 0
	formChains := map[string]bool{}
	for _, sp := range sortedSpaces(rn.spaces) {
		for _, w := range sp.cidWin {
			nwin++
			for _, ch := range chains {
				forms := formsThroughFile(r, sp, ch)
				if sp.coincide && forms {
					formChains[ch.name] = true
				}
				for top := range full {
					units = append(units, unit{sp, w, ch, full, top, forms})
				}
			}
		}
	}
	r.Dim("cid_windows", nwin)
	r.Dim("coincidence_spaces_chain_configurations_with_forms_through_a_file", sortedKeys(formChains))
	r.Dim("cid_chain_configurations", len(chains))
	r.Dim("cid_maps_per_window_and_chain", pow(len(full), 6))

	// which maps go through a file: every distinct form over the
	// sub-alphabet (quick) / the full alphabet (thorough), under one
	// configuration picked round-robin; every distinct shape under all
	// configurations.
	embedAlpha := map[int]bool{}
	for _, a := range ev.Pick(r, cidSub, full) {
		embedAlpha[a] = true
	}
	r.Dim("cid_alphabet_embedded", len(embedAlpha))
	embedSub := map[int]bool{} // the spaces of the coincidence family: the sub-alphabet in either tier
	for _, a := range cidSub {
		embedSub[a] = true
	}
	r.Dim("cid_alphabet_embedded_coincidence_spaces", len(embedSub))

	r.Par(len(units), func(ui int) {
		u := units[ui]
		if r.Expired() || r.TooManyViolations() {
			return
		}
		n := pow(len(u.alpha), 5)
		idx := make([]int, 6)
		for t := 0; t < n; t++ {
			if t&1023 == 0 && r.Expired() {
				return
			}
			digits(t, u.alpha, idx[:5])
			idx[5] = u.alpha[u.top]
			child := append([]int{}, idx...)
			chain := append([][]int{child}, u.ch.parents...)

			inSub := true
			emb := embedAlpha
			if u.sp.coincide {
				emb = embedSub
			}
			for _, a := range child {
				if !emb[a] {
					inSub = false
					break
				}
			}
			pre := u.sp.kind + "/" + u.w.name + "/"
			rn.cidCase(u.sp, u.w, chain, func(f *cmap.File) []config {
				// the two decisions are independent of each other, so that
				// the number of files does not depend on which worker sees a
				// shape first
				var cfgs []config
				if rn.shapes.first(fmt.Sprintf("cid/%s%d/%s", pre, len(chain), cidShapeKey(f))) {
					// every version x pretty/compressed; WMode alternates
					cfgs = append(cfgs, shapeConfigs[t&1]...)
				}
				if inSub && u.forms && rn.forms.first("cid/"+pre+cidFormKey(f)) {
					cfgs = append(cfgs, allConfigs[(t+u.top+ui)%len(allConfigs)])
				}
				return cfgs
			})
			if present(child) >= 2 {
				r.DistinctS(fmt.Sprintf("cid/%s%s/%v", pre, u.ch.name, child))
			}
			if t == 4242 && u.top == 3 && r.WantSample() {
				c := Case{Kind: "cid", Space: u.sp.name, Window: u.w.name, Chain: chain, Values: cidAlphaNames}
				for _, x := range u.w.codes {
					c.Codes = append(c.Codes, hx(x))
				}
				r.Sample(c)
			}
		}
	})
}

func (rn *runner) runTU() {
	r := rn.r
	chains := []chainCfg{
		{"none", nil},
		{"parent A", [][]int{tuParents[0]}},
		{"parent B", [][]int{tuParents[1]}},
		{"parent A, grandparent", [][]int{tuParents[0], tuGrand}},
	}
	if r.Thorough() {
		chains = append(chains, chainCfg{"parent B, grandparent", [][]int{tuParents[1], tuGrand}})
	}
	base := iota0(tuBaseLen)
	enlargedAlpha := iota0(len(tuAlpha))
	// where the enlarged alphabet (base + multi-rune family) is used:
	// quick: three windows (a run of 5, runs of 3+2, runs of 2+3), no parent;
	// thorough: every window, no parent and parent A.  Everywhere else the
	// base alphabet.  A unit enumerates the complete product over its alphabet.
	useEnlarged := func(sp *space, w *window, ch chainCfg) bool {
		if sp.coincide {
			return false // the multi-rune family and the code lengths are independent of each other
		}
		if r.Thorough() {
			return ch.name == "none" || ch.name == "parent A"
		}
		return ch.name == "none" && tuEnlargedQuick[w.name]
	}
	type unit struct {
		sp       *space
		w        *window
		ch       chainCfg
		alpha    []int
		enlarged bool
		top      int  // position in alpha of the value of the last code
		forms    bool // as in runCID
	}
	var units []unit
	nwin := 0
	var enlWin []string
	enlChains := map[string]bool{}
	nEnl, nBase := 0, 0
	for _, sp := range sortedSpaces(rn.spaces) {
		for _, w := range sp.tuWin {
			nwin++
			for _, ch := range chains {
				alpha, enl := base, useEnlarged(sp, w, ch)
				if enl {
					alpha = enlargedAlpha
					nEnl++
					enlChains[ch.name] = true
					if len(enlWin) == 0 || enlWin[len(enlWin)-1] != sp.kind+": "+w.name {
						enlWin = append(enlWin, sp.kind+": "+w.name)
					}
				} else {
					nBase++
				}
				for top := range alpha {
					units = append(units, unit{sp, w, ch, alpha, enl, top, formsThroughFile(r, sp, ch)})
				}
			}
		}
	}
	r.Dim("tounicode_windows", nwin)
	r.Dim("tounicode_chain_configurations", len(chains))
	r.Dim("tounicode_maps_per_window_and_chain", pow(len(base), 5))
	r.Dim("tounicode_alphabet_enlarged", tuAlphaNames)
	r.Dim("tounicode_enlarged_windows", enlWin)
	r.Dim("tounicode_enlarged_chain_configurations", sortedKeys(enlChains))
	r.Dim("tounicode_enlarged_maps_per_window_and_chain", pow(len(enlargedAlpha), 5))
	r.Dim("tounicode_window_chain_products", fmt.Sprintf("%d over the enlarged alphabet, %d over the base alphabet", nEnl, nBase))
	rel := textRelations(tuAlpha)
	r.Dim("tounicode_adjacent_multi_rune_text_relations", rel)
	if len(rel) != 15 {
		r.Infra(fmt.Sprintf("the enlarged ToUnicode alphabet realises %d of the 15 prefix x last-rune relations", len(rel)))
		return
	}

	// which maps go through a file as a "form": complete products over
	// sub-alphabets.  With a parent only the quick sub-alphabets in either
	// tier: NewToUnicodeFile does not look at the parent, the child is the same
	// file.
	set := func(idx []int) map[int]bool {
		m := map[int]bool{}
		for _, a := range idx {
			m[a] = true
		}
		return m
	}
	embedBase, embedBaseP := set(ev.Pick(r, tuSub, base)), set(tuSub)
	embedMulti, embedMultiP := set(ev.Pick(r, tuSubMultiQuick, tuSubMultiThorough)), set(tuSubMultiQuick)
	r.Dim("tounicode_alphabet_embedded", len(embedBase))
	r.Dim("tounicode_enlarged_alphabet_embedded", len(embedMulti))
	allIn := func(idx []int, m map[int]bool) bool {
		for _, a := range idx {
			if !m[a] {
				return false
			}
		}
		return true
	}

	r.Par(len(units), func(ui int) {
		u := units[ui]
		if r.Expired() || r.TooManyViolations() {
			return
		}
		n := pow(len(u.alpha), 4)
		idx := make([]int, 5)
		for t := 0; t < n; t++ {
			if t&1023 == 0 && r.Expired() {
				return
			}
			digits(t, u.alpha, idx[:4])
			idx[4] = u.alpha[u.top]
			child := append([]int{}, idx...)
			chain := append([][]int{child}, u.ch.parents...)
			var inSub bool
			if len(u.ch.parents) > 0 || u.sp.coincide {
				inSub = allIn(child, embedBaseP) || (u.enlarged && allIn(child, embedMultiP))
			} else {
				inSub = allIn(child, embedBase) || (u.enlarged && allIn(child, embedMulti))
			}
			pre := u.sp.kind + "/" + u.w.name + "/"
			rn.tuCase(u.sp, u.w, chain, func(f *cmap.ToUnicodeFile) []config {
				var cfgs []config
				if rn.shapes.first(fmt.Sprintf("tu/%s%d/%s", pre, len(chain), tuShapeKey(f))) {
					cfgs = append(cfgs, tuConfigs...)
				}
				if inSub && u.forms && rn.forms.first("tu/"+pre+tuFormKey(f)) {
					cfgs = append(cfgs, tuConfigs[(t+u.top+ui)%len(tuConfigs)])
				}
				return cfgs
			})
			if present(child) >= 2 {
				r.DistinctS(fmt.Sprintf("tu/%s/%s/%s/%v", u.sp.kind, u.w.name, u.ch.name, child))
			}
			if t == 4242 && (u.top == 7 || (u.enlarged && u.top == 12)) && r.WantSample() {
				c := Case{Kind: "tu", Space: u.sp.name, Window: u.w.name, Chain: chain, Values: tuAlphaNames}
				for _, x := range u.w.codes {
					c.Codes = append(c.Codes, hx(x))
				}
				r.Sample(c)
			}
		}
	})
}

// formsThroughFile says whether the maps of a (space, chain configuration)
// unit go through a file once per distinct form.  The spaces of the
// code-length coincidence family do so in the quick tier only without a parent
// and below parent A (and in either tier over the sub-alphabets of the quick
// tier); every map is judged in memory under every chain configuration, and
// every distinct shape goes through a file under all configurations, in either
// tier.
func formsThroughFile(r *ev.Run, sp *space, ch chainCfg) bool {
	if !sp.coincide || r.Thorough() {
		return true
	}
	return ch.name == "none" || ch.name == "parent A"
}

func sortedSpaces(m map[string]*space) []*space {
	// the spaces of the code-length coincidence family come first: a run that
	// is cut short by its deadline on a loaded machine has covered them
	order := []string{
		"mixed <20>-<7F> <0001>-<1FFF> <000000>-<0000FF>", "mixed <2001>-<7FFF> <200001>-<7F00FF> <20000000>-<7F0000FF>",
		"mixed <20>-<7F> <0100>-<1FFF> <000100>-<00FFFF> <00000000>-<0000FFFF>",
		"1-byte <00>-<FF>", "2-byte <0000>-<FFFF>", "mixed <00>-<7F> <8000>-<FFFF>", "3-byte <810000>-<83FFFF>"}
	var out []*space
	for _, n := range order {
		if sp, ok := m[n]; ok {
			out = append(out, sp)
		}
	}
	if len(out) != len(m) {
		panic("sortedSpaces: a space is missing from the order")
	}
	return out
}

func findWindow(ws []*window, name string) *window {
	for _, w := range ws {
		if w.name == name {
			return w
		}
	}
	return nil
}

// replayCase re-executes one case with the same oracle.
func (rn *runner) replayCase(c Case) bool {
	if c.Kind == "cidchain" || c.Kind == "tuchain" {
		ca := rn.chainAsgs[strings.Join(c.Spaces, ",")]
		if ca == nil || ca.skip != "" {
			return false
		}
		var cfgs []config
		if c.Embed {
			cfgs = []config{{c.WMode, versionOf(c.Version), c.Human}}
		}
		if c.Kind == "cidchain" {
			return rn.cidChainCase(ca, c.Chain, func(*cmap.File) []config { return cfgs })
		}
		return rn.tuChainCase(ca, c.Chain, func(*cmap.ToUnicodeFile) []config { return cfgs })
	}
	sp := rn.spaces[c.Space]
	if sp == nil {
		sp = rn.fileSpaces[c.Space]
	}
	if sp == nil {
		return false
	}
	var cfgs []config
	if c.Embed {
		cfgs = []config{{c.WMode, versionOf(c.Version), c.Human}}
	}
	switch c.Kind {
	case "cid":
		w := findWindow(sp.cidWin, c.Window)
		if w == nil || len(c.Chain) == 0 {
			return false
		}
		rn.cidCase(sp, w, c.Chain, func(*cmap.File) []config { return cfgs })
	case "tu":
		w := findWindow(sp.tuWin, c.Window)
		if w == nil || len(c.Chain) == 0 {
			return false
		}
		rn.tuCase(sp, w, c.Chain, func(*cmap.ToUnicodeFile) []config { return cfgs })
	case "cidfile", "tufile":
		if c.File == nil {
			return false
		}
		rn.fileCase(c.Kind, sp, c.File, cfgs)
	default:
		return false
	}
	return true
}

// Replay re-executes the case of a replay file.
func Replay(path string) int {
	var c Case
	if err := ev.ReplayCase(path, &c); err != nil {
		fmt.Println("replay:", err)
		return 2
	}
	r := ev.New("C13", "quick", "exploration", time.Minute)
	r.SetReplayMode()
	spaces, err := buildSpaces()
	if err != nil {
		r.Infra(err.Error())
		return r.Finish()
	}
	rn := &runner{r: r, spaces: map[string]*space{}, forms: newSeenSet(), shapes: newSeenSet(), pairShapes: newSeenSet()}
	for _, sp := range spaces {
		rn.spaces[sp.name] = sp
	}
	if err := rn.initChains(); err != nil {
		r.Infra(err.Error())
		return r.Finish()
	}
	if err := rn.initFileSpaces(); err != nil {
		r.Infra(err.Error())
		return r.Finish()
	}
	if !rn.replayCase(c) {
		fmt.Println("replay: case not understood")
		return 2
	}
	return r.Finish()
}

// runPairs enumerates child x parent completely over small alphabets, so that
// every pattern of "parent absent / agrees / disagrees" meets every pattern of
// runs in the child and in the parent.
func (rn *runner) runPairs() {
	r := rn.r
	type pw struct {
		sp *space
		w  *window
	}
	pick := func(ws func(*space) []*window, names ...string) []pw {
		var out []pw
		for _, sp := range sortedSpaces(rn.spaces) {
			for _, w := range ws(sp) {
				for _, n := range names {
					if w.name == n {
						out = append(out, pw{sp, w})
					}
				}
			}
		}
		return out
	}

	// code -> CID
	{
		names := []string{"boundary 41FD..4202", "both lengths 7D..7F,8000..8002"}
		if r.Thorough() {
			names = append(names, "double boundary 82FFFD..830002")
		}
		wins := pick(func(sp *space) []*window { return sp.cidWin }, names...)
		alpha := ev.Pick(r, []int{0, 2, 3}, []int{0, 1, 2, 3}) // child: absent, [0,] 1, 2
		palpha := []int{0, 2, 3}                               // parent: absent, 1, 2
		n, np := pow(len(alpha), 6), pow(len(palpha), 6)
		r.Dim("pairs_cid", fmt.Sprintf("%d windows x %d parents x %d children", len(wins), np, n))
		r.Par(len(wins)*np, func(i int) {
			if r.Expired() || r.TooManyViolations() {
				return
			}
			x, pt := wins[i/np], i%np
			parent := make([]int, 6)
			digits(pt, palpha, parent)
			child := make([]int, 6)
			for t := 0; t < n; t++ {
				if t&1023 == 0 && r.Expired() {
					return
				}
				digits(t, alpha, child)
				c := append([]int{}, child...)
				rn.cidCase(x.sp, x.w, [][]int{c, parent}, func(f *cmap.File) []config {
					pk := fmt.Sprint(present01(parent))
					if r.Thorough() {
						pk = cidShapeKey(f.Parent)
					}
					if rn.pairShapes.first("cid/" + x.sp.kind + "/" + x.w.name + "/" + cidShapeKey(f) + "|" + pk) {
						return []config{allConfigs[(t+pt)%len(allConfigs)]}
					}
					return nil
				})
				if present(c) >= 1 && present(parent) >= 1 {
					r.DistinctS(fmt.Sprintf("cidpair/%s/%s/%v/%v", x.sp.kind, x.w.name, c, parent))
				}
			}
		})
	}

	// code -> text
	{
		names := []string{"boundary 41FD..4201", "both lengths 7E,7F,8000..8002"}
		if r.Thorough() {
			names = append(names, "double boundary 82FFFD..830001")
		}
		wins := pick(func(sp *space) []*window { return sp.tuWin }, names...)
		ca := ev.Pick(r, []int{0, 1, 2, 3}, []int{0, 1, 2, 3, 5, 7}) // absent, empty, A, B [, AB, U+FFFF]
		pa := ev.Pick(r, []int{0, 1, 2, 3}, []int{0, 2, 8})          // quick: as the child; thorough: absent, A, U+10000
		nc, np := pow(len(ca), 5), pow(len(pa), 5)
		r.Dim("pairs_tounicode", fmt.Sprintf("%d windows x %d parents x %d children", len(wins), np, nc))
		r.Par(len(wins)*np, func(i int) {
			if r.Expired() || r.TooManyViolations() {
				return
			}
			x, pt := wins[i/np], i%np
			parent := make([]int, 5)
			digits(pt, pa, parent)
			child := make([]int, 5)
			for t := 0; t < nc; t++ {
				if t&1023 == 0 && r.Expired() {
					return
				}
				digits(t, ca, child)
				c := append([]int{}, child...)
				rn.tuCase(x.sp, x.w, [][]int{c, parent}, func(f *cmap.ToUnicodeFile) []config {
					pk := fmt.Sprint(present01(parent))
					if r.Thorough() {
						pk = tuShapeKey(f.Parent)
					}
					if rn.pairShapes.first("tu/" + x.sp.kind + "/" + x.w.name + "/" + tuShapeKey(f) + "|" + pk) {
						return []config{tuConfigs[(t+pt)%len(tuConfigs)]}
					}
					return nil
				})
				if present(c) >= 1 && present(parent) >= 1 {
					r.DistinctS(fmt.Sprintf("tupair/%s/%s/%v/%v", x.sp.kind, x.w.name, c, parent))
				}
			}
		})
	}
}

func present01(idx []int) []int {
	out := make([]int, len(idx))
	for i, a := range idx {
		if a != 0 {
			out[i] = 1
		}
	}
	return out
}
