//go:build verif

package c13

import (
	"encoding/hex"
	"sort"
	"strings"
	"sync"

	"seehuhn.de/go/pdf/font/charcode"
)

// This file is the reference side of the check.  Nothing in here calls into
// font/cmap; of font/charcode only the data types Range / CodeSpaceRange / Code
// are used (they are the vocabulary of the API under test), never a function.

// rng is one code space range of the reference model: a code belongs to it
// iff it has the same length and lies between lo and hi byte by byte.
type rng struct{ lo, hi string }

func (r rng) has(code string) bool {
	if len(code) != len(r.lo) {
		return false
	}
	for i := 0; i < len(code); i++ {
		if code[i] < r.lo[i] || code[i] > r.hi[i] {
			return false
		}
	}
	return true
}

func inSpace(rs []rng, code string) bool {
	for _, r := range rs {
		if r.has(code) {
			return true
		}
	}
	return false
}

func toCSR(rs []rng) charcode.CodeSpaceRange {
	var out charcode.CodeSpaceRange
	for _, r := range rs {
		out = append(out, charcode.Range{Low: []byte(r.lo), High: []byte(r.hi)})
	}
	return out
}

// fromCSR converts a library value into reference ranges; ok is false if an
// entry is not a range at all (lengths differ, empty, longer than 4, low>high).
func fromCSR(c charcode.CodeSpaceRange) (out []rng, ok bool) {
	for _, r := range c {
		if len(r.Low) != len(r.High) || len(r.Low) == 0 || len(r.Low) > 4 {
			return nil, false
		}
		for i := range r.Low {
			if r.Low[i] > r.High[i] {
				return nil, false
			}
		}
		out = append(out, rng{string(r.Low), string(r.High)})
	}
	return out, true
}

func csrKey(rs []rng) string {
	var b strings.Builder
	for _, r := range rs {
		b.WriteString(hex.EncodeToString([]byte(r.lo)))
		b.WriteByte('-')
		b.WriteString(hex.EncodeToString([]byte(r.hi)))
		b.WriteByte(' ')
	}
	return b.String()
}

var equivCache sync.Map // string -> bool

// sameCodeSpace decides whether two range sets describe the same set of codes.
// It compares membership on every byte string of length 1..4 built from the
// partition that all range bounds induce on every byte position (each bound,
// its predecessor and its successor, 00 and FF), which contains at least one
// representative of every cell of the partition.
func sameCodeSpace(a, b []rng) bool {
	key := csrKey(a) + "|" + csrKey(b)
	if v, ok := equivCache.Load(key); ok {
		return v.(bool)
	}
	res := sameCodeSpaceSlow(a, b)
	equivCache.Store(key, res)
	return res
}

func sameCodeSpaceSlow(a, b []rng) bool {
	maxLen := 0
	var reps [4][]byte
	for pos := 0; pos < 4; pos++ {
		set := map[int]bool{0: true, 255: true}
		for _, rs := range [][]rng{a, b} {
			for _, r := range rs {
				if len(r.lo) > maxLen {
					maxLen = len(r.lo)
				}
				if pos < len(r.lo) {
					for _, v := range []int{int(r.lo[pos]), int(r.hi[pos])} {
						for d := -1; d <= 1; d++ {
							if v+d >= 0 && v+d <= 255 {
								set[v+d] = true
							}
						}
					}
				}
			}
		}
		for v := range set {
			reps[pos] = append(reps[pos], byte(v))
		}
		sort.Slice(reps[pos], func(i, j int) bool { return reps[pos][i] < reps[pos][j] })
	}
	if maxLen > 4 {
		return false
	}
	buf := make([]byte, 0, 4)
	var rec func(pos, L int) bool
	rec = func(pos, L int) bool {
		if pos == L {
			s := string(buf)
			return inSpace(a, s) == inSpace(b, s)
		}
		for _, v := range reps[pos] {
			buf = append(buf, v)
			ok := rec(pos+1, L)
			buf = buf[:len(buf)-1]
			if !ok {
				return false
			}
		}
		return true
	}
	for L := 1; L <= maxLen; L++ {
		if !rec(0, L) {
			return false
		}
	}
	return true
}

// codeOf packs a byte string into a charcode.Code as the package documents it:
// first byte in the least significant position.
func codeOf(s string) charcode.Code {
	var c charcode.Code
	for i := 0; i < len(s); i++ {
		c |= charcode.Code(s[i]) << (8 * i)
	}
	return c
}

// bytesOf unpacks a Code: the unique length L in 1..4 for which the L low
// bytes form a code of the space and the remaining bytes are zero (a valid
// code space is prefix-free, so at most one length fits).
func bytesOf(rs []rng, c charcode.Code) (string, bool) {
	var found string
	n := 0
	for L := 1; L <= 4; L++ {
		if L < 4 && c>>(8*L) != 0 {
			continue
		}
		b := make([]byte, L)
		for i := range b {
			b[i] = byte(c >> (8 * i))
		}
		if inSpace(rs, string(b)) {
			found = string(b)
			n++
		}
	}
	return found, n == 1
}

// addBE adds d to a byte string read as a big-endian number; ok is false on
// under- or overflow (no wrap-around).
func addBE(s string, d int) (string, bool) {
	b := []byte(s)
	for i := len(b) - 1; i >= 0 && d != 0; i-- {
		v := int(b[i]) + d
		d = 0
		for v < 0 {
			v += 256
			d--
		}
		for v > 255 {
			v -= 256
			d++
		}
		b[i] = byte(v)
	}
	return string(b), d == 0
}

// probesFor returns the lookup probes for a set of interesting codes: the
// codes themselves are excluded; included are their numeric neighbours at
// distance 1 and 2, and byte strings of other lengths derived from them
// (prefix, last byte alone, code followed by 00, the empty string).
func probesFor(codes []string) []string {
	isCode := map[string]bool{}
	for _, c := range codes {
		isCode[c] = true
	}
	set := map[string]bool{"": true}
	for _, c := range codes {
		for _, d := range []int{-2, -1, 1, 2} {
			if n, ok := addBE(c, d); ok {
				set[n] = true
			}
		}
		if len(c) > 1 {
			set[c[:len(c)-1]] = true
			set[c[len(c)-1:]] = true
		}
		set[c+"\x00"] = true
	}
	var out []string
	for s := range set {
		if !isCode[s] {
			out = append(out, s)
		}
	}
	sort.Strings(out)
	return out
}

func hx(s string) string { return hex.EncodeToString([]byte(s)) }

func unhx(s string) string {
	b, _ := hex.DecodeString(s)
	return string(b)
}

// selfTest checks the reference helpers against hand-computed facts.
func selfTest() string {
	mixed := []rng{{"\x00", "\x7f"}, {"\x80\x00", "\xff\xff"}}
	if !inSpace(mixed, "\x7f") || inSpace(mixed, "\x80") || !inSpace(mixed, "\x80\x00") || inSpace(mixed, "\x7f\x00") {
		return "inSpace"
	}
	if codeOf("\x12\x34") != 0x3412 || codeOf("\x41") != 0x41 || codeOf("\x81\x02\x03") != 0x030281 {
		return "codeOf"
	}
	if s, ok := bytesOf(mixed, 0x0080); !ok || s != "\x80\x00" {
		return "bytesOf 2-byte"
	}
	if s, ok := bytesOf(mixed, 0x7f); !ok || s != "\x7f" {
		return "bytesOf 1-byte"
	}
	if _, ok := bytesOf(mixed, 0x010000); ok {
		return "bytesOf invalid"
	}
	if s, ok := addBE("\x41\xff", 1); !ok || s != "\x42\x00" {
		return "addBE carry"
	}
	if s, ok := addBE("\x42\x00", -2); !ok || s != "\x41\xfe" {
		return "addBE borrow"
	}
	if _, ok := addBE("\xff", 1); ok {
		return "addBE overflow"
	}
	if _, ok := addBE("\x00\x01", -2); ok {
		return "addBE underflow"
	}
	// <00>-<7F> + <80>-<FF> is the full one-byte space; <00>-<7E> is not
	if !sameCodeSpaceSlow([]rng{{"\x00", "\x7f"}, {"\x80", "\xff"}}, []rng{{"\x00", "\xff"}}) {
		return "sameCodeSpace merge"
	}
	if sameCodeSpaceSlow([]rng{{"\x00", "\x7e"}, {"\x80", "\xff"}}, []rng{{"\x00", "\xff"}}) {
		return "sameCodeSpace gap"
	}
	if sameCodeSpaceSlow([]rng{{"\x00\x00", "\xff\xff"}}, []rng{{"\x00\x00", "\xff\xfe"}}) {
		return "sameCodeSpace last byte"
	}
	// the case the library's own tree building gets wrong (C12): the gap in the
	// second byte must be seen
	if sameCodeSpaceSlow([]rng{{"\x00\x00", "\x00\x7f"}, {"\x01\x10", "\x01\x7f"}}, []rng{{"\x00\x00", "\x01\x7f"}}) {
		return "sameCodeSpace sub-range gap"
	}
	if !sameCodeSpaceSlow(mixed, []rng{{"\x80\x00", "\xff\xff"}, {"\x00", "\x3f"}, {"\x40", "\x7f"}}) {
		return "sameCodeSpace order/split"
	}
	return ""
}
