//go:build verif

package c13

import (
	"bytes"
	"fmt"
	"sort"
	"strings"

	"seehuhn.de/go/postscript/cid"

	"seehuhn.de/go/pdf"
	"seehuhn.de/go/pdf/font"
	"seehuhn.de/go/pdf/font/charcode"
	"seehuhn.de/go/pdf/font/cmap"
	"seehuhn.de/go/pdf/internal/debug/memfile"
)

type failure struct{ fp, what string }

func failf(fp, format string, a ...any) *failure {
	return &failure{fp, fmt.Sprintf(format, a...)}
}

// config is one way of writing the file.
type config struct {
	WMode   int
	Version pdf.Version
	Human   bool
}

func (c config) String() string {
	v, _ := c.Version.ToString()
	return fmt.Sprintf("wmode=%d,v=%s,human=%v", c.WMode, v, c.Human)
}

var sharedROS = &cid.SystemInfo{Registry: "Adobe", Ordering: "Identity", Supplement: 0}

// ---------------------------------------------------------------------------
// code -> CID

// cidView is what the oracle observes of a CMap: lookups on a list of codes
// and the enumeration.
type cidPair struct {
	code string // "" + ok=false if the yielded Code is not a code of the space
	ok   bool
	raw  charcode.Code
	val  uint32
}

func enumCID(f *cmap.File, sp *space) []cidPair {
	var out []cidPair
	for c, v := range f.All(sp.codec) {
		b, ok := bytesOf(sp.rngs, c)
		out = append(out, cidPair{b, ok, c, uint32(v)})
	}
	return out
}

func chainLenCID(f *cmap.File) int {
	n := 0
	for g := f.Parent; g != nil; g = g.Parent {
		n++
		if n > 10 {
			break
		}
	}
	return n
}

func overlayCID(levels []map[string]uint32) map[string]uint32 {
	eff := map[string]uint32{}
	for i := len(levels) - 1; i >= 0; i-- {
		for k, v := range levels[i] {
			eff[k] = v
		}
	}
	return eff
}

// buildCID constructs the chain with SetMapping, root first; returns the child.
func buildCID(sp *space, levels []map[string]uint32, wmode int) *cmap.File {
	var parent *cmap.File
	for i := len(levels) - 1; i >= 0; i-- {
		f := &cmap.File{
			Name:   fmt.Sprintf("VC13-L%d", i),
			ROS:    sharedROS,
			WMode:  font.WritingMode(wmode),
			Parent: parent,
		}
		data := make(map[charcode.Code]cid.CID, len(levels[i]))
		for k, v := range levels[i] {
			data[codeOf(k)] = cid.CID(v)
		}
		f.SetMapping(sp.codec, data)
		parent = f
	}
	return parent
}

// judgeCID compares a CMap with the reference map.  stage is "mem" or "rt".
// window are the codes a map may contain, probes the other codes to look up.
func judgeCID(stage string, sp *space, window, probes []string, f *cmap.File, levels []map[string]uint32) *failure {
	tag := fmt.Sprintf("cid/%s/%s/chain=%d", stage, sp.kind, len(levels)-1)
	eff := overlayCID(levels)

	// code space, at every level of the chain
	n := 0
	for g := f; g != nil && n < len(levels); g = g.Parent {
		got, ok := fromCSR(g.CodeSpaceRange)
		if !ok || !sameCodeSpace(sp.rngs, got) {
			return failf(tag+"/codespace", "level %d: code space %v is not the space %s", n, g.CodeSpaceRange, csrKey(sp.rngs))
		}
		n++
	}
	if cl := chainLenCID(f); cl != len(levels)-1 {
		return failf(tag+"/chain-length", "parent chain has length %d, want %d", cl, len(levels)-1)
	}

	// (1) lookups
	for _, c := range window {
		want, mapped := eff[c]
		got := uint32(f.LookupCID([]byte(c)))
		if got != want {
			if mapped {
				return failf(tag+"/lookup-mapped", "LookupCID(<%s>) = %d, map says %d", hx(c), got, want)
			}
			return failf(tag+"/lookup-unmapped", "LookupCID(<%s>) = %d for an unmapped code, want notdef 0", hx(c), got)
		}
	}
	for _, c := range probes {
		if got := f.LookupCID([]byte(c)); got != 0 {
			cl := "neighbour"
			if len(c) != len(window[0]) {
				cl = "other-length"
			}
			return failf(tag+"/lookup-"+cl, "LookupCID(<%s>) = %d for a code outside the map, want notdef 0", hx(c), got)
		}
	}

	// (2) enumeration; (4) enumeration and lookup agree
	pairs := enumCID(f, sp)
	coll := map[string]uint32{}
	for _, p := range pairs {
		if !p.ok {
			return failf(tag+"/all-foreign-code", "All yields code %#x which is no code of the space", uint32(p.raw))
		}
		if _, dup := coll[p.code]; dup && len(levels) == 1 {
			return failf(tag+"/all-duplicate", "All yields <%s> twice although no entries overlap", hx(p.code))
		}
		coll[p.code] = p.val
	}
	if len(levels) == 1 {
		// no parent: exactly the map
		for _, c := range sortedKeys(eff) {
			want := eff[c]
			got, ok := coll[c]
			if !ok {
				return failf(tag+"/all-missing", "All does not yield <%s> (map: %d)", hx(c), want)
			}
			if got != want {
				return failf(tag+"/all-value", "All yields <%s> -> %d, map says %d", hx(c), got, want)
			}
		}
		for _, c := range sortedKeys(coll) {
			got := coll[c]
			if _, ok := eff[c]; !ok {
				return failf(tag+"/all-extra", "All yields <%s> -> %d which is not in the map", hx(c), got)
			}
		}
	} else {
		// with parents an entry may be left out where the parent already
		// answers; CID 0 and "absent" are the same answer (notdef)
		for _, c := range sortedKeys(eff) {
			want := eff[c]
			if got := coll[c]; got != want {
				return failf(tag+"/all-value", "collected enumeration has <%s> -> %d, chain of maps says %d", hx(c), got, want)
			}
		}
		for _, c := range sortedKeys(coll) {
			got := coll[c]
			if want := eff[c]; got != want {
				return failf(tag+"/all-extra", "collected enumeration has <%s> -> %d, chain of maps says %d", hx(c), got, want)
			}
		}
	}
	for _, c := range sortedKeys(coll) {
		v := coll[c]
		if got := uint32(f.LookupCID([]byte(c))); got != v {
			return failf(tag+"/all-vs-lookup", "enumeration says <%s> -> %d, LookupCID says %d", hx(c), v, got)
		}
	}
	return nil
}

// sameBehaviourCID compares two CMaps level by level (each level with its
// parent cut off): lookups on the given codes and the enumeration as a multiset.
func sameBehaviourCID(tag string, sp *space, codes []string, f, g *cmap.File) *failure {
	lvl := 0
	for f != nil && g != nil {
		f0, g0 := *f, *g
		f0.Parent, g0.Parent = nil, nil
		for _, c := range codes {
			a, b := f0.LookupCID([]byte(c)), g0.LookupCID([]byte(c))
			if a != b {
				return failf(tag+"/level-lookup", "level %d: LookupCID(<%s>) was %d before embedding, %d after extraction", lvl, hx(c), a, b)
			}
		}
		pa, pb := enumCID(&f0, sp), enumCID(&g0, sp)
		if d := diffCIDPairs(pa, pb); d != "" {
			return failf(tag+"/level-enumeration", "level %d: enumeration differs after extraction: %s", lvl, d)
		}
		if g.WMode != f.WMode {
			return failf(tag+"/wmode", "level %d: WMode %d became %d", lvl, f.WMode, g.WMode)
		}
		f, g = f.Parent, g.Parent
		lvl++
		if lvl > 10 {
			break
		}
	}
	if (f == nil) != (g == nil) {
		return failf(tag+"/chain-length", "parent chain differs after extraction at level %d", lvl)
	}
	return nil
}

func diffCIDPairs(a, b []cidPair) string {
	key := func(p cidPair) string { return fmt.Sprintf("%08x>%d", uint32(p.raw), p.val) }
	ka := make([]string, len(a))
	kb := make([]string, len(b))
	for i, p := range a {
		ka[i] = key(p)
	}
	for i, p := range b {
		kb[i] = key(p)
	}
	sort.Strings(ka)
	sort.Strings(kb)
	if len(ka) != len(kb) {
		return fmt.Sprintf("%d entries before, %d after", len(ka), len(kb))
	}
	for i := range ka {
		if ka[i] != kb[i] {
			return fmt.Sprintf("entry %s before, %s after", ka[i], kb[i])
		}
	}
	return ""
}

// roundTripCID embeds f in a new in-memory PDF file, closes it, opens the bytes
// with a new Reader and extracts the CMap again.
func roundTripCID(f *cmap.File, cfg config) (*cmap.File, string, error) {
	w, mf := memfile.NewPDFWriter(cfg.Version, &pdf.WriterOptions{HumanReadable: cfg.Human})
	rm := pdf.NewResourceManager(w)
	ref, err := rm.Embed(f)
	if err != nil {
		return nil, "embed", err
	}
	if err := rm.Close(); err != nil {
		return nil, "embed", err
	}
	if err := w.Close(); err != nil {
		return nil, "close", err
	}
	data := bytes.Clone(mf.Data)
	r, err := pdf.NewReader(bytes.NewReader(data), int64(len(data)), nil)
	if err != nil {
		return nil, "reopen", err
	}
	defer r.Close()
	g, err := pdf.Decode(pdf.NewCursor(r), ref, cmap.Extract)
	if err != nil {
		return nil, "extract", err
	}
	if g == nil {
		return nil, "extract", fmt.Errorf("Extract returned nil")
	}
	return g, "", nil
}

// ---------------------------------------------------------------------------
// code -> text

type tuPair struct {
	code string
	ok   bool
	raw  charcode.Code
	val  string
}

func enumTU(f *cmap.ToUnicodeFile, sp *space) []tuPair {
	var out []tuPair
	for c, v := range f.All(sp.codec) {
		b, ok := bytesOf(sp.rngs, c)
		out = append(out, tuPair{b, ok, c, v})
	}
	return out
}

func overlayTU(levels []map[string]string) map[string]string {
	eff := map[string]string{}
	for i := len(levels) - 1; i >= 0; i-- {
		for k, v := range levels[i] {
			eff[k] = v
		}
	}
	return eff
}

func buildTU(sp *space, levels []map[string]string) (*cmap.ToUnicodeFile, error) {
	var parent *cmap.ToUnicodeFile
	for i := len(levels) - 1; i >= 0; i-- {
		data := make(map[charcode.Code]string, len(levels[i]))
		for k, v := range levels[i] {
			data[codeOf(k)] = v
		}
		f, err := cmap.NewToUnicodeFile(toCSR(sp.rngs), data)
		if err != nil {
			return nil, err
		}
		f.Parent = parent
		parent = f
	}
	return parent, nil
}

func judgeTU(stage string, sp *space, window, probes []string, f *cmap.ToUnicodeFile, levels []map[string]string) *failure {
	tag := fmt.Sprintf("tu/%s/%s/chain=%d", stage, sp.kind, len(levels)-1)
	eff := overlayTU(levels)

	n := 0
	g := f
	for ; g != nil && n < len(levels); g = g.Parent {
		got, ok := fromCSR(g.CodeSpaceRange)
		if !ok || !sameCodeSpace(sp.rngs, got) {
			return failf(tag+"/codespace", "level %d: code space %v is not the space %s", n, g.CodeSpaceRange, csrKey(sp.rngs))
		}
		n++
	}
	if n != len(levels) || g != nil {
		return failf(tag+"/chain-length", "parent chain does not have length %d", len(levels)-1)
	}

	for _, c := range window {
		want, mapped := eff[c]
		got, ok := f.Lookup([]byte(c))
		if mapped && (!ok || got != want) {
			return failf(tag+"/lookup-mapped/"+textClass(want), "Lookup(<%s>) = %q, %v; map says %q", hx(c), got, ok, want)
		}
		if !mapped && ok {
			return failf(tag+"/lookup-unmapped", "Lookup(<%s>) = %q, true for an unmapped code", hx(c), got)
		}
	}
	for _, c := range probes {
		if got, ok := f.Lookup([]byte(c)); ok {
			cl := "neighbour"
			if len(c) != len(window[0]) {
				cl = "other-length"
			}
			return failf(tag+"/lookup-"+cl, "Lookup(<%s>) = %q, true for a code outside the map", hx(c), got)
		}
	}

	pairs := enumTU(f, sp)
	coll := map[string]string{}
	for _, p := range pairs {
		if !p.ok {
			return failf(tag+"/all-foreign-code", "All yields code %#x which is no code of the space", uint32(p.raw))
		}
		if _, dup := coll[p.code]; dup && len(levels) == 1 {
			return failf(tag+"/all-duplicate", "All yields <%s> twice although no entries overlap", hx(p.code))
		}
		coll[p.code] = p.val
	}
	for _, c := range sortedKeys(eff) {
		want := eff[c]
		got, ok := coll[c]
		if !ok {
			return failf(tag+"/all-missing", "All does not yield <%s> (map: %q)", hx(c), want)
		}
		if got != want {
			return failf(tag+"/all-value/"+textClass(want), "All yields <%s> -> %q, map says %q", hx(c), got, want)
		}
	}
	for _, c := range sortedKeys(coll) {
		got := coll[c]
		if _, ok := eff[c]; !ok {
			return failf(tag+"/all-extra", "All yields <%s> -> %q which is not in the map", hx(c), got)
		}
	}
	for _, c := range sortedKeys(coll) {
		v := coll[c]
		if got, ok := f.Lookup([]byte(c)); !ok || got != v {
			return failf(tag+"/all-vs-lookup", "enumeration says <%s> -> %q, Lookup says %q, %v", hx(c), v, got, ok)
		}
	}

	// GetMapping: the same map again, through the file's own code space
	gm, err := f.GetMapping()
	if err != nil {
		return failf(tag+"/getmapping-error", "GetMapping: %v", err)
	}
	if len(gm) != len(eff) {
		return failf(tag+"/getmapping", "GetMapping has %d entries, map has %d", len(gm), len(eff))
	}
	for _, c := range sortedKeys(eff) {
		want := eff[c]
		got, ok := gm[codeOf(c)]
		if !ok || got != want {
			return failf(tag+"/getmapping", "GetMapping[<%s>] = %q, %v; map says %q", hx(c), got, ok, want)
		}
	}
	return nil
}

func textClass(s string) string {
	rr := []rune(s)
	switch {
	case len(rr) == 0:
		return "empty"
	case len(rr) > 1:
		return "multi-rune"
	case rr[0] >= 0x10000:
		return "astral"
	case rr[0] >= 0xD000:
		return "bmp-high"
	}
	return "bmp"
}

func sameBehaviourTU(tag string, sp *space, codes []string, f, g *cmap.ToUnicodeFile) *failure {
	lvl := 0
	for f != nil && g != nil {
		f0, g0 := *f, *g
		f0.Parent, g0.Parent = nil, nil
		for _, c := range codes {
			a, aok := f0.Lookup([]byte(c))
			b, bok := g0.Lookup([]byte(c))
			if aok != bok || (aok && a != b) {
				return failf(tag+"/level-lookup", "level %d: Lookup(<%s>) was %q, %v before embedding, %q, %v after extraction", lvl, hx(c), a, aok, b, bok)
			}
		}
		pa, pb := enumTU(&f0, sp), enumTU(&g0, sp)
		if d := diffTUPairs(pa, pb); d != "" {
			return failf(tag+"/level-enumeration", "level %d: enumeration differs after extraction: %s", lvl, d)
		}
		f, g = f.Parent, g.Parent
		lvl++
		if lvl > 10 {
			break
		}
	}
	if (f == nil) != (g == nil) {
		return failf(tag+"/chain-length", "parent chain differs after extraction at level %d", lvl)
	}
	return nil
}

func diffTUPairs(a, b []tuPair) string {
	key := func(p tuPair) string { return fmt.Sprintf("%08x>%q", uint32(p.raw), p.val) }
	ka := make([]string, len(a))
	kb := make([]string, len(b))
	for i, p := range a {
		ka[i] = key(p)
	}
	for i, p := range b {
		kb[i] = key(p)
	}
	sort.Strings(ka)
	sort.Strings(kb)
	if len(ka) != len(kb) {
		return fmt.Sprintf("%d entries before, %d after", len(ka), len(kb))
	}
	for i := range ka {
		if ka[i] != kb[i] {
			return fmt.Sprintf("entry %s before, %s after", ka[i], kb[i])
		}
	}
	return ""
}

func roundTripTU(f *cmap.ToUnicodeFile, cfg config) (*cmap.ToUnicodeFile, string, error) {
	w, mf := memfile.NewPDFWriter(cfg.Version, &pdf.WriterOptions{HumanReadable: cfg.Human})
	rm := pdf.NewResourceManager(w)
	ref, err := rm.Embed(f)
	if err != nil {
		return nil, "embed", err
	}
	if err := rm.Close(); err != nil {
		return nil, "embed", err
	}
	if err := w.Close(); err != nil {
		return nil, "close", err
	}
	data := bytes.Clone(mf.Data)
	r, err := pdf.NewReader(bytes.NewReader(data), int64(len(data)), nil)
	if err != nil {
		return nil, "reopen", err
	}
	defer r.Close()
	g, err := pdf.Decode(pdf.NewCursor(r), ref, cmap.ExtractToUnicode)
	if err != nil {
		return nil, "extract", err
	}
	if g == nil {
		return nil, "extract", fmt.Errorf("ExtractToUnicode returned nil")
	}
	return g, "", nil
}

// ---------------------------------------------------------------------------
// structural keys (for de-duplication and for outcome classes)

func cidFormKey(f *cmap.File) string {
	var b strings.Builder
	for g := f; g != nil; g = g.Parent {
		for _, s := range g.CIDSingles {
			fmt.Fprintf(&b, "s%x=%d;", s.Code, s.Value)
		}
		for _, r := range g.CIDRanges {
			fmt.Fprintf(&b, "r%x-%x=%d;", r.First, r.Last, r.Value)
		}
		b.WriteByte('|')
	}
	return b.String()
}

// cidShapeKey is the form with the values of the child level left out.
func cidShapeKey(f *cmap.File) string {
	var b strings.Builder
	for _, s := range f.CIDSingles {
		fmt.Fprintf(&b, "s%x;", s.Code)
	}
	for _, r := range f.CIDRanges {
		fmt.Fprintf(&b, "r%x-%x;", r.First, r.Last)
	}
	return b.String()
}

func tuFormKey(f *cmap.ToUnicodeFile) string {
	var b strings.Builder
	for g := f; g != nil; g = g.Parent {
		for _, s := range g.Singles {
			fmt.Fprintf(&b, "s%x=%q;", s.Code, s.Value)
		}
		for _, r := range g.Ranges {
			fmt.Fprintf(&b, "r%x-%x=%q;", r.First, r.Last, r.Values)
		}
		b.WriteByte('|')
	}
	return b.String()
}

// tuShapeKey keeps the codes, the kind of entry and whether a range carries a
// list of values.
func tuShapeKey(f *cmap.ToUnicodeFile) string {
	var b strings.Builder
	for _, s := range f.Singles {
		fmt.Fprintf(&b, "s%x;", s.Code)
	}
	for _, r := range f.Ranges {
		fmt.Fprintf(&b, "r%x-%x/%v;", r.First, r.Last, len(r.Values) > 1)
	}
	return b.String()
}

// sortedKeys makes the order in which a map is judged (and so the message of
// the first failure) the same in every run.
func sortedKeys[V any](m map[string]V) []string {
	keys := make([]string, 0, len(m))
	for k := range m {
		keys = append(keys, k)
	}
	sort.Strings(keys)
	return keys
}
