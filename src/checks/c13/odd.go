//go:build verif

package c13

import (
	"fmt"
	"sort"
	"strings"

	"seehuhn.de/go/pdf/font/cmap"
	"seehuhn.de/go/pdf/zzverif/engine/ev"
)

// Hand-built files with "odd" ranges.
//
// A cidrange / bfrange entry of a CMap stream is a pair of byte strings of
// equal length.  The specifications give such an entry a meaning when only the
// last byte differs (ISO 32000-2 9.10.3 and Adobe Technical Note 5411 for
// bfrange: the last byte of the destination is incremented, and a range must
// not leave its row <xx00>..<xxFF>; the cidrange entries of the CMaps of
// Technical Notes 5014/5099 have this form too), and by common consent when
// all lower bytes span 00..FF (<0000>-<FFFF> of Identity-H), where "the codes
// between the end points as numbers" and "every byte between its end points"
// are the same set in the same order.  For every other pair of end points —
// several rows with a partial span of the last byte, end points in
// lexicographic but not byte-wise order such as <41F0>-<4210>, first > last —
// readers differ (numeric interval, rectangle, nothing) and no text decides.
// The library accepts all of them in a File / ToUnicodeFile value, writes them,
// and reads back every pair with first <= last lexicographically.
//
// The statement therefore demands of such entries only what it says:
// enumeration and lookup agree with each other wherever entries do not
// overlap, before and after Embed -> Extract, and extraction changes neither.
// "Where entries do not overlap" is taken generously: the extent of an entry is
// every code it could denote under any reading (the rectangle spanned by the
// end points byte by byte, united with the numeric interval between them), and
// a code is judged if it lies in the extent of at most one entry.  A reference
// *value* is demanded only for entries whose meaning is defined: singles and
// one-row ranges in byte-wise order.
//
// The family: every ordered pair (first, last) of end points from a small grid
// of codes per code length (so that every byte position is <, = and > in some
// pair, with every lexicographic order, widths 1, full and partial spans), as
// the only range of the file, or preceded / followed by an ordinary one-row
// range that no reading of the odd range touches.

type oddGrid struct {
	space         string
	bytes         [][]byte // the values every byte of an end point takes
	before, after rng      // ordinary one-row ranges outside every extent of the grid
}

func (g oddGrid) points() []string {
	out := []string{""}
	for _, vals := range g.bytes {
		var next []string
		for _, p := range out {
			for _, v := range vals {
				next = append(next, p+string([]byte{v}))
			}
		}
		out = next
	}
	return out
}

// byteRelations describes a pair of end points byte by byte: '<', '=' or '>'.
func byteRelations(first, last string) string {
	var b strings.Builder
	for i := 0; i < len(first); i++ {
		switch {
		case first[i] < last[i]:
			b.WriteByte('<')
		case first[i] > last[i]:
			b.WriteByte('>')
		default:
			b.WriteByte('=')
		}
	}
	return b.String()
}

// the numeric interval between two end points is listed completely up to
// 2*oddIntervalEnd codes, else its first and last oddIntervalEnd codes
const oddIntervalEnd = 1024

// extent returns every code the range first..last could denote: the rectangle
// spanned byte by byte, and the numeric (big-endian) interval between the end
// points in either order.
func extent(first, last string) map[string]bool {
	set := map[string]bool{}
	lo, hi := []byte(first), []byte(last)
	box := rng{"", ""}
	for i := range lo {
		a, b := lo[i], hi[i]
		if a > b {
			a, b = b, a
		}
		box.lo += string([]byte{a})
		box.hi += string([]byte{b})
	}
	for _, c := range box.expand() {
		set[c] = true
	}
	a, b := first, last
	if a > b {
		a, b = b, a
	}
	c := a
	for i := 0; i < oddIntervalEnd; i++ {
		set[c] = true
		if c == b {
			return set
		}
		n, ok := addBE(c, 1)
		if !ok {
			return set
		}
		c = n
	}
	c = b
	for i := 0; i < oddIntervalEnd; i++ {
		set[c] = true
		n, ok := addBE(c, -1)
		if !ok || n < a {
			break
		}
		c = n
	}
	return set
}

// regular reports whether the meaning of the entry is defined: a single, or a
// range within one row in byte-wise order.
func (e entrySpec) regular() bool {
	if e.Last == "" {
		return true
	}
	r := e.rng()
	return len(r.lo) == len(r.hi) && r.oneRow() && r.lo <= r.hi
}

func (e entrySpec) class() string {
	if e.Last == "" {
		return "single"
	}
	r := e.rng()
	return "range-bytes:" + byteRelations(r.lo, r.hi)
}

type oddView struct {
	ext      []map[string]bool // per entry of spec.Map
	universe []string
	reversed bool // some range has first > last lexicographically: the reader refuses it
}

func (spec *fileSpec) oddPrep() *oddView {
	v := &oddView{}
	uni := map[string]bool{}
	var corners []string
	for _, e := range spec.Map {
		r := e.rng()
		x := extent(r.lo, r.hi)
		v.ext = append(v.ext, x)
		for c := range x {
			uni[c] = true
		}
		corners = append(corners, r.lo, r.hi)
		if r.lo > r.hi {
			v.reversed = true
		}
	}
	for _, p := range probesFor(corners) {
		uni[p] = true
	}
	v.universe = sortedKeys(uni)
	return v
}

func (v *oddView) cover(c string) []int {
	var out []int
	for i, x := range v.ext {
		if x[c] {
			out = append(out, i)
		}
	}
	return out
}

// judgeOddCID demands that All and LookupCID agree on every code that lies in
// the extent of at most one entry, and the entry's value where its meaning is
// defined.
func judgeOddCID(stage string, sp *space, spec *fileSpec, v *oddView, f *cmap.File) *failure {
	tag := "cidfile/" + stage + "/" + sp.kind
	type obs struct {
		n int
		v uint32
	}
	seen := map[string]obs{}
	for _, p := range enumCID(f, sp) {
		if !p.ok {
			return failf(tag+"/all-foreign-code", "All yields code %#x which is no code of the space", uint32(p.raw))
		}
		o := seen[p.code]
		o.n++
		o.v = p.val
		seen[p.code] = o
	}
	codes := v.universe
	for _, c := range sortedKeys(seen) {
		if i := sort.SearchStrings(v.universe, c); i == len(v.universe) || v.universe[i] != c {
			codes = append(codes, c)
		}
	}
	for _, c := range codes {
		cov := v.cover(c)
		if len(cov) > 1 {
			continue
		}
		o := seen[c]
		got := uint32(f.LookupCID([]byte(c)))
		if len(cov) == 0 {
			if o.n != 0 {
				return failf(tag+"/all-extra", "<%s> lies in no entry under any reading but All yields it", hx(c))
			}
			if want := spec.notdef(c); got != want {
				return failf(tag+"/lookup-notdef", "LookupCID(<%s>) = %d for a code in no entry, notdef entries say %d", hx(c), got, want)
			}
			continue
		}
		e := spec.Map[cov[0]]
		cl := e.class()
		switch {
		case o.n > 1:
			return failf(tag+"/all-count/"+cl, "<%s> can only belong to the entry <%s>-<%s> but All yields it %d times", hx(c), e.First, e.Last, o.n)
		case o.n == 1 && got != o.v:
			return failf(tag+"/all-vs-lookup/"+cl, "entry <%s>-<%s>: All yields <%s> -> %d, LookupCID gives %d", e.First, e.Last, hx(c), o.v, got)
		case o.n == 0 && got != spec.notdef(c):
			return failf(tag+"/lookup-vs-all/"+cl, "entry <%s>-<%s>: LookupCID(<%s>) = %d but All does not yield the code", e.First, e.Last, hx(c), got)
		}
		if e.regular() && e.rng().has(c) {
			r := e.rng()
			want := uint64(e.CID) + uint64(c[len(c)-1]-r.lo[len(c)-1])
			if o.n != 1 {
				return failf(tag+"/all-count/"+cl, "<%s> lies in the one-row entry <%s>-<%s> but All yields it %d times", hx(c), e.First, e.Last, o.n)
			}
			if want <= 0xFFFFFFFF && uint64(got) != want {
				return failf(tag+"/value/"+cl, "<%s>: LookupCID gives %d, entry says %d", hx(c), got, want)
			}
		}
	}
	return nil
}

func judgeOddTU(stage string, sp *space, spec *fileSpec, v *oddView, f *cmap.ToUnicodeFile) *failure {
	tag := "tufile/" + stage + "/" + sp.kind
	type obs struct {
		n int
		v string
	}
	seen := map[string]obs{}
	for _, p := range enumTU(f, sp) {
		if !p.ok {
			return failf(tag+"/all-foreign-code", "All yields code %#x which is no code of the space", uint32(p.raw))
		}
		o := seen[p.code]
		o.n++
		o.v = p.val
		seen[p.code] = o
	}
	codes := v.universe
	for _, c := range sortedKeys(seen) {
		if i := sort.SearchStrings(v.universe, c); i == len(v.universe) || v.universe[i] != c {
			codes = append(codes, c)
		}
	}
	for _, c := range codes {
		cov := v.cover(c)
		if len(cov) > 1 {
			continue
		}
		o := seen[c]
		got, ok := f.Lookup([]byte(c))
		if len(cov) == 0 {
			if o.n != 0 {
				return failf(tag+"/all-extra", "<%s> lies in no entry under any reading but All yields it", hx(c))
			}
			if ok {
				return failf(tag+"/lookup-absent", "Lookup(<%s>) = %q, true for a code in no entry", hx(c), got)
			}
			continue
		}
		e := spec.Map[cov[0]]
		cl := e.class()
		switch {
		case o.n > 1:
			return failf(tag+"/all-count/"+cl, "<%s> can only belong to the entry <%s>-<%s> but All yields it %d times", hx(c), e.First, e.Last, o.n)
		case o.n == 1 && (!ok || got != o.v):
			return failf(tag+"/all-vs-lookup/"+cl, "entry <%s>-<%s>: All yields <%s> -> %q, Lookup gives %q, %v", e.First, e.Last, hx(c), o.v, got, ok)
		case o.n == 0 && ok:
			return failf(tag+"/lookup-vs-all/"+cl, "entry <%s>-<%s>: Lookup(<%s>) = %q, true but All does not yield the code", e.First, e.Last, hx(c), got)
		}
		if e.regular() && e.rng().has(c) {
			r := e.rng()
			if o.n != 1 {
				return failf(tag+"/all-count/"+cl, "<%s> lies in the one-row entry <%s>-<%s> but All yields it %d times", hx(c), e.First, e.Last, o.n)
			}
			off := int(c[len(c)-1] - r.lo[len(c)-1])
			switch {
			case e.Last == "" || (len(e.Text) > 1 && off < len(e.Text)):
				if got != e.Text[off] {
					return failf(tag+"/value/list", "<%s>: Lookup gives %q, the entry's value %d is %q", hx(c), got, off, e.Text[off])
				}
			case len(e.Text) == 1:
				if want, ok := refNext(e.Text[0], off); ok && got != want {
					return failf(tag+"/value/increment/"+textClass(e.Text[0]), "<%s>: Lookup gives %q, %q with the last rune incremented by %d is %q", hx(c), got, e.Text[0], off, want)
				}
			}
		}
	}
	return nil
}

// oddFileCase runs one hand-built file with odd ranges: in memory, and through
// a file for every configuration in cfgs.
func (rn *runner) oddFileCase(kind string, sp *space, spec *fileSpec, cfgs []config) {
	r := rn.r
	r.Eval(1)
	v := spec.oddPrep()
	var single []string // the codes on which extraction must change nothing
	for _, c := range v.universe {
		if len(v.cover(c)) <= 1 {
			single = append(single, c)
		}
	}
	mk := func(embed bool, cfg config) Case {
		c := Case{Kind: kind, Space: sp.name, File: spec, Embed: embed, WMode: cfg.WMode, Human: cfg.Human}
		if embed {
			c.Version = verString(cfg.Version)
		}
		return c
	}
	cls := "regular"
	for _, e := range spec.Map {
		if !e.regular() {
			cls = e.class()
		}
	}
	if kind == "cidfile" {
		f := buildCIDFile(spec, 0)
		f.CodeSpaceRange = toCSR(sp.rngs)
		if fl := judgeOddCID("mem", sp, spec, v, f); fl != nil {
			rn.report(fl, mk(false, config{}))
			return
		}
		r.Outcome("ok:oddfile:cid:mem")
		for _, cfg := range cfgs {
			r.Eval(1)
			f := buildCIDFile(spec, cfg.WMode)
			f.CodeSpaceRange = toCSR(sp.rngs)
			g, stage, err := roundTripCID(f, cfg)
			tag := "cidfile/rt/" + sp.kind
			if err != nil {
				if stage == "extract" && v.reversed {
					// not accepted: the reader refuses a range with first > last
					r.Outcome("rejected:oddfile:cid:extract:first>last")
					r.Count("handbuilt_odd_range_round_trips_refused_by_the_reader_first_gt_last", 1)
					continue
				}
				rn.report(failf(tag+"/"+stage+"-error/"+cls, "%s: %v (%s)", stage, err, cfg), mk(true, cfg))
				continue
			}
			got, ok := fromCSR(g.CodeSpaceRange)
			if !ok || !sameCodeSpace(sp.rngs, got) {
				rn.report(failf(tag+"/codespace", "code space %v is not the space %s", g.CodeSpaceRange, csrKey(sp.rngs)), mk(true, cfg))
				continue
			}
			if fl := judgeOddCID("rt", sp, spec, v, g); fl != nil {
				rn.report(fl, mk(true, cfg))
				continue
			}
			if fl := sameBehaviourCID(tag, sp, single, f, g); fl != nil {
				rn.report(fl, mk(true, cfg))
				continue
			}
			r.Outcome("ok:oddfile:cid:roundtrip")
		}
		return
	}
	f := buildTUFile(spec)
	f.CodeSpaceRange = toCSR(sp.rngs)
	if fl := judgeOddTU("mem", sp, spec, v, f); fl != nil {
		rn.report(fl, mk(false, config{}))
		return
	}
	r.Outcome("ok:oddfile:tu:mem")
	for _, cfg := range cfgs {
		r.Eval(1)
		f := buildTUFile(spec)
		f.CodeSpaceRange = toCSR(sp.rngs)
		g, stage, err := roundTripTU(f, cfg)
		tag := "tufile/rt/" + sp.kind
		if err != nil {
			if stage == "extract" && v.reversed {
				r.Outcome("rejected:oddfile:tu:extract:first>last")
				r.Count("handbuilt_odd_range_round_trips_refused_by_the_reader_first_gt_last", 1)
				continue
			}
			rn.report(failf(tag+"/"+stage+"-error/"+cls, "%s: %v (%s)", stage, err, cfg), mk(true, cfg))
			continue
		}
		got, ok := fromCSR(g.CodeSpaceRange)
		if !ok || !sameCodeSpace(sp.rngs, got) {
			rn.report(failf(tag+"/codespace", "code space %v is not the space %s", g.CodeSpaceRange, csrKey(sp.rngs)), mk(true, cfg))
			continue
		}
		if fl := judgeOddTU("rt", sp, spec, v, g); fl != nil {
			rn.report(fl, mk(true, cfg))
			continue
		}
		if fl := sameBehaviourTU(tag, sp, single, f, g); fl != nil {
			rn.report(fl, mk(true, cfg))
			continue
		}
		r.Outcome("ok:oddfile:tu:roundtrip")
	}
}

// runOddFiles enumerates the odd-range family.
func (rn *runner) runOddFiles() {
	r := rn.r
	grids := []oddGrid{
		{
			space:  "1-byte <00>-<FF>",
			bytes:  [][]byte{{0x10, 0x20, 0xe0, 0xf0}},
			before: rng{"\x04", "\x07"}, after: rng{"\xf8", "\xfb"},
		},
		{
			space:  "2-byte <0000>-<FFFF>",
			bytes:  [][]byte{ev.Pick(r, []byte{0x41, 0x42}, []byte{0x41, 0x42, 0x43}), {0x00, 0x10, 0xf0, 0xff}},
			before: rng{"\x40\x20", "\x40\x23"}, after: rng{"\x44\x20", "\x44\x23"},
		},
		{
			space:  "3-byte <810000>-<83FFFF>",
			bytes:  [][]byte{{0x82, 0x83}, {0x41, 0x42}, ev.Pick(r, []byte{0x10, 0xf0}, []byte{0x00, 0x10, 0xf0, 0xff})},
			before: rng{"\x81\x41\x20", "\x81\x41\x23"}, after: rng{"\x83\xff\x20", "\x83\xff\x23"},
		},
	}
	cidStarts := []uint32{1, 0xFFFFFFF0}
	tuValues := [][]string{{"A"}, {"A", "Q"}}

	type job struct {
		kind string
		sp   *space
		spec *fileSpec
		full bool
	}
	var jobs []job
	pairs := 0
	classes := map[string]int{}
	var gridDesc []string
	for _, g := range grids {
		sp := rn.spaces[g.space]
		pts := g.points()
		var d []string
		for _, vals := range g.bytes {
			d = append(d, fmt.Sprintf("%x", vals))
		}
		gridDesc = append(gridDesc, fmt.Sprintf("%s: bytes %s = %d end points", sp.kind, strings.Join(d, " x "), len(pts)))
		for _, first := range pts {
			for _, last := range pts {
				pairs++
				classes[fmt.Sprintf("%d bytes %s", len(first), byteRelations(first, last))]++
				// no reading of the odd range may touch the ordinary ranges
				x := extent(first, last)
				for _, o := range []rng{g.before, g.after} {
					for _, c := range o.expand() {
						if x[c] || !inSpace(sp.rngs, c) {
							panic("odd-range grid: the ordinary range is not clear of <" + hx(first) + ">-<" + hx(last) + ">")
						}
					}
				}
				for place := 0; place < 3; place++ { // alone, after an ordinary range, before one
					for si, start := range cidStarts {
						odd := entrySpec{First: hx(first), Last: hx(last), CID: start}
						spec := &fileSpec{Odd: true, Map: []entrySpec{odd}}
						switch place {
						case 1:
							spec.Map = []entrySpec{{First: hx(g.before.lo), Last: hx(g.before.hi), CID: 500}, odd}
						case 2:
							spec.Map = []entrySpec{odd, {First: hx(g.after.lo), Last: hx(g.after.hi), CID: 500}}
						}
						jobs = append(jobs, job{"cidfile", sp, spec, place == 0 && si == 0})
					}
					for vi, val := range tuValues {
						odd := entrySpec{First: hx(first), Last: hx(last), Text: val}
						spec := &fileSpec{Odd: true, Map: []entrySpec{odd}}
						switch place {
						case 1:
							spec.Map = []entrySpec{{First: hx(g.before.lo), Last: hx(g.before.hi), Text: []string{"q"}}, odd}
						case 2:
							spec.Map = []entrySpec{odd, {First: hx(g.after.lo), Last: hx(g.after.hi), Text: []string{"q"}}}
						}
						jobs = append(jobs, job{"tufile", sp, spec, place == 0 && vi == 0})
					}
				}
			}
		}
	}
	// every byte position must be <, = and > in some pair
	for _, g := range grids {
		n := 1
		for range g.bytes {
			n *= 3
		}
		have := 0
		for k := range classes {
			if strings.HasPrefix(k, fmt.Sprintf("%d bytes ", len(g.bytes))) {
				have++
			}
		}
		if have != n {
			r.Infra(fmt.Sprintf("odd-range grid of %d-byte codes realises %d of %d byte-relation classes", len(g.bytes), have, n))
			return
		}
	}
	r.Dim("handbuilt_odd_range_grids", gridDesc)
	r.Dim("handbuilt_odd_range_end_point_pairs", pairs)
	r.Dim("handbuilt_odd_range_byte_relation_classes", classes)
	r.Dim("handbuilt_odd_range_placements", []string{"alone", "after an ordinary one-row range", "before an ordinary one-row range"})
	r.Dim("handbuilt_odd_range_cid_start_values", cidStarts)
	r.Dim("handbuilt_odd_range_text_values", tuValues)
	r.Dim("handbuilt_odd_range_files", len(jobs))

	r.Par(len(jobs), func(i int) {
		if r.Expired() || r.TooManyViolations() {
			return
		}
		j := jobs[i]
		var cfgs []config
		if j.kind == "cidfile" {
			cfgs = []config{allConfigs[i%len(allConfigs)]}
			if j.full {
				cfgs = allConfigs
			}
		} else {
			cfgs = []config{tuConfigs[i%len(tuConfigs)]}
			if j.full {
				cfgs = tuConfigs
			}
		}
		rn.oddFileCase(j.kind, j.sp, j.spec, cfgs)
		r.DistinctS(fmt.Sprintf("odd/%s/%d", j.kind, i))
		if i == 1000 {
			r.Sample(Case{Kind: j.kind, Space: j.sp.name, File: j.spec, Embed: true, Version: "1.7"})
		}
	})
}
