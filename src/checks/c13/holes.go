//go:build verif

package c13

import (
	"fmt"
	"sort"
	"strings"

	"seehuhn.de/go/pdf/font/charcode"
)

// Hand-built files in code spaces with holes.
//
// In every other family of hand-built files the code space is one rectangle
// and every range lies inside it: every byte string a range denotes is a code.
// The code spaces of real CJK CMaps are not like that: 90ms-RKSJ-H declares
// <00>-<80>, <8140>-<9F7E>, <8180>-<9FFC>, <A0>-<DF>, so between the codes
// <817E> and <8180> lies a byte string that is no code, and between the
// one-byte codes <80> and <A0> lie the lead bytes of the two-byte codes.  A
// cidrange / bfrange whose rectangle crosses such a hole is legal (it is the
// natural way of writing <8140>-<81FC>): the entry says what every *code*
// inside it maps to, by its position in the range; the byte strings in the
// hole are no codes, enumeration skips them and nobody looks them up.
//
// The family: per code space and code length a small grid of byte values
// around the edges of every hole (the last valid byte, the first invalid one,
// ... ) for every byte position, and EVERY rectangle First <= Last (byte by
// byte) with end points on the grid, as the only range of the file or after /
// before an ordinary one-row range of another row.  holePatterns classifies the
// rectangles by the sequence of codes (V) and non-codes (I) in enumeration
// order; the run refuses to start unless ranges that begin, end and continue
// after a hole all occur.
//
// The oracle is the one of the other hand-built files (judgeCIDFile /
// judgeTUFile), restricted to the byte strings that are codes of the space:
// a code in exactly one entry is enumerated exactly once, and lookup agrees
// with the enumeration; in a one-row range the value is the one its position in
// the range says (consecutive CIDs; list element; last rune incremented);
// multi-row ranges only have to agree between All and Lookup; a code in no
// entry is not enumerated and looks up as notdef / absent; the round trip
// through a file changes none of this, nor the code space.

type holeGrid struct {
	space string
	bytes [][]byte // the values every byte of an end point takes
	other rng      // an ordinary one-row range that no rectangle of the grid touches
}

const (
	holes12Name = "holes <00>-<80> <8140>-<9F7E> <8180>-<9FFC> <A0>-<DF>"
	holes3Name  = "holes <814000>-<817EFF> <818000>-<81FCFF>"
	full3Name   = "3-byte <000000>-<FFFFFF>"
	full4Name   = "4-byte <00000000>-<FFFFFFFF>"
)

// initFileSpaces builds the code spaces that only the families of hand-built
// files use.
func (rn *runner) initFileSpaces() error {
	rn.fileSpaces = map[string]*space{}
	for _, sp := range []*space{
		{
			// the code space of 90ms-RKSJ-H (Shift-JIS): holes in the second
			// byte (00..3F, 7F, FD..FF) and among the one-byte codes (81..9F
			// are lead bytes, E0..FF nothing)
			name: holes12Name, kind: "holes12", holes: true,
			rngs: []rng{{"\x00", "\x80"}, {"\x81\x40", "\x9f\x7e"}, {"\x81\x80", "\x9f\xfc"}, {"\xa0", "\xdf"}},
		},
		{
			// a hole in the middle byte: whole rows of a range are no codes
			name: holes3Name, kind: "holes3", holes: true,
			rngs: []rng{{"\x81\x40\x00", "\x81\x7e\xff"}, {"\x81\x80\x00", "\x81\xfc\xff"}},
		},
		{name: full3Name, kind: "3byte-full", rngs: []rng{{"\x00\x00\x00", "\xff\xff\xff"}}},
		{name: full4Name, kind: "4byte-full", rngs: []rng{{"\x00\x00\x00\x00", "\xff\xff\xff\xff"}}},
	} {
		c, err := charcode.NewCodec(toCSR(sp.rngs))
		if err != nil {
			return fmt.Errorf("NewCodec(%s): %v", sp.name, err)
		}
		sp.codec = c
		rn.fileSpaces[sp.name] = sp
	}
	return nil
}

func holeGrids() []holeGrid {
	return []holeGrid{
		{
			space: holes12Name,
			bytes: [][]byte{{0x00, 0x7f, 0x80, 0x81, 0x9f, 0xa0, 0xa1, 0xdf, 0xe0, 0xff}},
			other: rng{"\x88\x50", "\x88\x53"},
		},
		{
			space: holes12Name,
			bytes: [][]byte{{0x80, 0x81, 0x82, 0x9f, 0xa0}, {0x3f, 0x40, 0x7e, 0x7f, 0x80, 0xfc, 0xfd}},
			other: rng{"\x20", "\x23"},
		},
		{
			space: holes3Name,
			bytes: [][]byte{{0x81}, {0x7e, 0x7f, 0x80}, {0x00, 0x01, 0xfe, 0xff}},
			other: rng{"\x81\x40\x10", "\x81\x40\x13"},
		},
	}
}

func (g holeGrid) points() []string {
	return oddGrid{bytes: g.bytes}.points()
}

// holePattern describes a rectangle by the runs of codes (V) and of byte
// strings that are no codes (I) in enumeration order; more than five runs are
// cut short with "+".
func holePattern(sp *space, r rng) string {
	var b strings.Builder
	var last byte
	runs := 0
	for _, c := range r.expand() {
		x := byte('I')
		if inSpace(sp.rngs, c) {
			x = 'V'
		}
		if x != last {
			runs++
			if runs > 5 {
				b.WriteByte('+')
				break
			}
			b.WriteByte(x)
			last = x
		}
	}
	return b.String()
}

// the patterns the grids must realise: no hole; a range that ends, begins,
// continues after a hole; nothing but hole; several holes
var holePatternsRequired = []string{"V", "VI", "IV", "VIV", "IVI", "I", "VIVIV", "IVIVI+"}

// codecAgrees compares charcode.NewCodec with the reference on the given byte
// strings.  Whether the codec is right is property C12; a code space on which it
// is not is not used here.
func codecAgrees(sp *space, codes []string) (string, bool) {
	for _, c := range codes {
		_, k, valid := sp.codec.Decode([]byte(c))
		if (valid && k == len(c)) != inSpace(sp.rngs, c) {
			return c, false
		}
	}
	return "", true
}

// runHoleFiles enumerates the hole family.
func (rn *runner) runHoleFiles() {
	r := rn.r
	cidStarts := []uint32{1, 0xFFFFFFF0}
	tuValues := [][]string{{"A"}, {"AB"}, {"\U0001F600"}, {"A", "Q"}}

	type job struct {
		kind string
		sp   *space
		spec *fileSpec
		full bool
	}
	var jobs []job
	var gridDesc []string
	notRun := []string{}
	patterns := map[string]int{}
	nrect := 0
	for _, g := range holeGrids() {
		sp := rn.fileSpaces[g.space]
		pts := g.points()
		var d []string
		for _, vals := range g.bytes {
			d = append(d, fmt.Sprintf("%x", vals))
		}
		var rects []rng
		uni := map[string]bool{}
		for _, first := range pts {
			for _, last := range pts {
				rc := rng{first, last}
				if !rc.has(first) { // not First <= Last byte by byte
					continue
				}
				rects = append(rects, rc)
				for _, c := range rc.expand() {
					uni[c] = true
				}
			}
		}
		for _, c := range g.other.expand() {
			if uni[c] || !inSpace(sp.rngs, c) {
				panic("hole grid: the ordinary range is not clear of the grid")
			}
			uni[c] = true
		}
		if c, ok := codecAgrees(sp, append(sortedKeys(uni), probesFor(pts)...)); !ok {
			notRun = append(notRun, fmt.Sprintf("%s: <%s>", sp.kind, hx(c)))
			continue
		}
		gridDesc = append(gridDesc, fmt.Sprintf("%s: %d-byte end points %s, %d rectangles", sp.kind, len(g.bytes), strings.Join(d, " x "), len(rects)))
		nrect += len(rects)
		for _, rc := range rects {
			patterns[holePattern(sp, rc)]++
			for place := 0; place < 3; place++ { // alone, after an ordinary range, before one
				put := func(e, o entrySpec) []entrySpec {
					switch place {
					case 1:
						return []entrySpec{o, e}
					case 2:
						return []entrySpec{e, o}
					}
					return []entrySpec{e}
				}
				for si, start := range cidStarts {
					e := entrySpec{First: hx(rc.lo), Last: hx(rc.hi), CID: start}
					o := entrySpec{First: hx(g.other.lo), Last: hx(g.other.hi), CID: 500}
					jobs = append(jobs, job{"cidfile", sp, &fileSpec{Map: put(e, o)}, place == 0 && si == 0})
				}
				for vi, val := range tuValues {
					e := entrySpec{First: hx(rc.lo), Last: hx(rc.hi), Text: val}
					o := entrySpec{First: hx(g.other.lo), Last: hx(g.other.hi), Text: []string{"q"}}
					jobs = append(jobs, job{"tufile", sp, &fileSpec{Map: put(e, o)}, place == 0 && vi == 0})
				}
			}
		}
	}
	r.Dim("handbuilt_hole_code_spaces", []string{holes12Name, holes3Name})
	r.Dim("handbuilt_hole_range_grids", gridDesc)
	r.Dim("handbuilt_hole_range_rectangles", nrect)
	r.Dim("handbuilt_hole_range_patterns_of_codes_V_and_non_codes_I_in_enumeration_order", patterns)
	r.Dim("handbuilt_hole_range_placements", []string{"alone", "after an ordinary one-row range", "before an ordinary one-row range"})
	r.Dim("handbuilt_hole_range_cid_start_values", cidStarts)
	r.Dim("handbuilt_hole_range_text_values", tuValues)
	r.Dim("handbuilt_hole_range_files", len(jobs))
	sort.Strings(notRun)
	r.Dim("handbuilt_hole_code_spaces_not_run_because_NewCodec_disagrees_with_the_reference_C12", notRun)
	if len(notRun) == 0 {
		for _, p := range holePatternsRequired {
			if patterns[p] == 0 {
				r.Infra("hole family: no rectangle realises the pattern " + p)
				return
			}
		}
	}

	r.Par(len(jobs), func(i int) {
		if r.Expired() || r.TooManyViolations() {
			return
		}
		j := jobs[i]
		var cfgs []config
		if j.kind == "cidfile" {
			cfgs = []config{allConfigs[i%len(allConfigs)]}
			if j.full {
				cfgs = allConfigs
			}
		} else {
			cfgs = []config{tuConfigs[i%len(tuConfigs)]}
			if j.full {
				cfgs = tuConfigs
			}
		}
		rn.fileCase(j.kind, j.sp, j.spec, cfgs)
		r.DistinctS(fmt.Sprintf("hole/%s/%d", j.kind, i))
		if i == 700 || i == 703 {
			r.Sample(Case{Kind: j.kind, Space: j.sp.name, File: j.spec, Embed: true, Version: "1.7"})
		}
	})
}
