//go:build verif

package c13

import (
	"fmt"
	"sort"
	"strings"
)

// Hand-built files with notdef ranges of every size.
//
// The notdef ranges of the other hand-built files hold at most 2 x 2^16 codes,
// and they are looked up near their corners only.  A notdef range is the one
// kind of entry that is large in real files (<00>-<FF>, <0000>-<FFFF>, the
// whole of a 4-byte code space) because every code in it has the same CID; it
// is never enumerated, only membership matters, and membership must not depend
// on how far into the range a code lies.
//
// The family: code lengths 1..4 in the full code spaces <00>-<FF> ..
// <00000000>-<FFFFFFFF>; the notdef range is a rectangle whose span (number of
// values) at every byte position comes from {1, 2, 127, 128, 129, 255, 256} -
// EVERY tuple of spans, so the sizes pass every power of two up to 2^32 from
// both sides (128*256^3 = 2^31, 129*256^3, 256^3*129, 255*256^3, 256^4, ...) -
// anchored at the low end (First = 00..00) or at the high end (Last = FF..FF)
// of every byte; with no other entry, or with a single at the low corner and a
// one-row range at the high corner (mapped codes inside the notdef range keep
// their CID).  Lookups only: the corners and their neighbours (as for every
// hand-built file), and the codes at the positions 0, size-1 and 2^k-1, 2^k,
// 2^k+1 (k = 0..32) of the range, counted with the last byte running fastest.
//
// The oracle is the one of the other hand-built files: a code in no entry of
// the map that lies in the rectangle of the notdef range byte by byte looks up
// (LookupCID and LookupNotdefCID) as the CID of the notdef range; a code
// outside the numeric interval between the end points as 0; codes between the
// end points as numbers but outside the rectangle have no agreed meaning and
// are not probed.  All must yield exactly the entries of the map.  The same
// after Embed -> Extract.

var sizeSpans = []int{1, 2, 127, 128, 129, 255, 256}

func sizeSpaceName(n int) string {
	switch n {
	case 1:
		return "1-byte <00>-<FF>"
	case 2:
		return "2-byte <0000>-<FFFF>"
	case 3:
		return full3Name
	}
	return full4Name
}

// codeAt returns the code at position pos of the rectangle that starts at
// first and has the given spans, the last byte running fastest.
func codeAt(first string, spans []int, pos uint64) string {
	b := []byte(first)
	for i := len(b) - 1; i >= 0; i-- {
		b[i] += byte(pos % uint64(spans[i]))
		pos /= uint64(spans[i])
	}
	return string(b)
}

// sizeProbePositions lists the positions probed in a range of the given size.
func sizeProbePositions(size uint64) []uint64 {
	set := map[uint64]bool{0: true, size - 1: true}
	for k := 0; k <= 32; k++ {
		for d := -1; d <= 1; d++ {
			if p := uint64(int64(1)<<k + int64(d)); p < size {
				set[p] = true
			}
		}
	}
	var out []uint64
	for p := range set {
		out = append(out, p)
	}
	sort.Slice(out, func(i, j int) bool { return out[i] < out[j] })
	return out
}

func (rn *runner) runSizeFiles() {
	r := rn.r
	const notdefCID = 7

	type job struct {
		sp   *space
		spec *fileSpec
		full bool
	}
	var jobs []job
	nranges := 0
	bySize := map[string]int{}
	var lens []int
	for n := 1; n <= 4; n++ {
		lens = append(lens, n)
		sp := rn.spaces[sizeSpaceName(n)]
		if sp == nil {
			sp = rn.fileSpaces[sizeSpaceName(n)]
		}
		total := pow(len(sizeSpans), n)
		idx := make([]int, n)
		seen := map[string]bool{}
		for t := 0; t < total; t++ {
			digits(t, iota0(len(sizeSpans)), idx)
			spans := make([]int, n)
			size := uint64(1)
			big := true // every span is one of 128, 129, 256
			for i := range spans {
				spans[i] = sizeSpans[idx[i]]
				size *= uint64(spans[i])
				if spans[i] != 128 && spans[i] != 129 && spans[i] != 256 {
					big = false
				}
			}
			for anchor := 0; anchor < 2; anchor++ {
				lo, hi := make([]byte, n), make([]byte, n)
				for i, s := range spans {
					if anchor == 0 {
						lo[i], hi[i] = 0, byte(s-1)
					} else {
						lo[i], hi[i] = byte(256-s), 0xff
					}
				}
				first, last := string(lo), string(hi)
				if seen[first+last] {
					continue
				}
				seen[first+last] = true
				nranges++
				switch {
				case size > 1<<31:
					bySize["more than 2^31 codes"]++
				case size == 1<<31:
					bySize["2^31 codes"]++
				case size > 1<<24:
					bySize["more than 2^24, fewer than 2^31 codes"]++
				case size > 1<<16:
					bySize["more than 2^16, up to 2^24 codes"]++
				default:
					bySize["up to 2^16 codes"]++
				}
				var probe []string
				for _, p := range sizeProbePositions(size) {
					c := codeAt(first, spans, p)
					if !(rng{first, last}).has(c) {
						panic("sizes: probe outside its range")
					}
					probe = append(probe, hx(c))
				}
				nd := []entrySpec{{First: hx(first), Last: hx(last), CID: notdefCID}}
				for mapOpt := 0; mapOpt < 2; mapOpt++ {
					spec := &fileSpec{Notdef: nd, Probe: probe}
					if mapOpt == 1 {
						spec.Map = []entrySpec{{First: hx(first), CID: 5}}
						switch {
						case size == 1:
						case spans[n-1] >= 2:
							prev, _ := addBE(last, -1)
							spec.Map = append(spec.Map, entrySpec{First: hx(prev), Last: hx(last), CID: 100})
						default:
							spec.Map = append(spec.Map, entrySpec{First: hx(last), CID: 100})
						}
					}
					jobs = append(jobs, job{sp, spec, big && anchor == 0 && mapOpt == 1})
				}
			}
		}
	}
	var sp []string
	for _, s := range sizeSpans {
		sp = append(sp, fmt.Sprint(s))
	}
	r.Dim("notdef_range_size_code_lengths", lens)
	r.Dim("notdef_range_size_spans_per_byte", sizeSpans)
	r.Dim("notdef_range_size_anchors", []string{"First = 00..00", "Last = FF..FF"})
	r.Dim("notdef_range_size_ranges", nranges)
	r.Dim("notdef_range_size_ranges_by_number_of_codes", bySize)
	r.Dim("notdef_range_size_map_entries", []string{"none", "single at the low corner + one-row range (or single) at the high corner"})
	r.Dim("notdef_range_size_probe_positions", "0, size-1, 2^k-1, 2^k, 2^k+1 for k = 0..32 (last byte fastest), and the neighbours of the corners; spans {"+strings.Join(sp, ",")+"}^length")
	r.Dim("notdef_range_size_files", len(jobs))
	if bySize["more than 2^31 codes"] == 0 || bySize["2^31 codes"] == 0 {
		r.Infra("notdef range size family: no range at / beyond 2^31 codes")
		return
	}

	r.Par(len(jobs), func(i int) {
		if r.Expired() || r.TooManyViolations() {
			return
		}
		j := jobs[i]
		cfgs := []config{allConfigs[i%len(allConfigs)]}
		if j.full {
			cfgs = allConfigs
		}
		rn.fileCase("cidfile", j.sp, j.spec, cfgs)
		r.DistinctS(fmt.Sprintf("size/%d", i))
		if i == len(jobs)-3 {
			r.Sample(Case{Kind: "cidfile", Space: j.sp.name, File: j.spec, Embed: true, Version: "1.7"})
		}
	})
}
