//go:build verif

package c17

// Two spaces added after the independent seeds C17c / C17d (notes/C17.md,
// "Strengthening after independent seeds"):
//
//   - "ctx": the tree is written while something else is going on at the same
//     pdf.Writer (a stream is open, other objects before and after, a second
//     tree, a second tree written from inside the key sequence of the first,
//     a stream closed / opened half-way through the key sequence);
//   - "reentrant": all short programs of Lookup / start All / take one entry /
//     abandon over ONE reader object, from every position of a first
//     enumeration, every observation compared with the sorted-map model.

import (
	"bytes"
	"cmp"
	"errors"
	"fmt"
	"io"
	"iter"
	"sort"
	"strconv"
	"strings"
	"sync"
	"sync/atomic"

	"seehuhn.de/go/pdf"
	"seehuhn.de/go/pdf/internal/pdftree"
	"seehuhn.de/go/pdf/zzverif/checks/hx"
	"seehuhn.de/go/pdf/zzverif/engine/ev"
)

// ---------------------------------------------------------------------------
// writer contexts

type contextSpec struct {
	name      string
	writeOnly bool // needs a hook inside the key sequence: entry point Write only
	twoTrees  bool
	what      string
}

var contextSpecs = []contextSpec{
	{"in-stream", false, false, "OpenStream (16 bytes written), tree, stream closed"},
	{"in-long-stream", false, false, "OpenStream, 3000 bytes, tree, 3000 bytes, stream closed"},
	{"between-objects", false, false, "Put, short stream, long stream, tree, short stream, Put"},
	{"two-trees", false, true, "tree A, then tree B (the other half of the universe), one writer"},
	{"two-trees-in-stream", false, true, "OpenStream, 3000 bytes, tree A, tree B, stream closed"},
	{"nested-write", true, true, "tree B is written from inside the key sequence of tree A, before entry n/2"},
	{"stream-closed-midway", true, false, "OpenStream before the tree, closed from inside the key sequence before entry n/2"},
	{"stream-opened-midway", true, false, "OpenStream (3000 bytes) from inside the key sequence before entry n/2, closed after the tree"},
}

func contextByName(name string) *contextSpec {
	for i := range contextSpecs {
		if contextSpecs[i].name == name {
			return &contextSpecs[i]
		}
	}
	return nil
}

var longPayload = []byte(strings.Repeat("0123456789abcdef % harness stream data\n", 75)) // 3000 bytes

// ctxWriter is one pdf.Writer plus the things the contexts do around a tree.
type ctxWriter[K cmp.Ordered] struct {
	a       *api[K]
	w       *pdf.Writer
	rm      *pdf.ResourceManager
	stm     io.WriteCloser
	entry   string
	noTrees bool // baseline: everything but the trees
	werr    error
	fail    *failure
}

func (cw *ctxWriter[K]) failed() bool { return cw.fail != nil || cw.werr != nil }

func (cw *ctxWriter[K]) open(payload int) {
	if cw.failed() {
		return
	}
	ref := cw.w.Alloc()
	s, err := cw.w.OpenStream(ref, pdf.Dict{"Type": pdf.Name("XHarnessStream")})
	if err != nil {
		cw.fail = &failure{fp: "harness", what: "OpenStream: " + err.Error(), infra: true}
		return
	}
	cw.stm = s
	cw.payload(payload)
}

func (cw *ctxWriter[K]) payload(n int) {
	if cw.failed() || cw.stm == nil {
		return
	}
	if _, err := cw.stm.Write(longPayload[:n]); err != nil {
		cw.fail = &failure{fp: "harness", what: "write to the open stream: " + err.Error(), infra: true}
	}
}

// closeStream closes the open stream; the Writer serialises the objects it
// queued meanwhile, so an error here is an error of writing the tree.
func (cw *ctxWriter[K]) closeStream() {
	if cw.stm == nil {
		return
	}
	err := cw.stm.Close()
	cw.stm = nil
	if err != nil && !cw.failed() {
		cw.fail = &failure{fp: "write-error:stream-close", what: "closing the stream that was open while the tree was written: " + err.Error()}
	}
}

func (cw *ctxWriter[K]) put(obj pdf.Object) {
	if cw.failed() {
		return
	}
	if err := cw.w.Put(cw.w.Alloc(), obj); err != nil {
		cw.fail = &failure{fp: "harness", what: "Put of a neighbour object: " + err.Error(), infra: true}
	}
}

// emit writes one map through the entry point.  mid, if not nil, is called
// exactly once from inside the key sequence: before the entry with index n/2
// is handed out (after the last entry if the map is empty).
func (cw *ctxWriter[K]) emit(in *input[K], mid func()) pdf.Reference {
	if cw.failed() {
		return 0
	}
	if cw.noTrees {
		if mid != nil {
			mid()
		}
		return 0
	}
	a := cw.a
	var root pdf.Reference
	var err error
	switch cw.entry {
	case "Write":
		n := len(in.keys)
		called := false
		root, err = a.write(cw.w, func(yield func(K, pdf.Object) bool) {
			for i, k := range in.keys {
				if mid != nil && i == n/2 && !called {
					called = true
					mid()
				}
				if !yield(k, in.vals[i]) {
					return
				}
			}
			if mid != nil && !called {
				called = true
				mid()
			}
		})
		if mid != nil && !called && err == nil {
			cw.fail = &failure{fp: "harness", what: "the key sequence was not consumed up to its middle", infra: true}
		}
	case "WriteMap", "Embed":
		if mid != nil {
			cw.fail = &failure{fp: "harness", what: "context needs the entry point Write", infra: true}
			return 0
		}
		m := make(map[K]pdf.Object, len(in.keys))
		for i, k := range in.keys {
			m[k] = in.vals[i]
		}
		if cw.entry == "WriteMap" {
			root, err = a.writeMap(cw.w, m)
		} else {
			if cw.rm == nil {
				cw.rm = pdf.NewResourceManager(cw.w)
			}
			var nat pdf.Native
			nat, err = a.embed(cw.rm, m)
			if err == nil {
				ref, ok := nat.(pdf.Reference)
				if !ok {
					cw.fail = &failure{fp: "embed:result-not-a-reference", what: fmt.Sprintf("InMemory.Embed returned %T", nat)}
					return 0
				}
				root = ref
			}
		}
	default:
		cw.fail = &failure{fp: "harness", what: "unknown entry " + cw.entry, infra: true}
		return 0
	}
	if err != nil && cw.werr == nil {
		cw.werr = err
	}
	return root
}

// writeCtx writes the maps inA (and inB in the two-tree contexts) in the
// context and returns the closed file.
func (a *api[K]) writeCtx(inA, inB *input[K], entry, config string, spec *contextSpec, noTrees bool) (roots [2]pdf.Reference, data []byte, werr error, f *failure) {
	w, mf, err := newWriter(config)
	if err != nil {
		return roots, nil, nil, &failure{fp: "harness", what: err.Error(), infra: true}
	}
	cw := &ctxWriter[K]{a: a, w: w, entry: entry, noTrees: noTrees}
	switch spec.name {
	case "in-stream":
		cw.open(16)
		roots[0] = cw.emit(inA, nil)
		cw.closeStream()
	case "in-long-stream":
		cw.open(3000)
		roots[0] = cw.emit(inA, nil)
		cw.payload(3000)
		cw.closeStream()
	case "between-objects":
		cw.put(pdf.Dict{"Before": pdf.Integer(1)})
		cw.open(16)
		cw.closeStream()
		cw.open(3000)
		cw.closeStream()
		roots[0] = cw.emit(inA, nil)
		cw.open(16)
		cw.closeStream()
		cw.put(pdf.Array{pdf.Name("After"), pdf.Integer(2)})
	case "two-trees":
		roots[0] = cw.emit(inA, nil)
		roots[1] = cw.emit(inB, nil)
	case "two-trees-in-stream":
		cw.open(3000)
		roots[0] = cw.emit(inA, nil)
		roots[1] = cw.emit(inB, nil)
		cw.closeStream()
	case "nested-write":
		roots[0] = cw.emit(inA, func() { roots[1] = cw.emit(inB, nil) })
	case "stream-closed-midway":
		cw.open(16)
		roots[0] = cw.emit(inA, func() { cw.closeStream() })
	case "stream-opened-midway":
		roots[0] = cw.emit(inA, func() { cw.open(3000) })
		cw.closeStream()
	default:
		return roots, nil, nil, &failure{fp: "harness", what: "unknown context " + spec.name, infra: true}
	}
	cw.closeStream() // after an error inside a context
	if cw.fail != nil {
		return roots, nil, nil, cw.fail
	}
	if cw.werr != nil {
		return roots, nil, cw.werr, nil
	}
	if cw.rm != nil {
		if err := cw.rm.Close(); err != nil {
			return roots, nil, err, nil
		}
	}
	if err := w.Close(); err != nil {
		return roots, nil, nil, &failure{fp: "writer-close-error", what: "Writer.Close after writing the tree: " + err.Error()}
	}
	return roots, mf.Data, nil, nil
}

// ctxBaseline is the number of objects of the file the context produces
// without the trees.
func (a *api[K]) ctxBaseline(entry, config string, spec *contextSpec) (int, error) {
	key := a.kind + "/" + config + "/" + spec.name
	if v, ok := baseline.Load(key); ok {
		return v.(int), nil
	}
	_, data, werr, f := a.writeCtx(nil, nil, "Write", config, spec, true)
	if f != nil {
		return 0, errors.New(f.what)
	}
	if werr != nil {
		return 0, werr
	}
	n := bytes.Count(data, objMarker)
	baseline.Store(key, n)
	return n, nil
}

// judgeCtx writes the map of the case (and, in the two-tree contexts, the
// complementary map of the same universe) in the context and judges every
// tree of the file like a tree written alone.
func judgeCtx[K cmp.Ordered](a *api[K], c Case) verdict {
	spec := contextByName(c.Ctx)
	if spec == nil {
		return verdict{fails: []failure{{fp: "harness", what: "unknown context " + c.Ctx, infra: true}}}
	}
	if spec.writeOnly && c.Entry != "Write" {
		return verdict{fails: []failure{{fp: "harness", what: "context " + c.Ctx + " needs the entry point Write", infra: true}}}
	}
	inA, _, err := a.build(c)
	if err != nil {
		return verdict{fails: []failure{{fp: "harness", what: err.Error(), infra: true}}}
	}
	var inB *input[K]
	if spec.twoTrees {
		cb := c
		cb.Parity = 1 - c.Parity
		inB, _, err = a.build(cb)
		if err != nil {
			return verdict{fails: []failure{{fp: "harness", what: err.Error(), infra: true}}}
		}
	}
	roots, data, werr, f := a.writeCtx(inA, inB, c.Entry, c.Config, spec, false)
	if f != nil {
		return verdict{fails: []failure{*f}}
	}
	if werr != nil {
		return verdict{fails: []failure{{fp: "write-error:" + c.Entry, what: fmt.Sprintf("%s of a map with %d ascending keys in context %s returned %v", c.Entry, len(inA.keys), c.Ctx, werr)}}}
	}
	// every object of the file is parsed once by the real Reader (memoGetter)
	g, f := reopen(data, memoAbove+1)
	if f != nil {
		return verdict{fails: []failure{*f}}
	}
	// The object count of the empty map can be judged when the file holds no
	// other tree: both maps of a two-tree context have the same size.
	base := func() (int, error) { return a.ctxBaseline(c.Entry, c.Config, spec) }
	var fails []failure
	v := judgeWritten(a, g, data, roots[0], inA, c.Entry, base)
	fails = append(fails, v.fails...)
	if spec.twoTrees {
		vb := judgeWritten(a, g, data, roots[1], inB, c.Entry, base)
		for _, f := range vb.fails {
			if !f.infra {
				f.what = "second tree of the file: " + f.what
			}
			fails = append(fails, f)
		}
		if roots[0] != 0 && roots[0] == roots[1] {
			fails = append(fails, failure{fp: "two-trees:same-root", what: fmt.Sprintf("two different maps written to one file got the same root %s", roots[0])})
		}
	}
	for i := range fails {
		if !fails[i].infra {
			fails[i].fp += ":ctx=" + c.Ctx
		}
	}
	return verdict{fails: fails, outcome: "ok:ctx:" + c.Ctx}
}

// runContexts enumerates the writer-context space.
func runContexts(r *ev.Run, rn *runner) {
	sizes := []int{0, 1, 63, 64, 65, 127, 128, 129, 192, 193, 200, 256, 257}
	bigSizes := []int{4096, 4097}
	nameFams := []string{"plain", "alpha4"}
	numFams := []string{"gaps", "extreme"}
	parities := []int{1}
	if r.Thorough() {
		sizes = []int{0, 1, 2, 62, 63, 64, 65, 66, 126, 127, 128, 129, 130, 191, 192, 193, 200, 255, 256, 257, 258, 320, 321}
		bigSizes = []int{4095, 4096, 4097, 4098, 4160, 4161, 8192, 8193}
		nameFams = strings.Split(nameFamilies, ",")
		numFams = strings.Split(numFamilies, ",")
		parities = []int{0, 1}
	}
	var jobs []Case
	add := func(kind, fam string, n, parity int, entry, cfg, ctx string) {
		jobs = append(jobs, Case{Space: "ctx", Kind: kind, Entry: entry, Config: cfg, Family: fam, N: n, Parity: parity, Ctx: ctx})
	}
	perKind := func(kind string, fams []string) {
		for _, spec := range contextSpecs {
			entries := []string{"Write", "WriteMap", "Embed"}
			if spec.writeOnly {
				entries = entries[:1]
			}
			for _, e := range entries {
				for _, fam := range fams {
					for _, parity := range parities {
						for _, n := range sizes {
							for _, cfg := range []string{"v14", "v17", "v20hr"} {
								add(kind, fam, n, parity, e, cfg, spec.name)
							}
						}
						// more than 64 leaves: intermediate nodes are queued as well
						for _, n := range bigSizes {
							if !r.Thorough() && (fam != fams[0] || e == "Embed" || (spec.name != "in-stream" && spec.name != "two-trees-in-stream" && spec.name != "stream-closed-midway")) {
								continue
							}
							if r.Thorough() && (parity != 1 || (fam != fams[0] && fam != fams[1])) {
								continue
							}
							add(kind, fam, n, parity, e, "v14", spec.name)
						}
					}
				}
			}
		}
	}
	perKind("name", nameFams)
	perKind("num", numFams)
	// smallest first: the recorded witness of a defect is a small one
	sort.SliceStable(jobs, func(i, j int) bool { return jobs[i].N < jobs[j].N })

	var names []string
	for _, s := range contextSpecs {
		e := "Write, WriteMap, Embed"
		if s.writeOnly {
			e = "Write"
		}
		names = append(names, s.name+": "+s.what+" ["+e+"]")
	}
	r.Dim("ctx_contexts", names)
	r.Dim("ctx_sizes", sizes)
	r.Dim("ctx_sizes_above_64_leaves", bigSizes)
	r.Dim("ctx_families", map[string][]string{"name": nameFams, "num": numFams})
	r.Dim("ctx_parities", parities)
	r.Dim("ctx_configs", []string{"v14", "v17", "v20hr"})
	r.Dim("ctx_cases", len(jobs))
	trees := r.Counter("ctx_trees_judged")
	r.Par(len(jobs), func(i int) {
		if r.Expired() || r.TooManyViolations() {
			return
		}
		c := jobs[i]
		rn.one(c)
		if contextByName(c.Ctx).twoTrees {
			trees.Add(2)
		} else {
			trees.Add(1)
		}
		if c.N >= 2 {
			r.DistinctS(fmt.Sprintf("ctx/%s/%s/%d/%d/%s/%s", c.Kind, c.Family, c.N, c.Parity, c.Entry, c.Ctx))
		}
	})
	r.Sample(Case{Space: "ctx", Kind: "name", Entry: "WriteMap", Config: "v17", Family: "plain", N: 200, Parity: 1, Ctx: "in-stream"})
}

// ---------------------------------------------------------------------------
// reader re-entrancy: programs over one reader object

// reOp is one operation of a program.
type reOp struct {
	kind byte // 'L' Lookup(probe arg), 'S' start All, 'N' take one entry from active enumeration arg, 'X' abandon it
	arg  int
}

func (o reOp) String() string {
	if o.kind == 'S' {
		return "S"
	}
	return string(o.kind) + ":" + strconv.Itoa(o.arg)
}

func parseReOp(s string) (reOp, error) {
	if s == "S" {
		return reOp{kind: 'S'}, nil
	}
	if len(s) >= 3 && s[1] == ':' && strings.IndexByte("LNX", s[0]) >= 0 {
		n, err := strconv.Atoi(s[2:])
		if err == nil && n >= 0 {
			return reOp{kind: s[0], arg: n}, nil
		}
	}
	return reOp{}, fmt.Errorf("bad operation %q", s)
}

// maxActive bounds the enumerations in progress at the same time.
const maxActive = 3

// reStep is the model: pos holds, oldest first, the number of entries each
// active enumeration has handed out; an enumeration that reports its end, or
// is abandoned, leaves the list.
func reStep(pos []int, n int, o reOp) ([]int, bool) {
	switch o.kind {
	case 'L':
		return pos, true
	case 'S':
		if len(pos) >= maxActive {
			return nil, false
		}
		return append(append([]int{}, pos...), 0), true
	case 'N', 'X':
		if o.arg >= len(pos) {
			return nil, false
		}
		out := append([]int{}, pos...)
		if o.kind == 'N' && pos[o.arg] < n {
			out[o.arg]++
			return out, true
		}
		return append(out[:o.arg], out[o.arg+1:]...), true
	}
	return nil, false
}

type reEnum[K any] struct {
	next       func() (K, pdf.Object, bool)
	stop       func()
	pos        int
	sawLookup  bool // a Lookup ran since this enumeration was started
	sawOtherIt bool // another enumeration was started or advanced since
}

// reExec executes one program on a fresh reader object and compares every
// observation with the model (keys ascending + values).
func reExec[K cmp.Ordered](a *api[K], in *input[K], probes []K, mk func() (tree[K], error), reader string, at int, ops []reOp) *failure {
	t, err := mk()
	if err != nil {
		return &failure{fp: "extract:" + reader + "-error", what: "Extract" + reader + ": " + err.Error()}
	}
	n := len(in.keys)
	model := make(map[K]int, n)
	for i, k := range in.keys {
		model[k] = i
	}
	var active []*reEnum[K]
	defer func() {
		for _, e := range active {
			e.stop()
		}
	}()
	abandoned := false
	history := func(done int) string {
		var b strings.Builder
		if at > 0 {
			fmt.Fprintf(&b, "[All advanced by %d] ", at)
		}
		for i := 0; i < done && i < len(ops); i++ {
			b.WriteString(ops[i].String())
			b.WriteByte(' ')
		}
		return strings.TrimSpace(b.String())
	}

	start := func() {
		for _, e := range active {
			e.sawOtherIt = true
		}
		next, stop := iter.Pull2(t.All())
		active = append(active, &reEnum[K]{next: next, stop: stop})
	}
	// advance takes one entry from e; ended reports that the enumeration is over.
	advance := func(e *reEnum[K], when string) (ended bool, f *failure) {
		for _, o := range active {
			if o != e {
				o.sawOtherIt = true
			}
		}
		k, v, ok := e.next()
		situation := "alone"
		switch {
		case e.sawLookup && e.sawOtherIt:
			situation = "lookup-and-other-enumeration-since-start"
		case e.sawLookup:
			situation = "lookup-since-start"
		case e.sawOtherIt:
			situation = "other-enumeration-since-start"
		case abandoned:
			situation = "after-abandoned-enumeration"
		}
		bad := func(what, format string, args ...any) *failure {
			return &failure{fp: fmt.Sprintf("reentrant:%s:all:%s:%s", reader, what, situation),
				what: fmt.Sprintf("%s.All, %s: %s", reader, when, fmt.Sprintf(format, args...))}
		}
		if !ok {
			if e.pos < n {
				return true, bad("ended-early", "the enumeration ends after %d of %d entries", e.pos, n)
			}
			return true, nil
		}
		if e.pos >= n {
			return false, bad("too-many-entries", "entry %d is key %s, the map has %d entries", e.pos, a.show(k), n)
		}
		if a.cmp(k, in.keys[e.pos]) != 0 {
			what := "wrong-key"
			if q, present := model[k]; present && q > e.pos {
				what = "entries-skipped"
			} else if present {
				what = "entry-repeated"
			}
			return false, bad(what, "entry %d is key %s, want %s", e.pos, a.show(k), a.show(in.keys[e.pos]))
		}
		if !hx.Equal(v, in.vals[e.pos]) {
			return false, bad("wrong-value:"+valueKind(in.vals[e.pos]), "entry %d (key %s) has value %s, want %s", e.pos, a.show(k), hx.Show(v), hx.Show(in.vals[e.pos]))
		}
		e.pos++
		return false, nil
	}
	remove := func(j int) {
		active[j].stop()
		active = append(active[:j], active[j+1:]...)
	}
	lookup := func(p K, when string) *failure {
		situation := "plain"
		switch {
		case len(active) > 0:
			situation = "during-enumeration"
		case abandoned:
			situation = "after-abandoned-enumeration"
		}
		for _, e := range active {
			e.sawLookup = true
		}
		got, err := t.Lookup(p)
		bad := func(what, format string, args ...any) *failure {
			return &failure{fp: fmt.Sprintf("reentrant:%s:lookup:%s:%s", reader, what, situation),
				what: fmt.Sprintf("%s.Lookup(%s), %s: %s", reader, a.show(p), when, fmt.Sprintf(format, args...))}
		}
		if i, present := model[p]; present {
			if err != nil {
				return bad("present-key-not-found", "error %v, the key is entry %d of %d", err, i, n)
			}
			if !hx.Equal(got, in.vals[i]) {
				return bad("wrong-value:"+valueKind(in.vals[i]), "got %s, want %s", hx.Show(got), hx.Show(in.vals[i]))
			}
			return nil
		}
		if err == nil {
			return bad("absent-key-found", "got %s, the key is not in the map", hx.Show(got))
		}
		if !errors.Is(err, pdftree.ErrKeyNotFound) {
			return bad("absent-key-other-error", "error %q, want ErrKeyNotFound", err)
		}
		return nil
	}

	// the first enumeration, advanced to its position
	if at > 0 {
		start()
		for i := 0; i < at; i++ {
			ended, f := advance(active[0], fmt.Sprintf("first enumeration, entry %d", i))
			if f != nil {
				return f
			}
			if ended {
				return &failure{fp: "harness", what: fmt.Sprintf("position %d is beyond the %d entries", at, n), infra: true}
			}
		}
	}
	for i, o := range ops {
		when := "after " + history(i)
		if i == 0 && at == 0 {
			when = "first operation"
		}
		switch o.kind {
		case 'L':
			if o.arg >= len(probes) {
				return &failure{fp: "harness", what: "probe index out of range", infra: true}
			}
			if f := lookup(probes[o.arg], when); f != nil {
				return f
			}
		case 'S':
			if len(active) >= maxActive {
				return &failure{fp: "harness", what: "too many active enumerations in " + history(len(ops)), infra: true}
			}
			start()
		case 'N', 'X':
			if o.arg >= len(active) {
				return &failure{fp: "harness", what: "operation " + o.String() + " without such an enumeration in " + history(len(ops)), infra: true}
			}
			if o.kind == 'X' {
				remove(o.arg)
				abandoned = true
				continue
			}
			ended, f := advance(active[o.arg], when)
			if f != nil {
				return f
			}
			if ended {
				remove(o.arg)
			}
		default:
			return &failure{fp: "harness", what: "unknown operation", infra: true}
		}
	}
	// every enumeration still in progress must deliver the rest, newest first
	for len(active) > 0 {
		j := len(active) - 1
		for {
			ended, f := advance(active[j], "draining after "+history(len(ops)))
			if f != nil {
				return f
			}
			if ended {
				break
			}
		}
		remove(j)
	}
	// and the reader object must still be a faithful dictionary (a plain
	// range loop: nothing is in progress any more)
	{
		i := 0
		var f *failure
		sit := "plain"
		if abandoned {
			sit = "after-abandoned-enumeration"
		}
		bad := func(what, format string, args ...any) *failure {
			return &failure{fp: fmt.Sprintf("reentrant:%s:all:%s:%s", reader, what, sit),
				what: fmt.Sprintf("%s.All, fresh enumeration after %s: %s", reader, history(len(ops)), fmt.Sprintf(format, args...))}
		}
		for k, v := range t.All() {
			if i >= n {
				f = bad("too-many-entries", "entry %d is key %s, the map has %d entries", i, a.show(k), n)
				break
			}
			if a.cmp(k, in.keys[i]) != 0 {
				f = bad("wrong-key", "entry %d is key %s, want %s", i, a.show(k), a.show(in.keys[i]))
				break
			}
			if !hx.Equal(v, in.vals[i]) {
				f = bad("wrong-value:"+valueKind(in.vals[i]), "entry %d (key %s) has value %s, want %s", i, a.show(k), hx.Show(v), hx.Show(in.vals[i]))
				break
			}
			i++
		}
		if f == nil && i != n {
			f = bad("ended-early", "the enumeration ends after %d of %d entries", i, n)
		}
		if f != nil {
			return f
		}
	}
	for _, p := range probes {
		if f := lookup(p, "after "+history(len(ops))); f != nil {
			return f
		}
	}
	return nil
}

// reTree is one written and reopened tree of the re-entrancy space.
type reTree[K cmp.Ordered] struct {
	a      *api[K]
	c      Case // Space, Kind, Entry, Config, Family, N, Parity
	in     *input[K]
	g      pdf.Getter
	root   pdf.Reference
	ends   []int // leaf boundaries of the file: entries seen after each leaf
	probes []K
}

// prepareReentrant writes the tree of the case plainly, reopens it, walks its
// nodes and chooses the probe keys from the leaves found.
func prepareReentrant[K cmp.Ordered](a *api[K], c Case) (*reTree[K], []failure) {
	in, _, err := a.build(c)
	if err != nil {
		return nil, []failure{{fp: "harness", what: err.Error(), infra: true}}
	}
	root, data, werr, f := a.writeTree(in, c.Entry, c.Config)
	if f != nil {
		return nil, []failure{*f}
	}
	if werr != nil {
		return nil, []failure{{fp: "write-error:" + c.Entry, what: fmt.Sprintf("%s of a map with %d ascending keys returned %v", c.Entry, len(in.keys), werr)}}
	}
	rd, f := reopen(data, 0)
	if f != nil {
		return nil, []failure{*f}
	}
	// every object parsed once by the real Reader and shared by all programs
	g := &memoGetter{Getter: rd, m: map[pdf.Reference]pdf.Native{}}
	if root == 0 {
		if len(in.keys) != 0 {
			return nil, []failure{{fp: "null-root", what: fmt.Sprintf("%s of a map with %d keys returned the null reference", c.Entry, len(in.keys))}}
		}
		return &reTree[K]{a: a, c: c, in: in, g: g, root: 0, probes: in.probes}, nil
	}
	_, _, ends, sf := a.structureEnds(g, root, in, false)
	if len(sf) > 0 {
		return nil, sf
	}
	return &reTree[K]{a: a, c: c, in: in, g: g, root: root, ends: ends, probes: reProbes(in, ends)}, nil
}

// reProbes chooses the probe keys of a tree from its leaves (first, second and
// last leaf): the first and last key of each, a key inside the second one, and
// absent keys below the least key, directly after the first key of each of
// these leaves, directly before the first key of the later leaves (i.e.
// between two leaves) and above the greatest key.  in.probes is the universe
// u[0..2n] with the map at the odd or even positions.
func reProbes[K cmp.Ordered](in *input[K], ends []int) []K {
	n := len(in.keys)
	if n <= 6 {
		return in.probes
	}
	upos := make(map[K]int, len(in.probes))
	for i, k := range in.probes {
		upos[k] = i
	}
	pick := map[int]bool{0: true, len(in.probes) - 1: true}
	entry := func(i int, before, after bool) {
		if i < 0 || i >= n {
			return
		}
		u := upos[in.keys[i]]
		pick[u] = true
		if before && u > 0 {
			pick[u-1] = true
		}
		if after && u+1 < len(in.probes) {
			pick[u+1] = true
		}
	}
	leaves := map[int]bool{0: true, 1: true, len(ends) - 1: true}
	for l := range ends {
		if !leaves[l] {
			continue
		}
		first := 0
		if l > 0 {
			first = ends[l-1]
		}
		last := ends[l] - 1
		entry(first, l > 0, true)
		entry(last, false, false)
		if l == 1 || len(ends) == 1 {
			entry((first+last)/2, false, false)
		}
	}
	var idx []int
	for u := range pick {
		idx = append(idx, u)
	}
	sort.Ints(idx)
	var out []K
	for _, u := range idx {
		k := in.probes[u]
		if len(out) > 0 && out[len(out)-1] == k {
			continue
		}
		// a universe position may hold a key of the map or an absent key,
		// both are wanted
		out = append(out, k)
	}
	return out
}

// rePositions are the positions of the first enumeration from which the
// programs start: 0 = no first enumeration; p = p entries handed out.
func (t *reTree[K]) positions(all bool) []int {
	n := len(t.in.keys)
	set := map[int]bool{0: true}
	if all {
		for p := 0; p <= n; p++ {
			set[p] = true
		}
	} else {
		for _, p := range []int{1, 2, n - 1, n} {
			set[p] = true
		}
		for l, e := range t.ends {
			// the first two leaves, the last two, and the leaves on either
			// side of the first intermediate-node boundary
			if l > 1 && l < len(t.ends)-2 && l != fanout-1 && l != fanout {
				continue
			}
			for d := -1; d <= 2; d++ {
				set[e+d] = true
			}
		}
	}
	var out []int
	for p := range set {
		if p >= 0 && p <= n {
			out = append(out, p)
		}
	}
	sort.Ints(out)
	return out
}

func (t *reTree[K]) maker(reader string) func() (tree[K], error) {
	var root pdf.Object
	if t.root != 0 {
		root = t.root
	}
	if reader == "InMemory" {
		return func() (tree[K], error) { return t.a.inMemory(t.g, root) }
	}
	return func() (tree[K], error) { return t.a.fromFile(t.g, root) }
}

type reCounters struct {
	programs, operations *atomic.Int64
	states               *stateSet
}

// stateSet collects the distinct model states visited (tree, reader, list of
// positions of the enumerations in progress).
type stateSet struct {
	mu sync.Mutex
	m  map[string]struct{}
}

func (s *stateSet) add(keys map[string]struct{}) {
	s.mu.Lock()
	if s.m == nil {
		s.m = map[string]struct{}{}
	}
	for k := range keys {
		s.m[k] = struct{}{}
	}
	s.mu.Unlock()
}

func (s *stateSet) size() int {
	s.mu.Lock()
	defer s.mu.Unlock()
	return len(s.m)
}

// explore runs every program of at most depth operations that starts with the
// first enumeration at position at; the model decides which operations are
// enabled.
func (t *reTree[K]) explore(r *ev.Run, rn *runner, reader string, at, depth int, cnt reCounters, statePrefix string) {
	n := len(t.in.keys)
	mk := t.maker(reader)
	seen := map[string]struct{}{}
	defer func() { cnt.states.add(seen) }()
	var ops []reOp
	failed := map[string]bool{} // programs that failed: their extensions say nothing new
	key := func() string {
		var b strings.Builder
		for _, o := range ops {
			b.WriteString(o.String())
			b.WriteByte(' ')
		}
		return b.String()
	}
	run := func(pos []int) {
		f := reExec(t.a, t.in, t.probes, mk, reader, at, ops)
		cnt.programs.Add(1)
		cnt.operations.Add(int64(len(ops)))
		seen[statePrefix+fmt.Sprint(pos)] = struct{}{}
		r.Eval(1)
		c := t.c
		c.Reader, c.At = reader, at
		for _, o := range ops {
			c.Ops = append(c.Ops, o.String())
		}
		if len(ops) > 0 {
			r.DistinctS(fmt.Sprintf("re/%s/%s/%d/%s/%d/%v", c.Kind, c.Family, c.N, reader, at, c.Ops))
		}
		if f == nil {
			r.Outcome("ok:reentrant:" + reader + ":active-at-end=" + strconv.Itoa(len(pos)))
			return
		}
		failed[key()] = true
		rn.report(c, []failure{*f})
	}
	// shortest programs first (so that the recorded witness of a defect is a
	// shortest one): pass d executes the programs of exactly d operations
	var rec func(pos []int, d int)
	rec = func(pos []int, d int) {
		if r.Expired() || r.TooManyViolations() {
			return
		}
		if len(ops) == d {
			run(pos)
			return
		}
		if len(failed) > 0 && failed[key()] {
			return
		}
		try := func(o reOp) {
			next, ok := reStep(pos, n, o)
			if !ok {
				return
			}
			ops = append(ops, o)
			rec(next, d)
			ops = ops[:len(ops)-1]
		}
		for i := range t.probes {
			try(reOp{'L', i})
		}
		try(reOp{kind: 'S'})
		for j := range pos {
			try(reOp{'N', j})
		}
		for j := range pos {
			try(reOp{'X', j})
		}
	}
	var pos []int
	if at > 0 {
		pos = []int{at}
	}
	for d := 0; d <= depth; d++ {
		rec(pos, d)
	}
}

// judgeReentrant replays one program.
func judgeReentrant[K cmp.Ordered](a *api[K], c Case) verdict {
	base := c
	base.Reader, base.At, base.Ops = "", 0, nil
	t, fails := prepareReentrant(a, base)
	if fails != nil {
		return verdict{fails: fails}
	}
	var ops []reOp
	for _, s := range c.Ops {
		o, err := parseReOp(s)
		if err != nil {
			return verdict{fails: []failure{{fp: "harness", what: err.Error(), infra: true}}}
		}
		ops = append(ops, o)
	}
	if c.Reader != "FromFile" && c.Reader != "InMemory" {
		return verdict{fails: []failure{{fp: "harness", what: "unknown reader " + c.Reader, infra: true}}}
	}
	if f := reExec(a, t.in, t.probes, t.maker(c.Reader), c.Reader, c.At, ops); f != nil {
		return verdict{fails: []failure{*f}}
	}
	return verdict{outcome: "ok:reentrant:" + c.Reader}
}

type reSpec struct {
	kind, family string
	n            int
	config       string
	allPositions bool
	depth        int
	fromFileOnly bool // the in-memory reader is a Go map; the deepest programs are run on the streaming reader only
}

// runReentrant enumerates the re-entrancy space.
func runReentrant(r *ev.Run, rn *runner) {
	// trees of two and three leaves (root-leaf trees for completeness), both kinds
	specs := []reSpec{
		{"name", "alpha4", 130, "v14", false, 3, false},
		{"num", "gaps", 130, "v14", false, 3, false},
		{"name", "plain", 65, "v17", false, 3, false},
		{"num", "extreme", 128, "v20hr", false, 3, false},
		// every position of the first enumeration, programs of <= 2 operations
		{"name", "alpha4", 130, "v14", true, 2, false},
		{"num", "gaps", 130, "v14", true, 2, false},
		{"name", "plain", 65, "v17", true, 2, false},
		{"num", "extreme", 128, "v20hr", true, 2, false},
		{"name", "alpha4", 3, "v14", true, 3, false},
		{"num", "dense", 2, "v14", true, 3, false},
	}
	if r.Thorough() {
		specs = []reSpec{
			{"name", "alpha4", 130, "v14", true, 3, false},
			{"num", "gaps", 130, "v14", true, 3, false},
			{"name", "plain", 65, "v17", true, 3, false},
			{"num", "extreme", 128, "v20hr", true, 3, false},
			{"name", "nonascii", 129, "v14", true, 3, false},
			{"num", "dense", 200, "v14", true, 3, false},
			{"name", "alpha4", 130, "v14", false, 4, true},
			{"num", "gaps", 130, "v14", false, 4, true},
			{"name", "prefix", 4161, "v14", false, 3, false},
			{"num", "extreme", 4097, "v14", false, 3, false},
			{"name", "alpha4", 3, "v14", true, 4, false},
			{"num", "dense", 2, "v14", true, 4, false},
			{"name", "plain", 64, "v14", false, 3, false},
			{"num", "gaps", 0, "v14", true, 3, false},
		}
	}
	var jobs []func()
	var dims []string
	cnt := reCounters{
		programs:   r.Counter("reentrant_programs"),
		operations: r.Counter("reentrant_operations"),
		states:     &stateSet{},
	}
	add := func(f func()) { jobs = append(jobs, f) }
	for _, s := range specs {
		c := Case{Space: "reentrant", Kind: s.kind, Entry: "Write", Config: s.config, Family: s.family, N: s.n, Parity: 1}
		if s.kind == "name" {
			addReJobs(r, rn, nameAPI, c, s, cnt, &dims, add)
		} else {
			addReJobs(r, rn, numAPI, c, s, cnt, &dims, add)
		}
	}
	r.Dim("reentrant_trees", dims)
	r.Dim("reentrant_operations_alphabet", "L:i Lookup of probe key i | S start another All | N:j take one entry from the j-th enumeration in progress | X:j abandon it; at most "+strconv.Itoa(maxActive)+" enumerations in progress; implicit end: drain what is in progress (newest first), one fresh All, Lookup of every probe")
	r.Dim("reentrant_readers", []string{"FromFile", "InMemory"})
	r.Dim("reentrant_jobs", len(jobs))
	r.Par(len(jobs), func(i int) { jobs[i]() })
	r.Dim("reentrant_model_states", cnt.states.size())
	r.Sample(Case{Space: "reentrant", Kind: "num", Entry: "Write", Config: "v14", Family: "gaps", N: 130, Parity: 1, Reader: "FromFile", At: 63, Ops: []string{"L:5", "S", "N:0"}})
}

func addReJobs[K cmp.Ordered](r *ev.Run, rn *runner, a *api[K], c Case, s reSpec, cnt reCounters, dims *[]string, add func(func())) {
	t, fails := prepareReentrant(a, c)
	r.Eval(1)
	if fails != nil {
		rn.report(c, fails)
		return
	}
	positions := t.positions(s.allPositions)
	var shown []string
	for _, p := range t.probes {
		shown = append(shown, a.show(p))
	}
	ends := fmt.Sprint(t.ends)
	if len(t.ends) > 6 {
		ends = fmt.Sprintf("%v ... %v (%d leaves)", t.ends[:3], t.ends[len(t.ends)-2:], len(t.ends))
	}
	readers := []string{"FromFile", "InMemory"}
	if s.fromFileOnly {
		readers = readers[:1]
	}
	*dims = append(*dims, fmt.Sprintf("%s %s n=%d %s: leaves end at %s; %d probe keys; %d start positions %s; programs of <= %d operations; readers %v",
		s.kind, s.family, s.n, s.config, ends, len(t.probes), len(positions), posClass(s.allPositions), s.depth, readers))
	prefix := fmt.Sprintf("%s/%s/%d/", s.kind, s.family, s.n)
	for _, reader := range readers {
		for _, at := range positions {
			reader, at := reader, at
			add(func() { t.explore(r, rn, reader, at, s.depth, cnt, prefix+reader+"/") })
		}
	}
}

func posClass(all bool) string {
	if all {
		return "(every position 0..n)"
	}
	return "(0, 1, 2, n-1, n and -1..+2 around the end of leaf 1, 2, 64, 65, last-1, last)"
}

// reSelfTest: the program executor accepts a trivially correct reader and
// flags a reader whose enumerations share their cursor with Lookup.
func reSelfTest() error {
	in := &input[pdf.Integer]{}
	for i := 0; i < 11; i++ {
		in.probes = append(in.probes, pdf.Integer(i))
		if i%2 == 1 {
			in.keys = append(in.keys, pdf.Integer(i))
			in.vals = append(in.vals, valueFor(i))
		}
	}
	n := len(in.keys)
	count, flagged := 0, 0
	var firstGood *failure
	var ops []reOp
	var rec func(pos []int, at int)
	rec = func(pos []int, at int) {
		count++
		if f := reExec(numAPI, in, in.probes, func() (tree[pdf.Integer], error) { return &toyTree{in: in}, nil }, "toy", at, ops); f != nil && firstGood == nil {
			firstGood = f
		}
		if f := reExec(numAPI, in, in.probes, func() (tree[pdf.Integer], error) { return &toyTree{in: in, shared: true}, nil }, "toy", at, ops); f != nil {
			flagged++
		}
		if len(ops) >= 2 {
			return
		}
		var cand []reOp
		for i := range in.probes {
			cand = append(cand, reOp{'L', i})
		}
		cand = append(cand, reOp{kind: 'S'})
		for j := range pos {
			cand = append(cand, reOp{'N', j}, reOp{'X', j})
		}
		for _, o := range cand {
			if next, ok := reStep(pos, n, o); ok {
				ops = append(ops, o)
				rec(next, at)
				ops = ops[:len(ops)-1]
			}
		}
	}
	for at := 0; at <= n; at++ {
		var pos []int
		if at > 0 {
			pos = []int{at}
		}
		rec(pos, at)
	}
	if firstGood != nil {
		return fmt.Errorf("self-test: the program executor rejects a correct reader: %s: %s", firstGood.fp, firstGood.what)
	}
	if flagged == 0 {
		return fmt.Errorf("self-test: none of %d programs exposes a reader whose Lookup moves the cursor of an enumeration in progress", count)
	}
	return nil
}

// toyTree is a sorted slice.  With shared set, Lookup leaves the cursor of
// the enumerations behind the key it looked for.
type toyTree struct {
	in     *input[pdf.Integer]
	shared bool
	cursor int
}

func (t *toyTree) Lookup(k pdf.Integer) (pdf.Object, error) {
	for i, x := range t.in.keys {
		if x >= k {
			if t.shared && i > t.cursor {
				t.cursor = i
			}
			if x == k {
				return t.in.vals[i], nil
			}
			break
		}
	}
	return nil, pdftree.ErrKeyNotFound
}

func (t *toyTree) All() iter.Seq2[pdf.Integer, pdf.Object] {
	return func(yield func(pdf.Integer, pdf.Object) bool) {
		if !t.shared {
			for i, k := range t.in.keys {
				if !yield(k, t.in.vals[i]) {
					return
				}
			}
			return
		}
		for t.cursor = 0; t.cursor < len(t.in.keys); t.cursor++ {
			if !yield(t.in.keys[t.cursor], t.in.vals[t.cursor]) {
				return
			}
		}
	}
}
