//go:build verif

package c17

// Space 8: ONE in-memory tree value used more than once (Case.Space = "mem").
//
// nametree.InMemory / numtree.InMemory is the writer-side object of the
// packages: its exported Data map is the dictionary, All / Lookup read it and
// Embed writes it.  Every other space of the check uses such a value exactly
// once.  Here one value lives through a program of observations and edits of
// its Data map; after every step the value must behave like the sorted-map
// model of what Data holds at that moment, and every tree it writes is judged
// by the unchanged oracle (judgeWritten) against that model.

import (
	"bytes"
	"cmp"
	"errors"
	"fmt"
	"iter"
	"sort"
	"strconv"
	"strings"
	"sync"
	"sync/atomic"

	"seehuhn.de/go/pdf"
	"seehuhn.de/go/pdf/internal/pdftree"
	"seehuhn.de/go/pdf/nametree"
	"seehuhn.de/go/pdf/numtree"
	"seehuhn.de/go/pdf/zzverif/checks/hx"
	"seehuhn.de/go/pdf/zzverif/engine/ev"
)

// memObj is one in-memory tree value of the library: the value itself, its
// Embed through a ResourceManager, and its exported Data map (read from the
// value each time, the harness edits the map the value holds).
type memObj[K cmp.Ordered] struct {
	t    tree[K]
	emb  func(*pdf.ResourceManager) (pdf.Native, error)
	data func() map[K]pdf.Object
}

func init() {
	nameAPI.asMem = func(t tree[pdf.Name]) *memObj[pdf.Name] {
		x, ok := t.(*nametree.InMemory)
		if !ok || x == nil {
			return nil
		}
		return &memObj[pdf.Name]{
			t:    x,
			emb:  func(rm *pdf.ResourceManager) (pdf.Native, error) { return rm.Embed(x) },
			data: func() map[pdf.Name]pdf.Object { return x.Data },
		}
	}
	nameAPI.newMem = func(m map[pdf.Name]pdf.Object) *memObj[pdf.Name] {
		return nameAPI.asMem(&nametree.InMemory{Data: m})
	}
	nameAPI.memUniverse = []pdf.Name{"", "\x00", "a", "a\x00", "ab", "\xff"}

	numAPI.asMem = func(t tree[pdf.Integer]) *memObj[pdf.Integer] {
		x, ok := t.(*numtree.InMemory)
		if !ok || x == nil {
			return nil
		}
		return &memObj[pdf.Integer]{
			t:    x,
			emb:  func(rm *pdf.ResourceManager) (pdf.Native, error) { return rm.Embed(x) },
			data: func() map[pdf.Integer]pdf.Object { return x.Data },
		}
	}
	numAPI.newMem = func(m map[pdf.Integer]pdf.Object) *memObj[pdf.Integer] {
		return numAPI.asMem(&numtree.InMemory{Data: m})
	}
	numAPI.memUniverse = []pdf.Integer{-1 << 63, -1, 0, 1<<63 - 1, 1, 2}
	// ascending under the oracle's order
	sort.Slice(numAPI.memUniverse, func(i, j int) bool { return numAPI.cmp(numAPI.memUniverse[i], numAPI.memUniverse[j]) < 0 })
}

// memOp is one operation of a program.
//
//	A      enumerate with All to the end
//	B      enumerate with All and leave the loop after the first entry
//	L      Lookup of every universe key
//	E      Embed through a fresh ResourceManager into a fresh file; the file is
//	       closed, reopened and the tree judged like every written tree
//	R:i:j  rename: delete universe key i (present) from Data and store
//	       universe key j (absent) -- the size of the map does not change
//	+:j    store universe key j (absent)
//	-:i    delete universe key i (present)
//	V:i    store another value under universe key i (present)
type memOp struct {
	kind byte
	i, j int
}

func (o memOp) String() string {
	switch o.kind {
	case 'R':
		return fmt.Sprintf("R:%d:%d", o.i, o.j)
	case '+':
		return fmt.Sprintf("+:%d", o.j)
	case '-', 'V':
		return fmt.Sprintf("%c:%d", o.kind, o.i)
	}
	return string(o.kind)
}

// observes: the operation does not edit Data.
func (o memOp) observes() bool {
	return o.kind == 'A' || o.kind == 'B' || o.kind == 'L' || o.kind == 'E'
}

func parseMemOp(s string) (memOp, error) {
	bad := fmt.Errorf("bad operation %q", s)
	parts := strings.Split(s, ":")
	if len(parts[0]) != 1 {
		return memOp{}, bad
	}
	o := memOp{kind: parts[0][0]}
	num := func(t string) int {
		n, err := strconv.Atoi(t)
		if err != nil || n < 0 {
			return -1
		}
		return n
	}
	switch {
	case strings.ContainsRune("ABLE", rune(o.kind)) && len(parts) == 1:
	case o.kind == 'R' && len(parts) == 3:
		o.i, o.j = num(parts[1]), num(parts[2])
	case o.kind == '+' && len(parts) == 2:
		o.j = num(parts[1])
	case (o.kind == '-' || o.kind == 'V') && len(parts) == 2:
		o.i = num(parts[1])
	default:
		return memOp{}, bad
	}
	if o.i < 0 || o.j < 0 {
		return memOp{}, bad
	}
	return o, nil
}

// memOtherValue is what V stores under universe key i.
func memOtherValue(i int) pdf.Object { return valueFor(i + 10) }

// memModel is the oracle's state: which universe keys the map holds and with
// which value.  The universe is ascending under the oracle's order, so the
// sorted map is the universe filtered by present.
type memModel struct {
	present []bool
	vals    []pdf.Object
	n       int
}

func (m *memModel) clone() *memModel {
	return &memModel{present: append([]bool{}, m.present...), vals: append([]pdf.Object{}, m.vals...), n: m.n}
}

// enabled tells whether the model allows the operation.
func (m *memModel) enabled(o memOp) bool {
	u := len(m.present)
	switch o.kind {
	case 'A', 'B', 'L', 'E':
		return true
	case 'R':
		return o.i < u && o.j < u && m.present[o.i] && !m.present[o.j]
	case '+':
		return o.j < u && !m.present[o.j]
	case '-', 'V':
		return o.i < u && m.present[o.i]
	}
	return false
}

// apply performs an edit on the model.
func (m *memModel) apply(o memOp) {
	switch o.kind {
	case 'R':
		m.present[o.i], m.vals[o.i] = false, nil
		m.present[o.j], m.vals[o.j] = true, valueFor(o.j)
	case '+':
		m.present[o.j], m.vals[o.j] = true, valueFor(o.j)
		m.n++
	case '-':
		m.present[o.i], m.vals[o.i] = false, nil
		m.n--
	case 'V':
		m.vals[o.i] = memOtherValue(o.i)
	}
}

// ops lists the operations the enumeration tries in this state.  all: every
// edit the universe allows (small universes).  Otherwise the edits touch the
// entries at the ranks 0, m/2, 63, 64 (last entry of the first leaf, first of
// the second) and m-1 of the current map; a renamed key goes to the nearest
// absent universe key below it, the nearest above it, the least and the
// greatest absent key; additions: the least, the greatest absent key and the
// nearest absent key above the middle entry.
func (m *memModel) ops(all bool) []memOp {
	out := []memOp{{kind: 'A'}, {kind: 'B'}, {kind: 'L'}, {kind: 'E'}}
	u := len(m.present)
	if all {
		for i := 0; i < u; i++ {
			for j := 0; j < u; j++ {
				if m.present[i] && !m.present[j] {
					out = append(out, memOp{kind: 'R', i: i, j: j})
				}
			}
		}
		for j := 0; j < u; j++ {
			if !m.present[j] {
				out = append(out, memOp{kind: '+', j: j})
			}
		}
		for i := 0; i < u; i++ {
			if m.present[i] {
				out = append(out, memOp{kind: '-', i: i})
			}
		}
		for i := 0; i < u; i++ {
			if m.present[i] {
				out = append(out, memOp{kind: 'V', i: i})
			}
		}
		return out
	}
	var pos []int
	for i, p := range m.present {
		if p {
			pos = append(pos, i)
		}
	}
	var sel []int
	for _, rk := range []int{0, len(pos) / 2, fanout - 1, fanout, len(pos) - 1} {
		if rk >= 0 && rk < len(pos) && !containsInt(sel, pos[rk]) {
			sel = append(sel, pos[rk])
		}
	}
	below := func(i int) int {
		for j := i - 1; j >= 0; j-- {
			if !m.present[j] {
				return j
			}
		}
		return -1
	}
	above := func(i int) int {
		for j := i + 1; j < u; j++ {
			if !m.present[j] {
				return j
			}
		}
		return -1
	}
	least, greatest := above(-1), below(u)
	for _, i := range sel {
		var tg []int
		for _, j := range []int{below(i), above(i), least, greatest} {
			if j >= 0 && !containsInt(tg, j) {
				tg = append(tg, j)
				out = append(out, memOp{kind: 'R', i: i, j: j})
			}
		}
	}
	var adds []int
	mid := -1
	if len(pos) > 0 {
		mid = above(pos[len(pos)/2])
	}
	for _, j := range []int{least, greatest, mid} {
		if j >= 0 && !containsInt(adds, j) {
			adds = append(adds, j)
			out = append(out, memOp{kind: '+', j: j})
		}
	}
	for _, i := range sel {
		out = append(out, memOp{kind: '-', i: i})
	}
	for _, i := range sel {
		out = append(out, memOp{kind: 'V', i: i})
	}
	return out
}

func containsInt(l []int, x int) bool {
	for _, y := range l {
		if x == y {
			return true
		}
	}
	return false
}

// memStart is the start of all programs of one job: universe, initial map,
// and (origin "extracted") the file the value is extracted from.
type memStart[K cmp.Ordered] struct {
	a      *api[K]
	c      Case // Space, Kind, Entry, Config, Origin and the key set; no Ops
	uni    []K
	init   *memModel
	all    bool // small universe: every edit is enumerated
	file   []byte
	root   pdf.Reference
	toyObj func(map[K]pdf.Object) *memObj[K] // self-test only

	mu     sync.Mutex
	failed map[string]bool // programs that failed: their extensions say nothing new
}

// memInput is the model as the input of the written-tree oracle.
func (s *memStart[K]) memInput(m *memModel) *input[K] {
	in := &input[K]{probes: s.uni}
	for i, p := range m.present {
		if p {
			in.keys = append(in.keys, s.uni[i])
			in.vals = append(in.vals, m.vals[i])
		}
	}
	return in
}

// prepareMem builds the start of a case.
func prepareMem[K cmp.Ordered](a *api[K], c Case) (*memStart[K], *failure) {
	harness := func(format string, args ...any) (*memStart[K], *failure) {
		return nil, &failure{fp: "harness", what: fmt.Sprintf(format, args...), infra: true}
	}
	s := &memStart[K]{a: a, c: c}
	s.c.Ops = nil
	m := &memModel{}
	if c.Mini > 0 {
		if c.Mini > len(a.memUniverse) || c.Mask>>uint(c.Mini) != 0 {
			return harness("bad mem case %+v", c)
		}
		s.uni = a.memUniverse[:c.Mini]
		s.all = true
		m.present = make([]bool, c.Mini)
		m.vals = make([]pdf.Object, c.Mini)
		for i := range s.uni {
			if c.Mask&(1<<uint(i)) != 0 {
				m.present[i], m.vals[i] = true, valueFor(i)
				m.n++
			}
		}
	} else {
		if c.N < 0 || c.Parity < 0 || c.Parity > 1 {
			return harness("bad mem case %+v", c)
		}
		u, err := a.family(c.Family, 2*c.N+1)
		if err != nil {
			return harness("%v", err)
		}
		s.uni = u
		m.present = make([]bool, len(u))
		m.vals = make([]pdf.Object, len(u))
		for j := 0; j < c.N; j++ {
			i := c.Parity + 2*j
			m.present[i], m.vals[i] = true, valueFor(i)
			m.n++
		}
	}
	if !a.ascending(s.uni) {
		return harness("mem universe of %+v is not ascending under the oracle's order", c)
	}
	s.init = m
	switch c.Origin {
	case "literal":
	case "extracted":
		// the value comes from ExtractInMemory of a tree written plainly
		if m.n == 0 {
			return harness("origin extracted needs a non-empty start map")
		}
		in := s.memInput(m)
		root, data, werr, f := a.writeTree(in, "Write", c.Config)
		if f != nil {
			return nil, f
		}
		if werr != nil {
			return nil, &failure{fp: "write-error:Write", what: fmt.Sprintf("Write of a map with %d ascending keys returned %v", m.n, werr)}
		}
		s.file, s.root = data, root
	default:
		return harness("unknown origin %q", c.Origin)
	}
	return s, nil
}

// object makes a fresh in-memory tree value holding the start map.
func (s *memStart[K]) object() (*memObj[K], *failure) {
	a := s.a
	if s.toyObj != nil || s.c.Origin == "literal" {
		data := make(map[K]pdf.Object, s.init.n)
		for i, p := range s.init.present {
			if p {
				data[s.uni[i]] = s.init.vals[i]
			}
		}
		if s.toyObj != nil {
			return s.toyObj(data), nil
		}
		return a.newMem(data), nil
	}
	rd, err := pdf.NewReader(bytes.NewReader(s.file), int64(len(s.file)), nil)
	if err != nil {
		return nil, &failure{fp: "reopen-error", what: "NewReader on the written file: " + err.Error()}
	}
	t, err := a.inMemory(rd, s.root)
	if err != nil {
		return nil, &failure{fp: "extract:InMemory-error", what: "ExtractInMemory: " + err.Error()}
	}
	obj := a.asMem(t)
	if obj == nil || obj.data() == nil {
		return nil, &failure{fp: "extract:InMemory-nil", what: fmt.Sprintf("ExtractInMemory of a tree with %d entries returned no tree", s.init.n)}
	}
	return obj, nil
}

// memHistory names what happened to the value before an observation.
type memHistory struct {
	enumerations int  // All / Embed calls so far
	edited       bool // Data edited since the last of them
	sizeThen     int  // size of the map at the last of them
}

func (h memHistory) class(sizeNow int) string {
	switch {
	case h.enumerations == 0:
		return "first-enumeration"
	case !h.edited:
		return "enumerated-before:no-edit-since"
	case sizeNow == h.sizeThen:
		return "enumerated-before:edited-since:same-size"
	}
	return "enumerated-before:edited-since:size-changed"
}

// memExec runs one program on a fresh value.  The implicit end of every
// program: All, Lookup of every universe key, Embed.
func memExec[K cmp.Ordered](s *memStart[K], ops []memOp, embeds *atomic.Int64) []failure {
	a := s.a
	obj, f := s.object()
	if f != nil {
		return []failure{*f}
	}
	m := s.init.clone()
	var h memHistory
	origin := s.c.Origin
	frozen := "" // the implicit end is judged as one observation: its class is that of its start
	done := func() string {
		if frozen != "" {
			return frozen
		}
		return h.class(m.n)
	}

	lookupAll := func() *failure {
		for i, k := range s.uni {
			got, err := obj.t.Lookup(k)
			switch {
			case m.present[i] && err != nil:
				return &failure{fp: "mem:" + origin + ":lookup:present-key-not-found:" + done(),
					what: fmt.Sprintf("InMemory.Lookup(%s) = %v, Data holds the key (%d keys)", a.show(k), err, m.n)}
			case m.present[i] && !hx.Equal(got, m.vals[i]):
				return &failure{fp: "mem:" + origin + ":lookup:wrong-value:" + done(),
					what: fmt.Sprintf("InMemory.Lookup(%s) = %s, Data holds %s", a.show(k), hx.Show(got), hx.Show(m.vals[i]))}
			case !m.present[i] && err == nil:
				return &failure{fp: "mem:" + origin + ":lookup:absent-key-found:" + done(),
					what: fmt.Sprintf("InMemory.Lookup(%s) = %s, Data does not hold the key (%d keys)", a.show(k), hx.Show(got), m.n)}
			case !m.present[i] && !errors.Is(err, pdftree.ErrKeyNotFound):
				return &failure{fp: "mem:" + origin + ":lookup:absent-key-other-error:" + done(),
					what: fmt.Sprintf("InMemory.Lookup(%s) = error %q, want ErrKeyNotFound", a.show(k), err)}
			}
		}
		return nil
	}

	enumerate := func(limit int) *failure {
		class := done()
		var f *failure
		fail := func(what, format string, args ...any) {
			f = &failure{fp: "mem:" + origin + ":all:" + what + ":" + class, what: fmt.Sprintf(format, args...)}
		}
		next := 0 // universe index from which the next entry is expected
		n := 0
		var last K
		for k, v := range obj.t.All() {
			for next < len(s.uni) && !m.present[next] {
				next++
			}
			switch {
			case next >= len(s.uni):
				fail("too-many-entries", "InMemory.All yields more than the %d entries of Data (next key %s)", m.n, a.show(k))
			case a.cmp(k, s.uni[next]) != 0:
				what := "wrong-key"
				if n > 0 && a.cmp(k, last) <= 0 {
					what = "not-ascending"
				}
				fail(what, "InMemory.All yields key %s as entry %d, Data has %s there", a.show(k), n, a.show(s.uni[next]))
			case !hx.Equal(v, m.vals[next]):
				fail("wrong-value:"+valueKind(m.vals[next]), "InMemory.All yields %s for key %s, Data holds %s", hx.Show(v), a.show(k), hx.Show(m.vals[next]))
			}
			if f != nil {
				break
			}
			last = k
			n++
			next++
			if n == limit {
				break
			}
		}
		want := m.n
		if limit > 0 && limit < want {
			want = limit
		}
		if f == nil && n < want {
			fail("too-few-entries", "InMemory.All yields %d entries, Data has %d", n, m.n)
		}
		h.enumerations++
		h.edited, h.sizeThen = false, m.n
		return f
	}

	embed := func() *failure {
		class := done()
		in := s.memInput(m)
		w, mf, err := newWriter(s.c.Config)
		if err != nil {
			return &failure{fp: "harness", what: err.Error(), infra: true}
		}
		rm := pdf.NewResourceManager(w)
		nat, werr := obj.emb(rm)
		h.enumerations++
		h.edited, h.sizeThen = false, m.n
		if embeds != nil {
			embeds.Add(1)
		}
		if werr != nil {
			return &failure{fp: "write-error:Embed:mem=" + class, what: fmt.Sprintf("InMemory.Embed of a map with %d keys returned %v", m.n, werr)}
		}
		root, ok := nat.(pdf.Reference)
		if !ok {
			return &failure{fp: "embed:result-not-a-reference", what: fmt.Sprintf("InMemory.Embed returned %T", nat)}
		}
		if err := rm.Close(); err != nil {
			return &failure{fp: "write-error:Embed:mem=" + class, what: "ResourceManager.Close after Embed: " + err.Error()}
		}
		if err := w.Close(); err != nil {
			return &failure{fp: "writer-close-error", what: "Writer.Close after writing the tree: " + err.Error()}
		}
		// every object of the file is parsed once by the real Reader (memoGetter)
		g, f := reopen(mf.Data, memoAbove+1)
		if f != nil {
			return f
		}
		v := judgeWritten(a, g, mf.Data, root, in, "Embed", func() (int, error) { return baselineObjects(s.c.Config) })
		if len(v.fails) == 0 {
			return nil
		}
		f = &v.fails[0]
		if !f.infra {
			f.fp += ":mem=" + class
			f.what = "tree written by InMemory.Embed (" + class + "): " + f.what
		}
		return f
	}

	step := func(o memOp) *failure {
		switch o.kind {
		case 'A':
			return enumerate(0)
		case 'B':
			return enumerate(1)
		case 'L':
			return lookupAll()
		case 'E':
			return embed()
		}
		data := obj.data()
		switch o.kind {
		case 'R':
			delete(data, s.uni[o.i])
			data[s.uni[o.j]] = valueFor(o.j)
		case '+':
			data[s.uni[o.j]] = valueFor(o.j)
		case '-':
			delete(data, s.uni[o.i])
		case 'V':
			data[s.uni[o.i]] = memOtherValue(o.i)
		}
		m.apply(o)
		h.edited = true
		return nil
	}

	for n, o := range ops {
		if !m.enabled(o) {
			return []failure{{fp: "harness", what: fmt.Sprintf("operation %d (%s) is not enabled in the model", n, o), infra: true}}
		}
		if f := step(o); f != nil {
			if !f.infra {
				f.what = fmt.Sprintf("operation %d (%s): %s", n, o, f.what)
			}
			return []failure{*f}
		}
	}
	// the implicit end: all three observations are made, every deviation is reported
	frozen = h.class(m.n)
	var fails []failure
	for _, o := range []memOp{{kind: 'A'}, {kind: 'L'}, {kind: 'E'}} {
		if f := step(o); f != nil {
			if !f.infra {
				f.what = fmt.Sprintf("after the program (%s): %s", o, f.what)
			}
			fails = append(fails, *f)
		}
	}
	return fails
}

type memCounters struct {
	programs, operations, embeds *atomic.Int64
}

// explore runs every program of from..to operations that starts with the
// operations first; the model decides which operations are enabled.
// Shortest programs first; a failing program is not extended.
func (s *memStart[K]) explore(r *ev.Run, rn *runner, first []memOp, from, to int, cnt memCounters) {
	m0 := s.init.clone()
	for _, o := range first {
		if !o.observes() {
			m0.apply(o)
		}
	}
	ops := append([]memOp{}, first...)
	key := func() string {
		var b strings.Builder
		for _, o := range ops {
			b.WriteString(o.String())
			b.WriteByte(' ')
		}
		return b.String()
	}
	hasFailed := func() bool {
		s.mu.Lock()
		defer s.mu.Unlock()
		return len(s.failed) > 0 && s.failed[key()]
	}
	run := func() {
		f := memExec(s, ops, cnt.embeds)
		cnt.programs.Add(1)
		cnt.operations.Add(int64(len(ops)))
		r.Eval(1)
		c := s.c
		for _, o := range ops {
			c.Ops = append(c.Ops, o.String())
		}
		if len(ops) > 0 {
			r.DistinctS(fmt.Sprintf("mem/%s/%d/%d/%s/%d/%d/%s/%v", c.Kind, c.Mini, c.Mask, c.Family, c.N, c.Parity, c.Origin, c.Ops))
		}
		if len(f) == 0 {
			r.Outcome("ok:mem:" + c.Origin + ":ops=" + strconv.Itoa(len(ops)))
			return
		}
		s.mu.Lock()
		if s.failed == nil {
			s.failed = map[string]bool{}
		}
		s.failed[key()] = true
		s.mu.Unlock()
		rn.report(c, f)
	}
	var rec func(m *memModel, d int)
	rec = func(m *memModel, d int) {
		if r.Expired() || r.TooManyViolations() {
			return
		}
		if len(ops) == d {
			run()
			return
		}
		if hasFailed() {
			return
		}
		for _, o := range m.ops(s.all) {
			next := m
			if !o.observes() {
				next = m.clone()
				next.apply(o)
			}
			ops = append(ops, o)
			rec(next, d)
			ops = ops[:len(ops)-1]
		}
	}
	for d := max(from, len(first)); d <= to; d++ {
		if len(first) > 0 && len(first) < d {
			// the prefix itself was run in an earlier pass
			n := len(ops)
			ops = ops[:len(first)]
			bad := hasFailed()
			ops = ops[:n]
			if bad {
				return
			}
		}
		rec(m0, d)
	}
}

// judgeMem replays one program.
func judgeMem[K cmp.Ordered](a *api[K], c Case) verdict {
	s, f := prepareMem(a, c)
	if f != nil {
		return verdict{fails: []failure{*f}}
	}
	var ops []memOp
	for _, t := range c.Ops {
		o, err := parseMemOp(t)
		if err != nil {
			return verdict{fails: []failure{{fp: "harness", what: err.Error(), infra: true}}}
		}
		ops = append(ops, o)
	}
	if f := memExec(s, ops, nil); len(f) > 0 {
		return verdict{fails: f}
	}
	return verdict{outcome: "ok:mem:" + c.Origin}
}

type memSpec struct {
	kind    string
	mini    int // > 0: every subset of the first mini keys of the small universe, every edit
	family  string
	n       int
	config  string
	depth   int
	origins []string
}

// runMem enumerates the space.
func runMem(r *ev.Run, rn *runner) {
	both := []string{"literal", "extracted"}
	lit := both[:1]
	specs := []memSpec{
		{kind: "name", mini: 4, config: "v14", depth: 3, origins: both},
		{kind: "num", mini: 4, config: "v14", depth: 3, origins: both},
		{kind: "name", family: "alpha4", n: 130, config: "v14", depth: 2, origins: both},
		{kind: "num", family: "gaps", n: 65, config: "v17", depth: 2, origins: both},
		{kind: "name", family: "plain", n: 64, config: "v20hr", depth: 2, origins: both},
		{kind: "num", family: "extreme", n: 128, config: "v14", depth: 2, origins: both},
	}
	if r.Thorough() {
		specs = []memSpec{
			{kind: "name", mini: 5, config: "v14", depth: 3, origins: both},
			{kind: "num", mini: 5, config: "v14", depth: 3, origins: both},
			{kind: "name", mini: 4, config: "v17", depth: 4, origins: lit},
			{kind: "num", mini: 4, config: "v20hr", depth: 4, origins: lit},
			{kind: "name", family: "alpha4", n: 130, config: "v14", depth: 3, origins: lit},
			{kind: "num", family: "gaps", n: 65, config: "v17", depth: 3, origins: lit},
			{kind: "name", family: "alpha4", n: 130, config: "v14", depth: 2, origins: both[1:]},
			{kind: "num", family: "gaps", n: 65, config: "v17", depth: 2, origins: both[1:]},
			{kind: "name", family: "plain", n: 64, config: "v20hr", depth: 2, origins: both},
			{kind: "num", family: "extreme", n: 128, config: "v14", depth: 2, origins: both},
			{kind: "name", family: "prefix", n: 129, config: "v14", depth: 2, origins: both},
			{kind: "name", family: "nonascii", n: 65, config: "v14", depth: 2, origins: both},
			{kind: "num", family: "dense", n: 130, config: "v14", depth: 2, origins: both},
			{kind: "name", family: "plain", n: 4097, config: "v14", depth: 2, origins: lit},
			{kind: "num", family: "gaps", n: 4097, config: "v14", depth: 2, origins: lit},
		}
	}
	cnt := memCounters{
		programs:   r.Counter("mem_programs"),
		operations: r.Counter("mem_operations"),
		embeds:     r.Counter("mem_trees_written_and_judged"),
	}
	// pass 1: per start value the programs of <= 2 operations; pass 2: per
	// (start value, first operation) the longer programs.  So the recorded
	// witness of a defect is a shortest one.
	var jobs, jobs2 []func()
	var dims []string
	for _, s := range specs {
		if s.kind == "name" {
			addMemJobs(r, rn, nameAPI, s, cnt, &dims, &jobs, &jobs2)
		} else {
			addMemJobs(r, rn, numAPI, s, cnt, &dims, &jobs, &jobs2)
		}
	}
	r.Dim("mem_values", dims)
	r.Dim("mem_operations_alphabet", "on ONE nametree/numtree.InMemory value: A All to the end | B All, loop left after the first entry | L Lookup of every universe key | E Embed (fresh ResourceManager, fresh file; closed, reopened, tree judged like every written tree) | R:i:j edit of Data: delete key i, store absent key j (size unchanged) | +:j store absent key j | -:i delete key i | V:i store another value under key i; implicit end of every program: A, L, E; every observation compared with the sorted-map model of Data at that moment")
	r.Dim("mem_small_universes", map[string][]string{"name": showAll(nameAPI, nameAPI.memUniverse), "num": showAll(numAPI, numAPI.memUniverse)})
	r.Dim("mem_edit_positions_large_maps", "entries of rank 0, m/2, 63, 64, m-1 of the current map; renamed to the nearest absent universe key below / above, the least and the greatest absent key; additions: least, greatest absent key, nearest absent key above the middle entry")
	r.Dim("mem_origins", []string{"literal: &InMemory{Data: m}", "extracted: ExtractInMemory of the tree written with Write and reopened"})
	r.Dim("mem_jobs", len(jobs)+len(jobs2))
	r.Par(len(jobs), func(i int) { jobs[i]() })
	r.Par(len(jobs2), func(i int) { jobs2[i]() })
	r.Sample(Case{Space: "mem", Kind: "name", Entry: "Embed", Config: "v14", Origin: "literal", Mini: 4, Mask: 0x7, Ops: []string{"E", "R:1:3"}})
	r.Sample(Case{Space: "mem", Kind: "num", Entry: "Embed", Config: "v17", Origin: "extracted", Family: "gaps", N: 65, Parity: 1, Ops: []string{"A", "R:127:128"}})
}

func showAll[K cmp.Ordered](a *api[K], keys []K) []string {
	var out []string
	for _, k := range keys {
		out = append(out, a.show(k))
	}
	return out
}

func addMemJobs[K cmp.Ordered](r *ev.Run, rn *runner, a *api[K], sp memSpec, cnt memCounters, dims *[]string, jobs, jobs2 *[]func()) {
	var starts []Case
	for _, origin := range sp.origins {
		base := Case{Space: "mem", Kind: sp.kind, Entry: "Embed", Config: sp.config, Origin: origin}
		if sp.mini > 0 {
			for mask := 0; mask < 1<<uint(sp.mini); mask++ {
				if mask == 0 && origin == "extracted" {
					continue // ExtractInMemory of no tree yields no value
				}
				c := base
				c.Mini, c.Mask = sp.mini, uint32(mask)
				starts = append(starts, c)
			}
		} else {
			c := base
			c.Family, c.N, c.Parity = sp.family, sp.n, 1
			starts = append(starts, c)
		}
	}
	what := fmt.Sprintf("%s %s n=%d (universe 2n+1 keys, boundary edits)", sp.kind, sp.family, sp.n)
	if sp.mini > 0 {
		what = fmt.Sprintf("%s: every subset of the first %d keys of the small universe, every edit", sp.kind, sp.mini)
	}
	*dims = append(*dims, fmt.Sprintf("%s; %s; origins %v; programs of <= %d operations; %d start values", what, sp.config, sp.origins, sp.depth, len(starts)))
	for _, c := range starts {
		s, f := prepareMem(a, c)
		if f != nil {
			rn.report(c, []failure{*f})
			continue
		}
		const pass1 = 2
		if s.all {
			*jobs = append(*jobs, func() { s.explore(r, rn, nil, 0, min(sp.depth, pass1), cnt) })
		} else {
			// large maps: one job per first operation in pass 1 as well
			*jobs = append(*jobs, func() { s.explore(r, rn, nil, 0, min(sp.depth, 1), cnt) })
		}
		for _, o := range s.init.ops(s.all) {
			o := o
			if !s.all && sp.depth >= 2 {
				*jobs = append(*jobs, func() { s.explore(r, rn, []memOp{o}, 2, min(sp.depth, pass1), cnt) })
			}
			if sp.depth > pass1 {
				*jobs2 = append(*jobs2, func() { s.explore(r, rn, []memOp{o}, pass1+1, sp.depth, cnt) })
			}
		}
	}
}

// memSelfTest: the program executor accepts a trivially correct value on all
// programs of <= 2 operations and flags a value whose All takes its keys from
// a list that is only rebuilt when the number of keys has changed.
func memSelfTest() error {
	for _, stale := range []bool{false, true} {
		s, f := prepareMem(numAPI, Case{Space: "mem", Kind: "num", Entry: "Embed", Config: "v14", Origin: "literal", Mini: 4, Mask: 0x5})
		if f != nil {
			return errors.New("self-test: mem: " + f.what)
		}
		s.toyObj = func(m map[pdf.Integer]pdf.Object) *memObj[pdf.Integer] {
			t := &toyMem{data: m, stale: stale}
			return &memObj[pdf.Integer]{
				t: t,
				emb: func(rm *pdf.ResourceManager) (pdf.Native, error) {
					// the writer is not under test here: written from the model's own order
					var keys []pdf.Integer
					for k := range t.data {
						keys = append(keys, k)
					}
					sort.Slice(keys, func(i, j int) bool { return keys[i] < keys[j] })
					return numtree.Write(rm.Out, func(yield func(pdf.Integer, pdf.Object) bool) {
						for _, k := range keys {
							if !yield(k, t.data[k]) {
								return
							}
						}
					})
				},
				data: func() map[pdf.Integer]pdf.Object { return t.data },
			}
		}
		var flagged []string
		var ops []memOp
		var rec func(m *memModel, d int)
		rec = func(m *memModel, d int) {
			if fs := memExec(s, ops, nil); len(fs) > 0 {
				for _, f := range fs {
					if f.infra {
						flagged = append(flagged, "infra: "+f.what)
					} else {
						flagged = append(flagged, f.fp)
					}
				}
				return
			}
			if d == 2 {
				return
			}
			for _, o := range m.ops(true) {
				next := m.clone()
				if m.enabled(o) && !strings.ContainsRune("ABLE", rune(o.kind)) {
					next.apply(o)
				}
				ops = append(ops, o)
				rec(next, d+1)
				ops = ops[:len(ops)-1]
			}
		}
		rec(s.init.clone(), 0)
		switch {
		case !stale && len(flagged) > 0:
			return fmt.Errorf("self-test: mem: a correct in-memory tree is flagged: %v", flagged[0])
		case stale && !contains(flagged, "mem:literal:all:wrong-key:enumerated-before:edited-since:same-size"):
			return fmt.Errorf("self-test: mem: a tree with a key list cached by size is judged %v", flagged)
		}
		if stale {
			for _, fp := range flagged {
				if !strings.Contains(fp, "edited-since:same-size") {
					return fmt.Errorf("self-test: mem: a tree with a key list cached by size is flagged outside its class: %s", fp)
				}
			}
		}
	}
	return nil
}

type toyMem struct {
	data   map[pdf.Integer]pdf.Object
	stale  bool
	sorted []pdf.Integer
}

func (t *toyMem) Lookup(k pdf.Integer) (pdf.Object, error) {
	v, ok := t.data[k]
	if !ok {
		return nil, pdftree.ErrKeyNotFound
	}
	return v, nil
}

func (t *toyMem) All() iter.Seq2[pdf.Integer, pdf.Object] {
	return func(yield func(pdf.Integer, pdf.Object) bool) {
		if !t.stale || len(t.sorted) != len(t.data) {
			t.sorted = t.sorted[:0]
			for k := range t.data {
				t.sorted = append(t.sorted, k)
			}
			sort.Slice(t.sorted, func(i, j int) bool { return t.sorted[i] < t.sorted[j] })
		}
		for _, k := range t.sorted {
			if !yield(k, t.data[k]) {
				return
			}
		}
	}
}
