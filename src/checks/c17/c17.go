//go:build verif

// Package c17 decides C17: name trees and number trees are faithful ordered
// dictionaries.
//
// Every case is one finite map.  The map is written with one of the entry
// points of nametree / numtree / internal/pdftree into a fresh PDF file, the
// file is closed, reopened with pdf.NewReader and judged against the map:
// lookups for every key of a universe (present and absent keys), iteration,
// Size, both readers, and the shape of the raw node dictionaries.
package c17

import (
	"bytes"
	"cmp"
	"errors"
	"fmt"
	"iter"
	"math"
	"sort"
	"strconv"
	"strings"
	"sync"
	"time"

	"seehuhn.de/go/pdf"
	"seehuhn.de/go/pdf/internal/debug/memfile"
	"seehuhn.de/go/pdf/internal/pdftree"
	"seehuhn.de/go/pdf/nametree"
	"seehuhn.de/go/pdf/numtree"
	"seehuhn.de/go/pdf/zzverif/checks/hx"
	"seehuhn.de/go/pdf/zzverif/engine/ev"
)

// fanout is the bound on kids / entries per node.  The statement only says
// "bounded"; the constant is maxChildren of internal/pdftree/write.go.
const fanout = 64

// Case is one replayable case.
type Case struct {
	Space  string `json:"space"`  // subset | size | seq | ctx | reentrant | mem
	Kind   string `json:"kind"`   // name | num
	Entry  string `json:"entry"`  // Write | WriteMap | Embed
	Config string `json:"config"` // v14 | v17 | v20hr
	// subset: bit i of Mask selects key i of the kind's universe
	Mask uint32 `json:"mask,omitempty"`
	// size: the map has N keys, the positions Parity, Parity+2, ... of the
	// first 2N+1 keys of Family
	Family string `json:"family,omitempty"`
	N      int    `json:"n,omitempty"`
	Parity int    `json:"parity,omitempty"`
	// seq: indices into the kind's 4-key sequence alphabet, passed to Write
	// in this order
	Seq []int `json:"seq,omitempty"`
	// ctx: the key set of a size case, written in the writer context Ctx
	// (c17ext.go: contextNames)
	Ctx string `json:"ctx,omitempty"`
	// reentrant: the key set of a size case written plainly; on ONE reader
	// object (Reader = FromFile | InMemory) a first enumeration is started
	// and advanced by At entries (At = 0: no such prefix), then the
	// operations Ops are executed in order ("L:i" Lookup of probe i, "S"
	// start another All, "N:j" take one entry from the j-th active
	// enumeration, "X:j" abandon it), then every enumeration still active is
	// drained, the newest first
	Reader string   `json:"reader,omitempty"`
	At     int      `json:"at,omitempty"`
	Ops    []string `json:"ops,omitempty"`
	// mem (c17mem.go): ONE in-memory tree value (Origin = literal |
	// extracted) whose Data map starts as the subset Mask of the first Mini
	// keys of the kind's small universe (Mini > 0) or as the key set of a size
	// case (Family, N, Parity); the operations Ops are executed on it in order
	// ("A" All, "B" All left after one entry, "L" Lookup of every universe key,
	// "E" Embed into a fresh file, "R:i:j" delete universe key i and store
	// key j, "+:j" store key j, "-:i" delete key i, "V:i" store another value
	// under key i), then A, L, E
	Origin string `json:"origin,omitempty"`
	Mini   int    `json:"mini,omitempty"`
}

type failure struct {
	fp, what string
	infra    bool
}

// tree is what both readers offer.
type tree[K any] interface {
	Lookup(K) (pdf.Object, error)
	All() iter.Seq2[K, pdf.Object]
}

// api binds one tree kind to the repository's entry points and to the
// oracle's own notion of key order and key representation (ISO 32000-2
// 7.9.6: keys are strings ordered bytewise; 7.9.7: keys are integers).
type api[K cmp.Ordered] struct {
	kind         string
	leafKey      pdf.Name
	otherLeafKey pdf.Name
	cmp          func(a, b K) int
	rawKey       func(pdf.Object) (K, bool)
	show         func(K) string

	write    func(*pdf.Writer, iter.Seq2[K, pdf.Object]) (pdf.Reference, error)
	writeMap func(*pdf.Writer, map[K]pdf.Object) (pdf.Reference, error)
	embed    func(*pdf.ResourceManager, map[K]pdf.Object) (pdf.Native, error)
	fromFile func(pdf.Getter, pdf.Object) (tree[K], error)
	inMemory func(pdf.Getter, pdf.Object) (tree[K], error)
	size     func(pdf.Getter, pdf.Object) (int, error)

	universe []K // subset space
	seqAlpha []K // seq space
	family   func(name string, m int) ([]K, error)

	// space mem (set by the init of c17mem.go)
	newMem      func(map[K]pdf.Object) *memObj[K]
	asMem       func(tree[K]) *memObj[K]
	memUniverse []K
}

var nameAPI = &api[pdf.Name]{
	kind: "name", leafKey: "Names", otherLeafKey: "Nums",
	cmp: func(a, b pdf.Name) int { return bytes.Compare([]byte(a), []byte(b)) },
	rawKey: func(o pdf.Object) (pdf.Name, bool) {
		s, ok := o.(pdf.String)
		return pdf.Name(s), ok
	},
	show: func(k pdf.Name) string {
		// bytes, not runes: keys are byte strings
		var b strings.Builder
		b.WriteByte('"')
		for i := 0; i < len(k); i++ {
			c := k[i]
			switch {
			case len(k) > 48 && i >= 16 && i < len(k)-24:
				if i == 16 {
					fmt.Fprintf(&b, "...(%d bytes)...", len(k)-40)
				}
			case c == '"' || c == '\\':
				b.WriteByte('\\')
				b.WriteByte(c)
			case c >= 0x20 && c < 0x7f:
				b.WriteByte(c)
			default:
				fmt.Fprintf(&b, "\\x%02x", c)
			}
		}
		b.WriteByte('"')
		return b.String()
	},
	write:    nametree.Write,
	writeMap: nametree.WriteMap,
	embed: func(rm *pdf.ResourceManager, m map[pdf.Name]pdf.Object) (pdf.Native, error) {
		return rm.Embed(&nametree.InMemory{Data: m})
	},
	fromFile: func(g pdf.Getter, root pdf.Object) (tree[pdf.Name], error) {
		t, err := nametree.ExtractFromFile(g, root)
		return t, err
	},
	inMemory: func(g pdf.Getter, root pdf.Object) (tree[pdf.Name], error) {
		t, err := nametree.ExtractInMemory(g, root)
		return t, err
	},
	size:     nametree.Size,
	universe: nameUniverse(),
	seqAlpha: []pdf.Name{"", "\x00", "a", "a\x00"},
	family:   nameFamily,
}

var numAPI = &api[pdf.Integer]{
	kind: "num", leafKey: "Nums", otherLeafKey: "Names",
	cmp: func(a, b pdf.Integer) int {
		switch {
		case int64(a) < int64(b):
			return -1
		case int64(a) > int64(b):
			return 1
		}
		return 0
	},
	rawKey: func(o pdf.Object) (pdf.Integer, bool) {
		i, ok := o.(pdf.Integer)
		return i, ok
	},
	show:  func(k pdf.Integer) string { return strconv.FormatInt(int64(k), 10) },
	write: numtree.Write,
	// numtree has no WriteMap; the generic one is reachable from inside the module
	writeMap: pdftree.WriteMap[pdf.Integer, pdftree.NumCodec],
	embed: func(rm *pdf.ResourceManager, m map[pdf.Integer]pdf.Object) (pdf.Native, error) {
		return rm.Embed(&numtree.InMemory{Data: m})
	},
	fromFile: func(g pdf.Getter, root pdf.Object) (tree[pdf.Integer], error) {
		t, err := numtree.ExtractFromFile(g, root)
		return t, err
	},
	inMemory: func(g pdf.Getter, root pdf.Object) (tree[pdf.Integer], error) {
		t, err := numtree.ExtractInMemory(g, root)
		return t, err
	},
	size:     numtree.Size,
	universe: []pdf.Integer{math.MinInt64, -1, 0, 1, 2, math.MaxInt64},
	seqAlpha: []pdf.Integer{math.MinInt64, -1, 0, math.MaxInt64},
	family:   numFamily,
}

// ---------------------------------------------------------------------------
// alphabets

var nameAlpha = []byte{0, 'a', 'b', 0xff}

// nameUniverse returns the 21 byte strings of length <= 2 over nameAlpha in
// bytewise order (a string precedes its extensions).
func nameUniverse() []pdf.Name {
	var out []pdf.Name
	out = append(out, "")
	for _, c := range nameAlpha {
		out = append(out, pdf.Name([]byte{c}))
		for _, d := range nameAlpha {
			out = append(out, pdf.Name([]byte{c, d}))
		}
	}
	return out
}

// quick14 is the 14-key sub-universe of the quick tier, as a mask over
// nameUniverse: "", NUL, NUL NUL, NUL a, a, a NUL, a a, a b, a FF, b, FF,
// FF NUL, FF a, FF FF.
var quick14 = func() []int {
	want := []string{"", "\x00", "\x00\x00", "\x00a", "a", "a\x00", "aa", "ab", "a\xff", "b", "\xff", "\xff\x00", "\xffa", "\xff\xff"}
	var idx []int
	for _, w := range want {
		for i, u := range nameUniverse() {
			if string(u) == w {
				idx = append(idx, i)
			}
		}
	}
	return idx
}()

// valueFor is the value stored under the key with index i of a universe.
// Values of different indices differ, so a misrouted lookup is visible.
func valueFor(i int) pdf.Object {
	switch i % 9 {
	case 0:
		return pdf.Integer(1000 + i)
	case 1:
		return pdf.String(fmt.Sprintf("v%d(\\\x00\xfe", i))
	case 2:
		return pdf.NewReference(uint32(500+i), 0)
	case 3:
		return pdf.Dict{"K": pdf.Integer(i), "T": pdf.Name("X Y")}
	case 4:
		return pdf.Name(fmt.Sprintf("N%d", i))
	case 5:
		return pdf.Array{pdf.Integer(i), pdf.String("x")}
	case 6:
		return pdf.Real(float64(i) + 0.5)
	case 7:
		return pdf.Array{pdf.Boolean(i%2 == 1), pdf.Integer(-i), pdf.Dict{}}
	default:
		return pdf.Array{pdf.NewReference(uint32(7+i), 1)}
	}
}

func valueKind(o pdf.Object) string {
	switch o.(type) {
	case nil:
		return "null"
	case pdf.Integer:
		return "integer"
	case pdf.String:
		return "string"
	case pdf.Reference:
		return "reference"
	case pdf.Dict:
		return "dict"
	case pdf.Name:
		return "name"
	case pdf.Array:
		return "array"
	case pdf.Real:
		return "real"
	}
	return fmt.Sprintf("%T", o)
}

const (
	nameFamilies = "plain,prefix,alpha4,nonascii"
	numFamilies  = "dense,gaps,extreme"
)

// nameFamily returns the first m keys of a family, in ascending byte order.
func nameFamily(name string, m int) ([]pdf.Name, error) {
	out := make([]pdf.Name, 0, m)
	switch name {
	case "plain":
		for i := 0; i < m; i++ {
			out = append(out, pdf.Name(fmt.Sprintf("k%06d", i)))
		}
	case "prefix":
		// a long shared prefix, then a 3-byte big-endian counter: the low
		// byte takes every value incl. NUL, '(' , '\\', 0xFF
		p := strings.Repeat("Prefix/", 24)
		for i := 0; i < m; i++ {
			out = append(out, pdf.Name(p+string([]byte{byte(i >> 16), byte(i >> 8), byte(i)})))
		}
	case "alpha4":
		// byte strings over {NUL,a,b,FF} of length <= 10 in byte order: every
		// key is followed by its own extensions; starts with the empty key
		buf := make([]byte, 0, 10)
		var rec func() bool
		rec = func() bool {
			if len(out) >= m {
				return false
			}
			out = append(out, pdf.Name(buf))
			if len(buf) == 10 {
				return true
			}
			for _, c := range nameAlpha {
				buf = append(buf, c)
				ok := rec()
				buf = buf[:len(buf)-1]
				if !ok {
					return false
				}
			}
			return true
		}
		rec()
	case "nonascii":
		// UTF-8 text followed by 10 base-3 digits written with bytes >= 0x80
		digits := []byte{0x80, 0xc3, 0xfe}
		for i := 0; i < m; i++ {
			b := []byte("\xc3\x9c\xe2\x82\xac")
			d := make([]byte, 10)
			x := i
			for j := 9; j >= 0; j-- {
				d[j] = digits[x%3]
				x /= 3
			}
			out = append(out, pdf.Name(append(b, d...)))
		}
	default:
		return nil, fmt.Errorf("unknown name family %q", name)
	}
	if len(out) != m {
		return nil, fmt.Errorf("family %s has only %d keys, %d wanted", name, len(out), m)
	}
	return out, nil
}

// numFamily returns the first m keys of a family, ascending.
func numFamily(name string, m int) ([]pdf.Integer, error) {
	out := make([]pdf.Integer, 0, m)
	switch name {
	case "dense":
		for i := 0; i < m; i++ {
			out = append(out, pdf.Integer(i-m/2))
		}
	case "gaps":
		for i := 0; i < m; i++ {
			out = append(out, pdf.Integer(-1000+7*i))
		}
	case "extreme":
		// spread over the whole int64 range, both ends included
		step := uint64(0)
		if m > 1 {
			step = math.MaxUint64 / uint64(m-1)
		}
		for i := 0; i < m; i++ {
			u := uint64(i) * step
			if i == m-1 && m > 1 {
				u = math.MaxUint64
			}
			out = append(out, pdf.Integer(int64(u^(1<<63))))
		}
	default:
		return nil, fmt.Errorf("unknown number family %q", name)
	}
	return out, nil
}

// ---------------------------------------------------------------------------
// the model

// input is one finite map (keys ascending) plus the probe keys.
type input[K cmp.Ordered] struct {
	keys   []K
	vals   []pdf.Object
	probes []K
}

func (a *api[K]) ascending(keys []K) bool {
	for i := 1; i < len(keys); i++ {
		if a.cmp(keys[i-1], keys[i]) >= 0 {
			return false
		}
	}
	return true
}

// build makes the input of a case.  ok=false: the key sequence is not a map
// in ascending order (seq space only).
func (a *api[K]) build(c Case) (in *input[K], isMap bool, err error) {
	in = &input[K]{}
	switch c.Space {
	case "subset":
		for i, k := range a.universe {
			if c.Mask&(1<<uint(i)) != 0 {
				in.keys = append(in.keys, k)
				in.vals = append(in.vals, valueFor(i))
			}
		}
		if c.Mask>>uint(len(a.universe)) != 0 {
			return nil, false, fmt.Errorf("mask %#x exceeds the universe", c.Mask)
		}
		in.probes = a.universe
	case "size", "ctx", "reentrant":
		if c.N < 0 || c.Parity < 0 || c.Parity > 1 {
			return nil, false, errors.New("bad size case")
		}
		u, err := a.family(c.Family, 2*c.N+1)
		if err != nil {
			return nil, false, err
		}
		for j := 0; j < c.N; j++ {
			i := c.Parity + 2*j
			in.keys = append(in.keys, u[i])
			in.vals = append(in.vals, valueFor(i))
		}
		in.probes = u
	case "seq":
		for _, i := range c.Seq {
			if i < 0 || i >= len(a.seqAlpha) {
				return nil, false, errors.New("bad seq case")
			}
			in.keys = append(in.keys, a.seqAlpha[i])
			in.vals = append(in.vals, valueFor(i))
		}
		in.probes = a.seqAlpha
		return in, a.ascending(in.keys), nil
	default:
		return nil, false, fmt.Errorf("unknown space %q", c.Space)
	}
	if !a.ascending(in.keys) || !a.ascending(in.probes) {
		return nil, false, fmt.Errorf("harness: keys of %+v are not ascending under the oracle's order", c)
	}
	return in, true, nil
}

// ---------------------------------------------------------------------------
// writing

func newWriter(config string) (*pdf.Writer, *memfile.MemFile, error) {
	switch config {
	case "v14":
		w, f := memfile.NewPDFWriter(pdf.V1_4, nil)
		return w, f, nil
	case "v17":
		w, f := memfile.NewPDFWriter(pdf.V1_7, nil)
		return w, f, nil
	case "v20hr":
		w, f := memfile.NewPDFWriter(pdf.V2_0, &pdf.WriterOptions{HumanReadable: true})
		return w, f, nil
	}
	return nil, nil, fmt.Errorf("unknown config %q", config)
}

var objMarker = []byte(" 0 obj")

var baseline sync.Map // config -> number of objects in a file without a tree

func baselineObjects(config string) (int, error) {
	if v, ok := baseline.Load(config); ok {
		return v.(int), nil
	}
	w, f, err := newWriter(config)
	if err != nil {
		return 0, err
	}
	if err := w.Close(); err != nil {
		return 0, err
	}
	n := bytes.Count(f.Data, objMarker)
	baseline.Store(config, n)
	return n, nil
}

func seqOf[K any](keys []K, vals []pdf.Object) iter.Seq2[K, pdf.Object] {
	return func(yield func(K, pdf.Object) bool) {
		for i, k := range keys {
			if !yield(k, vals[i]) {
				return
			}
		}
	}
}

// writeTree writes the map through the entry point and returns the closed file.
func (a *api[K]) writeTree(in *input[K], entry, config string) (root pdf.Reference, data []byte, werr error, f *failure) {
	w, mf, err := newWriter(config)
	if err != nil {
		return 0, nil, nil, &failure{fp: "harness", what: err.Error(), infra: true}
	}
	switch entry {
	case "Write":
		root, werr = a.write(w, seqOf(in.keys, in.vals))
	case "WriteMap", "Embed":
		m := make(map[K]pdf.Object, len(in.keys))
		for i, k := range in.keys {
			m[k] = in.vals[i]
		}
		if entry == "WriteMap" {
			root, werr = a.writeMap(w, m)
		} else {
			rm := pdf.NewResourceManager(w)
			var nat pdf.Native
			nat, werr = a.embed(rm, m)
			if werr == nil {
				ref, ok := nat.(pdf.Reference)
				if !ok {
					return 0, nil, nil, &failure{fp: "embed:result-not-a-reference", what: fmt.Sprintf("InMemory.Embed returned %T", nat)}
				}
				root = ref
				werr = rm.Close()
			}
		}
	default:
		return 0, nil, nil, &failure{fp: "harness", what: "unknown entry " + entry, infra: true}
	}
	if werr != nil {
		return 0, nil, werr, nil
	}
	if err := w.Close(); err != nil {
		return 0, nil, nil, &failure{fp: "writer-close-error", what: "Writer.Close after writing the tree: " + err.Error()}
	}
	return root, mf.Data, nil, nil
}

// memoGetter parses every object of the file once.  It is only used for maps
// with more than memoAbove keys: pdf.Reader.Get re-parses an object on every
// call, FromFile.Lookup reads about 70 node dictionaries per key in a tree of
// depth 4, and every key of a universe of 2n+1 is looked up.
type memoGetter struct {
	pdf.Getter
	mu sync.Mutex
	m  map[pdf.Reference]pdf.Native
}

const memoAbove = 1000

func (g *memoGetter) Get(ref pdf.Reference, canObjStm bool) (pdf.Native, error) {
	g.mu.Lock()
	obj, ok := g.m[ref]
	g.mu.Unlock()
	if ok {
		return obj, nil
	}
	obj, err := g.Getter.Get(ref, canObjStm)
	if err != nil {
		return nil, err
	}
	g.mu.Lock()
	g.m[ref] = obj
	g.mu.Unlock()
	return obj, nil
}

// ---------------------------------------------------------------------------
// structure of the raw nodes, judged from the specification

type shape struct {
	depth    int // 1 = the root holds the entries
	nodes    int
	leaves   int
	maxKids  int
	maxLeaf  int
	rootKids int // 0 = root is a leaf
}

// fpClass is the part of the shape that goes into fingerprints.
func (s shape) fpClass() string {
	switch {
	case s.nodes == 0:
		return "no-tree"
	case s.rootKids == 0:
		return "root-leaf"
	}
	return "depth=" + strconv.Itoa(s.depth)
}

func (s shape) class() string {
	if s.nodes == 0 {
		return "no-tree"
	}
	rk := "root-leaf"
	if s.rootKids > 0 {
		rk = "root-kids=" + strconv.Itoa(s.rootKids)
		if s.rootKids > 2 && s.rootKids < fanout {
			rk = "root-kids=3..63"
		}
	}
	lv := ""
	switch {
	case s.rootKids == 0:
	case s.leaves <= 2:
		lv = ":leaves=" + strconv.Itoa(s.leaves)
	case s.leaves < fanout:
		lv = ":leaves=3..63"
	case s.leaves == fanout:
		lv = ":leaves=64"
	case s.leaves < fanout*fanout:
		lv = ":leaves=65..4095"
	default:
		lv = ":leaves>=4096"
	}
	return "depth=" + strconv.Itoa(s.depth) + ":" + rk + lv
}

type walker[K cmp.Ordered] struct {
	a     *api[K]
	g     pdf.Getter
	seen  map[pdf.Reference]bool
	keys  []K
	vals  []pdf.Object
	role  map[K]string // position of a key within its leaf
	ends  []int        // number of entries seen after each leaf, in traversal order
	sh    shape
	fails []failure
}

func (wk *walker[K]) fail(fp, format string, args ...any) {
	if len(wk.fails) < 8 {
		wk.fails = append(wk.fails, failure{fp: "structure:" + fp, what: fmt.Sprintf(format, args...)})
	}
}

func (wk *walker[K]) array(o pdf.Object) (pdf.Array, bool) {
	// an array value may legally be an indirect object
	if ref, ok := o.(pdf.Reference); ok {
		n, err := wk.g.Get(ref, true)
		if err != nil {
			return nil, false
		}
		o = n
	}
	arr, ok := o.(pdf.Array)
	return arr, ok
}

// walk judges the node and returns the least and greatest key below it.
func (wk *walker[K]) walk(ref pdf.Reference, isRoot bool, depth int) (lo, hi K, any bool) {
	a := wk.a
	where := "node " + ref.String()
	if depth > 12 {
		wk.fail("too-deep", "%s at depth %d", where, depth)
		return
	}
	if depth > wk.sh.depth {
		wk.sh.depth = depth
	}
	wk.sh.nodes++
	obj, err := wk.g.Get(ref, true)
	if err != nil {
		wk.fail("node-unreadable", "%s: %v", where, err)
		return
	}
	dict, ok := obj.(pdf.Dict)
	if !ok {
		wk.fail("node-not-a-dict", "%s is %T", where, obj)
		return
	}
	kidsObj, hasKids := dict["Kids"]
	leafObj, hasLeaf := dict[a.leafKey]
	hasKids = hasKids && kidsObj != nil
	hasLeaf = hasLeaf && leafObj != nil
	if o := dict[a.otherLeafKey]; o != nil {
		wk.fail("wrong-leaf-key", "%s of a %s tree has /%s", where, a.kind, a.otherLeafKey)
	}
	limObj := dict["Limits"]
	kindOfNode := "leaf"
	if hasKids {
		kindOfNode = "intermediate"
	}
	switch {
	case hasKids && hasLeaf:
		wk.fail("kids-and-entries", "%s has both /Kids and /%s", where, a.leafKey)
		return
	case !hasKids && !hasLeaf:
		wk.fail("neither-kids-nor-entries", "%s has neither /Kids nor /%s: %s", where, a.leafKey, hx.Show(dict))
		return
	}
	if isRoot && limObj != nil {
		wk.fail("root-has-limits", "root %s has /Limits %s", where, hx.Show(limObj))
	}
	if !isRoot && limObj == nil {
		wk.fail("limits-missing:"+kindOfNode, "%s %s has no /Limits", kindOfNode, where)
	}

	if hasLeaf {
		arr, ok := wk.array(leafObj)
		if !ok {
			wk.fail("entries-not-an-array", "%s /%s is %T", where, a.leafKey, leafObj)
			return
		}
		if len(arr)%2 != 0 {
			wk.fail("odd-entries", "%s /%s has %d elements", where, a.leafKey, len(arr))
			return
		}
		n := len(arr) / 2
		if n == 0 {
			wk.fail("empty-node", "%s has an empty /%s", where, a.leafKey)
			return
		}
		if n > fanout {
			wk.fail("fanout:entries", "%s has %d entries (bound %d)", where, n, fanout)
		}
		wk.sh.leaves++
		if n > wk.sh.maxLeaf {
			wk.sh.maxLeaf = n
		}
		for i := 0; i < n; i++ {
			k, ok := a.rawKey(arr[2*i])
			if !ok {
				wk.fail("key-type", "%s entry %d has key %s", where, i, hx.Show(arr[2*i]))
				return
			}
			if i > 0 && a.cmp(hi, k) >= 0 {
				wk.fail("leaf-keys-unsorted", "%s: key %s follows %s", where, a.show(k), a.show(hi))
			}
			if i == 0 {
				lo = k
			}
			hi = k
			wk.keys = append(wk.keys, k)
			wk.vals = append(wk.vals, arr[2*i+1])
			if wk.role != nil {
				switch {
				case n == 1:
					wk.role[k] = "only-key-of-leaf"
				case i == 0:
					wk.role[k] = "first-key-of-leaf"
				case i == n-1:
					wk.role[k] = "last-key-of-leaf"
				default:
					wk.role[k] = "inner-key-of-leaf"
				}
			}
		}
		any = true
		wk.ends = append(wk.ends, len(wk.keys))
	} else {
		arr, ok := wk.array(kidsObj)
		if !ok {
			wk.fail("kids-not-an-array", "%s /Kids is %T", where, kidsObj)
			return
		}
		if len(arr) == 0 {
			wk.fail("empty-node", "%s has an empty /Kids", where)
			return
		}
		if len(arr) > fanout {
			wk.fail("fanout:kids", "%s has %d kids (bound %d)", where, len(arr), fanout)
		}
		if len(arr) > wk.sh.maxKids {
			wk.sh.maxKids = len(arr)
		}
		if isRoot {
			wk.sh.rootKids = len(arr)
		}
		for i, kid := range arr {
			kref, ok := kid.(pdf.Reference)
			if !ok {
				wk.fail("kid-not-a-reference", "%s kid %d is %T", where, i, kid)
				continue
			}
			if wk.seen[kref] {
				wk.fail("node-reached-twice", "%s kid %d = %s was already visited", where, i, kref)
				continue
			}
			wk.seen[kref] = true
			klo, khi, kany := wk.walk(kref, false, depth+1)
			if !kany {
				continue
			}
			if any && a.cmp(hi, klo) >= 0 {
				wk.fail("kids-out-of-order", "%s: kid %d starts at %s, the kid before ends at %s", where, i, a.show(klo), a.show(hi))
			}
			if !any {
				lo = klo
			}
			hi = khi
			any = true
		}
	}

	if !isRoot && limObj != nil && any {
		lim, ok := wk.array(limObj)
		if !ok || len(lim) != 2 {
			wk.fail("limits-malformed:"+kindOfNode, "%s /Limits = %s", where, hx.Show(limObj))
			return
		}
		l0, ok0 := a.rawKey(lim[0])
		l1, ok1 := a.rawKey(lim[1])
		if !ok0 || !ok1 {
			wk.fail("limits-malformed:"+kindOfNode, "%s /Limits = %s", where, hx.Show(limObj))
			return
		}
		if a.cmp(l0, lo) != 0 {
			wk.fail("limits-least-wrong:"+kindOfNode, "%s %s: /Limits[0] = %s, least key below = %s", kindOfNode, where, a.show(l0), a.show(lo))
		}
		if a.cmp(l1, hi) != 0 {
			wk.fail("limits-greatest-wrong:"+kindOfNode, "%s %s: /Limits[1] = %s, greatest key below = %s", kindOfNode, where, a.show(l1), a.show(hi))
		}
	}
	return lo, hi, any
}

// structure judges the nodes reachable from root against the model.
func (a *api[K]) structure(g pdf.Getter, root pdf.Reference, in *input[K], wantRoles bool) (shape, map[K]string, []failure) {
	sh, role, _, fails := a.structureEnds(g, root, in, wantRoles)
	return sh, role, fails
}

// structureEnds is structure; it also returns the number of entries seen
// after each leaf in traversal order (the leaf boundaries of the file).
func (a *api[K]) structureEnds(g pdf.Getter, root pdf.Reference, in *input[K], wantRoles bool) (shape, map[K]string, []int, []failure) {
	wk := &walker[K]{a: a, g: g, seen: map[pdf.Reference]bool{root: true}}
	if wantRoles {
		wk.role = make(map[K]string, len(in.keys))
	}
	wk.walk(root, true, 1)
	if len(wk.fails) == 0 {
		if len(wk.keys) != len(in.keys) {
			wk.fail("entry-count", "the nodes hold %d entries, the map has %d", len(wk.keys), len(in.keys))
		} else {
			for i := range in.keys {
				if a.cmp(wk.keys[i], in.keys[i]) != 0 {
					wk.fail("keys-differ", "entry %d in traversal order has key %s, the map has %s", i, a.show(wk.keys[i]), a.show(in.keys[i]))
					break
				}
				if !hx.Equal(wk.vals[i], in.vals[i]) {
					wk.fail("value-differs:"+valueKind(in.vals[i]), "key %s holds %s, want %s", a.show(in.keys[i]), hx.Show(wk.vals[i]), hx.Show(in.vals[i]))
					break
				}
			}
		}
	}
	return wk.sh, wk.role, wk.ends, wk.fails
}

// ---------------------------------------------------------------------------
// the readers against the model

func (a *api[K]) position(in *input[K], p K) string {
	if len(in.keys) == 0 {
		return "empty-map"
	}
	i := sort.Search(len(in.keys), func(i int) bool { return a.cmp(in.keys[i], p) >= 0 })
	switch {
	case i == 0:
		return "below-least-key"
	case i == len(in.keys):
		return "above-greatest-key"
	}
	return "between-neighbours"
}

func (a *api[K]) readers(g pdf.Getter, root pdf.Object, in *input[K], sh shape, role map[K]string) []failure {
	var fails []failure
	add := func(fp, format string, args ...any) {
		if len(fails) < 8 {
			fails = append(fails, failure{fp: fp, what: fmt.Sprintf(format, args...)})
		}
	}
	model := make(map[K]int, len(in.keys))
	for i, k := range in.keys {
		model[k] = i
	}

	ff, err := a.fromFile(g, root)
	if err != nil {
		add("extract:FromFile-error", "ExtractFromFile: %v", err)
		return fails
	}
	im, err := a.inMemory(g, root)
	if err != nil {
		add("extract:InMemory-error", "ExtractInMemory: %v", err)
		return fails
	}
	readers := []struct {
		name string
		t    tree[K]
	}{{"FromFile", ff}, {"InMemory", im}}

	for _, rd := range readers {
		// Lookup for every key of the universe
		for _, p := range in.probes {
			got, err := rd.t.Lookup(p)
			if i, present := model[p]; present {
				r := role[p]
				if r == "" {
					r = "?"
				}
				if err != nil {
					add(fmt.Sprintf("lookup:%s:present-key-not-found:%s:%s", rd.name, r, sh.fpClass()),
						"%s.Lookup(%s) = %v, the key is entry %d of %d", rd.name, a.show(p), err, i, len(in.keys))
				} else if !hx.Equal(got, in.vals[i]) {
					add(fmt.Sprintf("lookup:%s:wrong-value:%s:%s", rd.name, valueKind(in.vals[i]), sh.fpClass()),
						"%s.Lookup(%s) = %s, want %s", rd.name, a.show(p), hx.Show(got), hx.Show(in.vals[i]))
				}
			} else {
				if err == nil {
					add(fmt.Sprintf("lookup:%s:absent-key-found:%s:%s", rd.name, a.position(in, p), sh.fpClass()),
						"%s.Lookup(%s) = %s, the key is not in the map (%d keys)", rd.name, a.show(p), hx.Show(got), len(in.keys))
				} else if !errors.Is(err, pdftree.ErrKeyNotFound) {
					add(fmt.Sprintf("lookup:%s:absent-key-other-error:%s:%s", rd.name, a.position(in, p), sh.fpClass()),
						"%s.Lookup(%s) = error %q, want ErrKeyNotFound", rd.name, a.show(p), err)
				}
			}
		}

		// All: every entry once, ascending
		n := 0
		bad := false
		for k, v := range rd.t.All() {
			if n >= len(in.keys) {
				add(fmt.Sprintf("all:%s:too-many-entries:%s", rd.name, sh.fpClass()),
					"%s.All yields more than the %d entries of the map (next key %s)", rd.name, len(in.keys), a.show(k))
				bad = true
				break
			}
			if a.cmp(k, in.keys[n]) != 0 {
				what := "wrong-key"
				if n > 0 && a.cmp(k, in.keys[n-1]) <= 0 {
					what = "not-ascending"
				}
				add(fmt.Sprintf("all:%s:%s:%s", rd.name, what, sh.fpClass()),
					"%s.All yields key %s as entry %d, want %s", rd.name, a.show(k), n, a.show(in.keys[n]))
				bad = true
				break
			}
			if !hx.Equal(v, in.vals[n]) {
				add(fmt.Sprintf("all:%s:wrong-value:%s:%s", rd.name, valueKind(in.vals[n]), sh.fpClass()),
					"%s.All yields %s for key %s, want %s", rd.name, hx.Show(v), a.show(k), hx.Show(in.vals[n]))
				bad = true
				break
			}
			n++
		}
		if !bad && n != len(in.keys) {
			add(fmt.Sprintf("all:%s:too-few-entries:%s", rd.name, sh.fpClass()),
				"%s.All yields %d entries, the map has %d", rd.name, n, len(in.keys))
		}
	}

	sz, err := a.size(g, root)
	if err != nil {
		add("size:error", "Size: %v", err)
	} else if sz != len(in.keys) {
		add("size:wrong:"+sh.fpClass(), "Size = %d, the map has %d entries", sz, len(in.keys))
	}
	return fails
}

// ---------------------------------------------------------------------------
// one case

type verdict struct {
	fails   []failure
	outcome string
}

// judge writes the map of the case and judges the result.
func judge[K cmp.Ordered](a *api[K], c Case) verdict {
	in, isMap, err := a.build(c)
	if err != nil {
		return verdict{fails: []failure{{fp: "harness", what: err.Error(), infra: true}}}
	}
	entry := c.Entry
	root, data, werr, f := a.writeTree(in, entry, c.Config)
	if f != nil {
		return verdict{fails: []failure{*f}}
	}
	if !isMap {
		// not a map in ascending order: outside the statement, whatever Write does
		if werr != nil {
			return verdict{outcome: "rejected:keys-not-ascending"}
		}
		return verdict{outcome: "accepted:keys-not-ascending(not-judged)"}
	}
	if werr != nil {
		return verdict{fails: []failure{{fp: "write-error:" + entry, what: fmt.Sprintf("%s of a map with %d ascending keys returned %v", entry, len(in.keys), werr)}}}
	}
	g, f := reopen(data, len(in.keys))
	if f != nil {
		return verdict{fails: []failure{*f}}
	}
	return judgeWritten(a, g, data, root, in, entry, func() (int, error) { return baselineObjects(c.Config) })
}

// reopen opens the written file with the real Reader (memoised above
// memoAbove keys, see memoGetter).
func reopen(data []byte, nkeys int) (pdf.Getter, *failure) {
	rd, err := pdf.NewReader(bytes.NewReader(data), int64(len(data)), nil)
	if err != nil {
		return nil, &failure{fp: "reopen-error", what: "NewReader on the written file: " + err.Error()}
	}
	var g pdf.Getter = rd
	if nkeys > memoAbove {
		g = &memoGetter{Getter: rd, m: map[pdf.Reference]pdf.Native{}}
	}
	return g, nil
}

// judgeWritten judges one tree of a reopened file against its map.  base
// gives the number of objects of the same file written without any tree; nil
// = the file holds other trees, the object count is not judged.
func judgeWritten[K cmp.Ordered](a *api[K], g pdf.Getter, data []byte, root pdf.Reference, in *input[K], entry string, base func() (int, error)) verdict {
	var fails []failure
	if len(in.keys) == 0 {
		// an empty map yields no tree
		if root != 0 {
			fails = append(fails, failure{fp: "empty-map:root-reference", what: fmt.Sprintf("%s of the empty map returned %s", entry, root)})
		}
		if base != nil {
			want, err := base()
			if err != nil {
				return verdict{fails: []failure{{fp: "harness", what: err.Error(), infra: true}}}
			}
			if n := bytes.Count(data, objMarker); n != want {
				fails = append(fails, failure{fp: "empty-map:object-written", what: fmt.Sprintf("%s of the empty map: the file has %d objects, %d without the call", entry, n, want)})
			}
		}
		if root == 0 {
			// what a reader gets for an absent entry, and the returned null reference itself
			fails = append(fails, a.readers(g, nil, in, shape{}, nil)...)
			fails = append(fails, a.readers(g, root, in, shape{}, nil)...)
			return verdict{fails: fails, outcome: "ok:empty-map:no-tree"}
		}
	}
	if root == 0 {
		fails = append(fails, failure{fp: "null-root", what: fmt.Sprintf("%s of a map with %d keys returned the null reference", entry, len(in.keys))})
		return verdict{fails: fails}
	}

	sh, role, sf := a.structure(g, root, in, true)
	fails = append(fails, sf...)
	fails = append(fails, a.readers(g, root, in, sh, role)...)
	return verdict{fails: fails, outcome: "ok:" + a.kind + ":" + sh.class()}
}

type runner struct{ r *ev.Run }

func (rn *runner) one(c Case) {
	var v verdict
	switch {
	case c.Kind == "name" && c.Space == "ctx":
		v = judgeCtx(nameAPI, c)
	case c.Kind == "num" && c.Space == "ctx":
		v = judgeCtx(numAPI, c)
	case c.Kind == "name" && c.Space == "mem":
		v = judgeMem(nameAPI, c)
	case c.Kind == "num" && c.Space == "mem":
		v = judgeMem(numAPI, c)
	case c.Kind == "name" && c.Space == "reentrant":
		v = judgeReentrant(nameAPI, c)
	case c.Kind == "num" && c.Space == "reentrant":
		v = judgeReentrant(numAPI, c)
	case c.Kind == "name":
		v = judge(nameAPI, c)
	case c.Kind == "num":
		v = judge(numAPI, c)
	default:
		v = verdict{fails: []failure{{fp: "harness", what: "unknown kind " + c.Kind, infra: true}}}
	}
	rn.r.Eval(1)
	if len(v.fails) == 0 {
		rn.r.Outcome(v.outcome)
		return
	}
	rn.report(c, v.fails)
}

func (rn *runner) report(c Case, fails []failure) {
	r := rn.r
	for _, f := range fails {
		if f.infra {
			r.Infra(f.what)
			continue
		}
		r.Outcome("fail:" + f.fp)
		r.Violation(f.fp+":"+c.Kind, f.what, c)
	}
}

// ---------------------------------------------------------------------------
// self-test of the structure judge on hand-made trees

// selfTest builds the example shape of ISO 32000-2 7.9.6 by hand, expects the
// judge to accept it, then damages it in one way at a time and expects the
// matching complaint.
func selfTest() error {
	type node = pdf.Dict
	S := func(s string) pdf.Object { return pdf.String(s) }
	good := func() map[int]node {
		return map[int]node{
			10: {"Kids": pdf.Array{pdf.NewReference(11, 0), pdf.NewReference(12, 0)}},
			11: {"Limits": pdf.Array{S("a"), S("c")}, "Names": pdf.Array{S("a"), pdf.Integer(1), S("b"), pdf.Integer(2), S("c"), pdf.Integer(3)}},
			12: {"Limits": pdf.Array{S("d"), S("e")}, "Kids": pdf.Array{pdf.NewReference(13, 0)}},
			13: {"Limits": pdf.Array{S("d"), S("e")}, "Names": pdf.Array{S("d"), pdf.Integer(4), S("e"), pdf.Integer(5)}},
		}
	}
	in := &input[pdf.Name]{
		keys: []pdf.Name{"a", "b", "c", "d", "e"},
		vals: []pdf.Object{pdf.Integer(1), pdf.Integer(2), pdf.Integer(3), pdf.Integer(4), pdf.Integer(5)},
	}
	big := pdf.Array{}
	for i := 0; i < 65; i++ {
		big = append(big, S(fmt.Sprintf("d%03d", i)), pdf.Integer(4))
	}
	tests := []struct {
		want   string
		damage func(m map[int]node)
	}{
		{"", func(m map[int]node) {}},
		{"root-has-limits", func(m map[int]node) { m[10]["Limits"] = pdf.Array{S("a"), S("e")} }},
		{"limits-missing:leaf", func(m map[int]node) { delete(m[13], "Limits") }},
		{"limits-missing:intermediate", func(m map[int]node) { delete(m[12], "Limits") }},
		{"limits-greatest-wrong:leaf", func(m map[int]node) { m[11]["Limits"] = pdf.Array{S("a"), S("b")} }},
		{"limits-least-wrong:intermediate", func(m map[int]node) { m[12]["Limits"] = pdf.Array{S("c"), S("e")} }},
		{"limits-greatest-wrong:intermediate", func(m map[int]node) { m[12]["Limits"] = pdf.Array{S("d"), S("d")} }},
		{"leaf-keys-unsorted", func(m map[int]node) {
			m[11]["Names"] = pdf.Array{S("a"), pdf.Integer(1), S("c"), pdf.Integer(3), S("b"), pdf.Integer(2)}
		}},
		{"kids-and-entries", func(m map[int]node) { m[12]["Names"] = pdf.Array{S("d"), pdf.Integer(4)} }},
		{"kids-out-of-order", func(m map[int]node) {
			m[10]["Kids"] = pdf.Array{pdf.NewReference(12, 0), pdf.NewReference(11, 0)}
		}},
		{"fanout:entries", func(m map[int]node) {
			m[13]["Names"] = big
			m[13]["Limits"] = pdf.Array{S("d000"), S("d064")}
			m[12]["Limits"] = pdf.Array{S("d000"), S("d064")}
		}},
		{"node-reached-twice", func(m map[int]node) {
			m[10]["Kids"] = pdf.Array{pdf.NewReference(11, 0), pdf.NewReference(12, 0), pdf.NewReference(11, 0)}
		}},
		{"key-type", func(m map[int]node) {
			m[13]["Names"] = pdf.Array{pdf.Name("d"), pdf.Integer(4), S("e"), pdf.Integer(5)}
		}},
		{"wrong-leaf-key", func(m map[int]node) { m[13]["Nums"] = pdf.Array{pdf.Integer(1), pdf.Integer(4)} }},
		{"entry-count", func(m map[int]node) {
			m[13]["Names"] = pdf.Array{S("d"), pdf.Integer(4)}
			m[13]["Limits"] = pdf.Array{S("d"), S("d")}
			m[12]["Limits"] = pdf.Array{S("d"), S("d")}
		}},
		{"value-differs:integer", func(m map[int]node) { m[13]["Names"] = pdf.Array{S("d"), pdf.Integer(4), S("e"), pdf.Real(5)} }},
	}
	for _, tc := range tests {
		m := good()
		tc.damage(m)
		w, mf := memfile.NewPDFWriter(pdf.V1_4, nil)
		for w.Alloc().Number() < 13 {
		}
		for n, d := range m {
			if err := w.Put(pdf.NewReference(uint32(n), 0), d); err != nil {
				return fmt.Errorf("self-test: Put: %v", err)
			}
		}
		if err := w.Close(); err != nil {
			return fmt.Errorf("self-test: Close: %v", err)
		}
		g, err := pdf.NewReader(bytes.NewReader(mf.Data), int64(len(mf.Data)), nil)
		if err != nil {
			return fmt.Errorf("self-test: NewReader: %v", err)
		}
		_, _, fails := nameAPI.structure(g, pdf.NewReference(10, 0), in, false)
		var got []string
		for _, f := range fails {
			got = append(got, strings.TrimPrefix(f.fp, "structure:"))
		}
		switch {
		case tc.want == "" && len(got) != 0:
			return fmt.Errorf("self-test: the structure judge rejects the specification's example shape: %v", got)
		case tc.want != "" && (len(got) == 0 || !contains(got, tc.want)):
			return fmt.Errorf("self-test: damaged tree %q is judged %v", tc.want, got)
		}
	}

	// the key families are ascending under the oracle's order and large enough
	for _, fam := range strings.Split(nameFamilies, ",") {
		u, err := nameFamily(fam, 24001)
		if err != nil || !nameAPI.ascending(u) {
			return fmt.Errorf("self-test: name family %s: ascending=%v err=%v", fam, err == nil && nameAPI.ascending(u), err)
		}
	}
	for _, fam := range strings.Split(numFamilies, ",") {
		u, err := numFamily(fam, 24001)
		if err != nil || !numAPI.ascending(u) {
			return fmt.Errorf("self-test: number family %s is not ascending", fam)
		}
	}
	if err := reSelfTest(); err != nil {
		return err
	}
	if err := memSelfTest(); err != nil {
		return err
	}
	if u := nameUniverse(); len(u) != 21 || !nameAPI.ascending(u) || len(quick14) != 14 {
		return errors.New("self-test: name universe")
	}
	return nil
}

func contains(l []string, s string) bool {
	for _, x := range l {
		if x == s {
			return true
		}
	}
	return false
}

// ---------------------------------------------------------------------------
// Run

var sizeList = []int{0, 1, 2, 62, 63, 64, 65, 66, 126, 127, 128, 129, 130, 4094, 4095, 4096, 4097, 4098, 8191, 8192, 8193, 12000}

func nontrivial(r *ev.Run, c Case, nkeys int) {
	if nkeys >= 2 {
		r.DistinctS(fmt.Sprintf("%s/%s/%d/%s/%d/%d/%v", c.Space, c.Kind, c.Mask, c.Family, c.N, c.Parity, c.Seq))
	}
}

func popcount(x uint32) int {
	n := 0
	for ; x != 0; x &= x - 1 {
		n++
	}
	return n
}

// Run is the check.
func Run(tier string) int {
	budget := 4 * time.Minute
	if tier == "thorough" {
		budget = 25 * time.Minute
	}
	r := ev.New("C17", tier, "exploration", budget)
	rn := &runner{r}
	r.Rule("a case = (tree kind, finite map, entry point, file configuration): the map is written into a fresh file, the file is closed, reopened with pdf.NewReader and judged against the map (Lookup of every universe key with both readers, All, Size, raw node structure); an evaluation = one tree written and judged; distinct = distinct (space, kind, key set) with at least two keys. Space ctx: the same with the tree written in a writer context (a stream open on the Writer, neighbour objects, a second tree, hooks inside the key sequence); distinct = distinct (key set, entry point, context). Space reentrant: a case = (tree, reader, position of a first enumeration, program of Lookup / start All / take one entry / abandon operations) on ONE reader object, every observation compared with the sorted-map model; an evaluation = one program executed on a fresh reader object; distinct = distinct programs with at least one operation. Space mem: a case = (ONE nametree/numtree.InMemory value, program of All / Lookup / Embed / edits of its Data map); every observation is compared with the sorted-map model of Data at that moment and every tree written by Embed is judged like every other written tree; an evaluation = one program executed on a fresh value; distinct = distinct programs with at least one operation")
	r.Assume("pdf.Writer.Put / pdf.Reader.Get transport node dictionaries faithfully (decided by C01-C04); the structure judge is written from ISO 32000-2 7.9.6/7.9.7 and self-tested on hand-made trees",
		"fan-out bound 64 = maxChildren of internal/pdftree/write.go",
		"values are direct objects of 9 kinds (integer, string, reference, dict, name, array, real, nested array, array of reference); streams as values are not enumerated")

	if err := selfTest(); err != nil {
		r.Infra(err.Error())
		return r.Finish()
	}

	// ---- (1) the name universe; its subsets are run in (5) ------------------
	nu := len(nameAPI.universe)
	var bits []int
	if r.Thorough() {
		for i := 0; i < nu; i++ {
			bits = append(bits, i)
		}
	} else {
		bits = quick14
	}
	spread := func(x int, bits []int) uint32 {
		var m uint32
		for j, b := range bits {
			if x&(1<<uint(j)) != 0 {
				m |= 1 << uint(b)
			}
		}
		return m
	}
	r.Dim("name_universe_keys", nu)
	r.Dim("name_subset_universe", len(bits))
	r.Dim("name_subsets", 1<<uint(len(bits)))
	entries := []string{"Write", "WriteMap"}
	r.Dim("entry_points_subsets", entries)
	r.Sample(Case{Space: "subset", Kind: "name", Entry: "Write", Config: "v14", Mask: spread(0x2a5, bits)})

	// the other entry point and file configurations on the 14-key sub-universe
	otherCfg := []string{"v17", "v20hr"}
	r.Dim("configs", []string{"v14: PDF 1.4, xref table", "v17: PDF 1.7, xref stream", "v20hr: PDF 2.0, HumanReadable"})
	sub := quick14
	if !r.Thorough() {
		sub = quick14[:10]
	}
	r.Dim("name_subsets_other_configs", 1<<uint(len(sub)))
	r.Par(1<<uint(len(sub)), func(x int) {
		if r.Expired() || r.TooManyViolations() {
			return
		}
		m := spread(x, sub)
		for _, cfg := range otherCfg {
			for _, e := range entries {
				rn.one(Case{Space: "subset", Kind: "name", Entry: e, Config: cfg, Mask: m})
			}
		}
		rn.one(Case{Space: "subset", Kind: "name", Entry: "Embed", Config: "v14", Mask: m})
	})

	// ---- (2) all subsets of the number universe, every entry point and config
	r.Dim("num_universe", []string{"-2^63", "-1", "0", "1", "2", "2^63-1"})
	r.Dim("num_subsets", 64)
	r.Par(64, func(x int) {
		for _, cfg := range []string{"v14", "v17", "v20hr"} {
			for _, e := range []string{"Write", "WriteMap", "Embed"} {
				rn.one(Case{Space: "subset", Kind: "num", Entry: e, Config: cfg, Mask: uint32(x)})
			}
		}
		nontrivial(r, Case{Space: "subset", Kind: "num", Mask: uint32(x)}, popcount(uint32(x)))
	})
	r.Sample(Case{Space: "subset", Kind: "num", Entry: "WriteMap", Config: "v17", Mask: 0x2b})

	// ---- (3) key sequences handed to Write (rejection of non-maps) -----------
	var seqs [][]int
	var rec func(cur []int)
	rec = func(cur []int) {
		seqs = append(seqs, append([]int{}, cur...))
		if len(cur) == 4 {
			return
		}
		for i := 0; i < 4; i++ {
			rec(append(cur, i))
		}
	}
	rec(nil)
	r.Dim("write_sequences", fmt.Sprintf("%d sequences of length <= 4 over 4 keys, per kind", len(seqs)))
	r.Par(len(seqs), func(i int) {
		for _, k := range []string{"name", "num"} {
			rn.one(Case{Space: "seq", Kind: k, Entry: "Write", Config: "v14", Seq: seqs[i]})
		}
	})

	// ---- (4) sizes across the 64 / 4096 boundaries --------------------------
	var jobs []Case
	addSize := func(kind, fam string, n, parity int, entry, cfg string) {
		jobs = append(jobs, Case{Space: "size", Kind: kind, Entry: entry, Config: cfg, Family: fam, N: n, Parity: parity})
	}
	nameFams := strings.Split(nameFamilies, ",")
	numFams := strings.Split(numFamilies, ",")
	for _, n := range sizeList {
		bigN := n > 1000
		for fi, fam := range nameFams {
			for parity := 0; parity <= 1; parity++ {
				for ei, e := range []string{"Write", "WriteMap", "Embed"} {
					if !r.Thorough() && bigN {
						// quick: every big size once per family, rotating parity and entry point
						if parity != (n+fi)%2 || ei != (n+fi)%3 {
							continue
						}
					}
					if e == "Embed" && bigN && parity == 0 {
						continue
					}
					addSize("name", fam, n, parity, e, "v14")
				}
			}
		}
		for fi, fam := range numFams {
			for parity := 0; parity <= 1; parity++ {
				for ei, e := range []string{"Write", "WriteMap", "Embed"} {
					if !r.Thorough() && bigN {
						if parity != (n+fi)%2 || ei != (n+fi+1)%3 {
							continue
						}
					}
					if e == "Embed" && bigN && parity == 0 {
						continue
					}
					addSize("num", fam, n, parity, e, "v14")
				}
			}
		}
	}
	// every size in a contiguous range: each offset of the last leaf against
	// the leaf boundary, each number of leaves 1..
	dense := ev.Pick(r, 330, 1100)
	for n := 0; n <= dense; n++ {
		addSize("name", "alpha4", n, 1, "Write", "v14")
		addSize("num", "gaps", n, 1, "Write", "v14")
		if r.Thorough() {
			addSize("name", "prefix", n, 0, "WriteMap", "v14")
			addSize("num", "extreme", n, 0, "WriteMap", "v14")
		}
	}
	// the 64^3 boundary: the only sizes at which mergeTail cascades (64
	// intermediate nodes are merged into a node of depth 2)
	cube := []int{fanout*fanout*fanout + 1}
	if r.Thorough() {
		cube = []int{fanout*fanout*fanout - 1, fanout * fanout * fanout, fanout*fanout*fanout + 1}
	}
	for _, n := range cube {
		addSize("num", "dense", n, 1, "Write", "v14")
		if r.Thorough() {
			addSize("name", "alpha4", n, 1, "Write", "v14")
			addSize("name", "plain", n, 0, "WriteMap", "v14")
			addSize("num", "extreme", n, 0, "WriteMap", "v14")
		}
	}
	r.Dim("sizes_at_64^3", cube)
	// a few sizes under the other file configurations
	for _, n := range []int{63, 64, 65, 130, 4097} {
		for _, cfg := range otherCfg {
			addSize("name", "alpha4", n, 1, "Write", cfg)
			addSize("num", "extreme", n, 1, "Write", cfg)
		}
	}
	// largest first, so that the long cases do not end up alone at the end
	sort.SliceStable(jobs, func(i, j int) bool { return jobs[i].N > jobs[j].N })
	r.Dim("sizes", sizeList)
	r.Dim("dense_sizes", fmt.Sprintf("every size 0..%d", dense))
	r.Dim("name_families", nameFams)
	r.Dim("num_families", numFams)
	r.Dim("size_cases", len(jobs))
	r.Dim("probes_per_size_case", "2n+1 keys: the n keys of the map and the n+1 keys around them")
	r.Par(len(jobs), func(i int) {
		if r.Expired() || r.TooManyViolations() {
			return
		}
		rn.one(jobs[i])
		nontrivial(r, Case{Space: "size", Kind: jobs[i].Kind, Family: jobs[i].Family, N: jobs[i].N, Parity: jobs[i].Parity}, jobs[i].N)
	})
	// ---- (6) writer contexts, (7) reader re-entrancy (c17ext.go) -----------
	runContexts(r, rn)
	runReentrant(r, rn)
	// ---- (8) one in-memory tree value used more than once (c17mem.go) -------
	runMem(r, rn)

	// ---- (5) all subsets of the name universe, last because it is the longest
	done := r.Counter("name_subsets_completed")
	r.Par(1<<uint(len(bits)), func(x int) {
		if r.Expired() || r.TooManyViolations() {
			return
		}
		m := spread(x, bits)
		done.Add(1)
		for _, e := range entries {
			rn.one(Case{Space: "subset", Kind: "name", Entry: e, Config: "v14", Mask: m})
		}
		nontrivial(r, Case{Space: "subset", Kind: "name", Mask: m}, popcount(m))
	})
	r.Sample(Case{Space: "size", Kind: "name", Entry: "WriteMap", Config: "v14", Family: "alpha4", N: 4097, Parity: 1})
	r.Sample(Case{Space: "size", Kind: "num", Entry: "Write", Config: "v14", Family: "extreme", N: 65, Parity: 0})
	r.Sample(Case{Space: "seq", Kind: "name", Entry: "Write", Config: "v14", Seq: []int{0, 2, 1}})

	return r.Finish()
}

// Replay re-executes the case of a replay file.
func Replay(path string) int {
	var c Case
	if err := ev.ReplayCase(path, &c); err != nil {
		fmt.Println("replay:", err)
		return 2
	}
	r := ev.New("C17", "quick", "exploration", 10*time.Minute)
	r.SetReplayMode()
	(&runner{r}).one(c)
	return r.Finish()
}
