//go:build verif

package c08

import (
	"fmt"
	"strings"
)

// DCT scan programs.
//
// Every JPEG body of the other spaces is one mutation away from a file with at
// most ten scans, so the decoder's behaviour on a LONG SEQUENCE of scans - the
// situation in which a progressive frame is walked again and again by scans
// that cost next to nothing to write down - was never inside the space.  This
// family builds the file in the harness: a progressive frame (SOF2) followed
// by k scans drawn from an alphabet of scan headers (DC first / DC refinement,
// AC first / AC refinement over several spectral bands and bit positions, on
// every component selection the frame allows) whose entropy-coded segment is a
// run of zero bytes of a length from a small menu, under Huffman tables for
// which the all-zero bit string is a valid code sequence (DC: difference
// category 0; AC table "run": an end-of-band run as long as the component has
// blocks; "long run": an end-of-band run of 16384 blocks, whose rest carries
// over into the following scans; "coefficient": one coefficient of magnitude 1
// per block).
//
// A program is  prefix . letter^n :  every prefix of length <= 1 (thorough <= 2
// on the gray frames) over the scan alphabet, followed by every letter repeated n times, n from a
// menu: 1, 2, 3, windows around 64 and 128 passes, and 64 x {4, 16, 64}.
//
// Everything here is written from ITU-T T.81 (marker segments B.2, progressive
// coding G.1); it shares nothing with the decoder under test.

// dctComp is one frame component: horizontal and vertical sampling factors.
type dctComp struct{ h, v int }

type dctFrame struct {
	name  string
	w, h  int
	comps []dctComp
}

// mcus returns the number of MCU columns and rows of an interleaved scan (A.2.4).
func (f *dctFrame) mcus() (int, int) {
	hmax, vmax := 1, 1
	for _, c := range f.comps {
		hmax, vmax = max(hmax, c.h), max(vmax, c.v)
	}
	return (f.w + 8*hmax - 1) / (8 * hmax), (f.h + 8*vmax - 1) / (8 * vmax)
}

// blocks returns the number of 8x8 blocks of component i that a scan visits:
// in an interleaved scan every MCU holds h*v blocks of the component; a
// non-interleaved scan covers the component's own sample grid only (A.2.3:
// ceil(X*h/hmax) x ceil(Y*v/vmax) samples).
func (f *dctFrame) blocks(i int, interleaved bool) int64 {
	c := f.comps[i]
	if interleaved {
		mx, my := f.mcus()
		return int64(mx) * int64(my) * int64(c.h) * int64(c.v)
	}
	hmax, vmax := 1, 1
	for _, c := range f.comps {
		hmax, vmax = max(hmax, c.h), max(vmax, c.v)
	}
	xs := (f.w*c.h + hmax - 1) / hmax
	ys := (f.h*c.v + vmax - 1) / vmax
	return int64((xs+7)/8) * int64((ys+7)/8)
}

// dctScan is a letter of the scan alphabet.
type dctScan struct {
	name           string
	comps          []int // indices into the frame's components
	ss, se, ah, al byte
	ta             byte // AC table selector (the DC selector is always 0)
	zeros          int  // length of the entropy-coded segment (zero bytes)
}

func log2ceil(n int64) int {
	k := 0
	for int64(1)<<uint(k) < n {
		k++
	}
	return k
}

// dctFrames lists the frames of a tier.  All dimensions are multiples of the
// MCU size and all block counts powers of two, so that one end-of-band run
// token covers a component exactly.
func dctFrames() []*dctFrame {
	return []*dctFrame{
		{name: "gray 8x8 (1 block)", w: 8, h: 8, comps: []dctComp{{1, 1}}},
		{name: "gray 256x256 (1024 blocks)", w: 256, h: 256, comps: []dctComp{{1, 1}}},
		{name: "YCbCr 4:2:0 128x128 (256+64+64 blocks)", w: 128, h: 128, comps: []dctComp{{2, 2}, {1, 1}, {1, 1}}},
		{name: "gray 1024x1024 (16384 blocks)", w: 1024, h: 1024, comps: []dctComp{{1, 1}}},
	}
}

// AC table selectors of a program file.
const (
	dctTaRunFirst = 0 // zero bits = end-of-band run of (blocks of component 0)
	dctTaCoeff    = 1 // zero bits = run 0 / size 1 / sign bit 0: one coefficient -1 per code
	dctTaRunOther = 2 // zero bits = end-of-band run of (blocks of component 1)
	dctTaRunLong  = 3 // zero bits = end-of-band run of 16384 blocks
)

// eobRunSymbol returns the AC symbol EOBn whose run (with all extra bits zero)
// is 2^n >= blocks (G.1.2.2: run = 2^n + extra bits, n <= 14).
func eobRunSymbol(blocks int64) byte {
	n := log2ceil(blocks)
	if n > 14 {
		n = 14
	}
	return byte(n << 4)
}

// dctLetters is the scan alphabet of a frame.
func dctLetters(f *dctFrame) []dctScan {
	var out []dctScan
	compName := func(cs []int) string {
		var s []string
		for _, c := range cs {
			s = append(s, fmt.Sprint(c+1))
		}
		return "component " + strings.Join(s, "+")
	}
	bits := func(cs []int) int64 { // one bit per visited block
		var n int64
		for _, c := range cs {
			n += f.blocks(c, len(cs) > 1)
		}
		return n
	}
	// DC scans: every component together (interleaved) and the first one alone;
	// AC scans (one component by definition): each of the first two components
	var dcSel, acSel [][]int
	if len(f.comps) > 1 {
		all := make([]int, len(f.comps))
		for i := range all {
			all[i] = i
		}
		dcSel = append(dcSel, all)
	}
	dcSel = append(dcSel, []int{0})
	for i := 0; i < len(f.comps) && i < 2; i++ {
		acSel = append(acSel, []int{i})
	}
	for _, cs := range dcSel {
		full := int((bits(cs)+7)/8) + 1
		for _, p := range []struct {
			n      string
			ah, al byte
		}{{"DC first Al=0", 0, 0}, {"DC first Al=1", 0, 1}, {"DC refinement Ah=1 Al=0", 1, 0}} {
			for _, z := range []int{0, full} {
				out = append(out, dctScan{name: fmt.Sprintf("%s, %s, %d zero bytes", p.n, compName(cs), z), comps: cs, ah: p.ah, al: p.al, zeros: z})
			}
		}
	}
	for _, cs := range acSel {
		ta := byte(dctTaRunFirst)
		if cs[0] != 0 {
			ta = dctTaRunOther
		}
		nb := bits(cs)
		for _, p := range []struct {
			n              string
			ss, se, ah, al byte
		}{
			{"AC first 1..63 Al=1", 1, 63, 0, 1}, {"AC first 1..5 Al=0", 1, 5, 0, 0}, {"AC first 6..63 Al=0", 6, 63, 0, 0},
			{"AC refinement 1..63 Ah=1 Al=0", 1, 63, 1, 0}, {"AC refinement 1..5 Ah=2 Al=1", 1, 5, 2, 1}, {"AC refinement 6..63 Ah=1 Al=0", 6, 63, 1, 0},
		} {
			// exact-run table: 3 bytes hold the run token (3 code bits + up to 14 extra
			// bits); the long segment also has a correction bit for one non-zero
			// coefficient per block.  Long-run table: the token stands for 16384 blocks,
			// what is left of the run when the scan ends carries over to the next scan,
			// which then needs no entropy-coded data at all.
			for _, z := range []int{3, 3 + int((nb+7)/8)} {
				out = append(out, dctScan{name: fmt.Sprintf("%s (end-of-band run = blocks of the component), %s, %d zero bytes", p.n, compName(cs), z), comps: cs, ss: p.ss, se: p.se, ah: p.ah, al: p.al, ta: ta, zeros: z})
			}
			for _, z := range []int{0, 3} {
				out = append(out, dctScan{name: fmt.Sprintf("%s (end-of-band run = 16384 blocks), %s, %d zero bytes", p.n, compName(cs), z), comps: cs, ss: p.ss, se: p.se, ah: p.ah, al: p.al, ta: dctTaRunLong, zeros: z})
			}
		}
		// 3 code bits + 1 sign bit per block
		for _, z := range []int{0, int((nb+1)/2) + 1} {
			out = append(out, dctScan{name: fmt.Sprintf("AC first 1..1 Al=1 (coefficient table), %s, %d zero bytes", compName(cs), z), comps: cs, ss: 1, se: 1, al: 1, ta: dctTaCoeff, zeros: z})
		}
	}
	return out
}

// dctProgramBody writes the file: SOI, DQT, SOF2, DHT (DC 0, AC 0..3), the scans, EOI.
func dctProgramBody(f *dctFrame, scans []*dctScan, counts []int) []byte {
	var b []byte
	seg := func(marker byte, data []byte) {
		b = append(b, 0xff, marker, byte((len(data)+2)>>8), byte(len(data)+2))
		b = append(b, data...)
	}
	b = append(b, 0xff, 0xd8)
	dqt := make([]byte, 65) // Pq=0 Tq=0, all ones
	for i := 1; i < 65; i++ {
		dqt[i] = 1
	}
	seg(0xdb, dqt)
	sof := []byte{8, byte(f.h >> 8), byte(f.h), byte(f.w >> 8), byte(f.w), byte(len(f.comps))}
	for i, c := range f.comps {
		sof = append(sof, byte(i+1), byte(c.h<<4|c.v), 0)
	}
	seg(0xc2, sof)
	table := func(tcth byte, length int, syms []byte) []byte {
		t := make([]byte, 17)
		t[0] = tcth
		var uniq []byte
		for _, s := range syms {
			dup := false
			for _, u := range uniq {
				dup = dup || u == s
			}
			if !dup {
				uniq = append(uniq, s)
			}
		}
		t[length] = byte(len(uniq))
		return append(t, uniq...)
	}
	// the first symbol of a table has the all-zero code
	runFirst := eobRunSymbol(f.blocks(0, false))
	runOther := runFirst
	if len(f.comps) > 1 {
		runOther = eobRunSymbol(f.blocks(1, false))
	}
	var dht []byte
	dht = append(dht, table(0x00, 1, []byte{0x00})...)                             // DC 0: "0" = category 0
	dht = append(dht, table(0x10, 3, []byte{runFirst, 0x00, 0x01, 0xf0, 0xe0})...) // AC 0
	dht = append(dht, table(0x11, 3, []byte{0x01, 0x00, runFirst, 0xf0, 0xe0})...) // AC 1
	dht = append(dht, table(0x12, 3, []byte{runOther, 0x00, 0x01, 0xf0, 0xe0})...) // AC 2
	dht = append(dht, table(0x13, 3, []byte{0xe0, 0x00, 0x01, 0xf0, runFirst})...) // AC 3
	seg(0xc4, dht)
	for i, s := range scans {
		sos := []byte{byte(len(s.comps))}
		for _, c := range s.comps {
			sos = append(sos, byte(c+1), s.ta&0x0f)
		}
		sos = append(sos, s.ss, s.se, s.ah<<4|s.al)
		for k := 0; k < counts[i]; k++ {
			seg(0xda, sos)
			b = append(b, make([]byte, s.zeros)...)
		}
	}
	return append(b, 0xff, 0xd9)
}

// dctCounts is the menu of repetition counts: 1, 2, 3, a window of +-1 around
// 64 and 128 passes, and 64 x {4, 16, 64} (thorough: the window around these too).
func dctCounts(thorough bool) []int {
	out := []int{1, 2, 3, 63, 64, 65, 127, 128, 129}
	for _, m := range []int{4, 16, 64} {
		if thorough {
			out = append(out, 64*m-1)
		}
		out = append(out, 64*m)
		if thorough {
			out = append(out, 64*m+1)
		}
	}
	return out
}

// dctSpace: every prefix of length <= maxPrefix over the letters, then one
// letter repeated n times.
type dctSpace struct {
	f         *dctFrame
	letters   []dctScan
	counts    []int
	maxPrefix int
}

func (s *dctSpace) prefixes() int {
	n, p := 0, 1
	for l := 0; l <= s.maxPrefix; l++ {
		n += p
		p *= len(s.letters)
	}
	return n
}

func (s *dctSpace) size() int { return s.prefixes() * len(s.letters) * len(s.counts) }

func (s *dctSpace) at(k int) (scans []*dctScan, counts []int) {
	n := s.counts[k%len(s.counts)]
	k /= len(s.counts)
	rep := &s.letters[k%len(s.letters)]
	k /= len(s.letters)
	// k is the prefix index: all prefixes of length 0, then length 1, ...
	p := 1
	for l := 0; l <= s.maxPrefix; l++ {
		if k < p {
			pre := make([]*dctScan, l)
			for i := l - 1; i >= 0; i-- {
				pre[i] = &s.letters[k%len(s.letters)]
				k /= len(s.letters)
			}
			for _, q := range pre {
				scans, counts = append(scans, q), append(counts, 1)
			}
			break
		}
		k -= p
		p *= len(s.letters)
	}
	return append(scans, rep), append(counts, n)
}

func dctProgramString(f *dctFrame, scans []*dctScan, counts []int) string {
	var s []string
	for i, sc := range scans {
		t := "[" + sc.name + "]"
		if counts[i] != 1 {
			t += fmt.Sprintf(" x %d", counts[i])
		}
		s = append(s, t)
	}
	return "SOF2 " + f.name + ": " + strings.Join(s, "; ")
}

// dctSpaces lists the program spaces of a tier: prefix length <= 1 on the
// three small frames and no prefix on the large one; thorough: <= 2 on the two
// small gray frames, <= 1 on the others.
func dctSpaces(thorough bool) []*dctSpace {
	var out []*dctSpace
	for i, f := range dctFrames() {
		mp := 1
		if i == 3 {
			mp = 0
		}
		if thorough && i != 2 {
			mp++
		}
		out = append(out, &dctSpace{f: f, letters: dctLetters(f), counts: dctCounts(thorough), maxPrefix: mp})
	}
	return out
}

func (b *builder) dctProgramGroups() {
	var frames, sizes []string
	total := 0
	for _, sp := range dctSpaces(b.thorough) {
		sp := sp
		n := sp.size()
		total += n
		frames = append(frames, fmt.Sprintf("%s: %d scan letters", sp.f.name, len(sp.letters)))
		sizes = append(sizes, fmt.Sprintf("%s: %d prefixes (length <= %d) x %d repeated letters x %d counts = %d programs", sp.f.name, sp.prefixes(), sp.maxPrefix, len(sp.letters), len(sp.counts), n))
		b.t.add("dct-prog", n, func(k int) *xcase {
			scans, counts := sp.at(k)
			return &xcase{
				desc: "DCT scan program " + dctProgramString(sp.f, scans, counts),
				via:  "stream", mode: "drain", dict: streamDict("DCTDecode", nil),
				body: dctProgramBody(sp.f, scans, counts), tag: "scan-program",
			}
		})
	}
	var names []string
	for _, l := range dctLetters(dctFrames()[2]) {
		names = append(names, l.name)
	}
	b.t.dims["dct_program_frames"] = frames
	b.t.dims["dct_program_scan_alphabet_of_the_three_component_frame"] = names
	b.t.dims["dct_program_repetition_counts"] = dctCounts(b.thorough)
	b.t.dims["dct_program_spaces"] = sizes
	b.t.dims["dct_program_cases"] = total
}

// ---------------------------------------------------------------------------
// the work a scan sequence demands, read from the body

// dctScanWork walks the marker segments of a JPEG body (independently of
// jpegFields, which serves the mutation spaces) and returns, for a body with
// exactly one frame header which is a progressive one (SOF2) and precedes the
// first scan, the number of scans up to EOI and the number of block visits
// they demand: a scan visits every block of each of its components once
// (T.81 A.2; the entropy-coded segment of a progressive scan addresses the
// blocks one after the other, G.1.2, also where an end-of-band run says that
// nothing is coded for them).  ok=false for every other body.
func dctScanWork(b []byte) (visits int64, scans int, ok bool) {
	visits, _, scans, ok = dctScanWorkByKind(b)
	return
}

// dctScanWorkByKind additionally returns the part of the visits that belongs
// to successive-approximation refinement scans (Ah != 0).
func dctScanWorkByKind(b []byte) (visits, refinement int64, scans int, ok bool) {
	if len(b) < 4 || b[0] != 0xff || b[1] != 0xd8 {
		return 0, 0, 0, false
	}
	var f *dctFrame
	ids := map[byte]int{}
	i := 2
	for i+1 < len(b) {
		if b[i] != 0xff {
			i++
			continue
		}
		m := b[i+1]
		switch {
		case m == 0xff:
			i++
			continue
		case m == 0x00 || m == 0x01 || (m >= 0xd0 && m <= 0xd7):
			i += 2
			continue
		case m == 0xd9:
			return visits, refinement, scans, f != nil
		}
		if i+4 > len(b) {
			return 0, 0, 0, false
		}
		n := int(b[i+2])<<8 | int(b[i+3])
		p, end := i+4, i+2+n
		if n < 2 || end > len(b) {
			return 0, 0, 0, false
		}
		switch {
		case m == 0xc2:
			if f != nil || scans > 0 || end-p < 6 {
				return 0, 0, 0, false
			}
			nc := int(b[p+5])
			if nc < 1 || nc > 4 || end-p != 6+3*nc {
				return 0, 0, 0, false
			}
			f = &dctFrame{h: int(b[p+1])<<8 | int(b[p+2]), w: int(b[p+3])<<8 | int(b[p+4])}
			for c := 0; c < nc; c++ {
				hv := b[p+6+3*c+1]
				if hv>>4 < 1 || hv>>4 > 4 || hv&15 < 1 || hv&15 > 4 {
					return 0, 0, 0, false
				}
				if _, dup := ids[b[p+6+3*c]]; dup {
					return 0, 0, 0, false
				}
				ids[b[p+6+3*c]] = c
				f.comps = append(f.comps, dctComp{int(hv >> 4), int(hv & 15)})
			}
			if f.w == 0 || f.h == 0 {
				return 0, 0, 0, false
			}
		case m >= 0xc0 && m <= 0xcf && m != 0xc4 && m != 0xc8 && m != 0xcc:
			return 0, 0, 0, false // another kind of frame
		case m == 0xda:
			if f == nil || end-p < 1 {
				return 0, 0, 0, false
			}
			ns := int(b[p])
			if ns < 1 || ns > len(f.comps) || end-p != 4+2*ns {
				return 0, 0, 0, false
			}
			for c := 0; c < ns; c++ {
				ci, found := ids[b[p+1+2*c]]
				if !found {
					return 0, 0, 0, false
				}
				visits += f.blocks(ci, ns > 1)
				if b[end-1]>>4 != 0 {
					refinement += f.blocks(ci, ns > 1)
				}
			}
			scans++
			// entropy-coded segment: up to the next marker that is not a stuffed FF00 / RSTn / fill byte
			j := end
			for j+1 < len(b) && !(b[j] == 0xff && b[j+1] != 0 && b[j+1] != 0xff && !(b[j+1] >= 0xd0 && b[j+1] <= 0xd7)) {
				j++
			}
			i = j
			continue
		}
		i = end
	}
	return 0, 0, 0, false // no EOI
}

// dctProgramSelfTest checks the program writer against the walker above and
// against the frame walker of fields.go: the scans and the block visits of a
// program must be found again in its bytes.
func dctProgramSelfTest() string {
	for _, sp := range dctSpaces(false) {
		var want int64
		var scans []*dctScan
		var counts []int
		for i := range sp.letters {
			l := &sp.letters[i]
			scans, counts = append(scans, l), append(counts, 1+i%3)
			for _, c := range l.comps {
				want += int64(1+i%3) * sp.f.blocks(c, len(l.comps) > 1)
			}
		}
		body := dctProgramBody(sp.f, scans, counts)
		w, h, nc, ok := jpegClaim(body)
		if !ok || w != sp.f.w || h != sp.f.h || nc != len(sp.f.comps) {
			return fmt.Sprintf("DCT program writer: frame %s is walked as %dx%dx%d ok=%v", sp.f.name, w, h, nc, ok)
		}
		nScans := 0
		for _, c := range counts {
			nScans += c
		}
		v, n, ok := dctScanWork(body)
		if !ok || n != nScans || v != want {
			return fmt.Sprintf("DCT program writer: frame %s: the walker finds %d scans / %d block visits (ok=%v), written %d / %d", sp.f.name, n, v, ok, nScans, want)
		}
		// index <-> program round trip at both ends of the space
		for _, k := range []int{0, sp.size() - 1} {
			s, c := sp.at(k)
			if len(s) == 0 || len(s) != len(c) || len(s) > sp.maxPrefix+1 {
				return "DCT program space: index decoding"
			}
		}
	}
	// block counts against hand-computed values (T.81 A.2.3 / A.2.4)
	f := &dctFrame{w: 24, h: 16, comps: []dctComp{{2, 2}, {1, 1}, {1, 1}}}
	if f.blocks(0, true) != 8 || f.blocks(0, false) != 6 || f.blocks(1, true) != 2 || f.blocks(1, false) != 2 {
		return "DCT block counts: 24x16 4:2:0 must have 8 interleaved / 6 non-interleaved luma blocks and 2 chroma blocks"
	}
	return ""
}
