//go:build verif

package c08

import (
	"bytes"
	"fmt"
	"image"
	"image/color"
	"image/jpeg"
	"os"
	"path/filepath"

	"seehuhn.de/go/pdf"
	"seehuhn.de/go/pdf/graphics/bitmap"
	"seehuhn.de/go/pdf/internal/filter/jbig2"
)

// seed is a valid (or at least library-produced) encoding for one filter and
// one parameter family.
type seed struct {
	name    string
	filter  pdf.Name
	parms   pdf.Dict // as reported by the library's own Info, or written by hand for decode-only filters
	body    []byte
	globals []byte // JBIG2Globals stream data, nil if none
	big     bool   // only used in the thorough tier
}

type nopWC struct{ *bytes.Buffer }

func (nopWC) Close() error { return nil }

// encodeWith runs the library's own encoder.
func encodeWith(f pdf.Filter, data []byte) ([]byte, error) {
	buf := &bytes.Buffer{}
	w, err := f.Encode(pdf.V2_0, nopWC{buf})
	if err != nil {
		return nil, err
	}
	if _, err := w.Write(data); err != nil {
		return nil, err
	}
	if err := w.Close(); err != nil {
		return nil, err
	}
	return buf.Bytes(), nil
}

func payload(n int) []byte {
	// text with repetition (so that LZW/Flate/RunLength build matches) and
	// a few extreme bytes
	b := make([]byte, n)
	src := []byte("abcabcabcaaaaaaaa\x00\x00\x00\x00\x00\xff\x80q rst")
	for i := range b {
		b[i] = src[(i+i/len(src))%len(src)]
	}
	return b
}

// lcg fills b with a fixed pseudo-random sequence (no math/rand: the bytes are part of the case space).
func lcg(b []byte, s uint32) {
	for i := range b {
		s = s*1664525 + 1013904223
		b[i] = byte(s >> 24)
	}
}

func repoPath(rel string) string {
	repo := os.Getenv("VERIF_REPO")
	if repo == "" {
		repo = "/repo"
	}
	return filepath.Join(repo, rel)
}

func testBitmap(w, h int) *bitmap.Bitmap {
	bm := bitmap.New(w, h)
	for y := 0; y < h; y++ {
		for x := 0; x < w; x++ {
			if (x*x+3*y*y+x*y)%7 < 3 || x == y {
				bm.SetPixel(x, y, true)
			}
		}
	}
	return bm
}

func jb2Seg(buf []byte, num uint32, typ int, page int, refs []uint32, data []byte) []byte {
	buf = jbig2.WriteSegmentHeader(buf, num, typ, page, refs, uint32(len(data)))
	return append(buf, data...)
}

func buildSeeds() ([]*seed, error) {
	var out []*seed
	add := func(name string, f pdf.Filter, data []byte) error {
		body, err := encodeWith(f, data)
		if err != nil {
			return fmt.Errorf("seed %s: %w", name, err)
		}
		fn, d, err := f.Info(pdf.V2_0)
		if err != nil {
			return fmt.Errorf("seed %s: %w", name, err)
		}
		out = append(out, &seed{name: name, filter: fn, parms: d, body: body})
		return nil
	}
	type fl = pdf.FilterFlate
	type lz = pdf.FilterLZW
	type cc = pdf.FilterCCITTFax

	zz := append(payload(11), 0, 0, 0, 0, 0, 0, 0, 0, 'x')
	steps := []func() error{
		func() error { return add("a85", pdf.FilterASCII85{}, zz) },
		func() error { return add("ahx", pdf.FilterASCIIHex{}, payload(12)) },
		func() error {
			return add("rl", pdf.FilterRunLength{}, append(append(payload(9), bytes.Repeat([]byte{7}, 140)...), 1, 2, 3))
		},
		func() error { return add("fl", fl{}, payload(40)) },
		func() error {
			return add("fl-tiff8", fl{Predictor: 2, Colors: 3, BitsPerComponent: 8, Columns: 4}, payload(36))
		},
		func() error {
			return add("fl-tiff1", fl{Predictor: 2, Colors: 1, BitsPerComponent: 1, Columns: 9}, payload(8))
		},
		func() error {
			return add("fl-tiff16", fl{Predictor: 2, Colors: 2, BitsPerComponent: 16, Columns: 3}, payload(36))
		},
		func() error {
			return add("fl-tiff4", fl{Predictor: 2, Colors: 3, BitsPerComponent: 4, Columns: 3}, payload(15))
		},
		func() error {
			return add("fl-png10", fl{Predictor: 10, Colors: 3, BitsPerComponent: 8, Columns: 3}, payload(27))
		},
		func() error {
			return add("fl-png11", fl{Predictor: 11, Colors: 3, BitsPerComponent: 8, Columns: 3}, payload(27))
		},
		func() error {
			return add("fl-png12", fl{Predictor: 12, Colors: 3, BitsPerComponent: 8, Columns: 3}, payload(27))
		},
		func() error {
			return add("fl-png13", fl{Predictor: 13, Colors: 3, BitsPerComponent: 8, Columns: 3}, payload(27))
		},
		func() error {
			return add("fl-png14", fl{Predictor: 14, Colors: 3, BitsPerComponent: 8, Columns: 3}, payload(27))
		},
		func() error {
			return add("fl-png15", fl{Predictor: 15, Colors: 3, BitsPerComponent: 8, Columns: 3}, payload(27))
		},
		func() error {
			return add("fl-png12-1bit", fl{Predictor: 12, Colors: 1, BitsPerComponent: 1, Columns: 17}, payload(12))
		},
		func() error {
			return add("fl-png14-16bit", fl{Predictor: 14, Colors: 4, BitsPerComponent: 16, Columns: 2}, payload(48))
		},
		func() error {
			return add("fl-png15-4bit", fl{Predictor: 15, Colors: 1, BitsPerComponent: 4, Columns: 5}, payload(12))
		},
		func() error { return add("lzw", lz{OffByOne: true}, payload(40)) },
		func() error { return add("lzw-ec0", lz{}, payload(40)) },
		func() error {
			return add("lzw-tiff", lz{OffByOne: true, Predictor: 2, Colors: 3, BitsPerComponent: 8, Columns: 4}, payload(36))
		},
		func() error {
			return add("lzw-ec0-png12", lz{Predictor: 12, Colors: 3, BitsPerComponent: 8, Columns: 3}, payload(27))
		},
		func() error {
			return add("lzw-png15", lz{OffByOne: true, Predictor: 15, Colors: 1, BitsPerComponent: 8, Columns: 7}, payload(28))
		},
		func() error {
			// crosses the 9->10 bit code width switch (more than 256 table entries)
			b := make([]byte, 420)
			lcg(b, 7)
			for i := range b {
				b[i] &= 0x0f
			}
			return add("lzw-width10", lz{OffByOne: true}, b)
		},
		func() error {
			b := make([]byte, 420)
			lcg(b, 9)
			for i := range b {
				b[i] &= 0x0f
			}
			return add("lzw-ec0-width10", lz{}, b)
		},
	}
	// CCITT: a 16x5 bitmap (2 bytes per row) and one wide row pair
	rows := []byte{0xff, 0xff, 0xf0, 0x0f, 0xaa, 0x55, 0x00, 0x00, 0x3c, 0x7e}
	ccs := []struct {
		name string
		f    cc
	}{
		{"ccf-g4", cc{K: -1, Columns: 16}},
		{"ccf-g4-black1", cc{K: -1, Columns: 16, BlackIs1: true}},
		{"ccf-g4-noeob-rows", cc{K: -1, Columns: 16, IgnoreEndOfBlock: true, Rows: 5}},
		{"ccf-g4-align", cc{K: -1, Columns: 16, EncodedByteAlign: true}},
		{"ccf-g3", cc{K: 0, Columns: 16}},
		{"ccf-g3-eol", cc{K: 0, Columns: 16, EndOfLine: true}},
		{"ccf-g3-align", cc{K: 0, Columns: 16, EncodedByteAlign: true}},
		{"ccf-g3-eol-align-rows", cc{K: 0, Columns: 16, EndOfLine: true, EncodedByteAlign: true, Rows: 5}},
		{"ccf-g32d-k1", cc{K: 1, Columns: 16}},
		{"ccf-g32d-k2-eol", cc{K: 2, Columns: 16, EndOfLine: true}},
		{"ccf-g32d-k4-align-damaged", cc{K: 4, Columns: 16, EncodedByteAlign: true, DamagedRowsBeforeError: 2}},
	}
	for _, c := range ccs {
		c := c
		steps = append(steps, func() error { return add(c.name, c.f, rows) })
	}
	steps = append(steps, func() error {
		// default width 1728: make-up codes
		wide := make([]byte, 2*216)
		for i := range wide {
			if i%216 > 100 && i%216 < 180 {
				wide[i] = 0xff
			}
		}
		wide[5] = 0x18
		return add("ccf-g3-1728", cc{K: 0}, wide)
	})
	steps = append(steps, func() error { return add("crypt-identity", pdf.FilterCryptIdentity{}, payload(16)) })
	for _, s := range steps {
		if err := s(); err != nil {
			return nil, err
		}
	}

	// JPX and an unknown filter: decoding is not implemented; the body is arbitrary
	out = append(out, &seed{name: "jpx", filter: "JPXDecode", body: []byte("\x00\x00\x00\x0cjP  \r\n\x87\n")})
	out = append(out, &seed{name: "unknown", filter: "FooDecode", parms: pdf.Dict{"X": pdf.Integer(1)}, body: payload(8)})
	out = append(out, &seed{name: "crypt-stdcf", filter: "Crypt", parms: pdf.Dict{"Name": pdf.Name("StdCF")}, body: payload(8)})

	// DCT ------------------------------------------------------------------
	jpg := func(name string, img image.Image, q int, big bool) error {
		buf := &bytes.Buffer{}
		if err := jpeg.Encode(buf, img, &jpeg.Options{Quality: q}); err != nil {
			return err
		}
		out = append(out, &seed{name: name, filter: "DCTDecode", body: buf.Bytes(), big: big})
		return nil
	}
	gray := image.NewGray(image.Rect(0, 0, 16, 16))
	rgb := image.NewRGBA(image.Rect(0, 0, 16, 16))
	for y := 0; y < 16; y++ {
		for x := 0; x < 16; x++ {
			gray.SetGray(x, y, color.Gray{Y: uint8(x*16 + y*3)})
			rgb.SetRGBA(x, y, color.RGBA{uint8(x * 16), uint8(y * 16), uint8((x ^ y) * 16), 255})
		}
	}
	if err := jpg("dct-gray16", gray, 30, false); err != nil {
		return nil, err
	}
	if err := jpg("dct-ycbcr16", rgb, 30, false); err != nil {
		return nil, err
	}
	// decodes to 5184 bytes: more than one pipe / bufio hand-over, so a consumer
	// that stops after its first read leaves the producer goroutine mid-way
	gray72 := image.NewGray(image.Rect(0, 0, 72, 72))
	for i := range gray72.Pix {
		gray72.Pix[i] = uint8(0x80 + i%72/8)
	}
	if err := jpg("dct-gray72", gray72, 30, false); err != nil {
		return nil, err
	}
	rgbBig := image.NewRGBA(image.Rect(0, 0, 40, 40))
	for y := 0; y < 40; y++ {
		for x := 0; x < 40; x++ {
			rgbBig.SetRGBA(x, y, color.RGBA{uint8(x*6 + y), uint8(y * 6), uint8((x * y) % 251), 255})
		}
	}
	if err := jpg("dct-ycbcr40", rgbBig, 75, true); err != nil {
		return nil, err
	}
	for _, fx := range []struct{ name, file string }{
		{"dct-progressive", "internal/filter/dct/testdata/progressive.jpg"},
		{"dct-cmyk", "internal/filter/dct/testdata/cmyk.jpg"},
	} {
		data, err := os.ReadFile(repoPath(fx.file))
		if err != nil {
			return nil, fmt.Errorf("fixture %s: %w", fx.file, err)
		}
		out = append(out, &seed{name: fx.name, filter: "DCTDecode", body: data})
	}
	out = append(out, &seed{name: "dct-ycbcr16-ct0", filter: "DCTDecode", parms: pdf.Dict{"ColorTransform": pdf.Integer(0)}, body: out[len(out)-5].body, big: true})

	// JBIG2 ----------------------------------------------------------------
	for _, fx := range []struct {
		name, base string
		big        bool
	}{
		{"jbig2-generic-tpgd", "test_enc_generic_tpgd", false},
		{"jbig2-symbol-globals", "test_enc_symbol_globals", false},
		{"jbig2-sym-text-generic", "test_param6", false},
		{"jbig2-generic-plain", "test_enc_generic_plain", true},
		{"jbig2-template1-typred", "test_gen_template1_typred", true},
		{"jbig2-param2", "test_param2", true},
	} {
		dir := "internal/filter/jbig2/testdata/decode/"
		page, err := os.ReadFile(repoPath(dir + fx.base + ".page"))
		if err != nil {
			return nil, fmt.Errorf("fixture %s: %w", fx.base, err)
		}
		glob, err := os.ReadFile(repoPath(dir + fx.base + ".globals"))
		if err != nil {
			return nil, fmt.Errorf("fixture %s: %w", fx.base, err)
		}
		s := &seed{name: fx.name, filter: "JBIG2Decode", body: page, big: fx.big}
		if len(glob) > 0 {
			s.globals = glob
			s.parms = pdf.Dict{"JBIG2Globals": globalsRef}
		}
		out = append(out, s)
	}
	// built with the library's own segment encoders: MMR generic region,
	// striped page with unknown height, pattern dictionary + halftone region
	{
		bm := testBitmap(16, 8)
		mmr, err := jbig2.EncodeGenericRegionSegmentMMR(bm, 0, 0, bitmap.CombOpOR)
		if err != nil {
			return nil, fmt.Errorf("jbig2 mmr seed: %w", err)
		}
		var b []byte
		b = jb2Seg(b, 0, 48, 1, nil, jbig2.WritePageInfo(nil, 16, 8))
		b = jb2Seg(b, 1, 38, 1, nil, mmr)
		out = append(out, &seed{name: "jbig2-generic-mmr", filter: "JBIG2Decode", body: b})

		gen := jbig2.EncodeGenericRegionSegment(bm, 0, 0, 2, bitmap.CombOpOR, false, false)
		b = nil
		b = jb2Seg(b, 0, 48, 1, nil, jbig2.WritePageInfoStripe(nil, 16, 8))
		b = jb2Seg(b, 1, 38, 1, nil, gen)
		b = jb2Seg(b, 2, 50, 1, nil, jbig2.WriteEndOfStripe(nil, 7))
		b = jb2Seg(b, 3, 49, 1, nil, nil)
		out = append(out, &seed{name: "jbig2-striped", filter: "JBIG2Decode", body: b})

		pats := []*bitmap.Bitmap{bitmap.New(4, 4), testBitmap(4, 4), testBitmap(4, 4), bitmap.New(4, 4)}
		pats[2].SetPixel(0, 0, false)
		pats[3].SetPixel(1, 1, true)
		pd := jbig2.EncodePatternDictSegment(pats, 0)
		gs := []int{0, 1, 2, 3, 3, 2, 1, 0}
		ht := jbig2.EncodeHalftoneRegionSegment(16, 8, gs, 4, 2, 0, 0, 4<<8, 0, 4, 0, bitmap.CombOpOR, false, 4, 4)
		b = nil
		b = jb2Seg(b, 0, 48, 1, nil, jbig2.WritePageInfo(nil, 16, 8))
		b = jb2Seg(b, 1, 16, 1, nil, pd)
		b = jb2Seg(b, 2, 22, 1, []uint32{1}, ht)
		out = append(out, &seed{name: "jbig2-halftone", filter: "JBIG2Decode", body: b})
	}
	return out, nil
}

// globalsRef is the object number under which the JBIG2Globals stream of a
// case is made available through the Getter.
var globalsRef = pdf.NewReference(9, 0)

// missingRef resolves to null.
var missingRef = pdf.NewReference(99, 0)

// encoderFor returns the encoder of a chain filter (nil if the filter cannot
// encode), i.e. whether it can serve as inner layer around another encoding.
func encoderFor(name string) pdf.Filter {
	switch name {
	case "A85":
		return pdf.FilterASCII85{}
	case "AHx":
		return pdf.FilterASCIIHex{}
	case "RL":
		return pdf.FilterRunLength{}
	case "Fl":
		return pdf.FilterFlate{}
	case "LZW":
		return pdf.FilterLZW{OffByOne: true}
	case "CCF":
		return pdf.FilterCCITTFax{K: -1, Columns: 8}
	case "Crypt":
		return pdf.FilterCryptIdentity{}
	}
	return nil
}
