//go:build verif

package c08

import (
	"fmt"
	"strings"
)

// LZWStateCase is one body of the table-state family, for other checks that
// want the same bodies inside a document (C05).
type LZWStateCase struct {
	EarlyChange int
	Filler      string
	N           int
	Level       string
	Tail        []int
}

func (c LZWStateCase) Body() []byte { return lzwStateBody(c.EarlyChange, c.Filler, c.N, c.Tail) }

func (c LZWStateCase) String() string {
	return fmt.Sprintf("LZW table state: EarlyChange=%d, clear + %d x %s filler (%s) + tail %s", c.EarlyChange, c.N, c.Filler, c.Level, tailString(c.Tail))
}

// LZWStateCases lists the quick-tier family (fillers "literal" with tails of
// length <= 4 and "kwkwk" with tails of length <= 3 over 5 symbols, both
// EarlyChange values); fullOnly keeps the levels around and beyond the full
// table.
func LZWStateCases(fullOnly bool) []LZWStateCase {
	var out []LZWStateCase
	for _, c := range []struct {
		filler  string
		maxTail int
	}{{"literal", 4}, {"kwkwk", 3}} {
		nt := tailCount(5, c.maxTail)
		for ec := 1; ec >= 0; ec-- {
			for _, lv := range lzwLevels(ec, 2, []int{64}) {
				if fullOnly && !strings.HasPrefix(lv.name, "table full") {
					continue
				}
				for k := 0; k < nt; k++ {
					out = append(out, LZWStateCase{ec, c.filler, lv.n, lv.name, tailAt(5, k)})
				}
			}
		}
	}
	return out
}
