//go:build verif

package c08

import (
	"bytes"
	"fmt"
	"io"
	"regexp"
	"runtime"
	"runtime/debug"
	"runtime/metrics"
	"sort"
	"strings"
	"sync/atomic"
	"time"

	"seehuhn.de/go/membudget"
	"seehuhn.de/go/pdf"
	"seehuhn.de/go/pdf/internal/limits"
)

// xcase is a case in executable form.
type xcase struct {
	space string
	desc  string
	via   string // "stream": pdf.DecodeStream on a stream object; "filter": pdf.MakeFilter + Filter.Decode
	mode  string // "drain" | "read1" | "close0"
	dict  pdf.Dict
	body  []byte
	objs  map[pdf.Reference]pdf.Native // what the Getter serves; everything else is missing (null)
	plain bool                         // the unmutated seed (trivial case)
	tag   string                       // state class of a generated body (part of hang / crash fingerprints)
}

// getter is the minimal pdf.Getter: a version and a handful of objects.
type getter struct {
	meta pdf.MetaInfo
	objs map[pdf.Reference]pdf.Native
}

func (g *getter) GetMeta() *pdf.MetaInfo { return &g.meta }
func (g *getter) Get(ref pdf.Reference, canObjStm bool) (pdf.Native, error) {
	return g.objs[ref], nil
}

// ---------------------------------------------------------------------------
// observation of one execution

type obs struct {
	stage    string // where the first error came from: "" | "open" | "read" | "close"
	err      error
	closeErr error
	produced int64
	capped   bool // stopped at the harness's own read cap
	stalled  bool // Read returned (0, nil) too often
	alloc    uint64
	panicVal any
	panicAt  string
	leaked   int
	leakSig  string

	// second stage of the allocation oracle (only when the cumulative figure
	// exceeds the allowance): the peak of the live heap, see peakLive
	liveMeasured bool
	livePeak     uint64
	liveCycles   uint32
}

const (
	readCapGeneral = 64 << 20
	readCapImage   = limits.MaxImageBytes + (16 << 20)
	allocSlack     = 16 << 20
)

var (
	readBuf  = make([]byte, 32<<10)
	memStats runtime.MemStats
)

func totalAlloc() uint64 {
	runtime.ReadMemStats(&memStats)
	return memStats.TotalAlloc
}

// filterNames extracts the chain from a stream dictionary the way ISO 32000
// describes it (a name or an array of names); anything else gives nil.
func filterNames(d pdf.Dict, objs map[pdf.Reference]pdf.Native) []string {
	f := d["Filter"]
	if r, ok := f.(pdf.Reference); ok {
		f = objs[r]
	}
	switch x := f.(type) {
	case pdf.Name:
		return []string{string(x)}
	case pdf.Array:
		var out []string
		for _, e := range x {
			if r, ok := e.(pdf.Reference); ok {
				e = objs[r]
			}
			if n, ok := e.(pdf.Name); ok {
				out = append(out, string(n))
			} else {
				out = append(out, fmt.Sprintf("<%T>", e))
			}
		}
		return out
	}
	return nil
}

// parmsOf returns the DecodeParms dictionary of chain entry i, if it is one.
func parmsOf(d pdf.Dict, objs map[pdf.Reference]pdf.Native, i int) pdf.Dict {
	p := d["DecodeParms"]
	if r, ok := p.(pdf.Reference); ok {
		p = objs[r]
	}
	switch x := p.(type) {
	case pdf.Dict:
		if i == 0 {
			return x
		}
	case pdf.Array:
		if i < len(x) {
			e := x[i]
			if r, ok := e.(pdf.Reference); ok {
				e = objs[r]
			}
			if dd, ok := e.(pdf.Dict); ok {
				return dd
			}
		}
	}
	return nil
}

func isImageFilter(n string) bool {
	return n == "CCITTFaxDecode" || n == "JBIG2Decode" || n == "DCTDecode"
}

// run executes the case once and observes it. It never returns an error of
// its own: everything is in obs.
func (x *xcase) run() (o obs) {
	names := filterNames(x.dict, x.objs)
	readCap := int64(readCapGeneral)
	if len(names) > 0 && isImageFilter(names[len(names)-1]) {
		readCap = readCapImage
	}

	defer func() {
		if p := recover(); p != nil {
			o.panicVal = p
			o.panicAt = panicSite()
		}
	}()

	a0 := totalAlloc()
	var rc io.ReadCloser
	var err error
	switch x.via {
	case "readall":
		// the convenience wrapper pdf.ReadAll: it opens, reads up to a limit and closes the chain itself
		g := &getter{meta: pdf.MetaInfo{Version: pdf.V2_0}, objs: x.objs}
		d := make(pdf.Dict, len(x.dict))
		for k, v := range x.dict {
			d[k] = v
		}
		limit := int64(16)
		fmt.Sscanf(x.mode, "limit=%d", &limit)
		var data []byte
		data, err = pdf.ReadAll(g, nil, pdf.NewStream(d, x.body), limit)
		o.produced = int64(len(data))
		if err != nil {
			o.stage, o.err = "read", err
		}
		o.alloc = totalAlloc() - a0
		return o
	case "filter":
		var name pdf.Name
		if len(names) > 0 {
			name = pdf.Name(names[0])
		}
		var f pdf.Filter
		f, err = pdf.MakeFilter(name, parmsOf(x.dict, x.objs, 0))
		if err == nil {
			if jf, ok := f.(*pdf.FilterJBIG2); ok {
				if s, ok := x.objs[globalsRef].(*pdf.Stream); ok && jf.GlobalsRef != nil {
					jf.Globals, _ = io.ReadAll(s.NewReader())
				}
			}
			budget := membudget.New(limits.StreamBudget(int64(len(x.body))))
			rc, err = f.Decode(pdf.V2_0, bytes.NewReader(x.body), budget)
		}
	default:
		g := &getter{meta: pdf.MetaInfo{Version: pdf.V2_0}, objs: x.objs}
		d := make(pdf.Dict, len(x.dict))
		for k, v := range x.dict {
			d[k] = v
		}
		rc, err = pdf.DecodeStream(g, nil, pdf.NewStream(d, x.body))
	}
	if probeHook != nil {
		probeHook()
	}
	if err != nil {
		o.stage, o.err = "open", err
		o.alloc = totalAlloc() - a0
		return o
	}
	if rc == nil {
		o.stage, o.err = "open", fmt.Errorf("harness: nil reader without an error")
		return o
	}

	switch x.mode {
	case "close0":
	case "read1":
		n, err := rc.Read(readBuf[:1])
		o.produced = int64(n)
		if err != nil && err != io.EOF {
			o.stage, o.err = "read", err
		}
	default:
		idle := 0
		for {
			n, err := rc.Read(readBuf)
			o.produced += int64(n)
			if err != nil {
				if err != io.EOF {
					o.stage, o.err = "read", err
				}
				break
			}
			if n == 0 {
				idle++
				if idle > 1000 {
					o.stalled = true
					break
				}
			} else {
				idle = 0
			}
			if o.produced > readCap {
				o.capped = true
				break
			}
		}
	}
	if probeHook != nil {
		probeHook()
	}
	o.closeErr = rc.Close()
	o.alloc = totalAlloc() - a0
	return o
}

// ---------------------------------------------------------------------------
// peak of the live heap

// probeHook, if set, is called by run when the decoder has been built and
// again before it is closed (everything the chain holds is still reachable).
var probeHook func()

var liveSample = []metrics.Sample{{Name: "/gc/heap/live:bytes"}, {Name: "/gc/cycles/total:gc-cycles"}}

// heapLive returns the bytes the most recent garbage collection found
// reachable, and the number of collections so far.
func heapLive() (uint64, uint64) {
	metrics.Read(liveSample)
	if liveSample[0].Value.Kind() != metrics.KindUint64 || liveSample[1].Value.Kind() != metrics.KindUint64 {
		return 0, 0
	}
	return liveSample[0].Value.Uint64(), liveSample[1].Value.Uint64()
}

// peakLive re-runs the case and returns by how much the LIVE heap grew at its
// peak. TotalAlloc is cumulative: a decoder that reads its input into a
// buffer which it grows geometrically up to the budget allocates about five
// times the budget in total while never holding more than 2.25 budgets. So a
// cumulative figure above the allowance only makes a case a suspect; it is
// decided here. The collector is set to start a cycle after every 10 % of
// growth, a second P samples "bytes found reachable by the last cycle" while
// the case runs, and a collection is forced when the decoder has been built
// and before it is closed. Every sample is a heap that really was reachable
// (plus what was allocated during one mark phase), so the result errs on the
// library's side.
func (x *xcase) peakLive() (growth uint64, cycles uint32) {
	oldGC := debug.SetGCPercent(10)
	oldP := runtime.GOMAXPROCS(2)
	defer func() {
		probeHook = nil
		runtime.GOMAXPROCS(oldP)
		debug.SetGCPercent(oldGC)
	}()
	runtime.GC()
	runtime.GC()
	base, c0 := heapLive()
	var peak atomic.Uint64
	note := func() {
		if v, _ := heapLive(); v > peak.Load() {
			peak.Store(v)
		}
	}
	stop, done := make(chan struct{}), make(chan struct{})
	go func() {
		defer close(done)
		var last uint64
		for {
			select {
			case <-stop:
				return
			default:
			}
			if _, c := heapLive(); c != last {
				last = c
				note()
			}
			time.Sleep(20 * time.Microsecond)
		}
	}()
	probeHook = func() {
		runtime.GC()
		note()
	}
	func() {
		defer func() { recover() }()
		x.run()
	}()
	close(stop)
	<-done
	note()
	_, c1 := heapLive()
	if p := peak.Load(); p > base {
		growth = p - base
	}
	return growth, uint32(c1 - c0)
}

var reFrame = regexp.MustCompile(`(?m)^(\S+)\(.*\)\n\t\S+/([^/\s]+:\d+)`)

// panicSite returns the innermost non-runtime frame of the panicking stack.
func panicSite() string {
	buf := make([]byte, 16<<10)
	buf = buf[:runtime.Stack(buf, false)]
	for _, m := range reFrame.FindAllSubmatch(buf, -1) {
		fn := string(m[1])
		if strings.HasPrefix(fn, "runtime.") || strings.HasPrefix(fn, "runtime/") || strings.HasPrefix(fn, "panic") ||
			strings.Contains(fn, "zzverif/") {
			continue
		}
		return shortFunc(fn) + "@" + string(m[2])
	}
	return "unknown"
}

func shortFunc(fn string) string {
	fn = strings.TrimPrefix(fn, "seehuhn.de/go/pdf/")
	fn = strings.TrimPrefix(fn, "seehuhn.de/go/")
	return fn
}

// ---------------------------------------------------------------------------
// goroutine accounting

type gtracker struct {
	baseline  int
	known     map[string]bool // goroutine ids present at the last baseline
	confirmed map[string]bool // leak signatures confirmed by a full wait in this process
}

var (
	reGoroutine = regexp.MustCompile(`(?m)^goroutine (\d+) \[([^\]]*)\]:`)
	reCreatedBy = regexp.MustCompile(`(?m)^created by (\S+)`)
)

type ginfo struct {
	id, state, createdBy, top string
}

func dumpGoroutines() []ginfo {
	n := 1 << 20
	var buf []byte
	for {
		buf = make([]byte, n)
		k := runtime.Stack(buf, true)
		if k < n {
			buf = buf[:k]
			break
		}
		n *= 4
	}
	var out []ginfo
	for _, stanza := range strings.Split(string(buf), "\n\n") {
		m := reGoroutine.FindStringSubmatch(stanza)
		if m == nil {
			continue
		}
		g := ginfo{id: m[1], state: m[2]}
		if i := strings.IndexByte(g.state, ','); i >= 0 {
			g.state = g.state[:i] // drop "N minutes"
		}
		if c := reCreatedBy.FindStringSubmatch(stanza); c != nil {
			g.createdBy = shortFunc(c[1])
		}
		lines := strings.Split(stanza, "\n")
		for i := 1; i < len(lines); i += 2 {
			fn := lines[i]
			if j := strings.LastIndexByte(fn, '('); j > 0 {
				fn = fn[:j]
			}
			if strings.HasPrefix(fn, "runtime.") || strings.HasPrefix(fn, "sync.") || strings.HasPrefix(fn, "created by") {
				continue
			}
			g.top = shortFunc(fn)
			break
		}
		out = append(out, g)
	}
	return out
}

func newGTracker() *gtracker {
	t := &gtracker{known: map[string]bool{}, confirmed: map[string]bool{}}
	t.rebase()
	return t
}

func (t *gtracker) rebase() {
	t.baseline = runtime.NumGoroutine()
	t.known = map[string]bool{}
	for _, g := range dumpGoroutines() {
		t.known[g.id] = true
	}
}

func blockedState(s string) bool {
	switch s {
	case "chan receive", "chan send", "select", "sync.Cond.Wait", "sync.Mutex.Lock", "semacquire", "sync.WaitGroup.Wait", "chan receive (nil chan)", "chan send (nil chan)", "select (no cases)":
		return true
	}
	return false
}

// settle waits for the goroutine count to return to the baseline. It returns
// the number of goroutines that stayed and a signature for them. A finishing
// goroutine needs a few scheduler yields; a goroutine that is still there
// after 3 s is blocked for good. Once a signature has been confirmed by a full
// 3 s wait in this process, later goroutines that sit *blocked* with the very
// same signature are accepted after a short wait.
func (t *gtracker) settle() (int, string) {
	for i := 0; i < 200; i++ {
		if runtime.NumGoroutine() <= t.baseline {
			return 0, ""
		}
		runtime.Gosched()
	}
	start := time.Now()
	sleep := 200 * time.Microsecond
	for time.Since(start) < 3*time.Second {
		if runtime.NumGoroutine() <= t.baseline {
			return 0, ""
		}
		time.Sleep(sleep)
		if sleep < 20*time.Millisecond {
			sleep *= 2
		}
		if time.Since(start) > 5*time.Millisecond && len(t.confirmed) > 0 {
			if n, sig, blocked, ids := t.extra(); n > 0 && blocked && t.confirmed[sig] {
				t.adopt(ids)
				return n, sig
			}
		}
	}
	if runtime.NumGoroutine() <= t.baseline {
		return 0, ""
	}
	n, sig, _, ids := t.extra()
	t.confirmed[sig] = true
	t.adopt(ids)
	return n, sig
}

// adopt makes the leaked goroutines part of the baseline.
func (t *gtracker) adopt(ids []string) {
	for _, id := range ids {
		t.known[id] = true
	}
	t.baseline = runtime.NumGoroutine()
}

func (t *gtracker) extra() (int, string, bool, []string) {
	var sigs, ids []string
	blocked := true
	for _, g := range dumpGoroutines() {
		if t.known[g.id] || g.state == "running" {
			continue
		}
		ids = append(ids, g.id)
		if !blockedState(g.state) {
			blocked = false
		}
		sigs = append(sigs, "created-by="+g.createdBy+";blocked-in="+g.top+"["+g.state+"]")
	}
	sort.Strings(sigs)
	// collapse duplicates
	var u []string
	for i, s := range sigs {
		if i == 0 || s != sigs[i-1] {
			u = append(u, s)
		}
	}
	return len(sigs), strings.Join(u, " + "), blocked && len(sigs) > 0, ids
}
