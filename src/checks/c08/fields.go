//go:build verif

package c08

import "fmt"

// Independent (written from ITU-T T.81 / T.88, sharing nothing with the
// decoders under test) locators for the dimension and length fields of JPEG
// and JBIG2 data.  They serve two purposes: the "header claim" mutations
// overwrite each field as a unit, and the geometry oracle reads the claimed
// image size of a (mutated) body through them.

// field is a big-endian unsigned field of w bytes at offset off.
type field struct {
	off, w int
	name   string
}

// jpegFields walks the marker segments of a JPEG file.
func jpegFields(b []byte) []field {
	var out []field
	i := 0
	if len(b) < 2 || b[0] != 0xff || b[1] != 0xd8 {
		return nil
	}
	i = 2
	for i+4 <= len(b) {
		if b[i] != 0xff {
			i++
			continue
		}
		m := b[i+1]
		if m == 0xff {
			i++
			continue
		}
		if m == 0 || (m >= 0xd0 && m <= 0xd7) || m == 0x01 {
			i += 2
			continue
		}
		if m == 0xd9 {
			break
		}
		segStart := i + 2
		n := int(b[segStart])<<8 | int(b[segStart+1])
		tag := fmt.Sprintf("%02X@%d", m, i)
		out = append(out, field{segStart, 2, "len:" + tag})
		p := segStart + 2
		end := segStart + n
		if end > len(b) {
			end = len(b)
		}
		switch {
		case m == 0xc0 || m == 0xc1 || m == 0xc2:
			if p+6 <= end {
				out = append(out,
					field{p, 1, "precision:" + tag},
					field{p + 1, 2, "height:" + tag},
					field{p + 3, 2, "width:" + tag},
					field{p + 5, 1, "ncomp:" + tag})
				for c := p + 6; c+3 <= end; c += 3 {
					out = append(out, field{c, 1, "comp-id:" + tag}, field{c + 1, 1, "comp-hv:" + tag}, field{c + 2, 1, "comp-tq:" + tag})
				}
			}
		case m == 0xc4: // DHT: class/id, 16 counts, symbols
			for q := p; q+17 <= end; {
				out = append(out, field{q, 1, "dht-tcth:" + tag})
				tot := 0
				for k := 0; k < 16; k++ {
					out = append(out, field{q + 1 + k, 1, fmt.Sprintf("dht-count%d:%s", k+1, tag)})
					tot += int(b[q+1+k])
				}
				q += 17 + tot
			}
		case m == 0xdb: // DQT
			for q := p; q < end; {
				out = append(out, field{q, 1, "dqt-pqtq:" + tag})
				if b[q]>>4 == 0 {
					q += 65
				} else {
					q += 129
				}
			}
		case m == 0xda: // SOS
			if p < end {
				out = append(out, field{p, 1, "sos-ncomp:" + tag})
				nc := int(b[p])
				for c := 0; c < nc && p+1+2*c+2 <= end; c++ {
					out = append(out, field{p + 1 + 2*c, 1, "sos-cs:" + tag}, field{p + 2 + 2*c, 1, "sos-tdta:" + tag})
				}
				q := p + 1 + 2*nc
				if q+3 <= end {
					out = append(out, field{q, 1, "sos-ss:" + tag}, field{q + 1, 1, "sos-se:" + tag}, field{q + 2, 1, "sos-ahal:" + tag})
				}
			}
		case m == 0xdd: // DRI
			if p+2 <= end {
				out = append(out, field{p, 2, "dri:" + tag})
			}
		}
		if m == 0xda {
			// entropy-coded data follows; look for the next marker that is not RST/stuffing
			j := segStart + n
			for j+1 < len(b) {
				if b[j] == 0xff && b[j+1] != 0 && !(b[j+1] >= 0xd0 && b[j+1] <= 0xd7) && b[j+1] != 0xff {
					break
				}
				j++
			}
			i = j
			continue
		}
		i = segStart + n
	}
	return out
}

// jpegClaim returns the frame size claimed by the single SOF0/1/2 segment of
// b, or ok=false if there is none or more than one.
func jpegClaim(b []byte) (w, h, ncomp int, ok bool) {
	n := 0
	for _, f := range jpegFields(b) {
		if len(f.name) > 7 && f.name[:7] == "height:" && f.off+5 <= len(b) {
			n++
			h = int(b[f.off])<<8 | int(b[f.off+1])
			w = int(b[f.off+2])<<8 | int(b[f.off+3])
			ncomp = int(b[f.off+4])
		}
	}
	return w, h, ncomp, n == 1
}

type jb2Segment struct {
	typ            int
	hdr, data, end int // offsets: header start, data start, end of data
	dataLen        uint32
}

// jbig2Segments walks the segment headers of a sequentially organised
// (PDF-embedded) JBIG2 stream; it stops at the first header that does not fit.
func jbig2Segments(b []byte) ([]jb2Segment, []field) {
	var segs []jb2Segment
	var fields []field
	i := 0
	for i+11 <= len(b) {
		start := i
		num := uint32(b[i])<<24 | uint32(b[i+1])<<16 | uint32(b[i+2])<<8 | uint32(b[i+3])
		fl := b[i+4]
		typ := int(fl & 0x3f)
		tag := fmt.Sprintf("seg%d@%d", len(segs), start)
		fields = append(fields, field{i, 4, "segnum:" + tag}, field{i + 4, 1, "segflags:" + tag}, field{i + 5, 1, "refcount:" + tag})
		cnt := int(b[i+5] >> 5)
		p := i + 6
		if cnt == 7 {
			if p+3 > len(b) {
				break
			}
			cnt = int(b[i+5]&0x1f)<<24 | int(b[p])<<16 | int(b[p+1])<<8 | int(b[p+2])
			fields = append(fields, field{i + 5, 4, "refcount-long:" + tag})
			p += 3
			p += (cnt + 8) / 8
		}
		rs := 1
		if num > 65536 {
			rs = 4
		} else if num > 256 {
			rs = 2
		}
		if cnt > len(b) || p+cnt*rs > len(b) {
			break
		}
		for k := 0; k < cnt && k < 8; k++ {
			fields = append(fields, field{p + k*rs, rs, "ref:" + tag})
		}
		p += cnt * rs
		pa := 1
		if fl&0x40 != 0 {
			pa = 4
		}
		if p+pa+4 > len(b) {
			break
		}
		fields = append(fields, field{p, pa, "pageassoc:" + tag})
		p += pa
		dl := uint32(b[p])<<24 | uint32(b[p+1])<<16 | uint32(b[p+2])<<8 | uint32(b[p+3])
		fields = append(fields, field{p, 4, "datalen:" + tag})
		p += 4
		end := len(b)
		if dl != 0xffffffff && int64(p)+int64(dl) <= int64(len(b)) {
			end = p + int(dl)
		}
		segs = append(segs, jb2Segment{typ: typ, hdr: start, data: p, end: end, dataLen: dl})
		// fields inside the segment data
		d := p
		switch {
		case typ == 48: // page information: width, height, xres, yres, flags, striping
			for k, nm := range []string{"page-width", "page-height", "page-xres", "page-yres"} {
				if d+4*k+4 <= end {
					fields = append(fields, field{d + 4*k, 4, nm + ":" + tag})
				}
			}
			if d+19 <= end {
				fields = append(fields, field{d + 16, 1, "page-flags:" + tag}, field{d + 17, 2, "page-striping:" + tag})
			}
		case typ == 50:
			if d+4 <= end {
				fields = append(fields, field{d, 4, "stripe-y:" + tag})
			}
		case typ == 4 || typ == 6 || typ == 7 || typ == 20 || typ == 22 || typ == 23 || typ == 36 || typ == 38 || typ == 39 || typ == 40 || typ == 42 || typ == 43:
			// region segment information field, then region specific flags / counts
			for k, nm := range []string{"region-width", "region-height", "region-x", "region-y"} {
				if d+4*k+4 <= end {
					fields = append(fields, field{d + 4*k, 4, nm + ":" + tag})
				}
			}
			if d+17 <= end {
				fields = append(fields, field{d + 16, 1, "region-combop:" + tag})
			}
			// the words that follow hold flags, grid sizes, instance counts
			for k := 0; k < 6 && d+17+4*k+4 <= end; k++ {
				fields = append(fields, field{d + 17 + 4*k, 4, fmt.Sprintf("region-word%d:%s", k, tag)})
			}
			for k := 0; k < 4 && d+17+2*k+2 <= end; k++ {
				fields = append(fields, field{d + 17 + 2*k, 2, fmt.Sprintf("region-half%d:%s", k, tag)})
			}
		case typ == 0 || typ == 16 || typ == 53:
			// symbol dictionary (flags, AT bytes, SDNUMEXSYMS, SDNUMNEWSYMS), pattern
			// dictionary (flags, HDPW, HDPH, GRAYMAX), code table (flags, low, high)
			for k := 0; k < 6 && d+2*k+2 <= end; k++ {
				fields = append(fields, field{d + 2*k, 2, fmt.Sprintf("dict-half%d:%s", k, tag)})
			}
			for k := 0; k < 20 && d+k+4 <= end; k++ {
				fields = append(fields, field{d + k, 4, fmt.Sprintf("dict-word@%d:%s", k, tag)})
			}
		}
		if dl == 0xffffffff {
			break
		}
		i = end
	}
	return segs, fields
}

// jbig2Claim returns the page size claimed by the page information segment.
// If the body has several (segment programs; a mutated segment type), the
// decoder may rightly produce any of these pages, so the largest claim is
// returned; ok=false if there is none or one of them has an unknown height.
func jbig2Claim(b []byte) (w, h uint32, ok bool) {
	segs, _ := jbig2Segments(b)
	var best int64 = -1
	for _, s := range segs {
		if s.typ == 48 && s.data+8 <= len(b) {
			sw := uint32(b[s.data])<<24 | uint32(b[s.data+1])<<16 | uint32(b[s.data+2])<<8 | uint32(b[s.data+3])
			sh := uint32(b[s.data+4])<<24 | uint32(b[s.data+5])<<16 | uint32(b[s.data+6])<<8 | uint32(b[s.data+7])
			if sh == 0xffffffff {
				return sw, sh, false
			}
			if n := (int64(sw) + 7) / 8 * int64(sh); n > best {
				best, w, h = n, sw, sh
			}
		}
	}
	return w, h, best >= 0
}
