//go:build verif

package c08

import (
	"bytes"
	"compress/zlib"
	"encoding/hex"
	"fmt"
	"os"
	"sort"
	"strings"
	"sync"

	"seehuhn.de/go/pdf"
	"seehuhn.de/go/pdf/zzverif/checks/hx"
)

// Case is the replayable (JSON) form of a case.
type Case struct {
	Space   string         `json:"space"`
	Desc    string         `json:"desc"`
	Via     string         `json:"via"`
	Mode    string         `json:"mode"`
	Dict    any            `json:"dict"` // hx.Enc of the stream dictionary (/Filter, /DecodeParms)
	Body    string         `json:"body"` // hex
	Streams map[string]obj `json:"objects,omitempty"`
	Tag     string         `json:"tag,omitempty"`
}

type obj struct {
	Value  any    `json:"value,omitempty"`  // hx.Enc of a non-stream object / of the stream dictionary
	Stream string `json:"stream,omitempty"` // hex of the stream data, "-" for an empty stream
}

func (x *xcase) toCase() Case {
	c := Case{Space: x.space, Desc: x.desc, Via: x.via, Mode: x.mode, Dict: hx.Enc(x.dict), Body: hex.EncodeToString(x.body), Tag: x.tag}
	for ref, o := range x.objs {
		if c.Streams == nil {
			c.Streams = map[string]obj{}
		}
		key := fmt.Sprintf("%d %d", ref.Number(), ref.Generation())
		if s, ok := o.(*pdf.Stream); ok {
			data := make([]byte, s.Length())
			n, _ := s.NewReader().Read(data)
			h := hex.EncodeToString(data[:n])
			if h == "" {
				h = "-"
			}
			c.Streams[key] = obj{Value: hx.Enc(s.Dict), Stream: h}
		} else {
			c.Streams[key] = obj{Value: hx.Enc(o)}
		}
	}
	return c
}

func (c *Case) toX() (*xcase, error) {
	x := &xcase{space: c.Space, desc: c.Desc, via: c.Via, mode: c.Mode, tag: c.Tag}
	d, ok := hx.Dec(c.Dict).(pdf.Dict)
	if !ok {
		return nil, fmt.Errorf("case dict is not a dictionary")
	}
	x.dict = d
	b, err := hex.DecodeString(c.Body)
	if err != nil {
		return nil, err
	}
	x.body = b
	for key, o := range c.Streams {
		var num, gen int
		if _, err := fmt.Sscanf(key, "%d %d", &num, &gen); err != nil {
			return nil, err
		}
		if x.objs == nil {
			x.objs = map[pdf.Reference]pdf.Native{}
		}
		ref := pdf.NewReference(uint32(num), uint16(gen))
		if o.Stream != "" {
			var data []byte
			if o.Stream != "-" {
				if data, err = hex.DecodeString(o.Stream); err != nil {
					return nil, err
				}
			}
			sd, _ := hx.Dec(o.Value).(pdf.Dict)
			if sd == nil {
				sd = pdf.Dict{}
			}
			x.objs[ref] = pdf.NewStream(sd, data)
		} else {
			n, _ := hx.Dec(o.Value).(pdf.Native)
			x.objs[ref] = n
		}
	}
	return x, nil
}

// ---------------------------------------------------------------------------
// mutations

// edit kinds: w>0 overwrite w bytes at off with val (big endian);
// w==0 truncate at off; w==-1 insert the byte val before off.
type edit struct {
	off int32
	w   int8
	val uint32
}

type mut struct {
	e [2]edit
	n int8
}

func apply(body []byte, m mut) []byte {
	out := append([]byte(nil), body...)
	for i := 0; i < int(m.n); i++ {
		e := m.e[i]
		switch {
		case e.w > 0:
			for k := 0; k < int(e.w); k++ {
				if int(e.off)+k < len(out) {
					out[int(e.off)+k] = byte(e.val >> (8 * (int(e.w) - 1 - k)))
				}
			}
		case e.w == 0:
			out = out[:e.off]
		default:
			out = append(out[:e.off:e.off], append([]byte{byte(e.val)}, out[e.off:]...)...)
		}
	}
	return out
}

func (m mut) String() string {
	var s []string
	for i := 0; i < int(m.n); i++ {
		e := m.e[i]
		switch {
		case e.w > 0:
			s = append(s, fmt.Sprintf("set %d byte(s) at %d to %#x", e.w, e.off, e.val))
		case e.w == 0:
			s = append(s, fmt.Sprintf("truncate to %d bytes", e.off))
		default:
			s = append(s, fmt.Sprintf("insert %#02x before offset %d", e.val, e.off))
		}
	}
	return strings.Join(s, ", ")
}

func one(e edit) mut { return mut{e: [2]edit{e}, n: 1} }

// byteMuts lists the single-byte mutations of body: every byte to the menu
// values (all 255 other values if full), every truncation, every insertion of
// 00 and FF. No-ops are left out.
func byteMuts(body []byte, full bool, reduced bool) []mut {
	var out []mut
	for i, b := range body {
		if full {
			for v := 0; v < 256; v++ {
				if byte(v) != b {
					out = append(out, one(edit{int32(i), 1, uint32(v)}))
				}
			}
			continue
		}
		menu := []byte{0x00, 0xff, b + 1, b - 1, b ^ 0x80}
		if reduced {
			menu = []byte{0xff, b ^ 0x80}
		}
		seen := map[byte]bool{b: true}
		for _, v := range menu {
			if !seen[v] {
				seen[v] = true
				out = append(out, one(edit{int32(i), 1, uint32(v)}))
			}
		}
	}
	for i := 0; i < len(body); i++ {
		out = append(out, one(edit{int32(i), 0, 0}))
	}
	if !reduced {
		for i := 0; i <= len(body); i++ {
			out = append(out, one(edit{int32(i), -1, 0x00}), one(edit{int32(i), -1, 0xff}))
		}
	}
	return out
}

var claimValues = []uint64{0, 1, 2, 1<<16 - 1, 1 << 16, 1 << 20, 1 << 24, 1<<24 + 1, 1<<31 - 1, 1 << 31, 1<<32 - 1}

// claimMuts overwrites every field as a unit with every menu value (reduced
// to the field width), and additionally every width x height pair.
func claimMuts(body []byte, fields []field) []mut {
	var out []mut
	cur := func(f field) uint64 {
		var v uint64
		for k := 0; k < f.w && f.off+k < len(body); k++ {
			v = v<<8 | uint64(body[f.off+k])
		}
		return v
	}
	for _, f := range fields {
		if f.off+f.w > len(body) {
			continue
		}
		mask := uint64(1)<<(8*uint(f.w)) - 1
		seen := map[uint64]bool{cur(f): true}
		vals := append([]uint64{}, claimValues...)
		vals = append(vals, mask, mask>>1, mask>>1+1, cur(f)+1, cur(f)-1, cur(f)*2, cur(f)*8)
		for _, v := range vals {
			v &= mask
			if seen[v] {
				continue
			}
			seen[v] = true
			out = append(out, one(edit{int32(f.off), int8(f.w), uint32(v)}))
		}
	}
	// width x height pairs (JPEG frame, JBIG2 page and regions)
	dims := map[int][]uint64{
		2: {0, 1, 8, 255, 256, 4096, 11585, 11586, 16384, 32768, 65535},
		4: {0, 1, 8, 1 << 12, 1<<12 + 1, 1 << 16, 1 << 20, 1 << 24, 1<<24 + 1, 1 << 25, 1<<31 - 1, 1<<32 - 1},
	}
	for i, f := range fields {
		if !strings.Contains(f.name, "width:") {
			continue
		}
		for _, g := range fields[max(0, i-1):min(len(fields), i+2)] {
			if !strings.Contains(g.name, "height:") || g.w != f.w || g.off+g.w > len(body) || f.off+f.w > len(body) {
				continue
			}
			for _, wv := range dims[f.w] {
				for _, hv := range dims[f.w] {
					out = append(out, mut{e: [2]edit{{int32(f.off), int8(f.w), uint32(wv)}, {int32(g.off), int8(g.w), uint32(hv)}}, n: 2})
				}
			}
		}
	}
	return out
}

// claimPairs sets every pair of dimension / length / count fields to the
// extreme values at the same time (thorough tier).
func claimPairs(body []byte, fields []field) []mut {
	var sel []field
	for _, f := range fields {
		if f.off+f.w > len(body) {
			continue
		}
		for _, k := range []string{"len:", "height:", "width:", "ncomp", "datalen:", "page-width", "page-height", "region-width", "region-height", "refcount:", "dht-count", "stripe-y", "page-striping", "region-word", "dict-half"} {
			if strings.HasPrefix(f.name, k) {
				sel = append(sel, f)
				break
			}
		}
	}
	var out []mut
	for i := range sel {
		for j := i + 1; j < len(sel); j++ {
			f, g := sel[i], sel[j]
			if f.off+f.w > g.off && g.off+g.w > f.off {
				continue // overlapping
			}
			for _, fv := range []uint64{0, 1<<(8*uint(f.w)) - 1} {
				for _, gv := range []uint64{0, 1<<(8*uint(g.w)) - 1} {
					out = append(out, mut{e: [2]edit{{int32(f.off), int8(f.w), uint32(fv)}, {int32(g.off), int8(g.w), uint32(gv)}}, n: 2})
				}
			}
		}
	}
	return out
}

// ---------------------------------------------------------------------------
// parameter values

type pval struct {
	absent bool
	v      pdf.Object
	label  string
}

func paramMenu() []pval {
	out := []pval{{absent: true, label: "absent"}}
	for _, i := range []int64{0, 1, -1, 2, 3, 4, 8, 10, 12, 15, 16, 32, 60, 61, 256, 257, 1<<16 - 1, 1 << 16, 1<<16 + 1, 1 << 20, 1<<20 + 1, 1<<31 - 1, 1 << 31, 1 << 62, -1 << 63} {
		out = append(out, pval{v: pdf.Integer(i), label: fmt.Sprint(i)})
	}
	out = append(out,
		pval{v: pdf.Real(1.5), label: "Real"},
		pval{v: pdf.Real(1e300), label: "Real-1e300"},
		pval{v: pdf.Name("X"), label: "Name"},
		pval{v: pdf.Boolean(true), label: "true"},
		pval{v: pdf.Boolean(false), label: "false"},
		pval{v: pdf.String("1"), label: "String"},
		pval{v: pdf.Array{pdf.Integer(1)}, label: "Array"},
		pval{v: pdf.Dict{"K": pdf.Integer(1)}, label: "Dict"},
		pval{v: missingRef, label: "Ref-missing"},
		pval{v: nil, label: "null"},
	)
	return out
}

// smallMenu is the menu named in the design, used for pairs.
func smallMenu() []pval {
	all := paramMenu()
	keep := map[string]bool{"absent": true, "0": true, "1": true, "-1": true, "2": true, "12": true, "16": true, "65536": true, "1048576": true, "2147483648": true, "4611686018427387904": true,
		"Real": true, "Name": true, "true": true, "false": true, "String": true, "Array": true, "Dict": true, "Ref-missing": true}
	var out []pval
	for _, p := range all {
		if keep[p.label] {
			out = append(out, p)
		}
	}
	return out
}

var filterKeys = map[pdf.Name][]pdf.Name{
	"FlateDecode":     {"Predictor", "Colors", "BitsPerComponent", "Columns"},
	"LZWDecode":       {"Predictor", "Colors", "BitsPerComponent", "Columns", "EarlyChange"},
	"CCITTFaxDecode":  {"K", "EndOfLine", "EncodedByteAlign", "Columns", "Rows", "EndOfBlock", "BlackIs1", "DamagedRowsBeforeError"},
	"DCTDecode":       {"ColorTransform"},
	"JBIG2Decode":     {"JBIG2Globals"},
	"Crypt":           {"Type", "Name"},
	"ASCII85Decode":   {"Columns"},
	"ASCIIHexDecode":  {"Predictor"},
	"RunLengthDecode": {"K"},
	"JPXDecode":       {"ColorTransform"},
	"FooDecode":       {"X"},
}

func cloneDict(d pdf.Dict) pdf.Dict {
	out := pdf.Dict{}
	for k, v := range d {
		out[k] = v
	}
	return out
}

func setParam(d pdf.Dict, key pdf.Name, p pval) {
	if p.absent {
		delete(d, key)
	} else {
		d[key] = p.v
	}
}

// ---------------------------------------------------------------------------
// the case table

type group struct {
	name string
	n    int
	gen  func(k int) *xcase
}

type table struct {
	groups []group
	starts []int
	total  int
	dims   map[string]any
}

func (t *table) add(name string, n int, gen func(k int) *xcase) {
	if n <= 0 {
		return
	}
	t.groups = append(t.groups, group{name, n, gen})
	t.starts = append(t.starts, t.total)
	t.total += n
}

func (t *table) get(idx int) *xcase {
	g := sort.Search(len(t.starts), func(i int) bool { return t.starts[i] > idx }) - 1
	x := t.groups[g].gen(idx - t.starts[g])
	if x.space == "" {
		x.space = t.groups[g].name
	}
	return x
}

func streamDict(filter pdf.Name, parms pdf.Dict) pdf.Dict {
	d := pdf.Dict{"Filter": filter}
	if parms != nil {
		d["DecodeParms"] = parms
	}
	return d
}

func seedObjs(s *seed) map[pdf.Reference]pdf.Native {
	if s.globals == nil {
		return nil
	}
	return map[pdf.Reference]pdf.Native{globalsRef: pdf.NewStream(pdf.Dict{}, s.globals)}
}

var modes = []string{"drain", "read1", "close0"}

type chainFilter struct {
	short string
	name  pdf.Name
	parms pdf.Dict
	seed  string // name of the seed whose body is a valid encoding for this filter
}

var chainFilters = []chainFilter{
	{"A85", "ASCII85Decode", nil, "a85"},
	{"AHx", "ASCIIHexDecode", nil, "ahx"},
	{"RL", "RunLengthDecode", nil, "rl"},
	{"Fl", "FlateDecode", nil, "fl"},
	{"LZW", "LZWDecode", nil, "lzw"},
	{"CCF", "CCITTFaxDecode", pdf.Dict{"K": pdf.Integer(-1), "Columns": pdf.Integer(8)}, ""},
	{"DCT", "DCTDecode", nil, "dct-gray72"},
	{"JBIG2", "JBIG2Decode", nil, "jbig2-generic-tpgd"},
	{"Crypt", "Crypt", nil, "crypt-identity"},
	{"JPX", "JPXDecode", nil, "jpx"},
	{"Foo", "FooDecode", nil, "unknown"},
}

type builder struct {
	thorough bool
	seeds    []*seed
	byName   map[string]*seed
	t        *table
	encCache map[string][]byte
}

var (
	bombOnce  sync.Once
	bombCache map[string][]byte
)

func zeros(n int) []byte { return make([]byte, n) }

func deflate(b []byte) []byte {
	var buf bytes.Buffer
	w, _ := zlib.NewWriterLevel(&buf, zlib.BestCompression)
	w.Write(b)
	w.Close()
	return buf.Bytes()
}

// bombs returns the maximal-ratio bodies (built lazily: only the worker that
// runs a bomb case pays for constructing them).
func bombs() map[string][]byte {
	bombOnce.Do(func() {
		m := map[string][]byte{}
		m["flate-1"] = deflate(zeros(1 << 20)) // about 1 KiB -> 1 MiB
		l2 := deflate(zeros(64 << 20))         // about 64 KiB -> 64 MiB
		m["flate-2"] = deflate(l2)             // a few hundred bytes -> 64 KiB -> 64 MiB
		m["flate-3"] = deflate(m["flate-2"])
		lz, _ := encodeWith(pdf.FilterLZW{OffByOne: true}, zeros(270000))
		m["lzw-1"] = lz
		lz2, _ := encodeWith(pdf.FilterLZW{OffByOne: true}, zeros(16<<20))
		lz2b, _ := encodeWith(pdf.FilterLZW{OffByOne: true}, lz2)
		m["lzw-2"] = lz2b
		m["rl-1"] = bytes.Repeat([]byte{0x81, 0x00}, 512) // 1 KiB -> 64 KiB
		rl2 := bytes.Repeat([]byte{0x81, 0x81}, 512)      // decodes to 64 KiB of 0x81, which decodes again ...
		m["rl-2"] = rl2
		m["ff-1k"] = bytes.Repeat([]byte{0xff}, 1024)
		m["00-1k"] = zeros(1024)
		m["aa-1k"] = bytes.Repeat([]byte{0xaa}, 1024)
		bombCache = m
	})
	return bombCache
}

func buildTable(thorough bool) (*table, error) {
	seeds, err := buildSeeds()
	if err != nil {
		return nil, err
	}
	b := &builder{thorough: thorough, byName: map[string]*seed{}, t: &table{dims: map[string]any{}}}
	for _, s := range seeds {
		if s.big && !thorough {
			continue
		}
		b.seeds = append(b.seeds, s)
		b.byName[s.name] = s
	}
	b.seedGroup()
	b.mutationGroups()
	b.claimGroups()
	b.bombGroup()
	b.paramGroups()
	b.shapeGroup()
	b.chainGroups()
	// added after the independent seeds (notes/C08.md, "Strengthening"): kept
	// at the end so that the indices of the older spaces do not move
	b.chain3Groups()
	b.lzwStateGroups()
	// added after the second round of independent seeds
	b.jbig2ProgramGroups()
	// added after the third round of independent seeds
	b.jbig2ParamProgramGroups()
	b.dctProgramGroups()
	// added after the fifth round of independent seeds
	b.dctFrameGroups()
	b.jbig2SymbolDictGroups()
	if only := os.Getenv("C08_ONLY"); only != "" {
		// development aid: keep the named spaces only (the run is then reported as capped)
		keep := map[string]bool{}
		for _, n := range strings.Split(only, ",") {
			keep[n] = true
		}
		t := &table{dims: b.t.dims}
		for _, g := range b.t.groups {
			if keep[g.name] {
				t.add(g.name, g.n, g.gen)
			}
		}
		b.t = t
	}
	return b.t, nil
}

// (1) every seed unmutated, via both entry points, in all three consumption modes
func (b *builder) seedGroup() {
	seeds := b.seeds
	b.t.dims["seeds"] = len(seeds)
	var names []string
	total := 0
	for _, s := range seeds {
		names = append(names, fmt.Sprintf("%s(%dB)", s.name, len(s.body)))
		total += len(s.body)
	}
	b.t.dims["seed_names"] = names
	b.t.dims["seed_bytes_total"] = total
	b.t.add("seed", len(seeds)*len(modes)*2, func(k int) *xcase {
		s := seeds[k/(2*len(modes))]
		via := []string{"stream", "filter"}[k%2]
		mode := modes[(k/2)%len(modes)]
		return &xcase{desc: "seed " + s.name, via: via, mode: mode, dict: streamDict(s.filter, s.parms), body: s.body, objs: seedObjs(s), plain: true}
	})
	// the same seeds through pdf.ReadAll with a limit below, at and above what they decode to
	limits := []string{"limit=0", "limit=16", "limit=1048576"}
	b.t.dims["readall_limits"] = limits
	b.t.add("seed-readall", len(seeds)*len(limits), func(k int) *xcase {
		s := seeds[k/len(limits)]
		return &xcase{desc: "seed " + s.name + " through pdf.ReadAll", via: "readall", mode: limits[k%len(limits)], dict: streamDict(s.filter, s.parms), body: s.body, objs: seedObjs(s)}
	})
}

// (2) one byte-level mutation of a seed body, every position
func (b *builder) mutationGroups() {
	n := 0
	for _, s := range b.seeds {
		s := s
		full := b.thorough || len(s.body) <= 128
		muts := byteMuts(s.body, full, false)
		n += len(muts)
		b.t.add("mut", len(muts), func(k int) *xcase {
			m := muts[k]
			return &xcase{desc: "seed " + s.name + ": " + m.String(), via: "stream", mode: "drain", dict: streamDict(s.filter, s.parms), body: apply(s.body, m), objs: seedObjs(s)}
		})
		// mutations of the JBIG2 globals stream
		if s.globals != nil {
			gm := byteMuts(s.globals, full, false)
			n += len(gm)
			b.t.add("mut-globals", len(gm), func(k int) *xcase {
				m := gm[k]
				return &xcase{desc: "seed " + s.name + ": globals stream: " + m.String(), via: "stream", mode: "drain", dict: streamDict(s.filter, s.parms), body: s.body,
					objs: map[pdf.Reference]pdf.Native{globalsRef: pdf.NewStream(pdf.Dict{}, apply(s.globals, m))}}
			})
		}
	}
	if b.thorough {
		// two adjacent bytes at once (deviation bound 2 on a window of 2)
		n2 := 0
		vals := []uint32{0x0000, 0x00ff, 0xff00, 0xffff, 0x7fff, 0x8000}
		for _, s := range b.seeds {
			s := s
			if len(s.body) < 2 {
				continue
			}
			cnt := (len(s.body) - 1) * len(vals)
			n2 += cnt
			b.t.add("mut2", cnt, func(k int) *xcase {
				m := one(edit{int32(k / len(vals)), 2, vals[k%len(vals)]})
				return &xcase{desc: "seed " + s.name + ": " + m.String(), via: "stream", mode: "drain", dict: streamDict(s.filter, s.parms), body: apply(s.body, m), objs: seedObjs(s)}
			})
		}
		b.t.dims["adjacent_byte_pair_mutations"] = n2
	}
	b.t.dims["byte_mutations"] = n
	b.t.dims["byte_menu"] = "per byte {00, FF, +1, -1, bit7} (all 255 other values for seeds <= 128 bytes; for every seed in the thorough tier), every truncation, insertion of {00, FF} at every offset"
}

// (3) header claims
func (b *builder) claimGroups() {
	n := 0
	for _, s := range b.seeds {
		s := s
		var fields []field
		switch s.filter {
		case "DCTDecode":
			fields = jpegFields(s.body)
		case "JBIG2Decode":
			_, fields = jbig2Segments(s.body)
		default:
			continue
		}
		muts := claimMuts(s.body, fields)
		if b.thorough {
			muts = append(muts, claimPairs(s.body, fields)...)
		}
		n += len(muts)
		b.t.add("claim", len(muts), func(k int) *xcase {
			m := muts[k]
			return &xcase{desc: "seed " + s.name + ": header claim: " + m.String(), via: "stream", mode: "drain", dict: streamDict(s.filter, s.parms), body: apply(s.body, m), objs: seedObjs(s)}
		})
		if s.globals != nil {
			_, gf := jbig2Segments(s.globals)
			gm := claimMuts(s.globals, gf)
			n += len(gm)
			b.t.add("claim-globals", len(gm), func(k int) *xcase {
				m := gm[k]
				return &xcase{desc: "seed " + s.name + ": globals header claim: " + m.String(), via: "stream", mode: "drain", dict: streamDict(s.filter, s.parms), body: s.body,
					objs: map[pdf.Reference]pdf.Native{globalsRef: pdf.NewStream(pdf.Dict{}, apply(s.globals, m))}}
			})
		}
	}
	b.t.dims["header_claims"] = n
	b.t.dims["claim_values"] = claimValues
}

// (4) bombs
func (b *builder) bombGroup() {
	type bc struct {
		desc string
		dict pdf.Dict
		body string
	}
	var list []bc
	nm := func(n pdf.Name) pdf.Dict { return pdf.Dict{"Filter": n} }
	arr := func(n pdf.Name, k int) pdf.Dict {
		a := pdf.Array{}
		for i := 0; i < k; i++ {
			a = append(a, n)
		}
		return pdf.Dict{"Filter": a}
	}
	list = append(list,
		bc{"flate 1 KiB -> 1 MiB", nm("FlateDecode"), "flate-1"},
		bc{"flate x2", arr("FlateDecode", 2), "flate-2"},
		bc{"flate x3", arr("FlateDecode", 3), "flate-3"},
		bc{"flate x3 body under x8", arr("FlateDecode", 8), "flate-3"},
		bc{"lzw 1 KiB", nm("LZWDecode"), "lzw-1"},
		bc{"lzw x2", arr("LZWDecode", 2), "lzw-2"},
		bc{"runlength 1 KiB -> 64 KiB", nm("RunLengthDecode"), "rl-1"},
		bc{"runlength x2", arr("RunLengthDecode", 2), "rl-2"},
		bc{"runlength x8", arr("RunLengthDecode", 8), "rl-2"},
	)
	for _, body := range []string{"ff-1k", "00-1k", "aa-1k"} {
		for _, k := range []int64{-1, 0, 1} {
			for _, cols := range []int64{1, 8, 1728, 1 << 16, 1 << 20} {
				for _, eob := range []bool{true, false} {
					for _, rows := range []int64{0, 1 << 20} {
						p := pdf.Dict{"K": pdf.Integer(k), "Columns": pdf.Integer(cols)}
						if !eob {
							p["EndOfBlock"] = pdf.Boolean(false)
						}
						if rows > 0 {
							p["Rows"] = pdf.Integer(rows)
						}
						list = append(list, bc{fmt.Sprintf("ccitt K=%d Columns=%d EndOfBlock=%v Rows=%d body=%s", k, cols, eob, rows, body),
							pdf.Dict{"Filter": pdf.Name("CCITTFaxDecode"), "DecodeParms": p}, body})
					}
				}
			}
		}
		for _, f := range []pdf.Name{"FlateDecode", "LZWDecode", "RunLengthDecode", "ASCII85Decode", "ASCIIHexDecode", "DCTDecode", "JBIG2Decode"} {
			list = append(list, bc{fmt.Sprintf("%s body=%s", f, body), nm(f), body})
		}
	}
	b.t.dims["bombs"] = len(list)
	b.t.add("bomb", len(list)*len(modes), func(k int) *xcase {
		c := list[k/len(modes)]
		return &xcase{desc: "bomb: " + c.desc, via: "stream", mode: modes[k%len(modes)], dict: cloneDict(c.dict), body: bombs()[c.body]}
	})
}

// (5) parameter dictionaries
func (b *builder) paramGroups() {
	menu := paramMenu()
	small := smallMenu()
	b.t.dims["param_values"] = len(menu)
	b.t.dims["param_values_pairs"] = len(small)
	if b.thorough {
		b.t.dims["param_values_pairs"] = len(menu)
	}
	nSingle, nPair := 0, 0
	for _, s := range b.seeds {
		s := s
		keys := filterKeys[s.filter]
		if len(keys) == 0 {
			continue
		}
		base := s.parms
		if base == nil {
			base = pdf.Dict{}
		}
		// single keys, both entry points
		n := len(keys) * len(menu) * 2
		nSingle += n
		b.t.add("param", n, func(k int) *xcase {
			via := []string{"stream", "filter"}[k%2]
			k /= 2
			key, p := keys[k/len(menu)], menu[k%len(menu)]
			d := cloneDict(base)
			setParam(d, key, p)
			return &xcase{desc: fmt.Sprintf("seed %s: /%s = %s", s.name, key, p.label), via: via, mode: "drain", dict: streamDict(s.filter, d), body: s.body, objs: seedObjs(s)}
		})
	}
	// all pairs for Flate / LZW / CCITT on two base seeds each
	for _, sn := range []string{"fl", "fl-png12", "lzw", "lzw-ec0-png12", "ccf-g4", "ccf-g3-eol"} {
		s := b.byName[sn]
		if s == nil {
			continue
		}
		keys := filterKeys[s.filter]
		base := s.parms
		if base == nil {
			base = pdf.Dict{}
		}
		type kp struct{ a, b pdf.Name }
		var pairs []kp
		for i := range keys {
			for j := i + 1; j < len(keys); j++ {
				pairs = append(pairs, kp{keys[i], keys[j]})
			}
		}
		small := small
		if b.thorough {
			small = menu
		}
		m := len(small)
		n := len(pairs) * m * m
		nPair += n
		b.t.add("param-pair", n, func(k int) *xcase {
			pr := pairs[k/(m*m)]
			pa, pb := small[(k/m)%m], small[k%m]
			d := cloneDict(base)
			setParam(d, pr.a, pa)
			setParam(d, pr.b, pb)
			return &xcase{desc: fmt.Sprintf("seed %s: /%s = %s, /%s = %s", s.name, pr.a, pa.label, pr.b, pb.label), via: "stream", mode: "drain", dict: streamDict(s.filter, d), body: s.body}
		})
	}
	b.t.dims["param_single_cases"] = nSingle
	b.t.dims["param_pair_cases"] = nPair

	// resource corners: the largest rows the predictor accepts, alone and stacked
	type rc struct {
		f      pdf.Name
		d      pdf.Dict
		repeat int
		body   string
	}
	var corners []rc
	for _, f := range []pdf.Name{"FlateDecode", "LZWDecode"} {
		for _, pred := range []int64{2, 12, 15} {
			for _, colors := range []int64{1, 32, 60, 256} {
				for _, bpc := range []int64{8, 16} {
					for _, cols := range []int64{1<<16 - 1, 1 << 16, 1 << 20} {
						for _, rep := range []int{1, 8} {
							for _, body := range []string{"seed", "bomb"} {
								corners = append(corners, rc{f, pdf.Dict{"Predictor": pdf.Integer(pred), "Colors": pdf.Integer(colors), "BitsPerComponent": pdf.Integer(bpc), "Columns": pdf.Integer(cols)}, rep, body})
							}
						}
					}
				}
			}
		}
	}
	b.t.dims["resource_corner_dicts"] = len(corners)
	b.t.add("param-corner", len(corners), func(k int) *xcase {
		c := corners[k]
		var body []byte
		sn := map[pdf.Name]string{"FlateDecode": "fl", "LZWDecode": "lzw"}[c.f]
		if c.body == "seed" {
			body = b.byName[sn].body
		} else {
			body = bombs()[map[pdf.Name]string{"FlateDecode": "flate-1", "LZWDecode": "lzw-1"}[c.f]]
		}
		d := pdf.Dict{"Filter": c.f, "DecodeParms": c.d}
		if c.repeat > 1 {
			fa, pa := pdf.Array{}, pdf.Array{}
			for i := 0; i < c.repeat; i++ {
				fa = append(fa, c.f)
				pa = append(pa, c.d)
			}
			d = pdf.Dict{"Filter": fa, "DecodeParms": pa}
		}
		return &xcase{desc: fmt.Sprintf("resource corner %s x%d %s body=%s", c.f, c.repeat, hx.Show(c.d), c.body), via: "stream", mode: "drain", dict: d, body: body}
	})
}

// (6) shapes of /Filter and /DecodeParms themselves
func (b *builder) shapeGroup() {
	fl := b.byName["fl-png12"]
	refDict, refName, refInt, refArr := pdf.NewReference(8, 0), pdf.NewReference(7, 0), pdf.NewReference(6, 0), pdf.NewReference(5, 0)
	objs := map[pdf.Reference]pdf.Native{
		refDict: cloneDict(fl.parms),
		refName: pdf.Name("FlateDecode"),
		refInt:  pdf.Integer(12),
		refArr:  pdf.Array{pdf.Name("FlateDecode")},
	}
	odd := []pval{
		{absent: true, label: "absent"}, {v: nil, label: "null"}, {v: pdf.Integer(1), label: "Integer"}, {v: pdf.Real(1.5), label: "Real"},
		{v: pdf.Boolean(true), label: "Boolean"}, {v: pdf.String("FlateDecode"), label: "String"}, {v: pdf.Name("FlateDecode"), label: "Name"}, {v: pdf.Name(""), label: "empty-Name"},
		{v: pdf.Dict{}, label: "empty-Dict"}, {v: cloneDict(fl.parms), label: "Dict"}, {v: pdf.Array{}, label: "empty-Array"},
		{v: pdf.Array{pdf.Name("FlateDecode")}, label: "[Name]"}, {v: pdf.Array{cloneDict(fl.parms)}, label: "[Dict]"}, {v: pdf.Array{nil}, label: "[null]"},
		{v: pdf.Array{pdf.Integer(1)}, label: "[Integer]"}, {v: pdf.Array{pdf.Array{pdf.Name("FlateDecode")}}, label: "[[Name]]"},
		{v: pdf.Array{pdf.Name("FlateDecode"), pdf.Name("FlateDecode")}, label: "[Name Name]"},
		{v: pdf.Array{cloneDict(fl.parms), pdf.Name("X")}, label: "[Dict Name]"}, {v: pdf.Array{nil, cloneDict(fl.parms)}, label: "[null Dict]"},
		{v: missingRef, label: "Ref-missing"}, {v: refDict, label: "Ref-Dict"}, {v: refName, label: "Ref-Name"}, {v: refInt, label: "Ref-Integer"}, {v: refArr, label: "Ref-[Name]"},
		{v: pdf.Array{refName}, label: "[Ref-Name]"}, {v: pdf.Array{refDict}, label: "[Ref-Dict]"}, {v: pdf.Array{missingRef}, label: "[Ref-missing]"}, {v: pdf.Array{refInt}, label: "[Ref-Integer]"},
		{v: pdf.Array{pdf.Name("Crypt"), pdf.Name("FlateDecode")}, label: "[Crypt Flate]"}, {v: pdf.Array{pdf.Name("FlateDecode"), pdf.Name("Crypt")}, label: "[Flate Crypt]"},
		{v: pdf.Array{pdf.Dict{"Name": pdf.Integer(1)}}, label: "[Dict-with-/Name-Integer]"}, {v: pdf.Dict{"Name": pdf.Integer(1)}, label: "Dict-with-/Name-Integer"},
		{v: pdf.Name("Crypt"), label: "Crypt"},
	}
	b.t.dims["dict_shapes"] = len(odd)
	n := len(odd) * len(odd)
	b.t.add("shape", n, func(k int) *xcase {
		f, p := odd[k/len(odd)], odd[k%len(odd)]
		d := pdf.Dict{}
		setParam(d, "Filter", f)
		setParam(d, "DecodeParms", p)
		return &xcase{desc: fmt.Sprintf("/Filter %s, /DecodeParms %s", f.label, p.label), via: "stream", mode: "drain", dict: d, body: fl.body, objs: objs}
	})
}

// (7) chains
func (b *builder) chainGroups() {
	type chain struct {
		fs   []chainFilter
		body []byte
		desc string
	}
	var chains []chain
	enc := func(cf chainFilter, data []byte) []byte {
		f := encoderFor(cf.short)
		if f == nil {
			return nil
		}
		out, err := encodeWith(f, data)
		if err != nil {
			return nil
		}
		return out
	}
	seedBody := func(cf chainFilter) []byte {
		if cf.seed != "" {
			return b.byName[cf.seed].body
		}
		return enc(cf, payload(12))
	}
	// every sequence of length 1 and 2: the body is (a) the valid encoding of
	// the whole chain where the inner filters can encode, (b) the inner
	// filter's own seed (so that the outer filter sees data that is not its format)
	for _, f1 := range chainFilters {
		chains = append(chains, chain{[]chainFilter{f1}, seedBody(f1), f1.short})
		for _, f2 := range chainFilters {
			name := f1.short + " " + f2.short
			if v := enc(f1, seedBody(f2)); v != nil {
				chains = append(chains, chain{[]chainFilter{f1, f2}, v, name + " (valid nesting)"})
			}
			chains = append(chains, chain{[]chainFilter{f1, f2}, seedBody(f1), name + " (inner seed only)"})
		}
	}
	// repeated filters: lengths 3, 8, 9
	for _, f := range chainFilters {
		for _, k := range []int{3, 8, 9} {
			fs := make([]chainFilter, k)
			body := seedBody(f)
			for i := range fs {
				fs[i] = f
			}
			for i := 1; i < k; i++ {
				if v := enc(f, body); v != nil && len(v) < 4096 {
					body = v
				}
			}
			chains = append(chains, chain{fs, body, fmt.Sprintf("%s x%d", f.short, k)})
		}
	}
	// a helper-goroutine filter buried under several layers
	for _, f := range []string{"AHx", "Fl"} {
		var cf chainFilter
		for _, c := range chainFilters {
			if c.short == f {
				cf = c
			}
		}
		chains = append(chains, chain{[]chainFilter{chainFilters[6], cf, cf}, b.byName["dct-gray72"].body, "DCT " + f + " " + f + " (inner seed only)"})
	}
	mkDict := func(fs []chainFilter) pdf.Dict {
		if len(fs) == 1 {
			return streamDict(fs[0].name, fs[0].parms)
		}
		fa, pa := pdf.Array{}, pdf.Array{}
		any := false
		for _, f := range fs {
			fa = append(fa, f.name)
			if f.parms != nil {
				pa = append(pa, f.parms)
				any = true
			} else {
				pa = append(pa, nil)
			}
		}
		d := pdf.Dict{"Filter": fa}
		if any {
			d["DecodeParms"] = pa
		}
		return d
	}
	b.t.dims["chains"] = len(chains)
	b.t.dims["chain_filters"] = len(chainFilters)
	b.t.add("chain", len(chains)*len(modes), func(k int) *xcase {
		c := chains[k/len(modes)]
		return &xcase{desc: "chain " + c.desc, via: "stream", mode: modes[k%len(modes)], dict: mkDict(c.fs), body: c.body, plain: true}
	})
	n := 0
	for _, c := range chains {
		c := c
		if len(c.fs) == 1 {
			continue // single filters are covered by the mutation groups
		}
		muts := byteMuts(c.body, false, !b.thorough)
		n += len(muts)
		b.t.add("chain-mut", len(muts), func(k int) *xcase {
			m := muts[k]
			return &xcase{desc: "chain " + c.desc + ": " + m.String(), via: "stream", mode: "drain", dict: mkDict(c.fs), body: apply(c.body, m)}
		})
	}
	b.t.dims["chain_mutations"] = n
}
