//go:build verif

package c08

import (
	"encoding/binary"
	"fmt"
	"strings"

	"seehuhn.de/go/pdf/graphics/bitmap"
	"seehuhn.de/go/pdf/internal/filter/jbig2"
)

// JBIG2 segment programs.
//
// The byte-mutation and header-claim spaces change one byte / one field of a
// fixture page, which never produces a new SEQUENCE of segments: no fixture
// has an intermediate region that is used twice, a region defined before its
// page, a second page information segment, a refinement of a text region ...
// This family builds the body in the harness from a small alphabet of
// well-formed segments and enumerates EVERY sequence up to a length bound,
// with every choice of the referred-to segment for the segment kinds that
// have one (none, every segment number 0..L-1 of the program - earlier
// segments, the segment itself, later ones - and L, a number that does not
// occur).  Segment i of a program has segment number i and page association 1.
//
// The segment headers are written by the harness's own writer below (ISO/IEC
// 14492 7.2), the page information segment by its own writer (7.4.8); region
// and dictionary payloads are valid encodings of fixed small bitmaps made
// with the repository's segment encoders (as the JBIG2 seeds of seeds.go are).

// jbHeader appends a segment header (7.2): segment number, flags (type, page
// association size), referred-to count with retain bits (short form for <= 4
// referred-to segments, long form otherwise), the referred-to segment numbers
// (1, 2 or 4 bytes each, depending on THIS segment's number), the page
// association and the data length.
func jbHeader(buf []byte, num uint32, typ int, refs []uint32, page uint32, dataLen uint32) []byte {
	buf = binary.BigEndian.AppendUint32(buf, num)
	fl := byte(typ & 0x3f)
	if page > 255 {
		fl |= 0x40
	}
	buf = append(buf, fl)
	if len(refs) <= 4 {
		// count in the three high bits; retain bits for this segment and every referred-to one
		buf = append(buf, byte(len(refs))<<5|byte(1<<(uint(len(refs))+1)-1))
	} else {
		buf = binary.BigEndian.AppendUint32(buf, 0xE0000000|uint32(len(refs)))
		for i := 0; i < (len(refs)+8)/8; i++ {
			buf = append(buf, 0xff)
		}
	}
	for _, r := range refs {
		switch {
		case num <= 256:
			buf = append(buf, byte(r))
		case num <= 65536:
			buf = binary.BigEndian.AppendUint16(buf, uint16(r))
		default:
			buf = binary.BigEndian.AppendUint32(buf, r)
		}
	}
	if page > 255 {
		buf = binary.BigEndian.AppendUint32(buf, page)
	} else {
		buf = append(buf, byte(page))
	}
	return binary.BigEndian.AppendUint32(buf, dataLen)
}

// jbPageInfo is the 19-byte page information segment data (7.4.8): width,
// height, resolutions unknown, flags 0 (default pixel 0, combination operator
// OR), no striping.
func jbPageInfo(w, h uint32) []byte {
	b := make([]byte, 19)
	binary.BigEndian.PutUint32(b[0:], w)
	binary.BigEndian.PutUint32(b[4:], h)
	return b
}

type jbLetter struct {
	name   string
	typ    int
	data   []byte
	hasRef bool // the segment kind has a referred-to segment slot that is enumerated
	region bool // member of the reduced "page and generic / refinement regions" alphabet
	size   int  // side length of the region bitmap (parameter alphabet; 0: not a region)
}

// jbBitmap is a fixed non-trivial w x h pattern; variant 1 differs in a few pixels.
func jbBitmap(w, h, variant int) *bitmap.Bitmap {
	bm := bitmap.New(w, h)
	for y := 0; y < h; y++ {
		for x := 0; x < w; x++ {
			v := (x*x+2*y*y+x*y)%5 < 2 || x == y
			if variant == 1 && (x+2*y)%11 == 3 {
				v = !v
			}
			if v {
				bm.SetPixel(x, y, true)
			}
		}
	}
	return bm
}

var jbSizes = []int{8, 64}

const jbLargePage = 128

// jbLetters is the segment alphabet.
func jbLetters() []jbLetter {
	var out []jbLetter
	out = append(out,
		jbLetter{name: "page 8x8", typ: 48, data: jbPageInfo(8, 8), region: true},
		jbLetter{name: fmt.Sprintf("page %dx%d", jbLargePage, jbLargePage), typ: 48, data: jbPageInfo(jbLargePage, jbLargePage), region: true},
	)
	for _, s := range jbSizes {
		gen := jbig2.EncodeGenericRegionSegment(jbBitmap(s, s, 0), 0, 0, 0, bitmap.CombOpOR, false, false)
		out = append(out,
			jbLetter{name: fmt.Sprintf("generic(38) %dx%d", s, s), typ: 38, data: gen, region: true},
			jbLetter{name: fmt.Sprintf("intermediate-generic(36) %dx%d", s, s), typ: 36, data: gen, region: true},
		)
	}
	out = append(out,
		jbLetter{name: "symbol-dict(0)", typ: 0, data: jbig2.EncodeSymbolDictSegment(jbSymbols(), 0)},
		jbLetter{name: "end-of-page(49)", typ: 49},
	)
	for _, s := range jbSizes {
		// a valid refinement of the generic region bitmap of the same size
		ref := jbig2.EncodeRefinementRegionSegment(jbBitmap(s, s, 1), jbBitmap(s, s, 0), 0, 0, 0, bitmap.CombOpOR, false)
		out = append(out,
			jbLetter{name: fmt.Sprintf("refinement(42) %dx%d", s, s), typ: 42, data: ref, hasRef: true, region: true},
			jbLetter{name: fmt.Sprintf("intermediate-refinement(40) %dx%d", s, s), typ: 40, data: ref, hasRef: true, region: true},
		)
	}
	syms := jbSymbols()
	inst := []jbig2.SymbolInstance{{SymID: 0, T: 0, S: 0, Wi: 3, Hi: 3}, {SymID: 1, T: 0, S: 4, Wi: 3, Hi: 3}}
	txt := jbig2.EncodeTextRegionSegment(8, 8, 0, 0, inst, syms, 1 /* top left */, false, bitmap.CombOpOR, 1, 0, 0)
	out = append(out,
		jbLetter{name: "text(6) 8x8", typ: 6, data: txt, hasRef: true},
		jbLetter{name: "intermediate-text(4) 8x8", typ: 4, data: txt, hasRef: true},
	)
	return out
}

// jbParamLetters is the PARAMETER alphabet: the region and dictionary segment
// kinds of jbLetters with EVERY value of the coding-parameter bits of their
// flags byte, each payload a valid encoding under exactly these parameters
// (made with the repository's segment encoders, used as opaque bytes):
//
//	generic region (38) and intermediate generic region (36), 8x8 and 64x64:
//	    GBTEMPLATE 0..3 x TPGDON 0/1 (arithmetic coding, nominal AT pixels),
//	    GBTEMPLATE 0 with EXTTEMPLATE (12 AT pixels) x TPGDON 0/1, and MMR     (11)
//	refinement region (42) and intermediate refinement region (40), 8x8 and 64x64,
//	    with a referred-to slot: GRTEMPLATE 0/1 x TPGRON 0/1                   (4)
//	symbol dictionary (0): SDTEMPLATE 0..3                                      (4)
//	text region (6) 8x8 with a referred-to slot
func jbParamLetters() []jbLetter {
	var out []jbLetter
	b2i := map[bool]int{false: 0, true: 1}
	for _, s := range jbSizes {
		bm := jbBitmap(s, s, 0)
		type variant struct {
			name string
			data []byte
		}
		var vs []variant
		for t := 0; t < 4; t++ {
			for _, tp := range []bool{false, true} {
				vs = append(vs, variant{fmt.Sprintf("GBTEMPLATE=%d TPGDON=%d", t, b2i[tp]), jbig2.EncodeGenericRegionSegment(bm, 0, 0, t, bitmap.CombOpOR, tp, false)})
			}
		}
		for _, tp := range []bool{false, true} {
			vs = append(vs, variant{fmt.Sprintf("GBTEMPLATE=0 EXTTEMPLATE TPGDON=%d", b2i[tp]), jbig2.EncodeGenericRegionSegment(bm, 0, 0, 0, bitmap.CombOpOR, tp, true)})
		}
		if mmr, err := jbig2.EncodeGenericRegionSegmentMMR(bm, 0, 0, bitmap.CombOpOR); err == nil {
			vs = append(vs, variant{"MMR", mmr})
		}
		for _, typ := range []int{38, 36} {
			kind := map[int]string{38: "generic(38)", 36: "intermediate-generic(36)"}[typ]
			for _, v := range vs {
				out = append(out, jbLetter{name: fmt.Sprintf("%s %dx%d %s", kind, s, s, v.name), typ: typ, data: v.data, region: true, size: s})
			}
		}
	}
	for t := 0; t < 4; t++ {
		out = append(out, jbLetter{name: fmt.Sprintf("symbol-dict(0) SDTEMPLATE=%d", t), typ: 0, data: jbig2.EncodeSymbolDictSegment(jbSymbols(), t)})
	}
	for _, s := range jbSizes {
		for t := 0; t < 2; t++ {
			for _, tp := range []bool{false, true} {
				ref := jbig2.EncodeRefinementRegionSegment(jbBitmap(s, s, 1), jbBitmap(s, s, 0), 0, 0, t, bitmap.CombOpOR, tp)
				for _, typ := range []int{42, 40} {
					kind := map[int]string{42: "refinement(42)", 40: "intermediate-refinement(40)"}[typ]
					out = append(out, jbLetter{name: fmt.Sprintf("%s %dx%d GRTEMPLATE=%d TPGRON=%d", kind, s, s, t, b2i[tp]), typ: typ, data: ref, hasRef: true, region: true, size: s})
				}
			}
		}
	}
	syms := jbSymbols()
	inst := []jbig2.SymbolInstance{{SymID: 0, T: 0, S: 0, Wi: 3, Hi: 3}, {SymID: 1, T: 0, S: 4, Wi: 3, Hi: 3}}
	txt := jbig2.EncodeTextRegionSegment(8, 8, 0, 0, inst, syms, 1 /* top left */, false, bitmap.CombOpOR, 1, 0, 0)
	out = append(out, jbLetter{name: "text(6) 8x8", typ: 6, data: txt, hasRef: true})
	return out
}

// jbParamSpaces lists the parameter-program spaces of a tier (the page
// information letters come from the plain alphabet):
//
//	quick:    every ordered PAIR of parameter letters, on its own (length 2) and
//	          behind each of the two page information segments (length 3)
//	thorough: additionally a 128x128 page followed by every sequence of THREE
//	          parameter letters of the 8x8 size (and the dictionary / text letters)
func jbParamSpaces(pages []jbLetter, letters []jbLetter, thorough bool) []*jbSpace {
	mk := func(length int, pgs []*jbLetter, smallOnly bool) *jbSpace {
		s := &jbSpace{length: length, pageFirst: len(pgs) > 0, pages: pgs}
		for i := range letters {
			l := &letters[i]
			if smallOnly && l.size > 8 {
				continue
			}
			if l.hasRef {
				s.withRef = append(s.withRef, l)
			} else {
				s.plain = append(s.plain, l)
			}
		}
		return s
	}
	var pgs []*jbLetter
	for i := range pages {
		if pages[i].typ == 48 {
			pgs = append(pgs, &pages[i])
		}
	}
	out := []*jbSpace{mk(2, nil, false), mk(3, pgs, false)}
	if thorough {
		out = append(out, mk(4, pgs[len(pgs)-1:], true))
	}
	return out
}

func jbSymbols() []*bitmap.Bitmap {
	a, b := bitmap.New(3, 3), bitmap.New(3, 3)
	for i := 0; i < 3; i++ {
		a.SetPixel(i, i, true)
		b.SetPixel(i, 1, true)
		b.SetPixel(1, i, true)
	}
	return []*bitmap.Bitmap{a, b}
}

// jbStep is one segment of a program: a letter and, if the letter has a
// referred-to slot, the referred-to segment number (-1: none).
type jbStep struct {
	l   *jbLetter
	ref int
}

func jbProgramBody(steps []jbStep) []byte {
	var b []byte
	for i, st := range steps {
		var refs []uint32
		if st.l.hasRef && st.ref >= 0 {
			refs = []uint32{uint32(st.ref)}
		}
		b = jbHeader(b, uint32(i), st.l.typ, refs, 1, uint32(len(st.l.data)))
		b = append(b, st.l.data...)
	}
	return b
}

func jbProgramString(steps []jbStep) string {
	var s []string
	for i, st := range steps {
		t := fmt.Sprintf("%d:%s", i, st.l.name)
		if st.l.hasRef {
			switch {
			case st.ref < 0:
				t += " refers to nothing"
			case st.ref == i:
				t += " refers to itself"
			case st.ref >= len(steps):
				t += fmt.Sprintf(" refers to %d (does not exist)", st.ref)
			case st.ref > i:
				t += fmt.Sprintf(" refers to %d (later)", st.ref)
			default:
				t += fmt.Sprintf(" refers to %d", st.ref)
			}
		}
		s = append(s, t)
	}
	return "[" + strings.Join(s, "; ") + "]"
}

// jbSpace is the set of all programs of one length over one alphabet; if
// pageFirst is set, segment 0 is restricted to the page information letters.
type jbSpace struct {
	length    int
	plain     []*jbLetter
	withRef   []*jbLetter
	pages     []*jbLetter // first-position letters if pageFirst
	pageFirst bool
}

// perPos is the number of (letter, referred-to choice) combinations of one
// position: referred-to choices are none, 0..length-1, and length (missing).
func (s *jbSpace) perPos() int { return len(s.plain) + len(s.withRef)*(s.length+2) }

func (s *jbSpace) size() int {
	n := 1
	for i := 0; i < s.length; i++ {
		if i == 0 && s.pageFirst {
			n *= len(s.pages)
		} else {
			n *= s.perPos()
		}
	}
	return n
}

func (s *jbSpace) at(k int) []jbStep {
	steps := make([]jbStep, s.length)
	pp := s.perPos()
	for i := s.length - 1; i >= 0; i-- {
		if i == 0 && s.pageFirst {
			steps[i] = jbStep{l: s.pages[k%len(s.pages)], ref: -1}
			k /= len(s.pages)
			continue
		}
		c := k % pp
		k /= pp
		if c < len(s.plain) {
			steps[i] = jbStep{l: s.plain[c], ref: -1}
		} else {
			c -= len(s.plain)
			steps[i] = jbStep{l: s.withRef[c/(s.length+2)], ref: c%(s.length+2) - 1}
		}
	}
	return steps
}

// jbSpaces lists the program spaces of a tier.
//
//	quick:    every program of length <= 3 over the full alphabet;
//	          length 4: a page information segment followed by every sequence of 3 segments (full alphabet)
//	thorough: every program of length <= 4 over the full alphabet;
//	          length 5: a page information segment followed by every sequence of 4 segments over the
//	          region alphabet (page information, generic and refinement regions)
func jbSpaces(letters []jbLetter, thorough bool) []*jbSpace {
	mk := func(length int, pageFirst, regionOnly bool) *jbSpace {
		s := &jbSpace{length: length, pageFirst: pageFirst}
		for i := range letters {
			l := &letters[i]
			if l.typ == 48 {
				s.pages = append(s.pages, l)
			}
			if regionOnly && !l.region {
				continue
			}
			if l.hasRef {
				s.withRef = append(s.withRef, l)
			} else {
				s.plain = append(s.plain, l)
			}
		}
		return s
	}
	var out []*jbSpace
	full := 3
	if thorough {
		full = 4
	}
	for l := 1; l <= full; l++ {
		out = append(out, mk(l, false, false))
	}
	out = append(out, mk(full+1, true, thorough))
	return out
}

func (b *builder) jbig2ProgramGroups() {
	letters := jbLetters()
	var names []string
	for _, l := range letters {
		n := fmt.Sprintf("%s (%d B)", l.name, len(l.data))
		if l.hasRef {
			n += " + referred-to segment"
		}
		names = append(names, n)
	}
	var sizes []string
	total := 0
	for _, sp := range jbSpaces(letters, b.thorough) {
		sp := sp
		n := sp.size()
		total += n
		what := fmt.Sprintf("length %d: %d programs (%d letter/reference choices per position", sp.length, n, sp.perPos())
		if sp.pageFirst {
			what += "; segment 0 is a page information segment"
		}
		if len(sp.plain)+len(sp.withRef) < len(letters) {
			what += "; region alphabet: page information, generic and refinement regions"
		}
		sizes = append(sizes, what+")")
		b.t.add("jbig2-prog", n, func(k int) *xcase {
			steps := sp.at(k)
			return &xcase{
				desc: "JBIG2 segment program " + jbProgramString(steps),
				via:  "stream", mode: "drain", dict: streamDict("JBIG2Decode", nil),
				body: jbProgramBody(steps), tag: "segment-program",
			}
		})
	}
	b.t.dims["jbig2_program_alphabet"] = names
	b.t.dims["jbig2_program_referred_to_choices"] = "none, every segment number 0..L-1 of a program of length L (earlier segment, the segment itself, later segment), and L (no such segment)"
	b.t.dims["jbig2_program_spaces"] = sizes
	b.t.dims["jbig2_program_cases"] = total
}

func (b *builder) jbig2ParamProgramGroups() {
	pages := jbLetters()
	letters := jbParamLetters()
	var names, sizes []string
	for _, l := range letters {
		n := fmt.Sprintf("%s (%d B)", l.name, len(l.data))
		if l.hasRef {
			n += " + referred-to segment"
		}
		names = append(names, n)
	}
	total := 0
	for _, sp := range jbParamSpaces(pages, letters, b.thorough) {
		sp := sp
		n := sp.size()
		total += n
		what := fmt.Sprintf("length %d: %d programs (%d letter/reference choices per position", sp.length, n, sp.perPos())
		if sp.pageFirst {
			what += fmt.Sprintf("; segment 0 is one of %d page information segments", len(sp.pages))
		}
		if len(sp.plain)+len(sp.withRef) < len(letters) {
			what += "; 8x8 regions, dictionaries and text only"
		}
		sizes = append(sizes, what+")")
		b.t.add("jbig2-prog-param", n, func(k int) *xcase {
			steps := sp.at(k)
			return &xcase{
				desc: "JBIG2 segment program " + jbProgramString(steps),
				via:  "stream", mode: "drain", dict: streamDict("JBIG2Decode", nil),
				body: jbProgramBody(steps), tag: "segment-program",
			}
		})
	}
	b.t.dims["jbig2_param_program_alphabet"] = names
	b.t.dims["jbig2_param_program_spaces"] = sizes
	b.t.dims["jbig2_param_program_cases"] = total
}

// jbig2ProgramSelfTest checks the harness's segment header writer against the
// harness's segment walker (fields.go; both written from ISO/IEC 14492 7.2,
// independently of each other and of the library): a program that contains
// every letter must be walked back into the same segments; and the long forms
// of the header (more than 4 referred-to segments, 2- and 4-byte referred-to
// numbers, 4-byte page association) must be walked with the right data offset.
func jbig2ProgramSelfTest() string {
	letters := jbLetters()
	var steps []jbStep
	for i := range letters {
		steps = append(steps, jbStep{l: &letters[i], ref: i / 2})
	}
	body := jbProgramBody(steps)
	segs, _ := jbig2Segments(body)
	if len(segs) != len(steps) {
		return fmt.Sprintf("JBIG2 program writer: the walker finds %d of %d segments", len(segs), len(steps))
	}
	for i, sg := range segs {
		if sg.typ != steps[i].l.typ || sg.end-sg.data != len(steps[i].l.data) || string(body[sg.data:sg.end]) != string(steps[i].l.data) {
			return fmt.Sprintf("JBIG2 program writer: segment %d (%s) is walked as type %d with %d data bytes", i, steps[i].l.name, sg.typ, sg.end-sg.data)
		}
	}
	if segs[len(segs)-1].end != len(body) {
		return "JBIG2 program writer: the walker does not consume the program"
	}
	if w, h, ok := jbig2Claim(body); !ok || w != jbLargePage || h != jbLargePage {
		return fmt.Sprintf("JBIG2 program writer: page claim %dx%d ok=%v, want the larger of the two page information segments", w, h, ok)
	}
	for _, c := range []struct {
		num   uint32
		nrefs int
		page  uint32
	}{{3, 0, 1}, {3, 4, 1}, {3, 5, 1}, {3, 9, 300}, {300, 2, 1}, {300, 6, 1}, {70000, 3, 70000}} {
		refs := make([]uint32, c.nrefs)
		for i := range refs {
			refs[i] = uint32(i)
		}
		hdr := jbHeader(nil, c.num, 38, refs, c.page, 5)
		b := append(append([]byte{}, hdr...), 1, 2, 3, 4, 5)
		segs, _ := jbig2Segments(b)
		if len(segs) != 1 || segs[0].typ != 38 || segs[0].data != len(hdr) || segs[0].end != len(b) {
			return fmt.Sprintf("JBIG2 header writer: number %d, %d referred-to segments, page %d: walker disagrees about the header length", c.num, c.nrefs, c.page)
		}
	}
	return ""
}
