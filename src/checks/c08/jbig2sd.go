//go:build verif

package c08

import (
	"encoding/binary"
	"fmt"
	"strings"

	"seehuhn.de/go/pdf/internal/filter/jbig2"
)

// JBIG2 symbol dictionary programs (height-class programs).
//
// Every symbol dictionary of the other spaces is a payload of the library's
// encoder (two 3x3 symbols in ONE height class) with at most one byte changed:
// the decoder's loops over height classes and over the symbols of a class were
// never driven by a chosen SEQUENCE of coded integers, and the arithmetically
// coded data never ended at a chosen point of that sequence.  This family
// writes the dictionary segment in the harness: the segment data header
// (ISO/IEC 14492 7.4.2.1: flags with SDHUFF=0 SDREFAGG=0 and SDTEMPLATE, the
// nominal adaptive-template pixels, SDNUMEXSYMS, SDNUMNEWSYMS) followed by the
// MQ-coded integers of a program of height classes
//
//	prefix . letter^n . tail
//
// over an alphabet of height classes: empty classes "IADH=d, IADW=OOB" for a
// menu of deltas d, and classes that hold one symbol "IADH=d, IADW=w, bitmap,
// IADW=OOB".  Then the data ENDS (the encoder's flush): what the decoder reads
// after the program are the decisions an MQ decoder delivers beyond the end of
// its data.  tail = nothing or the export run lengths (IAEX 0, IAEX N).
// A second space cuts the MQ data of the short programs at every byte.
//
// The integers are MQ-coded with the library's integer and MQ encoders through
// src/export/internal/filter/jbig2 (used as opaque bytes, as the region
// payloads of jbig2prog.go are); header and framing are the harness's own.

type sdLetter struct {
	name   string
	dh     int64
	widths []int64
}

// sdLetters is the alphabet of height classes.
func sdLetters() []sdLetter {
	var out []sdLetter
	for _, d := range []int64{0, 1, 2, 4, -1, 100} {
		out = append(out, sdLetter{name: fmt.Sprintf("empty class dh=%d", d), dh: d})
	}
	out = append(out,
		sdLetter{name: "class dh=1 with one symbol of width 1", dh: 1, widths: []int64{1}},
		sdLetter{name: "class dh=1 with one symbol of width 3", dh: 1, widths: []int64{3}},
		sdLetter{name: "class dh=0 with one symbol of width 3", dh: 0, widths: []int64{3}},
	)
	return out
}

// sdNominalAT returns the nominal adaptive-template pixel positions of a
// generic region template (6.2.5.4, Figures 3-6).
func sdNominalAT(template int) (atx, aty [4]int8, n int) {
	switch template {
	case 0:
		return [4]int8{3, -3, 2, -2}, [4]int8{-1, -1, -2, -2}, 4
	case 1:
		return [4]int8{3}, [4]int8{-1}, 1
	}
	return [4]int8{2}, [4]int8{-1}, 1
}

// sdProgram is one dictionary: the program and the header counts.
type sdProgram struct {
	template int
	numNew   uint32
	steps    []*sdLetter // prefix, then the repeated letter
	counts   []int
	export   bool // the export run lengths 0, numNew follow the classes
}

func (p *sdProgram) mqData() []byte {
	var cl []jbig2.VerifSDClass
	for i, l := range p.steps {
		for k := 0; k < p.counts[i]; k++ {
			cl = append(cl, jbig2.VerifSDClass{DH: l.dh, Widths: l.widths})
		}
	}
	var ex []int64
	if p.export {
		ex = []int64{0, int64(p.numNew)}
	}
	atx, aty, _ := sdNominalAT(p.template)
	return jbig2.VerifEncodeHeightClasses(p.template, atx, aty, cl, ex)
}

// sdSegmentData is the symbol dictionary segment data: 7.4.2.1 header + MQ data.
func sdSegmentData(template int, numEx, numNew uint32, mq []byte) []byte {
	var b []byte
	b = binary.BigEndian.AppendUint16(b, uint16(template&3)<<10) // SDHUFF=0, SDREFAGG=0, no context reuse
	atx, aty, n := sdNominalAT(template)
	for i := 0; i < n; i++ {
		b = append(b, byte(atx[i]), byte(aty[i]))
	}
	b = binary.BigEndian.AppendUint32(b, numEx)
	b = binary.BigEndian.AppendUint32(b, numNew)
	return append(b, mq...)
}

// sdBody frames the dictionary: alone, or behind a page information segment 8x8.
func sdBody(data []byte, page bool) []byte {
	var b []byte
	num := uint32(0)
	if page {
		pi := jbPageInfo(8, 8)
		b = jbHeader(b, 0, 48, nil, 1, uint32(len(pi)))
		b = append(b, pi...)
		num = 1
	}
	b = jbHeader(b, num, 0, nil, 1, uint32(len(data)))
	return append(b, data...)
}

func (p *sdProgram) String() string {
	var s []string
	for i, l := range p.steps {
		t := "[" + l.name + "]"
		if p.counts[i] != 1 {
			t += fmt.Sprintf(" x %d", p.counts[i])
		}
		s = append(s, t)
	}
	ex := "no export run lengths"
	if p.export {
		ex = fmt.Sprintf("export run lengths 0, %d", p.numNew)
	}
	return fmt.Sprintf("SDTEMPLATE=%d SDNUMNEWSYMS=%d: %s; %s; end of the MQ data", p.template, p.numNew, strings.Join(s, "; "), ex)
}

// sdSpace: every prefix of length <= maxPrefix over the letters x every letter
// repeated n times (n from counts) x SDNUMNEWSYMS x tail x template x framing.
type sdSpace struct {
	letters   []sdLetter
	counts    []int
	maxPrefix int
	numNew    []uint32
	templates []int
}

func (s *sdSpace) prefixes() int {
	n, p := 0, 1
	for l := 0; l <= s.maxPrefix; l++ {
		n += p
		p *= len(s.letters)
	}
	return n
}

// programs is the number of dictionaries; every one is framed in two ways.
func (s *sdSpace) programs() int {
	return s.prefixes() * len(s.letters) * len(s.counts) * len(s.numNew) * 2 * len(s.templates)
}

func (s *sdSpace) at(k int) *sdProgram {
	p := &sdProgram{}
	n := s.counts[k%len(s.counts)]
	k /= len(s.counts)
	rep := &s.letters[k%len(s.letters)]
	k /= len(s.letters)
	p.numNew = s.numNew[k%len(s.numNew)]
	k /= len(s.numNew)
	p.export = k%2 == 1
	k /= 2
	p.template = s.templates[k%len(s.templates)]
	k /= len(s.templates)
	// k is the prefix index: all prefixes of length 0, then length 1, ...
	q := 1
	for l := 0; l <= s.maxPrefix; l++ {
		if k < q {
			pre := make([]*sdLetter, l)
			for i := l - 1; i >= 0; i-- {
				pre[i] = &s.letters[k%len(s.letters)]
				k /= len(s.letters)
			}
			for _, x := range pre {
				p.steps, p.counts = append(p.steps, x), append(p.counts, 1)
			}
			break
		}
		k -= q
		q *= len(s.letters)
	}
	p.steps, p.counts = append(p.steps, rep), append(p.counts, n)
	return p
}

// sdSpaces returns the program space of a tier and the space whose MQ data is
// cut at every byte.
//
//	quick:    prefix length <= 2, n in {1..6, 8, 16, 64, 256}, SDNUMNEWSYMS in {1, 2, 4}, SDTEMPLATE 0
//	thorough: n additionally 7, 32, 128, 512, 1024; SDTEMPLATE 0..3
//	cut:      prefix length <= 1, n in {1, 2, 3, 4, 8}, SDNUMNEWSYMS in {1, 2}, every prefix length of the MQ data
func sdSpaces(thorough bool) (full, cut *sdSpace) {
	full = &sdSpace{letters: sdLetters(), maxPrefix: 2, numNew: []uint32{1, 2, 4},
		counts: []int{1, 2, 3, 4, 5, 6, 8, 16, 64, 256}, templates: []int{0}}
	cut = &sdSpace{letters: sdLetters(), maxPrefix: 1, numNew: []uint32{1, 2},
		counts: []int{1, 2, 3, 4, 8}, templates: []int{0}}
	if thorough {
		full.counts = []int{1, 2, 3, 4, 5, 6, 7, 8, 16, 32, 64, 128, 256, 512, 1024}
		full.templates = []int{0, 1, 2, 3}
		cut.templates = []int{0, 1, 2, 3}
	}
	return
}

func (b *builder) jbig2SymbolDictGroups() {
	full, cut := sdSpaces(b.thorough)
	mk := func(p *sdProgram, mq []byte, page bool, cutAt int) *xcase {
		desc := "JBIG2 symbol dictionary program " + p.String()
		if cutAt >= 0 {
			desc += fmt.Sprintf(" cut after %d of %d bytes", cutAt, len(mq))
			mq = mq[:cutAt]
		}
		if page {
			desc += "; behind a page information segment 8x8"
		} else {
			desc += "; no page information segment"
		}
		return &xcase{
			desc: desc, via: "stream", mode: "drain", dict: streamDict("JBIG2Decode", nil),
			body: sdBody(sdSegmentData(p.template, p.numNew, p.numNew, mq), page), tag: "symbol-dictionary-program",
		}
	}
	n := full.programs()
	b.t.add("jbig2-sd-prog", 2*n, func(k int) *xcase {
		p := full.at(k / 2)
		return mk(p, p.mqData(), k%2 == 1, -1)
	})
	// every prefix length of the MQ data of the short programs: the offsets are
	// laid out when the table is built (the lengths depend on the coded data)
	nc := cut.programs()
	starts := make([]int, nc+1)
	for i := 0; i < nc; i++ {
		starts[i+1] = starts[i] + len(cut.at(i).mqData()) // cut lengths 0 .. len-1 (the full length is in the other space)
	}
	b.t.add("jbig2-sd-cut", 2*starts[nc], func(k int) *xcase {
		page := k%2 == 1
		k /= 2
		lo, hi := 0, nc
		for hi-lo > 1 { // largest i with starts[i] <= k
			mid := (lo + hi) / 2
			if starts[mid] <= k {
				lo = mid
			} else {
				hi = mid
			}
		}
		p := cut.at(lo)
		return mk(p, p.mqData(), page, k-starts[lo])
	})
	var names []string
	for _, l := range full.letters {
		names = append(names, l.name)
	}
	b.t.dims["jbig2_sd_program_height_class_alphabet"] = names
	b.t.dims["jbig2_sd_program_repetition_counts"] = full.counts
	b.t.dims["jbig2_sd_program_sdnumnewsyms"] = full.numNew
	b.t.dims["jbig2_sd_program_sdtemplate"] = full.templates
	b.t.dims["jbig2_sd_program_tails"] = []string{"end of the MQ data", "export run lengths 0, SDNUMNEWSYMS, then end of the MQ data"}
	b.t.dims["jbig2_sd_program_framing"] = []string{"dictionary segment alone", "behind a page information segment 8x8"}
	b.t.dims["jbig2_sd_program_spaces"] = []string{
		fmt.Sprintf("programs: %d prefixes (length <= %d) x %d repeated letters x %d counts x %d SDNUMNEWSYMS x 2 tails x %d templates x 2 framings = %d",
			full.prefixes(), full.maxPrefix, len(full.letters), len(full.counts), len(full.numNew), len(full.templates), 2*n),
		fmt.Sprintf("cut: %d prefixes (length <= %d) x %d repeated letters x counts %v x SDNUMNEWSYMS %v x 2 tails x %d templates = %d programs, MQ data cut at every byte (%d cuts) x 2 framings = %d",
			cut.prefixes(), cut.maxPrefix, len(cut.letters), cut.counts, cut.numNew, len(cut.templates), nc, starts[nc], 2*starts[nc]),
	}
	b.t.dims["jbig2_sd_program_cases"] = 2*n + 2*starts[nc]
}

// jbig2SymbolDictSelfTest checks the harness's dictionary header writer and
// framing against the harness's segment walker and against a dictionary made
// by the library's own encoder: for the program "one class of height 3 with two
// symbols of width 3" the header bytes in front of the MQ data must be those of
// EncodeSymbolDictSegment for the same template (the only other writer of this
// header at hand), and the framed body must be walked back into its segments.
func jbig2SymbolDictSelfTest() string {
	for t := 0; t < 4; t++ {
		lib := jbig2.EncodeSymbolDictSegment(jbSymbols(), t)
		own := sdSegmentData(t, 2, 2, nil)
		if len(lib) < len(own) || string(lib[:len(own)]) != string(own) {
			return fmt.Sprintf("symbol dictionary header writer: SDTEMPLATE=%d: header % x differs from the encoder's % x", t, own, lib[:min(len(lib), len(own))])
		}
	}
	full, cut := sdSpaces(false)
	for _, sp := range []*sdSpace{full, cut} {
		for _, k := range []int{0, sp.programs() / 2, sp.programs() - 1} {
			p := sp.at(k)
			if len(p.steps) == 0 || len(p.steps) > sp.maxPrefix+1 || len(p.steps) != len(p.counts) {
				return "symbol dictionary program space: index decoding"
			}
			data := sdSegmentData(p.template, p.numNew, p.numNew, p.mqData())
			body := sdBody(data, true)
			segs, _ := jbig2Segments(body)
			if len(segs) != 2 || segs[0].typ != 48 || segs[1].typ != 0 || segs[1].end != len(body) || segs[1].end-segs[1].data != len(data) {
				return "symbol dictionary program: the segment walker does not find page information + dictionary in " + p.String()
			}
		}
	}
	// the last program of the full space repeats its last class most often: the data must be longer than with one repetition
	p := full.at(full.programs() - 1)
	long, n := len(p.mqData()), p.counts[len(p.counts)-1]
	p.counts[len(p.counts)-1] = 1
	if short := len(p.mqData()); short >= long {
		return fmt.Sprintf("symbol dictionary program: %d repetitions are coded in %d bytes, one in %d", n, long, short)
	}
	return ""
}
