//go:build verif

package c08

import (
	"fmt"
	"sync"

	"seehuhn.de/go/pdf"
)

// Chains of length 3.
//
// With two layers there is no "layer in the middle": an error path that
// releases only the newest layer, a decoder that slurps its whole input
// before it charges the budget, or a producer goroutine two layers below the
// one that stops are all invisible.  This family runs every sequence of three
// filters over the chain alphabet with
//
//	(a) bodies that are valid for 3, 2, 1 leading layers (so that the failure
//	    sits in layer 3 at construction, in layer 2 or 3 while reading, ...),
//	(b) bombs that were encoded once per amplifying layer, so that the LAST
//	    layer is the one that meets the expanded data,
//	(c) the parameter menu on the last layer's DecodeParms.

func chainDict(fs []chainFilter, lastParms pdf.Dict, override bool) pdf.Dict {
	fa, pa := pdf.Array{}, pdf.Array{}
	any := false
	for i, f := range fs {
		fa = append(fa, f.name)
		p := f.parms
		if override && i == len(fs)-1 {
			p = lastParms
		}
		if p != nil {
			pa = append(pa, p)
			any = true
		} else {
			pa = append(pa, nil)
		}
	}
	d := pdf.Dict{"Filter": fa}
	if any {
		d["DecodeParms"] = pa
	}
	return d
}

func (b *builder) chainEnc(cf chainFilter, data []byte) []byte {
	f := encoderFor(cf.short)
	if f == nil || data == nil {
		return nil
	}
	small := len(data) <= 1<<16
	key := cf.short + "|" + string(data)
	if small {
		if v, ok := b.encCache[key]; ok {
			return v
		}
	}
	out, err := encodeWith(f, data)
	if err != nil {
		out = nil
	}
	if small {
		if b.encCache == nil {
			b.encCache = map[string][]byte{}
		}
		b.encCache[key] = out
	}
	return out
}

func (b *builder) chainSeedBody(cf chainFilter) []byte {
	if cf.seed != "" {
		return b.byName[cf.seed].body
	}
	return b.chainEnc(cf, payload(12))
}

func chainName(fs []chainFilter) string {
	s := ""
	for i, f := range fs {
		if i > 0 {
			s += " "
		}
		s += f.short
	}
	return s
}

// amplifying layers: one encoded byte can stand for many decoded bytes
// (strong), or the layer is a lazy pass-through that only fails while it is
// being read (weak).
var (
	strongAmp = map[string]bool{"Fl": true, "LZW": true, "RL": true}
	lazyLayer = map[string]bool{"Fl": true, "LZW": true, "RL": true, "AHx": true, "A85": true}
)

const (
	bombCoreBig   = 64<<20 + 4096 // more than limits.MaxJBIG2PageBytes and than the budget of a small stream
	bombCoreSmall = 1 << 20
)

var (
	bomb3Mu    sync.Mutex
	bomb3Cache = map[string][]byte{}
)

// bomb3 returns enc_f1(enc_f2(core)) resp. enc_f1(enc_f2(enc_f3(core))),
// core = zeros; every intermediate result is cached (the expensive step, the
// innermost encoding of the zeros, is shared by all chains).
func (b *builder) bomb3(fs []chainFilter, through3 bool, core int) []byte {
	bomb3Mu.Lock()
	defer bomb3Mu.Unlock()
	var rec func(layers []chainFilter) []byte
	rec = func(layers []chainFilter) []byte {
		if len(layers) == 0 {
			return zeros(core)
		}
		key := fmt.Sprintf("%s|%d", chainName(layers), core)
		if v, ok := bomb3Cache[key]; ok {
			return v
		}
		v := b.chainEnc(layers[0], rec(layers[1:]))
		bomb3Cache[key] = v
		return v
	}
	if through3 {
		return rec(fs)
	}
	return rec(fs[:2])
}

func (b *builder) chain3Groups() {
	// (a) every sequence of length 3
	type chain struct {
		fs    []chainFilter
		body  []byte
		desc  string
		plain bool
	}
	var chains []chain
	for _, f1 := range chainFilters {
		for _, f2 := range chainFilters {
			for _, f3 := range chainFilters {
				fs := []chainFilter{f1, f2, f3}
				name := chainName(fs)
				if v := b.chainEnc(f1, b.chainEnc(f2, b.chainSeedBody(f3))); v != nil {
					chains = append(chains, chain{fs, v, name + " (valid nesting)", true})
				}
				if v := b.chainEnc(f1, b.chainSeedBody(f2)); v != nil {
					chains = append(chains, chain{fs, v, name + " (valid for two layers)", false})
				}
				chains = append(chains, chain{fs, b.chainSeedBody(f1), name + " (valid for the first layer only)", false})
			}
		}
	}
	b.t.dims["chain3_sequences"] = len(chainFilters) * len(chainFilters) * len(chainFilters)
	b.t.dims["chain3_bodies"] = len(chains)
	b.t.add("chain3", len(chains)*len(modes), func(k int) *xcase {
		c := chains[k/len(modes)]
		return &xcase{desc: "chain " + c.desc, via: "stream", mode: modes[k%len(modes)], dict: chainDict(c.fs, nil, false), body: c.body, plain: c.plain}
	})

	// (b) bombs: the first two layers are lazy / amplifying, the body was
	// encoded once per layer; with two strongly amplifying layers the core is
	// 64 MiB (more than any budget a body of a few hundred bytes unlocks),
	// with one it is 1 MiB, with none there is no bomb.
	type bomb struct {
		fs       []chainFilter
		through3 bool
		core     int
	}
	var bl []bomb
	for _, f1 := range chainFilters {
		for _, f2 := range chainFilters {
			if !lazyLayer[f1.short] || !lazyLayer[f2.short] {
				continue
			}
			core := 0
			switch {
			case strongAmp[f1.short] && strongAmp[f2.short]:
				core = bombCoreBig
			case strongAmp[f1.short] || strongAmp[f2.short]:
				core = bombCoreSmall
			default:
				continue
			}
			for _, f3 := range chainFilters {
				fs := []chainFilter{f1, f2, f3}
				bl = append(bl, bomb{fs, false, core})
				if strongAmp[f3.short] {
					bl = append(bl, bomb{fs, true, core})
				}
			}
		}
	}
	b.t.dims["chain3_bombs"] = len(bl)
	b.t.dims["chain3_bomb_cores"] = []int{bombCoreBig, bombCoreSmall}
	b.t.add("chain3-bomb", len(bl)*len(modes), func(k int) *xcase {
		c := bl[k/len(modes)]
		what := "the last layer meets the zeros"
		if c.through3 {
			what = "encoded for all three layers"
		}
		return &xcase{desc: fmt.Sprintf("chain %s: bomb, %d zero bytes, %s", chainName(c.fs), c.core, what), via: "stream", mode: modes[k%len(modes)],
			dict: chainDict(c.fs, nil, false), body: b.bomb3(c.fs, c.through3, c.core)}
	})

	// (c) the parameter menu on the last layer (body: the longest valid nesting)
	small := smallMenu()
	type pc struct {
		fs   []chainFilter
		body []byte
		keys []pdf.Name
	}
	var pl []pc
	nParam := 0
	for _, f1 := range chainFilters {
		for _, f2 := range chainFilters {
			if !b.thorough && !lazyLayer[f2.short] {
				continue // quick: the middle layer is a lazy one (it is the layer an error path can forget)
			}
			for _, f3 := range chainFilters {
				fs := []chainFilter{f1, f2, f3}
				body := b.chainEnc(f1, b.chainEnc(f2, b.chainSeedBody(f3)))
				if body == nil {
					body = b.chainEnc(f1, b.chainSeedBody(f2))
				}
				if body == nil {
					body = b.chainSeedBody(f1)
				}
				keys := filterKeys[f3.name]
				pl = append(pl, pc{fs, body, keys})
				nParam += len(keys) * len(small)
			}
		}
	}
	// flatten (chain, key, value)
	type pidx struct{ c, key int }
	var flat []pidx
	for ci, c := range pl {
		for ki := range c.keys {
			flat = append(flat, pidx{ci, ki})
		}
	}
	b.t.dims["chain3_param_cases"] = nParam
	b.t.add("chain3-param", len(flat)*len(small), func(k int) *xcase {
		pi, p := flat[k/len(small)], small[k%len(small)]
		c := pl[pi.c]
		key := c.keys[pi.key]
		base := c.fs[2].parms
		d := pdf.Dict{}
		if base != nil {
			d = cloneDict(base)
		}
		setParam(d, key, p)
		return &xcase{desc: fmt.Sprintf("chain %s: last layer /%s = %s", chainName(c.fs), key, p.label), via: "stream", mode: "drain",
			dict: chainDict(c.fs, d, true), body: c.body}
	})

	// thorough: every 3-chain body whose first two layers are lazy, reduced byte menu
	if b.thorough {
		n := 0
		for _, c := range chains {
			c := c
			if !lazyLayer[c.fs[0].short] || !lazyLayer[c.fs[1].short] {
				continue
			}
			muts := byteMuts(c.body, false, true)
			n += len(muts)
			b.t.add("chain3-mut", len(muts), func(k int) *xcase {
				m := muts[k]
				return &xcase{desc: "chain " + c.desc + ": " + m.String(), via: "stream", mode: "drain", dict: chainDict(c.fs, nil, false), body: apply(c.body, m)}
			})
		}
		b.t.dims["chain3_mutations"] = n
	}
}
