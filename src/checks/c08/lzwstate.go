//go:build verif

package c08

import (
	"fmt"
	"strings"

	"seehuhn.de/go/pdf"
	"seehuhn.de/go/pdf/zzverif/ref/codecs"
)

// LZW table-state bodies.
//
// The byte-mutation spaces only ever see code tables with a few dozen entries
// (the seeds are short, and the library's own encoder sends a clear-table code
// before the table is full).  This family is written with the harness's own
// code emitter, straight from ISO 32000-1 7.4.4.2: a clear-table code, then N
// "filler" codes that drive the decoder's table to a chosen size WITHOUT any
// further clear code, then every short tail over the codes that are special
// in that state.  N runs over a window around every code-width boundary (512,
// 1024, 2048 entries) and around the point where the 12-bit table is full,
// plus a body that stays in the full state for a while.

// lzwEmitter packs codes high-order bit first and follows the code width the
// way the standard prescribes it for a decoder: 9 bits after a clear-table
// code; code number k+1 after a clear-table code is written with the smallest
// width w in 9..12 such that 257+k+EarlyChange < 2^w.
type lzwEmitter struct {
	ec  int // the /EarlyChange parameter, 0 or 1
	out []byte
	acc uint64
	nb  uint
	k   int // codes since the last clear-table code
}

func (e *lzwEmitter) width() uint {
	n := 257 + e.k + e.ec
	switch {
	case n < 512:
		return 9
	case n < 1024:
		return 10
	case n < 2048:
		return 11
	}
	return 12
}

// top is the highest code a decoder can accept as the next code: the table
// entry that is being defined by it (the "KwKwK" code) while the table still
// grows, the last entry once the table is full.
func (e *lzwEmitter) top() int {
	return min(257+e.k, 4095-e.ec)
}

func (e *lzwEmitter) emit(code int) {
	w := e.width()
	e.acc = e.acc<<w | uint64(code)&(1<<w-1)
	e.nb += w
	for e.nb >= 8 {
		e.out = append(e.out, byte(e.acc>>(e.nb-8)))
		e.nb -= 8
	}
	if code == 256 {
		e.k = 0
	} else {
		e.k++
	}
}

func (e *lzwEmitter) finish() []byte {
	if e.nb > 0 {
		e.out = append(e.out, byte(e.acc<<(8-e.nb)))
		e.nb = 0
	}
	return e.out
}

// tail symbols, resolved against the emitter's state at the moment they are sent
const (
	symTop   = iota // the highest acceptable code
	symTop1         // the newest complete table entry
	symClear        // 256
	symEOD          // 257
	symLit          // the literal 0x42
	symTopUp        // one above the highest acceptable code (thorough tier)
)

var symNames = []string{"top", "top-1", "clear", "EOD", "lit", "top+1"}

func (e *lzwEmitter) sym(s int) {
	switch s {
	case symTop:
		e.emit(e.top())
	case symTop1:
		e.emit(e.top() - 1)
	case symClear:
		e.emit(256)
	case symEOD:
		e.emit(257)
	case symLit:
		e.emit(0x42)
	case symTopUp:
		e.emit(e.top() + 1)
	}
}

var lzwFillers = []string{"literal", "kwkwk", "ramp"}

// lzwStateBody is: clear-table code, n filler codes, the tail.  Fillers:
// "literal" repeats the literal 0x41 (every table entry is two bytes long),
// "kwkwk" sends one literal and then always the entry that is being defined
// (entry i is i-256 bytes long: the deepest prefix chains and the longest
// expansions a table can hold), "ramp" sends the literals 0, 1, 2, ...
func lzwStateBody(ec int, filler string, n int, tail []int) []byte {
	e := &lzwEmitter{ec: ec, out: make([]byte, 0, (n+len(tail)+2)*3/2+2)}
	e.emit(256)
	for i := 0; i < n; i++ {
		switch {
		case filler == "kwkwk" && i > 0:
			e.emit(e.top())
		case filler == "ramp":
			e.emit(i & 0xff)
		default:
			e.emit(0x41)
		}
	}
	for _, s := range tail {
		e.sym(s)
	}
	return e.finish()
}

// lzwFull is the number of codes after a clear-table code after which the
// 12-bit table is full (no width is left for a further entry).
func lzwFull(ec int) int { return 4096 - 257 - ec }

type lzwLevel struct {
	n    int
	name string
}

// lzwLevels lists the filler lengths: d codes around every point where the
// code width changes or the table becomes full, and bodies that stay full.
func lzwLevels(ec int, around int, beyond []int) []lzwLevel {
	var out []lzwLevel
	for _, b := range []int{512, 1024, 2048, 4096} {
		for d := -around; d <= around; d++ {
			what := fmt.Sprintf("width %d->%d", bitsFor(b)-1, bitsFor(b))
			if b == 4096 {
				what = "table full"
			}
			out = append(out, lzwLevel{b - 257 - ec + d, fmt.Sprintf("%s%+d", what, d)})
		}
	}
	for _, d := range beyond {
		out = append(out, lzwLevel{lzwFull(ec) + d, fmt.Sprintf("table full%+d", d)})
	}
	return out
}

func bitsFor(b int) int {
	n := 0
	for 1<<n < b {
		n++
	}
	return n + 1
}

// tailsUpTo enumerates every sequence of length 0..maxLen over nSym symbols;
// index -> sequence is a bijection (shorter sequences first).
func tailCount(nSym, maxLen int) int {
	n, p := 0, 1
	for l := 0; l <= maxLen; l++ {
		n += p
		p *= nSym
	}
	return n
}

func tailAt(nSym, idx int) []int {
	p := 1
	l := 0
	for idx >= p {
		idx -= p
		p *= nSym
		l++
	}
	t := make([]int, l)
	for i := l - 1; i >= 0; i-- {
		t[i] = idx % nSym
		idx /= nSym
	}
	return t
}

func tailString(t []int) string {
	s := make([]string, len(t))
	for i, v := range t {
		s[i] = symNames[v]
	}
	return "[" + strings.Join(s, " ") + "]"
}

// lzwStateGroups adds the table-state family.
func (b *builder) lzwStateGroups() {
	type cfg struct {
		filler  string
		nSym    int
		maxTail int
	}
	around, beyond := 2, []int{64}
	cfgs := []cfg{{"literal", 5, 4}, {"kwkwk", 5, 3}}
	if b.thorough {
		around, beyond = 4, []int{64, 1000}
		cfgs = []cfg{{"literal", 6, 5}, {"kwkwk", 6, 3}, {"ramp", 5, 4}}
	}
	var dimCfg []string
	total := 0
	for _, c := range cfgs {
		c := c
		nt := tailCount(c.nSym, c.maxTail)
		dimCfg = append(dimCfg, fmt.Sprintf("filler %s: every tail of length <= %d over %v = %d tails", c.filler, c.maxTail, symNames[:c.nSym], nt))
		for ec := 1; ec >= 0; ec-- {
			ec := ec
			levels := lzwLevels(ec, around, beyond)
			var parms pdf.Dict
			if ec == 0 {
				parms = pdf.Dict{"EarlyChange": pdf.Integer(0)}
			}
			n := len(levels) * nt
			total += n
			b.t.add("lzw-state", n, func(k int) *xcase {
				lv, tail := levels[k/nt], tailAt(c.nSym, k%nt)
				tag := "code-table-growing"
				if lv.n+len(tail) >= lzwFull(ec) {
					tag = "code-table-full"
				}
				return &xcase{
					desc: fmt.Sprintf("LZW table state: EarlyChange=%d, clear + %d x %s filler (%s) + tail %s", ec, lv.n, c.filler, lv.name, tailString(tail)),
					via:  "stream", mode: "drain", dict: streamDict("LZWDecode", parms),
					body: lzwStateBody(ec, c.filler, lv.n, tail), tag: tag,
				}
			})
		}
	}
	var lv []string
	for _, l := range lzwLevels(1, around, beyond) {
		lv = append(lv, l.name)
	}
	b.t.dims["lzw_state_levels"] = lv
	b.t.dims["lzw_state_levels_doc"] = "number of filler codes after the clear-table code = (boundary - 257 - EarlyChange) + d: the decoder's next free entry stands d codes from the boundary"
	b.t.dims["lzw_state_early_change"] = []int{1, 0}
	b.t.dims["lzw_state_fillers_and_tails"] = dimCfg
	b.t.dims["lzw_state_cases"] = total
}

// lzwEmitterSelfTest checks the emitter's width schedule against the
// reference decoder of ref/codecs (written from the standard, cross-checked
// there against x/image/tiff/lzw): a well-formed code stream written by the
// emitter must decode to the bytes the codes stand for, at every level.
func lzwEmitterSelfTest() string {
	if err := codecs.SelfTest(); err != nil {
		return "ref/codecs: " + err.Error()
	}
	for ec := 0; ec <= 1; ec++ {
		for _, lv := range lzwLevels(ec, 4, []int{64, 1000}) {
			for _, filler := range lzwFillers {
				if filler == "kwkwk" && lv.n > lzwFull(ec)-8 {
					// what a decoder does with the top code of a full table is not
					// prescribed (the reference and the library keep different entries)
					continue
				}
				body := lzwStateBody(ec, filler, lv.n, []int{symEOD})
				got, err := codecs.LZWDecode(body, ec == 1)
				if err != nil {
					return fmt.Sprintf("LZW emitter: EarlyChange=%d filler=%s n=%d: reference decoder: %v", ec, filler, lv.n, err)
				}
				want := lv.n
				if filler == "kwkwk" {
					want = lv.n * (lv.n + 1) / 2
				}
				ok := len(got) == want
				for i := 0; ok && i < len(got); i += 97 {
					switch filler {
					case "ramp":
						ok = got[i] == byte(i)
					default:
						ok = got[i] == 0x41
					}
				}
				if !ok {
					return fmt.Sprintf("LZW emitter: EarlyChange=%d filler=%s n=%d: reference decoder gives %d bytes, want %d", ec, filler, lv.n, len(got), want)
				}
			}
		}
	}
	return ""
}
