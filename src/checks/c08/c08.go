//go:build verif

// Package c08 decides C08: stream decoders are total and resource-bounded on
// hostile data.
//
// The case space (see cases.go) is a deviation-bounded neighbourhood of valid
// encodings: every seed with exactly one mutation at every position, every
// header field overwritten as a unit, every parameter key with every value of
// a type/magnitude menu (pairs for Flate/LZW/CCITT), bombs, and filter chains;
// plus (chain3.go, lzwstate.go) every chain of three filters with layered
// bodies / bombs / last-layer parameters, and LZW bodies that drive the code
// table to every width boundary and to the full state followed by every short tail;
// plus (jbig2prog.go) every short sequence of well-formed JBIG2 segments with
// every choice of the referred-to segments, every ordered pair of region /
// dictionary segments with every value of their coding-parameter bits;
// (dctprog.go) progressive JPEG frames followed by scan programs prefix . letter^n;
// (dctframe.go) JPEG frame headers with every assignment of sampling factors to
// 1..4 components; and (jbig2sd.go) symbol dictionaries whose MQ data codes a
// program of height classes and then ends.
// Every case is executed in a single-threaded worker process (engine/procs)
// because the oracles read process-global counters.
package c08

import (
	"encoding/json"
	"fmt"
	"os"
	"regexp"
	"runtime"
	"strconv"
	"strings"
	"time"

	"seehuhn.de/go/pdf"
	"seehuhn.de/go/pdf/internal/limits"
	"seehuhn.de/go/pdf/zzverif/engine/ev"
	"seehuhn.de/go/pdf/zzverif/engine/procs"
)

type failure struct{ fp, what string }

var reDigits = regexp.MustCompile(`[0-9]+`)

func msgClass(err error) string {
	s := strings.Map(func(r rune) rune {
		if r < 0x20 || r > 0x7e {
			return -1
		}
		return r
	}, err.Error())
	if i := strings.LastIndex(s, ": "); i >= 0 && len(s)-i-2 <= 3 {
		s = s[:i] // drop a trailing offending character
	}
	s = reDigits.ReplaceAllString(s, "N")
	if len(s) > 70 {
		s = s[:70]
	}
	return s
}

func chainClass(names []string) string {
	if len(names) == 0 {
		return "(none)"
	}
	short := map[string]string{"ASCII85Decode": "A85", "ASCIIHexDecode": "AHx", "RunLengthDecode": "RL", "FlateDecode": "Fl", "LZWDecode": "LZW",
		"CCITTFaxDecode": "CCF", "DCTDecode": "DCT", "JBIG2Decode": "JBIG2", "JPXDecode": "JPX", "Crypt": "Crypt"}
	var out []string
	for i, n := range names {
		s, ok := short[n]
		if !ok {
			s = "other"
		}
		if i > 0 && out[len(out)-1] == s+"*" {
			continue
		}
		if i > 0 && out[len(out)-1] == s {
			out[len(out)-1] = s + "*"
			continue
		}
		out = append(out, s)
	}
	return strings.Join(out, ">")
}

// intParam reads an integer parameter the way ISO 32000 defines it; ok=false
// if the entry is not an integer.
func intParam(d pdf.Dict, key pdf.Name) (int64, bool) {
	v, ok := d[key].(pdf.Integer)
	return int64(v), ok
}

// geometryCap returns the largest number of bytes the outermost filter may
// produce, or -1 if the format has no intrinsic dimensions.
func geometryCap(x *xcase, names []string) (int64, string) {
	if len(names) == 0 {
		return -1, ""
	}
	last := len(names) - 1
	switch names[last] {
	case "CCITTFaxDecode":
		p := parmsOf(x.dict, x.objs, last)
		cols, ok := intParam(p, "Columns")
		if !ok || cols < 1 || cols > 1<<20 {
			// not a usable width: any width the decoder may fall back to obeys
			// rows <= MaxImageHeight and pixels <= MaxImagePixels
			return limits.MaxImagePixels/8 + limits.MaxImageHeight, "CCITT, no usable /Columns: MaxImagePixels/8 + MaxImageHeight"
		}
		rows := int64(limits.MaxImageHeight)
		if r := int64(limits.MaxImagePixels) / cols; r < rows {
			rows = r
		}
		if rows < 1 {
			rows = 1
		}
		if r, ok := intParam(p, "Rows"); ok && r >= 1 && r < rows {
			rows = r
		}
		return (cols + 7) / 8 * rows, fmt.Sprintf("CCITT %d columns x %d rows", cols, rows)
	case "DCTDecode":
		if last == 0 {
			if w, h, nc, ok := jpegClaim(x.body); ok && nc >= 1 && nc <= 4 {
				return int64(w) * int64(h) * int64(nc), fmt.Sprintf("JPEG frame %dx%dx%d", w, h, nc)
			}
		}
		return limits.MaxImageBytes, "MaxImageBytes"
	case "JBIG2Decode":
		if last == 0 {
			if w, h, ok := jbig2Claim(x.body); ok {
				return (int64(w) + 7) / 8 * int64(h), fmt.Sprintf("JBIG2 page %dx%d", w, h)
			}
		}
		return limits.MaxImageBytes, "MaxImageBytes"
	}
	return -1, ""
}

// ccittGeometry returns (rows, bytes per row) of the CCITT geometry cap, or
// zeros if the outermost filter is not CCITT with a usable /Columns.
func ccittGeometry(x *xcase, names []string) (int64, int64) {
	if len(names) == 0 || names[len(names)-1] != "CCITTFaxDecode" {
		return 0, 0
	}
	p := parmsOf(x.dict, x.objs, len(names)-1)
	cols, ok := intParam(p, "Columns")
	if !ok || cols < 1 || cols > 1<<20 {
		return 0, 0
	}
	gc, _ := geometryCap(x, names)
	rb := (cols + 7) / 8
	return gc / rb, rb
}

func allocAllowance(x *xcase, produced int64) int64 {
	b := limits.StreamBudget(int64(len(x.body)))
	for _, o := range x.objs {
		if s, ok := o.(*pdf.Stream); ok {
			b += limits.StreamBudget(s.Length())
		}
	}
	return allocSlack + 2*b + 4*produced
}

// judge applies the oracle to one observation.
func judge(x *xcase, o *obs) []failure {
	var fs []failure
	names := filterNames(x.dict, x.objs)
	cc := chainClass(names)
	if o.panicVal != nil {
		fs = append(fs, failure{"panic:" + o.panicAt, fmt.Sprintf("panic %v at %s", o.panicVal, o.panicAt)})
		return fs
	}
	if o.err != nil && !pdf.IsMalformed(o.err) {
		mc := msgClass(o.err)
		if o.stage == "open" && x.via == "stream" && (strings.HasPrefix(mc, "wrong type, expected") || mc == "invalid /DecodeParms field") {
			// one mechanism: GetFilters reports type errors of /Filter and /DecodeParms with plain errors
			mc = "GetFilters-type-error"
		}
		fs = append(fs, failure{fmt.Sprintf("error-not-malformed:%s:%s", o.stage, mc),
			fmt.Sprintf("%s returned %T %q, which pdf.IsMalformed does not recognise (chain %s)", map[string]string{"open": "building the decoder", "read": "Read", "close": "Close"}[o.stage], o.err, o.err.Error(), cc)})
	}
	// The error returned by Close is not judged: the statement classifies the
	// result of "building the decoder and reading it to the end"; an earlier
	// version of this check also demanded IsMalformed of Close's error, which
	// is more than the property states (decoders hand out their sticky decode
	// error from Close unclassified, and the library ignores it).
	if o.stalled {
		fs = append(fs, failure{"read-no-progress:" + outer(names), "Read returned (0, nil) more than 1000 times in a row"})
	}
	// allocation: the cumulative figure is an upper bound of what was ever held;
	// only if it exceeds the allowance the case is re-run with the peak of the
	// live heap measured (runCase), and that figure decides
	if allow := allocAllowance(x, o.produced); int64(o.alloc) > allow && (!o.liveMeasured || int64(o.livePeak) > allow) {
		what := fmt.Sprintf("TotalAlloc grew by %d bytes", o.alloc)
		if o.liveMeasured {
			what += fmt.Sprintf(" and the live heap by %d bytes at its peak (%d collections at GOGC=10)", o.livePeak, o.liveCycles)
		}
		fs = append(fs, failure{"alloc-exceeds-budget:" + cc,
			fmt.Sprintf("%s; allowance 16 MiB + 2*StreamBudget(raw lengths) + 4*%d produced = %d (raw length %d)", what, o.produced, allow, len(x.body))})
	}
	if gc, why := geometryCap(x, names); gc >= 0 && o.produced > gc {
		kind := outer(names)
		if rows, rowBytes := ccittGeometry(x, names); rows > 0 && o.produced <= rows*(rowBytes+1) {
			// not more rows than allowed, but rows that are longer than ceil(Columns/8) bytes
			kind += ":row-longer-than-columns"
		}
		fs = append(fs, failure{"output-exceeds-geometry:" + kind,
			fmt.Sprintf("%d bytes produced (capped=%v), the geometry allows %d (%s)", o.produced, o.capped, gc, why)})
	}
	// work: a progressive frame whose scans were all accepted (the whole image was
	// produced without an error) has been walked once per scan; the statement
	// bounds the time by the input plus the produced output
	if v, ref, scans, allow, ok := dctWork(x, names, o); ok && v > allow {
		kind := "first-pass-scans"
		if 2*ref > v {
			kind = "refinement-scans"
		}
		fs = append(fs, failure{"work-exceeds-input-plus-output:DCT:progressive:" + kind,
			fmt.Sprintf("all %d scans of a progressive frame were accepted (%d bytes produced, no error); they demand %d block visits (%d by refinement scans), more than one per BIT of input plus output: 8*(%d raw + %d produced) = %d",
				scans, o.produced, v, ref, len(x.body), o.produced, allow)})
	}
	if o.leaked > 0 {
		fs = append(fs, failure{leakFingerprint(names, o.leakSig),
			fmt.Sprintf("%d goroutine(s) still there 3 s after Close (chain %s, mode %s): %s", o.leaked, cc, x.mode, o.leakSig)})
	}
	return fs
}

// dctWork returns, for a case whose only filter is DCT and whose body is a
// single progressive frame that was decoded to the end without an error, the
// block visits its scans demand (dctScanWork), the part of them in refinement
// scans, the number of scans, and the allowance: one block visit per bit of raw
// input plus produced output.
func dctWork(x *xcase, names []string, o *obs) (visits, refinement int64, scans int, allow int64, ok bool) {
	if len(names) != 1 || names[0] != "DCTDecode" || x.mode != "drain" || o.err != nil || o.capped || o.stalled || o.produced == 0 {
		return
	}
	visits, refinement, scans, ok = dctScanWorkByKind(x.body)
	if !ok {
		return
	}
	if w, h, nc, one := jpegClaim(x.body); !one || o.produced != int64(w)*int64(h)*int64(nc) {
		return 0, 0, 0, 0, false // not the whole image
	}
	return visits, refinement, scans, 8 * (int64(len(x.body)) + o.produced), true
}

func outer(names []string) string {
	if len(names) == 0 {
		return "(none)"
	}
	return chainClass(names[len(names)-1:])
}

// leakFingerprint names the defect class of a goroutine leak: which function
// started the goroutine, where it sits, and whether the filter that owns it is
// the outermost layer (the only one DecodeStream's reader closes) or an inner one.
func leakFingerprint(names []string, sig string) string {
	layer := "outermost"
	if strings.Contains(sig, "dct.Decode") {
		for i, n := range names {
			if n == "DCTDecode" && i < len(names)-1 {
				layer = "inner"
			}
		}
	} else if len(names) > 1 {
		layer = "chain"
	}
	sig = regexp.MustCompile(`\[[^\]]*\]`).ReplaceAllString(sig, "")
	return "goroutine-leak:" + layer + "-layer:" + sig
}

func outcomeOf(x *xcase, o *obs) string {
	switch {
	case o.panicVal != nil:
		return x.space + ":panic"
	case o.err != nil && pdf.IsMalformed(o.err):
		return x.space + ":malformed@" + o.stage + ":" + msgClass(o.err)
	case o.err != nil:
		return x.space + ":other-error@" + o.stage
	case o.capped:
		return x.space + ":ok-capped"
	case o.produced == 0:
		return x.space + ":ok-empty"
	}
	return x.space + ":ok"
}

// ---------------------------------------------------------------------------
// worker

type workerState struct {
	t  *table
	gt *gtracker
}

func (ws *workerState) runCase(x *xcase, confirm bool) (obs, []failure) {
	o := x.run()
	if o.panicVal != nil {
		ws.gt.settle()
		ws.gt.rebase()
		if confirm {
			o2 := x.run()
			ws.gt.settle()
			ws.gt.rebase()
			if o2.panicVal == nil {
				return o, []failure{{"flaky", fmt.Sprintf("panic %v at %s did not reproduce", o.panicVal, o.panicAt)}}
			}
		}
		return o, judge(x, &o)
	}
	o.leaked, o.leakSig = ws.gt.settle()
	if int64(o.alloc) > allocAllowance(x, o.produced) {
		o.livePeak, o.liveCycles = x.peakLive()
		o.liveMeasured = true
		ws.gt.settle()
		ws.gt.rebase()
	}
	return o, judge(x, &o)
}

// Worker is the sub-command "C08:worker".
func Worker(args []string) int {
	ws := &workerState{}
	return procs.Main(args, func(w *procs.W) {
		tier := "quick"
		if len(w.Args) > 0 {
			tier = w.Args[0]
		}
		t, err := buildTable(tier == "thorough")
		if err != nil {
			fmt.Fprintln(os.Stderr, "c08 worker: building the case table:", err)
			os.Exit(procs.ExitInit)
		}
		ws.t = t
		w.SetTotal(t.total)
		// warm up: run one case so that lazily initialised runtime / pool state
		// (zlib pools, regexp caches) is not charged to the first real case
		x := t.get(0)
		x.run()
		runtime.GC()
		ws.gt = newGTracker()
	}, func(w *procs.W, idx int) {
		x := ws.t.get(idx)
		t0 := time.Now()
		o, fails := ws.runCase(x, true)
		if d := time.Since(t0); d > time.Second { // information only (machine load shows here), never an oracle
			w.Count("cases_slower_than_1s", 1)
			if f := os.Getenv("C08_SLOWLOG"); f != "" { // development aid
				if fh, err := os.OpenFile(f, os.O_APPEND|os.O_CREATE|os.O_WRONLY, 0o644); err == nil {
					fmt.Fprintf(fh, "%d\t%v\t%s\n", idx, d, x.desc)
					fh.Close()
				}
			}
			if d > 5*time.Second {
				w.Count("cases_slower_than_5s", 1)
				w.Count("cases_slower_than_5s_"+x.space, 1)
			}
		}
		w.Eval(1)
		w.Count("cases_"+x.space, 1)
		w.Count("bytes_produced", o.produced)
		w.Outcome(outcomeOf(x, &o))
		if o.liveMeasured {
			w.Count("alloc_second_stage", 1)
			if int64(o.livePeak) <= allocAllowance(x, o.produced) {
				w.Outcome(x.space + ":alloc-cumulative-above-allowance-live-peak-within")
			}
		}
		if v, _, _, allow, ok := dctWork(x, filterNames(x.dict, x.objs), &o); ok {
			w.Count("dct_progressive_work_judged", 1) // whole image produced from a progressive frame
			if 8*v > allow {
				w.Count("dct_progressive_work_above_an_eighth_of_the_allowance", 1)
			}
		}
		if !x.plain {
			if len(x.body) <= 4096 {
				w.Distinct(procs.HashS(fmt.Sprintf("%s|%s|%s|%v|%x|%d", x.via, x.mode, x.space, x.dict, x.body, len(x.objs))) ^ objsHash(x))
			} else { // long generated bodies: no hex copy
				w.Distinct(procs.HashS(fmt.Sprintf("%s|%s|%s|%v|%d", x.via, x.mode, x.space, x.dict, len(x.objs))) ^ objsHash(x) ^ (procs.Hash(x.body) * 0x9e3779b97f4a7c15))
			}
		}
		if w.WantSample() && idx%997 == 3 && len(x.body) <= 4096 {
			w.Sample(x.toCase())
		}
		for _, f := range fails {
			if f.fp == "flaky" {
				w.Note(fmt.Sprintf("case %d (%s): %s", idx, x.desc, f.what))
				continue
			}
			w.Violation(f.fp, f.what+" — "+x.desc, x.toCase())
		}
	})
}

func objsHash(x *xcase) uint64 {
	var h uint64
	for ref, o := range x.objs {
		if s, ok := o.(*pdf.Stream); ok {
			data := make([]byte, s.Length())
			n, _ := s.NewReader().Read(data)
			h ^= procs.Hash(append([]byte(fmt.Sprint(ref)), data[:n]...))
		}
	}
	return h
}

// ---------------------------------------------------------------------------
// parent

func incidentFingerprint(in *procs.Incident, x *xcase) string {
	names := filterNames(x.dict, x.objs)
	switch in.Kind {
	case "hang":
		if x.tag != "" {
			return "hang:" + chainClass(names) + ":" + x.tag
		}
		return "hang:" + chainClass(names)
	case "oom":
		return "out-of-memory:" + chainClass(names)
	}
	// crash: the panic / fatal error site
	site := "unknown"
	lines := strings.Split(in.Stderr, "\n")
	for i, l := range lines {
		if strings.HasPrefix(l, "panic:") || strings.HasPrefix(l, "fatal error:") {
			site = strings.TrimSpace(l)
			if len(site) > 60 {
				site = site[:60]
			}
			site = reDigits.ReplaceAllString(site, "N")
			for _, m := range reFrame.FindAllStringSubmatch(strings.Join(lines[i:], "\n"), -1) {
				fn := m[1]
				if strings.HasPrefix(fn, "runtime.") || strings.HasPrefix(fn, "panic") {
					continue
				}
				site += " in " + shortFunc(fn)
				break
			}
			break
		}
	}
	return "crash:" + site
}

// Run is the check.
func Run(tier string) int {
	budget := 4 * time.Minute
	if tier == "thorough" {
		budget = 24 * time.Minute
	}
	if v, err := strconv.Atoi(os.Getenv("VERIF_BUDGET_S")); err == nil && v > 0 {
		budget = time.Duration(v) * time.Second // ev.New lifts its own deadline the same way; the workers' deadline below follows
	}
	r := ev.New("C08", tier, "exploration", budget)
	r.Rule("a case is (stream dictionary with /Filter and /DecodeParms, raw body, objects reachable through the Getter, entry point DecodeStream or MakeFilter+Decode, consumption mode drain/read one byte/close at once); " +
		"cases are enumerated as: every seed unmutated; every seed with exactly ONE mutation at every position (byte menu, truncation, insertion; header fields as units; width x height pairs); bombs; every parameter key x value menu (pairs for Flate/LZW/CCITT); " +
		"every /Filter x /DecodeParms shape; every filter sequence of length <= 2 and repeated filters of length 3, 8, 9, each with unmutated and single-mutation bodies; " +
		"every filter sequence of length 3 with bodies valid for 3 / 2 / 1 leading layers, with bombs encoded once per amplifying layer, and with the parameter menu on the last layer; " +
		"LZW table-state bodies written by the harness's own code emitter: clear-table code + N filler codes (N around every code-width boundary and around the full table, both EarlyChange values) + every short tail over {top code, top-1, clear, EOD, literal}. " +
		"JBIG2 segment programs written by the harness's own segment header writer: every sequence of length <= 3 (thorough <= 4) over an alphabet of well-formed segments (page information small/large, immediate and intermediate generic regions 8x8/64x64, immediate and intermediate generic refinement regions, symbol dictionary, immediate and intermediate text region, end of page), and length 4 (5) with a page information segment first, each with every choice of the referred-to segment (none, every segment of the program incl. itself and later ones, a missing one); " +
		"JBIG2 parameter programs: every ordered pair (thorough: also triples of the 8x8 letters behind a page) of region / dictionary segments over the alphabet generic region x {GBTEMPLATE 0..3 x TPGDON, EXTTEMPLATE x TPGDON, MMR}, refinement region x {GRTEMPLATE 0/1 x TPGRON}, symbol dictionary x SDTEMPLATE 0..3, text region, alone and behind each page information segment, with every referred-to choice. " +
		"DCT scan programs written by the harness's own JPEG writer: a progressive frame (gray 8x8, 256x256, 1024x1024; YCbCr 4:2:0 128x128) followed by prefix . letter^n over an alphabet of scan headers (DC first / refinement interleaved and on component 1, AC first / refinement on component 1 and 2 over the bands 1..63, 1..5, 6..63, 1..1 and two bit positions, with an end-of-band run table that covers the component exactly / one whose run of 16384 blocks carries over into the next scans / a coefficient table) x zero-filled entropy segments of 2 lengths, every prefix of length <= 1 (large frame: 0; thorough: <= 2 on the small gray frames, <= 1 on the others), every letter repeated n times, n in {1, 2, 3, 63..65, 127..129, 256, 1024, 4096} (thorough: +-1 around these multiples too). " +
		"DCT frame headers written by the harness's own JPEG writer: 1..4 components x EVERY assignment of sampling factors (H, V) in {1, 2}^2 to every component (thorough: {1, 2, 4}^2 up to 3 components) x SOF0 / SOF2 x image sizes x Adobe APP14 marker {absent, transform 0, 1, 2} x /ColorTransform {absent, 0, 1} x entropy-coded data for {nothing, the first MCU row, the whole image}. " +
		"JBIG2 symbol dictionary programs: a dictionary segment (own header writer, SDHUFF=0 SDREFAGG=0) whose MQ data codes the height classes prefix . letter^n over an alphabet of classes (empty class with height delta 0, 1, 2, 4, -1, 100; class with one symbol), every prefix of length <= 2, n in {1..6, 8, 16, 64, 256} (thorough: up to 1024), SDNUMNEWSYMS in {1, 2, 4}, with / without export run lengths, then the data ENDS; alone and behind a page information segment; and the MQ data of the short programs cut at every byte. " +
		"distinct = distinct (entry point, mode, dictionary, body, object) tuples that differ from an unmutated seed")
	r.Assume(
		"deviation bound 1: at most one mutation per case (two coupled fields for width x height claims, two keys for parameter pairs)",
		"allocation is measured as TotalAlloc growth of a GOMAXPROCS=1 process over the whole decode (cumulative, so an upper bound of live memory); allowance 16 MiB + 2*StreamBudget(raw lengths) + 4*bytes produced; "+
			"a case above the allowance is re-run with GOGC=10 and the peak growth of the live heap (/gc/heap/live:bytes after every collection, forced collections after construction and before Close) is compared with the same allowance: geometric buffer growth inside the budget allocates ~5x the buffer in total without ever holding it",
		"the harness stops reading after 64 MiB (272 MiB for CCITT/JBIG2/DCT as outermost filter); stopping there is not an error of the library",
		"geometry of a mutated JPEG / JBIG2 body is read by the harness's own marker / segment walker; when it does not find exactly one frame / page header only limits.MaxImageBytes is demanded",
		"work of a progressive JPEG is read from the body by the harness's own marker walker: a scan visits every block of its components once (T.81 A.2, G.1.2), so a body whose scans were ALL accepted (whole image produced, no error) cost at least the sum of these visits; demanded: visits <= 8 * (raw length + bytes produced), one block visit per bit of input plus output (the unchanged decoder stops after 64 passes = one visit per produced byte). No clock is read",
		"hang = one case running longer than 20 s in a worker, reproduced 5x in isolated processes; crash/OOM (ulimit -v 6 GiB) likewise",
	)

	t, err := buildTable(tier == "thorough")
	if err != nil {
		r.Infra("building the case table: " + err.Error())
		return r.Finish()
	}
	for k, v := range t.dims {
		r.Dim(k, v)
	}
	var gsz []string
	agg := map[string]int{}
	var order []string
	for _, g := range t.groups {
		if _, ok := agg[g.name]; !ok {
			order = append(order, g.name)
		}
		agg[g.name] += g.n
	}
	for _, n := range order {
		gsz = append(gsz, fmt.Sprintf("%s=%d", n, agg[n]))
	}
	r.Dim("space_sizes", gsz)
	r.Dim("cases_total", t.total)
	fmt.Printf("[C08 %s] %d cases: %s\n", tier, t.total, strings.Join(gsz, " "))

	// self-test of the harness's own parsers against the unmutated seeds
	if msg := selfTest(t); msg != "" {
		r.Infra("self-test: " + msg)
		return r.Finish()
	}

	// known findings are run explicitly (in this process, before any worker exists)
	if kw := r.KnownWitnesses(); len(kw) > 0 {
		prev := runtime.GOMAXPROCS(1)
		ws := &workerState{gt: newGTracker()}
		for _, k := range kw {
			var c Case
			if json.Unmarshal(k.Witness, &c) != nil {
				continue
			}
			if x, err := c.toX(); err == nil {
				ws.gt.rebase()
				o, fails := ws.runCase(x, false)
				r.Eval(1)
				r.Outcome("known-witness:" + outcomeOf(x, &o))
				for _, f := range fails {
					r.Violation(f.fp, f.what+" — "+x.desc, c)
				}
			}
		}
		runtime.GOMAXPROCS(prev)
	}

	if only := os.Getenv("C08_ONLY"); only != "" {
		r.Capped("C08_ONLY=" + only + ": only the named spaces are in the table")
	}
	deadline := time.Now().Add(budget - 20*time.Second)
	cfg := procs.Config{ID: "C08", Total: t.total, Args: []string{tier}, Deadline: deadline, Dir: r.Dir + "/.build/procs-C08-" + tier,
		Log: func(f string, a ...any) { fmt.Printf("[C08] "+f+"\n", a...) }}
	if d := os.Getenv("VERIF_EVIDENCE_DIR"); d != "" {
		cfg.Dir += "-mut"
	}
	res, err := procs.Run(cfg)
	if res != nil {
		res.MergeInto(r)
		r.Dim("worker_processes", res.Segments)
		r.Dim("cases_executed", res.Cases)
		for _, in := range res.Incidents {
			x := t.get(in.Index)
			if in.Reproduced == in.Attempts {
				r.Violation(incidentFingerprint(in, x), in.Describe()+" — "+x.desc, x.toCase())
			} else {
				r.Flaky(fmt.Sprintf("case %d (%s): %s", in.Index, x.desc, in.Describe()))
			}
		}
		if res.Complete && int(res.Cases)+len(res.Incidents) < t.total {
			// e.g. the worker binary was replaced by an older build while the run started
			r.Infra(fmt.Sprintf("the workers executed %d of %d cases although no worker reported a problem (stale worker binary?)", res.Cases, t.total))
		}
		if !res.Complete {
			if res.Expired {
				r.Expired()
				r.Capped("internal deadline reached before all cases were executed")
			} else {
				r.Capped("too many worker incidents")
			}
		}
	}
	if err != nil {
		r.Infra(err.Error())
	}
	return r.Finish()
}

func selfTest(t *table) string {
	seeds, err := buildSeeds()
	if err != nil {
		return err.Error()
	}
	for _, s := range seeds {
		switch s.filter {
		case "DCTDecode":
			w, h, nc, ok := jpegClaim(s.body)
			if !ok || w <= 0 || h <= 0 || nc < 1 || nc > 4 {
				return fmt.Sprintf("JPEG walker finds no single frame header in seed %s", s.name)
			}
		case "JBIG2Decode":
			segs, _ := jbig2Segments(s.body)
			if len(segs) < 2 || segs[len(segs)-1].end != len(s.body) {
				return fmt.Sprintf("JBIG2 walker does not consume seed %s", s.name)
			}
			if _, _, ok := jbig2Claim(s.body); !ok && s.name != "jbig2-striped" {
				return fmt.Sprintf("JBIG2 walker finds no page information in seed %s", s.name)
			}
		}
	}
	if msg := lzwEmitterSelfTest(); msg != "" {
		return msg
	}
	if msg := jbig2ProgramSelfTest(); msg != "" {
		return msg
	}
	if msg := dctProgramSelfTest(); msg != "" {
		return msg
	}
	if msg := dctFrameSelfTest(); msg != "" {
		return msg
	}
	if msg := jbig2SymbolDictSelfTest(); msg != "" {
		return msg
	}
	// the case <-> JSON round trip must preserve the case
	for _, idx := range []int{0, t.total / 3, t.total / 2, t.total - 1} {
		x := t.get(idx)
		data, _ := json.Marshal(x.toCase())
		var c Case
		if err := json.Unmarshal(data, &c); err != nil {
			return err.Error()
		}
		y, err := c.toX()
		if err != nil {
			return err.Error()
		}
		if fmt.Sprint(y.dict) != fmt.Sprint(x.dict) || string(y.body) != string(x.body) || len(y.objs) != len(x.objs) {
			return fmt.Sprintf("case %d does not survive the JSON round trip", idx)
		}
	}
	return ""
}

// Replay re-executes the case of a replay file (in this process).
func Replay(path string) int {
	runtime.GOMAXPROCS(1)
	r := ev.New("C08", "replay", "exploration", time.Minute)
	r.SetReplayMode()
	var c Case
	if err := ev.ReplayCase(path, &c); err != nil {
		fmt.Fprintln(os.Stderr, "replay:", err)
		return 2
	}
	x, err := c.toX()
	if err != nil {
		fmt.Fprintln(os.Stderr, "replay:", err)
		return 2
	}
	ws := &workerState{gt: newGTracker()}
	go func() { // hang watchdog
		time.Sleep(20 * time.Second)
		fmt.Printf("  hang: the case is still running after 20 s — %s\nVIOLATION property=C08 replay=%s\n", x.desc, path)
		os.Exit(1)
	}()
	time.Sleep(time.Millisecond)
	ws.gt.rebase()
	o, fails := ws.runCase(x, false)
	r.Eval(1)
	r.Outcome(outcomeOf(x, &o))
	fmt.Printf("replay: %s\n  produced=%d alloc=%d err=%v closeErr=%v leaked=%d %s\n", x.desc, o.produced, o.alloc, o.err, o.closeErr, o.leaked, o.leakSig)
	if o.liveMeasured {
		fmt.Printf("  second stage: live heap peak +%d bytes (%d collections), allowance %d\n", o.livePeak, o.liveCycles, allocAllowance(x, o.produced))
	}
	for _, f := range fails {
		r.Violation(f.fp, f.what+" — "+x.desc, c)
	}
	return r.Finish()
}
