//go:build verif

package c08

import (
	"fmt"
	"strings"

	"seehuhn.de/go/pdf"
)

// DCT frame-header programs.
//
// The header-claim space overwrites ONE field of the frame header of a file
// that image/jpeg (or a fixture) produced: component counts 1, 3 (4 in one
// fixture) with the sampling factors these encoders choose.  A frame whose
// components carry a chosen COMBINATION of sampling factors - the product the
// decoder's geometry code (MCU size, plane sizes, the emit functions of each
// colour model) has to agree on - was never inside the space.  This family
// writes the file in the harness:
//
//	SOI, [APP14 "Adobe" with transform 0 / 1 / 2], DQT, SOFn, DHT, one
//	interleaved SOS over all components, entropy-coded data, EOI
//
// for every number of components 1..4 x EVERY assignment of sampling factors
// (H, V) in {1, 2}^2 to every component (thorough: {1, 2, 4}^2 for up to 3
// components) x frame type SOF0 (baseline; scan 0..63) / SOF2 (progressive;
// first DC scan) x image size menu x Adobe marker {absent, 0, 1, 2} x
// /ColorTransform {absent, 0, 1} x entropy-coded data for {nothing, the first
// MCU row, the whole image}.  The Huffman tables give the all-zero bit string
// a meaning (DC difference category 0; AC end-of-block), so the entropy-coded
// data is a run of zero bytes of the length the MCU geometry of T.81 A.2 asks for.
//
// Written from ITU-T T.81 (B.2 marker segments, A.2 MCU geometry) and the
// Adobe technical note 5116 (APP14); shares nothing with the decoder.

type dfCase struct {
	sof   byte      // 0xc0 or 0xc2
	w, h  int       // image size
	comps []dctComp // sampling factors
	adobe int       // -1: no APP14 segment, else the transform byte
	ct    int       // -1: no /ColorTransform, else its value
	ecs   int       // 0: no entropy-coded data, 1: first MCU row, 2: whole image
}

// dfHVs lists every assignment of sampling factors from the menu to n components.
func dfHVs(n int, menu []int) [][]dctComp {
	out := [][]dctComp{nil}
	for i := 0; i < n; i++ {
		var next [][]dctComp
		for _, p := range out {
			for _, h := range menu {
				for _, v := range menu {
					q := append(append([]dctComp(nil), p...), dctComp{h, v})
					next = append(next, q)
				}
			}
		}
		out = next
	}
	return out
}

// ecsBytes returns the number of zero bytes that hold the entropy-coded data
// of `rows` MCU rows (all rows if rows < 0) of one interleaved scan over all
// components, at `bits` bits per block (A.2.2 / A.2.3: a single-component scan
// is not interleaved, its MCU is one block of the component's own grid).
func (c *dfCase) ecsBytes(rows int, bits int) int {
	f := &dctFrame{w: c.w, h: c.h, comps: c.comps}
	var perRow, nRows int64
	if len(c.comps) == 1 {
		// blocks of the component's own sample grid
		total := f.blocks(0, false)
		nRows = int64((c.h + 7) / 8)
		perRow = total / nRows
	} else {
		mx, my := f.mcus()
		var perMCU int64
		for _, k := range c.comps {
			perMCU += int64(k.h * k.v)
		}
		perRow, nRows = int64(mx)*perMCU, int64(my)
	}
	if rows >= 0 && int64(rows) < nRows {
		nRows = int64(rows)
	}
	return int((perRow*nRows*int64(bits) + 7) / 8)
}

func (c *dfCase) body() []byte {
	var b []byte
	seg := func(marker byte, data []byte) {
		b = append(b, 0xff, marker, byte((len(data)+2)>>8), byte(len(data)+2))
		b = append(b, data...)
	}
	b = append(b, 0xff, 0xd8)
	if c.adobe >= 0 {
		// "Adobe", version 100, flags0, flags1, transform
		seg(0xee, []byte{'A', 'd', 'o', 'b', 'e', 0, 100, 0, 0, 0, 0, byte(c.adobe)})
	}
	dqt := make([]byte, 65) // Pq=0 Tq=0, all ones
	for i := 1; i < 65; i++ {
		dqt[i] = 1
	}
	seg(0xdb, dqt)
	sof := []byte{8, byte(c.h >> 8), byte(c.h), byte(c.w >> 8), byte(c.w), byte(len(c.comps))}
	for i, k := range c.comps {
		sof = append(sof, byte(i+1), byte(k.h<<4|k.v), 0)
	}
	seg(c.sof, sof)
	// DC table 0 and AC table 0: one code of length 1, "0" -> symbol 0
	var dht []byte
	for _, tcth := range []byte{0x00, 0x10} {
		t := make([]byte, 17)
		t[0], t[1] = tcth, 1
		dht = append(dht, append(t, 0x00)...)
	}
	seg(0xc4, dht)
	sos := []byte{byte(len(c.comps))}
	for i := range c.comps {
		sos = append(sos, byte(i+1), 0x00)
	}
	bits := 2 // DC difference category 0 + end of block
	if c.sof == 0xc2 {
		sos = append(sos, 0, 0, 0) // first DC scan, Al = 0
		bits = 1
	} else {
		sos = append(sos, 0, 63, 0)
	}
	seg(0xda, sos)
	switch c.ecs {
	case 1:
		b = append(b, make([]byte, c.ecsBytes(1, bits))...)
	case 2:
		b = append(b, make([]byte, c.ecsBytes(-1, bits))...)
	}
	return append(b, 0xff, 0xd9)
}

func (c *dfCase) String() string {
	var hv []string
	for _, k := range c.comps {
		hv = append(hv, fmt.Sprintf("%dx%d", k.h, k.v))
	}
	ad, ct := "no Adobe marker", "no /ColorTransform"
	if c.adobe >= 0 {
		ad = fmt.Sprintf("Adobe transform %d", c.adobe)
	}
	if c.ct >= 0 {
		ct = fmt.Sprintf("/ColorTransform %d", c.ct)
	}
	ecs := []string{"no entropy-coded data", "entropy-coded data for the first MCU row", "entropy-coded data for the whole image"}[c.ecs]
	return fmt.Sprintf("SOF%d %dx%d, %d component(s) with sampling factors [%s], %s, %s, %s", c.sof&15, c.w, c.h, len(c.comps), strings.Join(hv, " "), ad, ct, ecs)
}

type dfSpace struct {
	hvs    [][]dctComp
	sizes  [][2]int
	sofs   []byte
	adobes []int
	cts    []int
}

func dfSpaceOf(thorough bool) *dfSpace {
	s := &dfSpace{sofs: []byte{0xc0, 0xc2}, adobes: []int{-1, 0, 1, 2}, cts: []int{-1, 0, 1}, sizes: [][2]int{{16, 16}, {33, 17}}}
	for n := 1; n <= 4; n++ {
		menu := []int{1, 2}
		if thorough && n <= 3 {
			menu = []int{1, 2, 4}
		}
		s.hvs = append(s.hvs, dfHVs(n, menu)...)
	}
	if thorough {
		s.sizes = [][2]int{{8, 8}, {16, 16}, {33, 17}, {64, 64}}
	}
	return s
}

func (s *dfSpace) size() int {
	return len(s.hvs) * len(s.sizes) * len(s.sofs) * len(s.adobes) * len(s.cts) * 3
}

func (s *dfSpace) at(k int) *dfCase {
	c := &dfCase{}
	c.ecs = k % 3
	k /= 3
	c.ct = s.cts[k%len(s.cts)]
	k /= len(s.cts)
	c.adobe = s.adobes[k%len(s.adobes)]
	k /= len(s.adobes)
	c.sof = s.sofs[k%len(s.sofs)]
	k /= len(s.sofs)
	sz := s.sizes[k%len(s.sizes)]
	c.w, c.h = sz[0], sz[1]
	k /= len(s.sizes)
	c.comps = s.hvs[k]
	return c
}

func (b *builder) dctFrameGroups() {
	s := dfSpaceOf(b.thorough)
	b.t.add("dct-frame", s.size(), func(k int) *xcase {
		c := s.at(k)
		var parms pdf.Dict
		if c.ct >= 0 {
			parms = pdf.Dict{"ColorTransform": pdf.Integer(c.ct)}
		}
		return &xcase{
			desc: "DCT frame header " + c.String(),
			via:  "stream", mode: "drain", dict: streamDict("DCTDecode", parms),
			body: c.body(), tag: "frame-header",
		}
	})
	var sz []string
	for _, z := range s.sizes {
		sz = append(sz, fmt.Sprintf("%dx%d", z[0], z[1]))
	}
	perN := map[int]int{}
	for _, hv := range s.hvs {
		perN[len(hv)]++
	}
	b.t.dims["dct_frame_sampling_factor_assignments"] = fmt.Sprintf("every (H, V) per component: 1 component %d, 2 components %d, 3 components %d, 4 components %d = %d", perN[1], perN[2], perN[3], perN[4], len(s.hvs))
	b.t.dims["dct_frame_sizes"] = sz
	b.t.dims["dct_frame_types"] = []string{"SOF0 baseline, one interleaved scan 0..63", "SOF2 progressive, one interleaved first DC scan"}
	b.t.dims["dct_frame_adobe_marker"] = []string{"absent", "transform 0", "transform 1", "transform 2"}
	b.t.dims["dct_frame_color_transform_parameter"] = []string{"absent", "0", "1"}
	b.t.dims["dct_frame_entropy_coded_data"] = []string{"none", "first MCU row", "whole image"}
	b.t.dims["dct_frame_cases"] = s.size()
}

// dctFrameSelfTest: a written frame must be walked back by the harness's
// frame walker (fields.go) into the same size and component count, the
// progressive ones by the scan walker (dctprog.go) into one scan over the
// blocks the entropy-coded data was sized for; and the data length against
// hand-computed values of T.81 A.2.
func dctFrameSelfTest() string {
	s := dfSpaceOf(false)
	for _, k := range []int{0, s.size() / 3, s.size() / 2, s.size() - 1, s.size() - 2} {
		c := s.at(k)
		body := c.body()
		w, h, nc, ok := jpegClaim(body)
		if !ok || w != c.w || h != c.h || nc != len(c.comps) {
			return fmt.Sprintf("DCT frame writer: %s is walked as %dx%dx%d ok=%v", c, w, h, nc, ok)
		}
		if c.sof == 0xc2 {
			v, n, ok := dctScanWork(body)
			if !ok || n != 1 || (v+7)/8 != int64(c.ecsBytes(-1, 1)) {
				return fmt.Sprintf("DCT frame writer: %s: the scan walker finds %d scans / %d block visits (ok=%v), the data is sized for %d bytes", c, n, v, ok, c.ecsBytes(-1, 1))
			}
		}
	}
	// 33x17, 4 components [2x2 1x1 1x1 2x2]: MCU 16x16 -> 3 x 2 MCUs of 4+1+1+4 = 10 blocks
	c := &dfCase{w: 33, h: 17, comps: []dctComp{{2, 2}, {1, 1}, {1, 1}, {2, 2}}}
	if c.ecsBytes(1, 2) != 8 || c.ecsBytes(-1, 2) != 15 {
		return "DCT frame writer: 33x17 [2x2 1x1 1x1 2x2] needs 8 bytes for the first MCU row and 15 for the image at 2 bits per block"
	}
	// one component: 5 x 3 blocks whatever the sampling factors say
	c = &dfCase{w: 33, h: 17, comps: []dctComp{{2, 1}}}
	if c.ecsBytes(1, 2) != 2 || c.ecsBytes(-1, 2) != 4 {
		return "DCT frame writer: 33x17 with one component needs 2 bytes for the first block row and 4 for the image at 2 bits per block"
	}
	return ""
}
