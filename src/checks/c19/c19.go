//go:build verif

// Package c19 decides C19: I/O failures surface as I/O failures.  It is a
// fault enumeration: a scenario is run fault-free while counting the calls
// made to the byte source (ReadAt) or sink (Write, Seek); then it is re-run
// once for EVERY call index k and every fault mode, and every API call of the
// scenario must either return what it returns without the fault or an error
// that carries the injected error and is not classified as malformed input.
package c19

import (
	"bytes"
	"compress/zlib"
	crand "crypto/rand"
	"errors"
	"fmt"
	"io"
	"os"
	"sort"
	"strings"
	"sync"
	"sync/atomic"
	"time"

	"seehuhn.de/go/pdf"
	"seehuhn.de/go/pdf/zzverif/checks/hx"
	"seehuhn.de/go/pdf/zzverif/checks/wprog"
	"seehuhn.de/go/pdf/zzverif/engine/ev"
	"seehuhn.de/go/pdf/zzverif/engine/explore"
	"seehuhn.de/go/pdf/zzverif/ref/pdffile"
	"seehuhn.de/go/pdf/zzverif/ref/pdfsyn"
)

// ---------------------------------------------------------------------------
// documents

type docSpec struct {
	// Hand selects a document written by the independent serialiser
	// (ref/pdffile) instead of the library's Writer: "indirect-parms" (a
	// Flate + PNG-Up stream whose /Length, /Filter and /DecodeParms are all
	// indirect objects), "no-length-crlf" (a stream without /Length whose data
	// ends in CR and is followed by CR LF), "wrong-length" (/Length 7 too large).
	Hand string `json:"hand,omitempty"`
	// RawEnd, if not 0, asks for a content stream whose stored (possibly
	// encrypted) bytes end in this byte: CR or LF at the end of the raw data is
	// what makes a wrong guess about the stream's extent lose a byte.
	RawEnd byte        `json:"raw_end,omitempty"`
	Big    bool        `json:"big,omitempty"` // 150 extra objects and two objects larger than the scanner's 1 KiB buffer
	Name   string      `json:"name"`
	V      pdf.Version `json:"version"`
	Human  bool        `json:"human"`
	Filter int         `json:"filter"` // 0 none, 1 Flate+Up, 2 ASCII85 over Flate, 3 LZW
	User   string      `json:"user"`
}

type document struct {
	spec    docSpec
	data    []byte
	refs    []pdf.Reference // every reference to fetch
	streams []pdf.Reference
}

func filtersOf(i int) []pdf.Filter {
	switch i {
	case 1:
		return []pdf.Filter{pdf.FilterFlate{Predictor: pdf.FlatePredictorPNGUp, Columns: 16}}
	case 2:
		return []pdf.Filter{pdf.FilterASCII85{}, pdf.FilterFlate{}}
	case 3:
		return []pdf.Filter{pdf.FilterLZW{}}
	}
	return nil
}

func noise(n int, seed uint32) []byte {
	b := make([]byte, n)
	x := seed
	for i := range b {
		x = x*1664525 + 1013904223
		b[i] = byte(x >> 24)
	}
	return b
}

// detRand is a deterministic replacement for crypto/rand.Reader while the
// documents are built, so that encrypted documents (random IVs and salts) are
// the same in every run and a replay sees the same bytes.
type detRand struct{ x uint64 }

func (d *detRand) Read(p []byte) (int, error) {
	for i := range p {
		d.x = d.x*6364136223846793005 + 1442695040888963407
		p[i] = byte(d.x >> 56)
	}
	return len(p), nil
}

var buildMu sync.Mutex

func deflateBytes(b []byte) []byte {
	var buf bytes.Buffer
	zw := zlib.NewWriter(&buf)
	zw.Write(b)
	zw.Close()
	return buf.Bytes()
}

// buildHandDoc writes a document with ref/pdffile's serialiser.
func buildHandDoc(spec docSpec) (*document, error) {
	iv := func(v pdfsyn.Value) *pdfsyn.Value { return &v }
	rows := 20
	plain := noise(rows*8, 5)
	// PNG "Up" rows (tag 2), 8 columns
	var filtered []byte
	prev := make([]byte, 8)
	for r := 0; r < rows; r++ {
		row := plain[r*8 : (r+1)*8]
		filtered = append(filtered, 2)
		for i := range row {
			filtered = append(filtered, row[i]-prev[i])
		}
		prev = row
	}
	objs := []pdffile.ObjDef{
		{Num: 1, Val: pdfsyn.DictV("Type", pdfsyn.NameV("Catalog"), "Pages", pdfsyn.RefV(2, 0))},
		{Num: 2, Val: pdfsyn.DictV("Type", pdfsyn.NameV("Pages"), "Kids", pdfsyn.ArrV(pdfsyn.RefV(3, 0)), "Count", pdfsyn.IntV(1))},
		{Num: 3, Val: pdfsyn.DictV("Type", pdfsyn.NameV("Page"), "Parent", pdfsyn.RefV(2, 0), "Contents", pdfsyn.RefV(4, 0))},
	}
	k := pdffile.Knobs{Version: "1.7"}
	switch spec.Hand {
	case "indirect-parms":
		raw := deflateBytes(filtered)
		objs = append(objs,
			pdffile.ObjDef{Num: 4, Val: pdfsyn.DictV("Note", pdfsyn.StrV("stream dictionary string"), "Filter", pdfsyn.RefV(6, 0), "DecodeParms", pdfsyn.RefV(7, 0)), Stream: raw, LengthOverride: iv(pdfsyn.RefV(5, 0))},
			pdffile.ObjDef{Num: 5, Val: pdfsyn.IntV(int64(len(raw)))},
			pdffile.ObjDef{Num: 6, Val: pdfsyn.NameV("FlateDecode")},
			pdffile.ObjDef{Num: 7, Val: pdfsyn.DictV("Predictor", pdfsyn.IntV(12), "Columns", pdfsyn.IntV(8))})
	case "no-length-crlf":
		k.EOL = 1
		objs = append(objs, pdffile.ObjDef{Num: 4, Val: pdfsyn.DictV("Note", pdfsyn.StrV("stream dictionary string")), Stream: []byte("hello world, this data ends in a carriage return\r"), NoLength: true})
	case "wrong-length":
		data := []byte("data of a stream whose declared length is seven bytes too large\n")
		objs = append(objs, pdffile.ObjDef{Num: 4, Val: pdfsyn.DictV("Note", pdfsyn.StrV("stream dictionary string")), Stream: data, LengthOverride: iv(pdfsyn.IntV(int64(len(data) + 7)))})
	case "hybrid", "two-tables", "indirect-id":
		objs = append(objs, pdffile.ObjDef{Num: 4, Val: pdfsyn.DictV("Note", pdfsyn.StrV("stream dictionary string")), Stream: []byte("BT (content) Tj ET\n")})
	default:
		return nil, fmt.Errorf("unknown hand-built document %q", spec.Hand)
	}
	objs = append(objs, pdffile.ObjDef{Num: 8, Val: pdfsyn.StrV("the object after the stream")})
	rev := pdffile.Revision{Kind: "table", Objs: objs, Trailer: []pdfsyn.Entry{{Key: []byte("Root"), Val: pdfsyn.RefV(1, 0)}}}
	revs := []pdffile.Revision{rev}
	switch spec.Hand {
	case "indirect-id":
		// the trailer's /ID is an indirect reference: opening the file has to fetch one more object
		revs[0].Objs = append(revs[0].Objs, pdffile.ObjDef{Num: 9, Val: pdfsyn.ArrV(pdfsyn.StrV("0123456789abcdef"), pdfsyn.StrV("fedcba9876543210"))})
		revs[0].Trailer = append(revs[0].Trailer, pdfsyn.Entry{Key: []byte("ID"), Val: pdfsyn.RefV(9, 0)})
	case "hybrid":
		// a hybrid-reference file: the objects in the object stream are listed only in the
		// cross-reference stream that /XRefStm points to
		revs[0].Kind = "hybrid"
		k.ObjStm = true
	case "two-tables":
		// an incremental update with a classic table: the newest trailer names a new Info dictionary
		revs[0].Objs = append(revs[0].Objs, pdffile.ObjDef{Num: 9, Val: pdfsyn.DictV("Title", pdfsyn.StrV("old title"))})
		revs[0].Trailer = append(revs[0].Trailer, pdfsyn.Entry{Key: []byte("Info"), Val: pdfsyn.RefV(9, 0)})
		revs = append(revs, pdffile.Revision{Kind: "table",
			Objs:    []pdffile.ObjDef{{Num: 10, Val: pdfsyn.DictV("Title", pdfsyn.StrV("new title"))}, {Num: 8, Val: pdfsyn.StrV("the object after the stream, second edition")}},
			Trailer: []pdfsyn.Entry{{Key: []byte("Root"), Val: pdfsyn.RefV(1, 0)}, {Key: []byte("Info"), Val: pdfsyn.RefV(10, 0)}}})
	}
	d := &document{spec: spec, data: pdffile.Write(revs, k)}
	for _, n := range []uint32{2, 3, 4, 8} {
		d.refs = append(d.refs, pdf.NewReference(n, 0))
	}
	d.streams = []pdf.Reference{pdf.NewReference(4, 0)}
	return d, nil
}

func buildDoc(spec docSpec) (*document, error) {
	if spec.Hand != "" {
		return buildHandDoc(spec)
	}
	if spec.RawEnd == 0 {
		return buildDocSeed(spec, 0)
	}
	// search the deterministic seeds for a document whose raw content stream ends in RawEnd
	for try := uint64(1); try < 20000; try++ {
		d, err := buildDocSeed(spec, try)
		if err != nil {
			return nil, err
		}
		ropt := pdffile.Options{}
		if spec.User != "" {
			ropt.Password = &spec.User
		}
		f, perr := pdffile.Read(d.data, ropt)
		if perr != nil {
			return nil, perr
		}
		o := f.Objects[int(d.streams[0].Number())]
		if o != nil && o.IsStream && len(o.Raw) > 0 && o.Raw[len(o.Raw)-1] == spec.RawEnd {
			return d, nil
		}
	}
	return nil, fmt.Errorf("no seed gives a raw stream ending in %#x", spec.RawEnd)
}

func buildDocSeed(spec docSpec, seedOffset uint64) (*document, error) {
	buildMu.Lock()
	defer buildMu.Unlock()
	seed := uint64(0x9e3779b97f4a7c15) + seedOffset*0x100000001b3
	if v := os.Getenv("VERIF_C19_DOCSEED"); v != "" {
		fmt.Sscan(v, &seed)
	}
	for _, c := range spec.Name {
		seed = seed*131 + uint64(c)
	}
	old := crand.Reader
	crand.Reader = &detRand{x: seed}
	defer func() { crand.Reader = old }()
	var buf bytes.Buffer
	opt := &pdf.WriterOptions{HumanReadable: spec.Human, UserPassword: spec.User, UserPermissions: pdf.PermAll,
		ID: [][]byte{[]byte("0123456789abcdef"), []byte("0123456789abcdef")}}
	w, err := pdf.NewWriter(&buf, spec.V, opt)
	if err != nil {
		return nil, err
	}
	d := &document{spec: spec}
	pages, page := w.Alloc(), w.Alloc()
	content, aux1, aux2, str := w.Alloc(), w.Alloc(), w.Alloc(), w.Alloc()
	if err := w.Put(pages, pdf.Dict{"Type": pdf.Name("Pages"), "Kids": pdf.Array{page}, "Count": pdf.Integer(1)}); err != nil {
		return nil, err
	}
	if err := w.Put(page, pdf.Dict{"Type": pdf.Name("Page"), "Parent": pages, "Contents": content,
		"MediaBox": pdf.Array{pdf.Integer(0), pdf.Integer(0), pdf.Integer(200), pdf.Integer(200)}}); err != nil {
		return nil, err
	}
	s, err := w.OpenStream(content, pdf.Dict{"Note": pdf.String("stream dictionary string")}, filtersOf(spec.Filter)...)
	if err != nil {
		return nil, err
	}
	body := noise(3072, 99)
	if spec.RawEnd != 0 && spec.User == "" && spec.Filter == 0 {
		body[len(body)-1] = spec.RawEnd
	}
	if _, err := s.Write(body); err != nil {
		return nil, err
	}
	if err := s.Close(); err != nil {
		return nil, err
	}
	if err := w.WriteCompressed([]pdf.Reference{aux1, aux2},
		pdf.Dict{"A": pdf.String("compressed one"), "N": pdf.Integer(1)},
		pdf.Array{pdf.Name("Two"), pdf.String("compressed two")}); err != nil {
		return nil, err
	}
	if err := w.Put(str, pdf.String("a plain string object")); err != nil {
		return nil, err
	}
	var extra []pdf.Reference
	if spec.Big {
		// many objects (a cross-reference table of several buffers) and objects
		// that are themselves longer than the scanner's buffer, so that tokens and
		// table entries straddle every refill boundary
		// on versions with object streams the 150 objects go into three object
		// streams of 50 members (an index of several hundred bytes each)
		var grpRefs []pdf.Reference
		var grpObjs []pdf.Object
		for i := 0; i < 150; i++ {
			ref := w.Alloc()
			obj := pdf.Dict{"I": pdf.Integer(i), "S": pdf.String(fmt.Sprintf("object number %d", i))}
			if spec.V >= pdf.V1_5 && !spec.Human {
				grpRefs, grpObjs = append(grpRefs, ref), append(grpObjs, obj)
				if len(grpRefs) == 50 {
					if err := w.WriteCompressed(grpRefs, grpObjs...); err != nil {
						return nil, err
					}
					grpRefs, grpObjs = nil, nil
				}
			} else if err := w.Put(ref, obj); err != nil {
				return nil, err
			}
			if i%37 == 0 || i%50 == 49 {
				extra = append(extra, ref)
			}
		}
		long := pdf.Array{}
		for i := 0; i < 400; i++ {
			long = append(long, pdf.Integer(100000+i), pdf.Name(fmt.Sprintf("N%d", i)))
		}
		ref := w.Alloc()
		if err := w.Put(ref, long); err != nil {
			return nil, err
		}
		extra = append(extra, ref)
		ld := pdf.Dict{}
		for i := 0; i < 120; i++ {
			ld[pdf.Name(fmt.Sprintf("Key%03d", i))] = pdf.String(fmt.Sprintf("value %d (with parens)", i))
		}
		ref = w.Alloc()
		if err := w.Put(ref, ld); err != nil {
			return nil, err
		}
		extra = append(extra, ref)
	}
	w.GetMeta().Catalog.Pages = pages
	w.GetMeta().Info.Title = "The Title"
	w.GetMeta().Info.Author = "An Author"
	if err := w.Close(); err != nil {
		return nil, err
	}
	d.data = buf.Bytes()
	d.refs = append([]pdf.Reference{pages, page, content, aux1, aux2, str}, extra...)
	d.streams = []pdf.Reference{content}
	return d, nil
}

func docSpecs(thorough bool) []docSpec {
	var out []docSpec
	add := func(name string, v pdf.Version, human bool, f int, user string) {
		out = append(out, docSpec{Name: name, V: v, Human: human, Filter: f, User: user})
	}
	for f := 0; f < 4; f++ {
		add(fmt.Sprintf("table-f%d", f), pdf.V1_4, false, f, "")
		add(fmt.Sprintf("xrefstream-objstm-f%d", f), pdf.V1_7, false, f, "")
	}
	out = append(out, docSpec{Name: "table-150-objects", V: pdf.V1_4, Filter: 1, Big: true},
		docSpec{Name: "xrefstream-150-objects", V: pdf.V1_7, Filter: 0, Big: true},
		docSpec{Name: "human-150-objects", V: pdf.V1_7, Human: true, Filter: 0, Big: true},
		docSpec{Name: "aes128-150-compressed-objects", V: pdf.V1_7, Filter: 1, User: "secret", Big: true})
	out = append(out, docSpec{Name: "aes128-raw-ends-LF", V: pdf.V1_7, Filter: 1, User: "secret", RawEnd: '\n'},
		docSpec{Name: "aes128-raw-ends-CR", V: pdf.V1_6, Filter: 0, User: "secret", RawEnd: '\r'},
		docSpec{Name: "plain-raw-ends-LF", V: pdf.V1_4, Filter: 0, RawEnd: '\n'})
	out = append(out, docSpec{Name: "handbuilt-indirect-length-filter-parms", V: pdf.V1_7, Hand: "indirect-parms"},
		docSpec{Name: "handbuilt-no-length-data-ends-CR", V: pdf.V1_7, Hand: "no-length-crlf"},
		docSpec{Name: "handbuilt-wrong-length", V: pdf.V1_7, Hand: "wrong-length"},
		docSpec{Name: "handbuilt-hybrid-reference", V: pdf.V1_7, Hand: "hybrid"},
		docSpec{Name: "handbuilt-two-classic-revisions", V: pdf.V1_7, Hand: "two-tables"},
		docSpec{Name: "handbuilt-indirect-trailer-ID", V: pdf.V1_7, Hand: "indirect-id"})
	add("table-human", pdf.V1_7, true, 1, "")
	add("table-rc4", pdf.V1_4, false, 1, "secret")
	add("xrefstream-aes128", pdf.V1_7, false, 2, "secret")
	add("xrefstream-aes256", pdf.V2_0, false, 1, "secret")
	if thorough {
		add("table-v1.1-rc4-40", pdf.V1_1, false, 0, "secret")
		add("xrefstream-v1.5", pdf.V1_5, false, 3, "")
		add("human-v2.0", pdf.V2_0, true, 2, "")
		add("human-aes256", pdf.V2_0, true, 0, "secret")
	}
	return out
}

// ---------------------------------------------------------------------------
// faulty source

type faultMode int

const (
	failFrom  faultMode = iota // the k-th and every later call fails
	failOnly                   // only the k-th call fails
	shortRead                  // the k-th call delivers half of the bytes together with the error, later calls fail
	numModes
)

var modeNames = []string{"fail-from-k", "fail-only-k", "short-read-at-k"}

type faultySource struct {
	r     *bytes.Reader
	calls int
	k     int // -1: no fault
	mode  faultMode
	err   error
	hit   bool
}

func (f *faultySource) ReadAt(p []byte, off int64) (int, error) {
	i := f.calls
	f.calls++
	if f.k >= 0 {
		switch {
		case i == f.k && f.mode == shortRead:
			f.hit = true
			n, _ := f.r.ReadAt(p[:len(p)/2], off)
			return n, f.err
		case i == f.k, i > f.k && f.mode != failOnly:
			f.hit = true
			return 0, f.err
		}
	}
	return f.r.ReadAt(p, off)
}

// ---------------------------------------------------------------------------
// read scenarios

type obs struct {
	call string
	val  string // canonical rendering of the value
	err  error
}

type scenario struct {
	name string
	run  func(d *document, src *faultySource, rec func(call string, val string, err error))
}

func showObj(o pdf.Object) string {
	if s, ok := o.(*pdf.Stream); ok {
		return "stream" + hx.Show(s.Dict)
	}
	return hx.Show(o)
}

// pageView is what the caching Decode of the walk produces for the page object.
type pageView struct {
	parentCount pdf.Integer
	contentLen  int
	note        string
}

func decodePage(c pdf.Cursor, obj pdf.Object, direct bool) (*pageView, error) {
	d, err := c.Dict(obj)
	if err != nil {
		return nil, err
	}
	// nested reads inside the decode function
	parent, err := c.Dict(d["Parent"])
	if err != nil {
		return nil, err
	}
	n, err := c.Integer(parent["Count"])
	if err != nil {
		return nil, err
	}
	stm, err := c.Stream(d["Contents"])
	if err != nil {
		return nil, err
	}
	pv := &pageView{parentCount: n}
	if stm != nil {
		note, _ := c.String(stm.Dict["Note"])
		pv.note = string(note)
		data, err := c.ReadAll(d["Contents"], 1<<20)
		if err != nil {
			return nil, err
		}
		pv.contentLen = len(data)
	}
	return pv, nil
}

func walk(d *document, r *pdf.Reader, chunk int, rec0 func(string, string, error), x *pdf.Extractor, prefix string) {
	rec := func(call, val string, err error) { rec0(prefix+call, val, err) }
	// a caching decode through the Extractor (shared by the first pass and the retry)
	pv, err := pdf.Decode(pdf.CursorAt(x, nil), d.refs[1], decodePage)
	if err != nil {
		rec("Decode(page)", "", err)
	} else if pv == nil {
		rec("Decode(page)", "<nil>", nil)
	} else {
		rec("Decode(page)", fmt.Sprintf("count=%d contents=%d note=%q", pv.parentCount, pv.contentLen, pv.note), nil)
	}
	m := r.GetMeta()
	info := "<nil>"
	if m.Info != nil {
		info = fmt.Sprintf("title=%q author=%q", m.Info.Title, m.Info.Author)
	}
	rec("Meta.Info", info, nil)
	cat := "<nil>"
	if m.Catalog != nil {
		cat = fmt.Sprintf("pages=%v", m.Catalog.Pages)
	}
	rec("Meta.Catalog", cat, nil)
	rec("Meta.Version+ID", fmt.Sprintf("%v %x", m.Version, m.ID), nil)
	for _, ref := range d.refs {
		o, err := r.Get(ref, true)
		if err != nil {
			rec(fmt.Sprintf("Get(%v)", ref), "", err)
			continue
		}
		rec(fmt.Sprintf("Get(%v)", ref), showObj(o), nil)
		if stm, ok := o.(*pdf.Stream); ok {
			rc, err := pdf.DecodeStream(r, nil, stm)
			if err != nil {
				rec(fmt.Sprintf("DecodeStream(%v)", ref), "", err)
				continue
			}
			rec(fmt.Sprintf("DecodeStream(%v)", ref), "ok", nil)
			var data []byte
			var rerr error
			if chunk <= 0 {
				data, rerr = io.ReadAll(rc)
			} else {
				buf := make([]byte, chunk)
				for {
					n, err := rc.Read(buf)
					data = append(data, buf[:n]...)
					if err == io.EOF {
						break
					}
					if err != nil {
						rerr = err
						break
					}
				}
			}
			rc.Close()
			if rerr != nil {
				// data delivered before the error must be a prefix of the real data
				rec(fmt.Sprintf("ReadStream(%v)", ref), fmt.Sprintf("partial:%x", data), rerr)
			} else {
				rec(fmt.Sprintf("ReadStream(%v)", ref), fmt.Sprintf("%x", data), nil)
			}
		}
	}
}

func readerScenario(mode pdf.ReaderErrorHandling, chunk int) scenario {
	return scenario{
		name: fmt.Sprintf("NewReader(mode=%d)+Get+DecodeStream(chunk=%d)", mode, chunk),
		run: func(d *document, src *faultySource, rec func(string, string, error)) {
			r, err := pdf.NewReader(src, int64(len(d.data)), &pdf.ReaderOptions{Password: d.spec.User, ErrorHandling: mode})
			if err != nil {
				rec("NewReader", "", err)
				return
			}
			rec("NewReader", fmt.Sprintf("errors=%d", len(r.Errors)), nil)
			rec("meta", metaOf(r), nil)
			x := pdf.NewExtractor(r)
			walk(d, r, chunk, rec, x, "")
			// the same calls again on the same Reader and Extractor: after a
			// transient fault they must give the fault-free answers
			walk(d, r, chunk, rec, x, "retry:")
		},
	}
}

// metaOf is what the Reader reports about the trailer: it must be the fault-free
// answer or an I/O error, like everything else.
func metaOf(r *pdf.Reader) string {
	m := r.GetMeta()
	title := ""
	if m.Info != nil {
		title = string(m.Info.Title)
	}
	pages := pdf.Reference(0)
	if m.Catalog != nil {
		pages = m.Catalog.Pages
	}
	return fmt.Sprintf("title=%q pages=%v id=%d", title, pages, len(m.ID))
}

func scanScenario() scenario {
	return scenario{
		name: "SequentialScan+MakeReader+Get+DecodeStream",
		run: func(d *document, src *faultySource, rec func(string, string, error)) {
			fi, err := pdf.SequentialScan(src, int64(len(d.data)))
			if err != nil {
				rec("SequentialScan", "", err)
				return
			}
			var l []string
			for _, s := range fi.Sections {
				for _, o := range s.Objects {
					l = append(l, fmt.Sprintf("%v@%d broken=%v", o.Reference, o.ObjStart, o.Broken))
				}
			}
			rec("SequentialScan", strings.Join(l, ","), nil)
			r, err := fi.MakeReader(&pdf.ReaderOptions{Password: d.spec.User})
			if err != nil {
				rec("MakeReader", "", err)
				return
			}
			rec("MakeReader", "ok", nil)
			rec("meta", metaOf(r), nil)
			x := pdf.NewExtractor(r)
			walk(d, r, 0, rec, x, "")
			walk(d, r, 0, rec, x, "retry:")
		},
	}
}

func scenarios(thorough bool) []scenario {
	s := []scenario{
		readerScenario(pdf.ErrorHandlingRecover, 0),
		readerScenario(pdf.ErrorHandlingReport, 512),
		readerScenario(pdf.ErrorHandlingStop, 0),
		scanScenario(),
	}
	if thorough {
		s = append(s, readerScenario(pdf.ErrorHandlingRecover, 1), readerScenario(pdf.ErrorHandlingStop, 512))
	}
	return s
}

// ReadCase identifies one faulty read run.
type ReadCase struct {
	Side     string  `json:"side"`
	Doc      docSpec `json:"document"`
	Scenario string  `json:"scenario"`
	K        int     `json:"k"`
	Mode     string  `json:"mode"`
	Sentinel string  `json:"sentinel"`
	Of       int     `json:"read_calls_without_fault"`
}

type failure struct{ fp, what string }

var sentinels = []struct {
	name string
	mk   func() error
}{
	{"plain", func() error { return errors.New("injected I/O failure") }},
	{"wrapped-unexpected-eof", func() error { return fmt.Errorf("injected I/O failure: %w", io.ErrUnexpectedEOF) }},
}

func callKind(call string) string {
	if i := strings.Index(call, "("); i > 0 {
		return call[:i]
	}
	return call
}

// judgeRead compares a faulty run with the fault-free baseline.
func judgeRead(base, got []obs, sentinel error, scName string) *failure {
	bm := map[string]obs{}
	for _, o := range base {
		bm[o.call] = o
	}
	mode := scName[:strings.Index(scName, "+")]
	for _, o := range got {
		b, ok := bm[o.call]
		if !ok {
			return &failure{"extra-call", "harness: call " + o.call + " not in baseline"}
		}
		if o.err != nil {
			if !errors.Is(o.err, sentinel) {
				return &failure{"error-lost:" + mode + ":" + callKind(o.call) + ":" + classOf(o.err),
					fmt.Sprintf("%s returns %q, which does not carry the source's error %q", o.call, o.err, sentinel)}
			}
			if pdf.IsMalformed(o.err) {
				return &failure{"io-error-classified-malformed:" + mode + ":" + callKind(o.call),
					fmt.Sprintf("%s returns %q: carries the source's error but IsMalformed is true", o.call, o.err)}
			}
			if strings.HasPrefix(o.val, "partial:") && !strings.HasPrefix(b.val, strings.TrimPrefix(o.val, "partial:")) {
				return &failure{"different-data-before-error:" + callKind(o.call), fmt.Sprintf("%s delivered bytes that are not a prefix of the fault-free data before failing", o.call)}
			}
			continue
		}
		if b.err != nil {
			continue // harness: baseline must not fail (checked separately)
		}
		if o.val != b.val {
			return &failure{"different-result:" + mode + ":" + callKind(o.call),
				fmt.Sprintf("%s returns %s with the fault, %s without, and no error", o.call, clipS(o.val), clipS(b.val))}
		}
	}
	return nil
}

func classOf(err error) string {
	if pdf.IsMalformed(err) {
		return "malformed"
	}
	var ae *pdf.AuthenticationError
	if errors.As(err, &ae) {
		return "authentication"
	}
	return "other"
}

func clipS(s string) string {
	if len(s) > 160 {
		return s[:160] + "…"
	}
	return s
}

func runRead(d *document, sc scenario, k int, mode faultMode, sentinel error) ([]obs, *faultySource) {
	src := &faultySource{r: bytes.NewReader(d.data), k: k, mode: mode, err: sentinel}
	var out []obs
	sc.run(d, src, func(call, val string, err error) { out = append(out, obs{call, val, err}) })
	return out, src
}

// hangLimit is the watchdog deadline of one faulty run (normal cost: well
// under 10 ms; 8 ms more for AES-256 key derivation).
const hangLimit = 20 * time.Second

var hangs atomic.Int64

// guarded runs f under the watchdog and reports whether it returned. A run
// that does not return leaves its goroutine behind (it cannot be killed), so
// the enumeration stops after a few hangs.
func guarded(f func()) bool {
	done := make(chan struct{})
	go func() {
		defer close(done)
		f()
	}()
	t := time.NewTimer(hangLimit)
	defer t.Stop()
	select {
	case <-done:
		return true
	case <-t.C:
		hangs.Add(1)
		return false
	}
}

// ---------------------------------------------------------------------------
// write side

type faultySink struct {
	w     io.Writer
	calls *int
	k     int
	only  bool // fail only the k-th call (a transient failure) instead of all from k on
	err   error
}

func (f *faultySink) fails(i int) bool {
	if f.k < 0 {
		return false
	}
	if f.only {
		return i == f.k
	}
	return i >= f.k
}

func (f *faultySink) Write(p []byte) (int, error) {
	i := *f.calls
	*f.calls++
	if f.fails(i) {
		return 0, f.err
	}
	return f.w.Write(p)
}

type faultySeekSink struct{ faultySink }

func (f *faultySeekSink) Seek(off int64, whence int) (int64, error) {
	i := *f.calls
	*f.calls++
	if f.fails(i) {
		return 0, f.err
	}
	return f.w.(io.Seeker).Seek(off, whence)
}

// WriteCase identifies one faulty write run.
type WriteCase struct {
	Side string     `json:"side"`
	Prog wprog.Case `json:"program"`
	Only bool       `json:"fail_only_k"`
	K    int        `json:"k"`
	Of   int        `json:"sink_calls_without_fault"`
}

func writeEnv(k int, only bool, calls *int, sentinel error) *wprog.Env {
	return &wprog.Env{BigBodies: true, SmallValues: true, WrapSink: func(w io.Writer, seekable bool) io.Writer {
		fs := faultySink{w: w, calls: calls, k: k, only: only, err: sentinel}
		if seekable {
			return &faultySeekSink{fs}
		}
		return &fs
	}}
}

func judgeWrite(res *wprog.Result, sentinel error, hit bool) *failure {
	if !hit {
		return nil
	}
	if res.WriteErr == nil {
		where := "Close"
		return &failure{"sink-error-swallowed:" + sinkKind(res), fmt.Sprintf("the sink failed but no Writer call up to and including %s returned an error", where)}
	}
	if !errors.Is(res.WriteErr, sentinel) {
		return &failure{"sink-error-replaced:" + sinkKind(res) + ":" + rejectKind(res.Reject), fmt.Sprintf("the Writer reports %q, which does not carry the sink's error", res.Reject)}
	}
	return nil
}

func sinkKind(res *wprog.Result) string {
	if res.Cfg.Seekable {
		return "seekable"
	}
	return "write-only"
}

func rejectKind(s string) string {
	if i := strings.Index(s, ":"); i > 0 {
		return s[:i]
	}
	return s
}

// ---------------------------------------------------------------------------

// Run is the check.
func Run(tier string) int {
	budget := 4 * time.Minute
	if tier == "thorough" {
		budget = 25 * time.Minute
	}
	r := ev.New("C19", tier, "fault_enumeration", budget)
	r.Rule("read side: for every document x scenario the fault-free run counts N ReadAt calls; then EVERY k<N x {fail from k on, fail only k, short read at k then fail} x {plain error, error wrapping io.ErrUnexpectedEOF} is run and each API call's result compared with the fault-free one; write side: every write program of the plan (large incompressible bodies) x every index k of a sink Write/Seek call fails from k on; distinct = distinct (document or program, scenario, k, mode, sentinel) tuples in which the fault was actually reached")
	r.Assume("the byte source is an in-memory ReaderAt wrapper; results are compared through a canonical rendering (harness equality)", "a call that fails must carry the injected error (errors.Is) and not be IsMalformed; a call that succeeds must return the fault-free value")

	specs := docSpecs(r.Thorough())
	if only := os.Getenv("VERIF_C19_ONLY"); only != "" {
		// debugging aid: one document only (the run is then reported as not exhaustive)
		var keep []docSpec
		for _, sp := range specs {
			if sp.Name == only {
				keep = append(keep, sp)
			}
		}
		specs = keep
		r.Capped("restricted to document " + only)
	}
	scs := scenarios(r.Thorough())
	var docs []*document
	for _, sp := range specs {
		d, err := buildDoc(sp)
		if err != nil {
			r.Infra(fmt.Sprintf("cannot build document %s: %v", sp.Name, err))
			return r.Finish()
		}
		docs = append(docs, d)
	}
	r.Dim("documents", len(docs))
	r.Dim("read_scenarios", len(scs))
	type job struct {
		d  *document
		sc scenario
		n  int
		b  []obs
	}
	var jobs []job
	totalK := 0
	for _, d := range docs {
		for _, sc := range scs {
			if d.spec.Hand == "hybrid" && strings.HasPrefix(sc.name, "SequentialScan") {
				// the scan does not index the members of object streams: the catalog of this
				// document is out of its reach by design
				continue
			}
			base, src := runRead(d, sc, -1, 0, nil)
			for _, o := range base {
				if o.err != nil {
					r.Infra(fmt.Sprintf("baseline of %s/%s fails at %s: %v", d.spec.Name, sc.name, o.call, o.err))
					return r.Finish()
				}
			}
			// determinism: a second fault-free run observes the same
			base2, src2 := runRead(d, sc, -1, 0, nil)
			if src2.calls != src.calls || len(base2) != len(base) {
				r.Infra("fault-free run is not deterministic")
				return r.Finish()
			}
			jobs = append(jobs, job{d, sc, src.calls, base})
			totalK += src.calls
		}
	}
	r.Dim("read_calls_total_over_baselines", totalK)
	{
		var per []string
		for _, j := range jobs {
			per = append(per, fmt.Sprintf("%s|%s: %d", j.d.spec.Name, j.sc.name, j.n))
		}
		r.Dim("read_calls_per_baseline", per)
	}
	if os.Getenv("VERIF_C19_BASELINE_ONLY") != "" {
		return r.Finish()
	}
	r.Par(len(jobs), func(i int) {
		j := jobs[i]
		for k := 0; k < j.n && !r.Expired(); k++ {
			for mode := faultMode(0); mode < numModes; mode++ {
				for _, sn := range sentinels {
					sentinel := sn.mk()
					cs := ReadCase{Side: "read", Doc: j.d.spec, Scenario: j.sc.name, K: k, Mode: modeNames[mode], Sentinel: sn.name, Of: j.n}
					if hangs.Load() >= 6 {
						r.Capped("enumeration stopped after 6 hanging runs")
						return
					}
					var got []obs
					var src *faultySource
					if !guarded(func() { got, src = runRead(j.d, j.sc, k, mode, sentinel) }) {
						// confirm once more before believing it
						if !guarded(func() { runRead(j.d, j.sc, k, mode, sentinel) }) {
							r.Eval(1)
							r.Violation("read:hang:"+j.sc.name[:strings.Index(j.sc.name, "+")]+":"+modeNames[mode], fmt.Sprintf("%s, %s, ReadAt call %d of %d, %s: the scenario does not return within %v (twice); normal cost is milliseconds", j.d.spec.Name, j.sc.name, k, j.n, modeNames[mode], hangLimit), cs)
						} else {
							r.Flaky(fmt.Sprintf("read run exceeded %v once: %s %s k=%d", hangLimit, j.d.spec.Name, j.sc.name, k))
						}
						continue
					}
					r.Eval(1)
					r.Count("read_runs", 1)
					if !src.hit {
						r.Outcome("read:fault-not-reached")
						continue
					}
					r.DistinctS(fmt.Sprintf("r|%s|%s|%d|%d|%s", j.d.spec.Name, j.sc.name, k, mode, sn.name))
					if f := judgeRead(j.b, got, sentinel, j.sc.name); f != nil {
						// believe a failure only if the same run fails again, twice
						confirmed := true
						for rep := 0; rep < 2 && confirmed; rep++ {
							s2 := sn.mk()
							g2, _ := runRead(j.d, j.sc, k, mode, s2)
							if f2 := judgeRead(j.b, g2, s2, j.sc.name); f2 == nil || f2.fp != f.fp {
								confirmed = false
							}
						}
						if !confirmed {
							r.Flaky(fmt.Sprintf("read run failed once and not again: %s %s k=%d %s: %s", j.d.spec.Name, j.sc.name, k, modeNames[mode], f.what))
							continue
						}
						fp := "read:" + f.fp
						r.Outcome("fail:" + fp)
						r.Violation(fp, fmt.Sprintf("%s, %s, ReadAt call %d of %d, %s: %s", j.d.spec.Name, j.sc.name, k, j.n, modeNames[mode], f.what), cs)
					} else {
						failed := 0
						for _, o := range got {
							if o.err != nil {
								failed++
							}
						}
						if failed > 0 {
							r.Outcome("read:ok:error-surfaced")
						} else {
							r.Outcome("read:ok:unaffected")
						}
					}
				}
			}
		}
	})
	r.Sample(ReadCase{Side: "read", Doc: specs[0], Scenario: scs[0].name, K: 5, Mode: modeNames[0], Sentinel: "plain", Of: jobs[0].n})

	// write side ---------------------------------------------------------------
	var plans []wprog.Plan
	for _, v := range []pdf.Version{pdf.V1_4, pdf.V1_7} {
		for _, s := range []bool{false, true} {
			for _, u := range []string{"", "pw"} {
				ops := ev.Pick(r, 2, 3)
				if u != "" {
					ops = ev.Pick(r, 1, 2)
				}
				plans = append(plans, wprog.Plan{Cfg: wprog.Config{V: v, Seekable: s, User: u}, MaxOps: ops, DevBound: 0})
			}
		}
	}
	if r.Thorough() {
		plans = append(plans, wprog.Plan{Cfg: wprog.Config{V: pdf.V1_7, Seekable: true}, MaxOps: 2, DevBound: 1},
			wprog.Plan{Cfg: wprog.Config{V: pdf.V1_4, Human: true, Seekable: false}, MaxOps: 2, DevBound: 1})
	}
	countEnv := func(calls *int) *wprog.Env { return writeEnv(-1, false, calls, nil) }
	var dummy int
	items := wprog.Items(plans, countEnv(&dummy), 3)
	r.Dim("write_plans", len(plans))
	var sinkCalls int64
	r.Par(len(items), func(i int) {
		it := items[i]
		// enumerate the programs below this prefix fault-free, then every k for each
		type prog struct {
			choices []int
			n       int
			ops     []string
		}
		var progs []prog
		var calls int
		env := countEnv(&calls)
		e := &explore.Explorer{Bound: it.Plan.DevBound, Stop: r.Expired}
		var last *wprog.Result
		e.After = func(c *explore.Ctx) {
			if last.Accepted {
				progs = append(progs, prog{append([]int{}, c.Choices...), calls, last.Ops})
			}
		}
		e.Explore(it.Prefix, func(c *explore.Ctx) { calls = 0; last = wprog.Exec(it.Plan.Cfg, c, it.Plan.MaxOps, env) })
		r.Count("write_programs", int64(len(progs)))
		for _, p := range progs {
			for k := 0; k < p.n && !r.Expired(); k++ {
				for _, only := range []bool{false, true} {
					sentinel := errors.New("injected sink failure")
					var c2 int
					var res *wprog.Result
					fenv := writeEnv(k, only, &c2, sentinel)
					cs := WriteCase{Side: "write", Prog: wprog.Case{Cfg: it.Plan.Cfg, MaxOps: it.Plan.MaxOps, Choices: p.choices, Ops: p.ops}, K: k, Only: only, Of: p.n}
					if hangs.Load() >= 6 {
						r.Capped("enumeration stopped after 6 hanging runs")
						return
					}
					if !guarded(func() {
						explore.RunPartial(p.choices, func(c *explore.Ctx) { res = wprog.Exec(it.Plan.Cfg, c, it.Plan.MaxOps, fenv) })
					}) {
						r.Eval(1)
						r.Violation("write:hang", fmt.Sprintf("%s; %s; sink call %d of %d fails: the Writer does not return within %v", it.Plan.Cfg, strings.Join(p.ops, "; "), k, p.n, hangLimit), cs)
						continue
					}
					r.Eval(1)
					hit := c2 > k
					mode := "fail-from-k"
					if only {
						mode = "fail-only-k"
					}
					r.DistinctS(fmt.Sprintf("w|%s|%v|%d|%v", it.Plan.Cfg, p.choices, k, only))
					if f := judgeWrite(res, sentinel, hit); f != nil {
						r.Outcome("fail:write:" + f.fp)
						r.Violation("write:"+f.fp+":"+mode, fmt.Sprintf("%s; %s; sink call %d of %d, %s: %s", it.Plan.Cfg, strings.Join(p.ops, "; "), k, p.n, mode, f.what), cs)
					} else if hit {
						r.Outcome("write:ok:error-surfaced@" + rejectKind(res.Reject))
					} else {
						r.Outcome("write:fault-not-reached")
					}
					if r.WantSample() && k == p.n/2 && len(p.ops) > 0 {
						r.Sample(cs)
					}
				}
			}
			r.Count("sink_calls_enumerated", int64(p.n))
			_ = sinkCalls
		}
	})
	return r.Finish()
}

// Replay re-executes one recorded case.
func Replay(path string) int {
	var side struct {
		Side string `json:"side"`
	}
	if err := ev.ReplayCase(path, &side); err != nil {
		fmt.Println("replay:", err)
		return 2
	}
	r := ev.New("C19", "quick", "fault_enumeration", time.Minute)
	r.SetReplayMode()
	if side.Side == "write" {
		var cs WriteCase
		ev.ReplayCase(path, &cs)
		sentinel := errors.New("injected sink failure")
		var c2 int
		var res *wprog.Result
		explore.RunPartial(cs.Prog.Choices, func(c *explore.Ctx) {
			res = wprog.Exec(cs.Prog.Cfg, c, cs.Prog.MaxOps, writeEnv(cs.K, cs.Only, &c2, sentinel))
		})
		if f := judgeWrite(res, sentinel, c2 > cs.K); f != nil {
			r.Violation("write:"+f.fp, f.what, cs)
		}
		return r.Finish()
	}
	var cs ReadCase
	ev.ReplayCase(path, &cs)
	d, err := buildDoc(cs.Doc)
	if err != nil {
		fmt.Println("replay:", err)
		return 2
	}
	for _, sc := range scenarios(true) {
		if sc.name != cs.Scenario {
			continue
		}
		base, _ := runRead(d, sc, -1, 0, nil)
		for mi, mn := range modeNames {
			if mn != cs.Mode {
				continue
			}
			for _, sn := range sentinels {
				if sn.name != cs.Sentinel {
					continue
				}
				sentinel := sn.mk()
				got, _ := runRead(d, sc, cs.K, faultMode(mi), sentinel)
				var names []string
				for _, o := range got {
					if o.err != nil {
						names = append(names, o.call+" -> "+o.err.Error())
					}
				}
				sort.Strings(names)
				fmt.Println("failing calls:", names)
				if f := judgeRead(base, got, sentinel, sc.name); f != nil {
					fp := "read:" + f.fp
					if sn.name != "plain" {
						fp += ":sentinel=" + sn.name
					}
					r.Violation(fp, f.what, cs)
				}
			}
		}
	}
	return r.Finish()
}
