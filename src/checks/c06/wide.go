//go:build verif

package c06

import (
	"bytes"
	"fmt"

	"seehuhn.de/go/pdf"
)

// Two families at the far end of the size axis.
//
// Long runs: one byte repeated n times, n around every power of two from 2^10
// to 2^20 (quick) / 2^23 (thorough) and 5 000 000, through every lossless
// filter.  A run of n equal bytes gives LZW codes of up to sqrt(2n) bytes, so
// the decoder's expansion buffers meet their limits.
//
// Wide CCITT rows: one row of Columns pixels made of two or three runs whose
// lengths sit on the make-up code boundaries (multiples of 64 up to 1728, the
// extended make-up codes 1792..2560, and sums beyond 2560), both colours first,
// Group 3 1-D and Group 4.

func LongRunLengths(thorough bool) []int {
	top := 20
	if thorough {
		top = 23
	}
	var out []int
	for k := 10; k <= top; k++ {
		for d := -1; d <= 1; d++ {
			out = append(out, 1<<k+d)
		}
	}
	return append(out, 5_000_000)
}

// WideRows returns (columns, row bytes) cases.
func WideRows() []Bitmap {
	runs := []int{63, 64, 65, 1727, 1728, 1729, 1791, 1792, 1793, 2559, 2560, 2561, 2623, 2624, 4351, 4352, 4353}
	var out []Bitmap
	for _, a := range runs {
		for _, rest := range []int{0, 1, 64, 1792} {
			for _, first := range []byte{0x00, 0xff} {
				cols := a + rest
				rb := (cols + 7) / 8
				row := make([]byte, rb)
				for x := 0; x < cols; x++ {
					black := first == 0xff
					if x >= a {
						black = !black
					}
					if black {
						row[x/8] |= 0x80 >> (x % 8)
					}
				}
				// two rows: the second one shifted by one run, so that 2-D modes code against a reference
				row2 := make([]byte, rb)
				copy(row2, row)
				if cols > 8 {
					row2[0] ^= 0x80
				}
				out = append(out, Bitmap{Cols: cols, Rows: 2, Data: append(append([]byte{}, row...), row2...)})
			}
		}
	}
	return out
}

func (rn *Runner) wideSpace() {
	r := rn.R
	lens := LongRunLengths(r.Thorough())
	wide := WideRows()
	r.Dim("long_runs", map[string]any{"lengths": lens, "filters": []string{"LZW (both EarlyChange values)", "Flate", "RunLength", "ASCII85", "ASCIIHex"}})
	r.Dim("wide_ccitt_rows", fmt.Sprintf("%d two-row bitmaps of 63..6144 columns whose runs sit on the make-up code boundaries x K in {0, -1} x BlackIs1", len(wide)))
	r.Par(len(lens), func(i int) {
		if r.Expired() {
			return
		}
		data := bytes.Repeat([]byte{0x5a}, lens[i])
		for _, s := range []FSpec{{Kind: "LZW", Early: true}, {Kind: "LZW"}, {Kind: "Flate"}, {Kind: "RL"}} {
			rn.Exec("long-runs", pdf.V1_4, s, data, Chunking{})
		}
		if lens[i] <= 1<<20+1 {
			rn.Exec("long-runs", pdf.V1_4, FSpec{Kind: "A85"}, data, Chunking{})
			rn.Exec("long-runs", pdf.V1_4, FSpec{Kind: "AHx"}, data, Chunking{})
		}
		rn.distinct("lr", lens[i])
	})
	r.Par(len(wide), func(i int) {
		if r.Expired() {
			return
		}
		b := wide[i]
		for _, k := range []int{0, -1} {
			for _, bi1 := range []bool{false, true} {
				rn.Exec("wide-ccitt", pdf.V1_4, FSpec{Kind: "CCITT", K: k, Cols: b.Cols, Rows: b.Rows, BlackIs1: bi1}, b.Data, Chunking{})
			}
		}
		rn.distinct("wc", b.Cols, b.Data)
	})
}
