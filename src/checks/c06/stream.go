//go:build verif

package c06

import (
	"bytes"
	"compress/zlib"
	"fmt"
	"io"

	"seehuhn.de/go/pdf"
	"seehuhn.de/go/pdf/zzverif/ref/codecs"
	"seehuhn.de/go/pdf/zzverif/ref/pdfsyn"
)

// ChainKinds is the filter alphabet of the chain space.
var ChainKinds = []FSpec{
	{Kind: "A85"}, {Kind: "AHx"}, {Kind: "RL"},
	{Kind: "Flate", Pred: 12, Cols: 3}, // Flate + PNG Up
	{Kind: "LZW", Early: true},
}

// Chains enumerates every chain of 1..maxLen filters over alphabet.
func Chains(alphabet []FSpec, maxLen int) [][]FSpec {
	var out [][]FSpec
	var rec func(cur []FSpec)
	rec = func(cur []FSpec) {
		if len(cur) > 0 {
			out = append(out, append([]FSpec{}, cur...))
		}
		if len(cur) == maxLen {
			return
		}
		for _, f := range alphabet {
			rec(append(cur, f))
		}
	}
	rec(nil)
	return out
}

// WriteStream writes data as a stream object with the given filters into a
// fresh PDF file and returns the file and the reference of the stream.
func WriteStream(v pdf.Version, specs []FSpec, data []byte, c Chunking) (file []byte, ref pdf.Reference, rejected bool, err error) {
	var buf bytes.Buffer
	w, err := pdf.NewWriter(&buf, v, nil)
	if err != nil {
		return nil, 0, false, fmt.Errorf("NewWriter: %w", err)
	}
	ref = w.Alloc()
	filters := make([]pdf.Filter, len(specs))
	for i, s := range specs {
		filters[i] = s.Filter()
	}
	body, err := w.OpenStream(ref, pdf.Dict{"Type": pdf.Name("VerifData")}, filters...)
	if err != nil {
		return nil, 0, true, nil
	}
	if err := writeChunked(body, data, c); err != nil {
		return nil, 0, false, fmt.Errorf("stream Write: %w", err)
	}
	if err := body.Close(); err != nil {
		return nil, 0, false, fmt.Errorf("stream Close: %w", err)
	}
	pages := w.Alloc()
	if err := w.Put(pages, pdf.Dict{"Type": pdf.Name("Pages"), "Kids": pdf.Array{}, "Count": pdf.Integer(0)}); err != nil {
		return nil, 0, false, fmt.Errorf("Put: %w", err)
	}
	w.GetMeta().Catalog.Pages = pages
	if err := w.Close(); err != nil {
		return nil, 0, false, fmt.Errorf("Writer.Close: %w", err)
	}
	return buf.Bytes(), ref, false, nil
}

// effParms returns the effective decode parameters of a filter as the
// harness reads ISO 32000 Tables 8 and 11 (defaults filled in), from the
// Go-side spec.
func effParmsOfSpec(v pdf.Version, s FSpec) (name string, parms map[string]int64) {
	parms = map[string]int64{}
	switch s.Kind {
	case "A85":
		return "ASCII85Decode", parms
	case "AHx":
		return "ASCIIHexDecode", parms
	case "RL":
		return "RunLengthDecode", parms
	}
	pred, colors, bpc, cols := s.Eff()
	parms["Predictor"] = int64(pred)
	if pred > 1 {
		parms["Colors"], parms["BitsPerComponent"], parms["Columns"] = int64(colors), int64(bpc), int64(cols)
	}
	switch {
	case s.Kind == "Flate" || (s.Kind == "Compress" && v >= pdf.V1_2):
		return "FlateDecode", parms
	case s.Kind == "LZW":
		parms["EarlyChange"] = 0
		if s.Early {
			parms["EarlyChange"] = 1
		}
		return "LZWDecode", parms
	default:
		parms["EarlyChange"] = 1
		return "LZWDecode", parms
	}
}

// effParmsOfDict does the same from a /DecodeParms dictionary as found in
// the file.
func effParmsOfDict(name string, d pdfsyn.Value) (map[string]int64, error) {
	parms := map[string]int64{}
	if d.K != pdfsyn.Null && d.K != pdfsyn.Dict {
		return nil, fmt.Errorf("/DecodeParms entry for %s is neither a dictionary nor null: %s", name, d.String())
	}
	get := func(key string, def int64) int64 {
		if d.K == pdfsyn.Dict && d.Has(key) {
			if e := d.Get(key); e.K == pdfsyn.Int {
				return e.I
			}
		}
		return def
	}
	switch name {
	case "FlateDecode", "LZWDecode":
		parms["Predictor"] = get("Predictor", 1)
		if parms["Predictor"] > 1 {
			parms["Colors"], parms["BitsPerComponent"], parms["Columns"] = get("Colors", 1), get("BitsPerComponent", 8), get("Columns", 1)
		}
		if name == "LZWDecode" {
			parms["EarlyChange"] = get("EarlyChange", 1)
		}
	default:
		if d.K == pdfsyn.Dict && len(d.D) > 0 {
			return nil, fmt.Errorf("%s has a non-empty /DecodeParms %s", name, d.String())
		}
	}
	return parms, nil
}

func sameParms(a, b map[string]int64) bool {
	if len(a) != len(b) {
		return false
	}
	for k, v := range a {
		if w, ok := b[k]; !ok || v != w {
			return false
		}
	}
	return true
}

// IndependentDecode decodes raw with the independent codecs.
func IndependentDecode(name string, parms map[string]int64, raw []byte) ([]byte, error) {
	var out []byte
	var err error
	switch name {
	case "ASCII85Decode":
		return codecs.A85Decode(raw)
	case "ASCIIHexDecode":
		return codecs.HexDecode(raw)
	case "RunLengthDecode":
		return codecs.RLDecode(raw)
	case "FlateDecode":
		zr, zerr := zlib.NewReader(bytes.NewReader(raw))
		if zerr != nil {
			return nil, zerr
		}
		out, err = io.ReadAll(zr)
	case "LZWDecode":
		out, err = codecs.LZWDecode(raw, parms["EarlyChange"] != 0)
	default:
		return nil, fmt.Errorf("no independent codec for %s", name)
	}
	if err != nil {
		return out, err
	}
	pp := codecs.PredParams{Colors: int(parms["Colors"]), BPC: int(parms["BitsPerComponent"]), Columns: int(parms["Columns"])}
	switch p := parms["Predictor"]; {
	case p == 2:
		return codecs.TIFFDecode(out, pp)
	case p >= 10:
		return codecs.PNGDecode(out, pp)
	}
	return out, nil
}

// independentStream finds object ref in file with the independent parser and
// returns its dictionary and raw data.
func independentStream(file []byte, ref pdf.Reference) (pdfsyn.Value, []byte, error) {
	findObj := func(num uint32) (*pdfsyn.Parser, error) {
		hdr := []byte(fmt.Sprintf("\n%d 0 obj", num))
		i := bytes.Index(file, hdr)
		if i < 0 {
			return nil, fmt.Errorf("object %d not found in the file", num)
		}
		p := pdfsyn.NewParser(file)
		p.Pos = i + len(hdr)
		return p, nil
	}
	p, err := findObj(ref.Number())
	if err != nil {
		return pdfsyn.Value{}, nil, err
	}
	dict, err := p.Object()
	if err != nil || dict.K != pdfsyn.Dict {
		return dict, nil, fmt.Errorf("stream dictionary does not parse: %v", err)
	}
	p.SkipWS()
	if !p.Keyword("stream") {
		return dict, nil, fmt.Errorf("no stream keyword after the dictionary")
	}
	if p.Pos < len(file) && file[p.Pos] == '\r' {
		p.Pos++
	}
	if p.Pos < len(file) && file[p.Pos] == '\n' {
		p.Pos++
	}
	l := dict.Get("Length")
	if l.K == pdfsyn.Ref {
		q, err := findObj(uint32(l.N))
		if err != nil {
			return dict, nil, err
		}
		l, err = q.Object()
		if err != nil {
			return dict, nil, err
		}
	}
	if l.K != pdfsyn.Int || l.I < 0 || p.Pos+int(l.I) > len(file) {
		return dict, nil, fmt.Errorf("bad /Length %s", l.String())
	}
	raw := file[p.Pos : p.Pos+int(l.I)]
	p.Pos += int(l.I)
	p.SkipWS()
	if !p.Keyword("endstream") {
		return dict, raw, fmt.Errorf("no endstream after %d bytes of data", l.I)
	}
	return dict, raw, nil
}

// StreamRoundTrip is the oracle for the path through Writer.OpenStream:
// the library reads back what it wrote, /Filter and /DecodeParms stay aligned
// (read with the independent parser), and the independent codecs decode the
// raw data to the input.
func StreamRoundTrip(v pdf.Version, specs []FSpec, data []byte, c Chunking) (outcome string, f *Failure) {
	chain := specsString(specs)
	kinds := ""
	for i, s := range specs {
		if i > 0 {
			kinds += "+"
		}
		kinds += s.Kind
	}
	file, ref, rejected, err := WriteStream(v, specs, data, c)
	if rejected {
		return "rejected:stream", nil
	}
	if err != nil {
		return "fail", &Failure{FP: "stream-write-error:" + kinds, What: fmt.Sprintf("[%s] v%s: %v", chain, VersionString(v), err)}
	}

	// library reads its own file
	r, err := pdf.NewReader(bytes.NewReader(file), int64(len(file)), nil)
	if err != nil {
		return "fail", &Failure{FP: "stream-reopen-error", What: fmt.Sprintf("[%s] v%s: written file does not open: %v", chain, VersionString(v), err), Encoded: file}
	}
	defer r.Close()
	stm, err := pdf.NewCursor(r).Stream(ref)
	if err != nil || stm == nil {
		return "fail", &Failure{FP: "stream-reopen-error", What: fmt.Sprintf("[%s]: stream object not readable: %v", chain, err), Encoded: file}
	}
	rd, err := pdf.DecodeStream(r, nil, stm)
	if err != nil {
		return "fail", &Failure{FP: "stream-roundtrip:" + kinds + ":decode-error", What: fmt.Sprintf("[%s] v%s: DecodeStream: %v", chain, VersionString(v), err), Encoded: file}
	}
	got, err := readChunked(rd, c.RBuf, 2*len(data)+4096)
	rd.Close()
	if err != nil {
		return "fail", &Failure{FP: "stream-roundtrip:" + kinds + ":decode-error", What: fmt.Sprintf("[%s] v%s: reading the decoded stream: %v", chain, VersionString(v), err), Encoded: file, Got: got}
	}
	if !bytes.Equal(got, data) {
		return "fail", &Failure{FP: "stream-roundtrip:" + kinds + ":differs", What: fmt.Sprintf("[%s] v%s: %d bytes written, %d bytes read back, first difference at %d", chain, VersionString(v), len(data), len(got), firstDiff(got, data)), Encoded: file, Got: got}
	}

	// independent reading of the dictionary
	dict, raw, err := independentStream(file, ref)
	if err != nil {
		return "fail", &Failure{FP: "stream-syntax", What: fmt.Sprintf("[%s] v%s: independent parser: %v", chain, VersionString(v), err), Encoded: file}
	}
	var names []string
	var parms []pdfsyn.Value
	fv, dp := dict.Get("Filter"), dict.Get("DecodeParms")
	switch fv.K {
	case pdfsyn.Name:
		names = []string{string(fv.S)}
		if dp.K == pdfsyn.Array {
			return "fail", &Failure{FP: "stream-dict:filter-name-with-parms-array", What: fmt.Sprintf("[%s]: /Filter %s with /DecodeParms %s", chain, fv.String(), dp.String()), Encoded: file}
		}
		parms = []pdfsyn.Value{dp}
	case pdfsyn.Array:
		for _, e := range fv.A {
			if e.K != pdfsyn.Name {
				return "fail", &Failure{FP: "stream-dict:filter-not-a-name", What: fmt.Sprintf("[%s]: /Filter %s", chain, fv.String()), Encoded: file}
			}
			names = append(names, string(e.S))
		}
		switch dp.K {
		case pdfsyn.Null:
			parms = make([]pdfsyn.Value, len(names))
			for i := range parms {
				parms[i] = pdfsyn.NullV()
			}
		case pdfsyn.Array:
			if len(dp.A) != len(names) {
				return "fail", &Failure{FP: "stream-dict:parms-array-length", What: fmt.Sprintf("[%s]: /Filter %s has %d entries, /DecodeParms %s has %d", chain, fv.String(), len(names), dp.String(), len(dp.A)), Encoded: file}
			}
			parms = dp.A
		default:
			return "fail", &Failure{FP: "stream-dict:parms-not-array", What: fmt.Sprintf("[%s]: /Filter %s with /DecodeParms %s", chain, fv.String(), dp.String()), Encoded: file}
		}
	default:
		return "fail", &Failure{FP: "stream-dict:no-filter", What: fmt.Sprintf("[%s]: /Filter is %s", chain, fv.String()), Encoded: file}
	}
	if len(names) != len(specs) {
		return "fail", &Failure{FP: "stream-dict:filter-count", What: fmt.Sprintf("[%s]: /Filter %s", chain, fv.String()), Encoded: file}
	}
	cur := raw
	for i, s := range specs {
		wantName, wantParms := effParmsOfSpec(v, s)
		gotParms, err := effParmsOfDict(names[i], parms[i])
		if names[i] != wantName || err != nil || !sameParms(gotParms, wantParms) {
			return "fail", &Failure{FP: "stream-dict:misaligned", What: fmt.Sprintf("[%s] v%s: position %d of /Filter %s /DecodeParms %s does not describe %s (%v)", chain, VersionString(v), i, fv.String(), dp.String(), s, err), Encoded: file}
		}
		cur, err = IndependentDecode(names[i], gotParms, cur)
		if err != nil {
			return "fail", &Failure{FP: "stream-independent-decode:" + kinds, What: fmt.Sprintf("[%s] v%s: independent %s decoder at position %d: %v", chain, VersionString(v), names[i], i, err), Encoded: file}
		}
	}
	if !bytes.Equal(cur, data) {
		return "fail", &Failure{FP: "stream-independent-decode:" + kinds, What: fmt.Sprintf("[%s] v%s: independent decoding of the raw stream gives %d bytes, want %d, first difference at %d", chain, VersionString(v), len(cur), len(data), firstDiff(cur, data)), Encoded: file, Got: cur}
	}
	return "ok:stream", nil
}
