//go:build verif

package c06

import (
	"bytes"
	"errors"
	"fmt"
	"io"
	"reflect"

	"seehuhn.de/go/membudget"
	"seehuhn.de/go/pdf"
	"seehuhn.de/go/pdf/internal/limits"
	"seehuhn.de/go/pdf/zzverif/checks/hx"
)

// Failure describes a violated clause.
type Failure struct {
	FP      string // fingerprint (defect class)
	What    string
	Encoded []byte
	Got     []byte
}

const pdfV14 = pdf.V1_4

// sink collects the encoder output.
type sink struct {
	bytes.Buffer
	closed int
}

func (s *sink) Close() error { s.closed++; return nil }

// Chunking describes how the input is written and the output is read.
type Chunking struct {
	Cuts  []int
	WSize int
	RBuf  int
}

func (c Chunking) plain() bool { return len(c.Cuts) == 0 && c.WSize == 0 && c.RBuf == 0 }

// writeChunked writes data to w as the chunking says.  Every Write gets its
// bytes in a transfer buffer that is overwritten as soon as the call returns
// (io.Writer: "Write must not retain p"), so an encoder that keeps a slice of
// the caller's buffer beyond the call produces wrong output.
func writeChunked(w io.Writer, data []byte, c Chunking) error {
	var scratch []byte
	write := func(chunk []byte) error {
		if cap(scratch) < len(chunk) {
			scratch = make([]byte, len(chunk))
		}
		p := scratch[:len(chunk)]
		copy(p, chunk)
		m, err := w.Write(p)
		for i := range p {
			p[i] = ^chunk[i] ^ 0x5a
		}
		if err != nil {
			return err
		}
		if m != len(chunk) {
			return fmt.Errorf("short write %d of %d without error", m, len(chunk))
		}
		return nil
	}
	switch {
	case c.WSize > 0:
		for len(data) > 0 {
			n := min(c.WSize, len(data))
			if err := write(data[:n]); err != nil {
				return err
			}
			data = data[n:]
		}
		return nil
	case len(c.Cuts) > 0:
		prev := 0
		for _, cut := range append(append([]int{}, c.Cuts...), len(data)) {
			if err := write(data[prev:cut]); err != nil {
				return err
			}
			prev = cut
		}
		return nil
	default:
		return write(data)
	}
}

var errStall = errors.New("reader stalls: 1000 consecutive Read calls returned (0, nil)")

// readChunked reads everything from r with Read calls of size rbuf.  limit
// bounds the output so that a decoder that never stops is detected.
func readChunked(r io.Reader, rbuf int, limit int) ([]byte, error) {
	if rbuf <= 0 {
		rbuf = 512
		// io.ReadAll semantics, but bounded
	}
	var out []byte
	p := make([]byte, rbuf)
	zero := 0
	for {
		n, err := r.Read(p)
		out = append(out, p[:n]...)
		if err == io.EOF {
			return out, nil
		}
		if err != nil {
			return out, err
		}
		if n == 0 {
			zero++
			if zero > 1000 {
				return out, errStall
			}
		} else {
			zero = 0
		}
		if len(out) > limit {
			return out, fmt.Errorf("decoder produced more than %d bytes", limit)
		}
	}
}

// Encode runs Filter.Encode over data.  rejected is true when the filter's
// validation (Info or Encode) does not accept the parameters for this version.
func Encode(v pdf.Version, f pdf.Filter, data []byte, c Chunking) (enc []byte, name pdf.Name, parms pdf.Dict, rejected bool, err error) {
	name, parms, ierr := f.Info(v)
	out := &sink{}
	w, eerr := f.Encode(v, out)
	if ierr != nil || eerr != nil {
		return nil, "", nil, true, nil
	}
	if err := writeChunked(w, data, c); err != nil {
		return nil, name, parms, false, fmt.Errorf("Write: %w", err)
	}
	if err := w.Close(); err != nil {
		return nil, name, parms, false, fmt.Errorf("Close: %w", err)
	}
	return out.Bytes(), name, parms, false, nil
}

// Decode runs Filter.Decode over enc.
func Decode(v pdf.Version, f pdf.Filter, enc []byte, rbuf int, limit int) ([]byte, error) {
	budget := membudget.New(limits.StreamBudget(int64(len(enc))))
	rd, err := f.Decode(v, bytes.NewReader(enc), budget)
	if err != nil {
		return nil, fmt.Errorf("Decode: %w", err)
	}
	got, err := readChunked(rd, rbuf, limit)
	if err != nil {
		rd.Close()
		return got, fmt.Errorf("Read: %w", err)
	}
	if err := rd.Close(); err != nil {
		return got, fmt.Errorf("Close: %w", err)
	}
	return got, nil
}

// effective returns the filter value MakeFilter(Info()) is expected to
// produce: the same parameters with the documented zero-value shorthands
// replaced by the PDF defaults (ISO 32000 Tables 8 and 11).
func effective(v pdf.Version, s FSpec) pdf.Filter {
	pred, colors, bpc, cols := s.Eff()
	if pred == 1 {
		colors, bpc, cols = 0, 0, 0
	}
	switch s.Kind {
	case "Flate":
		return pdf.FilterFlate{Predictor: pdf.FlatePredictor(pred), Colors: colors, BitsPerComponent: bpc, Columns: cols}
	case "LZW":
		return pdf.FilterLZW{Predictor: pdf.FlatePredictor(pred), Colors: colors, BitsPerComponent: bpc, Columns: cols, OffByOne: s.Early}
	case "Compress":
		// FilterCompress is documented as Flate from PDF 1.2, LZW (with the
		// PDF default EarlyChange) before
		if v >= pdf.V1_2 {
			return pdf.FilterFlate{Predictor: pdf.FlatePredictor(pred), Colors: colors, BitsPerComponent: bpc, Columns: cols}
		}
		return pdf.FilterLZW{Predictor: pdf.FlatePredictor(pred), Colors: colors, BitsPerComponent: bpc, Columns: cols, OffByOne: true}
	case "CCITT":
		f := s.Filter().(pdf.FilterCCITTFax)
		if f.Columns == 0 {
			f.Columns = 1728
		}
		if f.K < 0 {
			f.K = -1 // every negative K means Group 4
		}
		return f
	}
	return s.Filter()
}

// RoundTrip is the oracle for one filter: Encode, Info, MakeFilter, Decode.
// outcome classifies what was observed; f is non-nil for a violation.
func RoundTrip(v pdf.Version, s FSpec, data []byte, c Chunking) (outcome string, f *Failure) {
	flt := s.Filter()
	enc, name, parms, rejected, err := Encode(v, flt, data, c)
	if rejected {
		return "rejected:" + s.Kind, nil
	}
	if err != nil {
		return "fail", &Failure{FP: fingerprint(s, data, "encode-error"), What: fmt.Sprintf("%s v%s: encoding %d bytes of admissible shape fails: %v", s, VersionString(v), len(data), err)}
	}

	// Info -> MakeFilter reproduces the effective parameters
	f2, err := pdf.MakeFilter(name, parms)
	if err != nil {
		return "fail", &Failure{FP: "makefilter-error:" + s.Kind, What: fmt.Sprintf("%s: MakeFilter(%s, %s) fails: %v", s, name, hx.Show(parms), err)}
	}
	if want := effective(v, s); !reflect.DeepEqual(f2, want) {
		return "fail", &Failure{FP: "makefilter-params:" + s.Kind, What: fmt.Sprintf("%s v%s: Info gives %s %s; MakeFilter gives %#v, want %#v", s, VersionString(v), name, hx.Show(parms), f2, want)}
	}
	name2, parms2, err := f2.Info(v)
	if err != nil || name2 != name || !hx.Equal(parms2, parms) {
		return "fail", &Failure{FP: "info-not-stable:" + s.Kind, What: fmt.Sprintf("%s v%s: Info gives %s %s, the rebuilt filter gives %s %s (%v)", s, VersionString(v), name, hx.Show(parms), name2, hx.Show(parms2), err)}
	}

	limit := 2*len(data) + 16*s.RowBytes() + 4096
	got, err := Decode(v, f2, enc, c.RBuf, limit)
	if err != nil {
		return "fail", &Failure{FP: fingerprint(s, data, symptom(s, data, got, err)), What: fmt.Sprintf("%s v%s: decoding the encoded form of %d bytes fails after %d bytes: %v", s, VersionString(v), len(data), len(got), err), Encoded: enc, Got: got}
	}
	if !bytes.Equal(got, data) {
		return "fail", &Failure{FP: fingerprint(s, data, symptom(s, data, got, nil)), What: fmt.Sprintf("%s v%s: %d bytes in, %d bytes out, first difference at byte %d", s, VersionString(v), len(data), len(got), firstDiff(got, data)), Encoded: enc, Got: got}
	}
	return "ok:" + string(name), nil
}

func firstDiff(a, b []byte) int {
	n := min(len(a), len(b))
	for i := 0; i < n; i++ {
		if a[i] != b[i] {
			return i
		}
	}
	return n
}

// symptom is a coarse, input-independent description of how the round trip
// went wrong.
func symptom(s FSpec, want, got []byte, err error) string {
	switch {
	case err != nil && len(got) == len(want) && bytes.Equal(got, want):
		return "error-after-all-data"
	case err != nil:
		return "decode-error"
	case len(got) < len(want) && bytes.Equal(got, want[:len(got)]):
		if rb := s.RowBytes(); rb > 1 && (len(want)-len(got))%rb == 0 {
			return "rows-missing"
		}
		return "truncated"
	case len(got) > len(want) && bytes.Equal(got[:len(want)], want):
		return "extra-output"
	case len(got) == len(want):
		return "bytes-differ"
	}
	return "length-and-bytes-differ"
}

// fingerprint computes the defect class of a failing round trip.
func fingerprint(s FSpec, data []byte, sym string) string {
	if s.Kind == "CCITT" {
		return ccittFingerprint(s, data, sym)
	}
	fp := "roundtrip:" + s.Kind
	if s.Kind == "LZW" {
		fp += fmt.Sprintf(":EarlyChange=%d", map[bool]int{false: 0, true: 1}[s.Early])
	}
	if s.UsesPredictor() {
		_, _, bpc, _ := s.Eff()
		fp += fmt.Sprintf(":Predictor=%d:BitsPerComponent=%d", s.Pred, bpc)
	}
	return fp + ":" + sym
}
