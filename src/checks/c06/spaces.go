//go:build verif

package c06

import (
	"seehuhn.de/go/pdf/zzverif/ref/codecs"
)

// ---------------------------------------------------------------------------
// Flate / LZW / Compress parameter space

// Alphabets of the predictor parameter space.  The values outside the valid
// ranges (3, 16; -1; 3, 7; -1) are there to exercise the validation: they must
// be rejected, which prunes them.
var (
	PredAlphabet   = []int{0, 1, 2, 10, 11, 12, 13, 14, 15, 3, 16}
	ColorsAlphabet = []int{0, 1, 2, 3, 4, 5, -1}
	BPCAlphabet    = []int{0, 1, 2, 4, 8, 16, 3}
	ColsAlphabet   = []int{0, 1, 2, 3, 5, 8, 9, -1}
)

// CompressKinds lists the four compressing filter variants.
var CompressKinds = []FSpec{{Kind: "Flate"}, {Kind: "LZW", Early: false}, {Kind: "LZW", Early: true}, {Kind: "Compress"}}

// PredictorSpecs enumerates kind x Predictor x Colors x BPC x Columns.
func PredictorSpecs() []FSpec {
	var out []FSpec
	for _, k := range CompressKinds {
		for _, p := range PredAlphabet {
			for _, c := range ColorsAlphabet {
				for _, b := range BPCAlphabet {
					for _, n := range ColsAlphabet {
						s := k
						s.Pred, s.Colors, s.BPC, s.Cols = p, c, b, n
						out = append(out, s)
					}
				}
			}
		}
	}
	return out
}

// RowAlphabet is the byte alphabet of exhaustively enumerated rows.
var RowAlphabet = []byte{0x00, 0x01, 0x7F, 0x80, 0xFF}

// allStrings calls f with every string of exactly n letters.
func allStrings(alpha []byte, n int, f func(s []byte)) {
	buf := make([]byte, n)
	idx := make([]int, n)
	for {
		for i := range buf {
			buf[i] = alpha[idx[i]]
		}
		f(buf)
		i := n - 1
		for ; i >= 0; i-- {
			idx[i]++
			if idx[i] < len(alpha) {
				break
			}
			idx[i] = 0
		}
		if i < 0 {
			return
		}
	}
}

// PatternNames are the deterministic row patterns used where the exhaustive
// enumeration would be too large.
var PatternNames = []string{"zero", "ff", "ramp", "alt00ff", "alt807f", "sameRows", "maxDelta", "lcg", "paethTies"}

// Pattern returns rows x rb bytes of the named pattern.
func Pattern(name string, rows, rb int) []byte {
	out := make([]byte, rows*rb)
	x := uint32(2463534242)
	for r := 0; r < rows; r++ {
		for i := 0; i < rb; i++ {
			var b byte
			switch name {
			case "zero":
				b = 0
			case "ff":
				b = 0xff
			case "ramp":
				b = byte(i*37 + r*11 + 1)
			case "alt00ff":
				if i%2 == 1 {
					b = 0xff
				}
			case "alt807f":
				b = 0x80
				if (i+r)%2 == 1 {
					b = 0x7f
				}
			case "sameRows": // every row equal: Up gives zeros
				b = byte(i*29 + 3)
			case "maxDelta": // 00 FF 00 .. / FF 00 FF ..
				if (i+r)%2 == 1 {
					b = 0xff
				}
			case "lcg":
				x = x*1664525 + 1013904223
				b = byte(x >> 24)
			case "paethTies":
				// even rows: 10 or 30 at random, odd rows: 0.  In an odd row
				// left = 0 and (up, upper-left) takes all four combinations,
				// among them (30, 10), where the Paeth distances to "up" and
				// to "upper-left" tie (pa=20, pb=pc=10) for every pixel size.
				x = x*1664525 + 1013904223
				if r%2 == 0 {
					b = 10
					if x>>31 != 0 {
						b = 30
					}
				}
			}
			out[r*rb+i] = b
		}
	}
	return out
}

// PredictorData calls f with every input of the predictor space for rows of
// rb bytes: the empty input, every string over RowAlphabet of rows*rb <= maxExh
// bytes for rows 1..3, and the patterns for the larger shapes.  The slice
// passed to f is reused.
func PredictorData(rb, maxExh int, f func(data []byte)) {
	f(nil)
	for rows := 1; rows <= 3; rows++ {
		if rows*rb <= maxExh {
			allStrings(RowAlphabet, rows*rb, f)
			if rows >= 2 && rb >= 2 {
				// the alphabet has no Paeth ties
				f(Pattern("paethTies", rows, rb))
			}
			continue
		}
		for _, p := range PatternNames {
			f(Pattern(p, rows, rb))
		}
	}
}

// MaskPadding clears the padding bits at the end of every row (rows of rb
// bytes, bits significant bits each).
func MaskPadding(data []byte, rb, bits int) {
	pad := rb*8 - bits
	if pad <= 0 || rb == 0 {
		return
	}
	for i := rb - 1; i < len(data); i += rb {
		data[i] &^= byte(1)<<uint(pad) - 1
	}
}

// ---------------------------------------------------------------------------
// generators for long inputs

// Gen returns the first n bytes of a named deterministic generator (see
// codecs.TestData).
func Gen(name string, n int) []byte { return codecs.TestData[name](n) }

// LZWBoundaryLengths returns the input lengths at which, for an input whose
// every code adds a table entry ("nopair"), the table size is within +-win of
// a code-width switch or of the clear code, for either EarlyChange value.
func LZWBoundaryLengths(win int) []int {
	seen := map[int]bool{}
	var out []int
	// n input bytes give n-1 table entries 258..256+n; the interesting table
	// indices are 510..512, 1022..1024, 2046..2048, 4093..4096; a second
	// cycle starts after the clear code (about 3837 bytes in)
	for _, idx := range []int{511, 1023, 2047, 4095} {
		for _, cycle := range []int{0, 3836, 3837, 3838} {
			if cycle > 0 && idx != 511 {
				continue
			}
			c := idx - 256 + cycle
			for d := -win; d <= win; d++ {
				if n := c + d; n >= 0 && !seen[n] {
					seen[n] = true
					out = append(out, n)
				}
			}
		}
	}
	return out
}

// ---------------------------------------------------------------------------
// chunkings

// AllCuts returns every way to cut n bytes into at most three writes
// (including empty writes).
func AllCuts(n int) [][]int {
	out := [][]int{nil}
	for i := 0; i <= n; i++ {
		out = append(out, []int{i})
	}
	for i := 0; i <= n; i++ {
		for j := i; j <= n; j++ {
			out = append(out, []int{i, j})
		}
	}
	return out
}

// AllStrings calls f with every string of exactly n letters over alpha (the
// slice passed to f is reused).
func AllStrings(alpha []byte, n int, f func(s []byte)) { allStrings(alpha, n, f) }
