//go:build verif

// Package c06 decides C06: for every encodable stream filter and every
// parameter set its validation accepts, decode(encode(x)) = x through
// Info -> MakeFilter, for every chunking and for chains through OpenStream.
//
// The enumerators in this package (parameter spaces, input alphabets) are
// exported because C07 runs independent codecs over the same spaces.
package c06

import (
	"encoding/hex"
	"fmt"
	"strings"

	"seehuhn.de/go/pdf"
)

// FSpec is a JSON-able description of one filter with its Go-side parameters
// (i.e. before defaults are filled in).
type FSpec struct {
	Kind string `json:"kind"` // A85 AHx RL Flate LZW Compress CCITT

	// Flate / LZW / Compress
	Pred   int  `json:"pred,omitempty"`
	Colors int  `json:"colors,omitempty"`
	BPC    int  `json:"bpc,omitempty"`
	Cols   int  `json:"cols,omitempty"`  // predictor Columns, or CCITT Columns
	Early  bool `json:"early,omitempty"` // LZW: OffByOne, i.e. /EarlyChange 1

	// CCITTFax
	K        int  `json:"k,omitempty"`
	EOL      bool `json:"eol,omitempty"`
	Align    bool `json:"align,omitempty"`
	BlackIs1 bool `json:"blackis1,omitempty"`
	NoEOB    bool `json:"noeob,omitempty"` // IgnoreEndOfBlock, i.e. /EndOfBlock false
	Rows     int  `json:"rows,omitempty"`
}

// Filter builds the library filter value.
func (s FSpec) Filter() pdf.Filter {
	switch s.Kind {
	case "A85":
		return pdf.FilterASCII85{}
	case "AHx":
		return pdf.FilterASCIIHex{}
	case "RL":
		return pdf.FilterRunLength{}
	case "Flate":
		return pdf.FilterFlate{Predictor: pdf.FlatePredictor(s.Pred), Colors: s.Colors, BitsPerComponent: s.BPC, Columns: s.Cols}
	case "LZW":
		return pdf.FilterLZW{Predictor: pdf.FlatePredictor(s.Pred), Colors: s.Colors, BitsPerComponent: s.BPC, Columns: s.Cols, OffByOne: s.Early}
	case "Compress":
		return pdf.FilterCompress{Predictor: pdf.FlatePredictor(s.Pred), Colors: s.Colors, BitsPerComponent: s.BPC, Columns: s.Cols}
	case "CCITT":
		return pdf.FilterCCITTFax{K: s.K, EndOfLine: s.EOL, EncodedByteAlign: s.Align, Columns: s.Cols, Rows: s.Rows, IgnoreEndOfBlock: s.NoEOB, BlackIs1: s.BlackIs1}
	}
	panic("unknown filter kind " + s.Kind)
}

func (s FSpec) String() string {
	switch s.Kind {
	case "Flate", "LZW", "Compress":
		e := ""
		if s.Kind == "LZW" {
			e = fmt.Sprintf(",early=%v", s.Early)
		}
		return fmt.Sprintf("%s(pred=%d,colors=%d,bpc=%d,cols=%d%s)", s.Kind, s.Pred, s.Colors, s.BPC, s.Cols, e)
	case "CCITT":
		return fmt.Sprintf("CCITT(K=%d,EndOfLine=%v,EncodedByteAlign=%v,BlackIs1=%v,EndOfBlock=%v,Rows=%d,Columns=%d)", s.K, s.EOL, s.Align, s.BlackIs1, !s.NoEOB, s.Rows, s.Cols)
	}
	return s.Kind
}

// UsesPredictor reports whether a predictor other than "none" is selected.
func (s FSpec) UsesPredictor() bool { return s.Pred >= 2 }

// Eff returns the effective predictor parameters (PDF defaults filled in):
// this is the harness's own reading of ISO 32000 Table 8, not the library's.
func (s FSpec) Eff() (pred, colors, bpc, cols int) {
	pred, colors, bpc, cols = s.Pred, s.Colors, s.BPC, s.Cols
	if pred == 0 {
		pred = 1
	}
	if colors == 0 {
		colors = 1
	}
	if bpc == 0 {
		bpc = 8
	}
	if cols == 0 {
		cols = 1
	}
	return
}

// RowBytes is the row length in bytes of the input of a predictor filter, or
// of a CCITT bitmap.
func (s FSpec) RowBytes() int {
	if s.Kind == "CCITT" {
		c := s.Cols
		if c == 0 {
			c = 1728
		}
		return (c + 7) / 8
	}
	_, colors, bpc, cols := s.Eff()
	return (colors*bpc*cols + 7) / 8
}

// Versions is the version alphabet of C06/C07.
var Versions = []pdf.Version{pdf.V1_1, pdf.V1_2, pdf.V1_4, pdf.V1_5, pdf.V2_0}

func VersionString(v pdf.Version) string {
	s, err := v.ToString()
	if err != nil {
		return fmt.Sprintf("?%d", int(v))
	}
	return s
}

// Case is one replayable execution.
type Case struct {
	Space   string  `json:"space"`
	Version string  `json:"version"`
	Filters []FSpec `json:"filters"`
	Data    string  `json:"data_hex"`
	// Cuts are the positions at which the input is cut into separate Write
	// calls (nil: one Write); WSize > 0 writes in pieces of that size instead.
	Cuts  []int `json:"cuts,omitempty"`
	WSize int   `json:"wsize,omitempty"`
	// RBuf is the buffer size of every Read call (0: io.ReadAll).
	RBuf int `json:"rbuf,omitempty"`
	// Stream selects the path through Writer.OpenStream / DecodeStream
	// instead of calling the filter directly.
	Stream bool `json:"stream,omitempty"`

	// filled in for violations (not used by replay)
	Encoded string `json:"encoded_hex,omitempty"`
	Got     string `json:"got_hex,omitempty"`
	Detail  string `json:"detail,omitempty"`
}

func (c *Case) size() int {
	n := len(c.Data)
	for _, f := range c.Filters {
		if f.Kind == "CCITT" {
			n += f.Cols // prefer narrow images
		}
	}
	return n*8 + len(c.Cuts) + len(c.Filters)
}

func clip(b []byte) string {
	if len(b) > 600 {
		return hex.EncodeToString(b[:600]) + fmt.Sprintf("...(%d bytes)", len(b))
	}
	return hex.EncodeToString(b)
}

func specsString(fs []FSpec) string {
	var p []string
	for _, f := range fs {
		p = append(p, f.String())
	}
	return strings.Join(p, " + ")
}
