//go:build verif

package c06

import (
	"fmt"
	"sort"
	"strings"
)

// CCITTKs is the K alphabet.
var CCITTKs = []int{-1, 0, 1, 2, 4}

// CCITTParamSets enumerates K x EndOfLine x EncodedByteAlign x BlackIs1 x
// EndOfBlock x Rows{absent, exact} for a bitmap of the given size.
func CCITTParamSets(cols, rows int) []FSpec {
	var out []FSpec
	for _, k := range CCITTKs {
		for m := 0; m < 32; m++ {
			s := FSpec{Kind: "CCITT", K: k, Cols: cols, EOL: m&1 != 0, Align: m&2 != 0, BlackIs1: m&4 != 0, NoEOB: m&8 != 0}
			if m&16 != 0 {
				if rows == 0 {
					continue // Rows=0 means absent
				}
				s.Rows = rows
			}
			out = append(out, s)
		}
	}
	return out
}

// Bitmap is a 1 bit per pixel image, rows padded to bytes (padding zero).
type Bitmap struct {
	Cols, Rows int
	Data       []byte
}

func rowBytes(cols int) int { return (cols + 7) / 8 }

func packRow(dst []byte, cols int, bits uint64) {
	// bit cols-1 of "bits" is the leftmost pixel
	for x := 0; x < cols; x++ {
		if bits>>(uint(cols-1-x))&1 != 0 {
			dst[x/8] |= 0x80 >> uint(x%8)
		}
	}
}

// AllBitmaps returns every bitmap of the given size (cols*rows <= 20).
func AllBitmaps(cols, rows int) []Bitmap {
	n := cols * rows
	out := make([]Bitmap, 0, 1<<uint(n))
	rb := rowBytes(cols)
	for v := uint64(0); v < 1<<uint(n); v++ {
		data := make([]byte, rows*rb)
		for r := 0; r < rows; r++ {
			packRow(data[r*rb:(r+1)*rb], cols, v>>(uint(cols*(rows-1-r)))&(1<<uint(cols)-1))
		}
		out = append(out, Bitmap{cols, rows, data})
	}
	return out
}

// RowsFromChanges returns the rows of the given width whose set of changing
// elements (positions where the colour differs from the pixel to the left,
// an imaginary white pixel preceding the row) is a subset of pos with at most
// maxChanges elements.
func RowsFromChanges(cols int, pos []int, maxChanges int) [][]byte {
	var ps []int
	seen := map[int]bool{}
	for _, p := range pos {
		if p >= 0 && p < cols && !seen[p] {
			seen[p] = true
			ps = append(ps, p)
		}
	}
	sort.Ints(ps)
	var out [][]byte
	var rec func(start int, chosen []int)
	rec = func(start int, chosen []int) {
		row := make([]byte, rowBytes(cols))
		// 0 = white in this construction, colour flips at every chosen position
		col := 0
		ci := 0
		for x := 0; x < cols; x++ {
			if ci < len(chosen) && chosen[ci] == x {
				col ^= 1
				ci++
			}
			if col == 1 {
				row[x/8] |= 0x80 >> uint(x%8)
			}
		}
		out = append(out, row)
		if len(chosen) == maxChanges {
			return
		}
		for i := start; i < len(ps); i++ {
			rec(i+1, append(chosen, ps[i]))
		}
	}
	rec(0, nil)
	return out
}

// BitmapsFromRows returns all bitmaps with exactly nrows rows drawn from rows.
func BitmapsFromRows(cols int, rows [][]byte, nrows int) []Bitmap {
	var out []Bitmap
	idx := make([]int, nrows)
	for {
		var data []byte
		for _, i := range idx {
			data = append(data, rows[i]...)
		}
		out = append(out, Bitmap{cols, nrows, data})
		i := nrows - 1
		for ; i >= 0; i-- {
			idx[i]++
			if idx[i] < len(rows) {
				break
			}
			idx[i] = 0
		}
		if i < 0 {
			return out
		}
	}
}

// CCITTSpaceSpec describes one family of bitmaps of one width: all bitmaps
// with 0..FullRows rows (none if FullRows < 0), and the bitmaps with
// FromRows..ToRows rows whose rows come from the row alphabet with at most
// MaxChanges changing elements at the interesting positions.
type CCITTSpaceSpec struct {
	Cols       int
	FullRows   int
	FromRows   int
	ToRows     int
	MaxChanges int
}

func (s CCITTSpaceSpec) String() string {
	out := fmt.Sprintf("cols=%d", s.Cols)
	if s.FullRows >= 0 {
		out += fmt.Sprintf(" all bitmaps with <=%d rows", s.FullRows)
	}
	if s.ToRows >= s.FromRows && s.ToRows > 0 {
		out += fmt.Sprintf(" %d..%d rows over the rows with <=%d changes at %v", s.FromRows, s.ToRows, s.MaxChanges, validPositions(s.Cols))
	}
	return out
}

// interestingPositions are the change positions of the row alphabet: the
// first pixels, the byte boundary, the make-up code boundary, the last pixels.
func interestingPositions(cols int) []int {
	return []int{0, 1, 3, 4, 7, 8, 9, 63, 64, 65, cols - 65, cols - 64, cols - 2, cols - 1}
}

func validPositions(cols int) []int {
	var ps []int
	seen := map[int]bool{}
	for _, p := range interestingPositions(cols) {
		if p >= 0 && p < cols && !seen[p] {
			seen[p] = true
			ps = append(ps, p)
		}
	}
	sort.Ints(ps)
	return ps
}

// Bitmaps expands a family.
func (s CCITTSpaceSpec) Bitmaps() []Bitmap {
	var out []Bitmap
	for r := 0; r <= s.FullRows; r++ {
		out = append(out, AllBitmaps(s.Cols, r)...)
	}
	if s.ToRows >= s.FromRows && s.ToRows > 0 {
		rows := RowsFromChanges(s.Cols, interestingPositions(s.Cols), s.MaxChanges)
		for r := max(s.FromRows, 1); r <= s.ToRows; r++ {
			out = append(out, BitmapsFromRows(s.Cols, rows, r)...)
		}
	}
	return out
}

// CCITTSpaces returns the bitmap families of a tier.
func CCITTSpaces(thorough bool) []CCITTSpaceSpec {
	if thorough {
		return []CCITTSpaceSpec{
			{1, 12, 0, 0, 0}, {2, 6, 0, 0, 0}, {3, 4, 0, 0, 0}, {4, 3, 4, 4, 2}, {5, 2, 3, 3, 3}, {6, 2, 3, 3, 2},
			{7, 1, 2, 2, 7}, {8, 1, 2, 2, 8}, {9, 1, 2, 2, 3}, {9, -1, 3, 3, 1},
			{16, 0, 1, 2, 3}, {16, -1, 3, 3, 1}, {17, 0, 1, 2, 3}, {17, -1, 3, 3, 1},
			{63, 0, 1, 2, 2}, {64, 0, 1, 2, 2}, {65, 0, 1, 2, 2}, {1728, 0, 1, 2, 2}, {2560, 0, 1, 2, 2}, {2561, 0, 1, 2, 2},
			{2623, 0, 1, 2, 1}, {5121, 0, 1, 2, 1},
		}
	}
	return []CCITTSpaceSpec{
		{1, 8, 0, 0, 0}, {2, 4, 0, 0, 0}, {3, 3, 0, 0, 0}, {4, 2, 3, 3, 2}, {5, 2, 0, 0, 0}, {6, 1, 2, 2, 2},
		{7, 1, 2, 2, 2}, {8, 1, 2, 2, 2}, {9, 1, 2, 2, 2},
		{16, 0, 1, 2, 2}, {16, -1, 3, 3, 1}, {17, 0, 1, 2, 2},
		{63, 0, 1, 1, 2}, {64, 0, 1, 2, 1}, {65, 0, 1, 1, 2}, {1728, 0, 1, 2, 1}, {2560, 0, 1, 1, 2}, {2561, 0, 1, 2, 1}, {5121, 0, 1, 1, 1},
	}
}

// Defect classes of the CCITTFax round trip.  Each name is a predicate over
// the parameters (plus, for the last one, over the bitmap).
const (
	ClassAlign    = "ccitt-roundtrip:EncodedByteAlign=true"
	ClassNoEOB    = "ccitt-roundtrip:EndOfBlock=false"
	ClassRTC2D    = "ccitt-roundtrip:K>0,EndOfBlock=true,Rows=absent"
	ClassMakeUp64 = "ccitt-roundtrip:K>=0,Columns>=64,row-ends-with-run-of-n*64"
	// ClassAlignNoEOB: neither option alone breaks the bitmap, both together do
	ClassAlignNoEOB = "ccitt-roundtrip:EncodedByteAlign=true,EndOfBlock=false"
)

// ccittClassText describes the CCITT defect classes in words.
var ccittClassText = map[string]string{
	ClassAlign:      "CCITTFax: data encoded with EncodedByteAlign=true is not decoded to the input (the decoder never skips the fill bits the encoder inserts after each line)",
	ClassNoEOB:      "CCITTFax: with EndOfBlock=false the end of the data is lost or garbled (the decoder treats looking ahead past the last byte as the end of the data, although the bits in hand still hold codes)",
	ClassRTC2D:      "CCITTFax: with K>0, EndOfBlock=true and no Rows the decoder does not recognise the return-to-control sequence the encoder writes (six EOL+1) and decodes it as image data or fails",
	ClassAlignNoEOB: "CCITTFax: EncodedByteAlign=true together with EndOfBlock=false loses the end of the data for bitmaps which either option alone does not break (combination of the two defects: fill bits are not skipped, and the decoder stops when its look-ahead reaches the last byte)",
	ClassMakeUp64:   "CCITTFax: a 1-D coded line whose last run is a multiple of 64 pixels long desynchronises the decoder (the terminating code after the make-up code is left unread)",
}

func ccittOK(s FSpec, data []byte) bool {
	flt := s.Filter()
	enc, _, _, rejected, err := Encode(pdfV14, flt, data, Chunking{})
	if rejected || err != nil {
		return false
	}
	got, err := Decode(pdfV14, flt, enc, 0, 2*len(data)+16*s.RowBytes()+4096)
	return err == nil && string(got) == string(data)
}

// endsWithRunOf64 reports whether some row of the bitmap ends with a run
// whose length is a positive multiple of 64.
func endsWithRunOf64(cols int, data []byte) bool {
	rb := rowBytes(cols)
	px := func(row []byte, x int) byte { return row[x/8] >> (7 - uint(x%8)) & 1 }
	for r := 0; (r+1)*rb <= len(data); r++ {
		row := data[r*rb : (r+1)*rb]
		n := 1
		for n < cols && px(row, cols-1-n) == px(row, cols-1) {
			n++
		}
		if n >= 64 && n%64 == 0 {
			return true
		}
	}
	return false
}

// breakFinalRuns returns a copy of the bitmap in which the last pixel of every
// row that ends with a run of n*64 pixels is inverted.
func breakFinalRuns(cols int, data []byte) []byte {
	out := append([]byte{}, data...)
	rb := rowBytes(cols)
	for r := 0; (r+1)*rb <= len(out); r++ {
		row := out[r*rb : (r+1)*rb]
		if endsWithRunOf64(cols, row) {
			row[(cols-1)/8] ^= 0x80 >> uint((cols-1)%8)
		}
	}
	return out
}

// ccittFingerprint finds the defect class of a failing CCITT round trip by
// experiment: starting from the parameter set closest to s that is known to
// be handled (no byte alignment, end-of-block pattern present, Rows given),
// it switches on one by one the options in which s differs and reports the
// first one that alone breaks this bitmap.
func ccittFingerprint(s FSpec, data []byte, sym string) string {
	rows := 0
	if rb := s.RowBytes(); rb > 0 {
		rows = len(data) / rb
	}
	base := s
	base.Align = false
	if rows > 0 {
		base.NoEOB = false
		if s.K > 0 {
			// for K <= 0 the end-of-block pattern is recognised, so Rows is
			// not an option that matters
			base.Rows = rows
		}
	} else {
		base.NoEOB, base.Rows = true, 0
	}
	run64 := s.K >= 0 && s.Cols >= 64 && endsWithRunOf64(s.Cols, data)
	raw := fmt.Sprintf("K=%d,EndOfLine=%v,EncodedByteAlign=%v,EndOfBlock=%v,Rows=%d,BlackIs1=%v:%s", s.K, s.EOL, s.Align, !s.NoEOB, s.Rows, s.BlackIs1, sym)
	if !ccittOK(base, data) {
		if run64 {
			return ClassMakeUp64
		}
		return "ccitt-roundtrip:unclassified:fails-without-Align/EndOfBlock=false/absent-Rows:" + raw
	}
	// the options in which s differs from base
	type flag struct {
		name  string
		apply func(t *FSpec)
	}
	var flags []flag
	if s.Align {
		flags = append(flags, flag{"EncodedByteAlign=true", func(t *FSpec) { t.Align = true }})
	}
	if s.NoEOB != base.NoEOB {
		flags = append(flags, flag{fmt.Sprintf("EndOfBlock=%v", !s.NoEOB), func(t *FSpec) { t.NoEOB = s.NoEOB }})
	}
	if s.Rows != base.Rows {
		flags = append(flags, flag{"Rows=absent", func(t *FSpec) { t.Rows = 0 }})
	}
	// smallest subset of them (first in this order) that breaks this bitmap
	for size := 1; size <= len(flags); size++ {
		for m := 1; m < 1<<uint(len(flags)); m++ {
			var names []string
			t := base
			for i, f := range flags {
				if m&(1<<uint(i)) != 0 {
					names = append(names, f.name)
					f.apply(&t)
				}
			}
			if len(names) != size || ccittOK(t, data) {
				continue
			}
			if run64 && ccittOK(t, breakFinalRuns(s.Cols, data)) {
				// A line ending with a run of n*64 pixels leaves the decoder
				// out of step, and whether that shows depends on what
				// follows.  Here it does: the same parameters handle the
				// bitmap once the last pixel of such lines is inverted.
				return ClassMakeUp64
			}
			key := strings.Join(names, ",")
			has := func(n string) bool { return strings.Contains(key, n) }
			switch {
			case has("EncodedByteAlign=true") && has("EndOfBlock=false"):
				return ClassAlignNoEOB
			case has("EncodedByteAlign=true"):
				// alone, or only visible when the decoder is not stopped by Rows
				return ClassAlign
			case has("EndOfBlock=false"):
				return ClassNoEOB
			case s.K > 0:
				// Rows=absent (for an empty bitmap: EndOfBlock=true, the
				// baseline having neither an end-of-block pattern nor Rows)
				return ClassRTC2D
			}
			kc := "K=0"
			if s.K < 0 {
				kc = "K<0"
			} else if s.K > 0 {
				kc = "K>0"
			}
			return "ccitt-roundtrip:unclassified:" + kc + "," + key + ":" + sym
		}
	}
	return "ccitt-roundtrip:unclassified:interaction:" + raw
}
