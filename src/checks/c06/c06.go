//go:build verif

package c06

import (
	"encoding/hex"
	"encoding/json"
	"fmt"
	"hash/maphash"
	"os"
	"strings"
	"sync"
	"time"

	"seehuhn.de/go/pdf"
	"seehuhn.de/go/pdf/zzverif/engine/ev"
	"seehuhn.de/go/pdf/zzverif/ref/codecs"
)

// Runner executes cases and keeps the smallest witness of every defect class.
type Runner struct {
	R    *ev.Run
	mu   sync.Mutex
	wit  map[string]*Case
	size map[string]int
	seed maphash.Seed
}

func NewRunner(r *ev.Run) *Runner {
	return &Runner{R: r, wit: map[string]*Case{}, size: map[string]int{}, seed: maphash.MakeSeed()}
}

func caseSize(specs []FSpec, data []byte, c Chunking) int {
	n := len(data)
	for _, f := range specs {
		if f.Kind == "CCITT" {
			n += f.Cols
			// among equal bitmaps prefer the parameter set closest to the defaults
			for _, b := range []bool{f.EOL, f.Align, f.BlackIs1, f.NoEOB, f.Rows > 0, f.K > 0, f.K != 0} {
				if b {
					n++
				}
			}
		}
	}
	return n*16 + len(c.Cuts) + c.WSize%7 + c.RBuf%7 + len(specs)
}

// Fail records a violation, keeping the smallest witness per fingerprint.
func (rn *Runner) Fail(space string, v pdf.Version, specs []FSpec, data []byte, c Chunking, stream bool, f *Failure) {
	sz := caseSize(specs, data, c)
	mk := func() Case {
		return Case{
			Space: space, Version: VersionString(v), Filters: append([]FSpec{}, specs...), Data: hex.EncodeToString(data),
			Cuts: append([]int(nil), c.Cuts...), WSize: c.WSize, RBuf: c.RBuf, Stream: stream,
			Encoded: clip(f.Encoded), Got: clip(f.Got), Detail: f.What,
		}
	}
	rn.mu.Lock()
	w := rn.wit[f.FP]
	if w == nil {
		cs := mk()
		w = &cs
		rn.wit[f.FP] = w
		rn.size[f.FP] = sz
	} else if sz < rn.size[f.FP] {
		*w = mk()
		rn.size[f.FP] = sz
	}
	rn.mu.Unlock()
	rn.R.Violation(f.FP, classDescription(f.FP)+" (smallest witness and its details: see the case in the replay file)", w)
}

// classDescription explains a fingerprint in words.
func classDescription(fp string) string {
	if d, ok := ccittClassText[fp]; ok {
		return d
	}
	switch {
	case strings.HasPrefix(fp, "roundtrip:"):
		return "decode(encode(x)) != x for the filter/parameter class " + strings.TrimPrefix(fp, "roundtrip:")
	case strings.HasPrefix(fp, "makefilter-params:"):
		return "MakeFilter(Info()) does not reproduce the effective parameters"
	case strings.HasPrefix(fp, "stream-dict:"):
		return "/Filter and /DecodeParms written by OpenStream do not describe the filters applied"
	case strings.HasPrefix(fp, "stream-"):
		return "data written through Writer.OpenStream is not read back identically"
	}
	return "filter round trip violated, class " + fp
}

// Exec runs the single-filter oracle once.
func (rn *Runner) Exec(space string, v pdf.Version, s FSpec, data []byte, c Chunking) {
	r := rn.R
	r.Eval(1)
	outcome, f := RoundTrip(v, s, data, c)
	if f == nil {
		r.Outcome(outcome)
		return
	}
	if !c.plain() {
		// does the failure depend on the chunking?
		if _, f2 := RoundTrip(v, s, data, Chunking{}); f2 == nil {
			f.FP += ":only-when-chunked"
		}
	}
	r.Outcome("fail:" + f.FP)
	rn.Fail(space, v, []FSpec{s}, data, c, false, f)
}

// ExecStream runs the OpenStream oracle once.
func (rn *Runner) ExecStream(space string, v pdf.Version, specs []FSpec, data []byte, c Chunking) {
	r := rn.R
	r.Eval(1)
	outcome, f := StreamRoundTrip(v, specs, data, c)
	if f == nil {
		r.Outcome(outcome)
		return
	}
	// Is it one filter of the chain that fails on its own input?  Then the
	// defect class is that of the single filter.
	stage := data
	for i := len(specs) - 1; i >= 0; i-- {
		if _, f1 := RoundTrip(v, specs[i], stage, c); f1 != nil {
			if _, f2 := RoundTrip(v, specs[i], stage, Chunking{}); f2 == nil {
				f1.FP += ":only-when-chunked"
			}
			f.FP = f1.FP
			break
		}
		enc, _, _, rejected, err := Encode(v, specs[i].Filter(), stage, Chunking{})
		if rejected || err != nil {
			break
		}
		stage = enc
	}
	r.Outcome("fail:" + f.FP)
	rn.Fail(space, v, specs, data, c, true, f)
}

func (rn *Runner) distinct(parts ...any) {
	var h maphash.Hash
	h.SetSeed(rn.seed)
	for _, p := range parts {
		switch x := p.(type) {
		case []byte:
			h.Write(x)
		case string:
			h.WriteString(x)
		default:
			fmt.Fprint(&h, x)
		}
		h.WriteByte(0)
	}
	rn.R.DistinctU(h.Sum64())
}

func only(space string) bool {
	sel := os.Getenv("VERIF_ONLY")
	if sel == "" {
		return true
	}
	for _, s := range strings.Split(sel, ",") {
		if s == space {
			return true
		}
	}
	return false
}

// Run is the check.
func Run(tier string) int {
	budget := 4 * time.Minute
	if tier == "thorough" {
		budget = 25 * time.Minute
	}
	r := ev.New("C06", tier, "exploration", budget)
	rn := NewRunner(r)
	r.Rule("one execution = one (filter parameters, PDF version, input, write/read chunking) tuple run through Filter.Encode -> Info -> MakeFilter -> Decode (or Writer.OpenStream -> reopen -> DecodeStream for chains) on the real code; distinct = distinct (parameter set, version, input) triples that the validation accepts and whose input is not empty")
	r.Assume(
		"inputs are whole rows; padding bits of rows are zero for the TIFF predictor at sub-byte depths and for CCITTFax (the encoder rejects other bitmaps)",
		"parameter sets rejected by Info/Encode are pruned (counted as rejected:*)",
		"independent codecs of ref/codecs (self-tested against compress/lzw, x/image/tiff/lzw, image/png, x/image/tiff at start-up) are used to decode the raw stream data in the chain space",
	)
	if os.Getenv("VERIF_ONLY") != "" {
		r.Capped("VERIF_ONLY=" + os.Getenv("VERIF_ONLY") + " selects a subset of the spaces")
	}
	if err := codecs.SelfTest(); err != nil {
		r.Infra(err.Error())
		return r.Finish()
	}

	// known findings are run explicitly
	for _, k := range r.KnownWitnesses() {
		var c Case
		if json.Unmarshal(k.Witness, &c) == nil {
			rn.replay(&c)
		}
	}

	if only("predictor") {
		rn.predictorSpace()
	}
	if only("lzw") {
		rn.lzwSpace()
	}
	if only("ascii") {
		rn.asciiSpace()
	}
	if only("ccitt") {
		rn.ccittSpace()
	}
	if only("chains") {
		rn.chainSpace()
	}
	if only("chunks") {
		rn.chunkSpace()
	}
	if only("wide") {
		rn.wideSpace()
	}
	return r.Finish()
}

// ---------------------------------------------------------------------------

func (rn *Runner) predictorSpace() {
	r := rn.R
	specs := PredictorSpecs()
	maxExh := ev.Pick(r, 4, 5)
	versions := Versions
	r.Dim("predictor_space", map[string]any{
		"kinds": []string{"Flate", "LZW/EarlyChange=0", "LZW/EarlyChange=1", "Compress"}, "Predictor": PredAlphabet, "Colors": ColorsAlphabet,
		"BitsPerComponent": BPCAlphabet, "Columns": ColsAlphabet, "versions": []string{"1.1", "1.2", "1.4", "1.5", "2.0"},
		"rows": []int{0, 1, 2, 3}, "row_alphabet_hex": hex.EncodeToString(RowAlphabet), "exhaustive_up_to_bytes": maxExh, "patterns": PatternNames,
		"parameter_sets": len(specs),
	})
	r.Sample(Case{Space: "predictor", Version: "1.5", Filters: []FSpec{{Kind: "Flate", Pred: 14, Colors: 3, BPC: 16, Cols: 2}}, Data: hex.EncodeToString(Pattern("paethTies", 2, 12))})
	r.Par(len(specs), func(i int) {
		s := specs[i]
		flt := s.Filter()
		for vi, v := range versions {
			if r.Expired() {
				return
			}
			if _, _, err := flt.Info(v); err != nil {
				r.Eval(1)
				r.Outcome("rejected:" + s.Kind)
				continue
			}
			// The version only enters through the validation (and the choice
			// made by FilterCompress): the quick tier runs the full input set
			// for the lowest and the highest accepting version only.
			full := r.Thorough() || vi == len(versions)-1
			if !full {
				_, _, errPrev := flt.Info(versions[max(vi-1, 0)])
				full = vi == 0 || errPrev != nil
			}
			rb := s.RowBytes()
			_, colors, bpc, cols := s.Eff()
			n := 0
			PredictorData(rb, maxExh, func(data []byte) {
				n++
				if !full && n%16 != 1 {
					return
				}
				if s.Pred == 2 {
					d := append([]byte{}, data...)
					MaskPadding(d, rb, colors*bpc*cols)
					data = d
				}
				rn.Exec("predictor", v, s, data, Chunking{})
				if len(data) > 0 {
					rn.distinct("p", i, int(v), data)
				}
			})
		}
	})
}

func (rn *Runner) lzwSpace() {
	r := rn.R
	gens := ev.Pick(r, []string{"nopair"}, []string{"nopair", "lcg", "lcg4", "period3", "zeros"})
	maxLen := ev.Pick(r, 4200, 8200)
	r.Dim("lzw_space", map[string]any{"generators": gens, "lengths": fmt.Sprintf("every length 0..%d", maxLen), "EarlyChange": []int{0, 1}, "filters": []string{"LZW", "Flate"}})
	type job struct {
		gen string
		n   int
	}
	var jobs []job
	for _, g := range gens {
		for n := 0; n <= maxLen; n++ {
			jobs = append(jobs, job{g, n})
		}
	}
	r.Sample(Case{Space: "lzw", Version: "1.4", Filters: []FSpec{{Kind: "LZW", Early: true}}, Data: "gen:nopair:3838"})
	r.Par(len(jobs), func(i int) {
		if r.Expired() {
			return
		}
		j := jobs[i]
		data := Gen(j.gen, j.n)
		for _, early := range []bool{false, true} {
			rn.Exec("lzw", pdf.V1_4, FSpec{Kind: "LZW", Early: early}, data, Chunking{})
		}
		if j.n%16 == 0 {
			rn.Exec("lzw", pdf.V1_4, FSpec{Kind: "Flate"}, data, Chunking{})
		}
		if j.n > 0 {
			rn.distinct("l", j.gen, j.n)
		}
	})
}

// AsciiAlphabet and RLAlphabet are the byte alphabets of the short inputs of
// the ASCII85 / ASCIIHex / RunLength space.
var (
	AsciiAlphabet = []byte{0x00, 0x01, 0xFF, '!', 'u', 'z', '~', '>'}
	RLAlphabet    = []byte{0x00, 'a', 0x80}
	asciiTails    = [][]byte{{}, {0}, {0xff}, {0, 0}, {0, 0xff}, {0, 0, 0}, {0xff, 0xff, 0xff}}
	rlRunLens     = []int{0, 1, 2, 3, 126, 127, 128, 129, 130, 255, 256, 257, 258, 384, 385}
	rlLitLens     = []int{0, 1, 2, 127, 128, 129}
	asciiGens     = []string{"zeros", "lcg", "period3", "nopair"}
)

// AsciiInputs returns the inputs of the ASCII85 / ASCIIHex / RunLength space:
// every string over AsciiAlphabet up to maxA bytes, every string over
// RLAlphabet up to maxRL bytes, the ASCII85 group sequences, every length up
// to maxLen of four generators, and literal-run-literal patterns.
func AsciiInputs(maxA, maxRL, maxLen int) [][]byte {
	var inputs [][]byte
	for n := 0; n <= maxA; n++ {
		allStrings(AsciiAlphabet, n, func(s []byte) { inputs = append(inputs, append([]byte{}, s...)) })
	}
	for n := maxA + 1; n <= maxRL; n++ {
		allStrings(RLAlphabet, n, func(s []byte) { inputs = append(inputs, append([]byte{}, s...)) })
	}
	// group structure of ASCII85: up to 3 groups from {zero, one, max, high} + tail
	groups := [][]byte{{0, 0, 0, 0}, {0, 0, 0, 1}, {0xff, 0xff, 0xff, 0xff}, {1, 0, 0, 0}}
	for a := 0; a < 4; a++ {
		for b := 0; b < 4; b++ {
			for c := 0; c < 4; c++ {
				for _, t := range asciiTails {
					inputs = append(inputs, append(append(append(append([]byte{}, groups[a]...), groups[b]...), groups[c]...), t...))
				}
			}
		}
	}
	// line wrapping and long runs: every length
	for _, g := range asciiGens {
		for n := maxRL + 1; n <= maxLen; n++ {
			inputs = append(inputs, Gen(g, n))
		}
	}
	// run-length structure: literal(m1) run(n) literal(m2)
	lit := func(m int, off byte) []byte {
		out := make([]byte, m)
		for i := range out {
			out[i] = byte(i%250) + off
		}
		return out
	}
	for _, m1 := range rlLitLens {
		for _, n := range rlRunLens {
			for _, m2 := range rlLitLens {
				d := lit(m1, 1)
				for i := 0; i < n; i++ {
					d = append(d, 0xfe)
				}
				d = append(d, lit(m2, 2)...)
				inputs = append(inputs, d)
			}
		}
	}
	return inputs
}

// AsciiDim describes AsciiInputs for the evidence file.
func AsciiDim(maxA, maxRL, maxLen, n int) map[string]any {
	return map[string]any{
		"filters": []string{"ASCII85", "ASCIIHex", "RunLength"}, "alphabet_hex": hex.EncodeToString(AsciiAlphabet), "all_strings_up_to": maxA,
		"runlength_alphabet_hex": hex.EncodeToString(RLAlphabet), "runlength_all_strings_up_to": maxRL, "ascii85_group_sequences": 4 * 4 * 4 * len(asciiTails),
		"every_length_up_to": maxLen, "generators": asciiGens, "literal_run_literal": []any{rlLitLens, rlRunLens, rlLitLens}, "inputs": n,
	}
}

func (rn *Runner) asciiSpace() {
	r := rn.R
	kinds := []FSpec{{Kind: "A85"}, {Kind: "AHx"}, {Kind: "RL"}}
	maxA := ev.Pick(r, 5, 6)
	maxRL := ev.Pick(r, 9, 11)
	maxLen := ev.Pick(r, 700, 1400)
	inputs := AsciiInputs(maxA, maxRL, maxLen)
	r.Dim("ascii_space", AsciiDim(maxA, maxRL, maxLen, len(inputs)))
	r.Sample(Case{Space: "ascii", Version: "1.4", Filters: []FSpec{{Kind: "A85"}}, Data: hex.EncodeToString(inputs[4000])})
	r.Par(len(inputs), func(i int) {
		if r.Expired() {
			return
		}
		for _, k := range kinds {
			rn.Exec("ascii", pdf.V1_4, k, inputs[i], Chunking{})
		}
		if len(inputs[i]) > 0 {
			rn.distinct("a", inputs[i])
		}
	})
}

func (rn *Runner) ccittSpace() {
	r := rn.R
	spaces := CCITTSpaces(r.Thorough())
	var dims []string
	var bitmaps []Bitmap
	for _, sp := range spaces {
		b := sp.Bitmaps()
		dims = append(dims, fmt.Sprintf("%s: %d bitmaps", sp.String(), len(b)))
		bitmaps = append(bitmaps, b...)
	}
	r.Dim("ccitt_space", map[string]any{
		"K": CCITTKs, "EndOfLine": 2, "EncodedByteAlign": 2, "BlackIs1": 2, "EndOfBlock": 2, "Rows": []string{"absent", "exact"},
		"bitmap_families": dims, "bitmaps": len(bitmaps),
	})
	r.Sample(Case{Space: "ccitt", Version: "1.4", Filters: []FSpec{{Kind: "CCITT", K: -1, Cols: 4, Rows: 2}}, Data: "60f0"})
	r.Par(len(bitmaps), func(i int) {
		if r.Expired() {
			return
		}
		b := bitmaps[i]
		for _, s := range CCITTParamSets(b.Cols, b.Rows) {
			rn.Exec("ccitt", pdf.V1_4, s, b.Data, Chunking{})
		}
		if b.Rows > 0 {
			rn.distinct("c", b.Cols, b.Data)
		}
	})
	// the version does not enter the CCITT filter; run one parameter sweep
	// per version on a fixed bitmap to see that
	for _, v := range Versions {
		for _, s := range CCITTParamSets(4, 2) {
			rn.Exec("ccitt", v, s, []byte{0x60, 0xf0}, Chunking{})
		}
	}
}

func (rn *Runner) chainSpace() {
	r := rn.R
	chains := Chains(ChainKinds, 3)
	// plus every single filter kind with parameters through the stream path
	extra := [][]FSpec{
		{{Kind: "Compress"}}, {{Kind: "Compress", Pred: 15, Colors: 3, Cols: 1}}, {{Kind: "LZW"}}, {{Kind: "LZW", Pred: 2, Colors: 3, Cols: 1}},
		{{Kind: "Flate"}, {Kind: "LZW", Pred: 12, Cols: 3}}, {{Kind: "LZW", Pred: 12, Cols: 3}, {Kind: "Flate"}},
		{{Kind: "A85"}, {Kind: "Flate"}, {Kind: "LZW", Pred: 12, Cols: 3}}, {{Kind: "Flate", Pred: 11, BPC: 4, Cols: 6}, {Kind: "AHx"}, {Kind: "LZW", Early: false}},
		{{Kind: "A85"}, {Kind: "A85"}, {Kind: "Flate", Pred: 12, Cols: 3}}, {{Kind: "Flate", Pred: 12, Cols: 3}, {Kind: "A85"}, {Kind: "A85"}},
		{{Kind: "A85"}, {Kind: "Flate", Pred: 12, Cols: 3}, {Kind: "A85"}, {Kind: "LZW", Early: false}},
	}
	chains = append(chains, extra...)
	var inputs [][]byte
	inputs = append(inputs, nil, []byte{0, 0, 0}, []byte("abc"), []byte{0xff, 0x80, 0x7e, '~', '>', 0})
	for _, n := range []int{12, 300, 1020, 1023, 1026, 1500, 4098} {
		for _, g := range ev.Pick(r, []string{"lcg4"}, []string{"lcg4", "lcg", "zeros"}) {
			inputs = append(inputs, Gen(g, n)) // all multiples of 3 (Columns 3)
		}
	}
	versions := ev.Pick(r, []pdf.Version{pdf.V1_4, pdf.V2_0}, []pdf.Version{pdf.V1_2, pdf.V1_4, pdf.V1_5, pdf.V2_0})
	chunkings := []Chunking{{}, {WSize: 1, RBuf: 1}, {WSize: 7, RBuf: 512}}
	r.Dim("chain_space", map[string]any{
		"alphabet": []string{"ASCII85", "ASCIIHex", "RunLength", "Flate+PNGUp(Columns 3)", "LZW"}, "max_length": 3, "chains": len(chains), "extra_chains_with_parameters": len(extra),
		"inputs": len(inputs), "versions": len(versions), "chunkings": []string{"one write/ReadAll", "1-byte writes/1-byte reads", "7-byte writes/512-byte reads"},
	})
	r.Sample(Case{Space: "chains", Version: "1.4", Filters: chains[77], Data: hex.EncodeToString(inputs[3]), Stream: true})
	r.Par(len(chains), func(i int) {
		for _, v := range versions {
			for di, d := range inputs {
				if r.Expired() {
					return
				}
				for ci, c := range chunkings {
					if ci > 0 && len(d) > 1100 {
						continue
					}
					rn.ExecStream("chains", v, chains[i], d, c)
				}
				if len(d) > 0 {
					rn.distinct("s", i, int(v), di)
				}
			}
		}
	})
}

// chunkSpace runs every way of cutting short inputs into at most three
// writes, with read buffers of 1, 2, 7 and 512 bytes, for every accepted
// predictor parameter set and the other filters; and uniform chunk sizes on
// long inputs around the LZW code-width boundaries.
func (rn *Runner) chunkSpace() {
	r := rn.R
	rbufs := []int{1, 2, 7, 512}
	var specs []FSpec
	for _, s := range PredictorSpecs() {
		if s.Kind == "Compress" || (!r.Thorough() && s.Kind == "LZW" && !s.Early) {
			continue
		}
		if _, _, err := s.Filter().Info(pdf.V1_5); err != nil {
			continue
		}
		if !r.Thorough() && (s.Colors == 0 || s.BPC == 0 || s.Cols == 0) && s.Pred > 1 {
			continue // the shorthands were covered by the predictor space
		}
		specs = append(specs, s)
	}
	for _, k := range []string{"A85", "AHx", "RL"} {
		specs = append(specs, FSpec{Kind: k})
	}
	for _, k := range []int{-1, 0, 2} {
		specs = append(specs, FSpec{Kind: "CCITT", K: k, Cols: 9})
	}
	maxBytes := ev.Pick(r, 6, 8)
	r.Dim("chunk_space", map[string]any{
		"parameter_sets": len(specs), "cuts": "every way to cut the input into <= 3 writes (empty writes included)", "read_buffers": rbufs,
		"inputs_per_parameter_set": "2 patterns x the row counts with <= " + fmt.Sprint(maxBytes) + " bytes in total (at least one row)",
		"long_inputs":              "nopair generator at the LZW boundary lengths +-2, write sizes {1, 7, 4096}, read buffers {1, 4096}",
	})
	r.Par(len(specs), func(i int) {
		s := specs[i]
		rb := s.RowBytes()
		_, colors, bpc, cols := s.Eff()
		for rows := 1; rows <= 3; rows++ {
			if rows > 1 && rows*rb > maxBytes {
				break
			}
			for _, p := range []string{"ramp", "paethTies"} {
				if r.Expired() {
					return
				}
				data := Pattern(p, rows, rb)
				switch {
				case s.Kind == "CCITT":
					s.Rows = rows
					MaskPadding(data, rb, s.Cols)
				case s.Pred == 2:
					MaskPadding(data, rb, colors*bpc*cols)
				}
				cuts := AllCuts(len(data))
				if len(data) > 12 {
					cuts = [][]int{nil, {1}, {rb - 1, rb}, {rb, min(rb+1, len(data))}, {len(data) - 1}, {0, 0}, {len(data), len(data)}}
				}
				for _, cut := range cuts {
					for _, rbuf := range rbufs {
						rn.Exec("chunks", pdf.V1_5, s, data, Chunking{Cuts: cut, RBuf: rbuf})
					}
				}
				rn.distinct("k", i, data)
			}
		}
	})
	lengths := LZWBoundaryLengths(2)
	r.Par(len(lengths), func(i int) {
		data := Gen("nopair", lengths[i])
		for _, early := range []bool{false, true} {
			for _, ws := range []int{1, 7, 4096} {
				for _, rbuf := range []int{1, 4096} {
					if r.Expired() {
						return
					}
					rn.Exec("chunks", pdf.V1_4, FSpec{Kind: "LZW", Early: early}, data, Chunking{WSize: ws, RBuf: rbuf})
				}
			}
		}
		rn.Exec("chunks", pdf.V1_4, FSpec{Kind: "Flate"}, data, Chunking{WSize: 7, RBuf: 1})
		rn.Exec("chunks", pdf.V1_4, FSpec{Kind: "RL"}, data, Chunking{WSize: 7, RBuf: 1})
		rn.Exec("chunks", pdf.V1_4, FSpec{Kind: "A85"}, data, Chunking{WSize: 7, RBuf: 1})
		rn.Exec("chunks", pdf.V1_4, FSpec{Kind: "AHx"}, data, Chunking{WSize: 7, RBuf: 1})
	})
}

// ---------------------------------------------------------------------------

func (c *Case) data() ([]byte, error) {
	if strings.HasPrefix(c.Data, "gen:") {
		var name string
		var n int
		parts := strings.Split(c.Data, ":")
		if len(parts) != 3 {
			return nil, fmt.Errorf("bad generator reference %q", c.Data)
		}
		name = parts[1]
		fmt.Sscan(parts[2], &n)
		if codecs.TestData[name] == nil {
			return nil, fmt.Errorf("unknown generator %q", name)
		}
		return Gen(name, n), nil
	}
	return hex.DecodeString(c.Data)
}

func (rn *Runner) replay(c *Case) error {
	data, err := c.data()
	if err != nil {
		return err
	}
	v, err := pdf.ParseVersion(c.Version)
	if err != nil {
		return err
	}
	if len(c.Filters) == 0 {
		return fmt.Errorf("case without filters")
	}
	ch := Chunking{Cuts: c.Cuts, WSize: c.WSize, RBuf: c.RBuf}
	if c.Stream {
		rn.ExecStream(c.Space, v, c.Filters, data, ch)
	} else {
		rn.Exec(c.Space, v, c.Filters[0], data, ch)
	}
	return nil
}

// Replay re-executes the case of a replay file.
func Replay(path string) int {
	var c Case
	if err := ev.ReplayCase(path, &c); err != nil {
		fmt.Println("replay:", err)
		return 2
	}
	r := ev.New("C06", "quick", "exploration", time.Minute)
	r.SetReplayMode()
	rn := NewRunner(r)
	if err := rn.replay(&c); err != nil {
		fmt.Println("replay:", err)
		return 2
	}
	for fp, w := range rn.wit {
		fmt.Printf("replayed: %s\n  %s\n", fp, w.Detail)
	}
	return r.Finish()
}
