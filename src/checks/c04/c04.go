//go:build verif

// Package c04 decides C04: the Reader follows the specification for every
// conforming serialisation and revision history.  Histories (which revision
// defines, redefines or frees which object; which kind of cross-reference
// section each revision uses) are enumerated exhaustively; the files are
// produced by the independent serialiser ref/pdffile with rendering knobs;
// the expected answers come from a 30-line model ("apply the revisions oldest
// to newest").
package c04

import (
	"bytes"
	"fmt"
	"io"
	"strings"
	"time"

	"seehuhn.de/go/pdf"
	"seehuhn.de/go/pdf/zzverif/checks/hx"
	"seehuhn.de/go/pdf/zzverif/engine/ev"
	"seehuhn.de/go/pdf/zzverif/ref/pdffile"
	"seehuhn.de/go/pdf/zzverif/ref/pdfsyn"
)

// Case is a replayable case.
type Case struct {
	Kinds   []string      `json:"section_kinds"` // per revision
	Actions [][]int       `json:"actions"`       // [revision][object]: 0 leave, 1 define A, 2 define B, 3 free
	Knobs   pdffile.Knobs `json:"knobs"`
	Length  *LengthCase   `json:"length_case,omitempty"`
	FreeMax bool          `json:"free_generation_65535,omitempty"` // free entries carry generation 65535
	String  *StringCase   `json:"literal_string,omitempty"`        // strings.go
}

// LengthCase is a case of the /Length clause.
type LengthCase struct {
	Body   int    `json:"body"`
	Defect string `json:"defect"`
}

const firstVar = 4 // object numbers 1..3 are catalog, pages, page

type value struct {
	val    pdfsyn.Value
	stream []byte
}

// values[obj][0|1]: the two values an object number can take.
func values(obj int) [2]value {
	n := int64(firstVar + obj)
	switch obj % 4 {
	case 0:
		return [2]value{{val: pdfsyn.IntV(100 + n)}, {val: pdfsyn.DictV("K", pdfsyn.StrV("four (4)"), "N", pdfsyn.NameV("a b#"))}}
	case 1:
		return [2]value{{val: pdfsyn.DictV("K", pdfsyn.StrV("five"), "R", pdfsyn.RefV(firstVar, 0))},
			{val: pdfsyn.DictV("S", pdfsyn.NameV("five")), stream: []byte("five-data")}}
	case 2:
		return [2]value{{val: pdfsyn.DictV("S", pdfsyn.NameV("six")), stream: []byte("six\r\nsix")}, {val: pdfsyn.IntV(-n)}}
	}
	return [2]value{{val: pdfsyn.ArrV(pdfsyn.StrV("seven"), pdfsyn.NameV("N"), pdfsyn.RefV(firstVar+1, 0), pdfsyn.RealV(1.5))}, {val: pdfsyn.StrV("se(ven)\\")}}
}

// state of one object number in the model
type objState struct {
	defined bool
	inUse   bool
	gen     int
	v       value
}

// build applies the actions and returns the revisions for the serialiser and
// the final model state; ok is false for action vectors that are not
// meaningful (freeing something that is not in use).
func build(kinds []string, actions [][]int, freeMax bool) (revs []pdffile.Revision, final []objState, ok bool) {
	nObj := len(actions[0])
	st := make([]objState, nObj)
	for ri, kind := range kinds {
		rev := pdffile.Revision{Kind: kind}
		if ri == 0 {
			rev.Objs = append(rev.Objs,
				pdffile.ObjDef{Num: 1, Val: pdfsyn.DictV("Type", pdfsyn.NameV("Catalog"), "Pages", pdfsyn.RefV(2, 0))},
				pdffile.ObjDef{Num: 2, Val: pdfsyn.DictV("Type", pdfsyn.NameV("Pages"), "Kids", pdfsyn.ArrV(pdfsyn.RefV(3, 0)), "Count", pdfsyn.IntV(1))},
				pdffile.ObjDef{Num: 3, Val: pdfsyn.DictV("Type", pdfsyn.NameV("Page"), "Parent", pdfsyn.RefV(2, 0), "MediaBox", pdfsyn.ArrV(pdfsyn.IntV(0), pdfsyn.IntV(0), pdfsyn.IntV(9), pdfsyn.IntV(9)))},
			)
		}
		for oi, a := range actions[ri] {
			s := &st[oi]
			num := firstVar + oi
			switch a {
			case 0:
			case 1, 2:
				v := values(oi)[a-1]
				if !s.defined {
					s.gen = 0
				}
				if s.defined && !s.inUse && s.gen == 65535 {
					// freed with the "never reuse" generation: the number is retired
					return nil, nil, false
				}
				s.defined, s.inUse, s.v = true, true, v
				rev.Objs = append(rev.Objs, pdffile.ObjDef{Num: num, Gen: s.gen, Val: v.val, Stream: v.stream})
			case 3:
				if !s.inUse {
					return nil, nil, false
				}
				s.inUse = false
				s.gen++
				if freeMax {
					s.gen = 65535
				}
				rev.Objs = append(rev.Objs, pdffile.ObjDef{Num: num, Gen: s.gen, Free: true})
			}
		}
		rev.Trailer = []pdfsyn.Entry{
			{Key: []byte("Root"), Val: pdfsyn.RefV(1, 0)},
			{Key: []byte("ACME_Rev"), Val: pdfsyn.StrV(fmt.Sprintf("revision %d", ri))},
		}
		if ri == 0 && len(kinds) > 1 {
			// an entry that only the oldest trailer carries: the newest revision's
			// trailer is the one that counts, so it must not be reported
			rev.Trailer = append(rev.Trailer, pdfsyn.Entry{Key: []byte("ACME_OnlyInOldest"), Val: pdfsyn.IntV(1)})
		}
		if ri > 0 && len(rev.Objs) == 0 {
			// an incremental update that changes nothing is legal; keep it
		}
		revs = append(revs, rev)
	}
	return revs, st, true
}

type failure struct{ fp, what string }

func knobTag(k pdffile.Knobs) string {
	var p []string
	if k.Prefix != 0 {
		p = append(p, fmt.Sprintf("prefix=%d", k.Prefix))
	}
	if k.WS != 0 {
		p = append(p, fmt.Sprintf("ws=%d", k.WS))
	}
	if k.EOL != 0 {
		p = append(p, fmt.Sprintf("eol=%d", k.EOL))
	}
	if k.HexStrings {
		p = append(p, "hexstrings")
	}
	if k.HexNames {
		p = append(p, "hexnames")
	}
	if k.Split {
		p = append(p, "split")
	}
	if k.ThreadFree {
		p = append(p, "threadfree")
	}
	if k.W != 0 {
		p = append(p, fmt.Sprintf("W=%v", pdffile.WChoices[k.W]))
	}
	if k.ObjStm {
		p = append(p, "objstm")
	}
	if len(p) == 0 {
		return "default"
	}
	return strings.Join(p, ",")
}

func showState(s objState) string {
	switch {
	case !s.defined:
		return "never-defined"
	case !s.inUse:
		return fmt.Sprintf("free(gen %d)", s.gen)
	case s.v.stream != nil:
		return fmt.Sprintf("stream(gen %d)", s.gen)
	}
	return fmt.Sprintf("%s(gen %d)", s.v.val.String(), s.gen)
}

// judge opens the file with the Reader and compares with the model.
func judge(file []byte, final []objState, kinds []string, k pdffile.Knobs) *failure {
	tag := strings.Join(kinds, "+") + ":" + knobTag(k)
	r, err := pdf.NewReader(bytes.NewReader(file), int64(len(file)), &pdf.ReaderOptions{ErrorHandling: pdf.ErrorHandlingStop})
	if err != nil {
		return &failure{"open-error:" + tag, fmt.Sprintf("NewReader rejects a conforming file: %v", err)}
	}
	for oi := 0; oi <= len(final); oi++ {
		num := uint32(firstVar + oi)
		var s objState
		if oi < len(final) {
			s = final[oi]
		} else {
			num = 37 // never mentioned anywhere
		}
		for _, g := range []int{0, 1, 2, 65535} {
			ref := pdf.NewReference(num, uint16(g))
			got, err := r.Get(ref, true)
			if err != nil {
				return &failure{"get-error:" + tag, fmt.Sprintf("Get(%v): %v (model: %s)", ref, err, showState(s))}
			}
			expectValue := s.defined && s.inUse && s.gen == g
			if !expectValue {
				if got != nil {
					return &failure{"stale-or-free-not-null:" + tag, fmt.Sprintf("Get(%v) = %s, want null (model: %s)", ref, hx.Show(got), showState(s))}
				}
				continue
			}
			if s.v.stream != nil {
				stm, ok := got.(*pdf.Stream)
				if !ok {
					return &failure{"value-differs:" + tag, fmt.Sprintf("Get(%v) = %s, want a stream (model: %s)", ref, hx.Show(got), showState(s))}
				}
				d := pdf.Dict{}
				for key, v := range stm.Dict {
					if key != "Length" {
						d[key] = v
					}
				}
				if !pdfsyn.Equal(hx.FromPdf(d), s.v.val) {
					return &failure{"value-differs:" + tag, fmt.Sprintf("stream %v dictionary = %s, want %s", ref, hx.Show(d), s.v.val.String())}
				}
				rc, err := pdf.DecodeStream(r, nil, stm)
				if err != nil {
					return &failure{"stream-error:" + tag, fmt.Sprintf("DecodeStream(%v): %v", ref, err)}
				}
				data, err := io.ReadAll(rc)
				rc.Close()
				if err != nil || !bytes.Equal(data, s.v.stream) {
					return &failure{"stream-data-differs:" + tag, fmt.Sprintf("stream %v data = %q (%v), want %q", ref, data, err, s.v.stream)}
				}
				continue
			}
			if !pdfsyn.Equal(hx.FromPdf(got), s.v.val) {
				return &failure{"value-differs:" + tag, fmt.Sprintf("Get(%v) = %s, want %s (newest revision that defines it)", ref, hx.Show(got), s.v.val.String())}
			}
		}
	}
	want := pdf.String(fmt.Sprintf("revision %d", len(kinds)-1))
	if got := r.GetMeta().Trailer["ACME_Rev"]; !hx.Equal(got, want) {
		return &failure{"trailer-not-newest:" + tag, fmt.Sprintf("trailer /ACME_Rev = %s, want %s", hx.Show(got), hx.Show(want))}
	}
	if got := r.GetMeta().Trailer["ACME_OnlyInOldest"]; got != nil {
		return &failure{"trailer-entry-from-older-revision:" + tag, fmt.Sprintf("trailer reports /ACME_OnlyInOldest = %s, which only the oldest revision's trailer contains", hx.Show(got))}
	}
	if r.GetMeta().Catalog == nil || r.GetMeta().Catalog.Pages != pdf.NewReference(2, 0) {
		return &failure{"catalog:" + tag, "catalog not read from the trailer's /Root"}
	}
	return nil
}

// selfCheck validates the serialiser: the independent reader must read the
// file back to the model.
func selfCheck(file []byte, final []objState) error {
	f, perr := pdffile.Read(file, pdffile.Options{})
	if perr != nil {
		return perr
	}
	for oi, s := range final {
		num := firstVar + oi
		o := f.Objects[num]
		en, has := f.XRef[num]
		inUse := has && en.Type != 0
		if inUse != (s.defined && s.inUse) {
			return fmt.Errorf("object %d: independent reader in-use=%v, model %s", num, inUse, showState(s))
		}
		if !inUse {
			continue
		}
		if o == nil || o.Gen != s.gen {
			return fmt.Errorf("object %d: generation mismatch", num)
		}
		if s.v.stream != nil {
			if !o.IsStream || !bytes.Equal(o.Raw, s.v.stream) {
				return fmt.Errorf("object %d: stream data mismatch", num)
			}
			continue
		}
		if !pdfsyn.Equal(o.Val, s.v.val) {
			return fmt.Errorf("object %d: %s vs model %s", num, o.Val.String(), s.v.val.String())
		}
	}
	return nil
}

var kindNames = []string{"table", "stream", "hybrid"}

func kindVectors(n int) [][]string {
	if n == 0 {
		return [][]string{nil}
	}
	var out [][]string
	for _, rest := range kindVectors(n - 1) {
		for _, k := range kindNames {
			out = append(out, append(append([]string{}, rest...), k))
		}
	}
	return out
}

// actionVectors enumerates all [revs][objs] matrices over {0,1,2,3}.
func actionVectors(revs, objs int, f func(a [][]int)) {
	total := 1
	for i := 0; i < revs*objs; i++ {
		total *= 4
	}
	a := make([][]int, revs)
	for i := range a {
		a[i] = make([]int, objs)
	}
	for t := 0; t < total; t++ {
		x := t
		for i := 0; i < revs; i++ {
			for j := 0; j < objs; j++ {
				a[i][j] = x % 4
				x /= 4
			}
		}
		f(a)
	}
}

func cloneActions(a [][]int) [][]int {
	out := make([][]int, len(a))
	for i := range a {
		out[i] = append([]int{}, a[i]...)
	}
	return out
}

// knobDeviations returns all knob settings with at most maxDev departures
// from the default.
func knobDeviations(maxDev int) []pdffile.Knobs {
	type dev func(k *pdffile.Knobs)
	var devs [][]dev // per knob: alternatives
	devs = append(devs, []dev{func(k *pdffile.Knobs) { k.Prefix = 1 }, func(k *pdffile.Knobs) { k.Prefix = 1019 }})
	devs = append(devs, []dev{func(k *pdffile.Knobs) { k.WS = 1 }, func(k *pdffile.Knobs) { k.WS = 2 }, func(k *pdffile.Knobs) { k.WS = 3 }})
	devs = append(devs, []dev{func(k *pdffile.Knobs) { k.EOL = 1 }, func(k *pdffile.Knobs) { k.EOL = 2 }})
	devs = append(devs, []dev{func(k *pdffile.Knobs) { k.HexStrings = true }})
	devs = append(devs, []dev{func(k *pdffile.Knobs) { k.HexNames = true }})
	devs = append(devs, []dev{func(k *pdffile.Knobs) { k.Split = true }})
	devs = append(devs, []dev{func(k *pdffile.Knobs) { k.ThreadFree = true }})
	var ws []dev
	for i := 1; i < len(pdffile.WChoices); i++ {
		i := i
		ws = append(ws, func(k *pdffile.Knobs) { k.W = i })
	}
	devs = append(devs, ws)
	devs = append(devs, []dev{func(k *pdffile.Knobs) { k.ObjStm = true }})
	out := []pdffile.Knobs{{}}
	if maxDev >= 1 {
		for _, alts := range devs {
			for _, d := range alts {
				var k pdffile.Knobs
				d(&k)
				out = append(out, k)
			}
		}
	}
	if maxDev >= 2 {
		for i := range devs {
			for j := i + 1; j < len(devs); j++ {
				for _, d1 := range devs[i] {
					for _, d2 := range devs[j] {
						var k pdffile.Knobs
						d1(&k)
						d2(&k)
						out = append(out, k)
					}
				}
			}
		}
	}
	return out
}

type runner struct {
	r        *ev.Run
	selfFail bool
}

func (rn *runner) one(kinds []string, actions [][]int, k pdffile.Knobs, space string, freeMax bool) {
	r := rn.r
	revs, final, ok := build(kinds, actions, freeMax)
	if !ok {
		return
	}
	file := pdffile.Write(revs, k)
	r.Eval(1)
	r.Trace(1)
	if err := selfCheck(file, final); err != nil {
		if !rn.selfFail {
			rn.selfFail = true
			r.Infra(fmt.Sprintf("serialiser self-check failed (%v) for kinds=%v actions=%v knobs=%s", err, kinds, actions, knobTag(k)))
		}
		return
	}
	if f := judge(file, final, kinds, k); f != nil {
		r.Outcome("fail:" + strings.SplitN(f.fp, ":", 2)[0])
		r.Violation(f.fp, f.what, Case{Kinds: kinds, Actions: cloneActions(actions), Knobs: k, FreeMax: freeMax})
		return
	}
	r.Outcome("ok:" + space)
}

// ---------------------------------------------------------------------------
// the /Length clause

var lengthBodies = [][]byte{[]byte("x"), []byte("endstream"), []byte("a\nendstrea"), bytes.Repeat([]byte("0123456789"), 6)}
// "plus1" is not in the list: with a one-byte EOL it points exactly at the endstream keyword, which is the
// statement's own exclusion ("wrong lengths that do not happen to point just before another endstream").
var lengthDefects = []string{"correct", "absent", "minus1", "plus7", "huge", "indirect-correct", "indirect-missing", "indirect-dict", "indirect-cycle", "real", "negative"}

// bodyOf returns the stream body of a length case: an index into
// lengthBodies, or (from 100 on) a body of body-100 bytes.
func bodyOf(body int) []byte {
	if body < 100 {
		return lengthBodies[body]
	}
	b := make([]byte, body-100)
	for i := range b {
		b[i] = "0123456789abcdef"[i%16]
	}
	return b
}

func lengthFile(body int, defect string, k pdffile.Knobs) ([]byte, []byte) {
	data := bodyOf(body)
	o := pdffile.ObjDef{Num: 4, Val: pdfsyn.DictV("S", pdfsyn.NameV("len")), Stream: data}
	extra := []pdffile.ObjDef{}
	iv := func(v pdfsyn.Value) *pdfsyn.Value { return &v }
	n := int64(len(data))
	switch defect {
	case "correct":
	case "absent":
		o.NoLength = true
	case "minus1":
		o.LengthOverride = iv(pdfsyn.IntV(n - 1))
	case "plus7":
		o.LengthOverride = iv(pdfsyn.IntV(n + 7))
	case "huge":
		o.LengthOverride = iv(pdfsyn.IntV(1 << 40))
	case "negative":
		o.LengthOverride = iv(pdfsyn.IntV(-5))
	case "real":
		o.LengthOverride = iv(pdfsyn.RealV(float64(n) + 7.5))
	case "indirect-correct":
		o.LengthOverride = iv(pdfsyn.RefV(5, 0))
		extra = append(extra, pdffile.ObjDef{Num: 5, Val: pdfsyn.IntV(n)})
	case "indirect-missing":
		o.LengthOverride = iv(pdfsyn.RefV(9, 0))
	case "indirect-dict":
		o.LengthOverride = iv(pdfsyn.RefV(5, 0))
		extra = append(extra, pdffile.ObjDef{Num: 5, Val: pdfsyn.DictV("Not", pdfsyn.NameV("AnInteger"))})
	case "indirect-cycle":
		// the length of 4 is object 5, a stream whose length is object 4
		o.LengthOverride = iv(pdfsyn.RefV(5, 0))
		v := pdfsyn.RefV(4, 0)
		extra = append(extra, pdffile.ObjDef{Num: 5, Val: pdfsyn.DictV("S", pdfsyn.NameV("cyc")), Stream: []byte("cyc"), LengthOverride: &v})
	}
	rev := pdffile.Revision{Kind: "table", Trailer: []pdfsyn.Entry{{Key: []byte("Root"), Val: pdfsyn.RefV(1, 0)}}}
	rev.Objs = append(rev.Objs,
		pdffile.ObjDef{Num: 1, Val: pdfsyn.DictV("Type", pdfsyn.NameV("Catalog"), "Pages", pdfsyn.RefV(2, 0))},
		pdffile.ObjDef{Num: 2, Val: pdfsyn.DictV("Type", pdfsyn.NameV("Pages"), "Kids", pdfsyn.ArrV(pdfsyn.RefV(3, 0)), "Count", pdfsyn.IntV(1))},
		pdffile.ObjDef{Num: 3, Val: pdfsyn.DictV("Type", pdfsyn.NameV("Page"), "Parent", pdfsyn.RefV(2, 0))},
		o)
	rev.Objs = append(rev.Objs, extra...)
	// a following object, so that a too long /Length runs into real content
	rev.Objs = append(rev.Objs, pdffile.ObjDef{Num: 6, Val: pdfsyn.StrV("the object after the stream")})
	return pdffile.Write([]pdffile.Revision{rev}, k), data
}

func (rn *runner) length(body int, defect string, k pdffile.Knobs) {
	r := rn.r
	file, want := lengthFile(body, defect, k)
	r.Eval(1)
	r.Trace(1)
	cs := Case{Knobs: k, Length: &LengthCase{Body: body, Defect: defect}}
	tag := defect + ":" + knobTag(k)
	rd, err := pdf.NewReader(bytes.NewReader(file), int64(len(file)), nil)
	if err != nil {
		r.Violation("length:open-error:"+tag, fmt.Sprintf("NewReader: %v", err), cs)
		return
	}
	got, err := rd.Get(pdf.NewReference(4, 0), true)
	stm, ok := got.(*pdf.Stream)
	if err != nil || !ok {
		r.Outcome("fail:length")
		r.Violation("length:not-a-stream:"+tag, fmt.Sprintf("Get(4 0 R) = %s, %v; the stream is delimited by the EOL before endstream whatever /Length says", hx.Show(got), err), cs)
		return
	}
	rc, err := pdf.DecodeStream(rd, nil, stm)
	var data []byte
	if err == nil {
		data, err = io.ReadAll(rc)
		rc.Close()
	}
	if err != nil || !bytes.Equal(data, want) {
		r.Outcome("fail:length")
		r.Violation("length:data-differs:"+tag, fmt.Sprintf("/Length %s: stream data = %q (%v), want %q (up to the EOL before endstream)", defect, clip(data), err, want), cs)
		return
	}
	// the object after the stream must be unaffected
	after, err := rd.Get(pdf.NewReference(6, 0), true)
	if err != nil || !hx.Equal(after, pdf.String("the object after the stream")) {
		r.Violation("length:next-object-damaged:"+tag, fmt.Sprintf("Get(6 0 R) = %s, %v", hx.Show(after), err), cs)
		return
	}
	r.Outcome("ok:length:" + defect)
}

func clip(b []byte) []byte {
	if len(b) > 80 {
		return b[:80]
	}
	return b
}

// ---------------------------------------------------------------------------

// Run is the check.
func Run(tier string) int {
	budget := 4 * time.Minute
	if tier == "thorough" {
		budget = 25 * time.Minute
	}
	r := ev.New("C04", tier, "model_checking", budget)
	rn := &runner{r: r}
	r.Rule("a case is a revision history (per revision and object number one of leave / define value A / define value B / free, per revision a section kind table / xref stream / hybrid) plus a rendering (knobs of the independent serialiser: bytes before the header, white-space and comment style, EOL, hex strings, #-escaped names, split subsections / Index, threaded free list, /W, object streams); all histories of the stated shape are enumerated, renderings as the full single (and pair) deviations from the default; states = histories accepted by the model, transitions = files opened, every one is read by the real Reader; distinct = distinct (history, rendering) pairs")
	r.Assume("the files come from ref/pdffile's serialiser, validated per case by ref/pdffile's reader (self-check, exit 2 on disagreement)", "hybrid sections list hidden objects only in the /XRefStm stream (not as free entries in the table)", "the model: apply the revisions oldest to newest; a freed number is reused with the generation of its free entry; a number freed with generation 65535 is never reused")

	type job struct {
		kinds [][]string
		revs  int
		objs  int
		knobs []pdffile.Knobs
		space string
		fmax  bool // free entries carry generation 65535
	}
	dflt := []pdffile.Knobs{{}, {ObjStm: true}}
	var jobs []job
	jobs = append(jobs, job{kindVectors(1), 1, 4, knobDeviations(2), "1rev x 4obj x knob pairs", false})
	jobs = append(jobs, job{kindVectors(2), 2, 2, knobDeviations(ev.Pick(r, 1, 2)), "2rev x 2obj x knob deviations", false})
	jobs = append(jobs, job{kindVectors(2), 2, 4, dflt, "2rev x 4obj", false})
	jobs = append(jobs, job{kindVectors(3), 3, 2, dflt, "3rev x 2obj", false})
	// the same with free entries that carry the boundary generation 65535 ("never reuse")
	jobs = append(jobs, job{kindVectors(2), 2, 2, knobDeviations(1), "2rev x 2obj x knob deviations, free generation 65535", true})
	jobs = append(jobs, job{kindVectors(3), 3, 2, dflt, "3rev x 2obj, free generation 65535", true})
	if r.Thorough() {
		jobs = append(jobs, job{kindVectors(3), 3, 3, dflt, "3rev x 3obj", false})
		jobs = append(jobs, job{kindVectors(3), 3, 2, knobDeviations(1), "3rev x 2obj x knob deviations", false})
		jobs = append(jobs, job{kindVectors(3), 3, 2, knobDeviations(1), "3rev x 2obj x knob deviations, free generation 65535", true})
	}
	var dims []string
	for _, j := range jobs {
		j := j
		var vecs [][][]int
		actionVectors(j.revs, j.objs, func(a [][]int) {
			if _, _, ok := build(j.kinds[0], a, j.fmax); ok {
				// first revision cannot free; build rejects those
				vecs = append(vecs, cloneActions(a))
			}
		})
		dims = append(dims, fmt.Sprintf("%s: %d valid action matrices x %d kind vectors x %d renderings", j.space, len(vecs), len(j.kinds), len(j.knobs)))
		r.Par(len(vecs), func(i int) {
			if r.Expired() {
				return
			}
			for _, kinds := range j.kinds {
				for _, k := range j.knobs {
					rn.one(kinds, vecs[i], k, j.space, j.fmax)
				}
				r.State(1)
			}
			r.DistinctS(fmt.Sprintf("%s|%v", j.space, vecs[i]))
		})
		r.Trans(int64(len(vecs) * len(j.kinds) * len(j.knobs)))
	}
	r.Dim("spaces", dims)
	r.Sample(Case{Kinds: []string{"table", "stream"}, Actions: [][]int{{1, 2}, {3, 1}}, Knobs: pdffile.Knobs{ObjStm: true}})

	// /Length clause
	lk := knobDeviations(1)
	for b := range lengthBodies {
		for _, d := range lengthDefects {
			for _, k := range lk {
				if k.ObjStm {
					continue
				}
				if d == "indirect-missing" && bytes.HasPrefix(bodyOf(b), []byte("endstream")) {
					// a reference to a missing object is null, which reads as length 0; for this body
					// length 0 points exactly at an "endstream" keyword: the statement's own exclusion
					continue
				}
				rn.length(b, d, k)
				r.DistinctS(fmt.Sprintf("len|%d|%s|%s", b, d, knobTag(k)))
			}
		}
	}
	// every body length up to 2200: the EOL+endstream that ends the data crosses
	// every position of the scanner's buffer
	sweep := []string{"absent", "minus1", "plus7", "indirect-missing"}
	maxLen := ev.Pick(r, 2200, 4400)
	r.Par(maxLen+1, func(L int) {
		for _, d := range sweep {
			rn.length(100+L, d, pdffile.Knobs{})
			rn.length(100+L, d, pdffile.Knobs{EOL: 1})
		}
		r.DistinctS(fmt.Sprintf("lensweep|%d", L))
	})
	r.Dim("length_sweep", fmt.Sprintf("body lengths 0..%d x %v x EOL {LF, CRLF}", maxLen, sweep))
	rn.literalStrings()
	r.Dim("length_clause", fmt.Sprintf("%d bodies x %d length defects x %d renderings", len(lengthBodies), len(lengthDefects), len(lk)-1))
	return r.Finish()
}

// Replay re-executes one recorded case.
func Replay(path string) int {
	var cs Case
	if err := ev.ReplayCase(path, &cs); err != nil {
		fmt.Println("replay:", err)
		return 2
	}
	r := ev.New("C04", "quick", "model_checking", time.Minute)
	r.SetReplayMode()
	rn := &runner{r: r}
	if cs.String != nil {
		rn.stringCase(*cs.String)
	} else if cs.Length != nil {
		rn.length(cs.Length.Body, cs.Length.Defect, cs.Knobs)
	} else {
		rn.one(cs.Kinds, cs.Actions, cs.Knobs, "replay", cs.FreeMax)
	}
	return r.Finish()
}
