//go:build verif

package c04

import (
	"bytes"
	"fmt"
	"strings"

	"seehuhn.de/go/pdf"
	"seehuhn.de/go/pdf/zzverif/checks/hx"
	"seehuhn.de/go/pdf/zzverif/engine/ev"
)

// The literal-string clause: every conforming way of writing a string value
// as a literal string (ISO 32000-2 7.3.4.2) reads back as that value.
//
// Values are all strings of length <= 3 over {a, LF, CR}.  A rendering
// chooses, per byte, one of its spellings
//
//	a:  a | \141
//	LF: \n | \012 | raw LF | raw CR | raw CR LF     (an unescaped end-of-line reads as LF)
//	CR: \r | \015
//
// and inserts at most one line continuation (backslash + LF | CR | CR LF,
// which stands for nothing) at any position.  Combinations in which two
// choices would fuse into another token (a raw CR, or a continuation ending
// in CR, directly followed by a raw LF) are not renderings of the value and
// are skipped.
type StringCase struct {
	Value     string   `json:"value"`
	Spellings []string `json:"spellings"`
	ContPos   int      `json:"continuation_position"` // -1: none
	Cont      string   `json:"continuation"`
}

var (
	spellA  = []string{"a", "\\141"}
	spellLF = []string{"\\n", "\\012", "\n", "\r", "\r\n"}
	spellCR = []string{"\\r", "\\015"}
	conts   = []string{"\\\n", "\\\r", "\\\r\n"}
)

func (c StringCase) text() (string, bool) {
	var parts []string
	for i, s := range c.Spellings {
		if i == c.ContPos {
			parts = append(parts, c.Cont)
		}
		parts = append(parts, s)
	}
	if c.ContPos == len(c.Spellings) {
		parts = append(parts, c.Cont)
	}
	for i := 0; i+1 < len(parts); i++ {
		if strings.HasSuffix(parts[i], "\r") && strings.HasPrefix(parts[i+1], "\n") {
			return "", false
		}
	}
	return "(" + strings.Join(parts, "") + ")", true
}

func stringFile(lit string) []byte {
	var b bytes.Buffer
	b.WriteString("%PDF-1.7\n")
	var offs []int
	obj := func(body string) {
		offs = append(offs, b.Len())
		fmt.Fprintf(&b, "%d 0 obj\n%s\nendobj\n", len(offs), body)
	}
	obj("<< /Type /Catalog /Pages 2 0 R >>")
	obj("<< /Type /Pages /Kids [] /Count 0 >>")
	obj(lit)
	obj("<< /K " + lit + " /After /x >>")
	xr := b.Len()
	fmt.Fprintf(&b, "xref\n0 %d\n0000000000 65535 f \n", len(offs)+1)
	for _, o := range offs {
		fmt.Fprintf(&b, "%010d 00000 n \n", o)
	}
	fmt.Fprintf(&b, "trailer\n<< /Size %d /Root 1 0 R >>\nstartxref\n%d\n%%%%EOF\n", len(offs)+1, xr)
	return b.Bytes()
}

func (rn *runner) stringCase(c StringCase) {
	r := rn.r
	lit, ok := c.text()
	if !ok {
		return
	}
	r.Eval(1)
	r.Trace(1)
	file := stringFile(lit)
	cs := Case{String: &c}
	class := func() string {
		var k []string
		for _, s := range c.Spellings {
			switch s {
			case "\n":
				k = append(k, "rawLF")
			case "\r":
				k = append(k, "rawCR")
			case "\r\n":
				k = append(k, "rawCRLF")
			}
		}
		if c.ContPos >= 0 {
			k = append(k, "continuation")
		}
		if len(k) == 0 {
			return "escapes-only"
		}
		return strings.Join(k, "+")
	}
	rd, err := pdf.NewReader(bytes.NewReader(file), int64(len(file)), nil)
	if err != nil {
		r.Violation("string-rendering:open-error", fmt.Sprintf("NewReader: %v (literal %q)", err, lit), cs)
		return
	}
	want := pdf.String(c.Value)
	got, err := rd.Get(pdf.NewReference(3, 0), true)
	if err != nil || !hx.Equal(got, want) {
		r.Outcome("fail:string-rendering")
		r.Violation("string-rendering:"+class(), fmt.Sprintf("the literal string %q reads as %s (%v), the value written is %q (an unescaped end-of-line reads as LF, backslash + end-of-line as nothing)", lit, hx.Show(got), err, c.Value), cs)
		return
	}
	d, err := rd.Get(pdf.NewReference(4, 0), true)
	dd, _ := d.(pdf.Dict)
	if err != nil || dd == nil || !hx.Equal(dd["K"], want) || !hx.Equal(dd["After"], pdf.Name("x")) {
		r.Outcome("fail:string-rendering")
		r.Violation("string-rendering:in-dict:"+class(), fmt.Sprintf("<< /K %q /After /x >> reads as %s (%v)", lit, hx.Show(d), err), cs)
		return
	}
	r.Outcome("ok:string-rendering:" + class())
}

func (rn *runner) literalStrings() {
	r := rn.r
	var vals []string
	var rec func(s string)
	rec = func(s string) {
		vals = append(vals, s)
		if len(s) == 3 {
			return
		}
		for _, c := range "a\n\r" {
			rec(s + string(c))
		}
	}
	rec("")
	r.Dim("literal_string_clause", fmt.Sprintf("%d values (length <= 3 over {a, LF, CR}) x every spelling per byte (a: 2, LF: 5, CR: 2) x at most one line continuation (3 kinds) at every position; top-level object and dictionary value", len(vals)))
	r.Par(len(vals), func(i int) {
		v := vals[i]
		var spell func(k int, cur []string)
		spell = func(k int, cur []string) {
			if k == len(v) {
				sp := append([]string{}, cur...)
				rn.stringCase(StringCase{Value: v, Spellings: sp, ContPos: -1})
				for pos := 0; pos <= len(v); pos++ {
					for _, ct := range conts {
						rn.stringCase(StringCase{Value: v, Spellings: sp, ContPos: pos, Cont: ct})
					}
				}
				return
			}
			var alts []string
			switch v[k] {
			case 'a':
				alts = spellA
			case '\n':
				alts = spellLF
			default:
				alts = spellCR
			}
			for _, a := range alts {
				spell(k+1, append(cur, a))
			}
		}
		spell(0, nil)
		r.DistinctS("litstr|" + v)
	})
	_ = ev.Pick[int]
}
