//go:build verif

package c09

// The options-reuse family, added after an independently written breaking
// change was missed (notes/C09.md, "Strengthening after independent seeds,
// round 5"): every other space builds a fresh WriterOptions value for every
// document, so nothing the Writer leaves behind in (or remembers about) the
// options value can ever reach a second document.  The statement quantifies
// over documents, not over options values: here ONE options value is used for
// k = 2..3 documents in a row, the caller changing the password fields (and
// the permissions) in between, and every sequence of (user, owner) pairs over
// a small password alphabet is enumerated.
//
//	step            (user, owner) in S x S, S = {"", a, ab}: 9 pairs (("", "") = an unencrypted document in between)
//	sequences       every sequence of k steps, k = 2, 3: 81 + 729
//	permissions     document i of a sequence requests reusePerms[i] (so no two documents of a sequence ask for the same set)
//	metadata        document i has metadata mode pattern[i] (quick: all "none"; thorough: 3 patterns)
//	carry style     same-value-changed-fields   the caller assigns, on the same *WriterOptions, exactly the fields whose
//	                                            intended value differs from the previous document's (opt.UserPassword = "second")
//	                struct-copy-changed-fields  the same on a by-value copy of the previous options value (o2 := *opt)
//	                same-value-all-fields       (thorough) every field is assigned again
//	x version; tries per document: no options, a, ab, b
//
// Oracle: exactly that of the password space, per document, computed from the
// values the caller assigned for THAT document (judge): each document must
// behave as if it had been written with a fresh options value.  Whether the
// Writer modified the caller's options value is only mentioned in the text
// (that clause is not C09's).

import (
	"fmt"

	"seehuhn.de/go/pdf"
)

var reusePasswords = []string{"", "a", "ab"}

var reuseTries = []string{"a", "ab", "b"}

var reusePerms = []pdf.Perm{pdf.PermCopy | pdf.PermForms, pdf.PermPrint | pdf.PermModify, 0}

func reuseStylesFor(thorough bool) []string {
	if thorough {
		return []string{"same-value-changed-fields", "struct-copy-changed-fields", "same-value-all-fields"}
	}
	return []string{"same-value-changed-fields", "struct-copy-changed-fields"}
}

func reuseMetaPatternsFor(thorough bool) [][]string {
	if thorough {
		return [][]string{{"none", "none", "none"}, {"plaintext", "encrypted", "none"}, {"encrypted", "plaintext", "encrypted"}}
	}
	return [][]string{{"none", "none", "none"}}
}

// reuseSequences returns every sequence of k (user, owner) pairs, k in ks.
func reuseSequences(ks []int, metas []string) [][]Step {
	var pairs [][2]string
	for _, u := range reusePasswords {
		for _, o := range reusePasswords {
			pairs = append(pairs, [2]string{u, o})
		}
	}
	var out [][]Step
	var rec func(prefix []Step, k int)
	rec = func(prefix []Step, k int) {
		if k == 0 {
			out = append(out, append([]Step{}, prefix...))
			return
		}
		i := len(prefix)
		for _, p := range pairs {
			rec(append(prefix, Step{User: p[0], Owner: p[1], Perm: int(reusePerms[i]), Meta: metas[i]}), k-1)
		}
	}
	for _, k := range ks {
		rec(nil, k)
	}
	return out
}

func (rn *runner) checkReuse(c *Case) []failure {
	r := rn.r
	v, ok := versionOf(c.Version)
	if !ok {
		r.Infra("bad version in case: " + c.Version)
		return nil
	}
	if len(c.Seq) == 0 {
		r.Infra("options-reuse case without a sequence")
		return nil
	}
	var opt *pdf.WriterOptions
	var ms *pdf.MetadataStream
	var out []failure
	seqText := ""
	for i, st := range c.Seq {
		if i > 0 {
			seqText += ", then "
		}
		seqText += fmt.Sprintf("(user %q owner %q perm %#x meta %s)", st.User, st.Owner, st.Perm, st.Meta)
	}
	for i, st := range c.Seq {
		if i == 0 {
			m, err := newMeta(rn.g, st.Meta)
			if err != nil {
				r.Infra("cannot build XMP packet: " + err.Error())
				return nil
			}
			ms = m
			opt = &pdf.WriterOptions{
				ID:               [][]byte{append([]byte{}, fixedID[0]...), append([]byte{}, fixedID[1]...)},
				UserPassword:     st.User,
				OwnerPassword:    st.Owner,
				UserPermissions:  pdf.Perm(st.Perm),
				DocumentMetadata: ms,
				HumanReadable:    c.Human,
			}
		} else {
			prev := c.Seq[i-1]
			all := false
			switch c.ReuseStyle {
			case "same-value-changed-fields":
			case "struct-copy-changed-fields":
				o2 := *opt
				opt = &o2
			case "same-value-all-fields":
				all = true
			default:
				r.Infra("unknown reuse style " + c.ReuseStyle)
				return nil
			}
			if all || st.User != prev.User {
				opt.UserPassword = st.User
			}
			if all || st.Owner != prev.Owner {
				opt.OwnerPassword = st.Owner
			}
			if all || st.Perm != prev.Perm {
				opt.UserPermissions = pdf.Perm(st.Perm)
			}
			if all || st.Meta != prev.Meta {
				m, err := newMeta(rn.g, st.Meta)
				if err != nil {
					r.Infra("cannot build XMP packet: " + err.Error())
					return nil
				}
				ms = m
				opt.DocumentMetadata = ms
			}
		}
		r.Eval(1)
		r.DistinctS(fmt.Sprintf("reuse|%s|%v|%s|%d|%v", c.Version, c.Human, c.ReuseStyle, i, c.Seq))
		wr, stage, err := writeWith(rn.g, v, opt, ms)
		// informational: does the options value still say what the caller assigned?
		callerNote := "the options value still holds what the caller assigned"
		if opt.UserPassword != st.User || opt.OwnerPassword != st.Owner || opt.UserPermissions != pdf.Perm(st.Perm) || opt.DocumentMetadata != ms {
			callerNote = fmt.Sprintf("after NewWriter the caller's options value reads user %q owner %q perm %#x (MODIFIED by the Writer)", opt.UserPassword, opt.OwnerPassword, int(opt.UserPermissions))
		}
		sc := Case{Space: "options-reuse", Version: c.Version, User: st.User, Owner: st.Owner, Perm: st.Perm, Meta: st.Meta, Human: c.Human, Tries: c.Tries}
		fs := rn.judge(&sc, wr, stage, err)
		if sc.R != 0 {
			c.R = sc.R
		}
		which := "later-document"
		if i == 0 {
			which = "first-document"
		}
		for _, f := range fs {
			out = append(out, failure{fp: "reused-options:" + f.fp + ":" + which, try: f.try,
				what: fmt.Sprintf("one WriterOptions value (%s) used for %d documents: %s; document %d: %s; %s",
					c.ReuseStyle, len(c.Seq), seqText, i+1, f.what, callerNote)})
		}
	}
	return out
}
