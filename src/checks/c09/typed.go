//go:build verif

package c09

// The typed-streams family, added after an independently written breaking
// change was missed (notes/C09.md, "Strengthening after independent seeds,
// round 5"): in the other spaces the only stream that looks like a metadata
// stream is the catalog's own one, and no stream written by the caller has a
// /Type at all.  Here the caller writes streams whose dictionaries carry every
// (/Type, /Subtype) pair of an alphabet that contains the types the library
// itself handles specially when a file is encrypted (the XMP metadata stream
// /Metadata /XML, cross-reference streams /XRef, object streams /ObjStm,
// embedded files, image XObjects), next to the catalog's metadata stream in
// every metadata mode (none, encrypted, plaintext = /EncryptMetadata false).
//
//	/Type          absent, Metadata, XObject, EmbeddedFile, ObjStm, XRef
//	/Subtype       absent, XML, Image
//	filter         none, FilterCompress (Flate; LZW at 1.1)
//	body length    from a small set (0, 33, 700, ...)
//	referenced     from nowhere, or from the /Metadata entry of a page of the page tree
//	write route    Writer.OpenStream with that dictionary (all of the above), and
//	               ResourceManager.Embed(&MetadataStream{Plaintext: false|true})
//	               (the library's own route for XMP attached to other objects)
//	x metadata mode of the document (none | encrypted | plaintext) x version
//	  (x HumanReadable thorough); passwords (a, ab)
//
// One file per (version, HumanReadable, metadata mode) holds one stream per
// element of the product.  Oracle: the statement's "opening it with the user
// password or the owner password returns every ... stream exactly as
// written": dictionary entries written, decoded body (XMP packet for the
// Embed route, compared with MetadataStream.Equal), the page that refers to
// the stream, and the document metadata, for the user and the owner password.

import (
	"bytes"
	"errors"
	"fmt"
	"sort"
	"strings"

	"golang.org/x/text/language"
	"seehuhn.de/go/pdf"
	"seehuhn.de/go/pdf/zzverif/checks/hx"
	"seehuhn.de/go/xmp"
)

var (
	typedTypes    = []string{"", "Metadata", "XObject", "EmbeddedFile", "ObjStm", "XRef"}
	typedSubtypes = []string{"", "XML", "Image"}
	typedFilters  = []string{"none", "compress"}
	typedRefFrom  = []string{"unreferenced", "page-metadata"}
	typedRoutes   = []string{"openstream", "embed-metadatastream", "embed-metadatastream-plaintext"}
)

func typedLengthsFor(thorough bool) []int {
	if thorough {
		return []int{0, 1, 15, 16, 17, 33, 700, 5000}
	}
	return []int{0, 33, 700}
}

type typedEntry struct {
	route   string
	typ     string
	sub     string
	filter  string
	length  int
	refFrom string

	ref     pdf.Reference
	dict    pdf.Dict // entries written (openstream route)
	body    []byte
	ms      *pdf.MetadataStream // embed routes
	pageRef pdf.Reference
	page    pdf.Dict
}

func (e *typedEntry) label() string {
	if e.route != "openstream" {
		return e.route
	}
	t, s := e.typ, e.sub
	if t == "" {
		t = "-"
	}
	if s == "" {
		s = "-"
	}
	return t + "/" + s
}

func (e *typedEntry) String() string {
	if e.route != "openstream" {
		return fmt.Sprintf("MetadataStream written by the library (%s, %s)", e.route, e.refFrom)
	}
	return fmt.Sprintf("%s stream %s (filter %s, %d bytes, %s)", e.route, e.label(), e.filter, e.length, e.refFrom)
}

// typedBody: the varying part first, no shared prefixes between streams.
func typedBody(e *typedEntry) []byte {
	head := fmt.Sprintf("%s|%s|%s|%d|%s| body of a stream written by the caller ", e.typ, e.sub, e.filter, e.length, e.refFrom)
	b := make([]byte, e.length)
	for i := range b {
		b[i] = head[i%len(head)] + byte(i/len(head))
	}
	return b
}

// encInfo records what the Writer chose (read from its trailer).
func encInfo(w *pdf.Writer, wr *written) {
	enc, ok := w.GetMeta().Trailer["Encrypt"].(pdf.Dict)
	if !ok {
		return
	}
	if i, ok := enc["R"].(pdf.Integer); ok {
		wr.R = int(i)
	}
	if i, ok := enc["V"].(pdf.Integer); ok {
		wr.V = int(i)
	}
	if i, ok := enc["Length"].(pdf.Integer); ok {
		wr.length = int(i)
	}
	if cf, ok := enc["CF"].(pdf.Dict); ok {
		if std, ok := cf["StdCF"].(pdf.Dict); ok {
			if n, ok := std["CFM"].(pdf.Name); ok {
				wr.cfm = string(n)
			}
		}
	}
}

func typedPacket(title string) (*xmp.Packet, error) {
	packet := xmp.NewPacket()
	dc := &xmp.DublinCore{}
	dc.Title.Set(language.Und, title)
	if err := packet.Set(dc); err != nil {
		return nil, err
	}
	return packet, nil
}

// writeTyped produces the file of the typed-streams space.  skipped counts
// the Embed calls the Writer refused (version too low): not accepted, pruned.
func writeTyped(g *graph, v pdf.Version, user, owner string, human bool, mode string, lengths []int) (wr *written, entries []*typedEntry, skipped int, stage string, err error) {
	ms, err := newMeta(g, mode)
	if err != nil {
		return nil, nil, 0, "xmp", err
	}
	opt := &pdf.WriterOptions{
		ID:               [][]byte{append([]byte{}, fixedID[0]...), append([]byte{}, fixedID[1]...)},
		UserPassword:     user,
		OwnerPassword:    owner,
		UserPermissions:  pdf.PermCopy | pdf.PermForms,
		DocumentMetadata: ms,
		HumanReadable:    human,
	}
	buf := &bytes.Buffer{}
	w, err := pdf.NewWriter(buf, v, opt)
	if err != nil {
		return nil, nil, 0, "options", err
	}
	wr = &written{meta: ms}
	encInfo(w, wr)
	pages := w.Alloc()
	w.GetMeta().Catalog.Pages = pages
	w.GetMeta().Info.Title = pdf.TextString(g.title)
	var kids pdf.Array

	putPage := func(e *typedEntry) error {
		if e.refFrom != "page-metadata" {
			return nil
		}
		e.pageRef = w.Alloc()
		mk := func() pdf.Dict {
			return pdf.Dict{"Type": pdf.Name("Page"), "Parent": pages, "Resources": pdf.Dict{},
				"MediaBox": pdf.Array{pdf.Integer(0), pdf.Integer(0), pdf.Integer(100), pdf.Integer(100)},
				"Metadata": e.ref, "Note": pdf.String("page of " + e.String())}
		}
		e.page = mk()
		kids = append(kids, e.pageRef)
		return w.Put(e.pageRef, mk())
	}

	// route openstream: the whole product
	for _, typ := range typedTypes {
		for _, sub := range typedSubtypes {
			for _, filter := range typedFilters {
				for _, l := range lengths {
					for _, rf := range typedRefFrom {
						e := &typedEntry{route: "openstream", typ: typ, sub: sub, filter: filter, length: l, refFrom: rf}
						e.ref = w.Alloc()
						mk := func() pdf.Dict {
							d := pdf.Dict{"Mark": pdf.String("dict of " + e.String())}
							if typ != "" {
								d["Type"] = pdf.Name(typ)
							}
							if sub != "" {
								d["Subtype"] = pdf.Name(sub)
							}
							return d
						}
						e.dict = mk()
						e.body = typedBody(e)
						var fl []pdf.Filter
						if filter == "compress" {
							fl = append(fl, pdf.FilterCompress{})
						}
						body, err := w.OpenStream(e.ref, mk(), fl...)
						if err != nil {
							return nil, nil, 0, "openstream", err
						}
						if _, err := body.Write(append([]byte{}, e.body...)); err != nil {
							return nil, nil, 0, "stream-write", err
						}
						if err := body.Close(); err != nil {
							return nil, nil, 0, "stream-close", err
						}
						if err := putPage(e); err != nil {
							return nil, nil, 0, "put-page", err
						}
						entries = append(entries, e)
					}
				}
			}
		}
	}

	// routes embed-metadatastream(-plaintext): the library's own writer of
	// metadata streams that do not belong to the catalog
	rm := pdf.NewResourceManager(w)
	for _, route := range typedRoutes[1:] {
		for _, rf := range typedRefFrom {
			e := &typedEntry{route: route, typ: "Metadata", sub: "XML", filter: "library", refFrom: rf}
			title := "XMP of " + e.String()
			p1, err := typedPacket(title)
			if err != nil {
				return nil, nil, 0, "xmp", err
			}
			p2, err := typedPacket(title)
			if err != nil {
				return nil, nil, 0, "xmp", err
			}
			plain := route == "embed-metadatastream-plaintext"
			e.ms = &pdf.MetadataStream{Data: p2, Plaintext: plain} // the oracle's copy
			native, err := rm.Embed(&pdf.MetadataStream{Data: p1, Plaintext: plain})
			if err != nil {
				var ve *pdf.VersionError
				if errors.As(err, &ve) {
					skipped++
					continue
				}
				return nil, nil, 0, "embed", err
			}
			ref, ok := native.(pdf.Reference)
			if !ok {
				return nil, nil, 0, "embed", fmt.Errorf("Embed returned %T, not a reference", native)
			}
			e.ref = ref
			if err := putPage(e); err != nil {
				return nil, nil, 0, "put-page", err
			}
			entries = append(entries, e)
		}
	}
	if err := rm.Close(); err != nil {
		return nil, nil, 0, "rm-close", err
	}
	if err := w.Put(pages, pdf.Dict{"Type": pdf.Name("Pages"), "Kids": kids, "Count": pdf.Integer(len(kids))}); err != nil {
		return nil, nil, 0, "pages", err
	}
	if err := w.Close(); err != nil {
		return nil, nil, 0, "close", err
	}
	wr.data = buf.Bytes()
	return wr, entries, skipped, "", nil
}

// checkTyped writes the file of c and reads every stream with the user and
// with the owner password.
func (rn *runner) checkTyped(c *Case) []failure {
	r := rn.r
	v, ok := versionOf(c.Version)
	if !ok {
		r.Infra("bad version in case: " + c.Version)
		return nil
	}
	if len(c.TypedLens) == 0 {
		r.Infra("typed-streams case without lengths")
		return nil
	}
	r.Eval(1)
	wr, entries, skipped, stage, err := writeTyped(rn.g, v, c.User, c.Owner, c.Human, c.Meta, c.TypedLens)
	if err != nil {
		switch stage {
		case "xmp":
			r.Infra("cannot build XMP packet: " + err.Error())
		case "options":
			r.Count("typed_files_rejected_by_writer", 1)
		default:
			r.Count("typed_files_rejected_write_error_"+stage, 1)
			r.Outcome("writer:accepted-options-but-write-error")
		}
		return nil
	}
	if wr.R == 0 {
		r.Count("files_unencrypted", 1)
		return nil
	}
	c.R = wr.R
	cipher := cipherName(wr)
	r.Count(fmt.Sprintf("typed_files_encrypted R%d %s", wr.R, cipher), 1)
	r.Count("typed_embed_calls_rejected_by_writer (version)", int64(skipped))
	where := fmt.Sprintf("typed-streams file, version %s %s, document metadata %s", c.Version, cipher, c.Meta)
	allLabels := map[string]bool{}
	for _, e := range entries {
		allLabels[e.label()] = true
	}

	type symptom struct {
		labels, filters, refs map[string]bool
		n                     int
		first                 string
	}
	keys := func(m map[string]bool) []string {
		var l []string
		for k := range m {
			l = append(l, k)
		}
		sort.Strings(l)
		return l
	}
	var out []failure
	for _, role := range []string{"user", "owner"} {
		pw := c.User
		if role == "owner" {
			pw = c.Owner
		}
		r.Eval(1)
		rd, err := pdf.NewReader(bytes.NewReader(wr.data), int64(len(wr.data)), &pdf.ReaderOptions{Password: pw})
		if err != nil || rd == nil {
			out = append(out, failure{fp: fmt.Sprintf("right-password-rejected:R%d:%s", wr.R, role), try: pw,
				what: fmt.Sprintf("%s: the %s password %q is rejected: %v", where, role, pw, err)})
			continue
		}
		bad := map[string]*symptom{}
		note := func(sym string, e *typedEntry, what string) {
			b := bad[sym]
			if b == nil {
				b = &symptom{labels: map[string]bool{}, filters: map[string]bool{}, refs: map[string]bool{}, first: e.String() + ": " + what}
				bad[sym] = b
			}
			b.n++
			b.labels[e.label()] = true
			b.filters[e.filter] = true
			b.refs[e.refFrom] = true
		}
		// the document's own metadata and Info
		m := rd.GetMeta()
		docBad := ""
		switch {
		case m.Info == nil || string(m.Info.Title) != rn.g.title:
			docBad = "content:info-title"
		case c.Meta != "none" && (m.Catalog == nil || m.Catalog.Metadata == nil):
			docBad = "content:metadata-missing"
		case c.Meta != "none" && !m.Catalog.Metadata.Equal(wr.meta):
			docBad = "content:metadata-differs"
		}
		if docBad != "" {
			out = append(out, failure{fp: fmt.Sprintf("%s:R%d", docBad, wr.R), try: pw,
				what: fmt.Sprintf("%s, opened with the %s password: Info.Title or document metadata do not read back as written", where, role)})
		}
		for _, e := range entries {
			r.Eval(1)
			r.DistinctS(fmt.Sprintf("typed|%s|%d|%v|%s|%s|%s|%s|%s|%s|%d|%s", cipher, wr.R, c.Human, c.Meta, role, e.route, e.typ, e.sub, e.filter, e.length, e.refFrom))
			good := true
			if e.refFrom == "page-metadata" {
				got, err := rd.Get(e.pageRef, true)
				if err != nil {
					note("page-get-error", e, err.Error())
					good = false
				} else if !hx.Equal(got, e.page) {
					note("page-differs", e, fmt.Sprintf("page reads %s, written %s", hx.Show(got), hx.Show(e.page)))
					good = false
				}
			}
			if e.route != "openstream" {
				got, err := pdf.ExtractMetadataStream(pdf.NewCursor(rd), e.ref, false)
				switch {
				case err != nil:
					note("extract-error", e, err.Error())
					good = false
				case got == nil || got.Data == nil:
					note("extract-nil", e, "ExtractMetadataStream returned no packet")
					good = false
				case !got.Equal(e.ms):
					note("xmp-differs", e, "the XMP packet read differs from the one embedded")
					good = false
				}
				if good {
					r.Outcome("typed-streams:stream-ok")
				}
				continue
			}
			got, err := rd.Get(e.ref, true)
			if err != nil {
				note("get-error", e, err.Error())
				continue
			}
			stm, ok := got.(*pdf.Stream)
			if !ok {
				note("stream-type", e, fmt.Sprintf("stream reads as %T", got))
				continue
			}
			d := pdf.Dict{}
			for key := range e.dict {
				if val, ok := stm.Dict[key]; ok {
					d[key] = val
				}
			}
			if !hx.Equal(d, e.dict) {
				note("stream-dict-differs", e, fmt.Sprintf("entries read %s, written %s", hx.Show(d), hx.Show(e.dict)))
				good = false
			}
			body, err := pdf.DecodeStream(rd, nil, stm)
			if err != nil {
				note("stream-decode-error", e, err.Error())
				continue
			}
			data, err := readChunked(body, 0)
			body.Close()
			switch {
			case err != nil:
				note("stream-read-error", e, fmt.Sprintf("after %d bytes: %v", len(data), err))
				good = false
			case !bytes.Equal(data, e.body):
				note("stream-body-differs", e, fmt.Sprintf("("+lengthClass(data, e.body)+") body reads as %d bytes %.40q, written %d bytes %.40q", len(data), data, len(e.body), e.body))
				good = false
			}
			if good {
				r.Outcome("typed-streams:stream-ok")
			}
		}
		if len(bad) == 0 {
			continue
		}
		r.Count("typed_files_with_failures "+cipher, 1)
		syms := make([]string, 0, len(bad))
		for sym := range bad {
			syms = append(syms, sym)
		}
		sort.Strings(syms)
		for _, sym := range syms {
			b := bad[sym]
			labels := keys(b.labels)
			class := strings.Join(labels, "+")
			switch {
			case len(labels) == len(allLabels):
				class = "every-type"
			case len(labels) > 4:
				class = "several-types"
			}
			out = append(out, failure{fp: fmt.Sprintf("content:typed-stream:%s:R%d:document-metadata-%s:%s", sym, wr.R, c.Meta, class), try: pw,
				what: fmt.Sprintf("%s, opened with the %s password: %d of %d streams fail; /Type/Subtype (or route) of the failing streams: %v; filters %v; %v; first: %s",
					where, role, b.n, len(entries), labels, keys(b.filters), keys(b.refs), b.first)})
		}
	}
	return out
}
