//go:build verif

package c09

// The aliasing family, added after an independently written breaking change
// was missed (notes/C09.md, "Strengthening after independent seeds, round 2"):
// the fixed object graph of the other spaces hands every Go value to the
// Writer exactly once.  Here the SAME Go value (one backing array for a
// pdf.String, one slice for a pdf.Array, one map for a pdf.Dict) is handed to
// the Writer k times, and every way of distributing the k occurrences over
// the places of the write program ("slots") is enumerated.
//
//	value kinds   string            the same pdf.String k times
//	              string-overlap    occurrence i is base[i:i+L] of one backing array of L+k-1 bytes
//	              array             the same pdf.Array{string, 7} k times
//	              dict              the same pdf.Dict{/S string /N /n} k times
//	string length L from a small set (0, 1, 16, 33, ...)
//	slots         put-direct        Put(ref_i, V)                       one reference per occurrence
//	              array-element     Put(ref, [/A V 1 V 2 V])            all occurrences in one array
//	              dict-entry        Put(ref, <</E0 V /E1 V ...>>)       all occurrences in one dictionary
//	              nested            Put(ref, [/N <</X [V]>> ...])       two levels down
//	              stream-dict       OpenStream(ref, <</K0 V ...>>)      entries of a stream dictionary
//	              deferred-put      Put(ref_i, [V]) while that stream is open (written when it closes)
//	              compressed        WriteCompressed(refs, filler, V, V) members of one object stream (1.5+), else plain objects
//	placements    every multiset of k slots, k = 2, 3 (thorough: 4)
//
// The write program is the same for every placement (all seven places are
// always written, with no occurrence in the places the multiset leaves out),
// so the files differ in nothing but the aliasing.  Oracle: the statement's
// "every string ... returned after decryption is byte-identical to what was
// written", for the user and for the owner password: every container reads
// back equal to the container built from fresh, unaliased copies of the value.

import (
	"bytes"
	"fmt"
	"sort"
	"strings"

	"seehuhn.de/go/pdf"
	"seehuhn.de/go/pdf/zzverif/checks/hx"
)

var aliasKinds = []string{"string", "string-overlap", "array", "dict"}

var aliasSlotNames = []string{"put-direct", "array-element", "dict-entry", "nested", "stream-dict", "deferred-put", "compressed"}

const (
	slotPut = iota
	slotArray
	slotDict
	slotNested
	slotStreamDict
	slotDeferred
	slotCompressed
	nAliasSlots
)

// aliasPlacements returns every multiset of k slots (non-decreasing slot
// vectors) for every k of ks.
func aliasPlacements(ks []int) [][]int {
	var out [][]int
	var rec func(prefix []int, from, k int)
	rec = func(prefix []int, from, k int) {
		if k == 0 {
			out = append(out, append([]int{}, prefix...))
			return
		}
		for s := from; s < nAliasSlots; s++ {
			rec(append(prefix, s), s, k-1)
		}
	}
	for _, k := range ks {
		rec(nil, 0, k)
	}
	return out
}

type aliasParams struct {
	mult    []int // number of occurrences
	lengths []int // length of the string
}

func aliasParamsFor(thorough bool) aliasParams {
	if thorough {
		return aliasParams{mult: []int{2, 3, 4}, lengths: []int{0, 1, 15, 16, 17, 33, 300}}
	}
	return aliasParams{mult: []int{2, 3}, lengths: []int{0, 1, 16, 33}}
}

// aliasText is the content of the shared backing array.
func aliasText(n int) []byte {
	b := make([]byte, n)
	for i := range b {
		b[i] = "the same value, handed to the Writer more than once ()\\\x00\xff"[i%56] + byte(i/56)
	}
	return b
}

// aliasValues returns the k values handed to the Writer (aliased) and k
// fresh values with the same content (what has to be read back).
func aliasValues(kind string, L, k int) (occ, exp []pdf.Object, intact func() bool) {
	orig := aliasText(L + k - 1)
	base := append([]byte{}, orig...) // the one backing array
	fresh := func(b []byte) pdf.String { return pdf.String(append([]byte{}, b...)) }
	switch kind {
	case "string":
		s := pdf.String(base[:L:L])
		for i := 0; i < k; i++ {
			occ = append(occ, s)
			exp = append(exp, fresh(orig[:L]))
		}
	case "string-overlap":
		for i := 0; i < k; i++ {
			occ = append(occ, pdf.String(base[i:i+L]))
			exp = append(exp, fresh(orig[i:i+L]))
		}
	case "array":
		a := pdf.Array{pdf.String(base[:L:L]), pdf.Integer(7)}
		for i := 0; i < k; i++ {
			occ = append(occ, a)
			exp = append(exp, pdf.Array{fresh(orig[:L]), pdf.Integer(7)})
		}
	case "dict":
		d := pdf.Dict{"S": pdf.String(base[:L:L]), "N": pdf.Name("n")}
		for i := 0; i < k; i++ {
			occ = append(occ, d)
			exp = append(exp, pdf.Dict{"S": fresh(orig[:L]), "N": pdf.Name("n")})
		}
	default:
		return nil, nil, nil
	}
	snapshot := make([]pdf.Object, k)
	for i := range occ {
		snapshot[i] = hx.Clone(exp[i])
	}
	intact = func() bool {
		if !bytes.Equal(base, orig) {
			return false
		}
		for i := range occ {
			if !hx.Equal(occ[i], snapshot[i]) {
				return false
			}
		}
		return true
	}
	return occ, exp, intact
}

// aliasContainer builds the object of one place from the values it hosts.
func aliasContainer(slot int, vals []pdf.Object) pdf.Object {
	switch slot {
	case slotPut, slotCompressed:
		return vals[0]
	case slotDeferred:
		return pdf.Array{vals[0]}
	case slotArray:
		a := pdf.Array{pdf.Name("A")}
		for j, v := range vals {
			if j > 0 {
				a = append(a, pdf.Integer(j))
			}
			a = append(a, v)
		}
		return a
	case slotDict, slotStreamDict:
		d := pdf.Dict{"Z": pdf.Name("filler")}
		for j, v := range vals {
			d[pdf.Name(fmt.Sprintf("E%d", j))] = v
		}
		return d
	case slotNested:
		a := pdf.Array{pdf.Name("N")}
		for _, v := range vals {
			a = append(a, pdf.Dict{"X": pdf.Array{v}})
		}
		return a
	}
	return nil
}

// aliasExtract finds occurrence j of a place in the object read back (nil
// when the object does not have the shape written).
func aliasExtract(slot int, got pdf.Object, j int) (res pdf.Object, ok bool) {
	defer func() {
		if recover() != nil {
			res, ok = nil, false
		}
	}()
	switch slot {
	case slotPut, slotCompressed:
		return got, true
	case slotDeferred:
		return got.(pdf.Array)[0], true
	case slotArray:
		return got.(pdf.Array)[1+2*j], true
	case slotDict:
		v, ok := got.(pdf.Dict)[pdf.Name(fmt.Sprintf("E%d", j))]
		return v, ok
	case slotStreamDict:
		v, ok := got.(*pdf.Stream).Dict[pdf.Name(fmt.Sprintf("E%d", j))]
		return v, ok
	case slotNested:
		return got.(pdf.Array)[1+j].(pdf.Dict)["X"].(pdf.Array)[0], true
	}
	return nil, false
}

// aliasObject is one indirect object of the file: the place it belongs to,
// what has to be read back, and the occurrences (numbered in write order over
// the whole file) it hosts.
type aliasObject struct {
	slot int
	ref  pdf.Reference
	exp  pdf.Object
	occ  []int // global occurrence numbers; position in the slice = index within the place
}

var aliasStreamBody = []byte("body of the stream whose dictionary hosts aliased values")

// writeAliasing produces the file of the aliasing space.
func writeAliasing(v pdf.Version, user, owner string, human bool, kind string, L int, slots []int) (wr *written, objs []aliasObject, intact func() bool, stage string, err error) {
	k := len(slots)
	occ, exp, intact := aliasValues(kind, L, k)
	if occ == nil {
		return nil, nil, nil, "case", fmt.Errorf("unknown value kind %q", kind)
	}
	for i, s := range slots {
		if s < 0 || s >= nAliasSlots || i > 0 && s < slots[i-1] {
			return nil, nil, nil, "case", fmt.Errorf("bad slot vector %v", slots)
		}
	}
	// occurrences per place, in write order (= slot order)
	bySlot := make([][]int, nAliasSlots)
	for i, s := range slots {
		bySlot[s] = append(bySlot[s], i)
	}
	pick := func(from []pdf.Object, idx []int) []pdf.Object {
		var out []pdf.Object
		for _, i := range idx {
			out = append(out, from[i])
		}
		return out
	}

	opt := &pdf.WriterOptions{
		ID:              [][]byte{append([]byte{}, fixedID[0]...), append([]byte{}, fixedID[1]...)},
		UserPassword:    user,
		OwnerPassword:   owner,
		UserPermissions: pdf.PermCopy | pdf.PermForms,
		HumanReadable:   human,
	}
	buf := &bytes.Buffer{}
	w, err := pdf.NewWriter(buf, v, opt)
	if err != nil {
		return nil, nil, nil, "options", err
	}
	wr = &written{}
	if enc, ok := w.GetMeta().Trailer["Encrypt"].(pdf.Dict); ok {
		if i, ok := enc["R"].(pdf.Integer); ok {
			wr.R = int(i)
		}
		if i, ok := enc["V"].(pdf.Integer); ok {
			wr.V = int(i)
		}
		if i, ok := enc["Length"].(pdf.Integer); ok {
			wr.length = int(i)
		}
		if cf, ok := enc["CF"].(pdf.Dict); ok {
			if std, ok := cf["StdCF"].(pdf.Dict); ok {
				if n, ok := std["CFM"].(pdf.Name); ok {
					wr.cfm = string(n)
				}
			}
		}
	}
	pages := w.Alloc()
	if err := w.Put(pages, pdf.Dict{"Type": pdf.Name("Pages"), "Kids": pdf.Array{}, "Count": pdf.Integer(0)}); err != nil {
		return nil, nil, nil, "pages", err
	}
	w.GetMeta().Catalog.Pages = pages

	// put-direct: one object per occurrence
	for _, i := range bySlot[slotPut] {
		ref := w.Alloc()
		objs = append(objs, aliasObject{slot: slotPut, ref: ref, exp: exp[i], occ: []int{i}})
		if err := w.Put(ref, occ[i]); err != nil {
			return nil, nil, nil, "put", err
		}
	}
	// array-element, dict-entry, nested: one object each, always written
	for _, s := range []int{slotArray, slotDict, slotNested} {
		ref := w.Alloc()
		objs = append(objs, aliasObject{slot: s, ref: ref, exp: aliasContainer(s, pick(exp, bySlot[s])), occ: bySlot[s]})
		if err := w.Put(ref, aliasContainer(s, pick(occ, bySlot[s]))); err != nil {
			return nil, nil, nil, "put", err
		}
	}
	// stream-dict, and the objects Put while the stream is open
	sref := w.Alloc()
	objs = append(objs, aliasObject{slot: slotStreamDict, ref: sref, exp: aliasContainer(slotStreamDict, pick(exp, bySlot[slotStreamDict])), occ: bySlot[slotStreamDict]})
	sd, _ := aliasContainer(slotStreamDict, pick(occ, bySlot[slotStreamDict])).(pdf.Dict)
	body, err := w.OpenStream(sref, sd)
	if err != nil {
		return nil, nil, nil, "openstream", err
	}
	if _, err := body.Write(append([]byte{}, aliasStreamBody...)); err != nil {
		return nil, nil, nil, "stream-write", err
	}
	for _, i := range bySlot[slotDeferred] {
		ref := w.Alloc()
		objs = append(objs, aliasObject{slot: slotDeferred, ref: ref, exp: aliasContainer(slotDeferred, []pdf.Object{exp[i]}), occ: []int{i}})
		if err := w.Put(ref, aliasContainer(slotDeferred, []pdf.Object{occ[i]})); err != nil {
			return nil, nil, nil, "put-in-stream", err
		}
	}
	if err := body.Close(); err != nil {
		return nil, nil, nil, "stream-close", err
	}
	// compressed: a filler member and one member per occurrence
	crefs := []pdf.Reference{w.Alloc()}
	cobjs := []pdf.Object{pdf.Dict{"Filler": pdf.String("first member of the object stream")}}
	objs = append(objs, aliasObject{slot: slotCompressed, ref: crefs[0], exp: hx.Clone(cobjs[0])})
	for _, i := range bySlot[slotCompressed] {
		ref := w.Alloc()
		crefs = append(crefs, ref)
		cobjs = append(cobjs, occ[i])
		objs = append(objs, aliasObject{slot: slotCompressed, ref: ref, exp: exp[i], occ: []int{i}})
	}
	if err := w.WriteCompressed(crefs, cobjs...); err != nil {
		return nil, nil, nil, "writecompressed", err
	}
	if err := w.Close(); err != nil {
		return nil, nil, nil, "close", err
	}
	wr.data = buf.Bytes()
	return wr, objs, intact, "", nil
}

// checkAliasing writes the file of c and reads every object with the user
// and with the owner password.
func (rn *runner) checkAliasing(c *Case) []failure {
	r := rn.r
	v, ok := versionOf(c.Version)
	if !ok {
		r.Infra("bad version in case: " + c.Version)
		return nil
	}
	r.Eval(1)
	wr, objs, intact, stage, err := writeAliasing(v, c.User, c.Owner, c.Human, c.AliasKind, c.AliasLen, c.AliasSlots)
	if err != nil {
		switch stage {
		case "case":
			r.Infra("bad aliasing case: " + err.Error())
		case "options":
			r.Count("aliasing_files_rejected_by_writer", 1)
		default:
			r.Count("aliasing_files_rejected_write_error_"+stage, 1)
			r.Outcome("writer:accepted-options-but-write-error")
		}
		return nil
	}
	if wr.R == 0 {
		r.Count("files_unencrypted", 1)
		return nil
	}
	c.R = wr.R
	cipher := cipherName(wr)
	r.Count(fmt.Sprintf("aliasing_files_encrypted R%d %s", wr.R, cipher), 1)
	callerNote := "the caller's values are unchanged after Close"
	if !intact() {
		callerNote = "the caller's values are MODIFIED after Close"
	}
	var names []string
	for _, s := range c.AliasSlots {
		names = append(names, aliasSlotNames[s])
	}
	where := fmt.Sprintf("aliasing file, version %s %s, value kind %s, string length %d, occurrences in %s", c.Version, cipher, c.AliasKind, c.AliasLen, strings.Join(names, "+"))

	var out []failure
	for _, role := range []string{"user", "owner"} {
		pw := c.User
		if role == "owner" {
			pw = c.Owner
		}
		r.Eval(1)
		r.DistinctS(fmt.Sprintf("alias|%s|%d|%v|%s|%d|%v|%s", cipher, wr.R, c.Human, c.AliasKind, c.AliasLen, c.AliasSlots, role))
		rd, err := pdf.NewReader(bytes.NewReader(wr.data), int64(len(wr.data)), &pdf.ReaderOptions{Password: pw})
		if err != nil || rd == nil {
			out = append(out, failure{fp: fmt.Sprintf("right-password-rejected:R%d:%s", wr.R, role), try: pw,
				what: fmt.Sprintf("%s: the %s password %q is rejected: %v", where, role, pw, err)})
			continue
		}
		var badOcc []int
		firstWhat := ""
		fp := ""
		note := func(f, what string) {
			if firstWhat == "" {
				firstWhat = what
			}
			if fp == "" {
				fp = f
			}
		}
		for _, o := range objs {
			got, err := rd.Get(o.ref, true)
			if err != nil {
				note(fmt.Sprintf("content:get-error:aliased:R%d", wr.R), fmt.Sprintf("%s object %s: %v", aliasSlotNames[o.slot], o.ref, err))
				badOcc = append(badOcc, o.occ...)
				continue
			}
			var cmp pdf.Object = got
			if o.slot == slotStreamDict {
				stm, ok := got.(*pdf.Stream)
				if !ok {
					note(fmt.Sprintf("content:stream-type:aliased:R%d", wr.R), fmt.Sprintf("stream reads as %T", got))
					badOcc = append(badOcc, o.occ...)
					continue
				}
				// the entries written (the Writer adds /Length)
				d := pdf.Dict{}
				for key := range o.exp.(pdf.Dict) {
					if val, ok := stm.Dict[key]; ok {
						d[key] = val
					}
				}
				cmp = d
				body, err := pdf.DecodeStream(rd, nil, stm)
				if err != nil {
					note(fmt.Sprintf("content:stream-decode-error:aliased:R%d", wr.R), err.Error())
				} else {
					data, err := readChunked(body, 0)
					body.Close()
					if err != nil || !bytes.Equal(data, aliasStreamBody) {
						note(fmt.Sprintf("content:stream-body-differs:aliased:R%d", wr.R), fmt.Sprintf("stream body reads as %d bytes %.40q (%v)", len(data), data, err))
					}
				}
			}
			if hx.Equal(cmp, o.exp) {
				continue
			}
			// which occurrences differ?
			found := false
			for j, i := range o.occ {
				val, ok := aliasExtract(o.slot, got, j)
				var want pdf.Object
				if ok {
					want, _ = aliasExtract(o.slot, expForExtract(o), j)
				}
				if !ok || !hx.Equal(val, want) {
					badOcc = append(badOcc, i)
					found = true
				}
			}
			if found {
				note("", fmt.Sprintf("%s object %s reads %s, written %s", aliasSlotNames[o.slot], o.ref, hx.Show(cmp), hx.Show(o.exp)))
			} else {
				// the object differs outside the aliased values
				note(fmt.Sprintf("content:object-differs:aliased-file:R%d:outside-the-aliased-values", wr.R),
					fmt.Sprintf("%s object %s reads %s, written %s", aliasSlotNames[o.slot], o.ref, hx.Show(cmp), hx.Show(o.exp)))
			}
		}
		if fp == "" && len(badOcc) == 0 {
			r.Outcome("aliasing:all-occurrences-ok")
			continue
		}
		sort.Ints(badOcc)
		if fp == "" {
			pattern := "first-occurrence-differs"
			if badOcc[0] != 0 {
				pattern = "first-occurrence-ok-later-differs"
			}
			fp = fmt.Sprintf("content:aliased-value-differs:R%d:%s", wr.R, pattern)
		}
		r.Outcome("aliasing:" + cipher + ":DIFFERS")
		out = append(out, failure{fp: fp, try: pw,
			what: fmt.Sprintf("%s, opened with the %s password: occurrences %v of %d (in write order, from 0) do not read back as written; %s; %s",
				where, role, badOcc, len(c.AliasSlots), firstWhat, callerNote)})
	}
	return out
}

// expForExtract gives the expected object in the shape aliasExtract expects
// (a stream for the stream-dict place).
func expForExtract(o aliasObject) pdf.Object {
	if o.slot == slotStreamDict {
		d, _ := o.exp.(pdf.Dict)
		return &pdf.Stream{Dict: d}
	}
	return o.exp
}
