//go:build verif

package c09

// Two boundary families added after independently written breaking changes
// were missed (notes/C09.md, "Strengthening after independent seeds"):
//
//   - passwords around the truncation bound of the password preparation
//     (32 for revisions <= 4, 127 bytes of UTF-8 for revision 6) whose
//     character at the bound is 1, 2, 3 or 4 bytes of UTF-8 wide, cut at
//     every possible position, tried with every password that differs from
//     them first at byte k of that character for every k;
//
//   - unfiltered streams and strings of every length in a window around
//     every multiple of the cipher block size up to 64 and around every
//     multiple of 512 up to 4096 (8192 thorough), written in pieces of
//     several sizes and read back with buffers of several sizes.

import (
	"bytes"
	"fmt"
	"io"
	"sort"
	"strings"

	"seehuhn.de/go/pdf"
	"seehuhn.de/go/pdf/zzverif/ref/stdsec"
)

// ---------------------------------------------------------------------------
// passwords around the truncation bound

// boundaryChar is one character of UTF-8 width w together with characters of
// the same width that differ from it first at byte k (variants[k-1]; "" when
// no suitable character exists).  All of them are assigned in Unicode 3.2,
// fixed by SASLprep (no mapping, NFKC-stable, not prohibited, not
// right-to-left); the self-test checks this with ref/stdsec.
type boundaryChar struct {
	base     string
	variants []string
}

var boundaryChars = []boundaryChar{
	{"x", []string{"y"}},
	{"ä", []string{"ā", "ã"}},      // C3 A4 | C4 81 | C3 A3
	{"€", []string{"あ", "∀", "₭"}}, // E2 82 AC | E3 81 82 | E2 88 80 | E2 82 AD
	{"\U00010400", []string{"", "\U00020000", "\U00010330", "\U00010401"}}, // F0 90 90 80 | (all assigned 4-byte characters start with F0) | F0 A0 80 80 | F0 90 8C B0 | F0 90 90 81
}

func boundaryCharsSelfTest() error {
	for i, bc := range boundaryChars {
		w := i + 1
		all := append([]string{bc.base}, bc.variants...)
		if len(bc.variants) != w {
			return fmt.Errorf("boundary character table: width %d has %d variants", w, len(bc.variants))
		}
		for k, s := range all {
			if s == "" {
				continue
			}
			if len(s) != w || len([]rune(s)) != 1 {
				return fmt.Errorf("boundary character %q is not one character of %d bytes", s, w)
			}
			if p, err := stdsec.SASLprep("a" + s); err != nil || p != "a"+s {
				return fmt.Errorf("boundary character %q is not fixed by SASLprep (%q, %v)", s, p, err)
			}
			if k > 0 {
				// variant k differs from the base first at byte k
				if s[:k-1] != bc.base[:k-1] || s[k-1] == bc.base[k-1] {
					return fmt.Errorf("boundary character %q does not differ from %q first at byte %d", s, bc.base, k)
				}
			}
		}
	}
	return nil
}

// boundaryPasswords returns, for the truncation bound b, the passwords
// P(w,j) = ASCII[:b-j] + base_w for every width w = 1..4 and every number
// j = 0..w of bytes of the character that lie before the bound (j = 0: the
// character starts at the bound and is cut off entirely; j = w: it ends at
// the bound; otherwise the bound falls inside it), and the try-passwords:
// every P(w,j), its ASCII prefix, the prefix followed by every variant of the
// character, and P(w,j) followed by one more ASCII byte.
func boundaryPasswords(b int) (files, tries []string) {
	seen := map[string]bool{}
	add := func(s string) {
		if !seen[s] {
			seen[s] = true
			tries = append(tries, s)
		}
	}
	for i, bc := range boundaryChars {
		w := i + 1
		for j := 0; j <= w; j++ {
			prefix := asciiBase[:b-j]
			p := prefix + bc.base
			files = append(files, p)
			add(p)
			add(prefix)
			for _, v := range bc.variants {
				if v != "" {
					add(prefix + v)
				}
			}
			add(p + "x")
		}
	}
	return files, tries
}

var truncationBounds = []int{32, 127}

// ---------------------------------------------------------------------------
// stream and string lengths

// lengthFamily returns every length in [0, 64+16] and in [m-17, m+17] for
// every multiple m of 512 up to top.
func lengthFamily(top int) []int {
	var ls []int
	for l := 0; l <= 80; l++ {
		ls = append(ls, l)
	}
	for m := 512; m <= top; m += 512 {
		for l := m - 17; l <= m+17; l++ {
			ls = append(ls, l)
		}
	}
	return ls
}

// lengthBody is the content of the stream or string of length l (any fixed
// content will do; it depends on l so that a mix-up of two streams shows).
func lengthBody(l int, salt byte) []byte {
	b := make([]byte, l)
	for i := range b {
		b[i] = byte(i*7+l*13) ^ salt
	}
	return b
}

type lengthParams struct {
	lengths     []int
	readChunks  []int // 0 = io.ReadAll
	writeChunks []int // 0 = one Write call
}

func lengthParamsFor(thorough bool) lengthParams {
	if thorough {
		return lengthParams{lengths: lengthFamily(8192), readChunks: []int{0, 1, 15, 16, 17, 512, 1024, 4096}, writeChunks: []int{0, 1, 3, 16, 512, 1000, 1024}}
	}
	return lengthParams{lengths: lengthFamily(4096), readChunks: []int{0, 1, 16, 17, 1024}, writeChunks: []int{0, 1, 16, 1000}}
}

func cipherName(wr *written) string {
	switch {
	case wr.cfm != "":
		return wr.cfm
	case wr.V == 1:
		return "RC4-40"
	default:
		return fmt.Sprintf("RC4-%d", wr.length)
	}
}

// writeLengths produces the file of the length space: one unfiltered stream
// and one string object per length.
func writeLengths(v pdf.Version, user, owner string, human bool, lengths []int, writeChunk int) (wr *written, stage string, err error) {
	opt := &pdf.WriterOptions{
		ID:              [][]byte{append([]byte{}, fixedID[0]...), append([]byte{}, fixedID[1]...)},
		UserPassword:    user,
		OwnerPassword:   owner,
		UserPermissions: pdf.PermCopy | pdf.PermForms,
		HumanReadable:   human,
	}
	buf := &bytes.Buffer{}
	w, err := pdf.NewWriter(buf, v, opt)
	if err != nil {
		return nil, "options", err
	}
	wr = &written{}
	if enc, ok := w.GetMeta().Trailer["Encrypt"].(pdf.Dict); ok {
		if i, ok := enc["R"].(pdf.Integer); ok {
			wr.R = int(i)
		}
		if i, ok := enc["V"].(pdf.Integer); ok {
			wr.V = int(i)
		}
		if i, ok := enc["Length"].(pdf.Integer); ok {
			wr.length = int(i)
		}
		if cf, ok := enc["CF"].(pdf.Dict); ok {
			if std, ok := cf["StdCF"].(pdf.Dict); ok {
				if n, ok := std["CFM"].(pdf.Name); ok {
					wr.cfm = string(n)
				}
			}
		}
	}
	pages := w.Alloc()
	if err := w.Put(pages, pdf.Dict{"Type": pdf.Name("Pages"), "Kids": pdf.Array{}, "Count": pdf.Integer(0)}); err != nil {
		return nil, "pages", err
	}
	w.GetMeta().Catalog.Pages = pages
	for _, l := range lengths {
		ref := w.Alloc()
		wr.stmRefs = append(wr.stmRefs, ref)
		body, err := w.OpenStream(ref, pdf.Dict{"L": pdf.Integer(l)})
		if err != nil {
			return nil, "openstream", err
		}
		data := lengthBody(l, 0)
		step := writeChunk
		if step <= 0 {
			step = len(data) + 1
		}
		for len(data) > 0 {
			n := min(step, len(data))
			if _, err := body.Write(data[:n]); err != nil {
				return nil, "stream-write", err
			}
			data = data[n:]
		}
		if err := body.Close(); err != nil {
			return nil, "stream-close", err
		}
		sref := w.Alloc()
		wr.objRefs = append(wr.objRefs, sref)
		if err := w.Put(sref, pdf.String(lengthBody(l, 0x5a))); err != nil {
			return nil, "put", err
		}
	}
	if err := w.Close(); err != nil {
		return nil, "close", err
	}
	wr.data = buf.Bytes()
	return wr, "", nil
}

func readChunked(rd io.Reader, chunk int) ([]byte, error) {
	if chunk <= 0 {
		return io.ReadAll(rd)
	}
	var out []byte
	buf := make([]byte, chunk)
	for {
		n, err := rd.Read(buf)
		out = append(out, buf[:n]...)
		if err == io.EOF {
			return out, nil
		}
		if err != nil {
			return out, err
		}
		if len(out) > 1<<24 {
			return out, fmt.Errorf("reader does not end")
		}
	}
}

func lengthClass(got, want []byte) string {
	switch {
	case len(got) > len(want) && bytes.Equal(got[:len(want)], want):
		return "written-bytes-plus-extra-bytes"
	case len(got) > len(want):
		return "longer"
	case len(got) < len(want) && bytes.Equal(got, want[:len(got)]):
		return "cut-short"
	case len(got) < len(want):
		return "shorter"
	default:
		return "same-length"
	}
}

// checkLengths writes the file of c and reads every stream (with every read
// buffer size) and every string with the user and with the owner password.
func (rn *runner) checkLengths(c *Case) []failure {
	r := rn.r
	v, ok := versionOf(c.Version)
	if !ok {
		r.Infra("bad version in case: " + c.Version)
		return nil
	}
	lengths := lengthFamily(c.LengthsTop)
	r.Eval(1)
	wr, stage, err := writeLengths(v, c.User, c.Owner, c.Human, lengths, c.WriteChunk)
	if err != nil {
		if stage == "options" {
			r.Count("length_files_rejected_by_writer", 1)
			return nil
		}
		r.Count("length_files_rejected_write_error_"+stage, 1)
		r.Outcome("writer:accepted-options-but-write-error")
		return nil
	}
	if wr.R == 0 {
		r.Count("files_unencrypted", 1)
		return nil
	}
	c.R = wr.R
	cipher := cipherName(wr)
	r.Count(fmt.Sprintf("length_files_encrypted R%d %s", wr.R, cipher), 1)

	var out []failure
	for _, role := range []string{"user", "owner"} {
		pw := c.User
		if role == "owner" {
			pw = c.Owner
		}
		r.Eval(1)
		rd, err := pdf.NewReader(bytes.NewReader(wr.data), int64(len(wr.data)), &pdf.ReaderOptions{Password: pw})
		if err != nil || rd == nil {
			out = append(out, failure{fp: fmt.Sprintf("right-password-rejected:R%d:%s", wr.R, role), try: pw,
				what: fmt.Sprintf("length file, version %s %s: the %s password %q is rejected: %v", c.Version, cipher, role, pw, err)})
			continue
		}
		// failing lengths per fingerprint
		bad := map[string][]string{}
		first := map[string]string{}
		note := func(fp, at, what string) {
			bad[fp] = append(bad[fp], at)
			if _, ok := first[fp]; !ok {
				first[fp] = what
			}
		}
		for i, l := range lengths {
			want := lengthBody(l, 0)
			for _, chunk := range c.ReadChunks {
				r.Eval(1)
				r.DistinctS(fmt.Sprintf("len|%s|%d|%v|w%d|%s|L%d|r%d", cipher, wr.R, c.Human, c.WriteChunk, role, l, chunk))
				at := fmt.Sprintf("L=%d/read=%d", l, chunk)
				obj, err := rd.Get(wr.stmRefs[i], true)
				stm, _ := obj.(*pdf.Stream)
				if err != nil || stm == nil {
					note(fmt.Sprintf("content:get-error:stream:R%d", wr.R), at, fmt.Sprintf("stream of %d bytes: %T %v", l, obj, err))
					r.Outcome("lengths:" + cipher + ":GET-ERROR")
					continue
				}
				if got, _ := stm.Dict["L"].(pdf.Integer); int(got) != l {
					note(fmt.Sprintf("content:stream-dict-differs:R%d", wr.R), at, fmt.Sprintf("stream of %d bytes has /L %v", l, stm.Dict["L"]))
					continue
				}
				body, err := pdf.DecodeStream(rd, nil, stm)
				if err != nil {
					note(fmt.Sprintf("content:stream-decode-error:R%d", wr.R), at, fmt.Sprintf("stream of %d bytes: %v", l, err))
					r.Outcome("lengths:" + cipher + ":DECODE-ERROR")
					continue
				}
				got, err := readChunked(body, chunk)
				body.Close()
				if err != nil {
					note(fmt.Sprintf("content:stream-read-error:R%d", wr.R), at, fmt.Sprintf("stream of %d bytes read with buffer %d: %v after %d bytes", l, chunk, err, len(got)))
					r.Outcome("lengths:" + cipher + ":READ-ERROR")
					continue
				}
				if !bytes.Equal(got, want) {
					cl := lengthClass(got, want)
					note(fmt.Sprintf("content:stream-body-differs:R%d:unfiltered:%s", wr.R, cl), at,
						fmt.Sprintf("stream of %d bytes (written in pieces of %d, read with buffer %d) reads as %d bytes, tail % x", l, c.WriteChunk, chunk, len(got), got[max(0, len(got)-min(len(got), 20)):]))
					r.Outcome("lengths:" + cipher + ":STREAM-DIFFERS:" + cl)
					continue
				}
				r.Outcome("lengths:" + cipher + ":stream-ok")
			}
			// the string of the same length
			r.Eval(1)
			r.DistinctS(fmt.Sprintf("len|%s|%d|%v|%s|S%d", cipher, wr.R, c.Human, role, l))
			wantS := lengthBody(l, 0x5a)
			obj, err := rd.Get(wr.objRefs[i], true)
			gotS, isString := obj.(pdf.String)
			switch {
			case err != nil:
				note(fmt.Sprintf("content:get-error:R%d", wr.R), fmt.Sprintf("string L=%d", l), fmt.Sprintf("string of %d bytes: %v", l, err))
			case !isString && !(l == 0 && obj == nil):
				note(fmt.Sprintf("content:object-differs:R%d", wr.R), fmt.Sprintf("string L=%d", l), fmt.Sprintf("string of %d bytes reads as %T", l, obj))
			case !bytes.Equal(gotS, wantS):
				note(fmt.Sprintf("content:object-differs:R%d:string:%s", wr.R, lengthClass(gotS, wantS)), fmt.Sprintf("string L=%d", l),
					fmt.Sprintf("string of %d bytes reads as %d bytes", l, len(gotS)))
				r.Outcome("lengths:" + cipher + ":STRING-DIFFERS")
			default:
				r.Outcome("lengths:string-ok")
			}
		}
		fps := make([]string, 0, len(bad))
		for fp := range bad {
			fps = append(fps, fp)
		}
		sort.Strings(fps)
		for _, fp := range fps {
			at := bad[fp]
			n := len(at)
			if n > 12 {
				at = append(at[:12:12], "…")
			}
			out = append(out, failure{fp: fp, try: pw,
				what: fmt.Sprintf("length file, version %s %s, opened with the %s password: %s; %d failing (length, read buffer) cases: %s", c.Version, cipher, role, first[fp], n, strings.Join(at, " "))})
		}
	}
	return out
}
