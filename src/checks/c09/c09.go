//go:build verif

// Package c09 decides C09: encryption — correct passwords recover everything,
// wrong ones nothing.
//
// Every file of the bounded space (password pair x version x metadata mode,
// and permission set x version x password pair x HumanReadable) is written
// with the real Writer and then opened with the real Reader once per
// try-password.  Which opens have to succeed is decided by the password
// preparation of ref/stdsec (written from the standard; shares nothing with
// the library).
package c09

import (
	"bytes"
	"errors"
	"fmt"
	"io"
	"sort"
	"strings"
	"time"

	"golang.org/x/text/language"
	"seehuhn.de/go/pdf"
	"seehuhn.de/go/pdf/zzverif/checks/hx"
	"seehuhn.de/go/pdf/zzverif/engine/ev"
	"seehuhn.de/go/pdf/zzverif/ref/stdsec"
	"seehuhn.de/go/xmp"
)

// Case is one replayable case: one file and the passwords tried on it.
type Case struct {
	Space   string   `json:"space"`   // "passwords" | "permissions" | "long-passwords" | "lengths" | "aliasing" | "containers" | "typed-streams" | "options-reuse"
	Version string   `json:"version"` // "1.4"
	User    string   `json:"user"`
	Owner   string   `json:"owner"`
	Perm    int      `json:"perm"`
	Meta    string   `json:"meta"` // none | encrypted | plaintext
	Human   bool     `json:"human_readable"`
	Tries   []string `json:"tries"`           // passwords tried (an open without options is always added)
	Failing string   `json:"failing_try"`     // informational
	R       int      `json:"revision_chosen"` // informational

	// space "lengths" only: one unfiltered stream and one string per length of lengthFamily(LengthsTop)
	LengthsTop int   `json:"lengths_top,omitempty"`
	WriteChunk int   `json:"write_chunk,omitempty"` // size of the pieces the stream bodies are written in (0 = one Write)
	ReadChunks []int `json:"read_chunks,omitempty"` // buffer sizes every stream is read with (0 = io.ReadAll)

	// space "aliasing" only: the same Go value handed to the Writer len(AliasSlots) times (aliasing.go)
	AliasKind  string `json:"alias_kind,omitempty"`          // string | string-overlap | array | dict
	AliasLen   int    `json:"alias_string_length,omitempty"` // length of the string inside the value
	AliasSlots []int  `json:"alias_slots,omitempty"`         // place of every occurrence (index into aliasSlotNames), non-decreasing

	// space "containers" only: strings at every depth of containers of every width of containerWidths(ContTop) (containers.go)
	ContKind string `json:"container_kind,omitempty"`      // array | dict
	ContFill string `json:"container_fill,omitempty"`      // sparse | dense
	ContTop  int    `json:"container_width_top,omitempty"` // largest power of two of the width family

	// space "typed-streams" only: one stream per (Type, Subtype, filter, length, referenced-from) of the alphabets of typed.go
	TypedLens []int `json:"typed_stream_lengths,omitempty"`

	// space "options-reuse" only: ONE WriterOptions value used for len(Seq) documents in a row (reuse.go)
	Seq        []Step `json:"reuse_sequence,omitempty"`
	ReuseStyle string `json:"reuse_style,omitempty"` // how the caller carries the options value to the next document (reuseStyles)
}

// Step is one document of an options-reuse sequence: what the caller wants
// the options to say for this document.
type Step struct {
	User  string `json:"user"`
	Owner string `json:"owner"`
	Perm  int    `json:"perm"`
	Meta  string `json:"meta"`
}

type failure struct {
	fp, what, try string
}

// ---------------------------------------------------------------------------
// alphabets

const asciiBase = "0123456789abcdefghijklmnopqrstuvwxyzABCDEFGHIJKLMNOPQRSTUVWXYZ-_0123456789abcdefghijklmnopqrstuvwxyzABCDEFGHIJKLMNOPQRSTUVWXYZ-_"

// passwords returns the password alphabet.  The first 14 elements are the
// alphabet of the design; the thorough tier adds 12 more edges.
func passwords(thorough bool) []string {
	pi := []string{
		"",
		"a",
		"ab",
		asciiBase[:31],
		asciiBase[:32],
		asciiBase[:33],
		asciiBase[:127],
		asciiBase[:128],
		"\u00e4",       // a-umlaut: Latin-1 range of PDFDocEncoding, 2 bytes of UTF-8
		"\u0141",       // Lslash: PDFDocEncoding 0x95
		"\u65e5\u672c", // two CJK characters: not PDFDoc-encodable
		"\u00aa",       // feminine ordinal: NFKC -> "a"
		"a\u00ad",      // soft hyphen: SASLprep maps it to nothing; position 0xAD of PDFDocEncoding is undefined
		"a\tb",         // HT is in PDFDocEncoding, and prohibited output of SASLprep (C.2.1)
	}
	if thorough {
		pi = append(pi,
			"a ",
			"a\u00a0", // no-break space: SASLprep -> "a "; not in PDFDocEncoding (0xA0 is Euro)
			"\ufb01",  // fi ligature: PDFDocEncoding 0x93, NFKC -> "fi"
			"fi",
			"A\u030a",                // A + combining ring: NFKC -> U+00C5
			"\u00c5",                 // A-ring
			asciiBase[:126]+"\u00e4", // byte 127 is the first half of a 2-byte character
			asciiBase[:126]+"\u00e3", // same first 127 bytes as the previous one
			"\u0627\u0628",           // right-to-left only
			"a\u0627",                // violates the bidi rule of SASLprep
			"\u20ac",                 // Euro: PDFDocEncoding 0xA0
			asciiBase[:31]+"\u0141",  // 32 bytes of PDFDocEncoding, 33 of UTF-8
		)
	}
	return pi
}

var versions = []pdf.Version{pdf.V1_0, pdf.V1_1, pdf.V1_2, pdf.V1_3, pdf.V1_4, pdf.V1_5, pdf.V1_6, pdf.V1_7, pdf.V2_0}

var metaModes = []string{"none", "encrypted", "plaintext"}

// closure closes a permission set under the implications documented at
// pdf.Perm: Print => PrintDegraded, Annotate => Forms, Modify => Assemble.
func closure(p pdf.Perm) pdf.Perm {
	if p&pdf.PermPrint != 0 {
		p |= pdf.PermPrintDegraded
	}
	if p&pdf.PermAnnotate != 0 {
		p |= pdf.PermForms
	}
	if p&pdf.PermModify != 0 {
		p |= pdf.PermAssemble
	}
	return p
}

// ---------------------------------------------------------------------------
// the fixed object graph

type streamSpec struct {
	dict    pdf.Dict
	body    []byte
	filters []pdf.Filter
}

type graph struct {
	objs       []pdf.Object // written with Put
	compressed []pdf.Object // written with WriteCompressed (an object stream from 1.5 on)
	streams    []streamSpec
	title      string
	xmpTitle   string
}

func theGraph() *graph {
	all := make([]byte, 256)
	for i := range all {
		all[i] = byte(i)
	}
	big := bytes.Repeat([]byte("compressible stream body 0123456789 "), 90)
	return &graph{
		objs: []pdf.Object{
			pdf.Array{pdf.String("string in array ()\\\x00\xff"), pdf.Array{pdf.String("nested"), pdf.Integer(7)},
				pdf.Dict{"K": pdf.String("dict in array")}, pdf.String(""), pdf.Name("N")},
			pdf.Dict{"S": pdf.String("string in dict"), "D": pdf.Dict{"S2": pdf.String("nested dict string")},
				"A":   pdf.Array{pdf.String("array in dict"), pdf.Name("X"), pdf.Real(1.5)},
				"B15": pdf.String("123456789012345"), "B16": pdf.String("1234567890123456"), "B17": pdf.String("12345678901234567"),
				"Bin": pdf.String(all)},
			pdf.String("top-level string"),
		},
		compressed: []pdf.Object{
			pdf.Dict{"Os": pdf.String("string in object stream"), "Oa": pdf.Array{pdf.String("arr in objstm"), pdf.Integer(1)}},
			pdf.Array{pdf.String("second compressed object"), pdf.Dict{"Q": pdf.String("q")}},
			pdf.String("bare compressed string"),
		},
		streams: []streamSpec{
			{dict: pdf.Dict{"Key": pdf.String("string in stream dict"), "Arr": pdf.Array{pdf.String("arr in stream dict")}}, body: all},
			{dict: pdf.Dict{"Note": pdf.String("flate")}, body: big, filters: []pdf.Filter{pdf.FilterCompress{}}}, // Flate from 1.2 on, LZW at 1.1,
			{dict: pdf.Dict{"Note": pdf.String("empty")}, body: nil},
			{dict: pdf.Dict{"Note": pdf.String("one block")}, body: []byte("0123456789abcdef")},
			{dict: pdf.Dict{"Note": pdf.String("two blocks less one")}, body: []byte("0123456789abcdef0123456789abcde")},
		},
		title:    "T\u00edtulo \u65e5\u672c",
		xmpTitle: "XMP title marker",
	}
}

type written struct {
	data    []byte
	objRefs []pdf.Reference
	cmpRefs []pdf.Reference
	stmRefs []pdf.Reference
	meta    *pdf.MetadataStream
	R, V    int
	length  int
	cfm     string
}

func newMeta(g *graph, mode string) (*pdf.MetadataStream, error) {
	if mode == "none" {
		return nil, nil
	}
	packet := xmp.NewPacket()
	dc := &xmp.DublinCore{}
	dc.Title.Set(language.Und, g.xmpTitle)
	dc.Creator.Append(xmp.NewProperName("C09"))
	if err := packet.Set(dc); err != nil {
		return nil, err
	}
	return &pdf.MetadataStream{Data: packet, Plaintext: mode == "plaintext"}, nil
}

var fixedID = [][]byte{[]byte("C09-fixed-id-0-0"), []byte("C09-fixed-id-1-1")}

// write produces the file.  stage tells where an error happened:
// "options" = NewWriter refused, anything else = later.
func write(g *graph, v pdf.Version, user, owner string, perm pdf.Perm, mode string, human bool) (wr *written, stage string, err error) {
	ms, err := newMeta(g, mode)
	if err != nil {
		return nil, "xmp", err
	}
	opt := &pdf.WriterOptions{
		ID:               [][]byte{append([]byte{}, fixedID[0]...), append([]byte{}, fixedID[1]...)},
		UserPassword:     user,
		OwnerPassword:    owner,
		UserPermissions:  perm,
		DocumentMetadata: ms,
		HumanReadable:    human,
	}
	return writeWith(g, v, opt, ms)
}

// writeWith writes the fixed graph with the options value given (a fresh one
// in every space but "options-reuse").  ms is what the caller put into
// opt.DocumentMetadata.
func writeWith(g *graph, v pdf.Version, opt *pdf.WriterOptions, ms *pdf.MetadataStream) (wr *written, stage string, err error) {
	buf := &bytes.Buffer{}
	w, err := pdf.NewWriter(buf, v, opt)
	if err != nil {
		return nil, "options", err
	}
	wr = &written{meta: ms}
	if enc, ok := w.GetMeta().Trailer["Encrypt"].(pdf.Dict); ok {
		if i, ok := enc["R"].(pdf.Integer); ok {
			wr.R = int(i)
		}
		if i, ok := enc["V"].(pdf.Integer); ok {
			wr.V = int(i)
		}
		if i, ok := enc["Length"].(pdf.Integer); ok {
			wr.length = int(i)
		}
		if cf, ok := enc["CF"].(pdf.Dict); ok {
			if std, ok := cf["StdCF"].(pdf.Dict); ok {
				if n, ok := std["CFM"].(pdf.Name); ok {
					wr.cfm = string(n)
				}
			}
		}
	}

	// pages (the Reader insists on a page tree)
	pages := w.Alloc()
	if err := w.Put(pages, pdf.Dict{"Type": pdf.Name("Pages"), "Kids": pdf.Array{}, "Count": pdf.Integer(0)}); err != nil {
		return nil, "pages", err
	}
	w.GetMeta().Catalog.Pages = pages
	w.GetMeta().Info.Title = pdf.TextString(g.title)

	// all objects are cloned: the Writer must not see the oracle's copy
	for _, o := range g.objs {
		ref := w.Alloc()
		wr.objRefs = append(wr.objRefs, ref)
		if err := w.Put(ref, hx.Clone(o)); err != nil {
			return nil, "put", err
		}
	}
	for _, s := range g.streams {
		ref := w.Alloc()
		wr.stmRefs = append(wr.stmRefs, ref)
		d, _ := hx.Clone(s.dict).(pdf.Dict)
		body, err := w.OpenStream(ref, d, s.filters...)
		if err != nil {
			return nil, "openstream", err
		}
		if _, err := body.Write(append([]byte{}, s.body...)); err != nil {
			return nil, "stream-write", err
		}
		if err := body.Close(); err != nil {
			return nil, "stream-close", err
		}
	}
	var cobjs []pdf.Object
	for _, o := range g.compressed {
		wr.cmpRefs = append(wr.cmpRefs, w.Alloc())
		cobjs = append(cobjs, hx.Clone(o))
	}
	if err := w.WriteCompressed(wr.cmpRefs, cobjs...); err != nil {
		return nil, "writecompressed", err
	}
	if err := w.Close(); err != nil {
		return nil, "close", err
	}
	wr.data = buf.Bytes()
	return wr, "", nil
}

// verifyContent compares everything readable through r with the graph.
func verifyContent(g *graph, wr *written, r *pdf.Reader, mode string) *failure {
	get := func(ref pdf.Reference) (pdf.Native, error) { return r.Get(ref, true) }
	for i, o := range g.objs {
		got, err := get(wr.objRefs[i])
		if err != nil {
			return &failure{fp: "content:get-error", what: fmt.Sprintf("object %d: %v", i, err)}
		}
		if !hx.Equal(got, o) {
			return &failure{fp: "content:object-differs", what: fmt.Sprintf("object %d reads %s, written %s", i, hx.Show(got), hx.Show(o))}
		}
	}
	for i, o := range g.compressed {
		got, err := get(wr.cmpRefs[i])
		if err != nil {
			return &failure{fp: "content:get-error:compressed", what: fmt.Sprintf("compressed object %d: %v", i, err)}
		}
		if !hx.Equal(got, o) {
			return &failure{fp: "content:compressed-object-differs", what: fmt.Sprintf("compressed object %d reads %s, written %s", i, hx.Show(got), hx.Show(o))}
		}
	}
	for i, s := range g.streams {
		got, err := get(wr.stmRefs[i])
		if err != nil {
			return &failure{fp: "content:get-error:stream", what: fmt.Sprintf("stream %d: %v", i, err)}
		}
		stm, ok := got.(*pdf.Stream)
		if !ok {
			return &failure{fp: "content:stream-type", what: fmt.Sprintf("stream %d reads as %T", i, got)}
		}
		keys := make([]string, 0, len(s.dict))
		for k := range s.dict {
			keys = append(keys, string(k))
		}
		sort.Strings(keys)
		for _, k := range keys {
			if !hx.Equal(stm.Dict[pdf.Name(k)], s.dict[pdf.Name(k)]) {
				return &failure{fp: "content:stream-dict-differs", what: fmt.Sprintf("stream %d /%s reads %s, written %s", i, k, hx.Show(stm.Dict[pdf.Name(k)]), hx.Show(s.dict[pdf.Name(k)]))}
			}
		}
		rd, err := pdf.DecodeStream(r, nil, stm)
		if err != nil {
			return &failure{fp: "content:stream-decode-error", what: fmt.Sprintf("stream %d: %v", i, err)}
		}
		body, err := io.ReadAll(rd)
		rd.Close()
		if err != nil {
			return &failure{fp: "content:stream-read-error", what: fmt.Sprintf("stream %d: %v", i, err)}
		}
		if !bytes.Equal(body, s.body) {
			return &failure{fp: "content:stream-body-differs", what: fmt.Sprintf("stream %d: read %d bytes %.40q, written %d bytes", i, len(body), body, len(s.body))}
		}
	}
	m := r.GetMeta()
	if m.Info == nil || string(m.Info.Title) != g.title {
		return &failure{fp: "content:info-title", what: fmt.Sprintf("Info.Title reads %+v, written %q", m.Info, g.title)}
	}
	if mode != "none" {
		if m.Catalog == nil || m.Catalog.Metadata == nil {
			return &failure{fp: "content:metadata-missing", what: "document metadata not returned (mode " + mode + ")"}
		}
		if !m.Catalog.Metadata.Equal(wr.meta) {
			return &failure{fp: "content:metadata-differs", what: "document metadata differs (mode " + mode + ")"}
		}
	}
	return nil
}

// ---------------------------------------------------------------------------
// the oracle

type prep struct {
	b    []byte
	ok   bool
	grey bool // not preparable by the letter of the standard, but only because of an "undefined" PDFDocEncoding position
}

func prepare(pw string, rev int) prep {
	b, err := stdsec.Prepare(pw, rev)
	if err == nil {
		return prep{b: b, ok: true}
	}
	if rev <= 4 {
		grey := true
		for _, r := range pw {
			if _, ok := stdsec.PDFDocEncodeRune(r); !ok && !stdsec.PDFDocUndefined(r) {
				grey = false
			}
		}
		return prep{grey: grey}
	}
	return prep{}
}

// firstDiff returns the index of the first byte in which a and b differ
// (the length of the shorter one if it is a prefix of the other).
func firstDiff(a, b []byte) int {
	n := min(len(a), len(b))
	for i := 0; i < n; i++ {
		if a[i] != b[i] {
			return i
		}
	}
	return n
}

func (p prep) eq(q prep) bool { return p.ok && q.ok && bytes.Equal(p.b, q.b) }

func isAuthErr(err error) bool {
	var ae *pdf.AuthenticationError
	return errors.As(err, &ae)
}

type runner struct {
	r *ev.Run
	g *graph
}

func versionOf(s string) (pdf.Version, bool) {
	v, err := pdf.ParseVersion(s)
	return v, err == nil
}

// checkFile writes the file of c and opens it with every try.  It returns
// the failures found (at most one per try).
func (rn *runner) checkFile(c *Case) []failure {
	r := rn.r
	g := rn.g
	v, ok := versionOf(c.Version)
	if !ok {
		r.Infra("bad version in case: " + c.Version)
		return nil
	}
	perm := pdf.Perm(c.Perm)

	r.Eval(1)
	wr, stage, err := write(g, v, c.User, c.Owner, perm, c.Meta, c.Human)
	return rn.judge(c, wr, stage, err)
}

// judge opens the file written for c (wr, or the Writer's refusal stage/err)
// with every try and decides every open from c.User, c.Owner, c.Perm and
// c.Meta alone.
func (rn *runner) judge(c *Case, wr *written, stage string, err error) []failure {
	r := rn.r
	g := rn.g
	perm := pdf.Perm(c.Perm)
	files := "files_"
	if c.Space == "options-reuse" {
		files = "reuse_documents_"
	}
	if err != nil {
		if stage == "options" {
			// not accepted by the Writer: outside the statement
			var ve *pdf.VersionError
			switch {
			case errors.As(err, &ve):
				r.Count(files+"rejected_version: "+ve.Operation, 1)
			case c.User == "" && c.Owner == "":
				r.Count(files+"rejected_other", 1)
			default:
				r.Count(files+"rejected_password", 1)
				r.Outcome("writer:password-rejected")
			}
			return nil
		}
		if stage == "xmp" {
			r.Infra("cannot build XMP packet: " + err.Error())
			return nil
		}
		// The Writer accepted the passwords but cannot write the fixed graph.
		r.Count(files+"rejected_write_error_"+stage, 1)
		r.Outcome("writer:accepted-options-but-write-error")
		return nil
	}
	if wr.R == 0 {
		r.Count(files+"unencrypted", 1)
		return nil
	}
	c.R = wr.R
	cfg := fmt.Sprintf("R%d", wr.R)
	if wr.R == 3 {
		cfg = fmt.Sprintf("R3/%d", 40+88*(wr.V-1))
	}
	cipher := wr.cfm
	if cipher == "" {
		cipher = "RC4"
	}
	r.Count(fmt.Sprintf("%sencrypted R%d V%d %s Length=%d", files, wr.R, wr.V, cipher, wr.length), 1)

	pu := prepare(c.User, wr.R)
	effOwner := c.Owner
	if effOwner == "" {
		effOwner = c.User // no owner password given: nothing but the user password is a password of this file
	}
	po := prepare(effOwner, wr.R)
	pEmpty := prepare("", wr.R)
	if !pu.ok || !po.ok {
		// The Writer accepted a password the reference preparation rejects.
		// Grey zone (undefined PDFDocEncoding positions): the standard does
		// not say what the preparation is; only demand that the very same
		// strings open the file.  Anything else is reported.
		if !(pu.ok || pu.grey) || !(po.ok || po.grey) {
			return []failure{{fp: fmt.Sprintf("writer-accepts-unpreparable-password:R%d", wr.R),
				what: fmt.Sprintf("NewWriter(%s) accepted user %q owner %q although the standard's preparation for revision %d rejects one of them", c.Version, c.User, c.Owner, wr.R)}}
		}
		r.Outcome("writer:grey-password-accepted")
		var out []failure
		for _, pw := range []string{c.User, effOwner} {
			r.Eval(1)
			rd, err := pdf.NewReader(bytes.NewReader(wr.data), int64(len(wr.data)), &pdf.ReaderOptions{Password: pw})
			if err != nil {
				out = append(out, failure{fp: fmt.Sprintf("own-password-rejected:grey:R%d", wr.R), try: pw,
					what: fmt.Sprintf("file written with user %q owner %q does not open with %q: %v", c.User, c.Owner, pw, err)})
				continue
			}
			if f := verifyContent(g, wr, rd, c.Meta); f != nil {
				f.try = pw
				out = append(out, *f)
			}
		}
		return out
	}
	emptyOpens := pu.eq(pEmpty)
	ownerIsEmpty := po.eq(pEmpty)
	want := closure(perm)

	var out []failure
	type try struct {
		pw   string
		none bool
	}
	tries := []try{{none: true}}
	for _, t := range c.Tries {
		tries = append(tries, try{pw: t})
	}
	for _, t := range tries {
		r.Eval(1)
		var opt *pdf.ReaderOptions
		label := "(no options)"
		if !t.none {
			opt = &pdf.ReaderOptions{Password: t.pw}
			label = fmt.Sprintf("%q", t.pw)
		}
		pt := prepare(t.pw, wr.R)
		isUser := pt.eq(pu)
		isOwner := pt.eq(po)
		ptKey := "unpreparable"
		if pt.ok {
			ptKey = string(pt.b)
		}
		r.DistinctS(fmt.Sprintf("%s|%s|%d|%v|%x|%x|%s", c.Version, c.Meta, c.Perm, c.Human, pu.b, po.b, ptKey))

		rd, err := pdf.NewReader(bytes.NewReader(wr.data), int64(len(wr.data)), opt)
		fail := func(fp, what string) {
			out = append(out, failure{fp: fp, try: t.pw,
				what: fmt.Sprintf("%s version %s user %q owner %q perm %#x meta %s, opened with %s: %s", cfg, c.Version, c.User, c.Owner, c.Perm, c.Meta, label, what)})
		}

		mustOpen := isUser || isOwner || emptyOpens && pt.eq(pEmpty)
		mustFail := !emptyOpens && !isUser && !isOwner
		switch {
		case err == nil && rd == nil:
			fail("open:nil-reader-nil-error", "NewReader returned nil, nil")
		case err != nil && rd != nil:
			fail("open:reader-with-error", "NewReader returned a Reader together with error "+err.Error())
		case mustFail && err == nil:
			r.Outcome(cfg + ":open:WRONG-PASSWORD-ACCEPTED")
			kind := "unpreparable"
			if pt.ok {
				kind = "differs-after-preparation"
				// how late is the first difference from the nearer of the file's passwords?
				bound := 32
				if wr.R >= 5 {
					bound = 127
				}
				if max(firstDiff(pt.b, pu.b), firstDiff(pt.b, po.b)) >= bound-4 {
					kind += ":only-in-last-4-bytes-before-truncation-bound"
				}
			}
			fail(fmt.Sprintf("wrong-password-accepted:R%d:%s", wr.R, kind), "the password is neither the user nor the owner password after preparation, but the file opens")
		case mustFail:
			if pt.ok || pt.grey {
				if !pt.ok {
					// grey: either kind of error is fine
					r.Outcome("open:fail:grey-password")
				} else if !isAuthErr(err) {
					r.Outcome(cfg + ":open:fail:OTHER-ERROR")
					fail(fmt.Sprintf("wrong-password-error-type:R%d", wr.R), fmt.Sprintf("error is %T %v, not *pdf.AuthenticationError", err, err))
				} else {
					r.Outcome(cfg + ":open:fail:auth")
				}
			} else {
				// the revision cannot prepare this password at all: any error will do
				if isAuthErr(err) {
					r.Outcome(cfg + ":open:fail:unpreparable:auth")
				} else {
					r.Outcome(cfg + ":open:fail:unpreparable:other")
				}
			}
		case mustOpen && err != nil:
			r.Outcome(cfg + ":open:RIGHT-PASSWORD-REJECTED")
			role := "user"
			if !isUser {
				role = "owner"
				if !isOwner {
					role = "empty"
				}
			}
			fail(fmt.Sprintf("right-password-rejected:R%d:%s", wr.R, role), fmt.Sprintf("the password equals the %s password after preparation, but: %v", role, err))
		case err != nil:
			// empty user password and a try that is none of the file's
			// passwords: the statement is silent
			r.Outcome("open:silent:error")
		default:
			// opened
			if !mustOpen {
				// empty user password, arbitrary try: the statement only
				// says that no password is needed
				r.Outcome("open:ok:any-password-with-empty-user")
			}
			if f := verifyContent(g, wr, rd, c.Meta); f != nil {
				r.Outcome(cfg + ":open:CONTENT-DIFFERS")
				fail(fmt.Sprintf("%s:R%d", f.fp, wr.R), f.what)
				break
			}
			got := rd.GetMeta().Permissions
			allowUser, allowAll := false, false
			role := ""
			switch {
			case emptyOpens:
				// the empty password already opens the file: user access;
				// the statement makes no demand on owner access here
				allowUser = true
				allowAll = isOwner || ownerIsEmpty || !mustOpen
				role = "empty-user"
			case isUser && isOwner:
				allowUser, allowAll = true, true
				role = "user=owner"
			case isOwner:
				allowAll = true
				role = "owner"
			default:
				allowUser = true
				role = "user"
			}
			if !(allowUser && got == want) && !(allowAll && got == pdf.PermAll) {
				r.Outcome(cfg + ":open:ok:" + role + ":WRONG-PERMISSIONS")
				fail(fmt.Sprintf("permissions:%s:R%d:%s", role, wr.R, permDiff(got, want, allowUser, allowAll)),
					fmt.Sprintf("%s access reports permissions %#x; requested %#x, closure %#x", role, int(got), c.Perm, int(want)))
				break
			}
			if mustOpen {
				r.Outcome(cfg + ":open:ok:" + role)
			}
		}
	}
	return out
}

var permNames = []struct {
	p pdf.Perm
	n string
}{{pdf.PermCopy, "Copy"}, {pdf.PermPrintDegraded, "PrintDegraded"}, {pdf.PermPrint, "Print"}, {pdf.PermForms, "Forms"},
	{pdf.PermAnnotate, "Annotate"}, {pdf.PermAssemble, "Assemble"}, {pdf.PermModify, "Modify"}}

// permDiff names the defect class of a wrong permission report.
func permDiff(got, want pdf.Perm, allowUser, allowAll bool) string {
	if !allowUser {
		return "not-all"
	}
	var miss, extra []string
	for _, pn := range permNames {
		switch {
		case want&pn.p != 0 && got&pn.p == 0:
			miss = append(miss, pn.n)
		case want&pn.p == 0 && got&pn.p != 0:
			extra = append(extra, pn.n)
		}
	}
	if len(extra) == len(permNames)-bitsSet(want) && got == pdf.PermAll {
		return "all-instead-of-user"
	}
	return "missing=" + strings.Join(miss, "+") + ";extra=" + strings.Join(extra, "+")
}

func bitsSet(p pdf.Perm) int {
	n := 0
	for _, pn := range permNames {
		if p&pn.p != 0 {
			n++
		}
	}
	return n
}

func (rn *runner) one(c Case) {
	var fs []failure
	switch c.Space {
	case "lengths":
		fs = rn.checkLengths(&c)
	case "aliasing":
		fs = rn.checkAliasing(&c)
	case "containers":
		fs = rn.checkContainers(&c)
	case "typed-streams":
		fs = rn.checkTyped(&c)
	case "options-reuse":
		fs = rn.checkReuse(&c)
	default:
		fs = rn.checkFile(&c)
	}
	for _, f := range fs {
		cc := c
		cc.Failing = fmt.Sprintf("%q", f.try)
		rn.r.Violation(f.fp, f.what, cc)
	}
}

func selfTest(r *ev.Run) bool {
	if err := stdsec.SelfTest(); err != nil {
		r.Infra("ref/stdsec self-test: " + err.Error())
		return false
	}
	if err := boundaryCharsSelfTest(); err != nil {
		r.Infra(err.Error())
		return false
	}
	// closure: idempotent, monotone, and exactly the three implications
	for p := pdf.Perm(0); p <= pdf.PermAll; p++ {
		c := closure(p)
		if closure(c) != c || c&p != p {
			r.Infra("closure self-test")
			return false
		}
	}
	if closure(pdf.PermPrint) != pdf.PermPrint|pdf.PermPrintDegraded || closure(pdf.PermAnnotate) != pdf.PermAnnotate|pdf.PermForms ||
		closure(pdf.PermModify) != pdf.PermModify|pdf.PermAssemble || closure(pdf.PermCopy|pdf.PermForms|pdf.PermAssemble|pdf.PermPrintDegraded) != pdf.PermCopy|pdf.PermForms|pdf.PermAssemble|pdf.PermPrintDegraded {
		r.Infra("closure self-test (implications)")
		return false
	}
	if pdf.PermAll != 127 {
		r.Infra("the library no longer has 7 permission bits; the enumeration of permission sets must be revised")
		return false
	}
	return true
}

// Run is the check.
func Run(tier string) int {
	budget := 4 * time.Minute
	if tier == "thorough" {
		budget = 25 * time.Minute
	}
	r := ev.New("C09", tier, "exploration", budget)
	rn := &runner{r: r, g: theGraph()}
	r.Rule("a case is one file (version, user password, owner password, permissions, metadata mode, HumanReadable) written by the Writer and one password it is opened with by the Reader; in the length space a case is one (cipher, write piece size, password role, length, read buffer size) stream read or (cipher, role, length) string read; in the aliasing space a case is one (cipher, HumanReadable, value kind, string length, placement of the occurrences, password role) open with all objects read back; in the container space a case is one (cipher, HumanReadable, wide kind, fill, password role, width, outer wrapping, inner wrapping, write route) object read; in the typed-streams space a case is one (cipher, HumanReadable, document metadata mode, password role, write route, /Type, /Subtype, filter, length, referenced-from) stream read; in the options-reuse space a case is one (version, carry style, sequence, document index) document written from the reused options value, opened with every try; evaluations count writes, opens and, in the length, container and typed-streams spaces, stream, string and object reads; distinct = the length-space, aliasing-space, container-space, typed-streams-space and options-reuse-space cases, plus distinct (version, metadata mode, permissions, HumanReadable, prepared user password, prepared owner password, prepared try-password or 'unpreparable') tuples of encrypted files, i.e. passwords that the standard's preparation identifies count once")
	r.Assume("password preparation, permission closure and expected open/fail decision come from ref/stdsec and this package (written from ISO 32000 and RFC 4013, self-tested at start); SASLprep: unassigned code points of Unicode 3.2 not checked, NFKC of the current Unicode version",
		"passwords with a code point at an 'undefined' PDFDocEncoding position (here: U+00AD) are a grey zone for revisions <= 4: only the same string is required to open the file, a try with such a password must fail with any error",
		"a missing owner password means the file has no password but the user password",
		"random IDs, salts and IVs are never compared")
	if !selfTest(r) {
		return r.Finish()
	}

	pi := passwords(r.Thorough())
	r.Dim("passwords", len(pi))
	r.Dim("versions", len(versions))
	r.Dim("metadata_modes", metaModes)
	r.Dim("permission_sets", 128)
	r.Dim("tries_per_file_password_space", len(pi)+1)

	// (a) passwords x versions x metadata modes, every try
	var jobs []Case
	pwHuman := ev.Pick(r, []bool{false}, []bool{false, true})
	r.Dim("human_readable_password_space", pwHuman)
	r.Dim("human_readable_permission_space", []bool{false, true})
	for _, v := range versions {
		vs, _ := v.ToString()
		for _, human := range pwHuman {
			for _, m := range metaModes {
				for _, u := range pi {
					for _, o := range pi {
						jobs = append(jobs, Case{Space: "passwords", Version: vs, User: u, Owner: o, Perm: int(pdf.PermCopy | pdf.PermForms), Meta: m, Human: human, Tries: pi})
					}
				}
			}
		}
	}
	nA := len(jobs)

	// (b) permission sets x versions x password pairs x HumanReadable
	pairs := [][2]string{{"a", "ab"}, {"", "ab"}, {"a", ""}}
	if r.Thorough() {
		pairs = append(pairs, [2]string{"a", "a"}, [2]string{"\u00aa", "a"})
	}
	permTries := []string{"a", "ab", "", "\u00e4", "\u00aa"}
	r.Dim("permission_password_pairs", pairs)
	r.Dim("permission_tries", len(permTries)+1)
	for _, v := range versions {
		vs, _ := v.ToString()
		for _, human := range []bool{false, true} {
			for _, pr := range pairs {
				for p := 0; p < 128; p++ {
					m := "none"
					if r.Thorough() && p%2 == 1 && v >= pdf.V1_6 {
						m = "plaintext"
					}
					jobs = append(jobs, Case{Space: "permissions", Version: vs, User: pr[0], Owner: pr[1], Perm: p, Meta: m, Human: human, Tries: permTries})
				}
			}
		}
	}
	r.Dim("files_password_space", nA)
	r.Dim("files_permission_space", len(jobs)-nA)
	nB := len(jobs)

	// (c) passwords around the truncation bound of the preparation (32 and
	// 127): a character of 1..4 bytes of UTF-8 cut at every position, in the
	// role of user password, owner password and only password (thorough: all
	// pairs), every version, tried with every neighbour (families.go)
	longTries := 0
	for _, b := range truncationBounds {
		files, tries := boundaryPasswords(b)
		tries = append(tries, "a", "ab")
		longTries = len(tries) + 1
		r.Dim(fmt.Sprintf("long_passwords_bound_%d", b), len(files))
		var pairs [][2]string
		for _, p := range files {
			pairs = append(pairs, [2]string{p, "ab"}, [2]string{"a", p}, [2]string{p, ""})
		}
		if r.Thorough() {
			for _, p := range files {
				for _, q := range files {
					pairs = append(pairs, [2]string{p, q})
				}
			}
		}
		for _, v := range versions {
			vs, _ := v.ToString()
			for _, pr := range pairs {
				jobs = append(jobs, Case{Space: "long-passwords", Version: vs, User: pr[0], Owner: pr[1], Perm: int(pdf.PermCopy | pdf.PermForms), Meta: "none", Tries: tries})
			}
		}
	}
	r.Dim("long_password_truncation_bounds", truncationBounds)
	r.Dim("long_password_character_widths", []int{1, 2, 3, 4})
	r.Dim("long_password_rule", "ASCII[:bound-j] + character of w bytes, w=1..4, j=0..w bytes of it before the bound; tries: every such password, its ASCII prefix, prefix + a character differing first at byte k (k=1..w), password + one byte")
	r.Dim("tries_per_file_long_password_space", longTries)
	r.Dim("files_long_password_space", len(jobs)-nB)

	// (g) typed streams: streams written by the caller whose dictionaries say
	// /Type x /Subtype of an alphabet holding the types the library treats
	// specially under encryption, x filter x length x referenced-from, and the
	// library's own MetadataStream.Embed, next to the catalog's metadata stream
	// in every metadata mode; per version x metadata mode (x HumanReadable
	// thorough) (typed.go)
	typedLens := typedLengthsFor(r.Thorough())
	var tjobs []Case
	for _, v := range versions {
		vs, _ := v.ToString()
		for _, human := range pwHuman {
			for _, m := range metaModes {
				tjobs = append(tjobs, Case{Space: "typed-streams", Version: vs, User: "a", Owner: "ab", Perm: int(pdf.PermCopy | pdf.PermForms), Meta: m, Human: human, TypedLens: typedLens})
			}
		}
	}
	r.Dim("typed_stream_rule", "one stream for every (/Type, /Subtype, filter, body length, referenced-from) written with Writer.OpenStream, plus MetadataStream values embedded through ResourceManager.Embed (Plaintext false/true) x referenced-from, in one file per (version, HumanReadable, document metadata mode); every stream (dictionary entries written, decoded body or XMP packet), every referring page and the document metadata must read back as written with the user and with the owner password")
	r.Dim("typed_stream_types", typedTypes)
	r.Dim("typed_stream_subtypes", typedSubtypes)
	r.Dim("typed_stream_filters", typedFilters)
	r.Dim("typed_stream_lengths", typedLens)
	r.Dim("typed_stream_referenced_from", typedRefFrom)
	r.Dim("typed_stream_write_routes", typedRoutes)
	r.Dim("typed_streams_per_file", len(typedTypes)*len(typedSubtypes)*len(typedFilters)*len(typedLens)*len(typedRefFrom)+(len(typedRoutes)-1)*len(typedRefFrom))
	r.Dim("files_typed_stream_space", len(tjobs))
	r.Par(len(tjobs), func(k int) {
		if r.Expired() || r.TooManyViolations() {
			return
		}
		rn.one(tjobs[len(tjobs)-1-k]) // the AES files first
	})

	// (h) options reuse: ONE WriterOptions value used for k = 2..3 documents,
	// every sequence of (user, owner) pairs over {"", a, ab}, the caller
	// assigning only the fields that change (on the same value / on a struct
	// copy; thorough: also all fields), per version (reuse.go)
	reuseKs := []int{2, 3}
	reuseStyles := reuseStylesFor(r.Thorough())
	reusePatterns := reuseMetaPatternsFor(r.Thorough())
	nSeq := 0
	var rjobs []Case
	for _, v := range versions {
		vs, _ := v.ToString()
		for _, style := range reuseStyles {
			for _, pat := range reusePatterns {
				seqs := reuseSequences(reuseKs, pat)
				nSeq = len(seqs)
				for _, seq := range seqs {
					rjobs = append(rjobs, Case{Space: "options-reuse", Version: vs, Seq: seq, ReuseStyle: style, Tries: reuseTries})
				}
			}
		}
	}
	r.Dim("options_reuse_rule", "one WriterOptions value used for k documents in a row; document i gets (user, owner) = step i of the sequence, permission set options_reuse_permissions_by_position[i] and metadata mode pattern[i]; between documents the caller assigns per 'carry style'; every document is opened with every try and judged exactly like a file of the password space from the values assigned for it (as if written with a fresh options value)")
	r.Dim("options_reuse_passwords", reusePasswords)
	r.Dim("options_reuse_documents_per_sequence", reuseKs)
	r.Dim("options_reuse_sequences_per_version_style_pattern", nSeq)
	r.Dim("options_reuse_carry_styles", reuseStyles)
	r.Dim("options_reuse_metadata_patterns", reusePatterns)
	r.Dim("options_reuse_permissions_by_position", []int{int(reusePerms[0]), int(reusePerms[1]), int(reusePerms[2])})
	r.Dim("tries_per_document_options_reuse_space", len(reuseTries)+1)
	r.Dim("sequences_options_reuse_space", len(rjobs))
	r.Par(len(rjobs), func(k int) {
		if r.Expired() || r.TooManyViolations() {
			return
		}
		// version-major job list: stride so that revision 6 documents are spread over the workers
		per := len(rjobs) / len(versions)
		rn.one(rjobs[(k%len(versions))*per+k/len(versions)])
	})

	// (d) stream and string lengths around the cipher block size and around
	// multiples of 512, per version x write chunking (x HumanReadable thorough)
	lp := lengthParamsFor(r.Thorough())
	lengthsTop := lp.lengths[len(lp.lengths)-1] - 17
	var ljobs []Case
	for _, v := range versions {
		vs, _ := v.ToString()
		for _, human := range pwHuman {
			for _, wc := range lp.writeChunks {
				ljobs = append(ljobs, Case{Space: "lengths", Version: vs, User: "a", Owner: "ab", Perm: int(pdf.PermCopy | pdf.PermForms), Meta: "none", Human: human,
					LengthsTop: lengthsTop, WriteChunk: wc, ReadChunks: lp.readChunks})
			}
		}
	}
	r.Dim("length_family", fmt.Sprintf("every length 0..80 and m-17..m+17 for every multiple m of 512 up to %d: %d lengths, one unfiltered stream and one string each", lengthsTop, len(lp.lengths)))
	r.Dim("lengths", len(lp.lengths))
	r.Dim("length_write_piece_sizes", lp.writeChunks)
	r.Dim("length_read_buffer_sizes", lp.readChunks)
	r.Dim("files_length_space", len(ljobs))
	r.Par(len(ljobs), func(k int) {
		if r.Expired() || r.TooManyViolations() {
			return
		}
		rn.one(ljobs[k])
	})

	// (e) aliasing: the same Go value handed to the Writer 2 or 3 (thorough: 4)
	// times, every distribution of the occurrences over the places of the
	// write program x value kind x string length x version (x HumanReadable
	// thorough) (aliasing.go)
	ap := aliasParamsFor(r.Thorough())
	placements := aliasPlacements(ap.mult)
	var ajobs []Case
	for _, v := range versions {
		vs, _ := v.ToString()
		for _, human := range pwHuman {
			for _, kind := range aliasKinds {
				for _, l := range ap.lengths {
					for _, pl := range placements {
						ajobs = append(ajobs, Case{Space: "aliasing", Version: vs, User: "a", Owner: "ab", Perm: int(pdf.PermCopy | pdf.PermForms), Meta: "none", Human: human,
							AliasKind: kind, AliasLen: l, AliasSlots: pl})
					}
				}
			}
		}
	}
	r.Dim("aliasing_rule", "the same Go value handed to the Writer k times; every multiset of k places of one fixed write program; every occurrence must read back as written with the user and with the owner password")
	r.Dim("aliasing_value_kinds", aliasKinds)
	r.Dim("aliasing_places", aliasSlotNames)
	r.Dim("aliasing_occurrences", ap.mult)
	r.Dim("aliasing_placements", len(placements))
	r.Dim("aliasing_string_lengths", ap.lengths)
	r.Dim("files_aliasing_space", len(ajobs))
	r.Par(len(ajobs), func(k int) {
		if r.Expired() || r.TooManyViolations() {
			return
		}
		// version-major job list: stride so that revision 6 files are spread over the workers
		n := len(ajobs)
		per := n / len(versions)
		rn.one(ajobs[(k%len(versions))*per+k/len(versions)])
	})

	// (f) containers: strings at every depth of containers of every width
	// around the powers of two, per version x wide kind x fill (x HumanReadable
	// thorough) (containers.go)
	cp := containerParamsFor(r.Thorough())
	var cjobs []Case
	for _, fill := range []string{"dense", "sparse"} { // the expensive files first
		top := cp.topSparse
		if fill == "dense" {
			top = cp.topDense
		}
		for _, v := range versions {
			vs, _ := v.ToString()
			for _, human := range pwHuman {
				for _, kind := range containerKinds {
					cjobs = append(cjobs, Case{Space: "containers", Version: vs, User: "a", Owner: "ab", Perm: int(pdf.PermCopy | pdf.PermForms), Meta: "none", Human: human,
						ContKind: kind, ContFill: fill, ContTop: top})
				}
			}
		}
	}
	r.Dim("container_rule", "one object for every (width n, outer wrapping, inner wrapping, write route) in one file per (version, HumanReadable, wide kind, fill): a wide array/dictionary of n positions with a string (sparse: at the first, middle and last position; dense: at every position) wrapped per 'inner', the wide container wrapped per 'outer'; widths 1,2,3 and 2^k-1,2^k,2^k+1 for 4 <= 2^k <= top; every object must read back as written with the user and with the owner password")
	r.Dim("container_wide_kinds", containerKinds)
	r.Dim("container_fills", containerFills)
	r.Dim("container_inner_wrappings", containerInner)
	r.Dim("container_outer_wrappings", containerOuter)
	r.Dim("container_write_routes", containerRoutes)
	r.Dim("container_widths_sparse", containerWidths(cp.topSparse))
	r.Dim("container_widths_dense", containerWidths(cp.topDense))
	r.Dim("files_container_space", len(cjobs))
	r.Par(len(cjobs), func(k int) {
		if r.Expired() || r.TooManyViolations() {
			return
		}
		rn.one(cjobs[k])
	})

	// expensive (revision 6) files are spread evenly over the workers by
	// visiting the jobs in a strided order
	order := make([]int, 0, len(jobs))
	const stride = 97
	for s := 0; s < stride; s++ {
		for i := s; i < len(jobs); i += stride {
			order = append(order, i)
		}
	}
	r.Par(len(order), func(k int) {
		if r.Expired() {
			return
		}
		if r.TooManyViolations() {
			r.Capped("stopped enumerating after 25 distinct violation fingerprints")
			return
		}
		rn.one(jobs[order[k]])
	})
	r.Sample(jobs[nA/2+7])
	r.Sample(jobs[nA-3])
	r.Sample(jobs[nA+200])
	r.Sample(jobs[len(jobs)-2])
	r.Sample(tjobs[len(tjobs)-2])
	r.Sample(rjobs[len(rjobs)-5])
	lj := ljobs[len(ljobs)-2]
	r.Sample(lj)
	r.Sample(ajobs[len(ajobs)/2+5])
	r.Sample(cjobs[len(cjobs)-3])
	return r.Finish()
}

// Replay re-executes the case of a replay file.
func Replay(path string) int {
	var c Case
	if err := ev.ReplayCase(path, &c); err != nil {
		fmt.Println("replay:", err)
		return 2
	}
	r := ev.New("C09", "quick", "exploration", time.Minute)
	r.SetReplayMode()
	if !selfTest(r) {
		return r.Finish()
	}
	c.Failing = ""
	(&runner{r: r, g: theGraph()}).one(c)
	return r.Finish()
}
