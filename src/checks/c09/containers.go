//go:build verif

package c09

// The container family, added after an independently written breaking change
// was missed (notes/C09.md, "Strengthening after independent seeds, round 4"):
// the containers of the fixed object graph and of the other spaces have at
// most a handful of elements, so a defect that depends on the WIDTH of the
// container a string sits in (or on the number of strings in one object) was
// outside the explored space.  Here strings sit at every depth of containers
// of every width of a boundary family:
//
//	width n       1, 2, 3 and 2^k-1, 2^k, 2^k+1 for every power of two 4 <= 2^k <= top
//	              (top = 1024: 29 widths, ..., 63, 64, 65, ..., 1023, 1024, 1025)
//	wide kind     array of n elements | dictionary of n entries (keys /K0000 ... in key order)
//	fill          sparse   strings at the first, the middle (n/2) and the last position, integers elsewhere
//	              dense    a string at every position (objects with n strings)
//	inner         where the string sits relative to its position of the wide container:
//	              direct S | in-array [S i] | in-dict <</S S>> | array-in-dict <</A [S]>> |
//	              dict-in-array [<</S S>>] | array-in-array [[S]]
//	outer         where the wide container sits relative to the indirect object:
//	              top (the object itself) | in-array [/O wide] | in-dict <</O wide /T /t>>
//	route         put            Writer.Put
//	              stream-dict    Writer.OpenStream: the object itself as stream dictionary when it is a
//	                             dictionary, else as entry /W of the stream dictionary
//	              deferred-put   Writer.Put while a stream is open (written when the stream closes)
//	              compressed     member of a Writer.WriteCompressed call (one call per width; an object
//	                             stream from 1.5 on, plain objects below and with HumanReadable)
//
// One file per (version, HumanReadable, wide kind, fill) holds one object for
// every (width, outer, inner, route); every string of a file has its own
// content, and the varying part comes first (no shared prefixes).  The objects
// are built on the fly, once for the Writer and once more for the comparison,
// so the Writer never sees the oracle's copy.  Oracle: the statement's "opening
// it with the user password or the owner password returns every string ...
// exactly as written": with either password every object reads back equal to
// what was written.  Failures are collected per file and password role and
// reported once per symptom, with the failing widths, routes and shapes.

import (
	"bytes"
	"fmt"
	"sort"
	"strings"

	"seehuhn.de/go/pdf"
	"seehuhn.de/go/pdf/zzverif/checks/hx"
)

var (
	containerKinds  = []string{"array", "dict"}
	containerFills  = []string{"sparse", "dense"}
	containerInner  = []string{"direct", "in-array", "in-dict", "array-in-dict", "dict-in-array", "array-in-array"}
	containerOuter  = []string{"top", "in-array", "in-dict"}
	containerRoutes = []string{"put", "stream-dict", "deferred-put", "compressed"}
)

const (
	routePut = iota
	routeStreamDict
	routeDeferred
	routeCompressed
)

// containerWidths returns 1, 2, 3 and 2^k-1, 2^k, 2^k+1 for 4 <= 2^k <= top.
func containerWidths(top int) []int {
	seen := map[int]bool{}
	var out []int
	add := func(n int) {
		if n >= 1 && !seen[n] {
			seen[n] = true
			out = append(out, n)
		}
	}
	add(1)
	add(2)
	add(3)
	for p := 4; p <= top; p *= 2 {
		add(p - 1)
		add(p)
		add(p + 1)
	}
	sort.Ints(out)
	return out
}

type containerParams struct {
	topSparse, topDense int
}

func containerParamsFor(thorough bool) containerParams {
	if thorough {
		return containerParams{topSparse: 4096, topDense: 1024}
	}
	return containerParams{topSparse: 1024, topDense: 1024}
}

// containerShape identifies one object of a container file.
type containerShape struct {
	n, outer, inner, route int
}

func (s containerShape) String() string {
	return fmt.Sprintf("n=%d/%s/%s/%s", s.n, containerOuter[s.outer], containerInner[s.inner], containerRoutes[s.route])
}

// containerString is the content of the string at position pos of the wide
// container of shape s.  The varying part comes first.
func containerString(s containerShape, pos int) pdf.String {
	return pdf.String(fmt.Sprintf("%d of %d %d%d%d string in a wide container ()\\\x00\xff", pos, s.n, s.outer, s.inner, s.route))
}

// containerHasString tells whether position pos of a wide container of n
// positions holds a string.
func containerHasString(fill string, n, pos int) bool {
	return fill == "dense" || pos == 0 || pos == n/2 || pos == n-1
}

func containerElement(s containerShape, fill string, pos int) pdf.Object {
	if !containerHasString(fill, s.n, pos) {
		return pdf.Integer(pos)
	}
	str := containerString(s, pos)
	switch s.inner {
	case 0:
		return str
	case 1:
		return pdf.Array{str, pdf.Integer(pos)}
	case 2:
		return pdf.Dict{"S": str}
	case 3:
		return pdf.Dict{"A": pdf.Array{str}}
	case 4:
		return pdf.Array{pdf.Dict{"S": str}}
	default:
		return pdf.Array{pdf.Array{str}}
	}
}

// containerObject builds the object of shape s (a fresh value on every call).
func containerObject(kind, fill string, s containerShape) pdf.Object {
	var wide pdf.Object
	if kind == "dict" {
		d := make(pdf.Dict, s.n)
		for i := 0; i < s.n; i++ {
			d[pdf.Name(fmt.Sprintf("K%04d", i))] = containerElement(s, fill, i)
		}
		wide = d
	} else {
		a := make(pdf.Array, s.n)
		for i := range a {
			a[i] = containerElement(s, fill, i)
		}
		wide = a
	}
	switch s.outer {
	case 1:
		return pdf.Array{pdf.Name("O"), wide}
	case 2:
		return pdf.Dict{"O": wide, "T": pdf.Name("t")}
	}
	return wide
}

// containerStreamDict gives the stream dictionary that carries obj.
func containerStreamDict(obj pdf.Object) pdf.Dict {
	if d, ok := obj.(pdf.Dict); ok {
		return d
	}
	return pdf.Dict{"W": obj}
}

func containerStreamBody(s containerShape) []byte {
	return []byte(fmt.Sprintf("%d: body of the stream whose dictionary hosts a wide container", s.n))
}

type containerEntry struct {
	shape containerShape
	ref   pdf.Reference
}

// writeContainers produces the file of the container space.
func writeContainers(v pdf.Version, user, owner string, human bool, kind, fill string, top int) (wr *written, entries []containerEntry, stage string, err error) {
	okKind := kind == "array" || kind == "dict"
	okFill := fill == "sparse" || fill == "dense"
	if !okKind || !okFill || top < 4 || top > 1<<14 {
		return nil, nil, "case", fmt.Errorf("bad container case: kind %q fill %q top %d", kind, fill, top)
	}
	opt := &pdf.WriterOptions{
		ID:              [][]byte{append([]byte{}, fixedID[0]...), append([]byte{}, fixedID[1]...)},
		UserPassword:    user,
		OwnerPassword:   owner,
		UserPermissions: pdf.PermCopy | pdf.PermForms,
		HumanReadable:   human,
	}
	buf := &bytes.Buffer{}
	w, err := pdf.NewWriter(buf, v, opt)
	if err != nil {
		return nil, nil, "options", err
	}
	wr = &written{}
	if enc, ok := w.GetMeta().Trailer["Encrypt"].(pdf.Dict); ok {
		if i, ok := enc["R"].(pdf.Integer); ok {
			wr.R = int(i)
		}
		if i, ok := enc["V"].(pdf.Integer); ok {
			wr.V = int(i)
		}
		if i, ok := enc["Length"].(pdf.Integer); ok {
			wr.length = int(i)
		}
		if cf, ok := enc["CF"].(pdf.Dict); ok {
			if std, ok := cf["StdCF"].(pdf.Dict); ok {
				if n, ok := std["CFM"].(pdf.Name); ok {
					wr.cfm = string(n)
				}
			}
		}
	}
	pages := w.Alloc()
	if err := w.Put(pages, pdf.Dict{"Type": pdf.Name("Pages"), "Kids": pdf.Array{}, "Count": pdf.Integer(0)}); err != nil {
		return nil, nil, "pages", err
	}
	w.GetMeta().Catalog.Pages = pages

	shapes := func(n, route int, f func(s containerShape) error) error {
		for o := range containerOuter {
			for i := range containerInner {
				if err := f(containerShape{n: n, outer: o, inner: i, route: route}); err != nil {
					return err
				}
			}
		}
		return nil
	}
	for _, n := range containerWidths(top) {
		// put
		err := shapes(n, routePut, func(s containerShape) error {
			ref := w.Alloc()
			entries = append(entries, containerEntry{s, ref})
			return w.Put(ref, containerObject(kind, fill, s))
		})
		if err != nil {
			return nil, nil, "put", err
		}
		// stream-dict
		err = shapes(n, routeStreamDict, func(s containerShape) error {
			ref := w.Alloc()
			entries = append(entries, containerEntry{s, ref})
			body, err := w.OpenStream(ref, containerStreamDict(containerObject(kind, fill, s)))
			if err != nil {
				return err
			}
			if _, err := body.Write(containerStreamBody(s)); err != nil {
				return err
			}
			return body.Close()
		})
		if err != nil {
			return nil, nil, "stream", err
		}
		// deferred-put: all shapes are Put while one carrier stream is open
		carrier, err := w.OpenStream(w.Alloc(), pdf.Dict{"Carrier": pdf.Integer(n)})
		if err != nil {
			return nil, nil, "openstream", err
		}
		if _, err := carrier.Write([]byte("carrier ")); err != nil {
			return nil, nil, "stream-write", err
		}
		err = shapes(n, routeDeferred, func(s containerShape) error {
			ref := w.Alloc()
			entries = append(entries, containerEntry{s, ref})
			return w.Put(ref, containerObject(kind, fill, s))
		})
		if err != nil {
			return nil, nil, "put-in-stream", err
		}
		if _, err := carrier.Write([]byte("stream")); err != nil {
			return nil, nil, "stream-write", err
		}
		if err := carrier.Close(); err != nil {
			return nil, nil, "stream-close", err
		}
		// compressed: one WriteCompressed call with all shapes
		var crefs []pdf.Reference
		var cobjs []pdf.Object
		_ = shapes(n, routeCompressed, func(s containerShape) error {
			ref := w.Alloc()
			entries = append(entries, containerEntry{s, ref})
			crefs = append(crefs, ref)
			cobjs = append(cobjs, containerObject(kind, fill, s))
			return nil
		})
		if err := w.WriteCompressed(crefs, cobjs...); err != nil {
			return nil, nil, "writecompressed", err
		}
	}
	if err := w.Close(); err != nil {
		return nil, nil, "close", err
	}
	wr.data = buf.Bytes()
	return wr, entries, "", nil
}

// collectStrings lists the strings of an object in a fixed order (arrays in
// order, dictionaries in key order).
func collectStrings(o pdf.Object, out []pdf.String) []pdf.String {
	switch x := o.(type) {
	case pdf.String:
		out = append(out, x)
	case pdf.Array:
		for _, e := range x {
			out = collectStrings(e, out)
		}
	case pdf.Dict:
		keys := make([]string, 0, len(x))
		for k := range x {
			keys = append(keys, string(k))
		}
		sort.Strings(keys)
		for _, k := range keys {
			out = collectStrings(x[pdf.Name(k)], out)
		}
	}
	return out
}

// blank replaces every string of an object by the empty string (a copy).
func blank(o pdf.Object) pdf.Object {
	switch x := o.(type) {
	case pdf.String:
		return pdf.String{}
	case pdf.Array:
		a := make(pdf.Array, len(x))
		for i, e := range x {
			a[i] = blank(e)
		}
		return a
	case pdf.Dict:
		d := make(pdf.Dict, len(x))
		for k, e := range x {
			d[k] = blank(e)
		}
		return d
	}
	return o
}

// widthClass names the set of failing widths relative to all widths.
func widthClass(failing map[int]bool, all []int) string {
	if len(failing) == len(all) {
		return "all-widths"
	}
	lowest := -1
	for _, n := range all {
		if failing[n] {
			lowest = n
			break
		}
	}
	for _, n := range all {
		if n > lowest && !failing[n] {
			return "some-widths"
		}
	}
	return fmt.Sprintf("every-width-from-%d-up", lowest)
}

// checkContainers writes the file of c and reads every object with the user
// and with the owner password.
func (rn *runner) checkContainers(c *Case) []failure {
	r := rn.r
	v, ok := versionOf(c.Version)
	if !ok {
		r.Infra("bad version in case: " + c.Version)
		return nil
	}
	r.Eval(1)
	wr, entries, stage, err := writeContainers(v, c.User, c.Owner, c.Human, c.ContKind, c.ContFill, c.ContTop)
	if err != nil {
		switch stage {
		case "case":
			r.Infra(err.Error())
		case "options":
			r.Count("container_files_rejected_by_writer", 1)
		default:
			r.Count("container_files_rejected_write_error_"+stage, 1)
			r.Outcome("writer:accepted-options-but-write-error")
		}
		return nil
	}
	if wr.R == 0 {
		r.Count("files_unencrypted", 1)
		return nil
	}
	c.R = wr.R
	cipher := cipherName(wr)
	r.Count(fmt.Sprintf("container_files_encrypted R%d %s", wr.R, cipher), 1)
	widths := containerWidths(c.ContTop)
	where := fmt.Sprintf("container file, version %s %s, wide %s, %s fill", c.Version, cipher, c.ContKind, c.ContFill)

	type symptom struct {
		widths              map[int]bool
		routes, outer, inns map[string]bool
		n                   int
		first               string
	}
	var out []failure
	for _, role := range []string{"user", "owner"} {
		pw := c.User
		if role == "owner" {
			pw = c.Owner
		}
		r.Eval(1)
		rd, err := pdf.NewReader(bytes.NewReader(wr.data), int64(len(wr.data)), &pdf.ReaderOptions{Password: pw})
		if err != nil || rd == nil {
			out = append(out, failure{fp: fmt.Sprintf("right-password-rejected:R%d:%s", wr.R, role), try: pw,
				what: fmt.Sprintf("%s: the %s password %q is rejected: %v", where, role, pw, err)})
			continue
		}
		bad := map[string]*symptom{}
		note := func(sym string, s containerShape, what string) {
			b := bad[sym]
			if b == nil {
				b = &symptom{widths: map[int]bool{}, routes: map[string]bool{}, outer: map[string]bool{}, inns: map[string]bool{}, first: s.String() + ": " + what}
				bad[sym] = b
			}
			b.n++
			b.widths[s.n] = true
			b.routes[containerRoutes[s.route]] = true
			b.outer[containerOuter[s.outer]] = true
			b.inns[containerInner[s.inner]] = true
		}
		for _, e := range entries {
			s := e.shape
			r.Eval(1)
			r.DistinctS(fmt.Sprintf("cont|%s|%d|%v|%s|%s|%s|%d|%d|%d|%d", cipher, wr.R, c.Human, c.ContKind, c.ContFill, role, s.n, s.outer, s.inner, s.route))
			exp := containerObject(c.ContKind, c.ContFill, s)
			got, err := rd.Get(e.ref, true)
			if err != nil {
				note("get-error", s, err.Error())
				continue
			}
			var cmp pdf.Object = got
			if s.route == routeStreamDict {
				stm, ok := got.(*pdf.Stream)
				if !ok {
					note("stream-type", s, fmt.Sprintf("stream reads as %T", got))
					continue
				}
				// the entries written (the Writer adds /Length)
				expDict := containerStreamDict(exp)
				d := pdf.Dict{}
				for key := range expDict {
					if val, ok := stm.Dict[key]; ok {
						d[key] = val
					}
				}
				cmp, exp = d, expDict
				body, err := pdf.DecodeStream(rd, nil, stm)
				if err != nil {
					note("stream-decode-error", s, err.Error())
				} else {
					data, err := readChunked(body, 0)
					body.Close()
					if err != nil || !bytes.Equal(data, containerStreamBody(s)) {
						note("stream-body-differs", s, fmt.Sprintf("stream body reads as %d bytes %.40q (%v)", len(data), data, err))
					}
				}
			}
			if hx.Equal(cmp, exp) {
				r.Outcome("containers:object-ok")
				continue
			}
			if !hx.Equal(blank(cmp), blank(exp)) {
				note("object-differs-outside-the-strings", s, fmt.Sprintf("reads %s, written %s", hx.Show(cmp), hx.Show(exp)))
				continue
			}
			gs, ws := collectStrings(cmp, nil), collectStrings(exp, nil)
			nbad, first := 0, -1
			for i := range ws {
				if i >= len(gs) || !bytes.Equal(gs[i], ws[i]) {
					if first < 0 {
						first = i
					}
					nbad++
				}
			}
			what := fmt.Sprintf("%d of the %d strings of the object differ", nbad, len(ws))
			if first >= 0 && first < len(gs) {
				what += fmt.Sprintf("; string %d reads %.60q, written %.60q", first, string(gs[first]), string(ws[first]))
			}
			note("string-differs", s, what)
		}
		if len(bad) == 0 {
			continue
		}
		r.Outcome("containers:" + cipher + ":DIFFERS")
		syms := make([]string, 0, len(bad))
		for sym := range bad {
			syms = append(syms, sym)
		}
		sort.Strings(syms)
		keys := func(m map[string]bool) string {
			var l []string
			for k := range m {
				l = append(l, k)
			}
			sort.Strings(l)
			return strings.Join(l, ",")
		}
		for _, sym := range syms {
			b := bad[sym]
			var fw []int
			for n := range b.widths {
				fw = append(fw, n)
			}
			sort.Ints(fw)
			out = append(out, failure{fp: fmt.Sprintf("content:wide-container:%s:R%d:%s:%s", sym, wr.R, c.ContKind, widthClass(b.widths, widths)), try: pw,
				what: fmt.Sprintf("%s, opened with the %s password: %d of %d objects fail; failing widths %v of %v; routes %s; wide container %s; string %s; first: %s",
					where, role, b.n, len(entries), fw, widths, keys(b.routes), keys(b.outer), keys(b.inns), b.first)})
		}
	}
	return out
}
