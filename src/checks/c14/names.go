//go:build verif

package c14

import (
	"fmt"
	"reflect"
	"strings"

	"seehuhn.de/go/pdf"
	"seehuhn.de/go/pdf/document"
	"seehuhn.de/go/pdf/font"
	"seehuhn.de/go/pdf/zzverif/engine/ev"
)

// ---------------------------------------------------------------------------
// glyphs without a text (space "untext")
//
// A caller can show a glyph that carries no text: a decorative glyph, the
// extra glyphs of a one-to-many substitution, Encode(gid, ""). Slot.Untext
// marks the glyphs of a laid out sequence whose Text is set to "". Such a
// glyph still has a code and an advance width, and the statement asks both of
// them back; it has no text, so the text clauses ask nothing of it (a reader
// may or may not derive one from the glyph name).

func applyUntext(seq *font.GlyphSeq, untext []bool) {
	for i, u := range untext {
		if u && i < len(seq.Seq) {
			seq.Seq[i].Text = ""
		}
	}
}

var untextAlpha = []string{"A", "i", " "}

func untextCase(version, f, text string, mask int) Case {
	n := len([]rune(text))
	un := make([]bool, n)
	for i := 0; i < n; i++ {
		un[i] = mask&(1<<i) != 0
	}
	return Case{Space: "untext", Version: version, Fonts: []string{f},
		Slots: []Slot{{Font: 0, Text: text, Untext: un}}, Steps: []Step{{"L", 0}, {"E", 0}}}
}

// untextCases enumerates the space "untext" and describes it.
func untextCases(r *ev.Run, kindsL, others []string, add func(Case)) []string {
	byLen := [][]string{nil, nil, nil, nil}
	for _, s := range stringsUpTo(untextAlpha, 3) {
		if n := len([]rune(s)); n > 0 {
			byLen[n] = append(byLen[n], s)
		}
	}
	n := 0
	block := func(version, f string, lens ...int) {
		for _, l := range lens {
			for _, s := range byLen[l] {
				for mask := 1; mask < 1<<l; mask++ { // at least one glyph without text
					add(untextCase(version, f, s, mask))
					n++
				}
			}
		}
	}
	var dim []string
	took := func(format string, a ...any) {
		dim = append(dim, fmt.Sprintf(format, a...)+fmt.Sprintf(": %d documents", n))
		n = 0
	}
	dim = append(dim, fmt.Sprintf("strings over %q, every non-empty subset of the glyph positions gets Text \"\" (3, 27, 189 cases for length 1, 2, 3)", untextAlpha))
	all := append(append([]string{}, kindsL...), others...)
	if r.Thorough() {
		for _, f := range all {
			block("1.7", f, 1, 2, 3)
		}
		took("all %d fonts x PDF 1.7 x length<=3", len(all))
		for _, f := range all {
			block("2.0", f, 1, 2)
		}
		took("all %d fonts x PDF 2.0 x length<=2", len(all))
	} else {
		for _, f := range all {
			block("1.7", f, 1, 2)
		}
		took("all %d fonts x PDF 1.7 x length<=2", len(all))
		for _, f := range dressReps {
			block("1.7", f, 3)
		}
		took("%d representatives %v x PDF 1.7 x length 3", len(dressReps), dressReps)
		for _, f := range kindsL {
			block("2.0", f, 1)
		}
		took("18 kinds x PDF 2.0 x length 1")
	}
	// the glyph without text in one text object, a glyph with text in
	// another one of the same font instance, all interleavings
	for _, f := range kindsL {
		for _, t0 := range []string{"A", " "} {
			for _, t1 := range []string{"A", "i", " "} {
				for _, il := range interleavings {
					add(Case{Space: "untext", Version: "1.7", Fonts: []string{f}, Steps: il,
						Slots: []Slot{{Font: 0, Text: t0, Untext: []bool{true}}, {Font: 0, Text: t1}}})
					n++
				}
			}
		}
	}
	took("18 kinds, one instance shown twice: {A, space} without text and {A, i, space} with text x 6 interleavings")
	return dim
}

// ---------------------------------------------------------------------------
// resource names (space "names")
//
// Several fonts share the page's resource dictionary. A font gets its name
// there automatically at its first TextSetFont, or the caller binds it to a
// name of his own choice: Builder.RegisterFont, Builder.SetFontNameInternal,
// or the font carries its own Name (simple fonts). Whatever the names are,
// every string must read back with the font it was shown with.

// Naming binds one font of the case to a caller-chosen resource name.
type Naming struct {
	Font   int    `json:"font"`   // index into Case.Fonts
	How    string `json:"how"`    // register | internal | own
	Name   string `json:"name"`   // the resource name
	Before int    `json:"before"` // executed before the step with this index
}

var namingHows = []string{"register", "internal", "own"}

// canOwnName: the simple fonts have an exported Name field (Type 3 fonts
// take theirs from the type3.Font they are made of, composite fonts have none).
func canOwnName(label string) bool {
	return !isComposite(label) && label != "kind:Type3"
}

func setOwnName(F font.Layouter, name string) error {
	v := reflect.ValueOf(F)
	if v.Kind() != reflect.Pointer || v.Elem().Kind() != reflect.Struct {
		return fmt.Errorf("%T is not a pointer to a struct", F)
	}
	fld := v.Elem().FieldByName("Name")
	if !fld.IsValid() || !fld.CanSet() || fld.Type() != reflect.TypeOf(pdf.Name("")) {
		return fmt.Errorf("%T has no settable Name field", F)
	}
	fld.Set(reflect.ValueOf(pdf.Name(name)))
	return nil
}

// applyNamings runs the namings that are due before step k. A non-empty
// reject is the API refusing the input; bad is a defect of the case.
func applyNamings(c *Case, k int, doc *document.Page, fonts []font.Layouter) (reject string, bad error) {
	for _, nm := range c.Namings {
		if nm.Before != k {
			continue
		}
		if nm.Font < 0 || nm.Font >= len(fonts) {
			return "", fmt.Errorf("naming: font out of range")
		}
		F := fonts[nm.Font]
		var err error
		switch nm.How {
		case "register":
			err = doc.RegisterFont(pdf.Name(nm.Name), F)
		case "internal":
			err = doc.SetFontNameInternal(F, pdf.Name(nm.Name))
		case "own":
			if e := setOwnName(F, nm.Name); e != nil {
				return "", e
			}
		default:
			return "", fmt.Errorf("naming: unknown way %q", nm.How)
		}
		if err != nil {
			return "rejected:font-name:" + nm.How, nil
		}
	}
	return "", nil
}

// sharedNameClass refines the fingerprint of a failure in a text object of
// font fi: when another font instance of the page has the same resource name,
// the class is the pair of ways the two fonts came to their names.
func sharedNameClass(c *Case, fi int, resName map[int]pdf.Name) string {
	how := func(i int) string {
		for _, nm := range c.Namings {
			if nm.Font == i {
				return nm.How
			}
		}
		return "auto"
	}
	for j := range c.Fonts {
		if n, ok := resName[j]; ok && j != fi && n != "" && n == resName[fi] {
			a, b := how(fi), how(j)
			if a > b {
				a, b = b, a
			}
			return a + "+" + b
		}
	}
	return ""
}

var nameTexts = []string{"AB", "CD", "EF"}

// namesCases enumerates the space "names" and describes it.
func namesCases(r *ev.Run, kindsL []string, add func(Case)) []string {
	n := 0
	type opt struct{ how, name string }
	options := func(label string, names []string) []opt {
		out := []opt{{"", ""}}
		for _, h := range namingHows {
			if h == "own" && !canOwnName(label) {
				continue
			}
			for _, nm := range names {
				out = append(out, opt{h, nm})
			}
		}
		return out
	}
	// every assignment of a naming to every font, at both times
	block := func(labels []string, names []string) {
		k := len(labels)
		opts := make([][]opt, k)
		for i, l := range labels {
			opts[i] = options(l, names)
		}
		var steps []Step
		var slots []Slot
		for i := range labels {
			slots = append(slots, Slot{Font: i, Text: nameTexts[i]})
			steps = append(steps, Step{"L", i}, Step{"E", i})
		}
		idx := make([]int, k)
		for {
			called := false
			for i := range idx {
				h := opts[i][idx[i]].how
				// a call for font 0 just before its Layout is a call at the start
				called = called || (i > 0 && (h == "register" || h == "internal"))
			}
			for _, late := range []bool{false, true} {
				if late && !called {
					continue // only calls have a time; the own Name is set at the start
				}
				c := Case{Space: "names", Version: "1.7", Fonts: labels, Slots: slots, Steps: steps}
				for i := range idx {
					o := opts[i][idx[i]]
					if o.how == "" {
						continue
					}
					nm := Naming{Font: i, How: o.how, Name: o.name}
					if late && o.how != "own" {
						nm.Before = 2 * i // just before the font's own Layout
					}
					c.Namings = append(c.Namings, nm)
				}
				if len(c.Namings) > 0 {
					add(c)
					n++
				}
			}
			j := 0
			for ; j < k; j++ {
				idx[j]++
				if idx[j] < len(opts[j]) {
					break
				}
				idx[j] = 0
			}
			if j == k {
				break
			}
		}
	}
	var dim []string
	took := func(format string, a ...any) {
		dim = append(dim, fmt.Sprintf(format, a...)+fmt.Sprintf(": %d documents", n))
		n = 0
	}
	dim = append(dim, fmt.Sprintf("k fonts on one page, font i shows %q in its own text object, in order; per font the name is automatic or bound by the caller through %v (own = the font's Name field, simple fonts only) to one of the listed names; the calls are made all before the first text object or each just before the font's Layout; every assignment with at least one caller-chosen name", nameTexts, namingHows))
	full := []string{"F1", "F2", "F3", "Body"}
	std3 := []string{"std:Helvetica", "std:Times-Roman", "std:Courier"}
	block(std3, full)
	took("%v x names %v", std3, full)
	pairNames := ev.Pick(r, []string{"F1", "F2"}, full)
	for i, f := range kindsL {
		block([]string{f, kindsL[(i+7)%len(kindsL)]}, pairNames)
	}
	took("18 pairs (kind, kind 7 places further in fonttypes.All) x names %v", pairNames)
	for _, f := range []string{"kind:TrueTypeSimple", "kind:CFFComposite1", "go-composite-utf8:Regular"} {
		block([]string{f, f}, pairNames)
	}
	took("two instances of TrueTypeSimple, CFFComposite1, go-composite-utf8:Regular x names %v", pairNames)
	if r.Thorough() {
		trip := [][]string{
			{"kind:TrueTypeSimple", "kind:CFFComposite1", "kind:Type3"},
			{"kind:Type1a", "kind:TrueTypeComposite", "kind:OpenTypeCFFSimple1"},
			{"go-composite-utf8:Regular", "std:Helvetica", "kind:CFFSimple1"},
		}
		for _, t := range trip {
			block(t, []string{"F1", "F2", "F3"})
		}
		took("3 triples %v x names {F1, F2, F3}", trip)
	}
	return dim
}

func namingsSize(nn []Naming) int {
	n := 0
	for _, nm := range nn {
		n += 4
		if nm.Before != 0 {
			n++
		}
		if nm.How != "register" {
			n++
		}
		if strings.HasPrefix(nm.Name, "F") {
			n += int(nm.Name[len(nm.Name)-1] - '0')
		} else {
			n += 5
		}
	}
	return n
}
